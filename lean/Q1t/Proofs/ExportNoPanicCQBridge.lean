import Q1t.Proofs.ExportNoPanicCQ
import Q1t.Model.ExportBridge
/-!
C18 ← C12, circuit level: `Circuit::c_qasm` (model `Q1t.CQ.exportText` over the generated table) never panics
on the image (`ofCirc`) of a built circuit whose indices are in range and that has no c-QASM-relevant defect.
-/
set_option linter.unusedSectionVars false
set_option linter.unusedVariables false
set_option linter.unusedSimpArgs false
namespace Q1t.CQ
open Q1t Q1t.Gen Q1t.Sim Q1t.WellFormed Q1t.Builders

variable {F : Type}

theorem qNames_length (n : Nat) : (qNames n).length = n := by simp [qNames]

/-- a library gate whose table entry is sane, with enough parameters -/
theorem lib_ok (name : String) (k : Nat) (ps : List (Param F))
    (h : (cqGates.find? (·.name == name)).map (fun g => (cqOK g, g.params.length, g.name == name)) = some (true, k, true))
    (hps : ps.length = k) : xOK cqGates (.lib name ps) = true := by
  cases hf : cqGates.find? (·.name == name) with
  | none => rw [hf] at h; cases h
  | some g =>
    rw [hf] at h
    simp only [Option.map_some, Option.some.injEq, Prod.mk.injEq] at h
    simp only [xOK, hf, h.1, h.2.2, Bool.and_self, Bool.true_and, Bool.and_true, decide_eq_true_eq]
    omega

theorem find_H : (cqGates.find? (·.name == "H")).map (fun g => (cqOK g, g.params.length, g.name == "H")) = some (true, 0, true) := by
  decide
theorem find_Sdg : (cqGates.find? (·.name == "Sdg")).map (fun g => (cqOK g, g.params.length, g.name == "Sdg")) = some (true, 0, true) := by
  decide

/-- what `exportOp` needs of one operation -/
def XOpGood (nq : Nat) : XOp F → Prop
  | .gate g bits => xOK cqGates g = true ∧ nrBits g = bits.length ∧ ∀ b ∈ bits, b < nq
  | .cond control _ g bits =>
    (xOK cqGates g = true ∧ nrBits g = bits.length ∧ ∀ b ∈ bits, b < nq) ∧
      control.length ≤ 64 ∧ ∀ c ∈ control, c < nq
  | .reset q => q < nq
  | _ => True

theorem exportOp_ne_panic (N : Num F) (nq : Nat) (op : XOp F) (h : XOpGood nq op) :
    exportOp cqGates N nq op ≠ .panic := by
  have hlib : ∀ (name : String) (bit : Nat), bit < nq →
      (cqGates.find? (·.name == name)).map (fun g => (cqOK g, g.params.length, g.name == name)) = some (true, 0, true) →
      libBits name = 1 → cQasm cqGates N (qNames nq) (.lib name []) [bit] ≠ .panic := by
    intro name bit hb hf h1
    exact cQasm_ne_panic cqGates N (qNames nq) _ _ (lib_ok name 0 [] hf rfl) (by simp [nrBits, h1])
      (by simpa [qNames_length] using hb)
  cases op with
  | gate g bits =>
    obtain ⟨h1, h2, h3⟩ := h
    simp only [exportOp]
    exact bind_ne_panic (cQasm_ne_panic _ N _ g bits h1 h2 (by simpa [qNames_length] using h3)) fun _ _ => pure_ne_panic _
  | cond control target g bits =>
    obtain ⟨⟨h1, h2, h3⟩, hl, hc⟩ := h
    simp only [exportOp]
    split
    · exact bind_ne_panic (cQasm_ne_panic _ N _ g bits h1 h2 (by simpa [qNames_length] using h3)) fun _ _ => pure_ne_panic _
    · rw [if_neg (by omega)]
      rw [if_neg (by
        simp only [List.any_eq_true, decide_eq_true_eq, not_exists, not_and]
        intro x hx; have := hc x hx; omega)]
      exact bind_ne_panic (condCQasm_ne_panic _ N _ _ g bits h1 h2 (by simpa [qNames_length] using h3))
        fun _ _ => pure_ne_panic _
  | measure q c b =>
    simp only [exportOp]
    split <;> (intro h; cases h)
  | measureAll cbits b =>
    simp only [exportOp]
    split
    · intro h; cases h
    · cases b with
      | Z => intro h; cases h
      | X =>
        refine bind_ne_panic ?_ fun _ _ => pure_ne_panic _
        exact mapRes_ne_panic _ _ fun bit hb => hlib "H" bit (by simpa using hb) find_H (by decide)
      | Y =>
        refine bind_ne_panic ?_ fun _ _ => pure_ne_panic _
        refine map'_ne_panic (mapRes_ne_panic _ _ fun bit hb => ?_)
        have hbit : bit < nq := by simpa using hb
        exact bind_ne_panic (hlib "Sdg" bit hbit find_Sdg (by decide)) fun _ _ =>
          bind_ne_panic (hlib "H" bit hbit find_H (by decide)) fun _ _ => pure_ne_panic _
  | peek _ _ _ => intro h; cases h
  | peekAll _ _ => intro h; cases h
  | reset q =>
    have hq : q < nq := h
    simp only [exportOp]
    rw [List.getElem?_eq_getElem (by simpa [qNames_length] using hq)]
    intro h; cases h
  | resetAll => intro h; cases h
  | barrier _ => intro h; cases h

theorem exportLoop_ne_panic (N : Num F) (nq : Nat) : ∀ (ops : List (XOp F)) (acc : List Text),
    (∀ op ∈ ops, XOpGood nq op) → exportLoop cqGates N nq ops acc ≠ .panic := by
  intro ops
  induction ops with
  | nil => intro acc _ h; cases h
  | cons op rest ih =>
    intro acc hg
    simp only [exportLoop]
    have := exportOp_ne_panic N nq op (hg op List.mem_cons_self)
    cases hop : exportOp cqGates N nq op with
    | ok ls => exact ih _ fun o ho => hg o (List.mem_cons_of_mem _ ho)
    | err e => intro h; cases h
    | panic => exact absurd hop this

theorem exportText_ne_panic (N : Num F) (c : XCircuit F) (h : ∀ op ∈ c.ops, XOpGood c.nq op) :
    exportText cqGates N c ≠ .panic :=
  map'_ne_panic (exportLoop_ne_panic N c.nq c.ops _ h)

/-! ### the built circuit as the exporter's input -/

macro "cq_lib" : tactic =>
  `(tactic| (refine ⟨lib_ok _ _ _ ?_ rfl, ?_⟩
             · simp only [List.length_cons, List.length_nil, Nat.reduceAdd]; decide
             · decide))

theorem ofC_ok (g : GateTerm F) (q : XGate F) (h : ofC g = some q) :
    xOK cqGates q = true ∧ nrBits q = 1 + Gate.nrBits g := by
  unfold ofC at h
  split at h <;> first
    | (cases h; simp only [Gate.nrBits, nrBits, Nat.reduceAdd]; cq_lib)
    | (cases h)

mutual
theorem ofTerm_ok : (g : GateTerm F) → gateOK g = true →
    xOK cqGates (ofTerm g) = true ∧ nrBits (ofTerm g) = Gate.nrBits g
  | .H, _ | .X, _ | .Y, _ | .Z, _ | .S, _ | .Sdg, _ | .T, _ | .Tdg, _ | .V, _ | .Vdg, _ | .I, _ => by
    simp only [ofTerm, nrBits, Gate.nrBits]; cq_lib
  | .RX _, _ | .RY _, _ | .RZ _, _ | .U1 _, _ | .U2 _ _, _ | .U3 _ _ _, _ => by
    simp only [ofTerm, nrBits, Gate.nrBits]; cq_lib
  | .CX, _ | .CY, _ | .CZ, _ | .Swap, _ => by
    simp only [ofTerm, nrBits, Gate.nrBits]; cq_lib
  | .C g, h => by
    rw [ofTerm]
    cases hc : ofC g with
    | some q => simpa [Gate.nrBits] using ofC_ok g q hc
    | none =>
      have ih := ofTerm_ok g (gateOK_of_isNamedC g (by simpa [gateOK] using h))
      simp only [xOK, nrBits, Gate.nrBits, ih.2, and_self]
  | .Kron a b, h => by
    simp only [gateOK, Bool.and_eq_true] at h
    have ha := ofTerm_ok a h.1
    have hb := ofTerm_ok b h.2
    simp only [ofTerm, xOK, nrBits, Gate.nrBits, ha.1, ha.2, hb.1, hb.2, Bool.and_self, and_self]
  | .Composite name n ops, h => by
    simp only [gateOK, Bool.and_eq_true, decide_eq_true_eq] at h
    simp only [ofTerm, xOK, nrBits, Gate.nrBits, ofOps_ok n ops h.2, and_self]
  | .Loop label iters name n body, h => by
    simp only [gateOK, Bool.and_eq_true, decide_eq_true_eq] at h
    simp only [ofTerm, xOK, nrBits, Gate.nrBits, ofOps_ok n body h.2, and_self]
theorem ofOps_ok (n : Nat) : (ops : OpList F) → opsOK n ops = true → xOpsOK cqGates n (ofOps ops) = true
  | .nil, _ => by simp [ofOps, xOpsOK]
  | .cons g bits rest, h => by
    simp only [opsOK, Bool.and_eq_true, decide_eq_true_eq, Bool.not_eq_true', List.all_eq_true] at h
    have hg := ofTerm_ok g h.1.1.1.1
    simp only [ofOps, xOpsOK, hg.1, hg.2, h.1.1.1.2, ofOps_ok n rest h.2, Bool.and_eq_true, decide_eq_true_eq,
      List.all_eq_true, true_and, and_true]
    exact h.1.2
end

theorem toTerm_ofC (g : GateTerm F) (q : XGate F) (h : ofC g = some q) : toTerm q = some (.C g) := by
  unfold ofC at h
  split at h <;> first
    | (cases h; rfl)
    | (cases h)

theorem xOpGood_of_wf (nq nc : Nat) (op : COp F) (hin : opInRange nq nc op)
    (hdef : ∀ d ∈ opDefects nq op, d.cQasm = false) : XOpGood nq (ofOp op) := by
  have hgate : ∀ (g : GateTerm F) (bits : List Nat), (∀ d ∈ gateDefects g bits, d.cQasm = false) →
      (∀ b ∈ bits, b < nq) →
      xOK cqGates (ofTerm g) = true ∧ nrBits (ofTerm g) = bits.length ∧ ∀ b ∈ bits, b < nq := by
    intro g bits hd hb
    have hok : gateOK g = true := by
      apply Classical.byContradiction; intro hg
      have := hd .badComposite (by simp [gateDefects, hg])
      simp [Defect.cQasm] at this
    have har : Gate.nrBits g = bits.length := by
      apply Classical.byContradiction; intro hg
      have := hd .arity (by simp [gateDefects, hg])
      simp [Defect.cQasm] at this
    have := ofTerm_ok g hok
    exact ⟨this.1, this.2.trans har, hb⟩
  cases op with
  | gate g bits => exact hgate g bits (by simpa [opDefects] using hdef) hin
  | cond control target g bits =>
    simp only [opDefects, List.mem_append] at hdef
    refine ⟨hgate g bits (fun d hd => hdef d (Or.inl (Or.inr hd))) hin.2, ?_, ?_⟩
    · apply Classical.byContradiction; intro hgt
      have := hdef .controlsGt64 (Or.inl (Or.inl (Or.inr (by simp; omega))))
      simp [Defect.cQasm] at this
    · intro c hc
      apply Classical.byContradiction; intro hge
      have hany : control.any (fun x => decide (nq ≤ x)) = true := List.any_eq_true.mpr ⟨c, hc, by simp; omega⟩
      have := hdef .condControlGeNq (Or.inr (by simp [hany]))
      simp [Defect.cQasm] at this
  | reset q => exact hin
  | measure q c b => trivial
  | peek q c b => trivial
  | measureAll cbits b => trivial
  | peekAll cbits b => trivial
  | resetAll => trivial
  | barrier bits => trivial

/-- **`Circuit::c_qasm` never panics** on a circuit whose indices are in range and that has no c-QASM-relevant
defect -/
theorem cQasm_ne_panic_circ (N : Num F) (c : Circ F) (hin : ∀ op ∈ c.ops, opInRange c.nq c.nc op)
    (hdef : ∀ op ∈ c.ops, ∀ d ∈ opDefects c.nq op, d.cQasm = false) :
    exportText cqGates N (ofCirc c) ≠ .panic := by
  apply exportText_ne_panic
  intro xop hx
  simp only [ofCirc, List.mem_map] at hx
  obtain ⟨op, hop, rfl⟩ := hx
  exact xOpGood_of_wf c.nq c.nc op (hin op hop) (hdef op hop)

end Q1t.CQ

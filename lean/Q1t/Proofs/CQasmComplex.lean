import Q1t.Proofs.AmpComplex
import Q1t.Proofs.CQasmCU3
/-!
C12: the complex numbers with the real cosine and sine (`Proofs/AmpComplex.lean`: `phalf x = x/2`, `padd = +`,
`pneg = −`) satisfy the additional angle laws of the assembled template identities, so those hold for the complex
matrices at ALL real angles.
-/
noncomputable section
namespace Q1t.AmpComplex
open Q1t Q1t.Proofs.CQasm

theorem lawfulNegHalf : LawfulNegHalf ℂ ℝ where
  cos_phalf_pneg x := by
    show ((Real.cos (-x / 2) : ℝ) : ℂ) = (Real.cos (x / 2) : ℝ)
    rw [neg_div, Real.cos_neg]
  sin_phalf_pneg x := by
    show ((Real.sin (-x / 2) : ℝ) : ℂ) = -((Real.sin (x / 2) : ℝ) : ℂ)
    rw [neg_div, Real.sin_neg, Complex.ofReal_neg]

theorem lawfulQuarter : LawfulQuarter ℂ ℝ where
  cos_q_add x y := by
    show ((Real.cos ((x + y) / 2 / 2) : ℝ) : ℂ) = (Real.cos (x / 2 / 2 + y / 2 / 2) : ℝ)
    congr 2; ring
  sin_q_add x y := by
    show ((Real.sin ((x + y) / 2 / 2) : ℝ) : ℂ) = (Real.sin (x / 2 / 2 + y / 2 / 2) : ℝ)
    congr 2; ring
  cos_q_neg x := by
    show ((Real.cos (-x / 2 / 2) : ℝ) : ℂ) = (Real.cos (x / 2 / 2) : ℝ)
    rw [neg_div, neg_div, Real.cos_neg]
  sin_q_neg x := by
    show ((Real.sin (-x / 2 / 2) : ℝ) : ℂ) = -((Real.sin (x / 2 / 2) : ℝ) : ℂ)
    rw [neg_div, neg_div, Real.sin_neg, Complex.ofReal_neg]

end Q1t.AmpComplex

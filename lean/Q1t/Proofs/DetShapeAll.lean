import Q1t.Proofs.DetShapePartN1
import Q1t.Proofs.DetShapePartC2
/-!
Assembly of `DetShapeHolds` for the generated tables.

Proved so far: `PartN1` (`DetShapePartN1*.lean`), `PartC` (`DetShapePartC2*.lean`, elementary pigeonhole route).
Until the other part files are complete, `detShapeHolds_of_remaining` takes them as hypotheses; when
`DetShapePartI/N2/G/K.lean` compile with `partI`, `partN2`, `partG`, `partK`, import them here and add

  `theorem detShapeHolds_generated (n) : DetShapeHolds (α := Q8) (A := Empty) n phG tblG ncG :=
     detShapeHolds_of_remaining n (partI n) partN2 (partG n) partK`
-/
namespace Q1t.Proofs.DetPlan
open Q1t Q1t.Proofs.TabG

theorem detShapeHolds_of_remaining (n : Nat) (hI : PartI n) (hN2 : PartN2) (hG : PartG n) (hK : PartK) :
    DetShapeHolds (α := Q8) (A := Empty) n phG tblG ncG :=
  detShapeHolds_of_parts n hI (partN_of partN1 hN2) hG hK partC2

end Q1t.Proofs.DetPlan

import Q1t.Proofs.DetShapePartIb
import Q1t.Proofs.DetShapePartN1
import Q1t.Proofs.DetShapePartN2b
import Q1t.Proofs.DetShapePartG
import Q1t.Proofs.DetShapePartK
import Q1t.Proofs.DetShapePartC2
/-!
**`DetShapeHolds` for the generated tables, every `n`** — assembly of the parts of `DetShapePlan.lean`:
`partIb`, `partN1`, `partN2b`, `partG`, `partK`, `partC2`.
-/
namespace Q1t.Proofs.DetPlan
open Q1t Q1t.Proofs.TabG

theorem detShapeHolds_generated (n : Nat) : DetShapeHolds (α := Q8) (A := Empty) n phG tblG ncG :=
  detShapeHolds_of_parts n (partIb n) (partN_of partN1 partN2b) (partG n) partK partC2

end Q1t.Proofs.DetPlan

import Q1t.Proofs.DetShapePartN1
/-!
Assembly of `DetShapeHolds` for the generated tables.

`PartN1` is proved (`DetShapePartN1*.lean`).  Until the other part files exist, `detShapeHolds_of_remaining` takes
them as hypotheses; when `DetShapePartI/N2/G/K/C.lean` compile, import them here and replace the body of the final
theorem by

  `detShapeHolds_generated (n) : DetShapeHolds (α := Q8) (A := Empty) n phG tblG ncG :=
     detShapeHolds_of_remaining n (partI n) partN2 (partG n) partK partC`
-/
namespace Q1t.Proofs.DetPlan
open Q1t Q1t.Proofs.TabG

theorem detShapeHolds_of_remaining (n : Nat) (hI : PartI n) (hN2 : PartN2) (hG : PartG n) (hK : PartK) (hC : PartC) :
    DetShapeHolds (α := Q8) (A := Empty) n phG tblG ncG :=
  detShapeHolds_of_parts n hI (partN_of partN1 hN2) hG hK hC

end Q1t.Proofs.DetPlan

import Q1t.Proofs.CQasmTpl
set_option linter.unusedSimpArgs false
/-!
C12 (`cq_wellformed_partial`), part 6: the hole-evaluation scan (`while let Some(i) = res[off..].find('{')`) on a
tokenised text whose remaining braces open and close evaluated holes around literal text.
-/
namespace Q1t.Proofs.CQasm
open Q1t Q1t.CQ

variable {F : Type}

theorem splitFirst_none (c : Char) : ∀ (a : Text), (∀ x ∈ a, x ≠ c) → splitFirst c a = none
  | [], _ => rfl
  | x :: xs, h => by
    simp [splitFirst, h x (by simp), splitFirst_none c xs (fun y hy => h y (by simp [hy]))]

theorem splitFirst_append (c : Char) : ∀ (a b : Text), (∀ x ∈ a, x ≠ c) → splitFirst c (a ++ c :: b) = some (a, b)
  | [], b, _ => by simp [splitFirst]
  | x :: xs, b, h => by
    simp [splitFirst, h x (by simp), splitFirst_append c xs b (fun y hy => h y (by simp [hy]))]

theorem holesF_nobrace (N : Num F) (fuel : Nat) (s : Text) (h : ∀ x ∈ s, x ≠ '{') : holesF N fuel s = s := by
  cases fuel with
  | zero => rfl
  | succ f => simp [holesF, splitFirst_none '{' s h]

/-- the text the scan produces: literal text as it is, every hole replaced by `v inner` -/
def fillH (v : Text → Text) : Option Text → List Tok → Text
  | none, [] => []
  | none, .lit t :: r => t ++ fillH v none r
  | none, .lb :: r => fillH v (some []) r
  | none, t :: r => t.render ++ fillH v none r
  | some _, [] => []
  | some acc, .lit t :: r => fillH v (some (acc ++ t)) r
  | some acc, .rb :: r => v acc ++ fillH v none r
  | some acc, _ :: r => fillH v (some acc) r

/-- holes are `{ lit* }`, and outside holes there is literal text only -/
def holesWF : Option Text → List Tok → Bool
  | none, [] => true
  | none, .lit _ :: r => holesWF none r
  | none, .lb :: r => holesWF (some []) r
  | none, _ :: _ => false
  | some _, [] => false
  | some acc, .lit t :: r => holesWF (some (acc ++ t)) r
  | some _, .rb :: r => holesWF none r
  | some _, _ :: _ => false

/-- the inner texts of the holes -/
def inners : Option Text → List Tok → List Text
  | none, [] => []
  | none, .lb :: r => inners (some []) r
  | none, _ :: r => inners none r
  | some _, [] => []
  | some acc, .lit t :: r => inners (some (acc ++ t)) r
  | some acc, .rb :: r => acc :: inners none r
  | some acc, _ :: r => inners (some acc) r

def countLb : List Tok → Nat
  | [] => 0
  | .lb :: r => countLb r + 1
  | _ :: r => countLb r

theorem holes_tokens (N : Num F) (v : Text → Text) : ∀ (toks : List Tok), toks.all tokOK = true →
    (∀ (P : Text) (fuel : Nat), (∀ x ∈ P, x ≠ '{') → holesWF none toks = true →
        (∀ i ∈ inners none toks, holeValue N i = some (v i)) → countLb toks + 1 ≤ fuel →
        holesF N fuel (P ++ render toks) = P ++ fillH v none toks) ∧
    (∀ (P acc : Text) (fuel : Nat), (∀ x ∈ P, x ≠ '{') → (∀ x ∈ acc, x ≠ '{' ∧ x ≠ '}') →
        holesWF (some acc) toks = true →
        (∀ i ∈ inners (some acc) toks, holeValue N i = some (v i)) → countLb toks + 2 ≤ fuel →
        holesF N fuel (P ++ '{' :: (acc ++ render toks)) = P ++ fillH v (some acc) toks)
  | [], _ => by
    constructor
    · intro P fuel hP _ _ _
      simp [render, fillH, holesF_nobrace N fuel P hP]
    · intro P acc fuel _ _ h; simp [holesWF] at h
  | t :: r, hok => by
    simp only [List.all_cons, Bool.and_eq_true] at hok
    obtain ⟨ihA, ihB⟩ := holes_tokens N v r hok.2
    constructor
    · intro P fuel hP hwf hin hfuel
      cases t with
      | lit t =>
        have ht := all_ne_of_all hok.1
        have := ihA (P ++ t) fuel (by
          intro x hx; rcases List.mem_append.mp hx with h | h
          · exact hP x h
          · exact ht.1 x h) (by simpa [holesWF] using hwf) (by simpa [inners] using hin)
          (by simpa [countLb] using hfuel)
        simpa [render_cons, Tok.render, fillH, List.append_assoc] using this
      | lb =>
        have := ihB P [] fuel hP (by simp) (by simpa [holesWF] using hwf) (by simpa [inners] using hin)
          (by simp [countLb] at hfuel ⊢; omega)
        simpa [render_cons, Tok.render, fillH] using this
      | var _ => simp [holesWF] at hwf
      | rb => simp [holesWF] at hwf
    · intro P acc fuel hP hacc hwf hin hfuel
      cases t with
      | lit t =>
        have ht := all_ne_of_all hok.1
        have := ihB P (acc ++ t) fuel hP (by
          intro x hx; rcases List.mem_append.mp hx with h | h
          · exact hacc x h
          · exact ⟨ht.1 x h, ht.2 x h⟩) (by simpa [holesWF] using hwf) (by simpa [inners] using hin)
          (by simpa [countLb] using hfuel)
        simpa [render_cons, Tok.render, fillH, List.append_assoc] using this
      | rb =>
        have hv : holeValue N acc = some (v acc) := hin acc (by simp [inners])
        cases fuel with
        | zero => omega
        | succ f =>
          have hA := ihA [] f (by simp) (by simpa [holesWF] using hwf)
            (fun i hi => hin i (by simp [inners, hi])) (by simp [countLb] at hfuel ⊢; omega)
          have e1 : P ++ '{' :: (acc ++ render (Tok.rb :: r)) = P ++ '{' :: (acc ++ '}' :: render r) := by
            simp [render_cons, Tok.render]
          rw [e1]
          simp only [holesF, splitFirst_append '{' P _ hP,
            splitFirst_append '}' acc (render r) (fun x hx => (hacc x hx).2), hv]
          simp only [List.nil_append] at hA
          rw [hA]
          simp [fillH]
      | var _ => simp [holesWF] at hwf
      | lb => simp [holesWF] at hwf

/-- the scan of the model on a tokenised text -/
theorem holes_render (N : Num F) (v : Text → Text) (toks : List Tok) (hok : toks.all tokOK = true)
    (hwf : holesWF none toks = true) (hin : ∀ i ∈ inners none toks, holeValue N i = some (v i)) :
    holes N (render toks) = fillH v none toks := by
  have h := (holes_tokens N v toks hok).1 [] ((render toks).length + 1) (by simp) hwf hin (by
    -- every `lb` token renders to one character
    have : ∀ ts : List Tok, countLb ts ≤ (render ts).length := by
      intro ts
      induction ts with
      | nil => simp [countLb]
      | cons t r ih =>
        rw [render_cons, List.length_append]
        cases t <;> simp [countLb, List.filter, Tok.render] at ih ⊢ <;> omega
    have := this toks; omega)
  simpa [holes] using h

end Q1t.Proofs.CQasm

import Mathlib.Tactic.Ring
import Q1t.Proofs.OpenQasmConstAbs
set_option linter.unusedSimpArgs false
set_option linter.unusedSectionVars false
/-!
C11: the three-qubit constant gates CCX (the 15-statement body of `ccx` in `qelib1.inc`) and CCZ (`h; ccx; h`) over
an arbitrary lawful amplitude type, with the block calculus of `OpenQasmCtrl3.lean`.
-/
namespace Q1t.OpenQasm
open Q1t Q1t.Spec Q1t.Spec.OQ2 Q1t.Proofs.Unitaries

variable {α P : Type} [CommRing α] [Amp α P] [Angle P]

theorem app3_d1 (k a0 a1 a2 a3 b0 b1 b2 b3 c0 c1 c2 c3 d0 d1 d2 d3 : α) :
    app3 [1] [[1, 0], [0, k]] (bd4 a0 a1 a2 a3 b0 b1 b2 b3 c0 c1 c2 c3 d0 d1 d2 d3) =
      bd4 a0 a1 a2 a3 (k * b0) (k * b1) (k * b2) (k * b3) c0 c1 c2 c3 (k * d0) (k * d1) (k * d2) (k * d3) := by
  simp only [app3, bd4, bd4s, bd2, matCX, embed, agreeOff, subIndex, qbit, LMat.get, LMat.mul, LMat.transpose, LMat.dot]
  simp [List.range_succ]

theorem app3_d0_s (k a0 a1 a2 a3 b0 b1 b2 b3 c0 c1 c2 c3 d0 d1 d2 d3 : α) :
    app3 [0] [[1, 0], [0, k]] (bd4s a0 a1 a2 a3 b0 b1 b2 b3 c0 c1 c2 c3 d0 d1 d2 d3) =
      bd4s a0 a1 a2 a3 b0 b1 b2 b3 (k * c0) (k * c1) (k * c2) (k * c3) (k * d0) (k * d1) (k * d2) (k * d3) := by
  simp only [app3, bd4, bd4s, bd2, matCX, embed, agreeOff, subIndex, qbit, LMat.get, LMat.mul, LMat.transpose, LMat.dot]
  simp [List.range_succ]

theorem app3_d1_s (k a0 a1 a2 a3 b0 b1 b2 b3 c0 c1 c2 c3 d0 d1 d2 d3 : α) :
    app3 [1] [[1, 0], [0, k]] (bd4s a0 a1 a2 a3 b0 b1 b2 b3 c0 c1 c2 c3 d0 d1 d2 d3) =
      bd4s a0 a1 a2 a3 (k * b0) (k * b1) (k * b2) (k * b3) (k * c0) (k * c1) (k * c2) (k * c3) d0 d1 d2 d3 := by
  simp only [app3, bd4, bd4s, bd2, matCX, embed, agreeOff, subIndex, qbit, LMat.get, LMat.mul, LMat.transpose, LMat.dot]
  simp [List.range_succ]

theorem app3_all (A0 A1 A2 A3 B0 B1 B2 B3 C0 C1 C2 C3 D0 D1 D2 D3 a0 a1 a2 a3 b0 b1 b2 b3 c0 c1 c2 c3 d0 d1 d2 d3 : α) :
    app3 [0, 1, 2] (bd4 A0 A1 A2 A3 B0 B1 B2 B3 C0 C1 C2 C3 D0 D1 D2 D3) (bd4 a0 a1 a2 a3 b0 b1 b2 b3 c0 c1 c2 c3 d0 d1 d2 d3) =
      bd4 (A0 * a0 + A1 * a2) (A0 * a1 + A1 * a3) (A2 * a0 + A3 * a2) (A2 * a1 + A3 * a3) (B0 * b0 + B1 * b2) (B0 * b1 + B1 * b3) (B2 * b0 + B3 * b2) (B2 * b1 + B3 * b3) (C0 * c0 + C1 * c2) (C0 * c1 + C1 * c3) (C2 * c0 + C3 * c2) (C2 * c1 + C3 * c3) (D0 * d0 + D1 * d2) (D0 * d1 + D1 * d3) (D2 * d0 + D3 * d2) (D2 * d1 + D3 * d3) := by
  simp only [app3, bd4, bd4s, bd2, matCX, embed, agreeOff, subIndex, qbit, LMat.get, LMat.mul, LMat.transpose, LMat.dot]
  simp [List.range_succ]

theorem app3_all_I8 (a0 a1 a2 a3 b0 b1 b2 b3 c0 c1 c2 c3 d0 d1 d2 d3 : α) :
    app3 [0, 1, 2] (bd4 a0 a1 a2 a3 b0 b1 b2 b3 c0 c1 c2 c3 d0 d1 d2 d3) I8 = bd4 a0 a1 a2 a3 b0 b1 b2 b3 c0 c1 c2 c3 d0 d1 d2 d3 := by
  simp only [app3, I8, bd4, embed, agreeOff, subIndex, qbit, LMat.get, LMat.mul, LMat.transpose, LMat.dot, LMat.identity]
  simp [List.range_succ]

theorem apps_CCX : libApps (P := P) libTable "CCX" [] = some [("ccx", [], [0, 1, 2])] := by rfl
theorem apps_CCZ : libApps (P := P) libTable "CCZ" [] =
    some [("h", [], [2]), ("ccx", [], [0, 1, 2]), ("h", [], [2])] := by rfl

theorem gm_h : gateMatrix (α := α) (P := P) defaultFuel "h" [] =
    some (wrap1 (wrap1 (matU (halfPi : P) z0 piA))) := by rfl

set_option maxHeartbeats 400000 in
theorem gm_ccx : gateMatrix (α := α) (P := P) defaultFuel "ccx" [] =
    some (app3 [0, 1] qCX (app3 [1] (qTdg (P := P)) (app3 [0] (qT (P := P)) (app3 [0, 1] qCX
      (app3 [2] (qH (P := P)) (app3 [2] (qT (P := P)) (app3 [1] (qT (P := P)) (app3 [0, 2] qCX
        (app3 [2] (qTdg (P := P)) (app3 [1, 2] qCX (app3 [2] (qT (P := P)) (app3 [0, 2] qCX
          (app3 [2] (qTdg (P := P)) (app3 [1, 2] qCX (app3 [2] (qH (P := P)) I8))))))))))))))) := by rfl

section lawful
variable (h : LawfulAmp α P) (ha : LawfulAngle α P) (ha2 : LawfulAngle2 α P) (hpi : LawfulAnglePi α P)
include h ha ha2 hpi

/-- the 15-statement body of `ccx` is the Toffoli matrix -/
theorem ccx_value : ∃ m : LMat α, gateMatrix (α := α) (P := P) defaultFuel "ccx" [] = some m ∧
    m = bd4 1 0 0 1 1 0 0 1 1 0 0 1 0 1 1 0 := by
  refine ⟨_, gm_ccx, ?_⟩
  simp only [qCX, cxM_eq, qH_eq h ha hpi, qT_eq h ha ha2, qTdg_eq h ha ha2]
  rw [I8_eq]
  simp only [app3_target, app3_target_s, app3_cx12, app3_cx12_s, app3_cx02, app3_cx01, app3_cx01_s, app3_d1,
    app3_d0_s, app3_d1_s]
  have hI := h.I_mul_I
  have hx := h.hsqrt2_mul_self
  have hhalf := h.half_add_half
  refine bd4_ext ?_ ?_ ?_ ?_ ?_ ?_ ?_ ?_ ?_ ?_ ?_ ?_ ?_ ?_ ?_ ?_ <;> grind

theorem ccx_ok : LibGateOK α P libTable "CCX" [] := by
  obtain ⟨m, hm, hv⟩ := ccx_value h ha ha2 hpi
  have hmean : libMeaning (α := α) (P := P) libTable "CCX" [] = some (app3 [0, 1, 2] m I8) := by
    rw [libMeaning_of3 _ rfl apps_CCX, seqFrom3_cons hm, seqFrom_nil]
  refine ⟨_, .C .CX, hmean, rfl, PhaseEq.of_eq h ?_⟩
  rw [hv, app3_all_I8]
  show _ = Spec.ctrl (Spec.ctrl (pauliX : LMat α))
  simp only [pauliX, ctrl_two, ctrl_bd2]

theorem ccz_ok : LibGateOK α P libTable "CCZ" [] := by
  obtain ⟨m, hm, hv⟩ := ccx_value h ha ha2 hpi
  have hmean : libMeaning (α := α) (P := P) libTable "CCZ" [] =
      some (app3 [2] (qH (P := P)) (app3 [0, 1, 2] m (app3 [2] (qH (P := P)) I8))) := by
    rw [libMeaning_of3 _ rfl apps_CCZ, seqFrom3_cons gm_h, seqFrom3_cons hm, seqFrom3_cons gm_h, seqFrom_nil]
  refine ⟨_, .C .CZ, hmean, rfl, PhaseEq.of_eq h ?_⟩
  rw [hv]
  simp only [qH_eq h ha hpi]
  rw [I8_eq]
  simp only [app3_target, app3_all]
  show _ = Spec.ctrl (Spec.ctrl (pauliZ : LMat α))
  simp only [pauliZ, ctrl_two, ctrl_bd2]
  have hx := hsq h
  refine bd4_ext ?_ ?_ ?_ ?_ ?_ ?_ ?_ ?_ ?_ ?_ ?_ ?_ ?_ ?_ ?_ ?_ <;> grind

end lawful

end Q1t.OpenQasm

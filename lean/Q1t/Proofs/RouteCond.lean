import Q1t.Proofs.RouteTerm
import Q1t.Model.GateCond
import Q1t.Spec.CondShots
/-!
# C04 (e): the state entry points `VectorState::apply_gate` and `apply_conditional_gate`

* the matrix route acts column by column as the vector route (`mulState_mat_col`);
* `applyAll` (`apply_gate`) multiplies the whole state matrix by the embedded matrix;
* `condRanges` (`collect_conditional_ranges`) is the run-length encoding of the mask inside every range;
* `applyConditional`: in the per-shot reading exactly the selected shots are multiplied by the embedded
  matrix, the others keep their state.
-/
namespace Q1t.Proofs.Route
open Q1t Q1t.Gate Q1t.Spec
variable {α P : Type} [CommRing α] [Amp α P]
set_option linter.unusedSectionVars false
set_option linter.unusedVariables false

/-! ## columns -/

/-- column `k` of a list-of-rows matrix -/
def colOf (M : LMat α) (k : Nat) : List α := M.map fun row => row.getD k 0

theorem stateEntry_colOf (M : LMat α) (c k : Nat) :
    stateEntry (α := α) .vec (colOf M k) c 0 = stateEntry (α := α) .mat M c k := by
  simp only [stateEntry, colOf, List.getElem?_map]
  cases M[c]? with
  | none => rfl
  | some r => rfl

/-- the product with a whole state matrix acts on every column as the product with that column -/
theorem mulState_mat_col (K : Nat) (A : LMat α) (M : LMat α) (k : Nat) (hk : k < K) :
    colOf (mulState (α := α) .mat K A M) k = mulState (α := α) .vec 1 A (colOf M k) := by
  unfold mulState colOf
  rw [List.map_map]
  apply List.map_congr_left
  intro r _
  simp only [Function.comp, rowMk]
  rw [List.getD_eq_getElem?_getD, List.getElem?_map, List.getElem?_range hk]
  simp only [Option.map_some, Option.getD_some]
  congr 1
  funext c
  have := stateEntry_colOf M c k
  unfold colOf at this
  rw [this]

/-- on a single vector `mulState` is the ordinary matrix–vector product -/
theorem mulState_vec_eq_mulVec (d : Nat) (A : LMat α) (hA : WFMat d A) (v : List α) (hv : v.length = d) :
    mulState (α := α) .vec 1 A v = LMat.mulVec A v := by
  unfold mulState LMat.mulVec
  apply List.ext_getElem
  · simp
  · intro r h1 h2
    have hr : r < A.length := by simpa using h2
    simp only [List.getElem_map, List.getElem_range, rowMk]
    rw [sumTo_eq_sum, dot_eq_sum, hA.2 _ (List.getElem_mem _)]
    refine Finset.sum_congr (by rw [hA.1]) ?_
    intro c hc
    have hc' : c < v.length := by rw [hv]; exact Finset.mem_range.1 hc
    simp [LMat.get, stateEntry, rowEntry, List.getD_eq_getElem?_getD, hr, hc']

/-! ## `VectorState::apply_gate` -/

theorem applyAll_eq_embed (h : LawfulAmp α P) (g : GateTerm P) (hwf : WF g) (n : Nat) (bits : List Nat)
    (har : nrBits g = bits.length) (hv : validBits n bits = true) (hword : WordOK g n)
    (K : Nat) (rows : LMat α) (hlen : rows.length = 2 ^ n) (hrow : ∀ r ∈ rows, r.length = K) :
    applyAll (α := α) n rows g bits =
      .ok (some (mulState (α := α) .mat K (embed n bits (matrix (α := α) g)) rows)) := by
  unfold applyAll
  rw [if_neg (by simpa using har),
    applyGateSlice_eq_embed h g hwf .mat K (okWidth_mat K) n bits har hv hword rows hlen
      (fun r hr => hrow r hr)]

theorem applyAll_arity_error (g : GateTerm P) (n : Nat) (bits : List Nat) (rows : LMat α)
    (har : nrBits g ≠ bits.length) :
    applyAll (α := α) n rows g bits = .error (bits.length, nrBits g) := by
  unfold applyAll
  rw [if_pos har]

/-! ## `collect_conditional_ranges` -/

/-- per-shot expansion of the ranges: `(column, apply?)` for every shot -/
def expandRuns (rs : List (Nat × Nat × Bool)) : List (Nat × Bool) :=
  rs.flatMap fun r => List.replicate r.2.1 (r.1, r.2.2)

/-- the column index of every shot -/
def shotCols : Nat → List Nat → List Nat
  | _, [] => []
  | icol, c :: cs => List.replicate c icol ++ shotCols (icol + 1) cs

theorem expandRuns_cons (r : Nat × Nat × Bool) (rs : List (Nat × Nat × Bool)) :
    expandRuns (r :: rs) = List.replicate r.2.1 (r.1, r.2.2) ++ expandRuns rs := by
  simp [expandRuns]

theorem expandRuns_append (a b : List (Nat × Nat × Bool)) :
    expandRuns (a ++ b) = expandRuns a ++ expandRuns b := by
  simp [expandRuns]

theorem condRuns_expand (icol : Nat) : ∀ (bs : List Bool) (prev : Bool) (len : Nat),
    expandRuns (condRuns icol prev len bs) =
      List.replicate len (icol, prev) ++ bs.map fun b => (icol, b)
  | [], prev, len => by simp [condRuns, expandRuns]
  | b :: r, prev, len => by
    rw [condRuns]
    by_cases hb : b = prev
    · rw [if_pos hb, condRuns_expand icol r prev (len + 1), List.replicate_succ', hb]
      simp
    · rw [if_neg hb, expandRuns_cons, condRuns_expand icol r b 1]
      simp

theorem condRuns_col (icol : Nat) : ∀ (bs : List Bool) (prev : Bool) (len : Nat),
    ∀ x ∈ condRuns icol prev len bs, x.1 = icol
  | [], prev, len => by simp [condRuns]
  | b :: r, prev, len => by
    rw [condRuns]
    by_cases hb : b = prev
    · rw [if_pos hb]; exact condRuns_col icol r prev (len + 1)
    · rw [if_neg hb]
      intro x hx
      rcases List.mem_cons.1 hx with rfl | hx
      · rfl
      · exact condRuns_col icol r b 1 x hx

theorem zip_replicate_left' {β γ : Type} (a : β) : ∀ xs : List γ,
    List.zip (List.replicate xs.length a) xs = xs.map fun b => (a, b)
  | [] => rfl
  | x :: xs => by
    rw [List.length_cons, List.replicate_succ, List.zip_cons_cons, zip_replicate_left' a xs, List.map_cons]

theorem condRanges_spec (control : List Bool) : ∀ (counts : List Nat) (icol off : Nat),
    (∀ c ∈ counts, 0 < c) → off + counts.sum ≤ control.length →
    ∃ rs, condRanges icol off counts control = some rs ∧
      expandRuns rs = (shotCols icol counts).zip ((control.drop off).take counts.sum) ∧
      ∀ x ∈ rs, icol ≤ x.1 ∧ x.1 < icol + counts.length
  | [], icol, off, _, _ => ⟨[], by simp [condRanges], by simp [expandRuns, shotCols], by simp⟩
  | c :: cs, icol, off, hpos, hsum => by
    have hc : 0 < c := hpos c (by simp)
    simp only [List.sum_cons] at hsum
    obtain ⟨rs, h1, h2, h3⟩ := condRanges_spec control cs (icol + 1) (off + c)
      (fun x hx => hpos x (List.mem_cons_of_mem _ hx)) (by omega)
    have hoff : off < control.length := by omega
    have hseg : ((control.drop off).take c).length = c := by
      rw [List.length_take, List.length_drop]; omega
    -- the first element of the segment is `control[off]`
    have hsplit : (control.drop off).take c = control[off] :: ((control.drop off).take c).drop 1 := by
      have hd : control.drop off = control[off] :: control.drop (off + 1) := List.drop_eq_getElem_cons hoff
      obtain ⟨c', rfl⟩ : ∃ c', c = c' + 1 := ⟨c - 1, by omega⟩
      rw [hd, List.take_succ_cons, List.drop_one, List.tail_cons]
    refine ⟨condRuns icol control[off] 1 (((control.drop off).take c).drop 1) ++ rs, ?_, ?_, ?_⟩
    · rw [condRanges, List.getElem?_eq_getElem hoff]
      simp only
      rw [if_neg (by omega), h1, Option.map_some, if_neg (by omega)]
    · rw [expandRuns_append, condRuns_expand, h2, shotCols, List.sum_cons,
        List.take_add, List.drop_drop]
      rw [List.zip_append (by rw [List.length_replicate, hseg])]
      congr 1
      have e : List.replicate 1 (icol, control[off]) ++
            (((control.drop off).take c).drop 1).map (fun b => (icol, b)) =
          ((control.drop off).take c).map fun b => (icol, b) := by
        conv_rhs => rw [hsplit]
        simp
      rw [e]
      have := zip_replicate_left' icol ((control.drop off).take c)
      rw [hseg] at this
      exact this.symm
    · intro x hx
      rcases List.mem_append.1 hx with hx | hx
      · rw [condRuns_col icol _ _ _ x hx]; simp
      · have := h3 x hx
        simp only [List.length_cons]; omega

/-! ## `VectorState::apply_conditional_gate` -/

theorem mapM_some_map {σ τ : Type} (f : σ → Option τ) (g : σ → τ) : ∀ l : List σ,
    (∀ x ∈ l, f x = some (g x)) → l.mapM f = some (l.map g)
  | [], _ => rfl
  | x :: xs, h => by
    rw [List.mapM_cons, h x (by simp), mapM_some_map f g xs (fun y hy => h y (List.mem_cons_of_mem _ hy))]
    rfl

theorem shotExpand_map_map {ρ σ : Type} (f1 : ρ → Nat) (f2 : ρ → σ) : ∀ rs : List ρ,
    shotExpand (rs.map f1) (rs.map f2) = rs.flatMap fun r => List.replicate (f1 r) (f2 r)
  | [] => rfl
  | r :: rs => by
    rw [List.map_cons, List.map_cons, shotExpand, shotExpand_map_map f1 f2 rs, List.flatMap_cons]

theorem expandRuns_map {σ : Type} (G : Nat × Bool → σ) (rs : List (Nat × Nat × Bool)) :
    (expandRuns rs).map G = rs.flatMap fun r => List.replicate r.2.1 (G (r.1, r.2.2)) := by
  simp [expandRuns, List.map_flatMap]

theorem shotCols_map_getD {σ : Type} (d : σ) : ∀ (counts : List Nat) (icol : Nat) (sts : List σ),
    icol + counts.length ≤ sts.length →
    (shotCols icol counts).map (fun i => sts.getD i d) = shotExpand counts (sts.drop icol)
  | [], icol, sts, _ => by
    rw [shotCols, List.map_nil]
    cases sts.drop icol <;> rfl
  | c :: cs, icol, sts, h => by
    have hi : icol < sts.length := by simp only [List.length_cons] at h; omega
    rw [shotCols, List.drop_eq_getElem_cons hi, shotExpand, List.map_append, List.map_replicate,
      shotCols_map_getD d cs (icol + 1) sts (by simp only [List.length_cons] at h; omega)]
    congr 2
    simp [List.getD_eq_getElem?_getD, hi]

theorem shotExpand_all {σ : Type} (Q : σ → Prop) : ∀ (counts : List Nat) (states : List σ),
    (∀ ψ ∈ states, Q ψ) → ∀ ψ ∈ shotExpand counts states, Q ψ
  | [], _, _, ψ, hψ => by simp [shotExpand] at hψ
  | _ :: _, [], _, ψ, hψ => by simp [shotExpand] at hψ
  | c :: cs, x :: xs, h, ψ, hψ => by
    rw [shotExpand] at hψ
    rcases List.mem_append.1 hψ with hψ | hψ
    · rw [(List.mem_replicate.1 hψ).2]; exact h x (by simp)
    · exact shotExpand_all Q cs xs (fun y hy => h y (List.mem_cons_of_mem _ hy)) ψ hψ

theorem onSelected_congr {σ : Type} (f g : σ → σ) (Q : σ → Prop) (hfg : ∀ ψ, Q ψ → f ψ = g ψ) :
    ∀ (mask : List Bool) (shots : List σ), (∀ ψ ∈ shots, Q ψ) →
      onSelected f mask shots = onSelected g mask shots
  | [], _, _ => by simp [onSelected]
  | _ :: _, [], _ => by simp [onSelected]
  | b :: bs, x :: xs, h => by
    have ih := onSelected_congr f g Q hfg bs xs (fun y hy => h y (List.mem_cons_of_mem _ hy))
    unfold onSelected at ih ⊢
    rw [List.zipWith_cons_cons, List.zipWith_cons_cons, ih, hfg x (h x (by simp))]

/-- `apply_conditional_gate`, per shot: exactly the shots whose mask bit is set are multiplied by the
embedded matrix of the gate (as `apply_gate` would), every other shot keeps its state; the call
returns (no panic) and the new state has the same shape -/
theorem applyConditional_per_shot (h : LawfulAmp α P) (g : GateTerm P) (hwf : WF g) (n : Nat)
    (bits : List Nat) (har : nrBits g = bits.length) (hv : validBits n bits = true) (hword : WordOK g n)
    (shots : Nat) (counts : List Nat) (states : List (List α)) (control : List Bool)
    (hc : control.length = shots) (hsum : counts.sum = shots) (hpos : ∀ c ∈ counts, 0 < c)
    (hcs : counts.length = states.length) (hcol : ∀ ψ ∈ states, ψ.length = 2 ^ n) :
    ∃ counts' states',
      applyConditional (α := α) n shots counts states control g bits = .ok counts' states' ∧
      counts'.length = states'.length ∧ (∀ ψ ∈ states', ψ.length = 2 ^ n) ∧
      shotExpand counts' states' =
        onSelected (mulState (α := α) .vec 1 (embed n bits (matrix (α := α) g))) control
          (shotExpand counts states) := by
  obtain ⟨rs, h1, h2, h3⟩ := condRanges_spec control counts 0 0 hpos (by omega)
  obtain ⟨E, hE⟩ : ∃ E, E = mulState (α := α) .vec 1 (embed n bits (matrix (α := α) g)) := ⟨_, rfl⟩
  have hElen : ∀ ψ, (E ψ).length = 2 ^ n := by
    intro ψ; rw [hE, mulState_length, (embed_wf n bits _).1]
  refine ⟨rs.map (·.2.1),
    rs.map (fun r => if r.2.2 then E (states.getD r.1 []) else states.getD r.1 []), ?_, by simp, ?_, ?_⟩
  · unfold applyConditional
    rw [if_neg (by omega), if_neg (by simpa using har), h1]
    simp only
    rw [mapM_some_map _ (fun r => if r.2.2 then E (states.getD r.1 []) else states.getD r.1 []) rs ?_]
    intro x hx
    have hi : x.1 < states.length := by have := h3 x hx; omega
    have hcl : states[x.1].length = 2 ^ n := hcol _ (List.getElem_mem _)
    rw [List.getElem?_eq_getElem hi]
    simp only
    rw [if_neg (by simpa using hcl), List.getD_eq_getElem?_getD, List.getElem?_eq_getElem hi,
      Option.getD_some]
    cases x.2.2 with
    | false => simp
    | true =>
      simp only [if_true]
      rw [applyGateSlice_eq_embed h g hwf .vec 1 (fun _ => rfl) n bits har hv hword _ hcl
        (fun r _ => rfl), hE]
  · intro ψ hψ
    obtain ⟨r, hr, rfl⟩ := List.mem_map.1 hψ
    have hi : r.1 < states.length := by have := h3 r hr; omega
    by_cases hb : r.2.2 = true
    · rw [if_pos hb]; exact hElen _
    · rw [if_neg hb, List.getD_eq_getElem?_getD, List.getElem?_eq_getElem hi, Option.getD_some]
      exact hcol _ (List.getElem_mem _)
  · have hG := expandRuns_map (fun ib : Nat × Bool =>
      if ib.2 then E (states.getD ib.1 []) else states.getD ib.1 []) rs
    rw [shotExpand_map_map, ← hG, h2, List.drop_zero, hsum, ← hc, List.take_length]
    have hS := shotCols_map_getD ([] : List α) counts 0 states (by omega)
    rw [List.drop_zero] at hS
    rw [← hS, onSelected, List.zipWith_map_right, List.zip_eq_zipWith, List.map_zipWith, ← hE,
      List.zipWith_comm]

end Q1t.Proofs.Route

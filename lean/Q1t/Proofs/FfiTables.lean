import Q1t.Model.Ffi
import Q1t.Spec.Ffi
import Q1t.Gen.FfiTables
import Q1t.Gen.FfiSigs
/-! Helpers for the table / signature obligations of C19 (all discharged by `decide` over generated data). -/
namespace Q1t.Ffi

/-- ABI view of a normalised C type: `const` has no effect on layout or calling convention -/
def stripConst (t : String) : String := if t.startsWith "const " then (t.drop 6).toString else t

/-- size and alignment of a normalised scalar type on the target (LP64) -/
def scalarLayout (t : String) : Nat × Nat :=
  let t := stripConst t
  if t.startsWith "ptr " then (8, 8)
  else if t = "size" ∨ t = "u64" ∨ t = "f64" then (8, 8)
  else if t = "u32" then (4, 4)
  else if t = "u8" ∨ t = "char" then (1, 1)
  else (0, 1)

def alignUp (n a : Nat) : Nat := if a = 0 then n else ((n + a - 1) / a) * a

/-- `#[repr(C)]` layout: fields in order, each aligned, total rounded up to the largest alignment -/
def structLayout (fields : List (String × String)) : Nat × Nat :=
  let (off, al) := fields.foldl (fun (acc : Nat × Nat) f =>
    let (s, a) := scalarLayout f.2
    (alignUp acc.1 a + s, max acc.2 a)) (0, 1)
  (alignUp off al, al)

def fieldsAbi (fields : List (String × String)) : List (String × String) :=
  fields.map fun f => (f.1, stripConst f.2)

def subset {α} [DecidableEq α] (xs ys : List α) : Bool := xs.all (fun x => ys.contains x)

def hasK (s : String) : Bool := s.toList.any (fun c => c == 'k' || c == 'K')

end Q1t.Ffi

namespace Q1t.Ffi
/-- a concrete `Circuit` implementation for the non-vacuity examples -/
def exampleApi : Api Unit where
  new := fun _ _ => ()
  nrQbits := fun _ => 2
  nrCbits := fun _ => 2
  cstate := fun _ => some [1, 2, 3]
  addGate := fun _ _ _ => .ok ()
  addConditionalGate := fun _ _ _ _ _ => .err "no"
  reset := fun _ _ => .ok ()
  resetAll := fun _ => ()
  measureBasis := fun _ _ _ _ => .ok ()
  peekBasis := fun _ _ _ _ => .ok ()
  measureAllBasis := fun _ _ _ => .ok ()
  peekAllBasis := fun _ _ _ => .ok ()
  execute := fun _ _ _ => .ok ()
  reexecute := fun _ _ => .panic
  histogramString := fun _ => .ok [("00", 2), ("11", 1)]
  latex := fun _ _ => .ok "x"
  openQasm := fun _ _ => .err "e"
  cQasm := fun _ _ => .panic
end Q1t.Ffi

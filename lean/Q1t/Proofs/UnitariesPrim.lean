import Mathlib.Tactic.Ring
import Mathlib.Tactic.LinearCombination
import Q1t.Proofs.AmpLaws
import Q1t.Spec.Unitaries
import Q1t.Spec.Square
set_option linter.unusedSimpArgs false
/-!
C05, part 2: every primitive gate (constants and the parametrised RX RY RZ U1 U2 U3), over ANY
commutative ring `α` with `Amp α P` satisfying `LawfulAmp α P`, and for ALL parameter values:
the code's matrix expression equals the documented closed form, and `M·Mᴴ = 1`.
Also `U2(φ,λ) = U3(π/2,φ,λ)` and `U3(θ,φ,λ) = e^{i(φ+λ)/2}·RZ(φ)·RY(θ)·RZ(λ)`.
-/
namespace Q1t.Proofs.Unitaries
open Q1t Q1t.Gate Q1t.Spec

variable {α P : Type} [CommRing α] [Amp α P]

/-- the product `M·Mᴴ` of a 2×2 matrix, entry by entry -/
theorem mulAdjoint_two (a b c d : α) :
    mulAdjoint (P := P) [[a, b], [c, d]] =
      [[0 + a * Amp.conj P a + b * Amp.conj P b, 0 + a * Amp.conj P c + b * Amp.conj P d],
       [0 + c * Amp.conj P a + d * Amp.conj P b, 0 + c * Amp.conj P c + d * Amp.conj P d]] := by
  simp [mulAdjoint, LMat.mul, LMat.transpose, LMat.dot, LMat.mapEntries, List.range_succ]

theorem lmul_two (a b c d a' b' c' d' : α) :
    LMat.mul [[a, b], [c, d]] [[a', b'], [c', d']] =
      [[0 + a * a' + b * c', 0 + a * b' + b * d'], [0 + c * a' + d * c', 0 + c * b' + d * d']] := by
  simp [LMat.mul, LMat.transpose, LMat.dot, List.range_succ]

theorem identity_two : (LMat.identity 2 : LMat α) = [[1, 0], [0, 1]] := by
  simp [LMat.identity, List.range_succ]

omit [CommRing α] in
theorem mat2_ext {a b c d a' b' c' d' : α} (h1 : a = a') (h2 : b = b') (h3 : c = c') (h4 : d = d') :
    [[a, b], [c, d]] = [[a', b'], [c', d']] := by subst h1 h2 h3 h4; rfl

theorem scale_two (k a b c d : α) : scale k [[a, b], [c, d]] = [[k * a, k * b], [k * c, k * d]] := rfl

/-- extra half-angle laws used only by the `U3 = e^{i(φ+λ)/2}·RZ·RY·RZ` decomposition:
`(φ+λ)/2` and `φ/2 + λ/2`, and `λ/2 + λ/2` and `λ`, have the same cosine and sine. -/
structure LawfulHalf (α P : Type) [CommRing α] [Amp α P] : Prop where
  cos_phalf_padd : ∀ x y : P, (Amp.cos (Amp.phalf α (Amp.padd α x y)) : α) =
    Amp.cos (Amp.padd α (Amp.phalf α x) (Amp.phalf α y))
  sin_phalf_padd : ∀ x y : P, (Amp.sin (Amp.phalf α (Amp.padd α x y)) : α) =
    Amp.sin (Amp.padd α (Amp.phalf α x) (Amp.phalf α y))
  cos_phalf_twice : ∀ x : P, (Amp.cos (Amp.padd α (Amp.phalf α x) (Amp.phalf α x)) : α) = Amp.cos x
  sin_phalf_twice : ∀ x : P, (Amp.sin (Amp.padd α (Amp.phalf α x) (Amp.phalf α x)) : α) = Amp.sin x

section lawful
variable (h : LawfulAmp α P)
include h

/-! ### conjugation of the derived quantities -/

theorem conj_polar_one (θ : P) :
    Amp.conj P (Amp.polar (1 : α) θ) = Amp.cos θ - Amp.I P * Amp.sin θ := by
  simp only [Amp.polar, h.conj_add, h.conj_mul, h.conj_one, h.conj_cos, h.conj_sin, h.conj_I]
  ring

theorem conj_polar (r : α) (hr : Amp.conj P r = r) (θ : P) :
    Amp.conj P (Amp.polar r θ) = r * (Amp.cos θ - Amp.I P * Amp.sin θ) := by
  simp only [Amp.polar, h.conj_add, h.conj_mul, hr, h.conj_cos, h.conj_sin, h.conj_I]
  ring

/-! ### the code's expression is the documented closed form -/

omit h in
theorem rx_spec (θ : P) : (matrix (.RX θ) : LMat α) = specMatrix (.RX θ) := by
  simp [matrix, matRX, specMatrix, rot, pauliX, LMat.get, List.range_succ]

theorem ry_spec (θ : P) : (matrix (.RY θ) : LMat α) = specMatrix (.RY θ) := by
  simp [matrix, matRY, specMatrix, rot, pauliY, LMat.get, List.range_succ]
  have := h.I_mul_I
  refine ⟨?_, ?_⟩ <;> grind

theorem rz_spec (l : P) : (matrix (.RZ l) : LMat α) = specMatrix (.RZ l) := by
  simp only [matrix, matRZ, specMatrix, rot, pauliZ, conj_polar_one h]
  simp [LMat.get, List.range_succ, Amp.polar]

omit h in
theorem u1_spec (l : P) : (matrix (.U1 l) : LMat α) = specMatrix (.U1 l) := by
  simp [matrix, matU1, specMatrix, expi, Amp.polar]

omit h in
theorem u2_spec (φ l : P) : (matrix (.U2 φ l) : LMat α) = specMatrix (.U2 φ l) := by
  simp only [matrix, matU2, specMatrix, expi, Amp.polar]
  refine mat2_ext ?_ ?_ ?_ ?_ <;> ring

omit h in
theorem u3_spec (θ φ l : P) : (matrix (.U3 θ φ l) : LMat α) = specMatrix (.U3 θ φ l) := by
  simp only [matrix, matU3, specMatrix, expi, Amp.polar]
  refine mat2_ext ?_ ?_ ?_ ?_ <;> ring

omit h in
/-- `U2(φ,λ)` is the `U3` form at any angle whose half has cosine and sine `1/√2` (i.e. `θ = π/2`) -/
theorem u2_eq_u3 (θ φ l : P) (hc : (Amp.cos (Amp.phalf α θ) : α) = Amp.hsqrt2 P)
    (hs : (Amp.sin (Amp.phalf α θ) : α) = Amp.hsqrt2 P) :
    (specMatrix (.U2 φ l) : LMat α) = specMatrix (.U3 θ φ l) := by
  simp only [specMatrix, hc, hs]
  refine mat2_ext ?_ ?_ ?_ ?_ <;> ring

/-! constants: the code's expression is the documented matrix, for every lawful amplitude type -/

omit h in
theorem const1_spec_easy :
    (matrix (.I : GateTerm P) : LMat α) = specMatrix (.I : GateTerm P) ∧
    (matrix (.X : GateTerm P) : LMat α) = specMatrix (.X : GateTerm P) ∧
    (matrix (.Y : GateTerm P) : LMat α) = specMatrix (.Y : GateTerm P) ∧
    (matrix (.Z : GateTerm P) : LMat α) = specMatrix (.Z : GateTerm P) ∧
    (matrix (.H : GateTerm P) : LMat α) = specMatrix (.H : GateTerm P) ∧
    (matrix (.S : GateTerm P) : LMat α) = specMatrix (.S : GateTerm P) ∧
    (matrix (.Sdg : GateTerm P) : LMat α) = specMatrix (.Sdg : GateTerm P) ∧
    (matrix (.Swap : GateTerm P) : LMat α) = specMatrix (.Swap : GateTerm P) := by
  refine ⟨?_, ?_, ?_, ?_, ?_, ?_, ?_, ?_⟩ <;>
    simp [matrix, specMatrix, matX, matY, matZ, matH, matS, matSdg, matSwap, pauliX, pauliY, pauliZ,
      LMat.identity, List.range_succ]

theorem t_spec : (matrix (.T : GateTerm P) : LMat α) = specMatrix (.T : GateTerm P) := by
  simp [matrix, specMatrix, matT, h.zeta8_eq]

theorem tdg_spec : (matrix (.Tdg : GateTerm P) : LMat α) = specMatrix (.Tdg : GateTerm P) := by
  simp only [matrix, specMatrix, matTdg, h.zeta8_eq, h.conj_add, h.conj_mul, h.conj_hsqrt2, h.conj_I]
  refine mat2_ext rfl rfl rfl ?_; ring

omit h in
theorem v_spec : (matrix (.V : GateTerm P) : LMat α) = specMatrix (.V : GateTerm P) := by
  simp only [matrix, specMatrix, matV]
  refine mat2_ext ?_ ?_ ?_ ?_ <;> ring

omit h in
theorem vdg_spec : (matrix (.Vdg : GateTerm P) : LMat α) = specMatrix (.Vdg : GateTerm P) := by
  simp only [matrix, specMatrix, matVdg]
  refine mat2_ext ?_ ?_ ?_ ?_ <;> ring

/-! ### unitarity of every one-qubit primitive and of Swap -/

theorem rx_unitary (θ : P) : mulAdjoint (P := P) (matrix (.RX θ) : LMat α) = LMat.identity 2 := by
  simp only [matrix, matRX, mulAdjoint_two, identity_two, h.conj_neg, h.conj_mul, h.conj_cos,
    h.conj_sin, h.conj_I]
  have h1 := h.I_mul_I; have h2 := h.cos_sq_add_sin_sq (Amp.phalf α θ)
  refine mat2_ext ?_ ?_ ?_ ?_ <;> grind

theorem ry_unitary (θ : P) : mulAdjoint (P := P) (matrix (.RY θ) : LMat α) = LMat.identity 2 := by
  simp only [matrix, matRY, mulAdjoint_two, identity_two, h.conj_neg, h.conj_cos, h.conj_sin]
  have h2 := h.cos_sq_add_sin_sq (Amp.phalf α θ)
  refine mat2_ext ?_ ?_ ?_ ?_ <;> grind

theorem rz_unitary (l : P) : mulAdjoint (P := P) (matrix (.RZ l) : LMat α) = LMat.identity 2 := by
  simp only [matrix, matRZ, mulAdjoint_two, identity_two, Amp.polar,
    h.conj_add, h.conj_sub, h.conj_mul, h.conj_neg, h.conj_one, h.conj_zero, h.conj_conj, h.conj_cos, h.conj_sin, h.conj_I, h.conj_hsqrt2, h.conj_half]
  have h1 := h.I_mul_I; have h2 := h.cos_sq_add_sin_sq (Amp.phalf α l)
  refine mat2_ext ?_ ?_ ?_ ?_ <;> grind

theorem u1_unitary (l : P) : mulAdjoint (P := P) (matrix (.U1 l) : LMat α) = LMat.identity 2 := by
  simp only [matrix, matU1, mulAdjoint_two, identity_two, Amp.polar,
    h.conj_add, h.conj_sub, h.conj_mul, h.conj_neg, h.conj_one, h.conj_zero, h.conj_conj, h.conj_cos, h.conj_sin, h.conj_I, h.conj_hsqrt2, h.conj_half]
  have h1 := h.I_mul_I; have h2 := h.cos_sq_add_sin_sq l
  refine mat2_ext ?_ ?_ ?_ ?_ <;> grind

theorem u2_unitary (φ l : P) : mulAdjoint (P := P) (matrix (.U2 φ l) : LMat α) = LMat.identity 2 := by
  simp only [matrix, matU2, mulAdjoint_two, identity_two, h.conj_neg, h.conj_hsqrt2,
    conj_polar h _ h.conj_hsqrt2]
  simp only [Amp.polar, h.cos_padd, h.sin_padd]
  have h1 := h.I_mul_I; have h2 := h.cos_sq_add_sin_sq φ; have h3 := h.cos_sq_add_sin_sq l
  have h4 := h.hsqrt2_mul_self; have h5 := h.half_add_half
  refine mat2_ext ?_ ?_ ?_ ?_ <;> grind

theorem u3_unitary (θ φ l : P) :
    mulAdjoint (P := P) (matrix (.U3 θ φ l) : LMat α) = LMat.identity 2 := by
  simp only [matrix, matU3, mulAdjoint_two, identity_two, h.conj_neg, h.conj_cos,
    conj_polar h _ (h.conj_cos _), conj_polar h _ (h.conj_sin _)]
  simp only [Amp.polar, h.cos_padd, h.sin_padd]
  have h1 := h.I_mul_I; have h2 := h.cos_sq_add_sin_sq φ; have h3 := h.cos_sq_add_sin_sq l
  have h4 := h.cos_sq_add_sin_sq (Amp.phalf α θ)
  refine mat2_ext ?_ ?_ ?_ ?_ <;> grind

theorem const1_unitary :
    mulAdjoint (P := P) (matrix (.I : GateTerm P) : LMat α) = LMat.identity 2 ∧
    mulAdjoint (P := P) (matrix (.X : GateTerm P) : LMat α) = LMat.identity 2 ∧
    mulAdjoint (P := P) (matrix (.Y : GateTerm P) : LMat α) = LMat.identity 2 ∧
    mulAdjoint (P := P) (matrix (.Z : GateTerm P) : LMat α) = LMat.identity 2 ∧
    mulAdjoint (P := P) (matrix (.H : GateTerm P) : LMat α) = LMat.identity 2 ∧
    mulAdjoint (P := P) (matrix (.S : GateTerm P) : LMat α) = LMat.identity 2 ∧
    mulAdjoint (P := P) (matrix (.Sdg : GateTerm P) : LMat α) = LMat.identity 2 ∧
    mulAdjoint (P := P) (matrix (.T : GateTerm P) : LMat α) = LMat.identity 2 ∧
    mulAdjoint (P := P) (matrix (.Tdg : GateTerm P) : LMat α) = LMat.identity 2 ∧
    mulAdjoint (P := P) (matrix (.V : GateTerm P) : LMat α) = LMat.identity 2 ∧
    mulAdjoint (P := P) (matrix (.Vdg : GateTerm P) : LMat α) = LMat.identity 2 := by
  have h1 := h.I_mul_I; have h4 := h.hsqrt2_mul_self; have h5 := h.half_add_half
  have h6 : (Amp.half P : α) * Amp.half P + Amp.half P * Amp.half P = Amp.half P := by
    have : (Amp.half P : α) * (Amp.half P + Amp.half P) = Amp.half P := by rw [h5, mul_one]
    linear_combination this
  refine ⟨?_, ?_, ?_, ?_, ?_, ?_, ?_, ?_, ?_, ?_, ?_⟩ <;>
    simp only [matrix, matX, matY, matZ, matH, matS, matSdg, matT, matTdg, matV, matVdg, identity_two,
      mulAdjoint_two, h.conj_neg, h.conj_zero, h.conj_one, h.conj_I, h.conj_hsqrt2, h.conj_half,
      h.conj_add, h.conj_sub, h.conj_mul] <;>
    refine mat2_ext ?_ ?_ ?_ ?_ <;> grind

theorem swap_unitary :
    mulAdjoint (P := P) (matrix (.Swap : GateTerm P) : LMat α) = LMat.identity 4 := by
  simp [matrix, matSwap, mulAdjoint, LMat.mul, LMat.transpose, LMat.dot, LMat.mapEntries,
    LMat.identity, List.range_succ, h.conj_zero, h.conj_one]

/-! ### `U3(θ,φ,λ) = e^{i(φ+λ)/2} · RZ(φ) · RY(θ) · RZ(λ)` -/

theorem u3_decomp (hh : LawfulHalf α P) (θ φ l : P) :
    (matrix (.U3 θ φ l) : LMat α) =
      scale (expi (Amp.phalf α (Amp.padd α φ l)))
        (LMat.mul (matrix (.RZ φ)) (LMat.mul (matrix (.RY θ)) (matrix (.RZ l)))) := by
  simp only [matrix, matU3, matRZ, matRY, lmul_two, scale_two, conj_polar_one h, expi,
    hh.cos_phalf_padd, hh.sin_phalf_padd]
  have e1 := hh.cos_phalf_twice φ; have e2 := hh.sin_phalf_twice φ
  have e3 := hh.cos_phalf_twice l; have e4 := hh.sin_phalf_twice l
  simp only [Amp.polar, h.cos_padd, h.sin_padd] at e1 e2 e3 e4 ⊢
  rw [← e1, ← e2, ← e3, ← e4]
  have h1 := h.I_mul_I
  have h2 := h.cos_sq_add_sin_sq (Amp.phalf α φ); have h3 := h.cos_sq_add_sin_sq (Amp.phalf α l)
  refine mat2_ext ?_ ?_ ?_ ?_ <;> grind

end lawful
end Q1t.Proofs.Unitaries

import Q1t.Proofs.LatexStages
/-!
C13 — consequences of the stage trace for whole circuits of the proved class: the final matrix is
exactly the reference stages laid out (each operation exactly once), wires in program order, clear
connector spans; bridge between explicit cells of the matrix and the printed grid.
-/
namespace Q1t.Proofs.Latex
open Q1t.Latex Q1t.Spec.QcGrid

theorem pairwise_mem {α} {R : α → α → Prop} {L : List α} (h : L.Pairwise R) {a b : α} (ha : a ∈ L) (hb : b ∈ L) :
    a = b ∨ R a b ∨ R b a := by
  induction L with
  | nil => cases ha
  | cons x xs ih =>
    rw [List.pairwise_cons] at h
    simp only [List.mem_cons] at ha hb
    rcases ha with rfl | ha <;> rcases hb with rfl | hb
    · exact Or.inl rfl
    · exact Or.inr (Or.inl (h.1 b hb))
    · exact Or.inr (Or.inr (h.1 a ha))
    · exact ih h.2 ha hb

theorem has_new (nq nc c r : Nat) (cell : Cell) : ¬ Has (St.new nq nc) c r cell := by
  unfold Has; simp only [St.new]; exact hasCols_nil c r cell

/-- The layout of a whole circuit (see `Props.C13.each_op_once_partial`). -/
structure Drawn (c : Circ) (s : St) (L : List Stg) : Prop where
  stages : L.map (fun g => (g.prov, g.ws)) = circStages c
  sorted : L.Pairwise fun a b => (a.col ≤ b.col ∧ a.prov ≤ b.prov) ∧
    (a.col = b.col → ∀ p ∈ a.ws, ∀ q ∈ b.ws, p.1 ≠ q.1)
  inGrid : ∀ g ∈ L, g.col < s.rcols.length
  nodup : ∀ g ∈ L, (g.ws.map (·.1)).Nodup
  cells : ∀ col r cell, Has s col r cell ↔ ∃ g ∈ L, g.col = col ∧ g.prov = cell.prov ∧ (r, cell.sym) ∈ g.ws

theorem export_drawn {c : Circ} {s : St} (hop : ∀ op ∈ c.ops, opOk op = true) (h : exportSt c = .ok s) :
    ∃ L, Drawn c s L := by
  obtain ⟨L, t, hm⟩ := exportSt_trace hop h
  have lay := layout_of_trace (inv_new c.nq c.nc) t
  refine ⟨L, hm, List.Pairwise.and lay.sorted lay.disjoint |>.imp (fun h => h), fun g hg => (lay.bounds g hg).2.1,
    lay.nodup, ?_⟩
  intro col r cell
  rw [lay.cells]
  constructor
  · rintro (h | h)
    · exact absurd h (has_new _ _ _ _ _)
    · exact h
  · exact Or.inr

/-- Two cells: the stage of the later operation is not to the left; same wire ⇒ strictly to the right. -/
theorem drawn_order {c : Circ} {s : St} {L : List Stg} (d : Drawn c s L) {c1 c2 r1 r2 : Nat} {x1 x2 : Cell}
    (h1 : Has s c1 r1 x1) (h2 : Has s c2 r2 x2) (hlt : x1.prov < x2.prov) : c1 ≤ c2 ∧ (r1 = r2 → c1 < c2) := by
  obtain ⟨g1, hg1, hc1, hp1, hm1⟩ := (d.cells _ _ _).mp h1
  obtain ⟨g2, hg2, hc2, hp2, hm2⟩ := (d.cells _ _ _).mp h2
  rcases pairwise_mem d.sorted hg1 hg2 with he | ⟨⟨ha, _⟩, hd⟩ | ⟨⟨_, hb⟩, _⟩
  · subst he; omega
  · refine ⟨by omega, ?_⟩
    intro hr
    rcases Nat.lt_or_ge c1 c2 with hl | hge
    · exact hl
    · exfalso
      have hce : g1.col = g2.col := by omega
      exact hd hce _ hm1 _ hm2 hr
  · omega

theorem drawn_column_order {c : Circ} {s : St} {L : List Stg} (d : Drawn c s L) {c1 c2 r1 r2 : Nat} {x1 x2 : Cell}
    (h1 : Has s c1 r1 x1) (h2 : Has s c2 r2 x2) (hlt : c1 < c2) : x1.prov ≤ x2.prov := by
  obtain ⟨g1, hg1, hc1, hp1, hm1⟩ := (d.cells _ _ _).mp h1
  obtain ⟨g2, hg2, hc2, hp2, hm2⟩ := (d.cells _ _ _).mp h2
  rcases pairwise_mem d.sorted hg1 hg2 with he | ⟨⟨_, hb⟩, _⟩ | ⟨⟨ha, _⟩, _⟩
  · subst he; omega
  · omega
  · omega

theorem export_span {c : Circ} {s : St} (hop : ∀ op ∈ c.ops, opOk op = true) (h : exportSt c = .ok s) : Span s := by
  obtain ⟨L, t, _⟩ := exportSt_trace hop h
  exact trace_span (inv_new c.nq c.nc) (span_new c.nq c.nc) t

/-- Column-level facts lifted to `Has`. -/
theorem has_col {s : St} {c r : Nat} {cell : Cell} (h : Has s c r cell) :
    ∃ col ∈ s.rcols, s.rcols.reverse[c]? = some col ∧ col[r]? = some (some cell) := by
  obtain ⟨col, hc, hr⟩ := h
  exact ⟨col, by simpa using List.mem_of_getElem? hc, hc, hr⟩

/-- The span invariant read on `Has`: a line ends on a partner of the same operation, and every explicit
cell strictly between its ends belongs to that operation. -/
theorem span_clear_of_span {s : St} (hsp : Span s) {col r : Nat} {x : Cell} (hx : Has s col r x) {ln : Int × Nat}
    (hln : ln ∈ x.sym.lines) :
    ∃ (t : Nat) (y : Cell), (r : Int) + ln.1 = (t : Int) ∧ Has s col t y ∧
      Sym.partnerOk ln.2 y.sym = true ∧ y.prov = x.prov ∧
      ∀ (r' : Nat) (z : Cell), Between r t r' → Has s col r' z → z.prov = x.prov := by
  obtain ⟨cl, hmem, hc, hr⟩ := has_col hx
  obtain ⟨t, y, ht, hy, hp, hpr⟩ := hsp.partner cl hmem r x hr ln hln
  refine ⟨t, y, ht, ⟨cl, hc, hy⟩, hp, hpr, ?_⟩
  intro r' z hb hz
  obtain ⟨cl', _, hc', hz'⟩ := has_col hz
  rw [hc] at hc'; injection hc' with hc'; subst hc'
  exact hsp.all cl hmem r x hr ln hln t ht r' z hb hz'

/-! ## Bridge to the printed grid -/

/-- An explicit cell of the matrix is printed, at its column and row, as its symbol. -/
theorem grid_of_has {s : St} (hs : Shape s) {g : Grid} (hg : grid s = some g) {c r : Nat} {cell : Cell}
    (h : Has s c r cell) : (g.col c)[r]? = some cell.sym := by
  obtain ⟨col, hmem, hc, hr⟩ := has_col h
  have hrl : r < col.length := by
    rcases Nat.lt_or_ge r col.length with hl | hl
    · exact hl
    · rw [List.getElem?_eq_none hl] at hr; cases hr
  have hrt : r < s.total := by rw [← hs.cols col hmem]; exact hrl
  rw [grid_col_get hg, if_pos hrt]
  obtain ⟨row, hrow, _⟩ := gridRow_shape s hs r hrt
  rw [hrow]
  simp only [Option.map_some, Option.some.injEq]
  rw [List.getD_eq_getElem?_getD, gridRow_get hrow c hc]
  simp [cellOf, hr]

/-- Conversely, every printed symbol that is not a bare wire is an explicit cell of the matrix. -/
theorem has_of_grid {s : St} (hs : Shape s) {g : Grid} (hg : grid s = some g) {c r : Nat} {y : Sym}
    (h : (g.col c)[r]? = some y) (hy : y.isWire = false) : ∃ cell, Has s c r cell ∧ cell.sym = y := by
  rw [grid_col_get hg] at h
  split at h
  · rename_i hrt
    cases hrow : gridRow s r with
    | none => rw [hrow] at h; cases h
    | some row =>
      rw [hrow] at h
      simp only [Option.map_some, Option.some.injEq] at h
      by_cases hcw : c < s.rcols.length
      · have hcr : c < s.rcols.reverse.length := by simpa using hcw
        have hc : s.rcols.reverse[c]? = some s.rcols.reverse[c] := List.getElem?_eq_getElem hcr
        generalize s.rcols.reverse[c] = col at hc
        have hget := gridRow_get hrow c hc
        rw [List.getD_eq_getElem?_getD, hget] at h
        unfold cellOf at h
        split at h
        · simp at h; subst h; simp [Sym.isWire] at hy
        · rename_i cell hcell
          simp at h
          exact ⟨cell, ⟨col, hc, hcell⟩, h⟩
        · rename_i hcell
          simp at h; subst h
          split at hy <;> simp [Sym.isWire] at hy
      · -- beyond the matrix: the closing wire
        exfalso
        unfold gridRow at hrow
        cases hm : mapOpt (cellOf s.nq r) s.rcols.reverse with
        | none => simp [hm] at hrow
        | some cells =>
          simp only [hm, Option.map_some, Option.some.injEq] at hrow
          have hl : cells.length = s.rcols.length := by rw [mapOpt_length _ _ _ hm]; simp
          subst hrow
          split at h
          · rw [List.getD_eq_getElem?_getD, List.getElem?_append_right (by omega)] at h
            rcases Nat.lt_or_ge (c - cells.length) 1 with h1 | h1
            · have : c - cells.length = 0 := by omega
              rw [this] at h
              simp only [List.getElem?_cons_zero, Option.getD_some] at h
              subst h
              split at hy <;> simp [Sym.isWire] at hy
            · rw [List.getElem?_eq_none (by simpa using h1)] at h
              simp at h; subst h; simp [Sym.isWire] at hy
          · rw [List.getD_eq_getElem?_getD, List.getElem?_eq_none (by omega)] at h
            simp at h; subst h; simp [Sym.isWire] at hy
  · cases h

end Q1t.Proofs.Latex

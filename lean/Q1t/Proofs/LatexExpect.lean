import Q1t.Proofs.LatexOnce
/-!
C13 — the reference stages (`opStages`, defined next to the proofs) agree with what the INDEPENDENT
reader of `Spec/QcGrid.lean` expects of an operation (`opItems`: marks per wire + `accepts`), for the
operations that are drawn in one column.
-/
namespace Q1t.Proofs.Latex
open Q1t.Latex Q1t.Spec.QcGrid

/-- The symbols `ws` are an acceptable drawing of the marks: every symbol sits on the wire of a mark
that accepts it, and every mark has its symbol. -/
def StageMatches (ws : List (Nat × Sym)) (marks : List Mark) : Prop :=
  (∀ p ∈ ws, ∃ m ∈ marks, m.wire = p.1 ∧ accepts m.kind p.2 = true) ∧
  (∀ m ∈ marks, ∃ p ∈ ws, p.1 = m.wire ∧ accepts m.kind p.2 = true)

theorem writes_single : ∀ (g : Gate) (bits : List Nat) (ctl : Bool), simple g = true → goodPlace g bits = true →
    ∃ marks, single g bits = some marks ∧ StageMatches (writes g bits ctl) marks ∧
      ∀ m ∈ marks, m.kind ≠ .idle
  | .box l n, [b], ctl, _, _ => by
    refine ⟨[⟨b, .block l⟩], by simp [single], ?_, by simp⟩
    constructor <;> simp [writes, accepts]
  | .x, [b], ctl, _, _ => by
    refine ⟨[⟨b, .xgate⟩], by simp [single], ?_, by simp⟩
    cases ctl <;> constructor <;> simp [writes, accepts]
  | .z, [b], ctl, _, _ => by
    refine ⟨[⟨b, .zgate⟩], by simp [single], ?_, by simp⟩
    cases ctl <;> constructor <;> simp [writes, accepts]
  | .swap, [x0, x1], ctl, _, _ => by
    refine ⟨[⟨x0, .swapX⟩, ⟨x1, .swapX⟩], by simp [single], ?_, by simp⟩
    by_cases h : x1 < x0 <;> constructor <;> simp [writes, accepts, h]
  | .c g, c0 :: t :: ts, ctl, hs, hg => by
    simp only [simple] at hs
    simp only [goodPlace, Bool.and_eq_true] at hg
    obtain ⟨marks, hm, ⟨h1, h2⟩, h3⟩ := writes_single g (t :: ts) true hs hg.2
    refine ⟨⟨c0, .ctrlDot⟩ :: marks, by simp [single, hm], ⟨?_, ?_⟩, ?_⟩
    · intro p hp
      simp only [writes, List.mem_cons] at hp
      rcases hp with rfl | hp
      · exact ⟨⟨c0, .ctrlDot⟩, by simp, rfl, by simp [accepts]⟩
      · obtain ⟨m, hmm, a, b⟩ := h1 p hp
        exact ⟨m, by simp [hmm], a, b⟩
    · intro m hmm
      simp only [List.mem_cons] at hmm
      rcases hmm with rfl | hmm
      · exact ⟨(c0, .ctrl (ctrlOff c0 t ts)), by simp [writes], rfl, by simp [accepts]⟩
      · obtain ⟨p, hp, a, b⟩ := h2 m hmm
        exact ⟨p, by simp [writes, hp], a, b⟩
    · intro m hmm
      simp only [List.mem_cons] at hmm
      rcases hmm with rfl | hmm
      · simp
      · exact h3 m hmm
  | .box _ _, [], _, _, hg | .box _ _, _ :: _ :: _, _, _, hg => by simp [goodPlace] at hg
  | .x, [], _, _, hg | .x, _ :: _ :: _, _, _, hg => by simp [goodPlace] at hg
  | .z, [], _, _, hg | .z, _ :: _ :: _, _, _, hg => by simp [goodPlace] at hg
  | .swap, [], _, _, hg | .swap, [_], _, _, hg | .swap, _ :: _ :: _ :: _, _, _, hg => by simp [goodPlace] at hg
  | .c _, [], _, _, hg | .c _, [_], _, _, hg => by simp [goodPlace] at hg
  | .i, _, _, hs, _ | .kron _ _, _, _, hs, _ | .comp _ _ _, _, _, hs, _ | .loop _ _, _, _, hs, _ => by
    simp [simple] at hs

/-- What the independent reader expects of a one-column gate under the control marks `ctx`: one
connected stage carrying the gate's marks and the control marks. -/
theorem items_simple (g : Gate) (bits : List Nat) (ctx : List Mark) (marks : List Mark)
    (hs : simple g = true) (hm : single g bits = some marks) (hne : ∀ m ∈ marks, m.kind ≠ .idle)
    (hnn : marks ≠ []) : items g bits ctx = [.stage (marks ++ ctx) [] true] := by
  have hall : (marks.all fun x => x.kind = .idle) = false := by
    obtain ⟨m, hmm⟩ := List.exists_mem_of_ne_nil marks hnn
    rw [← Bool.not_eq_true, List.all_eq_true]
    intro hh
    have := hh m hmm
    simp at this
    exact hne m hmm this
  cases g with
  | box l n => simp [items, hm, hall]
  | x => simp [items, hm, hall]
  | z => simp [items, hm, hall]
  | swap => simp [items, hm, hall]
  | c g => simp [items, hm]
  | i => simp [simple] at hs
  | kron a b => simp [simple] at hs
  | comp _ _ _ => simp [simple] at hs
  | loop _ _ => simp [simple] at hs

/-- Operations that are drawn in one column and covered here. -/
def oneColumn : Op → Bool
  | .gate g bits => simple g && goodPlace g bits
  | .measure _ _ _ => true
  | .reset _ => true
  | _ => false

theorem basisLabel_eq (b : Basis) : basisLabel b = basisText b := by cases b <;> rfl

/-- **stage_is_expected** (partial: one-column gates, measure, reset) — the reference stage of the
operation is an acceptable drawing of exactly the marks the independent reader `Spec.QcGrid.opItems`
demands for it: one stage item, every symbol on the wire of a mark that accepts it, every mark drawn. -/
theorem stage_is_expected (nq : Nat) (op : Op) (h : oneColumn op = true) :
    ∃ marks covers conn ws, opItems nq op = [.stage marks covers conn] ∧ opStages nq op = [ws] ∧
      StageMatches ws marks := by
  cases op with
  | gate g bits =>
    simp only [oneColumn, Bool.and_eq_true] at h
    obtain ⟨marks, hm, hmatch, hne⟩ := writes_single g bits false h.1 h.2
    have hnn : marks ≠ [] := by
      intro he; subst he
      have hb : bits ≠ [] := by
        intro hb; subst hb; rw [goodPlace_ne_nil] at h; exact absurd h.2 (by simp)
      obtain ⟨b, hb'⟩ := List.exists_mem_of_ne_nil bits hb
      obtain ⟨p, hp, _⟩ := writes_cover g bits false h.1 h.2 b hb'
      obtain ⟨m, hmm, _⟩ := hmatch.1 p hp
      cases hmm
    refine ⟨marks ++ [], [], true, writes g bits false, ?_, ?_, by simpa using hmatch⟩
    · simp only [opItems]; exact items_simple g bits [] marks h.1 hm hne hnn
    · cases g <;> simp [simple] at h <;> simp [opStages, gateStages]
  | measure q c b =>
    refine ⟨_, _, _, measStage nq q c (basisLabel b), rfl, rfl, ?_⟩
    rw [basisLabel_eq]
    constructor <;> simp [measStage, accepts]
  | reset q =>
    refine ⟨_, _, _, [(q, .reset)], rfl, rfl, ?_⟩
    constructor <;> simp [accepts]
  | cond _ _ _ _ => simp [oneColumn] at h
  | resetAll => simp [oneColumn] at h
  | measureAll _ _ => simp [oneColumn] at h
  | peek _ _ _ => simp [oneColumn] at h
  | peekAll _ _ => simp [oneColumn] at h
  | barrier _ => simp [oneColumn] at h

end Q1t.Proofs.Latex

import Q1t.Proofs.LatexOnce
/-!
C13 — the reference stages (`opStages`, defined next to the proofs) agree with what the INDEPENDENT
reader of `Spec/QcGrid.lean` expects of an operation (`opItems`: marks per wire + `accepts`), for the
operations that are drawn in one column.
-/
namespace Q1t.Proofs.Latex
open Q1t.Latex Q1t.Spec.QcGrid

/-- The symbols `ws` are an acceptable drawing of the marks: every symbol sits on the wire of a mark
that accepts it, and every mark has its symbol. -/
def StageMatches (ws : List (Nat × Sym)) (marks : List Mark) : Prop :=
  (∀ p ∈ ws, ∃ m ∈ marks, m.wire = p.1 ∧ accepts m.kind p.2 = true) ∧
  (∀ m ∈ marks, ∃ p ∈ ws, p.1 = m.wire ∧ accepts m.kind p.2 = true)

theorem writes_single : ∀ (g : Gate) (bits : List Nat) (ctl : Bool), simple g = true → goodPlace g bits = true →
    ∃ marks, single g bits = some marks ∧ StageMatches (writes g bits ctl) marks ∧
      ∀ m ∈ marks, m.kind ≠ .idle
  | .box l n, [b], ctl, _, _ => by
    refine ⟨[⟨b, .block l⟩], by simp [single], ?_, by simp⟩
    constructor <;> simp [writes, accepts]
  | .x, [b], ctl, _, _ => by
    refine ⟨[⟨b, .xgate⟩], by simp [single], ?_, by simp⟩
    cases ctl <;> constructor <;> simp [writes, accepts]
  | .z, [b], ctl, _, _ => by
    refine ⟨[⟨b, .zgate⟩], by simp [single], ?_, by simp⟩
    cases ctl <;> constructor <;> simp [writes, accepts]
  | .swap, [x0, x1], ctl, _, _ => by
    refine ⟨[⟨x0, .swapX⟩, ⟨x1, .swapX⟩], by simp [single], ?_, by simp⟩
    by_cases h : x1 < x0 <;> constructor <;> simp [writes, accepts, h]
  | .c g, c0 :: t :: ts, ctl, hs, hg => by
    simp only [simple] at hs
    simp only [goodPlace, Bool.and_eq_true] at hg
    obtain ⟨marks, hm, ⟨h1, h2⟩, h3⟩ := writes_single g (t :: ts) true hs hg.2
    refine ⟨⟨c0, .ctrlDot⟩ :: marks, by simp [single, hm], ⟨?_, ?_⟩, ?_⟩
    · intro p hp
      simp only [writes, List.mem_cons] at hp
      rcases hp with rfl | hp
      · exact ⟨⟨c0, .ctrlDot⟩, by simp, rfl, by simp [accepts]⟩
      · obtain ⟨m, hmm, a, b⟩ := h1 p hp
        exact ⟨m, by simp [hmm], a, b⟩
    · intro m hmm
      simp only [List.mem_cons] at hmm
      rcases hmm with rfl | hmm
      · exact ⟨(c0, .ctrl (ctrlOff c0 t ts)), by simp [writes], rfl, by simp [accepts]⟩
      · obtain ⟨p, hp, a, b⟩ := h2 m hmm
        exact ⟨p, by simp [writes, hp], a, b⟩
    · intro m hmm
      simp only [List.mem_cons] at hmm
      rcases hmm with rfl | hmm
      · simp
      · exact h3 m hmm
  | .box _ _, [], _, _, hg | .box _ _, _ :: _ :: _, _, _, hg => by simp [goodPlace] at hg
  | .x, [], _, _, hg | .x, _ :: _ :: _, _, _, hg => by simp [goodPlace] at hg
  | .z, [], _, _, hg | .z, _ :: _ :: _, _, _, hg => by simp [goodPlace] at hg
  | .swap, [], _, _, hg | .swap, [_], _, _, hg | .swap, _ :: _ :: _ :: _, _, _, hg => by simp [goodPlace] at hg
  | .c _, [], _, _, hg | .c _, [_], _, _, hg => by simp [goodPlace] at hg
  | .i, _, _, hs, _ | .kron _ _, _, _, hs, _ | .comp _ _ _, _, _, hs, _ | .loop _ _, _, _, hs, _ => by
    simp [simple] at hs

/-- What the independent reader expects of a one-column gate under the control marks `ctx`: one
connected stage carrying the gate's marks and the control marks. -/
theorem items_simple (g : Gate) (bits : List Nat) (ctx : List Mark) (marks : List Mark)
    (hs : simple g = true) (hm : single g bits = some marks) (hne : ∀ m ∈ marks, m.kind ≠ .idle)
    (hnn : marks ≠ []) : items g bits ctx = [.stage (marks ++ ctx) [] true] := by
  have hall : (marks.all fun x => x.kind = .idle) = false := by
    obtain ⟨m, hmm⟩ := List.exists_mem_of_ne_nil marks hnn
    rw [← Bool.not_eq_true, List.all_eq_true]
    intro hh
    have := hh m hmm
    simp at this
    exact hne m hmm this
  cases g with
  | box l n => simp [items, hm, hall]
  | x => simp [items, hm, hall]
  | z => simp [items, hm, hall]
  | swap => simp [items, hm, hall]
  | c g => simp [items, hm]
  | i => simp [simple] at hs
  | kron a b => simp [simple] at hs
  | comp _ _ _ => simp [simple] at hs
  | loop _ _ => simp [simple] at hs

theorem condWrites_mem (t : Nat) : ∀ (bp : List (Nat × Nat)) (pb : Nat), ∀ p ∈ condWrites t bp pb,
    ∃ x ∈ bp, ∃ off, p = (x.1, condSym t x.2 off)
  | [], _ => by intro p hp; cases hp
  | (bit, pos) :: rest, pb => by
    intro p hp
    simp only [condWrites, List.mem_cons] at hp
    rcases hp with rfl | hp
    · exact ⟨(bit, pos), by simp, _, rfl⟩
    · obtain ⟨x, hx, off, he⟩ := condWrites_mem t rest bit p hp
      exact ⟨x, by simp [hx], off, he⟩

theorem condWrites_of_mem (t : Nat) : ∀ (bp : List (Nat × Nat)) (pb : Nat), ∀ x ∈ bp,
    ∃ off, (x.1, condSym t x.2 off) ∈ condWrites t bp pb
  | [], _ => by intro x hx; cases hx
  | (bit, pos) :: rest, pb => by
    intro x hx
    simp only [List.mem_cons] at hx
    rcases hx with rfl | hx
    · exact ⟨(pb : Int) - (bit : Int), by simp [condWrites]⟩
    · obtain ⟨off, h⟩ := condWrites_of_mem t rest bit x hx
      exact ⟨off, by simp [condWrites, h]⟩

theorem accepts_condSym (t pos : Nat) (off : Int) : accepts (.cctl (t.testBit pos)) (condSym t pos off) = true := by
  unfold condSym
  cases h : t.testBit pos <;> simp [accepts]

/-- Operations that are drawn in one column and covered here. -/
def oneColumn : Op → Bool
  | .gate g bits => simple g && goodPlace g bits
  | .cond _ _ g bits => simple g && goodPlace g bits
  | .measure _ _ _ => true
  | .reset _ => true
  | _ => false

theorem basisLabel_eq (b : Basis) : basisLabel b = basisText b := by cases b <;> rfl

/-- **stage_is_expected** (partial: one-column gates, measure, reset) — the reference stage of the
operation is an acceptable drawing of exactly the marks the independent reader `Spec.QcGrid.opItems`
demands for it: one stage item, every symbol on the wire of a mark that accepts it, every mark drawn. -/
theorem stage_is_expected (nq : Nat) (op : Op) (h : oneColumn op = true) :
    ∃ marks covers conn ws, opItems nq op = [.stage marks covers conn] ∧ opStages nq op = [ws] ∧
      StageMatches ws marks := by
  cases op with
  | gate g bits =>
    simp only [oneColumn, Bool.and_eq_true] at h
    obtain ⟨marks, hm, hmatch, hne⟩ := writes_single g bits false h.1 h.2
    have hnn : marks ≠ [] := by
      intro he; subst he
      have hb : bits ≠ [] := by
        intro hb; subst hb; rw [goodPlace_ne_nil] at h; exact absurd h.2 (by simp)
      obtain ⟨b, hb'⟩ := List.exists_mem_of_ne_nil bits hb
      obtain ⟨p, hp, _⟩ := writes_cover g bits false h.1 h.2 b hb'
      obtain ⟨m, hmm, _⟩ := hmatch.1 p hp
      cases hmm
    refine ⟨marks ++ [], [], true, writes g bits false, ?_, ?_, by simpa using hmatch⟩
    · simp only [opItems]; exact items_simple g bits [] marks h.1 hm hne hnn
    · cases g <;> simp [simple] at h <;> simp [opStages, gateStages]
      intro hb; rw [h.1] at hb; simp [blockOk] at hb
  | measure q c b =>
    refine ⟨_, _, _, measStage nq q c (basisLabel b), rfl, rfl, ?_⟩
    rw [basisLabel_eq]
    constructor <;> simp [measStage, accepts]
  | reset q =>
    refine ⟨_, _, _, [(q, .reset)], rfl, rfl, ?_⟩
    constructor <;> simp [accepts]
  | cond control target g bits =>
    simp only [oneColumn, Bool.and_eq_true] at h
    obtain ⟨marks, hm, hmatch, hne⟩ := writes_single g bits true h.1 h.2
    have hb : bits ≠ [] := by
      intro hb; subst hb; rw [goodPlace_ne_nil] at h; exact absurd h.2 (by simp)
    have hnn : marks ≠ [] := by
      intro he; subst he
      obtain ⟨b, hb'⟩ := List.exists_mem_of_ne_nil bits hb
      obtain ⟨p, hp, _⟩ := writes_cover g bits true h.1 h.2 b hb'
      obtain ⟨m, hmm, _⟩ := hmatch.1 p hp
      cases hmm
    let ctx : List Mark := control.zipIdx.map fun (idx, pos) => ⟨nq + idx, .cctl (target.testBit pos)⟩
    have hitems : opItems nq (.cond control target g bits) = [.stage (marks ++ ctx) [] true] := by
      simp only [opItems]
      rw [items_simple g bits _ marks h.1 hm hne hnn]
      split
      · rfl
      · rename_i m0 rest hctx
        have hin : m0 ∈ marks ++ ctx := by
          apply List.mem_append_right
          show m0 ∈ List.map _ _
          rw [hctx]; simp
        have hc : (marks ++ ctx).contains m0 = true := by simpa using hin
        simp only [List.any_cons, List.any_nil, Item.hasMark, Bool.or_false]
        rw [show (marks ++ List.map (fun x : Nat × Nat => ({ wire := nq + x.fst, kind := MarkKind.cctl (target.testBit x.snd) } : Mark))
          control.zipIdx) = marks ++ ctx from rfl, hc]
        simp
    match bits, hb with
    | q0 :: qs, _ =>
      let bp := sortPairs (control.zipIdx.map fun (idx, pos) => (nq + idx, pos))
      refine ⟨marks ++ ctx, [], true, writes g (q0 :: qs) true ++ condWrites target bp (qs.foldl max q0), hitems, rfl, ?_, ?_⟩
      · intro p hp
        rcases List.mem_append.mp hp with hp | hp
        · obtain ⟨m, hmm, a, b⟩ := hmatch.1 p hp
          exact ⟨m, List.mem_append_left _ hmm, a, b⟩
        · obtain ⟨x, hx, off, rfl⟩ := condWrites_mem target bp _ p hp
          have hx' := (sortPairs_perm _).mem_iff.mp hx
          obtain ⟨y, hy, rfl⟩ := List.mem_map.mp hx'
          refine ⟨⟨nq + y.1, .cctl (target.testBit y.2)⟩, List.mem_append_right _ (List.mem_map.mpr ⟨y, hy, rfl⟩), rfl, ?_⟩
          exact accepts_condSym _ _ _
      · intro m hmm
        rcases List.mem_append.mp hmm with hmm | hmm
        · obtain ⟨p, hp, a, b⟩ := hmatch.2 m hmm
          exact ⟨p, List.mem_append_left _ hp, a, b⟩
        · obtain ⟨y, hy, rfl⟩ := List.mem_map.mp hmm
          have hx : (nq + y.1, y.2) ∈ bp := (sortPairs_perm _).mem_iff.mpr (List.mem_map.mpr ⟨y, hy, rfl⟩)
          obtain ⟨off, hin⟩ := condWrites_of_mem target bp (qs.foldl max q0) _ hx
          exact ⟨_, List.mem_append_right _ hin, rfl, accepts_condSym _ _ _⟩
  | resetAll => simp [oneColumn] at h
  | measureAll _ _ => simp [oneColumn] at h
  | peek _ _ _ => simp [oneColumn] at h
  | peekAll _ _ => simp [oneColumn] at h
  | barrier _ => simp [oneColumn] at h

/-! ## Kron / Composite / Loop: the stage list against the reader's item list -/

/-- The stage items of an item list (loop brackets dropped). -/
def itemStages : List Item → List (List Mark)
  | [] => []
  | .stage marks _ _ :: rest => marks :: itemStages rest
  | .loopBegin _ :: rest => itemStages rest
  | .loopEnd :: rest => itemStages rest

theorem itemStages_append (a b : List Item) : itemStages (a ++ b) = itemStages a ++ itemStages b := by
  induction a with
  | nil => rfl
  | cons x xs ih => cases x <;> simp [itemStages, ih]

/-- A stage that consists of explicit bare wires only (the drawing of identity gates): the reader does
not look for it. -/
def allWire (ws : List (Nat × Sym)) : Bool := ws.all fun p => p.2 == .qw

def visible (S : List (List (Nat × Sym))) : List (List (Nat × Sym)) := S.filter fun ws => !allWire ws

theorem visible_append (a b : List (List (Nat × Sym))) : visible (a ++ b) = visible a ++ visible b := by
  simp [visible]

def StagesMatch : List (List (Nat × Sym)) → List (List Mark) → Prop
  | [], [] => True
  | ws :: r, ms :: r' => StageMatches ws ms ∧ StagesMatch r r'
  | [], _ :: _ => False
  | _ :: _, [] => False

theorem StagesMatch.append : ∀ {a : List (List (Nat × Sym))} {a' : List (List Mark)} {b b'},
    StagesMatch a a' → StagesMatch b b' → StagesMatch (a ++ b) (a' ++ b')
  | [], [], _, _, _, h2 => by simpa using h2
  | _ :: _, _ :: _, _, _, h1, h2 => by
    simp only [List.cons_append, StagesMatch] at h1 ⊢
    exact ⟨h1.1, StagesMatch.append h1.2 h2⟩
  | [], _ :: _, _, _, h1, _ => by simp [StagesMatch] at h1
  | _ :: _, [], _, _, h1, _ => by simp [StagesMatch] at h1

theorem subBits_eq_mapBits (bits : List Nat) : ∀ (sb : List Nat), sb.any (· ≥ bits.length) = false →
    subBits bits sb = some (mapBits bits sb)
  | [], _ => rfl
  | b :: rest, h => by
    simp only [List.any_cons, Bool.or_eq_false_iff, decide_eq_false_iff_not, Nat.not_le] at h
    have ih := subBits_eq_mapBits bits rest (by simpa using h.2)
    simp only [subBits, ih, mapBits, List.map_cons]
    rw [List.getElem?_eq_getElem h.1]
    simp [List.getD_eq_getElem?_getD, List.getElem?_eq_getElem h.1]

/-- A one-column gate is one visible stage matching the reader's one stage item. -/
theorem simple_stage_items (g : Gate) (bits : List Nat) (hs : simple g = true) (hg : goodPlace g bits = true) :
    StagesMatch (visible [writes g bits false]) (itemStages (items g bits [])) := by
  obtain ⟨marks, hm, hmatch, hne⟩ := writes_single g bits false hs hg
  have hb : bits ≠ [] := by
    intro hb; subst hb; rw [goodPlace_ne_nil] at hg; cases hg
  obtain ⟨b, hb'⟩ := List.exists_mem_of_ne_nil bits hb
  obtain ⟨p, hp, _, hgp⟩ := writes_cover g bits false hs hg b hb'
  have hnn : marks ≠ [] := by
    intro he; subst he
    obtain ⟨m, hmm, _⟩ := hmatch.1 p hp
    cases hmm
  have hvis : allWire (writes g bits false) = false := by
    rw [← Bool.not_eq_true]
    intro hall
    have := List.all_eq_true.mp hall p hp
    have hq : p.2 = .qw := by simpa using this
    rw [hq] at hgp; simp [Sym.isGatePart] at hgp
  rw [items_simple g bits [] marks hs hm hne hnn]
  simp only [visible, List.filter_cons, hvis, Bool.not_false, if_true, List.filter_nil, itemStages, StagesMatch,
    List.append_nil, and_true]
  exact hmatch

/-! ### Multi-qubit block gates -/

theorem ghostWrites_syms (d : String) : ∀ (n b : Nat), ∀ p ∈ ghostWrites d b n, accepts (.block d) p.2 = true
  | 0, _ => by intro p hp; cases hp
  | n + 1, b => by
    intro p hp
    simp only [ghostWrites, List.mem_cons] at hp
    rcases hp with rfl | hp
    · simp [accepts]
    · exact ghostWrites_syms d n (b + 1) p hp

theorem drawWrites_syms (f l : Nat) (d : String) (q : Option Int) :
    ∀ p ∈ drawWrites f l d q, accepts (.block d) p.2 = true := by
  intro p hp
  unfold drawWrites at hp
  split at hp
  · simp only [List.mem_singleton] at hp; subst hp; simp [accepts]
  · simp only [List.mem_cons] at hp
    rcases hp with rfl | hp
    · simp [accepts]
    · exact ghostWrites_syms d _ _ p hp

theorem restWrites_syms (d : String) : ∀ (rs : List (Nat × Nat)) (prev : Nat),
    ∀ p ∈ restWrites d rs prev, accepts (.block d) p.2 = true
  | [], _ => by intro p hp; cases hp
  | (f, l) :: more, prev => by
    intro p hp
    simp only [restWrites, List.mem_append] at hp
    rcases hp with hp | hp
    · exact drawWrites_syms f l d _ p hp
    · exact restWrites_syms d more l p hp

/-- Every symbol of a block gate's drawing is a part of the box with its label. -/
theorem blockWrites_syms (d : String) (bits : List Nat) : ∀ p ∈ blockWrites d bits, accepts (.block d) p.2 = true := by
  intro p hp
  unfold blockWrites at hp
  split at hp
  · simp only [List.mem_append] at hp
    rcases hp with hp | hp
    · exact drawWrites_syms _ _ d _ p hp
    · exact restWrites_syms d _ _ p hp
  · cases hp

theorem ghostWrites_mem (d : String) : ∀ (n b j : Nat), j < n → (b + j, Sym.ghost d) ∈ ghostWrites d b n
  | 0, _, _, h => by omega
  | n + 1, b, 0, _ => by simp [ghostWrites]
  | n + 1, b, j + 1, h => by
    have := ghostWrites_mem d n (b + 1) j (by omega)
    simp only [ghostWrites, List.mem_cons]
    right
    have e : b + 1 + j = b + (j + 1) := by omega
    rw [e] at this; exact this

theorem ghostWrites_no_multi (d : String) : ∀ (n b : Nat) (r k : Nat) (d' : String) (q : Option Int),
    (r, Sym.multigate k d' q) ∉ ghostWrites d b n
  | 0, _, _, _, _, _ => by simp [ghostWrites]
  | n + 1, b, r, k, d', q => by
    simp only [ghostWrites, List.mem_cons, Prod.mk.injEq, reduceCtorEq, and_false, false_or]
    exact ghostWrites_no_multi d n (b + 1) r k d' q

theorem drawWrites_extent (f l : Nat) (d : String) (q : Option Int) (r k : Nat) (d' : String) (q' : Option Int)
    (h : (r, Sym.multigate k d' q') ∈ drawWrites f l d q) :
    d' = d ∧ ∀ j, j < k → (r + 1 + j, Sym.ghost d) ∈ drawWrites f l d q := by
  unfold drawWrites at h ⊢
  split at h
  · simp at h
  · rename_i hne
    rw [if_neg hne]
    simp only [List.mem_cons, Prod.mk.injEq, Sym.multigate.injEq] at h
    rcases h with ⟨rfl, rfl, rfl, rfl⟩ | h
    · exact ⟨rfl, fun j hj => List.mem_cons_of_mem _ (ghostWrites_mem _ _ _ j hj)⟩
    · exact absurd h (ghostWrites_no_multi _ _ _ _ _ _ _)

theorem restWrites_extent (d : String) : ∀ (rs : List (Nat × Nat)) (prev : Nat) (r k : Nat) (d' : String)
    (q' : Option Int), (r, Sym.multigate k d' q') ∈ restWrites d rs prev →
    d' = d ∧ ∀ j, j < k → (r + 1 + j, Sym.ghost d) ∈ restWrites d rs prev
  | [], _, _, _, _, _, h => by simp [restWrites] at h
  | (f, l) :: more, prev, r, k, d', q', h => by
    simp only [restWrites, List.mem_append] at h ⊢
    rcases h with h | h
    · obtain ⟨e, hj⟩ := drawWrites_extent f l d _ r k d' q' h
      exact ⟨e, fun j hjk => Or.inl (hj j hjk)⟩
    · obtain ⟨e, hj⟩ := restWrites_extent d more l r k d' q' h
      exact ⟨e, fun j hjk => Or.inr (hj j hjk)⟩

/-- In the drawing of a block gate every `\\multigate{k}` sits on `k` ghosts with its label (the reader's
`extentOk` for multigates). -/
theorem blockWrites_extent (d : String) (bits : List Nat) (r k : Nat) (d' : String) (q' : Option Int)
    (h : (r, Sym.multigate k d' q') ∈ blockWrites d bits) :
    d' = d ∧ ∀ j, j < k → (r + 1 + j, Sym.ghost d) ∈ blockWrites d bits := by
  unfold blockWrites at h ⊢
  split at h
  · rename_i f l more hg
    simp only [List.mem_append] at h ⊢
    rcases h with h | h
    · obtain ⟨e, hj⟩ := drawWrites_extent f l d _ r k d' q' h
      exact ⟨e, fun j hjk => Or.inl (hj j hjk)⟩
    · obtain ⟨e, hj⟩ := restWrites_extent d more l r k d' q' h
      exact ⟨e, fun j hjk => Or.inr (hj j hjk)⟩
  · cases h

/-- A multi-qubit block gate at a covered placement: one visible stage, an acceptable drawing of the
reader's marks (one part of the box on every operand). -/
theorem block_stage_items {d : String} {n : Nat} {bits : List Nat} (hok : blockOk d n bits = true) :
    StagesMatch (visible [blockWrites d bits]) (itemStages (items (.box d n) bits [])) := by
  obtain ⟨_, _, _, hcov, hsub⟩ := blockOk_facts hok
  obtain ⟨_, _, _, _, hne, _, _⟩ := blockOk_latex hok (St.new 0 0)
  obtain ⟨b, hb⟩ := List.exists_mem_of_ne_nil bits hne
  obtain ⟨p0, hp0, _⟩ := hcov b hb
  have hvis : allWire (blockWrites d bits) = false := by
    rw [← Bool.not_eq_true]
    intro hall
    have := List.all_eq_true.mp hall p0 hp0
    have hq : p0.2 = .qw := by simpa using this
    have := blockWrites_syms d bits p0 hp0
    rw [hq] at this; simp [accepts] at this
  have hitems : items (.box d n) bits [] = [.stage (bits.map (fun b => (⟨b, .block d⟩ : Mark)) ++ []) [] true] := by
    have hall : ((bits.map fun b => (⟨b, .block d⟩ : Mark)).all fun x => x.kind = .idle) = false := by
      rw [← Bool.not_eq_true, List.all_eq_true]
      intro hh
      have := hh ⟨b, .block d⟩ (List.mem_map.mpr ⟨b, hb, rfl⟩)
      simp at this
    simp [items, single, hall]
  rw [hitems]
  simp only [visible, List.filter_cons, hvis, Bool.not_false, if_true, List.filter_nil, itemStages, StagesMatch,
    List.append_nil, and_true]
  constructor
  · intro p hp
    exact ⟨⟨p.1, .block d⟩, List.mem_map.mpr ⟨p.1, hsub p hp, rfl⟩, rfl, blockWrites_syms d bits p hp⟩
  · intro m hm
    obtain ⟨x, hx, rfl⟩ := List.mem_map.mp hm
    obtain ⟨p, hp, h1⟩ := hcov x hx
    exact ⟨p, hp, h1, blockWrites_syms d bits p hp⟩

mutual
/-- **The reference stages of a gate of the proved class are what the independent reader expects**:
the visible stages (explicit identity wires dropped) match the reader's stage items one by one, in
order — for well-formed operand lists (`gateMalformed = false`, the reader's own notion). -/
theorem gateStages_items : ∀ (g : Gate) (bits : List Nat), topOk g bits = true → gateMalformed g bits = false →
    StagesMatch (visible (gateStages g bits false)) (itemStages (items g bits []))
  | .box l n, bits, ht, _ => by
    simp only [topOk, Bool.or_eq_true, Bool.and_eq_true, decide_eq_true_eq] at ht
    rcases ht with ht | ht
    · have hn : n = 1 := by simpa [simple] using ht.1.1
      have hb : blockOk l n bits = false := by subst hn; simp [blockOk]
      simpa [gateStages, hb] using simple_stage_items _ bits ht.1.1 ht.1.2
    · simpa [gateStages, ht] using block_stage_items ht
  | .x, bits, ht, _ => by
    simp only [topOk] at ht
    simpa [gateStages] using simple_stage_items .x bits rfl ht
  | .z, bits, ht, _ => by
    simp only [topOk] at ht
    simpa [gateStages] using simple_stage_items .z bits rfl ht
  | .swap, bits, ht, _ => by
    simp only [topOk, Bool.and_eq_true, decide_eq_true_eq] at ht
    simpa [gateStages] using simple_stage_items .swap bits rfl ht.1
  | .c g, bits, ht, _ => by
    simp only [topOk, Bool.and_eq_true, decide_eq_true_eq] at ht
    simpa [gateStages] using simple_stage_items (.c g) bits (by simpa [simple] using ht.1.1) ht.1.2
  | .i, bits, _, _ => by
    have hit : items .i bits [] = [] := by
      simp [items, single]
    rw [hit]
    cases bits <;> simp [gateStages, visible, allWire, itemStages, StagesMatch]
  | .kron a b, bits, ht, hm => by
    simp only [topOk, Bool.and_eq_true] at ht
    simp only [gateMalformed, Bool.or_eq_false_iff] at hm
    have h1 := gateStages_items a _ ht.1 hm.1.2
    have h2 := gateStages_items b _ ht.2 hm.2
    have : items (.kron a b) bits [] = items a (bits.take a.nbits) [] ++ items b (bits.drop a.nbits) [] := by
      simp [items]
    rw [this, itemStages_append]
    simp only [gateStages, visible_append]
    exact h1.append h2
  | .comp name n ops, bits, ht, hm => by
    simp only [topOk] at ht
    simp only [gateMalformed, Bool.or_eq_false_iff] at hm
    have : items (.comp name n ops) bits [] = subItems ops bits [] := by simp [items]
    rw [this]
    simp only [gateStages]
    exact subsStages_items ops bits ht hm.2
  | .loop iters body, bits, ht, hm => by
    simp only [topOk] at ht
    simp only [gateMalformed] at hm
    have hb := gateStages_items body bits ht hm
    match iters with
    | 0 => simp [gateStages, items, visible, itemStages, StagesMatch]
    | 1 => simpa [gateStages, items] using hb
    | 2 =>
      have : items (.loop 2 body) bits [] = items body bits [] ++ items body bits [] := by simp [items]
      rw [this, itemStages_append]
      simp only [gateStages, visible_append]
      exact hb.append hb
    | k + 3 =>
      match bits, hb with
      | [], _ => simp [gateStages, items, visible, itemStages, StagesMatch]
      | b :: bs, hb =>
        have : items (.loop (k + 3) body) (b :: bs) [] =
            [.loopBegin (k + 3)] ++ items body (b :: bs) [] ++
              [.stage [⟨bs.foldl min b, .cds (bs.foldl max b - bs.foldl min b)⟩] [] false] ++
              items body (b :: bs) [] ++ [.loopEnd] := by simp [items]
        rw [this]
        simp only [itemStages_append, itemStages, List.nil_append, List.append_nil]
        have hg : gateStages (.loop (k + 3) body) (b :: bs) false =
            gateStages body (b :: bs) false ++
              [[(bs.foldl min b, .cds (bs.foldl max b - bs.foldl min b) "\\cdots")]] ++
              gateStages body (b :: bs) false := by
          rw [gateStages] <;> simp
        rw [hg]
        simp only [visible_append]
        refine (hb.append ?_).append hb
        simp only [visible, List.filter_cons, allWire, List.all_cons, List.all_nil, Bool.and_true, List.filter_nil]
        simp [StagesMatch, StageMatches, accepts]
theorem subsStages_items : ∀ (ops : Subs) (bits : List Nat), topOkSubs ops bits = true →
    subsMalformed ops bits = false →
    StagesMatch (visible (subsStages ops bits false)) (itemStages (subItems ops bits []))
  | .nil, bits, _, _ => by simp [subsStages, subItems, visible, itemStages, StagesMatch]
  | .cons g sb rest, bits, ht, hm => by
    simp only [topOkSubs, Bool.and_eq_true] at ht
    simp only [subsMalformed, Bool.or_eq_false_iff] at hm
    have hsb := subBits_eq_mapBits bits sb hm.1.1
    rw [hsb] at ht
    have h1 := gateStages_items g _ ht.1 hm.1.2
    have h2 := subsStages_items rest bits ht.2 hm.2
    have : subItems (.cons g sb rest) bits [] = items g (mapBits bits sb) [] ++ subItems rest bits [] := by
      simp [subItems]
    rw [this, itemStages_append]
    simp only [subsStages, hsb, visible_append]
    exact h1.append h2
end

/-! ## Whole operations -/

theorem measAll_items (nq : Nat) (b : Option String) : ∀ (cbits : List Nat) (q : Nat),
    StagesMatch (visible (measAllStages nq b cbits q))
      (itemStages ((cbits.zipIdx q).map fun (c, q') => Item.stage [⟨q', .meter b⟩, ⟨nq + c, .measEnd⟩] [] true))
  | [], _ => by simp [measAllStages, visible, itemStages, StagesMatch]
  | c :: rest, q => by
    have ih := measAll_items nq b rest (q + 1)
    simp only [measAllStages, List.zipIdx_cons, List.map_cons, itemStages]
    have hv : allWire (measStage nq q c b) = false := by simp [allWire, measStage]
    simp only [visible, List.filter_cons, hv, Bool.not_false, if_true, StagesMatch]
    refine ⟨?_, ih⟩
    constructor <;> simp [measStage, accepts]

/-- Operations whose reference stages are grouped like the reader's items (reset_all and barrier are
grouped differently by the reader: one stage per qubit / one stage for all runs). -/
def matchable : Op → Bool
  | .resetAll | .barrier _ => false
  | _ => true

/-- **stages_are_expected** — for every operation of the proved class with a well-formed operand
list (except reset_all and barrier, see `matchable`): the visible reference stages match, one by one
and in order, the stage items the independent reader `Spec.QcGrid.opItems` demands. -/
theorem opStages_items (nq : Nat) (op : Op) (hop : opOk op = true) (hm : op.malformed nq = false)
    (hk : matchable op = true) :
    StagesMatch (visible (opStages nq op)) (itemStages (opItems nq op)) := by
  cases op with
  | gate g bits => exact gateStages_items g bits hop hm
  | cond control target g bits =>
    simp only [opOk, condOk, Bool.and_eq_true, decide_eq_true_eq] at hop
    obtain ⟨marks, covers, conn, ws, hi, hs, hmatch⟩ :=
      stage_is_expected nq (.cond control target g bits) (by simp [oneColumn, hop.1.1.1, hop.1.1.2])
    rw [hi, hs]
    -- the stage contains a gate part, so it is visible
    have hb : bits ≠ [] := by
      intro hb; subst hb; have := hop.1.1.2; rw [goodPlace_ne_nil] at this; cases this
    obtain ⟨b, hb'⟩ := List.exists_mem_of_ne_nil bits hb
    obtain ⟨p, hp, _, hgp⟩ := writes_cover g bits true hop.1.1.1 hop.1.1.2 b hb'
    have hws : ws = condStage nq control target g bits := by
      simp only [opStages] at hs; injection hs with hs; exact hs.symm
    have hv : allWire ws = false := by
      rw [← Bool.not_eq_true]
      intro hall
      have hin : p ∈ ws := by
        rw [hws]
        match bits, hb, hp with
        | q0 :: qs, _, hp => exact List.mem_append_left _ hp
      have := List.all_eq_true.mp hall p hin
      have hq : p.2 = .qw := by simpa using this
      rw [hq] at hgp; simp [Sym.isGatePart] at hgp
    simp only [visible, List.filter_cons, hv, Bool.not_false, if_true, List.filter_nil, itemStages, StagesMatch,
      and_true]
    exact hmatch
  | measure q c b =>
    simp only [opStages, opItems, itemStages]
    have hv : allWire (measStage nq q c (basisLabel b)) = false := by simp [allWire, measStage]
    simp only [visible, List.filter_cons, hv, Bool.not_false, if_true, List.filter_nil, StagesMatch, and_true]
    rw [basisLabel_eq]
    constructor <;> simp [measStage, accepts]
  | measureAll cbits b =>
    simp only [opStages, opItems]
    rw [basisLabel_eq]
    exact measAll_items nq (basisText b) cbits 0
  | reset q =>
    have hv : allWire [(q, Sym.reset)] = false := by simp [allWire]
    simp only [opStages, opItems, itemStages, visible, List.filter_cons, hv, Bool.not_false, if_true,
      List.filter_nil, StagesMatch, and_true]
    constructor <;> simp [accepts]
  | resetAll => simp [matchable] at hk
  | barrier _ => simp [matchable] at hk
  | peek _ _ _ => simp [opStages, opItems, visible, itemStages, StagesMatch]
  | peekAll _ _ => simp [opStages, opItems, visible, itemStages, StagesMatch]

end Q1t.Proofs.Latex

import Mathlib.Tactic.Ring
import Mathlib.Tactic.LinearCombination
import Q1t.Proofs.OpenQasmCtrl3
set_option linter.unusedSimpArgs false
set_option linter.unusedSectionVars false
/-!
C11: the CONSTANT library gates over an arbitrary lawful amplitude type (the exact-field checks of
`OpenQasmConst*.lean` cover `ℚ(ζ₈)` only): every one of them satisfies `LibGateOK`, so that the whole-circuit
equivalence (`OpenQasmEquiv.lean`) may use them as leaves.
-/
namespace Q1t.OpenQasm
open Q1t Q1t.Spec Q1t.Spec.OQ2 Q1t.Proofs.Unitaries

variable {α P : Type} [CommRing α] [Amp α P] [Angle P]

abbrev piA : P := Angle.pi
abbrev nHalfPi : P := Angle.div (Angle.neg Angle.pi) (Angle.ofDec 2 0)
abbrev quarterPi : P := Angle.div Angle.pi (Angle.ofDec 4 0)

/-- laws about the angle `π` -/
structure LawfulAnglePi (α P : Type) [CommRing α] [Amp α P] [Angle P] : Prop where
  cos_pi : (Amp.cos (piA : P) : α) = -1
  sin_pi : (Amp.sin (piA : P) : α) = 0
  cos_half_pi : (Amp.cos (Amp.phalf α (piA : P)) : α) = 0
  sin_half_pi : (Amp.sin (Amp.phalf α (piA : P)) : α) = 1
  cos_npi_two : (Amp.cos (nHalfPi : P) : α) = 0
  sin_npi_two : (Amp.sin (nHalfPi : P) : α) = -1

theorem meaning_H : libMeaning (α := α) (P := P) libTable "H" [] = some (wrap1 (wrap1 (wrap1 (matU (halfPi : P) z0 piA)))) := by rfl
theorem meaning_X : libMeaning (α := α) (P := P) libTable "X" [] = some (wrap1 (wrap1 (wrap1 (matU (piA : P) z0 piA)))) := by rfl
theorem meaning_Y : libMeaning (α := α) (P := P) libTable "Y" [] = some (wrap1 (wrap1 (wrap1 (matU (piA : P) halfPi halfPi)))) := by rfl
theorem meaning_Z : libMeaning (α := α) (P := P) libTable "Z" [] = some (wrap1 (wrap1 (wrap1 (matU (z0 : P) z0 piA)))) := by rfl
theorem meaning_S : libMeaning (α := α) (P := P) libTable "S" [] = some (wrap1 (wrap1 (wrap1 (matU (z0 : P) z0 halfPi)))) := by rfl
theorem meaning_Sdg : libMeaning (α := α) (P := P) libTable "Sdg" [] = some (wrap1 (wrap1 (wrap1 (matU (z0 : P) z0 (Angle.neg halfPi))))) := by rfl
theorem meaning_T : libMeaning (α := α) (P := P) libTable "T" [] = some (wrap1 (wrap1 (wrap1 (matU (z0 : P) z0 (Angle.div Angle.pi (Angle.ofDec 4 0)))))) := by rfl
theorem meaning_Tdg : libMeaning (α := α) (P := P) libTable "Tdg" [] = some (wrap1 (wrap1 (wrap1 (matU (z0 : P) z0 (Angle.neg (Angle.div Angle.pi (Angle.ofDec 4 0))))))) := by rfl
theorem meaning_V : libMeaning (α := α) (P := P) libTable "V" [] = some (wrap1 (wrap1 (matU (halfPi : P) nHalfPi halfPi))) := by rfl
theorem meaning_Vdg : libMeaning (α := α) (P := P) libTable "Vdg" [] = some (wrap1 (wrap1 (matU (halfPi : P) halfPi nHalfPi))) := by rfl
theorem meaning_I : libMeaning (α := α) (P := P) libTable "I" [] = some (wrap1 (wrap1 (matU (z0 : P) z0 z0))) := by rfl

section lawful
variable (h : LawfulAmp α P) (ha : LawfulAngle α P) (ha2 : LawfulAngle2 α P) (hpi : LawfulAnglePi α P)
include h ha hpi

theorem expi_pi : (OQ2.expi (piA : P) : α) = -1 := by
  simp only [OQ2.expi, hpi.cos_pi, hpi.sin_pi]; ring

theorem expi_nHalfPi : (OQ2.expi (nHalfPi : P) : α) = -Amp.I P := by
  simp only [OQ2.expi, hpi.cos_npi_two, hpi.sin_npi_two]; ring

omit ha hpi in
theorem hsq : (Amp.hsqrt2 P : α) * Amp.hsqrt2 P + Amp.hsqrt2 P * Amp.hsqrt2 P = 1 := by
  rw [h.hsqrt2_mul_self, h.half_add_half]

theorem h_ok : LibGateOK α P libTable "H" [] := by
  refine ⟨_, .H, meaning_H, rfl, PhaseEq.of_eq h ?_⟩
  rw [wrap1_matU, wrap1_matU, wrap1_matU]
  simp only [matU, specMatrix, expi_padd h ha, expi_zero h ha, expi_pi h ha hpi, ha.cos_quarterPi, ha.sin_quarterPi]
  refine mat2_ext ?_ ?_ ?_ ?_ <;> ring

theorem x_ok : LibGateOK α P libTable "X" [] := by
  refine ⟨_, .X, meaning_X, rfl, PhaseEq.of_eq h ?_⟩
  rw [wrap1_matU, wrap1_matU, wrap1_matU]
  simp only [matU, specMatrix, pauliX, expi_padd h ha, expi_zero h ha, expi_pi h ha hpi, hpi.cos_half_pi,
    hpi.sin_half_pi]
  refine mat2_ext ?_ ?_ ?_ ?_ <;> ring

theorem y_ok : LibGateOK α P libTable "Y" [] := by
  refine ⟨_, .Y, meaning_Y, rfl, PhaseEq.of_eq h ?_⟩
  rw [wrap1_matU, wrap1_matU, wrap1_matU]
  simp only [matU, specMatrix, pauliY, expi_padd h ha, expi_halfPi h ha, hpi.cos_half_pi, hpi.sin_half_pi]
  refine mat2_ext ?_ ?_ ?_ ?_ <;> ring

theorem z_ok : LibGateOK α P libTable "Z" [] := by
  refine ⟨_, .Z, meaning_Z, rfl, PhaseEq.of_eq h ?_⟩
  rw [wrap1_matU, wrap1_matU, wrap1_matU, matU_diag h ha]
  simp only [specMatrix, pauliZ, expi_pi h ha hpi]

theorem s_ok : LibGateOK α P libTable "S" [] := by
  refine ⟨_, .S, meaning_S, rfl, PhaseEq.of_eq h ?_⟩
  rw [wrap1_matU, wrap1_matU, wrap1_matU, matU_diag h ha]
  simp only [specMatrix, expi_halfPi h ha]

theorem sdg_ok : LibGateOK α P libTable "Sdg" [] := by
  refine ⟨_, .Sdg, meaning_Sdg, rfl, PhaseEq.of_eq h ?_⟩
  rw [wrap1_matU, wrap1_matU, wrap1_matU, matU_diag h ha]
  simp only [specMatrix, expi_neg_halfPi h ha]

include ha2 in
theorem t_ok : LibGateOK α P libTable "T" [] := by
  refine ⟨_, .T, meaning_T, rfl, PhaseEq.of_eq h ?_⟩
  rw [wrap1_matU, wrap1_matU, wrap1_matU, matU_diag h ha]
  simp only [specMatrix, OQ2.expi, ha2.cos_pi_four, ha2.sin_pi_four, h.zeta8_eq]
  refine mat2_ext rfl rfl rfl ?_; ring

include ha2 in
theorem tdg_ok : LibGateOK α P libTable "Tdg" [] := by
  refine ⟨_, .Tdg, meaning_Tdg, rfl, PhaseEq.of_eq h ?_⟩
  rw [wrap1_matU, wrap1_matU, wrap1_matU, matU_diag h ha]
  simp only [specMatrix, expi_neg h ha, ha2.cos_pi_four, ha2.sin_pi_four, h.zeta8_eq, h.conj_add, h.conj_mul,
    h.conj_hsqrt2, h.conj_I]
  refine mat2_ext rfl rfl rfl ?_; ring

theorem i_ok : LibGateOK α P libTable "I" [] := by
  refine ⟨_, .I, meaning_I, rfl, PhaseEq.of_eq h ?_⟩
  rw [wrap1_matU, wrap1_matU, matU_diag h ha]
  simp only [specMatrix, expi_zero h ha]

/-- `V` is exported as `u3(pi/2, -pi/2, pi/2)`: the documented matrix times the phase `e^{-iπ/4}` -/
theorem v_ok : LibGateOK α P libTable "V" [] := by
  refine ⟨_, .V, meaning_V, rfl, ?_⟩
  rw [wrap1_matU, wrap1_matU]
  have hI := h.I_mul_I
  have hx := h.hsqrt2_mul_self
  have hh := h.half_add_half
  refine ⟨Amp.hsqrt2 P - Amp.hsqrt2 P * Amp.I P, ?_, ?_⟩
  · simp only [h.conj_sub, h.conj_mul, h.conj_hsqrt2, h.conj_I]
    grind
  · simp only [matU, specMatrix, expi_padd h ha, expi_halfPi h ha, expi_nHalfPi h ha hpi, ha.cos_quarterPi,
      ha.sin_quarterPi, smulMat_two]
    refine mat2_ext ?_ ?_ ?_ ?_ <;> grind

/-- `Vdg` is exported as `u3(pi/2, pi/2, -pi/2)`: the documented matrix times the phase `e^{iπ/4}` -/
theorem vdg_ok : LibGateOK α P libTable "Vdg" [] := by
  refine ⟨_, .Vdg, meaning_Vdg, rfl, ?_⟩
  rw [wrap1_matU, wrap1_matU]
  have hI := h.I_mul_I
  have hx := h.hsqrt2_mul_self
  have hh := h.half_add_half
  refine ⟨Amp.hsqrt2 P + Amp.hsqrt2 P * Amp.I P, ?_, ?_⟩
  · simp only [h.conj_add, h.conj_mul, h.conj_hsqrt2, h.conj_I]
    grind
  · simp only [matU, specMatrix, expi_padd h ha, expi_halfPi h ha, expi_nHalfPi h ha hpi, ha.cos_quarterPi,
      ha.sin_quarterPi, smulMat_two]
    refine mat2_ext ?_ ?_ ?_ ?_ <;> grind

end lawful

/-! ## two-qubit constants -/

theorem apps_CX : libApps (P := P) libTable "CX" [] = some [("cx", [], [0, 1])] := by rfl
theorem apps_CY : libApps (P := P) libTable "CY" [] = some [("cy", [], [0, 1])] := by rfl
theorem apps_CZ : libApps (P := P) libTable "CZ" [] = some [("cz", [], [0, 1])] := by rfl
theorem apps_CH : libApps (P := P) libTable "CH" [] = some [("ch", [], [0, 1])] := by rfl
theorem apps_CS : libApps (P := P) libTable "CS" [] = some [("cu1", [halfPi], [0, 1])] := by rfl
theorem apps_CSdg : libApps (P := P) libTable "CSdg" [] = some [("cu1", [nHalfPi], [0, 1])] := by rfl
theorem apps_Swap : libApps (P := P) libTable "Swap" [] =
    some [("cx", [], [0, 1]), ("cx", [], [1, 0]), ("cx", [], [0, 1])] := by rfl

/-- the one-qubit constants of `qelib1.inc` as they appear inside gate bodies -/
abbrev qH : LMat α := wrap1 (wrap1 (matU (halfPi : P) z0 piA))
abbrev qS : LMat α := wrap1 (wrap1 (matU (z0 : P) z0 halfPi))
abbrev qSdg : LMat α := wrap1 (wrap1 (matU (z0 : P) z0 (Angle.neg halfPi)))
abbrev qT : LMat α := wrap1 (wrap1 (matU (z0 : P) z0 quarterPi))
abbrev qTdg : LMat α := wrap1 (wrap1 (matU (z0 : P) z0 (Angle.neg quarterPi)))
abbrev qX : LMat α := wrap1 (wrap1 (matU (piA : P) z0 piA))
abbrev qCX : LMat α := app2 [0, 1] matCX I4

set_option maxHeartbeats 400000 in
theorem gm_cy : gateMatrix (α := α) (P := P) defaultFuel "cy" [] =
    some (app2 [1] (qS (P := P)) (app2 [0, 1] qCX (app2 [1] (qSdg (P := P)) I4))) := by rfl

set_option maxHeartbeats 400000 in
theorem gm_cz : gateMatrix (α := α) (P := P) defaultFuel "cz" [] =
    some (app2 [1] (qH (P := P)) (app2 [0, 1] qCX (app2 [1] (qH (P := P)) I4))) := by rfl

set_option maxHeartbeats 400000 in
theorem gm_ch : gateMatrix (α := α) (P := P) defaultFuel "ch" [] =
    some (app2 [0] (qS (P := P)) (app2 [1] (qX (P := P)) (app2 [1] (qS (P := P)) (app2 [1] (qH (P := P))
      (app2 [1] (qT (P := P)) (app2 [0, 1] qCX (app2 [1] (qT (P := P)) (app2 [1] (qH (P := P))
        (app2 [0, 1] qCX (app2 [1] (qSdg (P := P)) (app2 [1] (qH (P := P)) I4))))))))))) := by rfl

section lawful2
variable (h : LawfulAmp α P) (hh : LawfulHalf α P) (ha : LawfulAngle α P) (ha2 : LawfulAngle2 α P)
  (hpi : LawfulAnglePi α P)
include h ha hpi

theorem qH_eq : (qH (P := P) : LMat α) =
    [[Amp.hsqrt2 P, Amp.hsqrt2 P], [Amp.hsqrt2 P, -Amp.hsqrt2 P]] := by
  rw [qH, wrap1_matU, wrap1_matU]
  simp only [matU, expi_padd h ha, expi_zero h ha, expi_pi h ha hpi, ha.cos_quarterPi, ha.sin_quarterPi]
  refine mat2_ext ?_ ?_ ?_ ?_ <;> ring

theorem qX_eq : (qX (P := P) : LMat α) = [[0, 1], [1, 0]] := by
  rw [qX, wrap1_matU, wrap1_matU]
  simp only [matU, expi_padd h ha, expi_zero h ha, expi_pi h ha hpi, hpi.cos_half_pi, hpi.sin_half_pi]
  refine mat2_ext ?_ ?_ ?_ ?_ <;> ring

omit hpi in
theorem qS_eq : (qS (P := P) : LMat α) = [[1, 0], [0, Amp.I P]] := by
  rw [qS, wrap1_matU, wrap1_matU, matU_diag h ha, expi_halfPi h ha]

omit hpi in
theorem qSdg_eq : (qSdg (P := P) : LMat α) = [[1, 0], [0, -Amp.I P]] := by
  rw [qSdg, wrap1_matU, wrap1_matU, matU_diag h ha, expi_neg_halfPi h ha]

omit hpi in
include ha2 in
theorem qT_eq : (qT (P := P) : LMat α) = [[1, 0], [0, Amp.hsqrt2 P + Amp.I P * Amp.hsqrt2 P]] := by
  rw [qT, wrap1_matU, wrap1_matU, matU_diag h ha]
  simp only [OQ2.expi, ha2.cos_pi_four, ha2.sin_pi_four]

omit hpi in
include ha2 in
theorem qTdg_eq : (qTdg (P := P) : LMat α) = [[1, 0], [0, Amp.hsqrt2 P - Amp.I P * Amp.hsqrt2 P]] := by
  rw [qTdg, wrap1_matU, wrap1_matU, matU_diag h ha, expi_neg h ha]
  simp only [ha2.cos_pi_four, ha2.sin_pi_four]

omit ha hpi in
theorem spec_X : (specMatrix (.X : GateTerm P) : LMat α) = [[0, 1], [1, 0]] := by simp [specMatrix, pauliX]

omit ha hpi in
theorem cx_ok : LibGateOK α P libTable "CX" [] := by
  refine ⟨_, .CX, libMeaning_single2 rfl apps_CX gm_cx, rfl, PhaseEq.of_eq h ?_⟩
  rw [cxM_eq, cxM_eq]
  show _ = Spec.ctrl (pauliX : LMat α)
  simp only [pauliX, ctrl_two, matCX_bd]

theorem cy_ok : LibGateOK α P libTable "CY" [] := by
  refine ⟨_, .CY, libMeaning_single2 rfl apps_CY gm_cy, rfl, PhaseEq.of_eq h ?_⟩
  simp only [qCX, cxM_eq, qS_eq h ha, qSdg_eq h ha]
  rw [I4_eq]
  simp only [app2_target, app2_cx]
  rw [← I4_eq, app2_both]
  show _ = Spec.ctrl (pauliY (P := P) : LMat α)
  simp only [pauliY, ctrl_two]
  have hI := h.I_mul_I
  refine bd2_ext ?_ ?_ ?_ ?_ ?_ ?_ ?_ ?_ <;> grind

theorem cz_ok : LibGateOK α P libTable "CZ" [] := by
  refine ⟨_, .CZ, libMeaning_single2 rfl apps_CZ gm_cz, rfl, PhaseEq.of_eq h ?_⟩
  simp only [qCX, cxM_eq, qH_eq h ha hpi]
  rw [I4_eq]
  simp only [app2_target, app2_cx]
  rw [← I4_eq, app2_both]
  show _ = Spec.ctrl (pauliZ : LMat α)
  simp only [pauliZ, ctrl_two]
  have hx := hsq h
  refine bd2_ext ?_ ?_ ?_ ?_ ?_ ?_ ?_ ?_ <;> grind

include hh in
theorem cs_ok : LibGateOK α P libTable "CS" [] := by
  obtain ⟨m, hm, hv⟩ := cu1_value h hh ha (halfPi : P)
  refine ⟨_, .C .S, libMeaning_single2 rfl apps_CS hm, rfl, PhaseEq.of_eq h ?_⟩
  rw [hv]
  show _ = Spec.ctrl (specMatrix (.S : GateTerm P))
  simp only [specMatrix, ctrl_two, ha.cos_halfPi, ha.sin_halfPi]
  refine bd2_ext rfl rfl rfl rfl rfl rfl rfl ?_
  ring

include hh in
theorem csdg_ok : LibGateOK α P libTable "CSdg" [] := by
  obtain ⟨m, hm, hv⟩ := cu1_value h hh ha (nHalfPi : P)
  refine ⟨_, .C .Sdg, libMeaning_single2 rfl apps_CSdg hm, rfl, PhaseEq.of_eq h ?_⟩
  rw [hv]
  show _ = Spec.ctrl (specMatrix (.Sdg : GateTerm P))
  simp only [specMatrix, ctrl_two, hpi.cos_npi_two, hpi.sin_npi_two]
  refine bd2_ext rfl rfl rfl rfl rfl rfl rfl ?_
  ring

include ha2 in
/-- `CH` is exported as `ch`, whose 11-statement body is the controlled Hadamard times the global phase `e^{iπ/4}` -/
theorem ch_ok : LibGateOK α P libTable "CH" [] := by
  refine ⟨_, .C .H, libMeaning_single2 rfl apps_CH gm_ch, rfl, ?_⟩
  simp only [qCX, cxM_eq, qH_eq h ha hpi, qS_eq h ha, qSdg_eq h ha, qT_eq h ha ha2, qX_eq h ha hpi]
  rw [I4_eq]
  simp only [app2_target, app2_cx, app2_control]
  rw [← I4_eq, app2_both]
  have hI := h.I_mul_I
  have hx := h.hsqrt2_mul_self
  have hhalf := h.half_add_half
  refine ⟨Amp.hsqrt2 P + Amp.I P * Amp.hsqrt2 P, ?_, ?_⟩
  · simp only [h.conj_add, h.conj_mul, h.conj_hsqrt2, h.conj_I]
    grind
  · show _ = smulMat _ (Spec.ctrl (specMatrix (.H : GateTerm P)))
    simp only [specMatrix, ctrl_two, smulMat_bd2]
    refine bd2_ext ?_ ?_ ?_ ?_ ?_ ?_ ?_ ?_ <;> grind

omit ha hpi in
/-- `Swap` is exported as three `cx` -/
theorem swap_ok : LibGateOK α P libTable "Swap" [] := by
  have hm : libMeaning (α := α) (P := P) libTable "Swap" [] =
      some (app2 [0, 1] qCX (app2 [1, 0] qCX (app2 [0, 1] qCX I4))) := by
    rw [libMeaning_of2 _ rfl apps_Swap, seqFrom2_cons gm_cx, seqFrom2_cons gm_cx, seqFrom2_cons gm_cx, seqFrom_nil]
  refine ⟨_, .Swap, hm, rfl, PhaseEq.of_eq h ?_⟩
  simp only [qCX, cxM_eq]
  simp only [app2, I4, matCX, specMatrix, embed, agreeOff, subIndex, qbit, LMat.get, LMat.mul, LMat.transpose,
    LMat.dot, LMat.identity]
  simp [List.range_succ]

end lawful2

end Q1t.OpenQasm

import Q1t.Proofs.CQasmTextCircuit
set_option linter.unusedSimpArgs false
set_option linter.unusedSectionVars false
set_option linter.unusedVariables false
/-!
C12 (text link), part 6: the decidable class.  `classOp` is a Boolean test on an operation of the circuit; every
operation passing it is of the text class AND of the semantic class, with the operation `Spec/Born` sees (`toCOp`).
Hence `cq_equiv` for the exported text of every circuit whose operations pass the test.
-/
namespace Q1t.Proofs.CQasm
open Q1t Q1t.Spec Q1t.CQ Q1t.Gen Q1t.Proofs.Route Q1t.Proofs.Unitaries

variable {F α P : Type} [CommRing α] [Amp α P]

/-- the operation as `Spec/Born` sees it -/
def toCOp : XOp P → Option (Sim.COp P)
  | .gate g bits => (toTerm g).map fun t => .gate t bits
  | .cond control target g bits => (toTerm g).map fun t => .cond control target t bits
  | .reset q => some (.reset q)
  | .resetAll => some .resetAll
  | .measure q c b => some (.measure q c (toSimBasis b))
  | .measureAll cbits b => some (.measureAll cbits (toSimBasis b))
  | .peek q c b => some (.peek q c (toSimBasis b))
  | .peekAll cbits b => some (.peekAll cbits (toSimBasis b))
  | .barrier bits => some (.barrier bits)

def isZ : CQ.Basis → Bool
  | .Z => true
  | _ => false

/-- **the class of the text theorem, as a Boolean test** -/
def classOp (val : F → P) (nq : Nat) : XOp F → Bool
  | .gate g bits =>
      termOK false (mapGate val g) && gateSound false g && bits.length == nrBits g && validBits nq bits
  | .cond control target g bits =>
      !control.isEmpty && decide control.Nodup && control.all (· < nq) && decide (target < 2 ^ control.length) &&
        condTermOK (mapGate val g) && gateSound true g && bits.length == nrBits g && validBits nq bits
  | .measure q c _ => q == c && decide (q < nq)
  | .measureAll cbits b => cbits == List.range nq && isZ b
  | .reset q => decide (q < nq)
  | .barrier _ => true
  | _ => false

theorem validBits_iff (nq : Nat) (bits : List Nat) (h : validBits nq bits = true) :
    bits.Nodup ∧ ∀ b ∈ bits, b < nq := by
  simp only [validBits, Bool.and_eq_true, List.all_eq_true, decide_eq_true_eq] at h
  exact ⟨h.2, h.1⟩

theorem both_of_class (h : LawfulAmp α P) (hh : LawfulHalf α P) (hn : LawfulNegHalf α P) (hq : LawfulQuarter α P)
    (val : F → P) (nq : Nat) (hn64 : nq ≤ 64) (nz : List α → Bool) (hnz : ∀ φ, nz φ = true) (op : XOp F)
    (hc : classOp val nq op = true) :
    ∃ D cop, TextOp (α := α) val nq op D ∧ FaithfulOpM nq nz (mapOp val op) D cop ∧ toCOp (mapOp val op) = some cop := by
  have hkept : ∀ (term : GateTerm P) (bits : List Nat), NzKept nq nz term bits := fun _ _ _ _ _ => hnz _
  cases op with
  | gate g bits =>
    simp only [classOp, Bool.and_eq_true, beq_iff_eq] at hc
    obtain ⟨⟨⟨h1, h2⟩, h3⟩, h4⟩ := hc
    obtain ⟨hnd, hlt⟩ := validBits_iff nq bits h4
    have h3' : bits.length = nrBits (mapGate val g) := by rw [nrBits_mapGate]; exact h3
    obtain ⟨L, term, e1, e2, _⟩ := term_act (α := α) h hh hn hq nq (mapGate val g) false h1 bits h3' h4
    exact ⟨gateLines L, .gate term bits, TextOp.gate g bits L h1 h2 h3 hnd hlt e1,
      .base _ _ _ (.base _ _ _ (FaithfulOpT.term (mapGate val g) bits L term h1 h3' h4 e1 e2 (hkept _ _))),
      by simp [mapOp, toCOp, e2]⟩
  | cond control target g bits =>
    simp only [classOp, Bool.and_eq_true, beq_iff_eq, Bool.not_eq_true', decide_eq_true_eq, List.all_eq_true] at hc
    obtain ⟨⟨⟨⟨⟨⟨⟨c1, c2⟩, c3⟩, c4⟩, h1⟩, h2⟩, h3⟩, h4⟩ := hc
    obtain ⟨hnd, hlt⟩ := validBits_iff nq bits h4
    have hne : control ≠ [] := by intro e; simp [e] at c1
    have h3' : bits.length = nrBits (mapGate val g) := by rw [nrBits_mapGate]; exact h3
    have hlen : control.length ≤ 64 := by
      have : control.length ≤ nq := by
        have hsub : control ⊆ List.range nq := fun k hk => by simpa using c3 k hk
        simpa using (List.Nodup.subperm c2 hsub).length_le
      omega
    obtain ⟨L, term, e1, e2, _⟩ := cterm_act (α := α) h hh hn hq nq (mapGate val g) h1 bits h3' h4
    exact ⟨_, .cond control target term bits, TextOp.cond control target g bits L hne hlen c3 h1 h2 h3 hnd hlt e1,
      .base _ _ _ (FaithfulOpC.cond (mapGate val g) bits L term control target h1 h3' h4 e1 e2 (hkept _ _) hne c2 c3 c4),
      by simp [mapOp, toCOp, e2]⟩
  | measure q c b =>
    simp only [classOp, Bool.and_eq_true, beq_iff_eq, decide_eq_true_eq] at hc
    obtain ⟨rfl, hq'⟩ := hc
    exact ⟨_, _, TextOp.measure q b hq',
      .base _ _ _ (.base _ _ _ (.base _ _ _ (.exact _ _ _ (FaithfulOp.measure q b hq')))), rfl⟩
  | measureAll cbits b =>
    simp only [classOp, Bool.and_eq_true, beq_iff_eq] at hc
    obtain ⟨rfl, hb⟩ := hc
    cases b with
    | Z => exact ⟨_, _, TextOp.measureAll, FaithfulOpM.measureAll, rfl⟩
    | X => simp [isZ] at hb
    | Y => simp [isZ] at hb
  | reset q =>
    simp only [classOp, decide_eq_true_eq] at hc
    exact ⟨_, _, TextOp.reset q hc, .base _ _ _ (.base _ _ _ (.base _ _ _ (.exact _ _ _ (FaithfulOp.reset q)))), rfl⟩
  | barrier bits =>
    exact ⟨_, _, TextOp.barrier bits, .base _ _ _ (.base _ _ _ (.base _ _ _ (.exact _ _ _ (FaithfulOp.barrier bits)))),
      rfl⟩
  | resetAll => simp [classOp] at hc
  | peek _ _ _ => simp [classOp] at hc
  | peekAll _ _ => simp [classOp] at hc

theorem class_steps (h : LawfulAmp α P) (hh : LawfulHalf α P) (hn : LawfulNegHalf α P) (hq : LawfulQuarter α P)
    (val : F → P) (nq : Nat) (hn64 : nq ≤ 64) (nz : List α → Bool) (hnz : ∀ φ, nz φ = true) :
    ∀ (ops : List (XOp F)), (∀ op ∈ ops, classOp val nq op = true) →
    ∃ steps : List (XOp F × List (DStmt α) × Sim.COp P), ops = steps.map (·.1) ∧
      (∀ s ∈ steps, TextOp (α := α) val nq s.1 s.2.1) ∧ (∀ s ∈ steps, FaithfulOpM nq nz (mapOp val s.1) s.2.1 s.2.2) ∧
      (ops.map (mapOp val)).mapM toCOp = some (steps.map (·.2.2))
  | [], _ => ⟨[], rfl, by simp, by simp, rfl⟩
  | op :: ops, hc => by
    obtain ⟨D, cop, t1, t2, t3⟩ := both_of_class h hh hn hq val nq hn64 nz hnz op (hc op (by simp))
    obtain ⟨steps, e, s1, s2, s3⟩ := class_steps h hh hn hq val nq hn64 nz hnz ops (fun x hx => hc x (by simp [hx]))
    refine ⟨(op, D, cop) :: steps, by simp [e], ?_, ?_, ?_⟩
    · intro s hs
      rcases List.mem_cons.mp hs with rfl | hs
      · exact t1
      · exact s1 s hs
    · intro s hs
      rcases List.mem_cons.mp hs with rfl | hs
      · exact t2
      · exact s2 s hs
    · simp [List.mapM_cons, t3, s3]

/-- **`cq_equiv` for the exported text, on the decidable class**: for every circuit with `0 < nq ≤ 64` whose operations
pass `classOp`, if `Circuit::c_qasm` returns the text `t`, then: `t` parses into a well-formed program `p` over `nq`
qubits; the circuit (its numbers read by `val`) has its Born branch list `r2`; `p` has its meaning `r1`; and for every
register word the density of `r1` is the density of `r2`. -/
theorem text_equiv_class (h : LawfulAmp α P) (hh : LawfulHalf α P) (hn : LawfulNegHalf α P) (hq : LawfulQuarter α P)
    (N : Num F) (S : CQ1.NumSem α P) (val : F → P) (RB : ReadsBack (α := α) N S val)
    (c : XCircuit F) (hpos : 0 < c.nq) (hn64 : c.nq ≤ 64) (nz : List α → Bool) (hnz : ∀ φ, nz φ = true)
    (hcl : ∀ op ∈ c.ops, classOp val c.nq op = true) (t : Text) (ht : exportText cqGates N c = .ok t) :
    ∃ p r1 cops r2, CQ1.parseProgram t = .ok p ∧ p.nq = c.nq ∧ CQ1.programWf p = none ∧
      CQ1.programSem S nz p = some r1 ∧
      (c.ops.map (mapOp val)).mapM toCOp = some cops ∧
      Spec.branches c.nq nz cops (CQ1.initial c.nq) = some r2 ∧
      ∀ w, CQ1.density (P := P) (2 ^ c.nq) r1 w = CQ1.density (P := P) (2 ^ c.nq) r2 w := by
  obtain ⟨steps, e, s1, s2, s3⟩ := class_steps (α := α) h hh hn hq val c.nq hn64 nz hnz c.ops hcl
  obtain ⟨p, r1, r2, g1, g2, g3, g4, g5, g6⟩ := text_equiv h hh hn hq N S val RB c hpos hn64 nz hnz steps e s1 s2 t ht
  exact ⟨p, r1, _, r2, g1, g2, g3, g4, s3, g5, g6⟩

end Q1t.Proofs.CQasm

import Q1t.Model.Expr
/-!
C14, part 7: whatever `parse` returns contains no variable and only the six known function names,
so `eval` cannot fail on it.  (Core Lean only.)
-/
namespace Q1t.Proofs.Expr
open Q1t.Expr

/-- No `Variable`, and every `Function` name is one of the six of the pattern. -/
def Closed : Expr → Prop
  | .value _ => True
  | .sum a b | .difference a b | .product a b | .quotient a b | .power a b => Closed a ∧ Closed b
  | .negative a => Closed a
  | .function nm a => nm ∈ funNames ∧ Closed a
  | .variable _ => False

def ClosedRes : PRes → Prop
  | .ok (e, _) => Closed e
  | _ => True

theorem reFunOpen_go_mem {s0 : List Char} (names : List (List Char)) {nm r : List Char}
    (h : reFunOpen.go s0 names = some (nm, r)) : nm ∈ names := by
  induction names with
  | nil => simp [reFunOpen.go] at h
  | cons n more ih =>
    simp only [reFunOpen.go] at h
    split at h
    · split at h
      · simp only [Option.some.injEq, Prod.mk.injEq] at h; simp [h.1]
      · exact List.mem_cons_of_mem _ (ih h)
    · exact List.mem_cons_of_mem _ (ih h)

theorem reFunOpen_mem {s nm r : List Char} (h : reFunOpen s = some (nm, r)) : nm ∈ funNames :=
  reFunOpen_go_mem _ h

theorem parseRealLiteral_closed (s : List Char) : ClosedRes (parseRealLiteral s) := by
  unfold parseRealLiteral
  split
  · trivial
  · split
    · split <;> trivial
    · split <;> trivial

theorem parseParen_closed {sum : List Char → PRes} (hs : ∀ r, ClosedRes (sum r)) (s : List Char) :
    ClosedRes (parseParen sum s) := by
  unfold parseParen
  split
  · rename_i r _
    have := hs r
    cases h : sum r with
    | ok a =>
      obtain ⟨e, rest⟩ := a
      rw [h] at this
      dsimp only
      split
      · exact this
      · trivial
    | err e => trivial
    | panic => trivial
    | fuel => trivial
  · exact parseRealLiteral_closed s

theorem parseFunction_closed {sum : List Char → PRes} (hs : ∀ r, ClosedRes (sum r)) (s : List Char) :
    ClosedRes (parseFunction sum s) := by
  unfold parseFunction
  split
  · rename_i nm r hopen
    have := hs r
    cases h : sum r with
    | ok a =>
      obtain ⟨e, rest⟩ := a
      rw [h] at this
      dsimp only
      split
      · exact ⟨reFunOpen_mem hopen, this⟩
      · trivial
    | err e => trivial
    | panic => trivial
    | fuel => trivial
  · exact parseParen_closed hs s

theorem parsePower_closed {sum : List Char → PRes} (hs : ∀ r, ClosedRes (sum r)) :
    ∀ (n : Nat) (s : List Char), ClosedRes (parsePower sum n s)
  | 0, _ => trivial
  | n + 1, s => by
    simp only [parsePower]
    have hf := parseFunction_closed hs s
    cases h : parseFunction sum s with
    | ok a =>
      obtain ⟨l, rest⟩ := a
      rw [h] at hf
      dsimp only
      split
      · rename_i r _
        have ih := parsePower_closed hs n r
        cases h2 : parsePower sum n r with
        | ok a => obtain ⟨right, nr⟩ := a; rw [h2] at ih; exact ⟨hf, ih⟩
        | err e => trivial
        | panic => trivial
        | fuel => trivial
      · exact hf
    | err e => trivial
    | panic => trivial
    | fuel => trivial

theorem parseNegative_closed {sum : List Char → PRes} (hs : ∀ r, ClosedRes (sum r)) (n : Nat)
    (s : List Char) : ClosedRes (parseNegative sum n s) := by
  unfold parseNegative
  cases h : negLoop n false s with
  | ok a =>
    obtain ⟨flip, rest⟩ := a
    dsimp only
    have hp := parsePower_closed hs n rest
    cases h2 : parsePower sum n rest with
    | ok a =>
      obtain ⟨e, nr⟩ := a
      rw [h2] at hp
      dsimp only
      split <;> exact hp
    | err e => trivial
    | panic => trivial
    | fuel => trivial
  | err e => trivial
  | panic => trivial
  | fuel => trivial

theorem productLoop_closed {sum : List Char → PRes} (hs : ∀ r, ClosedRes (sum r)) :
    ∀ (n : Nat) (left : Expr) (rest : List Char), Closed left → ClosedRes (productLoop sum n left rest)
  | 0, _, _, _ => trivial
  | n + 1, left, rest, hl => by
    simp only [productLoop]
    split
    · rename_i c r _
      have hn := parseNegative_closed hs n r
      cases h : parseNegative sum n r with
      | ok a =>
        obtain ⟨right, nr⟩ := a
        rw [h] at hn
        dsimp only
        apply productLoop_closed hs n
        split <;> exact ⟨hl, hn⟩
      | err e => trivial
      | panic => trivial
      | fuel => trivial
    · exact hl

theorem parseProduct_closed {sum : List Char → PRes} (hs : ∀ r, ClosedRes (sum r)) (n : Nat)
    (s : List Char) : ClosedRes (parseProduct sum n s) := by
  unfold parseProduct
  have hn := parseNegative_closed hs n s
  cases h : parseNegative sum n s with
  | ok a => obtain ⟨l, rest⟩ := a; rw [h] at hn; exact productLoop_closed hs n l rest hn
  | err e => trivial
  | panic => trivial
  | fuel => trivial

theorem sumLoop_closed {sum : List Char → PRes} (hs : ∀ r, ClosedRes (sum r)) :
    ∀ (n : Nat) (left : Expr) (rest : List Char), Closed left → ClosedRes (sumLoop sum n left rest)
  | 0, _, _, _ => trivial
  | n + 1, left, rest, hl => by
    simp only [sumLoop]
    split
    · rename_i c r _
      have hn := parseProduct_closed hs n r
      cases h : parseProduct sum n r with
      | ok a =>
        obtain ⟨right, nr⟩ := a
        rw [h] at hn
        dsimp only
        apply sumLoop_closed hs n
        split <;> exact ⟨hl, hn⟩
      | err e => trivial
      | panic => trivial
      | fuel => trivial
    · exact hl

theorem parseSum_closed : ∀ (n : Nat) (s : List Char), ClosedRes (parseSum n s)
  | 0, _ => trivial
  | n + 1, s => by
    simp only [parseSum]
    have hs : ∀ r, ClosedRes (parseSum n r) := parseSum_closed n
    have hp := parseProduct_closed hs (n + 1) s
    cases h : parseProduct (parseSum n) (n + 1) s with
    | ok a => obtain ⟨l, rest⟩ := a; rw [h] at hp; exact sumLoop_closed hs (n + 1) l rest hp
    | err e => trivial
    | panic => trivial
    | fuel => trivial

theorem parse_closed {s : List Char} {e : Expr} {r : List Char} (h : parse s = .ok (e, r)) : Closed e := by
  have := parseSum_closed (s.length + 1) s
  unfold parse at h
  rw [h] at this
  exact this

theorem eval_closed {F : Type} (I : FloatOps F) (params : List (List Char × F)) :
    ∀ (e : Expr), Closed e → ∃ v, evalWith I params e = .ok v
  | .value l, _ => ⟨_, rfl⟩
  | .sum a b, h => by
    obtain ⟨x, hx⟩ := eval_closed I params a h.1
    obtain ⟨y, hy⟩ := eval_closed I params b h.2
    exact ⟨I.add x y, by simp only [evalWith, hx, hy]; rfl⟩
  | .difference a b, h => by
    obtain ⟨x, hx⟩ := eval_closed I params a h.1
    obtain ⟨y, hy⟩ := eval_closed I params b h.2
    exact ⟨I.sub x y, by simp only [evalWith, hx, hy]; rfl⟩
  | .product a b, h => by
    obtain ⟨x, hx⟩ := eval_closed I params a h.1
    obtain ⟨y, hy⟩ := eval_closed I params b h.2
    exact ⟨I.mul x y, by simp only [evalWith, hx, hy]; rfl⟩
  | .quotient a b, h => by
    obtain ⟨x, hx⟩ := eval_closed I params a h.1
    obtain ⟨y, hy⟩ := eval_closed I params b h.2
    exact ⟨I.div x y, by simp only [evalWith, hx, hy]; rfl⟩
  | .power a b, h => by
    obtain ⟨x, hx⟩ := eval_closed I params a h.1
    obtain ⟨y, hy⟩ := eval_closed I params b h.2
    exact ⟨I.powf x y, by simp only [evalWith, hx, hy]; rfl⟩
  | .negative a, h => by
    obtain ⟨x, hx⟩ := eval_closed I params a h
    exact ⟨I.neg x, by simp only [evalWith, hx]; rfl⟩
  | .function nm a, h => by
    obtain ⟨x, hx⟩ := eval_closed I params a h.2
    have hm := h.1
    simp only [funNames, List.mem_cons, List.not_mem_nil, or_false] at hm
    rcases hm with rfl | rfl | rfl | rfl | rfl | rfl
    · exact ⟨I.sin x, by simp only [evalWith, hx]; rfl⟩
    · exact ⟨I.cos x, by simp only [evalWith, hx]; rfl⟩
    · exact ⟨I.tan x, by simp only [evalWith, hx]; rfl⟩
    · exact ⟨I.exp x, by simp only [evalWith, hx]; rfl⟩
    · exact ⟨I.ln x, by simp only [evalWith, hx]; rfl⟩
    · exact ⟨I.sqrt x, by simp only [evalWith, hx]; rfl⟩
  | .variable _, h => h.elim

end Q1t.Proofs.Expr

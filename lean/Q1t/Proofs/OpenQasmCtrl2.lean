import Mathlib.Tactic.Ring
import Mathlib.Tactic.LinearCombination
import Q1t.Proofs.OpenQasmParam
set_option linter.unusedSimpArgs false
set_option linter.unusedSectionVars false
/-!
C11: the two-qubit parametrised library gates (CRZ, CU1, CU3 through the bodies of `qelib1.inc`; CRX, CRY through
the exporter's templates), for ALL parameter values.

Every statement sequence involved consists of one-qubit gates on the target, `cx control, target`, and diagonal
one-qubit gates on the control; such products stay block diagonal (`bd2`: the block for control 0 and the block
for control 1), so the 4×4 products reduce to 2×2 products.
-/
namespace Q1t.OpenQasm
open Q1t Q1t.Spec Q1t.Spec.OQ2 Q1t.Proofs.Unitaries

variable {α P : Type} [CommRing α] [Amp α P] [Angle P]

/-- apply `M` on qubits `qs` of a two-qubit register after `acc` -/
def app2 (qs : List Nat) (M acc : LMat α) : LMat α := LMat.mul (embed 2 qs M) acc
def I4 : LMat α := LMat.identity 4

/-- block diagonal: `[[a,b],[c,d]]` for control 0, `[[e,f],[g,h]]` for control 1 -/
def bd2 (a b c d e f g h : α) : LMat α := [[a, b, 0, 0], [c, d, 0, 0], [0, 0, e, f], [0, 0, g, h]]

theorem mat4_ext {r0 r1 r2 r3 s0 s1 s2 s3 : List α} (h0 : r0 = s0) (h1 : r1 = s1) (h2 : r2 = s2) (h3 : r3 = s3) :
    [r0, r1, r2, r3] = [s0, s1, s2, s3] := by subst h0 h1 h2 h3; rfl
theorem row4_ext {a b c d a' b' c' d' : α} (h0 : a = a') (h1 : b = b') (h2 : c = c') (h3 : d = d') :
    [a, b, c, d] = [a', b', c', d'] := by subst h0 h1 h2 h3; rfl

theorem I4_eq : (I4 : LMat α) = bd2 1 0 0 1 1 0 0 1 := by
  simp [I4, bd2, LMat.identity, List.range_succ]

/-- a one-qubit gate on the target -/
theorem app2_target (p q r s a b c d e f g h : α) :
    app2 [1] [[p, q], [r, s]] (bd2 a b c d e f g h) =
      bd2 (p * a + q * c) (p * b + q * d) (r * a + s * c) (r * b + s * d)
          (p * e + q * g) (p * f + q * h) (r * e + s * g) (r * f + s * h) := by
  simp only [app2, bd2, embed, agreeOff, subIndex, qbit, LMat.get, LMat.mul, LMat.transpose, LMat.dot]
  simp [List.range_succ]

/-- `cx control, target` -/
theorem app2_cx (a b c d e f g h : α) :
    app2 [0, 1] matCX (bd2 a b c d e f g h) = bd2 a b c d g h e f := by
  simp only [app2, bd2, matCX, embed, agreeOff, subIndex, qbit, LMat.get, LMat.mul, LMat.transpose, LMat.dot]
  simp [List.range_succ]

theorem matCX_bd : (matCX : LMat α) = bd2 1 0 0 1 0 1 1 0 := rfl

/-- `cx control, target`, with the matrix of `cx` written as a block matrix -/
theorem app2_cx' (a b c d e f g h : α) :
    app2 [0, 1] (bd2 1 0 0 1 0 1 1 0) (bd2 a b c d e f g h) = bd2 a b c d g h e f := app2_cx a b c d e f g h

/-- a diagonal one-qubit gate `diag(1, k)` on the control -/
theorem app2_control (k a b c d e f g h : α) :
    app2 [0] [[1, 0], [0, k]] (bd2 a b c d e f g h) = bd2 a b c d (k * e) (k * f) (k * g) (k * h) := by
  simp only [app2, bd2, embed, agreeOff, subIndex, qbit, LMat.get, LMat.mul, LMat.transpose, LMat.dot]
  simp [List.range_succ]

/-- a two-qubit gate on both qubits in order, applied after nothing -/
theorem app2_both (a b c d e f g h : α) :
    app2 [0, 1] (bd2 a b c d e f g h) I4 = bd2 a b c d e f g h := by
  simp only [app2, I4, bd2, embed, agreeOff, subIndex, qbit, LMat.get, LMat.mul, LMat.transpose, LMat.dot, LMat.identity]
  simp [List.range_succ]

theorem ctrl_two (a b c d : α) : Spec.ctrl [[a, b], [c, d]] = bd2 1 0 0 1 a b c d := by
  simp [Spec.ctrl, bd2, List.range_succ, List.replicate]

theorem smulMat_bd2 (k a b c d e f g h : α) :
    smulMat k (bd2 a b c d e f g h) = bd2 (k * a) (k * b) (k * c) (k * d) (k * e) (k * f) (k * g) (k * h) := by
  simp [smulMat, bd2]

theorem bd2_ext {a b c d e f g h a' b' c' d' e' f' g' h' : α} (h1 : a = a') (h2 : b = b') (h3 : c = c')
    (h4 : d = d') (h5 : e = e') (h6 : f = f') (h7 : g = g') (h8 : h = h') :
    bd2 a b c d e f g h = bd2 a' b' c' d' e' f' g' h' := by subst h1 h2 h3 h4 h5 h6 h7 h8; rfl

/-! ### unfolding the statement sequences -/

/-- `seqMatrix` from an accumulator -/
def seqFrom (k : Nat) : List (String × List P × List Nat) → LMat α → Option (LMat α)
  | [], acc => some acc
  | (g, vals, qs) :: rest, acc =>
    (gateMatrix (α := α) defaultFuel g vals).bind fun m => seqFrom k rest (LMat.mul (embed k qs m) acc)

theorem seqFrom_eq (k : Nat) (apps : List (String × List P × List Nat)) (acc : LMat α) :
    List.foldlM (fun acc (x : String × List P × List Nat) => do
      let m ← gateMatrix (α := α) defaultFuel x.1 x.2.1
      pure (LMat.mul (embed k x.2.2 m) acc)) acc apps = seqFrom k apps acc := by
  induction apps generalizing acc with
  | nil => rfl
  | cons a rest ih =>
    obtain ⟨g, vals, qs⟩ := a
    simp only [List.foldlM, seqFrom]
    cases gateMatrix (α := α) defaultFuel g vals with
    | none => rfl
    | some m => exact ih _

theorem seqFrom2_cons {g : String} {vals : List P} {qs : List Nat} {rest : List (String × List P × List Nat)}
    {acc m : LMat α} (hm : gateMatrix (α := α) defaultFuel g vals = some m) :
    seqFrom 2 ((g, vals, qs) :: rest) acc = seqFrom 2 rest (app2 qs m acc) := by
  simp [seqFrom, hm, app2]

theorem seqFrom_nil (k : Nat) (acc : LMat α) : seqFrom (P := P) k [] acc = some acc := rfl

theorem seqMatrix_eq (k : Nat) (apps : List (String × List P × List Nat)) :
    seqMatrix (α := α) k apps = seqFrom k apps (LMat.identity (2 ^ k)) := seqFrom_eq k apps _

theorem gm_cx : gateMatrix (α := α) (P := P) defaultFuel "cx" [] = some (app2 [0, 1] matCX I4) := by rfl
theorem gm_s : gateMatrix (α := α) (P := P) defaultFuel "s" [] = some (wrap1 (wrap1 (matU (z0 : P) z0 halfPi))) := by rfl
theorem gm_sdg : gateMatrix (α := α) (P := P) defaultFuel "sdg" [] =
    some (wrap1 (wrap1 (matU (z0 : P) z0 (Angle.neg halfPi)))) := by rfl
theorem gm_ry (x : P) : gateMatrix (α := α) defaultFuel "ry" [x] = some (wrap1 (wrap1 (matU x z0 z0))) := by rfl
theorem gm_u3 (a b c : P) : gateMatrix (α := α) defaultFuel "u3" [a, b, c] = some (wrap1 (matU a b c)) := by rfl

theorem cxM_eq : app2 [0, 1] (matCX : LMat α) I4 = matCX := by
  simp only [app2, I4, matCX, embed, agreeOff, subIndex, qbit, LMat.get, LMat.mul, LMat.transpose, LMat.dot, LMat.identity]
  simp [List.range_succ]

set_option maxHeartbeats 400000 in
theorem gm_crz (l : P) : gateMatrix (α := α) defaultFuel "crz" [l] =
    some (app2 [0, 1] (app2 [0, 1] matCX I4) (app2 [1] (wrap1 (matU z0 z0 (Angle.neg (Angle.div l two))))
        (app2 [0, 1] (app2 [0, 1] matCX I4) (app2 [1] (wrap1 (matU z0 z0 (Angle.div l two))) I4)))) := by rfl

set_option maxHeartbeats 400000 in
theorem gm_cu1 (l : P) : gateMatrix (α := α) defaultFuel "cu1" [l] =
    some (app2 [1] (wrap1 (matU z0 z0 (Angle.div l two)))
      (app2 [0, 1] (app2 [0, 1] matCX I4) (app2 [1] (wrap1 (matU z0 z0 (Angle.neg (Angle.div l two))))
        (app2 [0, 1] (app2 [0, 1] matCX I4) (app2 [0] (wrap1 (matU z0 z0 (Angle.div l two))) I4))))) := by rfl

set_option maxHeartbeats 400000 in
theorem gm_cu3 (t p l : P) : gateMatrix (α := α) defaultFuel "cu3" [t, p, l] =
    some (app2 [1] (wrap1 (matU (Angle.div t two) p z0))
      (app2 [0, 1] (app2 [0, 1] matCX I4)
        (app2 [1] (wrap1 (matU (Angle.neg (Angle.div t two)) z0 (Angle.neg (Angle.div (Angle.add p l) two))))
          (app2 [0, 1] (app2 [0, 1] matCX I4)
            (app2 [1] (wrap1 (matU z0 z0 (Angle.div (Angle.sub l p) two)))
              (app2 [0] (wrap1 (matU z0 z0 (Angle.div (Angle.add l p) two))) I4)))))) := by rfl


theorem apps_CRZ (l : P) : libApps libTable "CRZ" [.direct l] = some [("crz", [l], [0, 1])] := by rfl
theorem apps_CU1 (l : P) : libApps libTable "CU1" [.direct l] = some [("cu1", [l], [0, 1])] := by rfl
theorem apps_CU3 (t p l : P) : libApps libTable "CU3" [.direct t, .direct p, .direct l] =
    some [("cu3", [t, p, l], [0, 1])] := by rfl
theorem apps_CRX (t : P) : libApps libTable "CRX" [.direct t] =
    some [("s", [], [1]), ("cx", [], [0, 1]), ("ry", [Angle.div (Angle.neg t) two], [1]), ("cx", [], [0, 1]),
      ("ry", [Angle.div t two], [1]), ("sdg", [], [1])] := by rfl
theorem apps_CRY (t : P) : libApps libTable "CRY" [.direct t] =
    some [("cx", [], [0, 1]), ("u3", [Angle.div (Angle.neg t) two, z0, z0], [1]), ("cx", [], [0, 1]),
      ("u3", [Angle.div t two, z0, z0], [1])] := by rfl

theorem libMeaning_of2 {name : String} {ps : List (QParam P)} (apps : List (String × List P × List Nat))
    (h1 : (lookupTpl libTable name).map (·.nbits) = some 2) (h2 : libApps libTable name ps = some apps) :
    libMeaning (α := α) libTable name ps = seqFrom 2 apps I4 := by
  unfold libMeaning
  cases h : lookupTpl libTable name with
  | none => simp [h] at h1
  | some t =>
    simp only [h, Option.map_some, Option.some.injEq] at h1
    simp [h2, h1, seqMatrix_eq, I4]

theorem libMeaning_single2 {name : String} {ps : List (QParam P)} {g : String} {vals : List P} {m : LMat α}
    (h1 : (lookupTpl libTable name).map (·.nbits) = some 2)
    (h2 : libApps libTable name ps = some [(g, vals, [0, 1])])
    (hm : gateMatrix (α := α) defaultFuel g vals = some m) :
    libMeaning (α := α) libTable name ps = some (app2 [0, 1] m I4) := by
  rw [libMeaning_of2 _ h1 h2, seqFrom2_cons hm, seqFrom_nil]

/-! ### one-qubit matrices in closed form -/

/-- further laws of the angle arithmetic, for quarter angles and sums (cosines and sines only) -/
structure LawfulAngle2 (α P : Type) [CommRing α] [Amp α P] [Angle P] : Prop where
  q_cos : ∀ x : P, (Amp.cos (Amp.phalf α (Angle.div x two)) : α) = Amp.cos (Amp.phalf α (Amp.phalf α x))
  q_sin : ∀ x : P, (Amp.sin (Amp.phalf α (Angle.div x two)) : α) = Amp.sin (Amp.phalf α (Amp.phalf α x))
  qn_cos : ∀ x : P, (Amp.cos (Amp.phalf α (Angle.div (Angle.neg x) two)) : α) = Amp.cos (Amp.phalf α (Amp.phalf α x))
  qn_sin : ∀ x : P, (Amp.sin (Amp.phalf α (Angle.div (Angle.neg x) two)) : α) = -Amp.sin (Amp.phalf α (Amp.phalf α x))
  nq_cos : ∀ x : P, (Amp.cos (Amp.phalf α (Angle.neg (Angle.div x two))) : α) = Amp.cos (Amp.phalf α (Amp.phalf α x))
  nq_sin : ∀ x : P, (Amp.sin (Amp.phalf α (Angle.neg (Angle.div x two))) : α) = -Amp.sin (Amp.phalf α (Amp.phalf α x))
  add_cos : ∀ x y : P, (Amp.cos (Angle.div (Angle.add x y) two) : α) = Amp.cos (Amp.padd α (Amp.phalf α x) (Amp.phalf α y))
  add_sin : ∀ x y : P, (Amp.sin (Angle.div (Angle.add x y) two) : α) = Amp.sin (Amp.padd α (Amp.phalf α x) (Amp.phalf α y))
  sub_cos : ∀ x y : P, (Amp.cos (Angle.div (Angle.sub x y) two) : α) =
    Amp.cos (Amp.padd α (Amp.phalf α x) (Amp.pneg α (Amp.phalf α y)))
  sub_sin : ∀ x y : P, (Amp.sin (Angle.div (Angle.sub x y) two) : α) =
    Amp.sin (Amp.padd α (Amp.phalf α x) (Amp.pneg α (Amp.phalf α y)))
  cos_pi_four : (Amp.cos (Angle.div Angle.pi (Angle.ofDec 4 0) : P) : α) = Amp.hsqrt2 P
  sin_pi_four : (Amp.sin (Angle.div Angle.pi (Angle.ofDec 4 0) : P) : α) = Amp.hsqrt2 P
  cos_npi_four : (Amp.cos (Angle.div (Angle.neg Angle.pi) (Angle.ofDec 4 0) : P) : α) = Amp.hsqrt2 P
  sin_npi_four : (Amp.sin (Angle.div (Angle.neg Angle.pi) (Angle.ofDec 4 0) : P) : α) = -Amp.hsqrt2 P

section lawful
variable (h : LawfulAmp α P) (hh : LawfulHalf α P) (ha : LawfulAngle α P) (ha2 : LawfulAngle2 α P)
include h ha

/-- `U(0, 0, x) = diag(1, e^{ix})` -/
theorem matU_diag (x : P) : (matU (z0 : P) z0 x : LMat α) = [[1, 0], [0, OQ2.expi x]] := by
  simp only [matU, expi_padd h ha, expi_zero h ha, ha.cos_half_zero, ha.sin_half_zero]
  refine mat2_ext ?_ ?_ ?_ ?_ <;> ring

/-- `U(x, 0, 0)` is the rotation `[[c, −s], [s, c]]` by `x/2` -/
theorem matU_rot (x : P) : (matU x (z0 : P) z0 : LMat α) =
    [[Amp.cos (Amp.phalf α x), -Amp.sin (Amp.phalf α x)], [Amp.sin (Amp.phalf α x), Amp.cos (Amp.phalf α x)]] := by
  simp only [matU, expi_padd h ha, expi_zero h ha]
  refine mat2_ext ?_ ?_ ?_ ?_ <;> ring

theorem expi_neg (x : P) : (OQ2.expi (Angle.neg x) : α) = Amp.cos x - Amp.I P * Amp.sin x := by
  simp only [OQ2.expi, ha.cos_neg, ha.sin_neg]; ring

theorem expi_mul_neg (x : P) : (OQ2.expi x : α) * OQ2.expi (Angle.neg x) = 1 := by
  rw [expi_neg h ha]
  simp only [OQ2.expi]
  linear_combination h.cos_sq_add_sin_sq x - (Amp.sin x * Amp.sin x : α) * h.I_mul_I

theorem expi_div_two (x : P) : (OQ2.expi (Angle.div x two) : α) =
    Amp.cos (Amp.phalf α x) + Amp.I P * Amp.sin (Amp.phalf α x) := by
  simp only [OQ2.expi, ha.cos_div_two, ha.sin_div_two]

omit ha in
theorem spec_RZ (l : P) : (specMatrix (.RZ l) : LMat α) =
    [[Amp.cos (Amp.phalf α l) - Amp.I P * Amp.sin (Amp.phalf α l), 0],
     [0, Amp.cos (Amp.phalf α l) + Amp.I P * Amp.sin (Amp.phalf α l)]] := by
  simp [specMatrix, rot, pauliZ, LMat.get, List.range_succ]

omit ha in
theorem spec_RX (t : P) : (specMatrix (.RX t) : LMat α) =
    [[Amp.cos (Amp.phalf α t), -(Amp.I P * Amp.sin (Amp.phalf α t))],
     [-(Amp.I P * Amp.sin (Amp.phalf α t)), Amp.cos (Amp.phalf α t)]] := by
  simp [specMatrix, rot, pauliX, LMat.get, List.range_succ]

omit ha in
theorem spec_RY (t : P) : (specMatrix (.RY t) : LMat α) =
    [[Amp.cos (Amp.phalf α t), -Amp.sin (Amp.phalf α t)],
     [Amp.sin (Amp.phalf α t), Amp.cos (Amp.phalf α t)]] := by
  simp [specMatrix, rot, pauliY, LMat.get, List.range_succ]
  have hI := h.I_mul_I
  refine ⟨?_, ?_⟩ <;> grind

/-- `CRZ(λ)` is exported as `crz(λ)`, whose body is exactly the controlled `RZ(λ)` -/
theorem crz_ok (l : P) : LibGateOK α P libTable "CRZ" [l] := by
  refine ⟨_, .C (.RZ l), libMeaning_single2 rfl (apps_CRZ l) (gm_crz l), rfl, PhaseEq.of_eq h ?_⟩
  simp only [wrap1_matU, wrap1_two, matU_diag h ha, cxM_eq]
  rw [I4_eq]
  simp only [app2_target, app2_cx]
  rw [← I4_eq, app2_both]
  have hp := h.cos_sq_add_sin_sq (Amp.phalf α l)
  have hI := h.I_mul_I
  show _ = Spec.ctrl (specMatrix (.RZ l))
  rw [spec_RZ h, ctrl_two]
  simp only [expi_neg h ha, expi_div_two h ha, ha.cos_div_two, ha.sin_div_two]
  refine bd2_ext ?_ ?_ ?_ ?_ ?_ ?_ ?_ ?_ <;> grind

omit ha in
theorem spec_U1 (l : P) : (specMatrix (.U1 l) : LMat α) =
    [[1, 0], [0, Amp.cos l + Amp.I P * Amp.sin l]] := by
  simp [specMatrix, Spec.expi]

include hh in
/-- `CU1(λ)` is exported as `cu1(λ)`, whose body is the controlled `U1(λ)` -/
theorem cu1_ok (l : P) : LibGateOK α P libTable "CU1" [l] := by
  refine ⟨_, .C (.U1 l), libMeaning_single2 rfl (apps_CU1 l) (gm_cu1 l), rfl, PhaseEq.of_eq h ?_⟩
  simp only [wrap1_matU, wrap1_two, matU_diag h ha, cxM_eq]
  rw [I4_eq]
  simp only [app2_target, app2_cx, app2_control]
  rw [← I4_eq, app2_both]
  have hp := h.cos_sq_add_sin_sq (Amp.phalf α l)
  have hI := h.I_mul_I
  have hc := hh.cos_phalf_twice l
  have hs := hh.sin_phalf_twice l
  rw [h.cos_padd] at hc
  rw [h.sin_padd] at hs
  show _ = Spec.ctrl (specMatrix (.U1 l))
  rw [spec_U1 h, ctrl_two]
  simp only [expi_neg h ha, expi_div_two h ha, ha.cos_div_two, ha.sin_div_two]
  refine bd2_ext ?_ ?_ ?_ ?_ ?_ ?_ ?_ ?_ <;> grind

include hh ha2 in
/-- `CRY(θ)` is exported as `cx; u3(-θ/2, 0, 0); cx; u3(θ/2, 0, 0)`: exactly the controlled `RY(θ)` -/
theorem cry_ok (t : P) : LibGateOK α P libTable "CRY" [t] := by
  have hm : libMeaning (α := α) libTable "CRY" [.direct t] =
      some (app2 [1] (wrap1 (matU (Angle.div t two) z0 z0)) (app2 [0, 1] (app2 [0, 1] matCX I4)
        (app2 [1] (wrap1 (matU (Angle.div (Angle.neg t) two) z0 z0)) (app2 [0, 1] (app2 [0, 1] matCX I4) I4)))) := by
    rw [libMeaning_of2 _ rfl (apps_CRY t), seqFrom2_cons gm_cx, seqFrom2_cons (gm_u3 _ _ _), seqFrom2_cons gm_cx,
      seqFrom2_cons (gm_u3 _ _ _), seqFrom_nil]
  refine ⟨_, .C (.RY t), hm, rfl, PhaseEq.of_eq h ?_⟩
  simp only [wrap1_matU, wrap1_two, matU_rot h ha, cxM_eq, ha2.qn_cos, ha2.qn_sin]
  simp only [ha2.q_cos, ha2.q_sin, matCX_bd]
  simp only [app2_target, app2_cx']
  have hp := h.cos_sq_add_sin_sq (Amp.phalf α (Amp.phalf α t))
  have hc := hh.cos_phalf_twice (Amp.phalf α t)
  have hs := hh.sin_phalf_twice (Amp.phalf α t)
  rw [h.cos_padd] at hc
  rw [h.sin_padd] at hs
  show _ = Spec.ctrl (specMatrix (.RY t))
  rw [spec_RY h, ctrl_two]
  refine bd2_ext ?_ ?_ ?_ ?_ ?_ ?_ ?_ ?_ <;> grind

include hh ha2 in
/-- `CRX(θ)` is exported as `s; cx; ry(-θ/2); cx; ry(θ/2); sdg`: exactly the controlled `RX(θ)` -/
theorem crx_ok (t : P) : LibGateOK α P libTable "CRX" [t] := by
  have hm : libMeaning (α := α) libTable "CRX" [.direct t] =
      some (app2 [1] (wrap1 (wrap1 (matU (z0 : P) z0 (Angle.neg halfPi))))
        (app2 [1] (wrap1 (wrap1 (matU (Angle.div t two) z0 z0))) (app2 [0, 1] (app2 [0, 1] matCX I4)
          (app2 [1] (wrap1 (wrap1 (matU (Angle.div (Angle.neg t) two) z0 z0))) (app2 [0, 1] (app2 [0, 1] matCX I4)
            (app2 [1] (wrap1 (wrap1 (matU (z0 : P) z0 halfPi))) I4)))))) := by
    rw [libMeaning_of2 _ rfl (apps_CRX t), seqFrom2_cons gm_s, seqFrom2_cons gm_cx, seqFrom2_cons (gm_ry _),
      seqFrom2_cons gm_cx, seqFrom2_cons (gm_ry _), seqFrom2_cons gm_sdg, seqFrom_nil]
  refine ⟨_, .C (.RX t), hm, rfl, PhaseEq.of_eq h ?_⟩
  simp only [wrap1_matU, wrap1_two, matU_rot h ha, matU_diag h ha, cxM_eq, ha2.qn_cos,
    ha2.qn_sin, expi_halfPi h ha, expi_neg_halfPi h ha]
  simp only [ha2.q_cos, ha2.q_sin, matCX_bd, I4_eq]
  simp only [app2_target, app2_cx']
  have hp := h.cos_sq_add_sin_sq (Amp.phalf α (Amp.phalf α t))
  have hI := h.I_mul_I
  have hc := hh.cos_phalf_twice (Amp.phalf α t)
  have hs := hh.sin_phalf_twice (Amp.phalf α t)
  rw [h.cos_padd] at hc
  rw [h.sin_padd] at hs
  show _ = Spec.ctrl (specMatrix (.RX t))
  rw [spec_RX h, ctrl_two]
  refine bd2_ext ?_ ?_ ?_ ?_ ?_ ?_ ?_ ?_ <;> grind

omit ha in
theorem spec_U3 (t p l : P) : (specMatrix (.U3 t p l) : LMat α) =
    [[Amp.cos (Amp.phalf α t), -((Amp.cos l + Amp.I P * Amp.sin l) * Amp.sin (Amp.phalf α t))],
     [(Amp.cos p + Amp.I P * Amp.sin p) * Amp.sin (Amp.phalf α t),
      (Amp.cos (Amp.padd α p l) + Amp.I P * Amp.sin (Amp.padd α p l)) * Amp.cos (Amp.phalf α t)]] := by
  simp [specMatrix, Spec.expi]

/-- the general `U(a, b, c)` with the cosine / sine of `a/2` and the phases named -/
theorem matU_gen (a b c : P) : (matU a b c : LMat α) =
    [[Amp.cos (Amp.phalf α a), -(OQ2.expi c * Amp.sin (Amp.phalf α a))],
     [OQ2.expi b * Amp.sin (Amp.phalf α a), OQ2.expi b * OQ2.expi c * Amp.cos (Amp.phalf α a)]] := by
  simp only [matU, expi_padd h ha]

include hh ha2 in
/-- `CU3(θ, φ, λ)` is exported as `cu3(θ, φ, λ)`, whose (corrected) body is exactly the controlled `U3` -/
theorem cu3_ok (t p l : P) : LibGateOK α P libTable "CU3" [t, p, l] := by
  refine ⟨_, .C (.U3 t p l), libMeaning_single2 rfl (apps_CU3 t p l) (gm_cu3 t p l), rfl, PhaseEq.of_eq h ?_⟩
  simp only [wrap1_matU, wrap1_two, matU_diag h ha, cxM_eq]
  simp only [matU_gen h ha, expi_zero h ha, ha2.q_cos, ha2.q_sin, ha2.nq_cos, ha2.nq_sin]
  rw [I4_eq]
  simp only [app2_target, app2_cx, app2_control]
  rw [← I4_eq, app2_both]
  show _ = Spec.ctrl (specMatrix (.U3 t p l))
  rw [spec_U3 h, ctrl_two]
  -- name the half-angle phases
  have hI := h.I_mul_I
  have hq := h.cos_sq_add_sin_sq (Amp.phalf α (Amp.phalf α t))
  have hc := hh.cos_phalf_twice (Amp.phalf α t)
  have hs := hh.sin_phalf_twice (Amp.phalf α t)
  rw [h.cos_padd] at hc
  rw [h.sin_padd] at hs
  have hpp := h.cos_sq_add_sin_sq (Amp.phalf α p)
  have hll := h.cos_sq_add_sin_sq (Amp.phalf α l)
  have hcp := hh.cos_phalf_twice p
  have hsp := hh.sin_phalf_twice p
  rw [h.cos_padd] at hcp
  rw [h.sin_padd] at hsp
  have hcl := hh.cos_phalf_twice l
  have hsl := hh.sin_phalf_twice l
  rw [h.cos_padd] at hcl
  rw [h.sin_padd] at hsl
  simp only [OQ2.expi, ha.cos_neg, ha.sin_neg, ha2.add_cos, ha2.add_sin, ha2.sub_cos, ha2.sub_sin, h.cos_padd,
    h.sin_padd, h.cos_pneg, h.sin_pneg]
  refine bd2_ext ?_ ?_ ?_ ?_ ?_ ?_ ?_ ?_ <;> grind

include hh in
/-- the body of `cu1(λ)`, on both qubits in order, is `diag(1, 1, 1, e^{iλ})` -/
theorem cu1_value (l : P) : ∃ m : LMat α, gateMatrix (α := α) defaultFuel "cu1" [l] = some m ∧
    app2 [0, 1] m I4 = bd2 1 0 0 1 1 0 0 (Amp.cos l + Amp.I P * Amp.sin l) := by
  refine ⟨_, gm_cu1 l, ?_⟩
  simp only [wrap1_matU, wrap1_two, matU_diag h ha, cxM_eq]
  rw [I4_eq]
  simp only [app2_target, app2_cx, app2_control]
  rw [← I4_eq, app2_both]
  have hp := h.cos_sq_add_sin_sq (Amp.phalf α l)
  have hI := h.I_mul_I
  have hc := hh.cos_phalf_twice l
  have hs := hh.sin_phalf_twice l
  rw [h.cos_padd] at hc
  rw [h.sin_padd] at hs
  simp only [expi_neg h ha, expi_div_two h ha, ha.cos_div_two, ha.sin_div_two]
  refine bd2_ext ?_ ?_ ?_ ?_ ?_ ?_ ?_ ?_ <;> grind

omit h ha in
theorem apps_CT : libApps (P := P) libTable "CT" [] =
    some [("cu1", [Angle.div Angle.pi (Angle.ofDec 4 0)], [0, 1])] := by rfl
omit h ha in
theorem apps_CTdg : libApps (P := P) libTable "CTdg" [] =
    some [("cu1", [Angle.div (Angle.neg Angle.pi) (Angle.ofDec 4 0)], [0, 1])] := by rfl

include hh ha2 in
/-- `CT` is exported as `cu1(pi/4)`: exactly the controlled `T` -/
theorem ct_ok : LibGateOK α P libTable "CT" [] := by
  obtain ⟨m, hm, hv⟩ := cu1_value h hh ha (Angle.div Angle.pi (Angle.ofDec 4 0) : P)
  refine ⟨_, .C .T, libMeaning_single2 rfl apps_CT hm, rfl, PhaseEq.of_eq h ?_⟩
  rw [hv]
  show _ = Spec.ctrl (specMatrix (.T : GateTerm P))
  simp only [specMatrix, ctrl_two, h.zeta8_eq, ha2.cos_pi_four, ha2.sin_pi_four]
  refine bd2_ext rfl rfl rfl rfl rfl rfl rfl ?_
  ring

include hh ha2 in
/-- `CTdg` is exported as `cu1(-pi/4)`: exactly the controlled `T†` -/
theorem ctdg_ok : LibGateOK α P libTable "CTdg" [] := by
  obtain ⟨m, hm, hv⟩ := cu1_value h hh ha (Angle.div (Angle.neg Angle.pi) (Angle.ofDec 4 0) : P)
  refine ⟨_, .C .Tdg, libMeaning_single2 rfl apps_CTdg hm, rfl, PhaseEq.of_eq h ?_⟩
  rw [hv]
  show _ = Spec.ctrl (specMatrix (.Tdg : GateTerm P))
  simp only [specMatrix, ctrl_two, h.zeta8_eq, ha2.cos_npi_four, ha2.sin_npi_four, h.conj_add, h.conj_mul,
    h.conj_hsqrt2, h.conj_I]
  refine bd2_ext rfl rfl rfl rfl rfl rfl rfl ?_
  ring

end lawful

end Q1t.OpenQasm

import Mathlib.Data.List.Forall2
import Q1t.Proofs.SimBasic
/-!
C02: the classical-register side of `measure_into` / `peek_into`: the sequence of `writeRange`s over
the ranges writes, into bit `cbit` of shot `i`, the `i`-th entry of the per-shot outcome list
`measOuts counts n0s` (per range: `n0` zeros then `c - n0` ones); nothing else changes.
-/
namespace Q1t.Sim
open Q1t

/-- write bit `cbit` of the words `[start, start + outs.length)` -/
def setOuts (cbit : Nat) (res : List Nat) (start : Nat) (outs : List Bool) : List Nat :=
  res.zipIdx.map fun wi =>
    if start ≤ wi.2 ∧ wi.2 < start + outs.length then setBitTo wi.1 cbit (outs.getD (wi.2 - start) false) else wi.1

/-- per-shot outcomes of a measurement: per range `n0` zeros, then `c - n0` ones -/
def measOuts : List Nat → List Nat → List Bool
  | c :: cs, n0 :: ns => List.replicate n0 false ++ List.replicate (c - n0) true ++ measOuts cs ns
  | _, _ => []

theorem measOuts_length : ∀ (cs ns : List Nat), List.Forall₂ (fun c n0 => n0 ≤ c) cs ns →
    (measOuts cs ns).length = cs.sum
  | [], [], _ => by simp [measOuts]
  | c :: cs, n0 :: ns, h => by
    cases h with
    | cons h1 h2 =>
      simp only [measOuts, List.length_append, List.length_replicate, List.sum_cons, measOuts_length cs ns h2]
      omega

theorem setOuts_length (cbit : Nat) (res : List Nat) (start : Nat) (outs : List Bool) :
    (setOuts cbit res start outs).length = res.length := by simp [setOuts]

theorem getElem?_setOuts (cbit : Nat) (res : List Nat) (start : Nat) (outs : List Bool) (i : Nat) :
    (setOuts cbit res start outs)[i]? = res[i]?.map fun w =>
      if start ≤ i ∧ i < start + outs.length then setBitTo w cbit (outs.getD (i - start) false) else w := by
  simp only [setOuts, List.getElem?_map, List.getElem?_zipIdx, Option.map_map]
  cases res[i]? <;> simp

theorem setOuts_nil (cbit : Nat) (res : List Nat) (start : Nat) : setOuts cbit res start [] = res := by
  apply List.ext_getElem?
  intro i
  rw [getElem?_setOuts]
  cases res[i]? <;> simp

theorem getD_rep (n0 c j : Nat) (h : n0 ≤ c) (hj : j < c) :
    (List.replicate n0 false ++ List.replicate (c - n0) true).getD j false = decide (n0 ≤ j) := by
  rw [List.getD_eq_getElem?_getD, List.getElem?_append]
  by_cases h1 : j < n0
  · simp [h1]
  · have : j - n0 < c - n0 := by omega
    simp [h1, this]
    omega

theorem writeRange_eq (res : List Nat) (start c n0 cbit : Nat) (h : n0 ≤ c) :
    writeRange res start c n0 cbit =
      setOuts cbit res start (List.replicate n0 false ++ List.replicate (c - n0) true) := by
  simp only [writeRange, setOuts]
  apply List.map_congr_left
  intro wi _
  obtain ⟨w, i⟩ := wi
  have hl : (List.replicate n0 false ++ List.replicate (c - n0) true).length = c := by simp; omega
  simp only [hl]
  by_cases h1 : start ≤ i ∧ i < start + n0
  · have h2 : start ≤ i ∧ i < start + c := by omega
    rw [if_pos h1, if_pos h2, getD_rep n0 c (i - start) h (by omega)]
    have : ¬ n0 ≤ i - start := by omega
    simp [this]
  · rw [if_neg h1]
    by_cases h2 : start + n0 ≤ i ∧ i < start + c
    · have h3 : start ≤ i ∧ i < start + c := by omega
      rw [if_pos h2, if_pos h3, getD_rep n0 c (i - start) h (by omega)]
      have : n0 ≤ i - start := by omega
      simp [this]
    · rw [if_neg h2]
      have h3 : ¬ (start ≤ i ∧ i < start + c) := by omega
      rw [if_neg h3]

theorem setOuts_setOuts (cbit : Nat) (res : List Nat) (start : Nat) (o1 o2 : List Bool) :
    setOuts cbit (setOuts cbit res start o1) (start + o1.length) o2 = setOuts cbit res start (o1 ++ o2) := by
  apply List.ext_getElem?
  intro i
  simp only [getElem?_setOuts, Option.map_map]
  cases res[i]? with
  | none => rfl
  | some w =>
    simp only [Option.map_some, Function.comp, List.length_append, Option.some.injEq]
    by_cases h1 : start ≤ i ∧ i < start + o1.length
    · have h2 : ¬ (start + o1.length ≤ i ∧ i < start + o1.length + o2.length) := by omega
      have h3 : start ≤ i ∧ i < start + (o1.length + o2.length) := by omega
      rw [if_pos h1, if_neg h2, if_pos h3]
      congr 1
      simp only [List.getD_eq_getElem?_getD]
      rw [List.getElem?_append_left (by omega)]
    · rw [if_neg h1]
      by_cases h2 : start + o1.length ≤ i ∧ i < start + o1.length + o2.length
      · have h3 : start ≤ i ∧ i < start + (o1.length + o2.length) := by omega
        rw [if_pos h2, if_pos h3]
        congr 1
        simp only [List.getD_eq_getElem?_getD]
        rw [List.getElem?_append_right (by omega)]
        congr 2
        omega
      · have h3 : ¬ (start ≤ i ∧ i < start + (o1.length + o2.length)) := by omega
        rw [if_neg h2, if_neg h3]

/-- shot `i` of the written part gets exactly its outcome in bit `cbit` -/
theorem getElem_setOuts_zero (cbit : Nat) (res : List Nat) (outs : List Bool) (i : Nat)
    (h1 : i < res.length) (h2 : i < outs.length) :
    (setOuts cbit res 0 outs)[i]'(by rw [setOuts_length]; exact h1) = setBitTo res[i] cbit outs[i] := by
  have h := getElem?_setOuts cbit res 0 outs i
  rw [List.getElem?_eq_getElem (by rw [setOuts_length]; exact h1), List.getElem?_eq_getElem h1] at h
  simp only [Option.map_some, Option.some.injEq] at h
  rw [h, if_pos (by omega)]
  simp [List.getD_eq_getElem?_getD, h2]

/-- beyond the written part nothing changes -/
theorem getElem?_setOuts_beyond (cbit : Nat) (res : List Nat) (outs : List Bool) (i : Nat)
    (h2 : outs.length ≤ i) : (setOuts cbit res 0 outs)[i]? = res[i]? := by
  rw [getElem?_setOuts]
  cases res[i]? with
  | none => rfl
  | some w => simp; omega

end Q1t.Sim

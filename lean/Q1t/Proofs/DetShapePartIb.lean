import Q1t.Proofs.DetShapePartC2b
import Q1t.Proofs.TableauContractLemmas
set_option linter.unusedSectionVars false
set_option linter.unusedVariables false
set_option linter.unusedSimpArgs false
/-!
`PartI` (second attempt): `Tab.new n` is in reduced echelon shape (row `i` is `Z_i`, private Z-column `i`) and has
the destabilizers `X_0, …, X_{n-1}`.
-/
namespace Q1t.Proofs.DetPlan
open Q1t Q1t.Tableau Q1t.Spec.Pauli Q1t.Proofs.Tableau Q1t.Proofs.TabG

def xRow (n k : Nat) : List P := (List.range n).map fun j => if j = k then P.X else P.I

theorem xAt_xRow (n k c : Nat) (hc : c < n) : xAt (xRow n k) c = decide (c = k) := by
  simp only [xAt, xRow, List.getElem?_map, List.getElem?_range hc, Option.map_some]
  by_cases h : c = k <;> simp [h, P.hasX]

theorem new_rows_iff (n i : Nat) (r : List P) (h : (Tab.new n).rows[i]? = some r) : i < n ∧ r = zRow n i := by
  have hi : i < n := by
    have := (List.getElem?_eq_some_iff.mp h).1
    simpa [Tab.new] using this
  rw [new_rows n i hi] at h
  exact ⟨hi, (Option.some.inj h).symm⟩

theorem partIb (n : Nat) : PartI n := by
  constructor
  · intro i r hr
    obtain ⟨hi, rfl⟩ := new_rows_iff n i r hr
    left; right
    refine ⟨fun c => by rw [xAt_eq_bitAt]; exact bitAt_zRow_X n i c, i, ?_, ?_⟩
    · rw [zbitAt_eq_bitAt, bitAt_zRow_Z n i i hi]; simp
    · intro k r' hk hr'
      obtain ⟨hkn, rfl⟩ := new_rows_iff n k r' hr'
      rw [zbitAt_eq_bitAt, bitAt_zRow_Z n k i hi]
      simp; exact fun e => hk e.symm
  · refine ⟨(List.range n).map (xRow n), by simp [Tab.new], ?_, ?_⟩
    · intro d hd
      obtain ⟨k, _, rfl⟩ := List.mem_map.mp hd
      simp [xRow, Tab.new]
    · intro i k r d hr hd
      obtain ⟨hi, rfl⟩ := new_rows_iff n i r hr
      have hk : k < n := by
        have := (List.getElem?_eq_some_iff.mp hd).1
        simpa using this
      have hdk : d = xRow n k := by
        rw [List.getElem?_map, List.getElem?_range hk] at hd
        exact (Option.some.inj hd).symm
      subst hdk
      rw [sp_zRow n i _ hi (by simp [xRow]), xAt_xRow n k i hi]

end Q1t.Proofs.DetPlan

import Q1t.Proofs.CQasmParse
set_option linter.unusedSimpArgs false
/-!
C12 (`cq_wellformed_partial`), part 3: statements, bundles, sub-circuit headers, lines; a text all of whose lines are
good parses as a program body without a well-formedness problem.
-/
namespace Q1t.Proofs.CQasm
open Q1t Q1t.CQ

/-! ### well-formedness of one instruction -/

theorem hasDup_false_of_nodup : ∀ (l : List Nat), l.Nodup → CQ1.hasDup l = false
  | [], _ => rfl
  | x :: xs, h => by
    have h1 := List.nodup_cons.mp h
    simp [CQ1.hasDup, h1.1, hasDup_false_of_nodup xs h1.2]

theorem firstSome_none {α β} (f : α → Option β) (l : List α) (h : ∀ a ∈ l, f a = none) : CQ1.firstSome f l = none := by
  induction l with
  | nil => rfl
  | cons a as ih => simp [CQ1.firstSome, h a (by simp), ih (fun x hx => h x (by simp [hx]))]

theorem firstSome_none_elim {α β} (f : α → Option β) (l : List α) (h : CQ1.firstSome f l = none) :
    ∀ a ∈ l, f a = none := by
  induction l with
  | nil => simp
  | cons a as ih =>
    unfold CQ1.firstSome at h
    cases hfa : f a with
    | some b => rw [hfa] at h; cases h
    | none =>
      rw [hfa] at h
      intro x hx
      rcases List.mem_cons.mp hx with rfl | hx
      · exact hfa
      · exact ih h x hx

/-- an instruction other than `measure_all` whose qubits are distinct and in range and whose bits are in range -/
theorem instrWf_ok (n : Nat) (i : CQ1.Instr) (hname : i.name ≠ "measure_all")
    (hq : ∀ k ∈ i.args.filterMap CQ1.qIndex, k < n)
    (hd : (i.args.filterMap CQ1.qIndex).Nodup)
    (hb : ∀ k ∈ i.ctrl ++ i.args.filterMap CQ1.bIndex, k < n) :
    CQ1.instrWf n i = none := by
  unfold CQ1.instrWf
  have hqs : i.qubits n = i.args.filterMap CQ1.qIndex := by
    simp [CQ1.Instr.qubits, hname]
  rw [hqs]
  have f1 : (i.args.filterMap CQ1.qIndex).find? (fun k => decide (n ≤ k)) = none := by
    rw [List.find?_eq_none]; intro k hk; have := hq k hk; simp; omega
  have f2 : i.bits.find? (fun k => decide (n ≤ k)) = none := by
    rw [List.find?_eq_none]; intro k hk; have := hb k (by simpa [CQ1.Instr.bits] using hk); simp; omega
  simp [f1, f2, hasDup_false_of_nodup _ hd]

/-! ### a printed instruction as a statement -/

theorem word_noSpecial {t : Text} (h : word t = true) : ∀ c ∈ t, c ≠ '|' ∧ c ≠ '{' ∧ c ≠ '}' ∧ c ≠ '#' ∧ c ≠ '\n' := by
  intro c hc
  simp only [word, Bool.and_eq_true, List.all_eq_true] at h
  have := h.2 c hc
  refine ⟨?_, ?_, ?_, ?_, ?_⟩ <;> (intro e; subst e; simp [okChar] at this)

theorem intercalate_mem : ∀ (ops : List Text) (c : Char), c ∈ intercalate ", ".toList ops →
    c = ',' ∨ c = ' ' ∨ ∃ t ∈ ops, c ∈ t
  | [], c, h => by simp [intercalate] at h
  | [t], c, h => by right; right; exact ⟨t, by simp, by simpa [intercalate] using h⟩
  | t :: t' :: ts, c, h => by
    have e : intercalate ", ".toList (t :: t' :: ts) = t ++ ", ".toList ++ intercalate ", ".toList (t' :: ts) := rfl
    rw [e] at h
    rcases List.mem_append.mp h with h | h
    · rcases List.mem_append.mp h with h | h
      · right; right; exact ⟨t, by simp, h⟩
      · simp at h; rcases h with rfl | rfl
        · left; rfl
        · right; left; rfl
    · rcases intercalate_mem (t' :: ts) c h with h | h | ⟨u, hu, hc⟩
      · left; exact h
      · right; left; exact h
      · right; right; exact ⟨u, by simp [List.mem_cons.mp hu |>.elim (fun e => Or.inr (Or.inl e)) (fun e => Or.inr (Or.inr e))], hc⟩

/-- the characters of a printed instruction: none of `| { } # \n` -/
theorem printInstr_chars (name : Text) (ops : List Text) (hn : word name = true) (ho : ∀ t ∈ ops, word t = true) :
    ∀ c ∈ printInstr name ops, c ≠ '|' ∧ c ≠ '{' ∧ c ≠ '}' ∧ c ≠ '#' ∧ c ≠ '\n' := by
  intro c hc
  unfold printInstr at hc
  split at hc
  · exact word_noSpecial hn c hc
  · rcases List.mem_append.mp hc with h | h
    · exact word_noSpecial hn c h
    · rcases List.mem_cons.mp h with rfl | h
      · decide
      · rcases intercalate_mem ops c h with rfl | rfl | ⟨t, ht, hct⟩
        · decide
        · decide
        · exact word_noSpecial (ho t ht) c hct

theorem printInstr_ne_nil (name : Text) (ops : List Text) (hn : word name = true) : printInstr name ops ≠ [] := by
  have := word_ne_nil hn
  unfold printInstr
  split
  · exact this
  · cases name with
    | nil => exact absurd rfl this
    | cons _ _ => simp

theorem printInstr_head (name : Text) (ops : List Text) (hn : word name = true) :
    (printInstr name ops).head? = name.head? := by
  have := word_ne_nil hn
  unfold printInstr
  split
  · rfl
  · cases name with
    | nil => exact absurd rfl this
    | cons _ _ => simp

theorem count_zero (c : Char) (s : Text) (h : ∀ x ∈ s, x ≠ c) : CQ1.count c s = 0 := by
  unfold CQ1.count
  rw [List.length_eq_zero_iff, List.filter_eq_nil_iff]
  intro x hx; simp [h x hx]

/-- a line without `| { }` that starts with something else than `{` is parsed as one instruction -/
theorem parseStmt_line (l : Text) (i : CQ1.Instr) (htrim : CQ1.trim l = l)
    (hch : ∀ c ∈ l, c ≠ '|' ∧ c ≠ '{' ∧ c ≠ '}') (hi : CQ1.parseInstr l = .ok i) :
    CQ1.parseStmt l = .ok (.one i) := by
  unfold CQ1.parseStmt
  simp only [htrim]
  have hnb : ¬ ∃ r, l = '{' :: r := by
    rintro ⟨r, rfl⟩; exact (hch '{' (by simp)).2.1 rfl
  have hcont : ¬ '|' ∈ l := fun hm => (hch '|' hm).1 rfl
  have h1 := count_zero '{' l (fun x hx => (hch x hx).2.1)
  have h2 := count_zero '}' l (fun x hx => (hch x hx).2.2)
  split
  · rename_i rest; exact absurd ⟨rest, rfl⟩ hnb
  · simp [hcont, h1, h2, hi]

end Q1t.Proofs.CQasm

import Mathlib.Algebra.Ring.Defs
import Mathlib.Algebra.BigOperators.Group.Finset.Basic
import Mathlib.Algebra.BigOperators.Group.Finset.Sigma
import Mathlib.Algebra.BigOperators.Intervals
import Mathlib.Algebra.BigOperators.Ring.Finset
import Mathlib.Tactic.Ring
import Mathlib.Tactic.Linarith
import Q1t.Model.Gate
import Q1t.Spec.Place
import Q1t.Proofs.AmpLaws
/-!
# C04: row algebra and the block helpers of the routes

`Row α m` (an amplitude, or a matrix row) with the model's `RowOps` is treated through its entries
(`Spec.rowEntry`, `Spec.rowWidth`): every operation acts entry-wise on rows of equal width, and two
rows of equal width with equal entries are equal.  On top of that: `twoBlock` and `defaultRoute`
equal the reference block product `Spec.blockMul`.
-/
namespace Q1t.Proofs.Route
open Q1t Q1t.Gate Q1t.Spec

variable {α : Type} [CommRing α]

/-! ## rows -/

theorem entry_rsmul (m : Mode) (a : α) (r : Row α m) (c : Nat) :
    rowEntry m (rsmul (α := α) a r) c = rowEntry m r c * a := by
  cases m with
  | vec => rfl
  | mat =>
    show (List.map (· * a) r).getD c 0 = r.getD c 0 * a
    simp only [List.getD_eq_getElem?_getD, List.getElem?_map]
    cases r[c]? <;> simp

theorem width_rsmul (m : Mode) (a : α) (r : Row α m) :
    rowWidth m (rsmul (α := α) a r) = rowWidth m r := by
  cases m with
  | vec => rfl
  | mat => show (List.map (· * a) r).length = r.length; simp

theorem entry_rneg (m : Mode) (r : Row α m) (c : Nat) :
    rowEntry m (rneg (α := α) r) c = - rowEntry m r c := by
  cases m with
  | vec => rfl
  | mat =>
    show (List.map (- ·) r).getD c 0 = - r.getD c 0
    simp only [List.getD_eq_getElem?_getD, List.getElem?_map]
    cases r[c]? <;> simp

theorem width_rneg (m : Mode) (r : Row α m) : rowWidth m (rneg (α := α) r) = rowWidth m r := by
  cases m with
  | vec => rfl
  | mat => show (List.map (- ·) r).length = r.length; simp

theorem getD_zipWith {f : α → α → α} (hf : f 0 0 = 0) (x y : List α) (h : x.length = y.length) (c : Nat) :
    (List.zipWith f x y).getD c 0 = f (x.getD c 0) (y.getD c 0) := by
  simp only [List.getD_eq_getElem?_getD, List.getElem?_zipWith]
  by_cases hc : c < x.length
  · have hc' : c < y.length := h ▸ hc
    simp [List.getElem?_eq_getElem hc, List.getElem?_eq_getElem hc']
  · have hc' : ¬ c < y.length := h ▸ hc
    simp [List.getElem?_eq_none (Nat.le_of_not_lt hc), List.getElem?_eq_none (Nat.le_of_not_lt hc'), hf]

theorem entry_radd (m : Mode) (x y : Row α m) (h : rowWidth m x = rowWidth m y) (c : Nat) :
    rowEntry m (radd (α := α) x y) c = rowEntry m x c + rowEntry m y c := by
  cases m with
  | vec => rfl
  | mat => exact getD_zipWith (f := (· + ·)) (by simp) x y h c

theorem width_radd (m : Mode) (x y : Row α m) (h : rowWidth m x = rowWidth m y) :
    rowWidth m (radd (α := α) x y) = rowWidth m x := by
  cases m with
  | vec => rfl
  | mat =>
    show (List.zipWith (· + ·) x y).length = x.length
    have : x.length = y.length := h
    simp [this]

theorem entry_rsub (m : Mode) (x y : Row α m) (h : rowWidth m x = rowWidth m y) (c : Nat) :
    rowEntry m (rsub (α := α) x y) c = rowEntry m x c - rowEntry m y c := by
  cases m with
  | vec => rfl
  | mat => exact getD_zipWith (f := (· - ·)) (by simp) x y h c

theorem width_rsub (m : Mode) (x y : Row α m) (h : rowWidth m x = rowWidth m y) :
    rowWidth m (rsub (α := α) x y) = rowWidth m x := by
  cases m with
  | vec => rfl
  | mat =>
    show (List.zipWith (· - ·) x y).length = x.length
    have : x.length = y.length := h
    simp [this]

/-- rows of equal width with equal entries are equal -/
theorem row_ext (m : Mode) (x y : Row α m) (hw : rowWidth m x = rowWidth m y)
    (he : ∀ c, c < rowWidth m x → rowEntry m x c = rowEntry m y c) : x = y := by
  cases m with
  | vec => exact he 0 (by show 0 < 1; omega)
  | mat =>
    apply List.ext_getElem hw
    intro c h1 h2
    have := he c h1
    simp only [rowEntry, List.getD_eq_getElem?_getD, List.getElem?_eq_getElem h1,
      List.getElem?_eq_getElem h2, Option.getD_some] at this
    exact this

/-- the width a state's rows can have in mode `m` -/
def OkWidth (m : Mode) (w : Nat) : Prop := m = .vec → w = 1

omit [CommRing α] in
theorem width_mk (m : Mode) (w : Nat) (f : Nat → α) (hw : OkWidth m w) : rowWidth m (rowMk m w f) = w := by
  cases m with
  | vec => exact (hw rfl).symm
  | mat => show ((List.range w).map f).length = w; simp

theorem entry_mk (m : Mode) (w : Nat) (f : Nat → α) (hw : OkWidth m w) (c : Nat) (hc : c < w) :
    rowEntry m (rowMk m w f) c = f c := by
  cases m with
  | vec => have := hw rfl; subst this; have : c = 0 := by omega
           subst this; rfl
  | mat =>
    show ((List.range w).map f).getD c 0 = f c
    simp [List.getD_eq_getElem?_getD, hc]

/-- every row of the state has width `w` -/
def RowsW (m : Mode) (w : Nat) (v : List (Row α m)) : Prop := ∀ r ∈ v, rowWidth m r = w

theorem stateEntry_get (m : Mode) (v : List (Row α m)) (k col : Nat) (hk : k < v.length) :
    stateEntry m v k col = rowEntry m v[k] col := by
  simp [stateEntry, List.getElem?_eq_getElem hk]

/-! ## sums -/

theorem sumTo_eq_sum (d : Nat) (f : Nat → α) : sumTo d f = ∑ c ∈ Finset.range d, f c := by
  unfold sumTo
  induction d with
  | zero => simp
  | succ d ih => rw [List.range_succ, List.foldl_append, ih, Finset.sum_range_succ]; rfl

/-! ## `twoBlock` -/

/-- `f` acts on a pair of rows as the 2×2 matrix `[[a,b],[c,d]]` -/
def Acts2 (m : Mode) (w : Nat) (f : Row α m → Row α m → Row α m × Row α m) (a b c d : α) : Prop :=
  ∀ s0 s1, rowWidth m s0 = w → rowWidth m s1 = w →
    rowWidth m (f s0 s1).1 = w ∧ rowWidth m (f s0 s1).2 = w ∧
    ∀ col, rowEntry m (f s0 s1).1 col = a * rowEntry m s0 col + b * rowEntry m s1 col ∧
           rowEntry m (f s0 s1).2 col = c * rowEntry m s0 col + d * rowEntry m s1 col

theorem sumTo_two (f : Nat → α) : sumTo 2 f = f 0 + f 1 := by
  simp [sumTo, List.range_succ]

theorem twoBlock_spec (m : Mode) (w : Nat) (hw : OkWidth m w)
    (f : Row α m → Row α m → Row α m × Row α m) (a b c d : α) (hf : Acts2 m w f a b c d)
    (t : Nat) (v : List (Row α m)) (hlen : v.length = 2 * t) (hv : RowsW m w v) :
    twoBlock f v = some (blockMul m w [[a, b], [c, d]] t v) := by
  unfold twoBlock
  have h2 : v.length % 2 = 0 := by omega
  have hn : v.length / 2 = t := by omega
  rw [if_neg (by omega)]
  simp only [hn]
  congr 1
  have hzl : (List.zipWith f (List.take t v) (List.drop t v)).length = t := by
    simp [List.length_zipWith]; omega
  apply List.ext_getElem
  · simp [blockMul]; omega
  · intro r h1 h2'
    have hr : r < 2 * t := by simpa [blockMul] using h2'
    have ht : 0 < t := by omega
    simp only [blockMul, List.getElem_map, List.getElem_range]
    by_cases hlt : r < t
    · rw [List.getElem_append_left (by rw [List.length_map, hzl]; exact hlt)]
      simp only [List.getElem_map, List.getElem_zipWith, List.getElem_take, List.getElem_drop]
      have w0 : rowWidth m v[r] = w := hv _ (List.getElem_mem _)
      have w1 : rowWidth m v[t + r] = w := hv _ (List.getElem_mem _)
      obtain ⟨wa, -, he⟩ := hf v[r] v[t + r] w0 w1
      apply row_ext
      · rw [wa, width_mk _ _ _ hw]
      · intro col hcol
        rw [wa] at hcol
        show _ = rowEntry m (rowMk m w fun col => sumTo 2 _) col
        rw [(he col).1, entry_mk _ _ _ hw _ hcol, sumTo_two, Nat.div_eq_of_lt hlt, Nat.mod_eq_of_lt hlt,
          stateEntry_get _ _ _ _ (by omega), stateEntry_get _ _ _ _ (by omega)]
        simp [LMat.get]
    · have hge : t ≤ r := Nat.le_of_not_lt hlt
      rw [List.getElem_append_right (by rw [List.length_map, hzl]; exact hge)]
      simp only [List.getElem_map, List.getElem_zipWith, List.getElem_take, List.getElem_drop, List.length_map, hzl]
      have w0 : rowWidth m v[r - t] = w := hv _ (List.getElem_mem _)
      have w1 : rowWidth m v[t + (r - t)] = w := hv _ (List.getElem_mem _)
      obtain ⟨-, wb, he⟩ := hf v[r - t] v[t + (r - t)] w0 w1
      apply row_ext
      · rw [wb, width_mk _ _ _ hw]
      · intro col hcol
        rw [wb] at hcol
        have hd : r / t = 1 := by
          rw [Nat.div_eq_iff ht]; omega
        have hm : r % t = r - t := by
          rw [Nat.mod_eq_sub_mod hge, Nat.mod_eq_of_lt (by omega)]
        show _ = rowEntry m (rowMk m w fun col => sumTo 2 _) col
        rw [(he col).2, entry_mk _ _ _ hw _ hcol, sumTo_two, hd, hm,
          stateEntry_get _ _ _ _ (by omega), stateEntry_get _ _ _ _ (by omega)]
        simp [LMat.get]

/-! ## uniform flatten -/

theorem flatMap_range_uniform {β} (d t : Nat) (F : Nat → Nat → β) :
    (List.range d).flatMap (fun i => (List.range t).map (F i)) =
      (List.range (d * t)).map fun r => F (r / t) (r % t) := by
  induction d with
  | zero => simp
  | succ d ih =>
    rw [List.range_succ, List.flatMap_append, ih, Nat.succ_mul, List.range_add, List.map_append]
    congr 1
    simp only [List.flatMap_cons, List.flatMap_nil, List.append_nil, List.map_map]
    apply List.map_congr_left
    intro j hj
    have hj' : j < t := List.mem_range.1 hj
    have ht : 0 < t := by omega
    simp only [Function.comp]
    rw [Nat.add_comm, Nat.add_mul_div_right _ _ ht, Nat.add_mul_mod_self_right, Nat.div_eq_of_lt hj',
      Nat.mod_eq_of_lt hj', Nat.zero_add]

/-! ## `blocks` -/

omit [CommRing α] in
theorem blocks_spec {R} (nb t : Nat) (v : List R) (hnb : nb ≠ 0) (hlen : v.length = nb * t) :
    blocks nb v = some ((List.range nb).map fun i => (v.drop (i * t)).take t) := by
  unfold blocks
  have hpos : 0 < nb := Nat.pos_of_ne_zero hnb
  have h1 : v.length % nb = 0 := by rw [hlen]; exact Nat.mul_mod_right nb t
  have h2 : v.length / nb = t := by rw [hlen]; exact Nat.mul_div_cancel_left t hpos
  rw [if_neg (by simp [hnb, h1])]
  simp only [h2]

/-! ## `combine` -/

/-- entry `(j, col)` of term `c` of a list of equally long row lists -/
def termEntry (m : Mode) (Ts : List (List (Row α m))) (c j col : Nat) : α :=
  stateEntry m (Ts.getD c []) j col

theorem foldl_radd_spec (m : Mode) (w t : Nat) :
    ∀ (Ts : List (List (Row α m))) (acc : List (Row α m)), acc.length = t → RowsW m w acc →
      (∀ T ∈ Ts, T.length = t ∧ RowsW m w T) →
      (Ts.foldl (List.zipWith (radd (α := α))) acc).length = t ∧
      RowsW m w (Ts.foldl (List.zipWith (radd (α := α))) acc) ∧
      ∀ j col, j < t → stateEntry m (Ts.foldl (List.zipWith (radd (α := α))) acc) j col =
        stateEntry m acc j col + ∑ c ∈ Finset.range Ts.length, termEntry m Ts c j col := by
  intro Ts
  induction Ts with
  | nil => intro acc hl hw _; simp [hl, hw]
  | cons T Ts ih =>
    intro acc hl hw hT
    obtain ⟨hTl, hTw⟩ := hT T (by simp)
    have hzl : (List.zipWith (radd (α := α)) acc T).length = t := by simp [hl, hTl]
    have hzw : RowsW m w (List.zipWith (radd (α := α)) acc T) := by
      intro r hr
      obtain ⟨k, hk, rfl⟩ := List.getElem_of_mem hr
      rw [List.getElem_zipWith, width_radd]
      · exact hw _ (List.getElem_mem _)
      · rw [hw _ (List.getElem_mem _), hTw _ (List.getElem_mem _)]
    obtain ⟨r1, r2, r3⟩ := ih (List.zipWith (radd (α := α)) acc T) hzl hzw
      (fun T' h' => hT T' (List.mem_cons_of_mem _ h'))
    refine ⟨r1, r2, ?_⟩
    intro j col hj
    rw [List.foldl_cons, r3 j col hj, List.length_cons, Finset.sum_range_succ']
    have e1 : stateEntry m (List.zipWith (radd (α := α)) acc T) j col =
        stateEntry m acc j col + termEntry m (T :: Ts) 0 j col := by
      rw [stateEntry_get _ _ _ _ (by omega)]
      simp only [termEntry, List.getD_cons_zero]
      rw [stateEntry_get _ _ _ _ (by omega), stateEntry_get _ _ _ _ (by omega), List.getElem_zipWith,
        entry_radd]
      rw [hw _ (List.getElem_mem _), hTw _ (List.getElem_mem _)]
    rw [e1]
    have e2 : ∀ c, termEntry m (T :: Ts) (c + 1) j col = termEntry m Ts c j col := by
      intro c; simp [termEntry]
    simp only [e2]
    ring



theorem foldl1_spec (m : Mode) (w t : Nat) (T0 : List (Row α m)) (Ts : List (List (Row α m)))
    (hL : ∀ T ∈ T0 :: Ts, T.length = t ∧ RowsW m w T) :
    (Ts.foldl (List.zipWith (radd (α := α))) T0).length = t ∧
    RowsW m w (Ts.foldl (List.zipWith (radd (α := α))) T0) ∧
    ∀ j col, j < t →
      stateEntry m (Ts.foldl (List.zipWith (radd (α := α))) T0) j col =
        ∑ c ∈ Finset.range (T0 :: Ts).length, termEntry m (T0 :: Ts) c j col := by
  obtain ⟨h0l, h0w⟩ := hL T0 (by simp)
  obtain ⟨r1, r2, r3⟩ := foldl_radd_spec m w t Ts T0 h0l h0w (fun T h => hL T (List.mem_cons_of_mem _ h))
  refine ⟨r1, r2, ?_⟩
  intro j col hj
  rw [r3 j col hj, List.length_cons, Finset.sum_range_succ']
  have e2 : ∀ c, termEntry m (T0 :: Ts) (c + 1) j col = termEntry m Ts c j col := by
    intro c; simp [termEntry]
  simp only [e2]
  have e0 : termEntry m (T0 :: Ts) 0 j col = stateEntry m T0 j col := by simp [termEntry]
  rw [e0]; ring

/-- a square matrix of side `d` -/
def WFMat (d : Nat) (M : LMat α) : Prop := M.length = d ∧ ∀ row ∈ M, row.length = d

theorem combine_spec (m : Mode) (w : Nat) (hw : OkWidth m w) (d t : Nat) (hd : 0 < d) (row : List α)
    (hrow : row.length = d) (v : List (Row α m)) (hlen : v.length = d * t) (hv : RowsW m w v) :
    combine row ((List.range d).map fun i => (v.drop (i * t)).take t) =
      (List.range t).map fun j => rowMk m w fun col =>
        sumTo d fun c => row.getD c 0 * stateEntry m v (c * t + j) col := by
  unfold combine
  set L := List.zipWith (fun c b => List.map (rsmul (α := α) c) b) row
    ((List.range d).map fun i => (v.drop (i * t)).take t) with hLdef
  have hLlen : L.length = d := by simp [hLdef, hrow]
  have hblk : ∀ c, c < d → ((v.drop (c * t)).take t).length = t := by
    intro c hc
    rw [List.length_take, List.length_drop, hlen]
    have : c * t + t ≤ d * t := by
      have := Nat.mul_le_mul_right t (Nat.succ_le_of_lt hc)
      rw [Nat.succ_mul] at this; exact this
    omega
  have hLget : ∀ c (hc : c < d), L[c]'(by rw [hLlen]; exact hc) =
      ((v.drop (c * t)).take t).map (rsmul (α := α) (row[c]'(by rw [hrow]; exact hc))) := by
    intro c hc
    simp [hLdef]
  have hL : ∀ T ∈ L, T.length = t ∧ RowsW m w T := by
    intro T hT
    obtain ⟨c, hc, rfl⟩ := List.getElem_of_mem hT
    have hc' : c < d := by rw [hLlen] at hc; exact hc
    rw [hLget c hc']
    refine ⟨by rw [List.length_map, hblk c hc'], ?_⟩
    intro r hr
    obtain ⟨x, hx, rfl⟩ := List.mem_map.1 hr
    rw [width_rsmul]
    exact hv x (List.mem_of_mem_drop (List.mem_of_mem_take hx))
  obtain ⟨T0, Ts, hL0⟩ : ∃ T0 Ts, L = T0 :: Ts := by
    cases hLc : L with
    | nil => rw [hLc] at hLlen; simp at hLlen; omega
    | cons T0 Ts => exact ⟨T0, Ts, rfl⟩
  rw [hL0] at hL
  obtain ⟨r1, r2, r3⟩ := foldl1_spec m w t T0 Ts hL
  rw [← hL0] at r3
  rw [hL0]
  show Ts.foldl (List.zipWith (radd (α := α))) T0 = _
  apply List.ext_getElem
  · rw [r1]; simp
  · intro j h1 h2
    have hj : j < t := by rw [r1] at h1; exact h1
    simp only [List.getElem_map, List.getElem_range]
    apply row_ext
    · rw [r2 _ (List.getElem_mem _), width_mk _ _ _ hw]
    · intro col hcol
      rw [r2 _ (List.getElem_mem _)] at hcol
      rw [entry_mk _ _ _ hw _ hcol, ← stateEntry_get, r3 j col hj, sumTo_eq_sum, hLlen]
      apply Finset.sum_congr rfl
      intro c hc
      have hc' : c < d := Finset.mem_range.1 hc
      have hcj : c * t + j < v.length := by
        rw [hlen]
        have := Nat.mul_le_mul_right t (Nat.succ_le_of_lt hc')
        rw [Nat.succ_mul] at this; omega
      simp only [termEntry]
      rw [List.getD_eq_getElem?_getD, List.getElem?_eq_getElem (by rw [hLlen]; exact hc'), Option.getD_some,
        hLget c hc', stateEntry_get _ _ _ _ (by rw [List.length_map, hblk c hc']; exact hj),
        List.getElem_map, entry_rsmul, stateEntry_get _ _ _ _ hcj]
      simp only [List.getElem_take, List.getElem_drop]
      rw [List.getD_eq_getElem?_getD, List.getElem?_eq_getElem (by rw [hrow]; exact hc'), Option.getD_some]
      ring

theorem defaultRoute_spec (m : Mode) (w : Nat) (hw : OkWidth m w) (k : Nat) (M : LMat α)
    (hM : WFMat (2 ^ k) M) (t : Nat) (v : List (Row α m)) (hlen : v.length = 2 ^ k * t)
    (hv : RowsW m w v) : defaultRoute k M v = some (blockMul m w M t v) := by
  unfold defaultRoute
  have hd : 0 < 2 ^ k := Nat.pos_of_ne_zero (by positivity)
  rw [blocks_spec (2 ^ k) t v (by omega) hlen]
  simp only [Option.map_some]
  congr 1
  unfold blockMul
  rw [hM.1, ← flatMap_range_uniform (2 ^ k) t (fun i j => rowMk m w fun col =>
      sumTo (2 ^ k) fun c => LMat.get M i c * stateEntry m v (c * t + j) col),
    List.flatMap_def]
  congr 1
  apply List.ext_getElem
  · simp [hM.1]
  · intro i h1 h2
    have hi : i < 2 ^ k := by simpa using h2
    have hiM : i < M.length := by rw [hM.1]; exact hi
    simp only [List.getElem_map, List.getElem_range]
    rw [combine_spec m w hw (2 ^ k) t hd M[i] (hM.2 _ (List.getElem_mem _)) v hlen hv]
    apply List.map_congr_left
    intro j _
    congr 1
    funext col
    congr 1
    funext c
    simp [LMat.get, List.getD_eq_getElem?_getD, List.getElem?_eq_getElem (show i < M.length by rw [hM.1]; exact hi)]


/-! ## entries of block products, controlled gates -/
set_option linter.unusedSectionVars false

theorem get_controlledMat (M : LMat α) (i j : Nat) (hi : i < 2 * M.length) (hj : j < 2 * M.length) :
    LMat.get (controlledMat M) i j =
      if i < M.length ∨ j < M.length then (if i = j then 1 else 0) else LMat.get M (i - M.length) (j - M.length) := by
  simp [controlledMat, LMat.get, List.getD_eq_getElem?_getD, hi, hj]

theorem controlledMat_length (M : LMat α) : (controlledMat M).length = 2 * M.length := by
  simp [controlledMat]

theorem stateEntry_drop (m : Mode) (v : List (Row α m)) (n k col : Nat) :
    stateEntry m (v.drop n) k col = stateEntry m v (n + k) col := by
  simp [stateEntry, List.getElem?_drop]

theorem stateEntry_take (m : Mode) (v : List (Row α m)) (n k col : Nat) (hk : k < n) :
    stateEntry m (v.take n) k col = stateEntry m v k col := by
  simp [stateEntry, hk]

/-- entry of a block product -/
theorem blockMul_entry (m : Mode) (w : Nat) (hw : OkWidth m w) (M : LMat α) (t : Nat) (v : List (Row α m))
    (r col : Nat) (hr : r < M.length * t) (hcol : col < w) :
    stateEntry m (blockMul m w M t v) r col =
      ∑ c ∈ Finset.range M.length, LMat.get M (r / t) c * stateEntry m v (c * t + r % t) col := by
  rw [stateEntry_get _ _ _ _ (by simpa [blockMul] using hr)]
  simp only [blockMul, List.getElem_map, List.getElem_range]
  rw [entry_mk _ _ _ hw _ hcol, sumTo_eq_sum]

theorem blockMul_length (m : Mode) (w : Nat) (M : LMat α) (t : Nat) (v : List (Row α m)) :
    (blockMul m w M t v).length = M.length * t := by simp [blockMul]

theorem blockMul_rowsW (m : Mode) (w : Nat) (hw : OkWidth m w) (M : LMat α) (t : Nat) (v : List (Row α m)) :
    RowsW m w (blockMul m w M t v) := by
  intro r hr
  simp only [blockMul, List.mem_map] at hr
  obtain ⟨_, _, rfl⟩ := hr
  exact width_mk _ _ _ hw

/-- two states of rows of width `w` with the same entries are equal -/
theorem state_ext (m : Mode) (w : Nat) (x y : List (Row α m)) (hl : x.length = y.length)
    (hx : RowsW m w x) (hy : RowsW m w y)
    (he : ∀ r col, r < x.length → col < w → stateEntry m x r col = stateEntry m y r col) : x = y := by
  apply List.ext_getElem hl
  intro r h1 h2
  apply row_ext
  · rw [hx _ (List.getElem_mem _), hy _ (List.getElem_mem _)]
  · intro col hcol
    rw [hx _ (List.getElem_mem _)] at hcol
    have := he r col h1 hcol
    rwa [stateEntry_get _ _ _ _ h1, stateEntry_get _ _ _ _ h2] at this

theorem ctrl_spec (m : Mode) (w : Nat) (hw : OkWidth m w) (M : LMat α) (t : Nat) (v : List (Row α m))
    (hlen : v.length = 2 * (M.length * t)) (hv : RowsW m w v) (inner : Option (List (Row α m)))
    (hin : inner = some (blockMul m w M t (v.drop (v.length / 2)))) :
    inner.map (v.take (v.length / 2) ++ ·) = some (blockMul m w (controlledMat M) t v) := by
  subst hin
  have hn : v.length / 2 = M.length * t := by omega
  rw [hn, Option.map_some]
  congr 1
  set d := M.length with hd
  apply state_ext m w
  · rw [List.length_append, List.length_take, blockMul_length, blockMul_length, controlledMat_length, ← hd, hlen]
    have : 2 * d * t = 2 * (d * t) := by ring
    omega
  · intro r hr
    rcases List.mem_append.1 hr with h | h
    · exact hv r (List.mem_of_mem_take h)
    · exact blockMul_rowsW m w hw _ _ _ r h
  · exact blockMul_rowsW m w hw _ _ _
  · intro r col hr hcol
    have hr' : r < 2 * (d * t) := by
      rw [List.length_append, List.length_take, blockMul_length, ← hd, hlen] at hr; omega
    have ht : 0 < t := by
      rcases Nat.eq_zero_or_pos t with h | h
      · subst h; simp at hr'
      · exact h
    have hrd : r / t < 2 * d := by
      rw [Nat.div_lt_iff_lt_mul ht]; nlinarith
    rw [blockMul_entry m w hw _ t v r col (by rw [controlledMat_length, ← hd]; nlinarith) hcol,
      controlledMat_length, ← hd]
    by_cases hlt : r < d * t
    · -- identity block
      have e1 : stateEntry m (List.take (d * t) v ++ blockMul m w M t (List.drop (d * t) v)) r col =
          stateEntry m v r col := by
        simp only [stateEntry]
        rw [List.getElem?_append_left (by simp; omega)]
        simp [hlt]
      rw [e1]
      have hq : r / t < d := by rw [Nat.div_lt_iff_lt_mul ht]; exact hlt
      rw [Finset.sum_eq_single (r / t)]
      · rw [get_controlledMat M _ _ (by rw [← hd]; exact hrd) (by rw [← hd]; exact hrd)]
        simp [← hd, hq, Nat.div_add_mod']
      · intro c hc hne
        have hc' : c < 2 * d := Finset.mem_range.1 hc
        rw [get_controlledMat M _ _ (by rw [← hd]; exact hrd) (by rw [← hd]; exact hc')]
        simp [← hd, hq, Ne.symm hne]
      · intro h; exact absurd (Finset.mem_range.2 hrd) h
    · -- the gate block
      have hge : d * t ≤ r := Nat.le_of_not_lt hlt
      have e1 : stateEntry m (List.take (d * t) v ++ blockMul m w M t (List.drop (d * t) v)) r col =
          stateEntry m (blockMul m w M t (List.drop (d * t) v)) (r - d * t) col := by
        simp only [stateEntry]
        rw [List.getElem?_append_right (by simp; omega)]
        congr 2
        simp; omega
      rw [e1, blockMul_entry m w hw M t _ _ col (by rw [← hd]; omega) hcol, ← hd]
      have hq : d ≤ r / t := by rw [Nat.le_div_iff_mul_le ht]; exact hge
      have hsplit : r = (r - d * t) + d * t := by omega
      have hdiv : (r - d * t) / t = r / t - d := by
        have := Nat.add_mul_div_right (r - d * t) d ht
        rw [← hsplit] at this; omega
      have hmod : (r - d * t) % t = r % t := by
        have := Nat.add_mul_mod_self_right (r - d * t) d t
        rw [← hsplit] at this; exact this.symm
      rw [hdiv, hmod, show 2 * d = d + d by ring, Finset.sum_range_add]
      have z : ∑ x ∈ Finset.range d, LMat.get (controlledMat M) (r / t) x * stateEntry m v (x * t + r % t) col = 0 := by
        apply Finset.sum_eq_zero
        intro c hc
        have hc' : c < d := Finset.mem_range.1 hc
        rw [get_controlledMat M _ _ (by rw [← hd]; exact hrd) (by rw [← hd]; omega)]
        have : r / t ≠ c := by omega
        simp [← hd, hc', this]
      rw [z, zero_add]
      apply Finset.sum_congr rfl
      intro c hc
      have hc' : c < d := Finset.mem_range.1 hc
      rw [get_controlledMat M _ _ (by rw [← hd]; exact hrd) (by rw [← hd]; omega), stateEntry_drop]
      have h1 : ¬ (r / t < d ∨ d + c < d) := by omega
      rw [← hd, if_neg h1]
      congr 2
      · omega
      · ring_nf


end Q1t.Proofs.Route

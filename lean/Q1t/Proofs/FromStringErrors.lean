import Q1t.Proofs.FromStringRender
/-!
C15, part 4: malformed descriptions give the specific `ParseError`, in the order the code checks: the parts are
parsed left to right (first error wins, whatever follows), then the width is computed (overflow), only then the
names are looked up and the numbers of parameters and qubits compared, part by part.  (Core Lean only.)
-/
namespace Q1t.Proofs.FromString
open Q1t Q1t.FromString Q1t.Spec.FromString
open Q1t.Expr (isWs dropWs reLit FloatOps)
open Q1t.Spec.ExprGrammar (Cst Conv Stops isBlank evalConv Blank)
open Q1t.DecFloat (isDigit digitsToNat digitVal)
open Q1t.Proofs.Expr (interpOf parsed headNB)

/-! ### order: the first part that does not parse decides -/

/-- Texts separated by `;`. -/
def joinSemi : List (List Char) → List Char
  | [] => []
  | [t] => t
  | t :: u :: more => t ++ ';' :: joinSemi (u :: more)

theorem renderDesc_eq_join : ∀ (ps : List PartL), renderDesc ps = joinSemi (ps.map renderPart)
  | [] => rfl
  | [p] => rfl
  | p :: q :: more => by
    simp only [renderDesc, List.map_cons, joinSemi]
    rw [renderDesc_eq_join (q :: more)]; rfl

/-- What may follow the offending part: nothing, or `;` and any text at all. -/
def optTail : Option (List Char) → List Char
  | none => []
  | some t => ';' :: t

theorem splitSemi_join_bad : ∀ (good : List (List Char)) (bad : List Char) (tail : Option (List Char)),
    (∀ t ∈ good, ';' ∉ t) → ';' ∉ bad →
    ∃ rest, splitSemi (joinSemi (good ++ [bad]) ++ optTail tail) = good ++ bad :: rest
  | [], bad, none, _, hb => ⟨[], by simp [joinSemi, optTail, splitSemi_nosemi hb]⟩
  | [], bad, some t, _, hb => ⟨splitSemi t, by simp [joinSemi, optTail, splitSemi_append t hb]⟩
  | g :: more, bad, tail, hg, hb => by
    obtain ⟨rest, h⟩ := splitSemi_join_bad more bad tail (fun t ht => hg t (List.mem_cons_of_mem _ ht)) hb
    refine ⟨rest, ?_⟩
    have hj : joinSemi (g :: more ++ [bad]) = g ++ ';' :: joinSemi (more ++ [bad]) := by
      cases more with
      | nil => rfl
      | cons u more' => rfl
    rw [hj, List.append_assoc, List.cons_append, splitSemi_append _ (hg g (by simp)), h]
    simp

theorem parseParts_err {F : Type} (I : FloatOps F) (T : Tables) :
    ∀ (ps : List PartL) (bad : List Char) (rest : List (List Char)) (e : ParseErr) (m : Nat)
      (gs : List (SubGateDesc F)),
    (∀ p ∈ ps, parseGateDesc I T (renderPart p) = .ok (descOf I p) ∧ p.bits ≠ []) →
    parseGateDesc I T bad = .err e →
    parseParts I T (ps.map renderPart ++ bad :: rest) m gs = .err e
  | [], bad, rest, e, m, gs, _, hb => by simp [parseParts, hb]
  | p :: more, bad, rest, e, m, gs, h, hb => by
    obtain ⟨hp, hne⟩ := h p (by simp)
    obtain ⟨b, bs, hbits⟩ : ∃ b bs, (descOf I p).bits = b :: bs := by
      show ∃ b bs, p.vals = b :: bs
      unfold PartL.vals
      cases hbits : p.bits with
      | nil => exact absurd hbits hne
      | cons b more => exact ⟨b.val, more.map (·.val), rfl⟩
    simp only [List.map_cons, List.cons_append, parseParts, hp, hbits, maxOfBits]
    exact parseParts_err I T more bad rest e _ _ (fun x hx => h x (List.mem_cons_of_mem _ hx)) hb

/-- The parts are parsed left to right and the first one that does not parse decides the result: ∀ well-formed
parts before it (whatever their names and arities), ∀ text after it. -/
theorem fromString_first_parse_error {F : Type} (I : FloatOps F) (hneg : ∀ x, I.neg (I.neg x) = x) {T : Tables}
    (hT : TabOK T) (name : String) (ps : List PartL) (hg : ∀ p ∈ ps, PartGood p ∧ p.bits ≠ [])
    (bad : List Char) (hb : ';' ∉ bad) (e : ParseErr) (he : parseGateDesc I T bad = .err e)
    (tail : Option (List Char)) :
    fromString I T name (joinSemi (ps.map renderPart ++ [bad]) ++ optTail tail) = .err e := by
  obtain ⟨rest, hs⟩ := splitSemi_join_bad (ps.map renderPart) bad tail (by
    intro t ht
    obtain ⟨p, hp, rfl⟩ := List.mem_map.mp ht
    exact renderPart_no_semi (hg p hp).1) hb
  unfold fromString
  rw [hs, parseParts_err I T ps bad rest e 0 [] (fun p hp =>
    ⟨parseGateDesc_render I hneg hT (hg p hp).1 (hg p hp).2, (hg p hp).2⟩) he]

/-! ### errors of one part -/

/-- No gate name: after the blanks the part is empty or starts with a character `(?i)[a-z]` does not match. -/
theorem parseGateDesc_noName {F : Type} (I : FloatOps F) (T : Tables) (part : List Char)
    (h : ∀ c, headNB part = some c → isNameStart T c = false) :
    parseGateDesc I T part = .err (.noGateName part) := by
  unfold parseGateDesc parseGateName
  cases hd : dropWs part with
  | nil => rfl
  | cons c t =>
    have : isNameStart T c = false := h c (by simp [headNB, hd])
    simp [this]

/-- Name and argument list of a part (no indices yet). -/
structure HeadGood (p : PartL) : Prop where
  w0 : IsBlank p.w0
  name : isIdent p.name = true
  wOpen : IsBlank p.wOpen
  args : ∀ a ∈ p.args, ArgGood a

/-- What follows the head: if there is no argument list, it cannot continue the name nor open a list. -/
def AfterHead (T : Tables) (p : PartL) (rest : List Char) : Prop :=
  p.args = [] → StopsAt (isNameChar T) rest ∧ headNB rest ≠ some '('

/-- `parse_gate_desc` after name and argument list have been read. -/
def afterHead {F : Type} (I : FloatOps F) (T : Tables) (p : PartL) (rest : List Char) : Res (SubGateDesc F) :=
  match parseGateBits T rest p.name with
  | .ok (bits, r) =>
    if !(trim r).isEmpty then .err (.trailingText (trim r)) else .ok ⟨p.name, p.params (interpOf I), bits⟩
  | .err e => .err e
  | .panic s => .panic s
  | .fuel => .fuel

theorem parseGateDesc_head {F : Type} (I : FloatOps F) (hneg : ∀ x, I.neg (I.neg x) = x) {T : Tables}
    (hT : TabOK T) {p : PartL} (hp : HeadGood p) (rest : List Char) (hr : AfterHead T p rest) :
    parseGateDesc I T (p.w0 ++ (p.name ++ (renderArgList p ++ rest))) = afterHead I T p rest := by
  unfold parseGateDesc afterHead
  cases hargs : p.args with
  | nil =>
    have hal : renderArgList p = [] := by simp [renderArgList, hargs]
    obtain ⟨h1, h2⟩ := hr hargs
    rw [hal, List.nil_append, parseGateName_render T hp.w0 hp.name h1]
    simp only
    rw [parseGateArgs_none I h2]
    simp only [PartL.params, hargs, List.map_nil]
    cases parseGateBits T rest p.name with
    | ok a => obtain ⟨bits, r⟩ := a; rfl
    | err e => rfl
    | panic s => rfl
    | fuel => rfl
  | cons a more =>
    have hal : renderArgList p = p.wOpen ++ '(' :: renderArgs (a :: more) := by
      simp [renderArgList, hargs]
    have hstop : StopsAt (isNameChar T) (renderArgList p ++ rest) := by
      rw [hal]
      cases hw : p.wOpen with
      | nil => exact stopsAt_cons (nameChar_sym hT (by decide))
      | cons c t => exact stopsAt_cons (nameChar_ws hT (hp.wOpen c (by simp [hw])))
    rw [parseGateName_render T hp.w0 hp.name hstop]
    simp only
    have hshape : renderArgList p ++ rest = p.wOpen ++ '(' :: (renderArgs (a :: more) ++ rest) := by
      rw [hal]; simp
    rw [hshape, parseGateArgs_render I hneg hp.wOpen a more (by rw [← hargs]; exact hp.args)]
    simp only [PartL.params, hargs]
    cases parseGateBits T rest p.name with
    | ok a => obtain ⟨bits, r⟩ := a; rfl
    | err e => rfl
    | panic s => rfl
    | fuel => rfl

/-- No qubits: after name and argument list there is no index. -/
theorem parseGateDesc_noBits {F : Type} (I : FloatOps F) (hneg : ∀ x, I.neg (I.neg x) = x) {T : Tables}
    (hT : TabOK T) {p : PartL} (hp : HeadGood p) (rest : List Char) (hr : AfterHead T p rest)
    (hno : ((dropWs rest).takeWhile (isDec T)).isEmpty = true) :
    parseGateDesc I T (p.w0 ++ (p.name ++ (renderArgList p ++ rest))) = .err (.noBits p.name) := by
  rw [parseGateDesc_head I hneg hT hp rest hr]
  unfold afterHead parseGateBits
  rw [bitsLoop]
  simp [hno]

/-- What a well-formed part looks like up to and including its indices. -/
theorem afterHead_bits {F : Type} (I : FloatOps F) {T : Tables} (hT : TabOK T) (p : PartL)
    (hwf : BitsWF p.bits) (hne : p.bits ≠ []) (hsmall : ∀ b ∈ p.bits, b.val < 2 ^ 64) (tail : List Char)
    (ht : NoIndexAhead T tail) :
    afterHead I T p (renderBits p.bits ++ tail) =
      if !(trim tail).isEmpty then .err (.trailingText (trim tail)) else .ok ⟨p.name, p.params (interpOf I), p.vals⟩ := by
  unfold afterHead parseGateBits
  have hlen : p.bits.length < (renderBits p.bits ++ tail).length + 1 := by
    have := length_le_renderBits p.bits
    simp only [List.length_append]; omega
  rw [bitsLoop_render hT p.bits _ [] tail hwf hsmall ht hlen]
  cases hb : p.bits with
  | nil => exact absurd hb hne
  | cons b more => simp [PartL.vals, hb]

theorem afterHead_ok (T : Tables) {p : PartL} {b : BitL} {more : List BitL} {tail : List Char}
    (hp : PartGood p) (hbits : p.bits = b :: more) (hT : TabOK T) :
    AfterHead T p (renderBits p.bits ++ tail) := by
  intro hargs
  have hbw : IsBlank b.w := hp.bits.1 b (by simp [hbits])
  have hb1 : b.w ≠ [] := hp.first b more hbits hargs
  rw [hbits]
  constructor
  · cases hw : b.w with
    | nil => exact absurd hw hb1
    | cons c t =>
      have : renderBits (b :: more) ++ tail = c :: (t ++ (bitDigits b ++ (renderBits more ++ tail))) := by
        simp [renderBits, renderBit_eq, hw]
      rw [this]
      exact stopsAt_cons (nameChar_ws hT (hbw c (by simp [hw])))
  · obtain ⟨c, hc, h⟩ := headNB_renderBits (more := more) (tail := tail) hbw
    rw [h]; intro e
    have := Option.some.inj e
    subst this
    exact absurd hc (by decide)

/-- Trailing text: a well-formed part followed — instead of blanks — by text that is not a further index. -/
theorem parseGateDesc_trailing {F : Type} (I : FloatOps F) (hneg : ∀ x, I.neg (I.neg x) = x) {T : Tables}
    (hT : TabOK T) {p : PartL} (hp : PartGood p) (hne : p.bits ≠ []) (tail : List Char)
    (ht : NoIndexAhead T tail) (hjunk : trim tail ≠ []) :
    parseGateDesc I T (p.w0 ++ (p.name ++ (renderArgList p ++ (renderBits p.bits ++ tail)))) =
      .err (.trailingText (trim tail)) := by
  obtain ⟨b, more, hbits⟩ : ∃ b more, p.bits = b :: more := by
    cases h : p.bits with
    | nil => exact absurd h hne
    | cons b more => exact ⟨b, more, rfl⟩
  rw [parseGateDesc_head I hneg hT ⟨hp.w0, hp.name, hp.wOpen, hp.args⟩ _ (afterHead_ok T hp hbits hT),
    afterHead_bits I hT p hp.bits hne hp.small tail ht]
  have : (trim tail).isEmpty = false := by
    cases h : trim tail with
    | nil => exact absurd h hjunk
    | cons c t => rfl
  simp [this]

/-- An index that is not a `usize`: after well-formed indices `pre`, blanks and a run `ds` of `\d` characters
that contains a non-ASCII digit or denotes a number ≥ 2^64; whatever follows the run. -/
theorem parseGateDesc_invalidBit {F : Type} (I : FloatOps F) (hneg : ∀ x, I.neg (I.neg x) = x) {T : Tables}
    (hT : TabOK T) {p : PartL} (hp : PartGood p) (w ds tail : List Char) (hw : IsBlank w)
    (hsep : w = [] → p.bits = [] ∧ p.args ≠ [])
    (hds : ∀ c ∈ ds, isDec T c = true) (hne : ds ≠ []) (hnws : ∀ c ∈ ds, isWs c = false)
    (hstop : StopsAt (isDec T) tail)
    (hbad : (ds.all isDigit && decide (digitsToNat ds < 2 ^ 64)) = false) :
    parseGateDesc I T (p.w0 ++ (p.name ++ (renderArgList p ++ (renderBits p.bits ++ (w ++ (ds ++ tail)))))) =
      .err (.invalidBit ds) := by
  obtain ⟨d0, dt, hd0⟩ : ∃ d0 dt, ds = d0 :: dt := by
    cases h : ds with
    | nil => exact absurd h hne
    | cons a b => exact ⟨a, b, rfl⟩
  have hd0ws : isWs d0 = false := hnws d0 (by simp [hd0])
  -- the head
  have hah : AfterHead T p (renderBits p.bits ++ (w ++ (ds ++ tail))) := by
    cases hbits : p.bits with
    | cons b more => rw [← hbits]; exact afterHead_ok T hp hbits hT
    | nil =>
      intro hargs
      simp only [renderBits, List.nil_append]
      have hwne : w ≠ [] := fun e => (hsep e).2 hargs
      cases hw' : w with
      | nil => exact absurd hw' hwne
      | cons c t =>
        refine ⟨stopsAt_cons (nameChar_ws hT (hw c (by simp [hw']))), ?_⟩
        have : (c :: t) ++ (ds ++ tail) = w ++ d0 :: (dt ++ tail) := by simp [hw', hd0]
        rw [this, Q1t.Proofs.Expr.headNB_blank_cons hw hd0ws]
        intro e
        have h40 := Option.some.inj e
        have hdec := hds d0 (by simp [hd0])
        rw [h40] at hdec
        have h := hT.decSym 40 (by decide)
        have h' : isDec T '(' = false := h
        rw [h'] at hdec
        exact absurd hdec (by simp)
  rw [parseGateDesc_head I hneg hT ⟨hp.w0, hp.name, hp.wOpen, hp.args⟩ _ hah]
  -- the index loop: the good indices, then the bad run
  have hloop : ∀ (bits : List BitL) (n : Nat) (acc : List Nat), BitsWF bits → (∀ b ∈ bits, b.val < 2 ^ 64) →
      (w = [] → bits = []) → bits.length < n →
      bitsLoop T n acc (renderBits bits ++ (w ++ (ds ++ tail))) = .err (.invalidBit ds) := by
    intro bits
    induction bits with
    | nil =>
      intro n acc _ _ _ hn
      cases n with
      | zero => omega
      | succ k =>
        simp only [renderBits, List.nil_append]
        rw [bitsLoop]
        have hd : dropWs (w ++ (ds ++ tail)) = ds ++ tail := by
          apply dropWs_blank_stop hw
          rw [hd0]; exact stopsAt_cons hd0ws
        have htw : (ds ++ tail).takeWhile (isDec T) = ds := takeWhile_append_stop hds hstop
        simp only [hd, htw]
        have : ds.isEmpty = false := by rw [hd0]; rfl
        simp [this, hbad]
    | cons b more ih =>
      intro n acc hwf hv hsep' hn
      cases n with
      | zero => simp at hn
      | succ k =>
        have hwne : w ≠ [] := fun e => by have := hsep' e; simp at this
        have hrest : StopsAt (isDec T) (renderBits more ++ (w ++ (ds ++ tail))) := by
          cases more with
          | nil =>
            simp only [renderBits, List.nil_append]
            cases hw' : w with
            | nil => exact absurd hw' hwne
            | cons c t => exact stopsAt_cons (isDec_ws hT (hw c (by simp [hw'])))
          | cons b' more' => exact stopsAt_renderBits hT (hwf.1 b' (by simp)) (hwf.2 b' (by simp))
        have : renderBits (b :: more) ++ (w ++ (ds ++ tail)) = renderBit b ++ (renderBits more ++ (w ++ (ds ++ tail))) := by
          simp [renderBits]
        rw [this, bitsLoop_step hT k acc b _ (hwf.1 b (by simp)) (hv b (by simp)) hrest]
        have hwf' : BitsWF more := by
          refine ⟨fun x hx => hwf.1 x (List.mem_cons_of_mem _ hx), fun x hx => ?_⟩
          exact hwf.2 x (by simp only [List.tail_cons]; exact List.mem_of_mem_tail hx)
        exact ih k _ hwf' (fun x hx => hv x (List.mem_cons_of_mem _ hx)) (fun e => absurd e hwne) (by simp at hn; omega)
  unfold afterHead parseGateBits
  have hlen : p.bits.length < (renderBits p.bits ++ (w ++ (ds ++ tail))).length + 1 := by
    have := length_le_renderBits p.bits
    simp only [List.length_append]; omega
  rw [hloop p.bits _ [] hp.bits hp.small (fun e => (hsep e).1) hlen]

end Q1t.Proofs.FromString

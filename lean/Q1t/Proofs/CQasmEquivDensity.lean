import Mathlib.Data.List.Perm.Basic
import Q1t.Proofs.CQasmEquivMeasureAll
set_option linter.unusedSimpArgs false
set_option linter.unusedSectionVars false
set_option linter.unusedVariables false
/-!
C12 (`cq_equiv_partial`), part 12: the observable content.  `CQ1.density dim brs w` (the sum of `|ψ⟩⟨ψ|` over the
branches with register word `w`) does not depend on the order of the branches nor on unit factors of the states; hence
branch lists related by `PermRel (PhRel …)` have the same density for every word.
-/
namespace Q1t.Proofs.CQasm
open Q1t Q1t.Spec Q1t.CQ

variable {α P : Type} [CommRing α] [Amp α P]

theorem zipWith_add_right_comm : ∀ (a b c : List α),
    List.zipWith (· + ·) (List.zipWith (· + ·) a b) c = List.zipWith (· + ·) (List.zipWith (· + ·) a c) b
  | [], _, _ => by simp
  | _ :: _, [], c => by cases c <;> simp
  | _ :: _, _ :: _, [] => by simp
  | x :: a, y :: b, z :: c => by
    simp only [List.zipWith_cons_cons, zipWith_add_right_comm a b c]
    congr 1; ring

theorem matAdd_right_comm : ∀ (A B C : LMat α),
    CQ1.matAdd (CQ1.matAdd A B) C = CQ1.matAdd (CQ1.matAdd A C) B
  | [], _, _ => by simp [CQ1.matAdd]
  | _ :: _, [], C => by cases C <;> simp [CQ1.matAdd]
  | _ :: _, _ :: _, [] => by simp [CQ1.matAdd]
  | x :: A, y :: B, z :: C => by
    have ih := matAdd_right_comm A B C
    simp only [CQ1.matAdd, List.zipWith_cons_cons] at ih ⊢
    rw [ih, zipWith_add_right_comm]

theorem density_perm (dim : Nat) (l1 l2 : List (CQ1.Branch α)) (hp : l1.Perm l2) (w : Nat) :
    CQ1.density (P := P) dim l1 w = CQ1.density (P := P) dim l2 w := by
  unfold CQ1.density
  apply List.Perm.foldl_eq' (hp.filter _)
  intro x _ y _ z
  exact matAdd_right_comm _ _ _

theorem outer_vsmul (h : LawfulAmp α P) (c : α) (hc : c * Amp.conj P c = 1) (ψ : List α) :
    CQ1.outer (P := P) (vsmul c ψ) = CQ1.outer (P := P) ψ := by
  simp only [CQ1.outer, vsmul, List.map_map]
  apply List.map_congr_left
  intro a _
  apply List.map_congr_left
  intro b _
  simp only [Function.comp]
  rw [h.conj_mul]
  calc c * a * (Amp.conj P c * Amp.conj P b) = (c * Amp.conj P c) * (a * Amp.conj P b) := by ring
    _ = a * Amp.conj P b := by rw [hc, one_mul]

theorem density_phRel (h : LawfulAmp α P) (dim n : Nat) (nz : List α → Bool) (w : Nat) :
    ∀ (l1 l2 : List (CQ1.Branch α)), List.Forall₂ (PhRel P n nz) l1 l2 →
      CQ1.density (P := P) dim l1 w = CQ1.density (P := P) dim l2 w := by
  have key : ∀ (l1 l2 : List (CQ1.Branch α)), List.Forall₂ (PhRel P n nz) l1 l2 → ∀ acc : LMat α,
      (l1.filter (·.2 == w)).foldl (fun acc b => CQ1.matAdd acc (CQ1.outer (P := P) b.1)) acc =
        (l2.filter (·.2 == w)).foldl (fun acc b => CQ1.matAdd acc (CQ1.outer (P := P) b.1)) acc := by
    intro l1 l2 hl
    induction hl with
    | nil => intro acc; rfl
    | @cons b1 b2 t1 t2 hb _ ih =>
      intro acc
      obtain ⟨_, c, hc, rfl⟩ := hb
      simp only [List.filter_cons, scaleBr]
      by_cases hw : (b2.2 == w) = true
      · simp only [hw, if_true, List.foldl_cons, outer_vsmul h c hc]
        exact ih _
      · simp only [hw, if_false]
        exact ih _
  intro l1 l2 hl
  exact key l1 l2 hl _

/-- related branch lists have the same observable content -/
theorem density_permRel (h : LawfulAmp α P) (dim n : Nat) (nz : List α → Bool) (l1 l2 : List (CQ1.Branch α))
    (hr : PermRel (PhRel P n nz) l1 l2) (w : Nat) :
    CQ1.density (P := P) dim l1 w = CQ1.density (P := P) dim l2 w := by
  obtain ⟨l, hp, hf⟩ := hr
  rw [density_perm dim l1 l hp w]
  exact density_phRel h dim n nz w l l2 hf

/-- **cq_equiv_partial, observable form**: for every operation list of `FaithfulOpM` and the non-zero test that keeps
every branch, the circuit's Born branch list exists and, for EVERY register word, its density is the density of the
branch list of the exported value-level statements. -/
theorem circuit_equiv_density (h : LawfulAmp α P) (hh : Proofs.Unitaries.LawfulHalf α P) (hn : LawfulNegHalf α P)
    (hq : LawfulQuarter α P) (n : Nat) (hn64 : n ≤ 64) (nz : List α → Bool) (hnz : ∀ φ, nz φ = true)
    (steps : List (XOp P × List (DStmt α) × Sim.COp P)) (hst : ∀ s ∈ steps, FaithfulOpM n nz s.1 s.2.1 s.2.2) :
    ∃ r2, Spec.branches n nz (steps.map (·.2.2)) (CQ1.initial n) = some r2 ∧
      ∀ w, CQ1.density (P := P) (2 ^ n) (dSeq n nz (steps.flatMap (·.2.1)) (CQ1.initial n)) w =
        CQ1.density (P := P) (2 ^ n) r2 w := by
  obtain ⟨r2, hr2, hrel⟩ := circuit_equiv_measureAll h hh hn hq n hn64 nz hnz steps hst
  exact ⟨r2, hr2, fun w => density_permRel h _ n nz _ _ hrel w⟩

end Q1t.Proofs.CQasm

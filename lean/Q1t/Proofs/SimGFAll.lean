import Q1t.Proofs.SimGFStep
/-!
C01, `measure_all` in the computational basis on a homogeneous state.

1. bit level: the word `(w & !mask) | shuffle_bits(reverse_bits(idx))` that `measure_all_into_helper` writes is
   `wordAll n cbits w idx` (classical bit `cbits[q]` := qubit `q` of `idx`), for distinct classical bits `< 64`;
2. the product of all single-qubit projectors is the projector on the basis state;
3. the multinomial theorem for the categorical node (`catSum_multinomial`, `sampleAll_expect`);
4. the ranges view of `measureAllHelper` and the step lemma `measureAll_step`.
-/
set_option linter.unusedSectionVars false
set_option linter.unusedSimpArgs false
set_option linter.unusedVariables false
namespace Q1t.Sim.SimGF
open Q1t Q1t.Sim Q1t.Spec Q1t.Sim.Prog Finset

/-! ### 1. bits -/

theorem testBit_foldl_or {β : Type} (F : β → Nat) (j : Nat) : ∀ (l : List β) (a : Nat),
    (l.foldl (fun acc x => acc ||| F x) a).testBit j = (a.testBit j || l.any fun x => (F x).testBit j) := by
  intro l
  induction l with
  | nil => intro a; simp
  | cons x l ih => intro a; simp [List.foldl_cons, ih, Nat.testBit_or, Bool.or_assoc]

theorem testBit_bitAt (v i p j : Nat) :
    (((v >>> i) &&& 1) <<< p).testBit j = (decide (j = p) && v.testBit i) := by
  rw [Nat.testBit_shiftLeft, Nat.testBit_and, Nat.testBit_shiftRight]
  by_cases h : j = p
  · subst h; simp
  · by_cases h2 : j ≥ p
    · have : j - p ≠ 0 := by omega
      simp [h, h2, Nat.testBit_one_eq_true_iff_self_eq_zero, this]
      intro _
      cases hh : Nat.testBit 1 (j - p)
      · rfl
      · exact absurd ((Nat.testBit_one_eq_true_iff_self_eq_zero).mp hh) this
    · simp [h, h2]

theorem testBit_one_shl (b j : Nat) : (1 <<< b).testBit j = decide (j = b) := by
  rw [Nat.one_shiftLeft, Nat.testBit_two_pow]
  by_cases h : j = b
  · simp [h]
  · simp [h, Ne.symm h]

theorem testBit_reverseBits (idx n i : Nat) :
    (reverseBits idx n).testBit i = (decide (i < n) && idx.testBit (n - 1 - i)) := by
  unfold reverseBits
  rw [testBit_foldl_or (fun i' => ((idx >>> i') &&& 1) <<< (n - 1 - i'))]
  simp only [Nat.zero_testBit, Bool.false_or, testBit_bitAt]
  rw [Bool.eq_iff_iff]
  simp only [List.any_eq_true, List.mem_range, Bool.and_eq_true, decide_eq_true_eq]
  constructor
  · rintro ⟨i', h1, h2, h3⟩
    have : n - 1 - i = i' := by omega
    exact ⟨by omega, by rw [this]; exact h3⟩
  · rintro ⟨h1, h2⟩
    exact ⟨n - 1 - i, by omega, by omega, h2⟩

theorem qbit_testBit (n q idx : Nat) : (qbit n q idx == 1) = idx.testBit (n - 1 - q) := by
  simp only [qbit, Nat.testBit_eq_decide_div_mod_eq, Nat.shiftRight_eq_div_pow]
  by_cases h : idx / 2 ^ (n - 1 - q) % 2 = 1 <;> simp [h]

theorem testBit_mask (cbits : List Nat) (j : Nat) :
    (cbits.foldl (fun m b => m ||| (1 <<< b)) 0).testBit j = decide (j ∈ cbits) := by
  rw [testBit_foldl_or (fun b => 1 <<< b)]
  simp only [Nat.zero_testBit, Bool.false_or, testBit_one_shl]
  rw [Bool.eq_iff_iff]
  simp [List.any_eq_true]

theorem testBit_shuffle (rev : Nat) (cbits : List Nat) (h : ∀ c ∈ cbits, c < 64) (j : Nat) :
    ((shuffleBits rev cbits).getD 0).testBit j =
      cbits.zipIdx.any fun bi => decide (j = bi.1) && rev.testBit bi.2 := by
  unfold shuffleBits
  rw [if_pos (by simpa [shiftOk] using h)]
  simp only [Option.getD_some]
  rw [testBit_foldl_or (fun (bi : Nat × Nat) => ((rev >>> bi.2) &&& 1) <<< bi.1)]
  simp only [Nat.zero_testBit, Bool.false_or, testBit_bitAt]

theorem setBitTo_lt (w c : Nat) (o : Bool) (hw : w < 2 ^ 64) (hc : c < 64) : setBitTo w c o < 2 ^ 64 := by
  unfold setBitTo
  split
  · apply Nat.or_lt_two_pow hw
    rw [Nat.one_shiftLeft]
    exact Nat.pow_lt_pow_right (by omega) hc
  · exact Nat.lt_of_le_of_lt Nat.and_le_left hw

theorem testBit_setBitTo (w c : Nat) (o : Bool) (hw : w < 2 ^ 64) (hc : c < 64) (j : Nat) :
    (setBitTo w c o).testBit j = if j = c then o else w.testBit j := by
  unfold setBitTo
  cases o
  · simp only [Bool.false_eq_true, if_false, Nat.testBit_and, Nat.testBit_xor, Nat.testBit_two_pow_sub_one,
      testBit_one_shl]
    by_cases h : j = c
    · subst h; simp [hc]
    · by_cases h64 : j < 64
      · simp [h, h64]
      · have : w.testBit j = false := Nat.testBit_lt_two_pow (Nat.lt_of_lt_of_le hw (Nat.pow_le_pow_right (by omega) (by omega)))
        simp [h, this]
  · simp only [if_true, Nat.testBit_or, testBit_one_shl]
    by_cases h : j = c <;> simp [h]

/-- a fold of bit writes at positions `pos q`: a position not written keeps its bit … -/
theorem testBit_foldWrite_other (pos : Nat → Nat) (bv : Nat → Bool) (j : Nat) :
    ∀ (qs : List Nat) (w : Nat), w < 2 ^ 64 → (∀ q ∈ qs, pos q < 64) → (∀ q ∈ qs, pos q ≠ j) →
    (qs.foldl (fun acc q => setBitTo acc (pos q) (bv q)) w) < 2 ^ 64 ∧
    (qs.foldl (fun acc q => setBitTo acc (pos q) (bv q)) w).testBit j = w.testBit j := by
  intro qs
  induction qs with
  | nil => intro w hw _ _; exact ⟨hw, rfl⟩
  | cons q qs ih =>
    intro w hw hlt hne
    simp only [List.foldl_cons]
    have hq := hlt q (by simp)
    obtain ⟨h1, h2⟩ := ih (setBitTo w (pos q) (bv q)) (setBitTo_lt _ _ _ hw hq)
      (fun x hx => hlt x (by simp [hx])) (fun x hx => hne x (by simp [hx]))
    refine ⟨h1, ?_⟩
    rw [h2, testBit_setBitTo _ _ _ hw hq, if_neg (fun e => hne q (by simp) e.symm)]

/-- … and a position written once carries the bit written -/
theorem testBit_foldWrite_hit (pos : Nat → Nat) (bv : Nat → Bool) :
    ∀ (qs : List Nat) (w : Nat), w < 2 ^ 64 → (∀ q ∈ qs, pos q < 64) → (qs.map pos).Nodup →
    ∀ q ∈ qs, (qs.foldl (fun acc q => setBitTo acc (pos q) (bv q)) w).testBit (pos q) = bv q := by
  intro qs
  induction qs with
  | nil => intro w _ _ _ q hq; simp at hq
  | cons q0 qs ih =>
    intro w hw hlt hnd q hq
    simp only [List.foldl_cons]
    have hq0 := hlt q0 (by simp)
    simp only [List.map_cons, List.nodup_cons, List.mem_map, not_exists, not_and] at hnd
    rcases List.mem_cons.mp hq with rfl | hq
    · obtain ⟨_, h2⟩ := testBit_foldWrite_other pos bv (pos q) qs (setBitTo w (pos q) (bv q))
        (setBitTo_lt _ _ _ hw hq0) (fun x hx => hlt x (by simp [hx])) (fun x hx => hnd.1 x hx)
      rw [h2, testBit_setBitTo _ _ _ hw hq0, if_pos rfl]
    · exact ih _ (setBitTo_lt _ _ _ hw hq0) (fun x hx => hlt x (by simp [hx])) hnd.2 q hq

/-- the word `measure_all_into_helper` writes for basis state `idx` -/
def nwAll (n : Nat) (cbits : List Nat) (w idx : Nat) : Nat :=
  (w &&& ((2 ^ 64 - 1) ^^^ cbits.foldl (fun m b => m ||| (1 <<< b)) 0)) |||
    (shuffleBits (reverseBits idx n) cbits).getD 0

theorem nwAll_eq_wordAll (n : Nat) (cbits : List Nat) (hlen : cbits.length = n) (hnd : cbits.Nodup)
    (hlt : ∀ c ∈ cbits, c < 64) (w idx : Nat) : nwAll n cbits w idx = wordAll n cbits w idx := by
  have hmod : w % 2 ^ 64 < 2 ^ 64 := Nat.mod_lt _ (by positivity)
  have hpos : ∀ q ∈ List.range n, cbits.getD q 0 < 64 := by
    intro q hq
    have hq' : q < cbits.length := by rw [hlen]; exact List.mem_range.mp hq
    rw [List.getD_eq_getElem?_getD, List.getElem?_eq_getElem hq']
    exact hlt _ (List.getElem_mem hq')
  have hmap : (List.range n).map (fun q => cbits.getD q 0) = cbits := by
    apply List.ext_getElem
    · simp [hlen]
    · intro i h1 h2
      simp [List.getD_eq_getElem?_getD, h2]
  apply Nat.eq_of_testBit_eq
  intro j
  unfold nwAll wordAll
  rw [Nat.testBit_or, Nat.testBit_and, Nat.testBit_xor, Nat.testBit_two_pow_sub_one, testBit_mask,
    testBit_shuffle _ _ hlt]
  by_cases hj : j ∈ cbits
  · obtain ⟨q, hq, rfl⟩ := List.getElem_of_mem hj
    have hqn : q < n := by omega
    have hget : cbits.getD q 0 = cbits[q] := by simp [List.getD_eq_getElem?_getD, hq]
    have hhit := testBit_foldWrite_hit (fun q => cbits.getD q 0) (fun q => qbit n q idx == 1) (List.range n)
      (w % 2 ^ 64) hmod hpos (by rw [hmap]; exact hnd) q (List.mem_range.mpr hqn)
    simp only [writeBit]
    rw [hget] at hhit
    rw [hhit, qbit_testBit]
    have h64 := hlt _ hj
    simp only [hj, h64, decide_true, Bool.xor_self, Bool.and_false, Bool.false_or]
    rw [Bool.eq_iff_iff]
    simp only [List.any_eq_true, Bool.and_eq_true, decide_eq_true_eq, testBit_reverseBits]
    constructor
    · rintro ⟨bi, hbi, h1, h2, h3⟩
      obtain ⟨hk1, hk2, hk3⟩ := List.mem_zipIdx hbi
      simp only [Nat.zero_add, Nat.sub_zero] at hk2 hk3
      have : bi.2 = q := by
        have e1 : cbits[bi.2] = cbits[q] := by rw [← hk3]; exact h1.symm
        exact (List.Nodup.getElem_inj_iff hnd).mp e1
      rw [← this]; exact h3
    · intro h
      exact ⟨(cbits[q], q), List.mem_zipIdx_iff_getElem?.mpr (by simp [hq]), rfl, hqn, h⟩
  · have hoth := (testBit_foldWrite_other (fun q => cbits.getD q 0) (fun q => qbit n q idx == 1) j (List.range n)
      (w % 2 ^ 64) hmod hpos (by
        intro q hq he
        have hq' : q < cbits.length := by rw [hlen]; exact List.mem_range.mp hq
        apply hj
        rw [← he, List.getD_eq_getElem?_getD, List.getElem?_eq_getElem hq']
        exact List.getElem_mem hq')).2
    simp only [writeBit]
    rw [hoth, Nat.testBit_mod_two_pow]
    have hany : (cbits.zipIdx.any fun bi => decide (j = bi.1) && (reverseBits idx n).testBit bi.2) = false := by
      rw [Bool.eq_false_iff]
      intro h
      simp only [List.any_eq_true, Bool.and_eq_true, decide_eq_true_eq] at h
      obtain ⟨bi, hbi, h1, _⟩ := h
      obtain ⟨hk1, hk2, hk3⟩ := List.mem_zipIdx hbi
      apply hj
      rw [h1, hk3]
      exact List.getElem_mem _
    rw [hany]
    simp [hj, Bool.and_comm]

end Q1t.Sim.SimGF

import Q1t.Proofs.SimGFStep
import Q1t.Proofs.SimBasisAll
/-!
C01, `measure_all` in the computational basis on a homogeneous state.

1. bit level: the word `(w & !mask) | shuffle_bits(reverse_bits(idx))` that `measure_all_into_helper` writes is
   `wordAll n cbits w idx` (classical bit `cbits[q]` := qubit `q` of `idx`), for distinct classical bits `< 64`;
2. the product of all single-qubit projectors is the projector on the basis state;
3. the multinomial theorem for the categorical node (`catSum_multinomial`, `sampleAll_expect`);
4. the ranges view of `measureAllHelper` and the step lemma `measureAll_step`.
-/
set_option linter.unusedSectionVars false
set_option linter.unusedSimpArgs false
set_option linter.unusedVariables false
namespace Q1t.Sim.SimGF
open Q1t Q1t.Sim Q1t.Spec Q1t.Sim.Prog Finset

/-! ### 1. bits -/

theorem testBit_foldl_or {β : Type} (F : β → Nat) (j : Nat) : ∀ (l : List β) (a : Nat),
    (l.foldl (fun acc x => acc ||| F x) a).testBit j = (a.testBit j || l.any fun x => (F x).testBit j) := by
  intro l
  induction l with
  | nil => intro a; simp
  | cons x l ih => intro a; simp [List.foldl_cons, ih, Nat.testBit_or, Bool.or_assoc]

theorem testBit_bitAt (v i p j : Nat) :
    (((v >>> i) &&& 1) <<< p).testBit j = (decide (j = p) && v.testBit i) := by
  rw [Nat.testBit_shiftLeft, Nat.testBit_and, Nat.testBit_shiftRight]
  by_cases h : j = p
  · subst h; simp
  · by_cases h2 : j ≥ p
    · have : j - p ≠ 0 := by omega
      simp [h, h2, Nat.testBit_one_eq_true_iff_self_eq_zero, this]
      intro _
      cases hh : Nat.testBit 1 (j - p)
      · rfl
      · exact absurd ((Nat.testBit_one_eq_true_iff_self_eq_zero).mp hh) this
    · simp [h, h2]

theorem testBit_one_shl (b j : Nat) : (1 <<< b).testBit j = decide (j = b) := by
  rw [Nat.one_shiftLeft, Nat.testBit_two_pow]
  by_cases h : j = b
  · simp [h]
  · simp [h, Ne.symm h]

theorem testBit_reverseBits (idx n i : Nat) :
    (reverseBits idx n).testBit i = (decide (i < n) && idx.testBit (n - 1 - i)) := by
  unfold reverseBits
  rw [testBit_foldl_or (fun i' => ((idx >>> i') &&& 1) <<< (n - 1 - i'))]
  simp only [Nat.zero_testBit, Bool.false_or, testBit_bitAt]
  rw [Bool.eq_iff_iff]
  simp only [List.any_eq_true, List.mem_range, Bool.and_eq_true, decide_eq_true_eq]
  constructor
  · rintro ⟨i', h1, h2, h3⟩
    have : n - 1 - i = i' := by omega
    exact ⟨by omega, by rw [this]; exact h3⟩
  · rintro ⟨h1, h2⟩
    exact ⟨n - 1 - i, by omega, by omega, h2⟩

theorem qbit_testBit (n q idx : Nat) : (qbit n q idx == 1) = idx.testBit (n - 1 - q) := by
  simp only [qbit, Nat.testBit_eq_decide_div_mod_eq, Nat.shiftRight_eq_div_pow]
  by_cases h : idx / 2 ^ (n - 1 - q) % 2 = 1 <;> simp [h]

theorem testBit_mask (cbits : List Nat) (j : Nat) :
    (cbits.foldl (fun m b => m ||| (1 <<< b)) 0).testBit j = decide (j ∈ cbits) := by
  rw [testBit_foldl_or (fun b => 1 <<< b)]
  simp only [Nat.zero_testBit, Bool.false_or, testBit_one_shl]
  rw [Bool.eq_iff_iff]
  simp [List.any_eq_true]

theorem testBit_shuffle (rev : Nat) (cbits : List Nat) (h : ∀ c ∈ cbits, c < 64) (j : Nat) :
    ((shuffleBits rev cbits).getD 0).testBit j =
      cbits.zipIdx.any fun bi => decide (j = bi.1) && rev.testBit bi.2 := by
  unfold shuffleBits
  rw [if_pos (by simpa [shiftOk] using h)]
  simp only [Option.getD_some]
  rw [testBit_foldl_or (fun (bi : Nat × Nat) => ((rev >>> bi.2) &&& 1) <<< bi.1)]
  simp only [Nat.zero_testBit, Bool.false_or, testBit_bitAt]

theorem setBitTo_lt (w c : Nat) (o : Bool) (hw : w < 2 ^ 64) (hc : c < 64) : setBitTo w c o < 2 ^ 64 := by
  unfold setBitTo
  split
  · apply Nat.or_lt_two_pow hw
    rw [Nat.one_shiftLeft]
    exact Nat.pow_lt_pow_right (by omega) hc
  · exact Nat.lt_of_le_of_lt Nat.and_le_left hw

theorem testBit_setBitTo (w c : Nat) (o : Bool) (hw : w < 2 ^ 64) (hc : c < 64) (j : Nat) :
    (setBitTo w c o).testBit j = if j = c then o else w.testBit j := by
  unfold setBitTo
  cases o
  · simp only [Bool.false_eq_true, if_false, Nat.testBit_and, Nat.testBit_xor, Nat.testBit_two_pow_sub_one,
      testBit_one_shl]
    by_cases h : j = c
    · subst h; simp [hc]
    · by_cases h64 : j < 64
      · simp [h, h64]
      · have : w.testBit j = false := Nat.testBit_lt_two_pow (Nat.lt_of_lt_of_le hw (Nat.pow_le_pow_right (by omega) (by omega)))
        simp [h, this]
  · simp only [if_true, Nat.testBit_or, testBit_one_shl]
    by_cases h : j = c <;> simp [h]

/-- a fold of bit writes at positions `pos q`: a position not written keeps its bit … -/
theorem testBit_foldWrite_other (pos : Nat → Nat) (bv : Nat → Bool) (j : Nat) :
    ∀ (qs : List Nat) (w : Nat), w < 2 ^ 64 → (∀ q ∈ qs, pos q < 64) → (∀ q ∈ qs, pos q ≠ j) →
    (qs.foldl (fun acc q => setBitTo acc (pos q) (bv q)) w) < 2 ^ 64 ∧
    (qs.foldl (fun acc q => setBitTo acc (pos q) (bv q)) w).testBit j = w.testBit j := by
  intro qs
  induction qs with
  | nil => intro w hw _ _; exact ⟨hw, rfl⟩
  | cons q qs ih =>
    intro w hw hlt hne
    simp only [List.foldl_cons]
    have hq := hlt q (by simp)
    obtain ⟨h1, h2⟩ := ih (setBitTo w (pos q) (bv q)) (setBitTo_lt _ _ _ hw hq)
      (fun x hx => hlt x (by simp [hx])) (fun x hx => hne x (by simp [hx]))
    refine ⟨h1, ?_⟩
    rw [h2, testBit_setBitTo _ _ _ hw hq, if_neg (fun e => hne q (by simp) e.symm)]

/-- … and a position written once carries the bit written -/
theorem testBit_foldWrite_hit (pos : Nat → Nat) (bv : Nat → Bool) :
    ∀ (qs : List Nat) (w : Nat), w < 2 ^ 64 → (∀ q ∈ qs, pos q < 64) → (qs.map pos).Nodup →
    ∀ q ∈ qs, (qs.foldl (fun acc q => setBitTo acc (pos q) (bv q)) w).testBit (pos q) = bv q := by
  intro qs
  induction qs with
  | nil => intro w _ _ _ q hq; simp at hq
  | cons q0 qs ih =>
    intro w hw hlt hnd q hq
    simp only [List.foldl_cons]
    have hq0 := hlt q0 (by simp)
    simp only [List.map_cons, List.nodup_cons, List.mem_map, not_exists, not_and] at hnd
    rcases List.mem_cons.mp hq with rfl | hq
    · obtain ⟨_, h2⟩ := testBit_foldWrite_other pos bv (pos q) qs (setBitTo w (pos q) (bv q))
        (setBitTo_lt _ _ _ hw hq0) (fun x hx => hlt x (by simp [hx])) (fun x hx => hnd.1 x hx)
      rw [h2, testBit_setBitTo _ _ _ hw hq0, if_pos rfl]
    · exact ih _ (setBitTo_lt _ _ _ hw hq0) (fun x hx => hlt x (by simp [hx])) hnd.2 q hq

/-- the word `measure_all_into_helper` writes for basis state `idx` -/
def nwAll (n : Nat) (cbits : List Nat) (w idx : Nat) : Nat :=
  (w &&& ((2 ^ 64 - 1) ^^^ cbits.foldl (fun m b => m ||| (1 <<< b)) 0)) |||
    (shuffleBits (reverseBits idx n) cbits).getD 0

theorem nwAll_eq_wordAll (n : Nat) (cbits : List Nat) (hlen : cbits.length = n) (hnd : cbits.Nodup)
    (hlt : ∀ c ∈ cbits, c < 64) (w idx : Nat) : nwAll n cbits w idx = wordAll n cbits w idx := by
  have hmod : w % 2 ^ 64 < 2 ^ 64 := Nat.mod_lt _ (by positivity)
  have hpos : ∀ q ∈ List.range n, cbits.getD q 0 < 64 := by
    intro q hq
    have hq' : q < cbits.length := by rw [hlen]; exact List.mem_range.mp hq
    rw [List.getD_eq_getElem?_getD, List.getElem?_eq_getElem hq']
    exact hlt _ (List.getElem_mem hq')
  have hmap : (List.range n).map (fun q => cbits.getD q 0) = cbits := by
    apply List.ext_getElem
    · simp [hlen]
    · intro i h1 h2
      simp [List.getD_eq_getElem?_getD, h2]
  apply Nat.eq_of_testBit_eq
  intro j
  unfold nwAll wordAll
  rw [Nat.testBit_or, Nat.testBit_and, Nat.testBit_xor, Nat.testBit_two_pow_sub_one, testBit_mask,
    testBit_shuffle _ _ hlt]
  by_cases hj : j ∈ cbits
  · obtain ⟨q, hq, rfl⟩ := List.getElem_of_mem hj
    have hqn : q < n := by omega
    have hget : cbits.getD q 0 = cbits[q] := by simp [List.getD_eq_getElem?_getD, hq]
    have hhit := testBit_foldWrite_hit (fun q => cbits.getD q 0) (fun q => qbit n q idx == 1) (List.range n)
      (w % 2 ^ 64) hmod hpos (by rw [hmap]; exact hnd) q (List.mem_range.mpr hqn)
    simp only [writeBit]
    rw [hget] at hhit
    rw [hhit, qbit_testBit]
    have h64 := hlt _ hj
    simp only [hj, h64, decide_true, Bool.xor_self, Bool.and_false, Bool.false_or]
    rw [Bool.eq_iff_iff]
    simp only [List.any_eq_true, Bool.and_eq_true, decide_eq_true_eq, testBit_reverseBits]
    constructor
    · rintro ⟨bi, hbi, h1, h2, h3⟩
      obtain ⟨hk1, hk2, hk3⟩ := List.mem_zipIdx hbi
      simp only [Nat.zero_add, Nat.sub_zero] at hk2 hk3
      have : bi.2 = q := by
        have e1 : cbits[bi.2] = cbits[q] := by rw [← hk3]; exact h1.symm
        exact (List.Nodup.getElem_inj_iff hnd).mp e1
      rw [← this]; exact h3
    · intro h
      exact ⟨(cbits[q], q), List.mem_zipIdx_iff_getElem?.mpr (by simp [hq]), rfl, hqn, h⟩
  · have hoth := (testBit_foldWrite_other (fun q => cbits.getD q 0) (fun q => qbit n q idx == 1) j (List.range n)
      (w % 2 ^ 64) hmod hpos (by
        intro q hq he
        have hq' : q < cbits.length := by rw [hlen]; exact List.mem_range.mp hq
        apply hj
        rw [← he, List.getD_eq_getElem?_getD, List.getElem?_eq_getElem hq']
        exact List.getElem_mem hq')).2
    simp only [writeBit]
    rw [hoth, Nat.testBit_mod_two_pow]
    have hany : (cbits.zipIdx.any fun bi => decide (j = bi.1) && (reverseBits idx n).testBit bi.2) = false := by
      rw [Bool.eq_false_iff]
      intro h
      simp only [List.any_eq_true, Bool.and_eq_true, decide_eq_true_eq] at h
      obtain ⟨bi, hbi, h1, _⟩ := h
      obtain ⟨hk1, hk2, hk3⟩ := List.mem_zipIdx hbi
      apply hj
      rw [h1, hk3]
      exact List.getElem_mem _
    rw [hany]
    simp [hj, Bool.and_comm]

/-! ### 2. the product of all single-qubit projectors -/

section proj
variable {α P : Type} [CommRing α] [Amp α P] [SimAmp α]

/-- the basis state `|idx⟩` -/
def basisV (n idx : Nat) : List α := (List.range (2 ^ n)).map fun r => if r = idx then (1 : α) else 0

theorem basisV_length (n idx : Nat) : (basisV n idx : List α).length = 2 ^ n := by simp [basisV]

theorem foldl_project (n : Nat) (outs : Nat → Bool) : ∀ (qs : List Nat) (ψ : List α),
    qs.foldl (fun φ q => project n q (outs q) φ) ψ =
      ψ.zipIdx.map fun ar => if qs.all (fun q => (qbit n q ar.2 == 1) == outs q) then ar.1 else 0 := by
  intro qs
  induction qs with
  | nil =>
    intro ψ
    simp only [List.foldl_nil, List.all_nil, if_true]
    exact (List.zipIdx_map_fst 0 ψ).symm
  | cons q qs ih =>
    intro ψ
    rw [List.foldl_cons, ih]
    apply List.ext_getElem
    · simp [project]
    · intro i h1 h2
      simp only [List.getElem_map, List.getElem_zipIdx, Nat.zero_add, project, List.all_cons]
      by_cases hc : ((qbit n q i == 1) == outs q) = true
      · simp [hc]
      · simp [hc]

theorem measureAllTo_Z (n : Nat) (outs : Nat → Bool) (ψ : List α) :
    measureAllTo (P := P) n .Z outs ψ = (List.range n).foldl (fun φ q => project n q (outs q) φ) ψ := rfl

theorem all_qbit_iff (n r idx : Nat) (hr : r < 2 ^ n) (hi : idx < 2 ^ n) :
    (List.range n).all (fun q => (qbit n q r == 1) == (qbit n q idx == 1)) = decide (r = idx) := by
  rw [Bool.eq_iff_iff]
  simp only [List.all_eq_true, List.mem_range, decide_eq_true_eq, beq_iff_eq, qbit_testBit]
  constructor
  · intro h
    apply Nat.eq_of_testBit_eq
    intro j
    by_cases hj : j < n
    · have := h (n - 1 - j) (by omega)
      rw [show n - 1 - (n - 1 - j) = j by omega] at this
      exact this
    · have h1 : r < 2 ^ j := Nat.lt_of_lt_of_le hr (Nat.pow_le_pow_right (by omega) (by omega))
      have h2 : idx < 2 ^ j := Nat.lt_of_lt_of_le hi (Nat.pow_le_pow_right (by omega) (by omega))
      rw [Nat.testBit_lt_two_pow h1, Nat.testBit_lt_two_pow h2]
  · rintro rfl q _; rfl

/-- projecting every qubit on its value in `idx` leaves the amplitude of `|idx⟩` -/
theorem measureAllTo_basis (n idx : Nat) (hi : idx < 2 ^ n) (ψ : List α) (hψ : ψ.length = 2 ^ n) :
    measureAllTo (P := P) n .Z (fun q => qbit n q idx == 1) ψ = (basisV n idx).map (· * ψ.getD idx 0) := by
  rw [measureAllTo_Z, foldl_project]
  apply List.ext_getElem
  · simp [basisV, hψ]
  · intro r h1 h2
    have hr : r < 2 ^ n := by simpa [hψ] using h1
    simp only [List.getElem_map, List.getElem_zipIdx, Nat.zero_add, basisV, List.getElem_range]
    rw [all_qbit_iff n r idx hr hi]
    by_cases h : r = idx
    · subst h
      simp [List.getD_eq_getElem?_getD, hψ ▸ hr]
    · simp [h]

end proj

/-! ### 3. the multinomial theorem for the categorical node -/

section cat
variable {α R : Type} [CommRing R] [SimAmp α]
variable (ord : List (Nat × Nat) → List (Nat × Nat)) (toR : α → R)

/-- `∏_i A(i)^{t_i}` (indices from offset `i`) -/
def tallyProd (A : Nat → R) : List Nat → Nat → R
  | [], _ => 1
  | t :: ts, i => A i ^ t * tallyProd A ts (i + 1)

theorem bump_length : ∀ (t : List Nat) (j : Nat), (bump t j).length = t.length
  | [], _ => rfl
  | _ :: _, 0 => rfl
  | _ :: ts, j + 1 => by simp [bump, bump_length ts j]

theorem bump_sum : ∀ (t : List Nat) (j : Nat), j < t.length → (bump t j).sum = t.sum + 1
  | [], _, h => by simp at h
  | _ :: _, 0, _ => by simp [bump]; omega
  | _ :: ts, j + 1, h => by
    have := bump_sum ts j (by simpa using h)
    simp [bump, this]; omega

theorem tallyProd_bump (A : Nat → R) : ∀ (t : List Nat) (j i : Nat), j < t.length →
    tallyProd A (bump t j) i = A (i + j) * tallyProd A t i
  | [], _, _, h => by simp at h
  | _ :: _, 0, _, _ => by simp [bump, tallyProd, pow_succ]; ring
  | _ :: ts, j + 1, i, h => by
    have := tallyProd_bump A ts j (i + 1) (by simpa using h)
    simp only [bump, tallyProd, this]
    rw [show i + 1 + j = i + (j + 1) by omega]; ring

theorem tallyProd_zeros (A : Nat → R) : ∀ (m i : Nat), tallyProd A (List.replicate m 0) i = 1
  | 0, _ => rfl
  | m + 1, i => by simp [List.replicate_succ, tallyProd, tallyProd_zeros A m (i + 1)]

theorem catSum_multinomial (ws : List α) (A : Nat → R) (C : R) (g : List Nat → R) : ∀ (c : Nat) (t : List Nat),
    t.length = ws.length →
    (∀ t', t'.length = ws.length → t'.sum = t.sum + c → g t' = C * tallyProd A t' 0) →
    catSum toR ws g c t =
      C * tallyProd A t 0 * ((ws.zipIdx.map fun wi => toR wi.1 * A wi.2).sum) ^ c := by
  intro c
  induction c with
  | zero =>
    intro t hl h
    simp only [catSum, pow_zero, mul_one]
    exact h t hl (by simp)
  | succ c ih =>
    intro t hl h
    have hmap : (ws.zipIdx.map fun wi => toR wi.1 * catSum toR ws g c (bump t wi.2)) =
        ws.zipIdx.map fun wi => (C * tallyProd A t 0 * ((ws.zipIdx.map fun wi => toR wi.1 * A wi.2).sum) ^ c) *
          (toR wi.1 * A wi.2) := by
      apply List.map_congr_left
      intro wi hwi
      obtain ⟨_, hk2, _⟩ := List.mem_zipIdx hwi
      have hj : wi.2 < t.length := by omega
      rw [ih (bump t wi.2) (by rw [bump_length, hl]) (by
        intro t' h1 h2
        exact h t' h1 (by rw [h2, bump_sum t wi.2 hj]; omega))]
      rw [tallyProd_bump A t wi.2 0 hj, Nat.zero_add]
      ring
    simp only [catSum]
    rw [hmap, List.sum_map_mul_left]
    ring

/-- the product over the ranges of the tally weights; an item is (weights, count, A) -/
def tprod : List (List α × Nat × (Nat → R)) → List (List Nat) → R
  | it :: l, t :: ts => tallyProd it.2.2 t 0 * tprod l ts
  | [], [] => 1
  | _, _ => 0

/-- the `(index, count)` list handed to the continuation for the tallies `ts` (one per range) -/
def catPieces (ts : List (List Nat)) : List (Nat × Nat) := ts.flatMap fun t => ord (tallyPairs t)

theorem sampleAll_expect {β : Type} (f : β → R) : ∀ (l : List (List α × Nat × (Nat → R)))
    (k : List (Nat × Nat) → Prog α β) (C : R), (∀ it ∈ l, SimAmp.weightsOk it.1 = true) →
    (∀ ts, List.Forall₂ (fun (it : List α × Nat × (Nat → R)) (t : List Nat) => t.length = it.1.length ∧ t.sum = it.2.1) l ts →
      expectOrd ord toR (k (catPieces ord ts)) f = C * tprod l ts) →
    expectOrd ord toR (VecState.sampleAll (l.map fun it => (it.1, it.2.1)) k) f =
      C * (l.map fun it => ((it.1.zipIdx.map fun wi => toR wi.1 * it.2.2 wi.2).sum) ^ it.2.1).prod := by
  intro l
  induction l with
  | nil =>
    intro k C _ h
    have := h [] List.Forall₂.nil
    simpa [VecState.sampleAll, catPieces, tprod] using this
  | cons it l ih =>
    intro k C hok h
    simp only [List.map_cons, VecState.sampleAll]
    rw [if_neg (by simp [hok it (by simp)]), expectOrd_categorical]
    rw [catSum_multinomial toR it.1 it.2.2
      (C * (l.map fun it => ((it.1.zipIdx.map fun wi => toR wi.1 * it.2.2 wi.2).sum) ^ it.2.1).prod) _ it.2.1
      (List.replicate it.1.length 0) (by simp)]
    · rw [tallyProd_zeros, List.prod_cons]; ring
    · intro t' h1 h2
      rw [ih (fun ls => k (ord (tallyPairs t') ++ ls)) (C * tallyProd it.2.2 t' 0)
        (fun x hx => hok x (by simp [hx]))]
      · ring
      · intro ts hts
        have := h (t' :: ts) (List.Forall₂.cons ⟨h1, by simpa using h2⟩ hts)
        simp only [catPieces, List.flatMap_cons, tprod] at this ⊢
        rw [this]; ring

end cat

/-! ### 4. the ranges view of `measure_all_into_helper` -/

theorem mem_tallyPairsFrom : ∀ (t : List Nat) (i : Nat) (ic : Nat × Nat), ic ∈ tallyPairsFrom t i →
    0 < ic.2 ∧ i ≤ ic.1 ∧ ic.1 < i + t.length
  | [], _, _, h => by simp [tallyPairsFrom] at h
  | t :: ts, i, ic, h => by
    simp only [tallyPairsFrom] at h
    split at h
    · have := mem_tallyPairsFrom ts (i + 1) ic h
      simp only [List.length_cons]; omega
    · rcases List.mem_cons.mp h with rfl | h
      · simp only [List.length_cons]; omega
      · have := mem_tallyPairsFrom ts (i + 1) ic h
        simp only [List.length_cons]; omega

theorem tallyPairsFrom_sum : ∀ (t : List Nat) (i : Nat), ((tallyPairsFrom t i).map (·.2)).sum = t.sum
  | [], _ => rfl
  | t :: ts, i => by
    simp only [tallyPairsFrom]
    split
    · rename_i h; simp [tallyPairsFrom_sum ts (i + 1), h]
    · simp [tallyPairsFrom_sum ts (i + 1)]

theorem tallyPairsFrom_prod {R : Type} [CommRing R] (A : Nat → R) : ∀ (t : List Nat) (i : Nat),
    ((tallyPairsFrom t i).map fun ic => A ic.1 ^ ic.2).prod = tallyProd A t i
  | [], _ => rfl
  | t :: ts, i => by
    simp only [tallyPairsFrom, tallyProd]
    split
    · rename_i h; simp [tallyPairsFrom_prod A ts (i + 1), h]
    · simp [tallyPairsFrom_prod A ts (i + 1)]

theorem maskWrite_mid (pre tail : List Nat) (c w : Nat) (G : Nat → Nat) :
    ((pre ++ List.replicate c w ++ tail).zipIdx.map fun (wi : Nat × Nat) =>
      if pre.length ≤ wi.2 ∧ wi.2 < pre.length + c then G wi.1 else wi.1) =
    pre ++ List.replicate c (G w) ++ tail := by
  apply List.ext_getElem
  · simp
  · intro i h1 h2
    simp only [List.getElem_map, List.getElem_zipIdx, Nat.zero_add]
    simp only [List.length_map, List.length_zipIdx, List.length_append, List.length_replicate] at h1
    by_cases hi : i < pre.length
    · rw [if_neg (by omega)]
      simp [List.getElem_append, hi]
    · by_cases hi2 : i < pre.length + c
      · rw [if_pos (by omega)]
        simp [List.getElem_append, hi, hi2, show i - pre.length < c by omega]
      · rw [if_neg (by omega)]
        simp [List.getElem_append, hi, hi2, show ¬ i - pre.length < c by omega]

/-- one iteration of the register loop of `measure_all_into_helper` -/
def allStep (n : Nat) (cbits : List Nat) (st : List Nat × Nat) (ic : Nat × Nat) : List Nat × Nat :=
  (st.1.zipIdx.map fun wi => if st.2 ≤ wi.2 ∧ wi.2 < st.2 + ic.2 then nwAll n cbits wi.1 ic.1 else wi.1, st.2 + ic.2)

theorem allStep_pieces (n : Nat) (cbits : List Nat) (w : Nat) : ∀ (pcs : List (Nat × Nat)) (pre tail : List Nat),
    pcs.foldl (allStep n cbits) (pre ++ List.replicate ((pcs.map (·.2)).sum) w ++ tail, pre.length) =
      (pre ++ pcs.flatMap (fun ic => List.replicate ic.2 (nwAll n cbits w ic.1)) ++ tail,
        pre.length + (pcs.map (·.2)).sum) := by
  intro pcs
  induction pcs with
  | nil => intro pre tail; simp
  | cons ic pcs ih =>
    intro pre tail
    simp only [List.map_cons, List.sum_cons, List.foldl_cons, List.flatMap_cons]
    have h1 : allStep n cbits (pre ++ List.replicate (ic.2 + (pcs.map (·.2)).sum) w ++ tail, pre.length) ic =
        ((pre ++ List.replicate ic.2 (nwAll n cbits w ic.1)) ++ List.replicate ((pcs.map (·.2)).sum) w ++ tail,
          (pre ++ List.replicate ic.2 (nwAll n cbits w ic.1)).length) := by
      simp only [allStep]
      have := maskWrite_mid pre (List.replicate ((pcs.map (·.2)).sum) w ++ tail) ic.2 w (fun x => nwAll n cbits x ic.1)
      rw [List.replicate_add, ← List.append_assoc, List.append_assoc (pre ++ _)]
      rw [this]
      simp [List.append_assoc]
    rw [h1, ih]
    simp [List.append_assoc, Nat.add_assoc]

section view
variable {α P : Type} [CommRing α] [Amp α P] [SimAmp α]
variable (ord : List (Nat × Nat) → List (Nat × Nat))

/-- the sub-ranges of one range after the collapse, one per `(basis index, count)` piece -/
def collapseRng (n : Nat) (cbits : List Nat) (r : Rng α) (pcs : List (Nat × Nat)) : List (Rng α) :=
  pcs.map fun ic => (ic.2, basisV n ic.1, nwAll n cbits r.2.2 ic.1)

def collapseAll (n : Nat) (cbits : List Nat) : List (Rng α) → List (List Nat) → List (Rng α)
  | r :: rs, t :: ts => collapseRng n cbits r (ord (tallyPairs t)) ++ collapseAll n cbits rs ts
  | _, _ => []

theorem mkReg_collapseRng (n : Nat) (cbits : List Nat) (r : Rng α) (pcs : List (Nat × Nat)) :
    mkReg (collapseRng n cbits r pcs) = pcs.flatMap fun ic => List.replicate ic.2 (nwAll n cbits r.2.2 ic.1) := by
  simp [mkReg, collapseRng, List.flatMap_map]

/-- the tallies of a `measure_all`: one per range, adding up to the range's count -/
def TalliesOK (n : Nat) (rs : List (Rng α)) (ts : List (List Nat)) : Prop :=
  List.Forall₂ (fun (r : Rng α) (t : List Nat) => t.length = 2 ^ n ∧ t.sum = r.1) rs ts

variable {ord} (hord : ∀ l, (ord l).Perm l)
include hord

theorem pieces_sum (t : List Nat) : ((ord (tallyPairs t)).map (·.2)).sum = t.sum := by
  rw [((hord _).map _).sum_eq]
  exact tallyPairsFrom_sum t 0

theorem allStep_ranges (n : Nat) (cbits : List Nat) : ∀ {rs : List (Rng α)} {ts : List (List Nat)},
    TalliesOK n rs ts → ∀ (pre tail : List Nat),
    (catPieces ord ts).foldl (allStep n cbits) (pre ++ mkReg rs ++ tail, pre.length) =
      (pre ++ mkReg (collapseAll ord n cbits rs ts) ++ tail, pre.length + (rs.map (·.1)).sum) := by
  intro rs ts hv
  induction hv with
  | nil => intro pre tail; simp [catPieces, collapseAll, mkReg]
  | @cons r t rs ts hrt _ ih =>
    intro pre tail
    have hs := pieces_sum hord t
    simp only [catPieces, List.flatMap_cons, List.foldl_append, collapseAll, mkReg_append, mkReg_collapseRng]
    have hreg : mkReg (r :: rs) = List.replicate ((ord (tallyPairs t)).map (·.2)).sum r.2.2 ++ mkReg rs := by
      rw [hs, hrt.2]; simp [mkReg]
    rw [hreg, ← List.append_assoc, List.append_assoc (pre ++ _), allStep_pieces]
    have := ih (pre ++ (ord (tallyPairs t)).flatMap fun ic => List.replicate ic.2 (nwAll n cbits r.2.2 ic.1)) tail
    simp only [catPieces] at this
    have hl : (pre ++ (ord (tallyPairs t)).flatMap fun ic => List.replicate ic.2 (nwAll n cbits r.2.2 ic.1)).length =
        pre.length + ((ord (tallyPairs t)).map (·.2)).sum := by
      simp [List.length_flatMap]
    rw [hl] at this
    rw [← List.append_assoc, this, hs, hrt.2]
    simp [List.append_assoc, Nat.add_assoc]

theorem collapseAll_counts (n : Nat) (cbits : List Nat) : ∀ (rs : List (Rng α)) (ts : List (List Nat)),
    rs.length = ts.length →
    (collapseAll ord n cbits rs ts).map (·.1) = (catPieces ord ts).map (·.2) ∧
    (collapseAll ord n cbits rs ts).map (·.2.1) = (catPieces ord ts).map fun ic => (basisV n ic.1 : List α)
  | [], [], _ => by simp [collapseAll, catPieces]
  | r :: rs, t :: ts, h => by
    have := collapseAll_counts n cbits rs ts (by simpa using h)
    simp only [collapseAll, catPieces, List.flatMap_cons, List.map_append] at this ⊢
    rw [this.1, this.2]
    simp [collapseRng, List.map_map, Function.comp_def]
  | [], _ :: _, h => by simp at h
  | _ :: _, [], h => by simp at h

theorem mem_collapseAll (n : Nat) (cbits : List Nat) : ∀ {rs : List (Rng α)} {ts : List (List Nat)},
    TalliesOK n rs ts → ∀ r' ∈ collapseAll ord n cbits rs ts,
    0 < r'.1 ∧ ∃ idx, idx < 2 ^ n ∧ r'.2.1 = basisV n idx := by
  intro rs ts hv
  induction hv with
  | nil => intro r' h; simp [collapseAll] at h
  | @cons r t rs ts hrt _ ih =>
    intro r' h
    simp only [collapseAll, List.mem_append] at h
    rcases h with h | h
    · simp only [collapseRng, List.mem_map] at h
      obtain ⟨ic, hic, rfl⟩ := h
      have := mem_tallyPairsFrom t 0 ic ((hord _).mem_iff.mp hic)
      exact ⟨this.1, ic.1, by rw [← hrt.1]; omega, rfl⟩
    · exact ih r' h

theorem collapseAll_sum (n : Nat) (cbits : List Nat) : ∀ {rs : List (Rng α)} {ts : List (List Nat)},
    TalliesOK n rs ts → ((collapseAll ord n cbits rs ts).map (·.1)).sum = (rs.map (·.1)).sum := by
  intro rs ts hv
  induction hv with
  | nil => simp [collapseAll]
  | @cons r t rs ts hrt _ ih =>
    simp only [collapseAll, List.map_append, List.sum_append, ih, List.map_cons, List.sum_cons]
    congr 1
    simp only [collapseRng, List.map_map, Function.comp_def]
    rw [pieces_sum hord t, hrt.2]

theorem value_collapseAll {R : Type} [CommRing R] (n : Nat) (cbits : List Nat) (g : List α × Nat → R) :
    ∀ {rs : List (Rng α)} {ts : List (List Nat)}, TalliesOK n rs ts →
    value g (collapseAll ord n cbits rs ts) =
      tprod (rs.map fun r => (r.2.1.map SimAmp.normSq, r.1,
        fun idx => g ((basisV n idx : List α), nwAll n cbits r.2.2 idx))) ts := by
  intro rs ts hv
  induction hv with
  | nil => simp [collapseAll, value, tprod]
  | @cons r t rs ts hrt _ ih =>
    simp only [collapseAll, value_append, ih, List.map_cons, tprod]
    congr 1
    simp only [value, collapseRng, List.map_map, Function.comp_def]
    rw [((hord (tallyPairs t)).map _).prod_eq]
    exact tallyPairsFrom_prod (fun idx => g ((basisV n idx : List α), nwAll n cbits r.2.2 idx)) t 0

omit hord in
theorem normSqSum_basisV (hA : LawfulAmp α P) {nz : α → Prop} (hS : LawfulSim α P nz) (n idx : Nat)
    (hi : idx < 2 ^ n) : normSqSum (basisV n idx : List α) = 1 := by
  have h1 : SimAmp.normSq (1 : α) = 1 := by rw [hS.normSq_eq, hA.conj_one, one_mul]
  have h0 : SimAmp.normSq (0 : α) = 0 := hS.normSq_zero
  have key : ∀ m, ((List.range m).map fun r => SimAmp.normSq (if r = idx then (1 : α) else 0)).sum =
      if idx < m then 1 else 0 := by
    intro m
    induction m with
    | zero => simp
    | succ m ih =>
      rw [List.range_succ, List.map_append, List.sum_append, ih]
      by_cases h : idx < m
      · have : m ≠ idx := by omega
        simp [h, this, h0, show idx < m + 1 by omega]
      · by_cases h2 : idx = m
        · subst h2; simp [h1]
        · have : ¬ idx < m + 1 := by omega
          simp [h, this, h0, Ne.symm h2]
  simp only [normSqSum, basisV, List.map_map, Function.comp_def]
  rw [key, if_pos hi]

theorem good_collapseAll {N : Nat} (hA : LawfulAmp α P) {nz : α → Prop} (hS : LawfulSim α P nz) (n : Nat)
    (cbits : List Nat) {rs : List (Rng α)} {ts : List (List Nat)} (hg : Good n N rs) (hv : TalliesOK n rs ts) :
    Good n N (collapseAll ord n cbits rs ts) := by
  refine ⟨⟨?_, ?_, ?_⟩, ?_⟩
  · intro r' h; exact (mem_collapseAll hord n cbits hv r' h).1
  · intro r' h
    obtain ⟨_, idx, _, e⟩ := mem_collapseAll hord n cbits hv r' h
    rw [e, basisV_length]
  · rw [collapseAll_sum hord n cbits hv, hg.sum]
  · intro r' h
    obtain ⟨_, idx, hi, e⟩ := mem_collapseAll hord n cbits hv r' h
    rw [e]; exact normSqSum_basisV hA hS n idx hi

/-- `measure_all_into_helper` (collapsing) on a homogeneous state: one categorical draw per range, then every
range is replaced by one basis-state sub-range per distinct outcome -/
theorem measureAll_eq {n N : Nat} {rs : List (Rng α)} (h : Shape n N rs) {cbits : List Nat}
    (hlen : cbits.length = n) (hlt : ∀ c ∈ cbits, c < 64) :
    ∃ body : List (Nat × Nat) → Prog α (VecState α × List Nat),
      VecState.measureAllHelper (mkState n N rs) cbits (mkReg rs) true =
        VecState.sampleAll (rs.map fun r => (r.2.1.map SimAmp.normSq, r.1)) body ∧
      ∀ ts, TalliesOK n rs ts →
        body (catPieces ord ts) = .pure (mkState n N (collapseAll ord n cbits rs ts),
          mkReg (collapseAll ord n cbits rs ts)) := by
  refine ⟨fun stateCounts =>
      if ¬ cbits.all shiftOk then Prog.panic "1u64 << b" else
      let res' := (stateCounts.foldl (allStep n cbits) (mkReg rs, 0)).1
      .pure ({ (mkState n N rs) with
        states := VecState.ofColumns n (stateCounts.map fun ic => (basisV n ic.1 : List α)),
        counts := stateCounts.map (·.2) }, res'), ?_, ?_⟩
  · unfold VecState.measureAllHelper
    rw [if_neg (by rw [mkReg_length, h.sum]; simp [mkState])]
    rw [if_neg (by simp [mkState, hlen])]
    have hcols : ((List.range (mkState n N rs).nrCols).map fun k =>
        (((mkState n N rs).column k).map SimAmp.normSq, (mkState n N rs).counts.getD k 0)) =
        rs.map fun r => (r.2.1.map SimAmp.normSq, r.1) := by
      apply List.ext_getElem
      · simp [VecState.nrCols, mkState]
      · intro k h1 h2
        have hk : k < rs.length := by simpa [VecState.nrCols, mkState] using h1
        simp only [List.getElem_map, List.getElem_range]
        rw [column_mkState h k hk]
        simp [mkState, List.getD_eq_getElem?_getD, hk]
    simp only [hcols]
    rfl
  · intro ts hv
    have hall : cbits.all shiftOk = true := by simpa [shiftOk] using hlt
    simp only [hall, not_true_eq_false, if_false]
    have := allStep_ranges hord n cbits hv [] []
    simp only [List.nil_append, List.append_nil, List.length_nil] at this
    rw [this]
    have hc := collapseAll_counts hord n cbits rs ts (by
      have : ∀ {l1 : List (Rng α)} {l2 : List (List Nat)}, TalliesOK n l1 l2 → l1.length = l2.length := by
        intro l1 l2 hh; induction hh with
        | nil => rfl
        | cons _ _ ih => simp [ih]
      exact this hv)
    simp only [mkState, hc.1, hc.2]
end view

/-! ### 5. the step lemma -/

theorem forall₂_imp_mem {β γ : Type} {R S : β → γ → Prop} : ∀ {l : List β} {l' : List γ},
    (∀ a ∈ l, ∀ b, R a b → S a b) → List.Forall₂ R l l' → List.Forall₂ S l l' := by
  intro l l' h hv
  induction hv with
  | nil => exact .nil
  | cons hab _ ih => exact .cons (h _ (by simp) _ hab) (ih (fun a ha => h a (by simp [ha])))

section step
variable {α P R : Type} [CommRing α] [Amp α P] [SimAmp α] [CommRing R] {nz : α → Prop} {n N : Nat}
variable {valid : GateTerm P → List Nat → Prop}
variable {ord : List (Nat × Nat) → List (Nat × Nat)} (hord : ∀ l, (ord l).Perm l) (toR : α →+* R)
include hord

/-- the per-range sum of the categorical step is the `measure_all` clause of `stepGf` -/
theorem measureAll_sum_eq (H : Hyps α P nz n valid) {cbits : List Nat} (hlen : cbits.length = n)
    (hnd : cbits.Nodup) (hlt : ∀ c ∈ cbits, c < 64) {g : List α × Nat → R} (hg : Scales (P := P) toR g)
    (ψ : List α) (hψ : ψ.length = 2 ^ n) (w : Nat) :
    ((ψ.map SimAmp.normSq).zipIdx.map fun wi => toR wi.1 * g ((basisV n wi.2 : List α), nwAll n cbits w wi.2)).sum =
      stepGf (P := P) n (.measureAll cbits .Z) g (ψ, w) := by
  simp only [stepGf]
  congr 1
  apply List.ext_getElem
  · simp [hψ]
  · intro i h1 h2
    have hi : i < 2 ^ n := by simpa using h2
    have hi' : i < ψ.length := by rw [hψ]; exact hi
    simp only [List.getElem_map, List.getElem_zipIdx, Nat.zero_add, List.getElem_range]
    rw [measureAllTo_basis (P := P) n i hi ψ hψ, hg, H.sim.normSq_eq, nwAll_eq_wordAll n cbits hlen hnd hlt]
    simp [List.getD_eq_getElem?_getD, hi']

/-- **`measure_all` in the computational basis** -/
theorem measureAll_step (H : Hyps α P nz n valid) {rs : List (Rng α)} (hgood : Good n N rs) {cbits : List Nat}
    (hlen : cbits.length = n) (hnd : cbits.Nodup) (hlt : ∀ c ∈ cbits, c < 64)
    {K : VecState α × List Nat → R} {g : List α × Nat → R} (hK : Mult n N K g) (hg : Scales (P := P) toR g) :
    expectOrd ord toR (execOp (vecBackend (α := α) (P := P)) (mkState n N rs) (mkReg rs) (.measureAll cbits .Z)) K =
      value (stepGf (P := P) n (.measureAll cbits .Z) g) rs := by
  obtain ⟨body, heq, hbody⟩ := measureAll_eq hord hgood.toShape hlen hlt
  simp only [execOp, withBasisAll, vecBackend]
  rw [heq]
  have hl : (rs.map fun r => (r.2.1.map SimAmp.normSq, r.1)) =
      (rs.map fun r => (r.2.1.map SimAmp.normSq, r.1,
        fun idx => g ((basisV n idx : List α), nwAll n cbits r.2.2 idx))).map fun it => (it.1, it.2.1) := by
    simp [List.map_map, Function.comp_def]
  rw [hl, sampleAll_expect ord (⇑toR) K _ body 1]
  · simp only [one_mul, List.map_map, value, Function.comp_def]
    congr 1
    apply List.map_congr_left
    intro r hr
    rw [measureAll_sum_eq hord toR H hlen hnd hlt hg r.2.1 (hgood.len r hr)]
  · intro it hit
    simp only [List.mem_map] at hit
    obtain ⟨r, hr, rfl⟩ := hit
    exact H.wts.weightsOk r.2.1 (hgood.normed r hr)
  · intro ts hts
    have hv : TalliesOK n rs ts := by
      rw [List.forall₂_map_left_iff] at hts
      refine forall₂_imp_mem ?_ hts
      intro r hr t ht
      simp only [List.length_map] at ht
      exact ⟨by rw [ht.1, hgood.len r hr], ht.2⟩
    rw [hbody ts hv, expectOrd_pure, hK _ (good_collapseAll hord H.amp H.sim n cbits hgood hv),
      value_collapseAll hord n cbits g hv, one_mul]

end step

/-! ### 6. `measure_all` in the X and Y bases

The simulator changes the basis of all qubits (`apply_unary_gate_all`), measures in Z, changes back; the
reference semantics measures qubit after qubit in its own basis.  `Sim.measureAllTo_basis`
(`SimBasisAll.lean`, from the commutation of one-qubit operators on different qubits) identifies the two. -/

section basis
variable {α P R : Type} [CommRing α] [Amp α P] [SimAmp α] [CommRing R] {nz : α → Prop} {n N : Nat}
variable {valid : GateTerm P → List Nat → Prop}

/-- the gate `g` on the listed qubits in turn -/
def unaryL (n : Nat) (g : GateTerm P) (l : List Nat) (v : List α) : List α :=
  l.foldl (fun v q => gateOn n g [q] v) v

theorem unaryL_length (g : GateTerm P) : ∀ (l : List Nat) (v : List α), v.length = 2 ^ n →
    (unaryL n g l v).length = 2 ^ n := by
  intro l
  induction l with
  | nil => intro v hv; exact hv
  | cons q l ih => intro v hv; exact ih _ (gateOn_length _ _ _ _)

theorem unaryL_norm (H : Hyps α P nz n valid) (g : GateTerm P) : ∀ (l : List Nat), (∀ q ∈ l, valid g [q]) →
    ∀ v : List α, v.length = 2 ^ n → normSqSum (unaryL n g l v) = normSqSum v := by
  intro l
  induction l with
  | nil => intro _ v _; rfl
  | cons q l ih =>
    intro hv v hl
    show normSqSum (unaryL n g l (gateOn n g [q] v)) = _
    rw [ih (fun x hx => hv x (by simp [hx])) _ (gateOn_length _ _ _ _), H.sem.iso g [q] (hv q (by simp)) v hl]

theorem unaryL_smul (g : GateTerm P) : ∀ (l : List Nat) (v : List α) (a : α),
    unaryL n g l (v.map (· * a)) = (unaryL n g l v).map (· * a) := by
  intro l
  induction l with
  | nil => intro v a; rfl
  | cons q l ih =>
    intro v a
    show unaryL n g l (gateOn n g [q] (v.map (· * a))) = _
    rw [gateOn_smul, ih]
    rfl

theorem unaryAll_eq_unaryL (g : GateTerm P) (v : List α) : Sim.unaryAll n g v = unaryL n g (List.range n) v := rfl

theorem mapCol_mapCol (f F : List α → List α) (rs : List (Rng α)) :
    (rs.map (mapCol f)).map (mapCol F) = rs.map (mapCol fun v => F (f v)) := by
  simp [List.map_map, Function.comp_def, mapCol]

/-- `apply_unary_gate_all` on a ranges state -/
theorem foldl_applyGate_eq (H : Hyps α P nz n valid) (g : GateTerm P) : ∀ (l : List Nat), (∀ q ∈ l, valid g [q]) →
    ∀ {rs : List (Rng α)}, Shape n N rs →
    l.foldl (fun (acc : Prog α (VecState α)) bit => acc.bind fun st => VecState.applyGate st g [bit])
        (Prog.pure (mkState n N rs)) =
      Prog.pure (mkState n N (rs.map (mapCol (unaryL n g l)))) := by
  intro l
  induction l with
  | nil =>
    intro _ rs _
    have : rs.map (mapCol (unaryL n g [])) = rs := by
      conv_rhs => rw [← List.map_id rs]
      exact List.map_congr_left (fun r _ => rfl)
    simp only [List.foldl_nil, this]
  | cons q l ih =>
    intro hv rs h
    simp only [List.foldl_cons, bind_pure']
    rw [applyGate_eq H.sem H.runs (hv q (by simp)) h]
    have h' : Shape n N (rs.map (mapCol (gateOn n g [q]))) :=
      shape_mapCol h (fun _ => gateOn n g [q]) (fun _ v _ => gateOn_length _ _ _ v)
    rw [ih (fun x hx => hv x (by simp [hx])) h', mapCol_mapCol]
    rfl

theorem applyUnaryAll_eq (H : Hyps α P nz n valid) {g : GateTerm P} (hv : ∀ q, q < n → valid g [q])
    {rs : List (Rng α)} (h : Shape n N rs) :
    VecState.applyUnaryAll (mkState n N rs) g = .pure (mkState n N (rs.map (mapCol (Sim.unaryAll n g)))) := by
  unfold VecState.applyUnaryAll
  exact foldl_applyGate_eq H g _ (fun q hq => hv q (List.mem_range.mp hq)) h

theorem good_unaryAll (H : Hyps α P nz n valid) {g : GateTerm P} (hv : ∀ q, q < n → valid g [q])
    {rs : List (Rng α)} (h : Good n N rs) : Good n N (rs.map (mapCol (Sim.unaryAll n g))) :=
  good_mapCol h (fun _ => Sim.unaryAll n g) (fun _ v hl => unaryL_length g _ v hl)
    (fun _ v hl => unaryL_norm H g _ (fun q hq => hv q (List.mem_range.mp hq)) v hl)

theorem preAll_smul (b : Basis) (v : List α) (a : α) :
    Sim.preAll (P := P) n b (v.map (· * a)) = (Sim.preAll (P := P) n b v).map (· * a) := by
  cases b <;> simp [Sim.preAll, unaryAll_eq_unaryL, unaryL_smul]

theorem postAll_smul (b : Basis) (v : List α) (a : α) :
    Sim.postAll (P := P) n b (v.map (· * a)) = (Sim.postAll (P := P) n b v).map (· * a) := by
  cases b <;> simp [Sim.postAll, unaryAll_eq_unaryL, unaryL_smul]

theorem valid_all (H : Hyps α P nz n valid) :
    (∀ q, q < n → valid (.H : GateTerm P) [q]) ∧ (∀ q, q < n → valid (.S : GateTerm P) [q]) ∧
    (∀ q, q < n → valid (.Sdg : GateTerm P) [q]) :=
  ⟨fun q hq => (H.sem.basis q hq).1, fun q hq => (H.sem.basis q hq).2.1, fun q hq => (H.sem.basis q hq).2.2.1⟩

theorem postAll_length (b : Basis) (v : List α) (hv : v.length = 2 ^ n) :
    (Sim.postAll (P := P) n b v).length = 2 ^ n := by
  cases b
  · exact unaryL_length _ _ v hv
  · exact unaryL_length _ _ _ (unaryL_length _ _ v hv)
  · exact hv

theorem preAll_length (b : Basis) (v : List α) (hv : v.length = 2 ^ n) :
    (Sim.preAll (P := P) n b v).length = 2 ^ n := by
  cases b
  · exact unaryL_length _ _ v hv
  · exact unaryL_length _ _ _ (unaryL_length _ _ v hv)
  · exact hv

theorem postAll_norm (H : Hyps α P nz n valid) (b : Basis) (v : List α) (hv : v.length = 2 ^ n) :
    normSqSum (Sim.postAll (P := P) n b v) = normSqSum v := by
  obtain ⟨vH, vS, vSdg⟩ := valid_all H
  have r : ∀ {g : GateTerm P}, (∀ q, q < n → valid g [q]) → ∀ q ∈ List.range n, valid g [q] :=
    fun h q hq => h q (List.mem_range.mp hq)
  cases b
  · exact unaryL_norm H _ _ (r vH) v hv
  · show normSqSum (unaryL n .S (List.range n) (unaryL n .H (List.range n) v)) = _
    rw [unaryL_norm H _ _ (r vS) _ (unaryL_length _ _ v hv), unaryL_norm H _ _ (r vH) v hv]
  · rfl

theorem preAll_norm (H : Hyps α P nz n valid) (b : Basis) (v : List α) (hv : v.length = 2 ^ n) :
    normSqSum (Sim.preAll (P := P) n b v) = normSqSum v := by
  obtain ⟨vH, vS, vSdg⟩ := valid_all H
  have r : ∀ {g : GateTerm P}, (∀ q, q < n → valid g [q]) → ∀ q ∈ List.range n, valid g [q] :=
    fun h q hq => h q (List.mem_range.mp hq)
  cases b
  · exact unaryL_norm H _ _ (r vH) v hv
  · show normSqSum (unaryL n .H (List.range n) (unaryL n .Sdg (List.range n) v)) = _
    rw [unaryL_norm H _ _ (r vH) _ (unaryL_length _ _ v hv), unaryL_norm H _ _ (r vSdg) v hv]
  · rfl

variable {ord : List (Nat × Nat) → List (Nat × Nat)} (hord : ∀ l, (ord l).Perm l) (toR : α →+* R)
include hord

/-- **`measure_all` in any basis** -/
theorem measureAllB_step (H : Hyps α P nz n valid) {rs : List (Rng α)} (hgood : Good n N rs) {cbits : List Nat}
    (b : Basis) (hlen : cbits.length = n) (hnd : cbits.Nodup) (hlt : ∀ c ∈ cbits, c < 64)
    {K : VecState α × List Nat → R} {g : List α × Nat → R} (hK : Mult n N K g) (hg : Scales (P := P) toR g) :
    expectOrd ord toR (execOp (vecBackend (α := α) (P := P)) (mkState n N rs) (mkReg rs) (.measureAll cbits b)) K =
      value (stepGf (P := P) n (.measureAll cbits b) g) rs := by
  obtain ⟨vH, vS, vSdg⟩ := valid_all H
  -- the Z-basis step with an arbitrary multiplicative continuation, on the model's helper itself
  have hZ : ∀ {rs1 : List (Rng α)}, Good n N rs1 → ∀ {K1 : VecState α × List Nat → R} {g1 : List α × Nat → R},
      Mult n N K1 g1 → Scales (P := P) toR g1 →
      expectOrd ord toR (VecState.measureAllHelper (mkState n N rs1) cbits (mkReg rs1) true) K1 =
        value (stepGf (P := P) n (.measureAll cbits .Z) g1) rs1 := by
    intro rs1 hg1 K1 g1 hK1 hs1
    have := measureAll_step hord toR H hg1 hlen hnd hlt hK1 hs1
    simpa only [execOp, withBasisAll, vecBackend] using this
  -- the reference side: project all in the changed basis, change back
  have hspec : ∀ (sw : List α × Nat),
      stepGf (P := P) n (.measureAll cbits .Z) (fun sw => g (Sim.postAll (P := P) n b sw.1, sw.2))
        (Sim.preAll (P := P) n b sw.1, sw.2) = stepGf (P := P) n (.measureAll cbits b) g sw := by
    intro sw
    simp only [stepGf]
    congr 1
    apply List.map_congr_left
    intro idx _
    rw [Sim.measureAllTo_basis (P := P) b _ sw.1]
  have hscale : Scales (P := P) toR (fun sw => g (Sim.postAll (P := P) n b sw.1, sw.2)) := by
    intro v w a
    simp only [postAll_smul]
    exact hg _ _ _
  cases b with
  | Z => exact measureAll_step hord toR H hgood hlen hnd hlt hK hg
  | X =>
    simp only [execOp, withBasisAll, vecBackend, bind_eq', pure_eq']
    rw [applyUnaryAll_eq H vH hgood.toShape, bind_pure', expectOrd_bind]
    have hgood1 := good_unaryAll (N := N) H vH hgood
    rw [← mkReg_mapCol (fun _ => Sim.unaryAll (P := P) n .H) rs]
    have hK1 : Mult n N (fun sr : VecState α × List Nat => expectOrd ord toR
        ((VecState.applyUnaryAll sr.1 (GateTerm.H : GateTerm P)).bind fun s2 => .pure (s2, sr.2)) K)
        (fun sw => g (Sim.postAll (P := P) n .X sw.1, sw.2)) := by
      intro rs' hg'
      simp only [applyUnaryAll_eq H vH hg'.toShape, bind_pure', expectOrd_pure]
      have := hK _ (good_unaryAll H vH hg')
      rw [mkReg_mapCol (fun _ => Sim.unaryAll (P := P) n .H)] at this
      rw [this, value_mapGate]
      rfl
    rw [hZ hgood1 hK1 hscale, value_mapGate]
    apply value_congr
    intro r _
    exact hspec (r.2.1, r.2.2)
  | Y =>
    simp only [execOp, withBasisAll, vecBackend, bind_eq', pure_eq']
    rw [applyUnaryAll_eq H vSdg hgood.toShape, bind_pure']
    have hgood0 := good_unaryAll (N := N) H vSdg hgood
    rw [applyUnaryAll_eq H vH hgood0.toShape, bind_pure', expectOrd_bind]
    have hgood1 := good_unaryAll (N := N) H vH hgood0
    have hreg : mkReg rs = mkReg ((rs.map (mapCol (Sim.unaryAll (P := P) n .Sdg))).map
        (mapCol (Sim.unaryAll (P := P) n .H))) := by
      rw [mkReg_mapCol (fun _ => Sim.unaryAll (P := P) n .H), mkReg_mapCol (fun _ => Sim.unaryAll (P := P) n .Sdg)]
    rw [hreg]
    have hK1 : Mult n N (fun sr : VecState α × List Nat => expectOrd ord toR
        ((VecState.applyUnaryAll sr.1 (GateTerm.H : GateTerm P)).bind fun s2 =>
          (VecState.applyUnaryAll s2 (GateTerm.S : GateTerm P)).bind fun s3 => .pure (s3, sr.2)) K)
        (fun sw => g (Sim.postAll (P := P) n .Y sw.1, sw.2)) := by
      intro rs' hg'
      have h1 := good_unaryAll (N := N) H vH hg'
      simp only [applyUnaryAll_eq H vH hg'.toShape, bind_pure', applyUnaryAll_eq H vS h1.toShape, expectOrd_pure]
      have := hK _ (good_unaryAll H vS h1)
      rw [mkReg_mapCol (fun _ => Sim.unaryAll (P := P) n .S), mkReg_mapCol (fun _ => Sim.unaryAll (P := P) n .H)] at this
      rw [this, value_mapGate, value_mapGate]
      rfl
    rw [hZ hgood1 hK1 hscale, value_mapGate, value_mapGate]
    apply value_congr
    intro r _
    exact hspec (r.2.1, r.2.2)

end basis

end Q1t.Sim.SimGF

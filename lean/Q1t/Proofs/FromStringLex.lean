import Q1t.Model.FromString
import Q1t.Spec.FromString
import Q1t.Proofs.ExprValue
/-!
C15, part 2: the pieces of a rendered sub-gate description are read back by the helpers of
`Composite::from_string` — name, argument list (on C14's round trip), qubit indices.  (Core Lean only.)
-/
namespace Q1t.Proofs.FromString
open Q1t Q1t.FromString Q1t.Spec.FromString
open Q1t.Expr (isWs dropWs reLit FloatOps)
open Q1t.Spec.ExprGrammar (Cst Conv Stops isBlank evalConv Blank)
open Q1t.DecFloat (isDigit digitsToNat digitVal)
open Q1t.Proofs.Expr (interpOf parsed)

abbrev IsBlank (w : List Char) : Prop := Q1t.Proofs.Expr.Blank w

theorem isBlank_of_all {w : List Char} (h : allBlank w = true) : IsBlank w :=
  Q1t.Proofs.Expr.blank_of_all h

/-! ### generic scanning -/

/-- The text is empty or starts with a character outside the class. -/
def StopsAt (p : Char → Bool) (ys : List Char) : Prop := ∀ y t, ys = y :: t → p y = false

theorem stopsAt_nil (p : Char → Bool) : StopsAt p [] := fun _ _ h => by simp at h

theorem stopsAt_cons {p : Char → Bool} {c : Char} {t : List Char} (h : p c = false) : StopsAt p (c :: t) :=
  fun y t' e => by simp only [List.cons.injEq] at e; rw [← e.1]; exact h

theorem takeWhile_append_stop {p : Char → Bool} {xs ys : List Char} (hx : ∀ x ∈ xs, p x = true)
    (hy : StopsAt p ys) : (xs ++ ys).takeWhile p = xs := by
  induction xs with
  | nil =>
    cases ys with
    | nil => rfl
    | cons y t => simp [hy y t rfl]
  | cons x t ih =>
    simp only [List.cons_append, List.takeWhile_cons, hx x (List.mem_cons_self ..), if_true]
    rw [ih (fun y hy' => hx y (List.mem_cons_of_mem _ hy'))]

theorem dropWhile_append_stop {p : Char → Bool} {xs ys : List Char} (hx : ∀ x ∈ xs, p x = true)
    (hy : StopsAt p ys) : (xs ++ ys).dropWhile p = ys := by
  induction xs with
  | nil =>
    cases ys with
    | nil => rfl
    | cons y t => simp [hy y t rfl]
  | cons x t ih =>
    simp only [List.cons_append, List.dropWhile_cons, hx x (List.mem_cons_self ..), if_true]
    exact ih (fun y hy' => hx y (List.mem_cons_of_mem _ hy'))

theorem dropWs_blank_stop {w s : List Char} (hw : IsBlank w) (hs : StopsAt isWs s) : dropWs (w ++ s) = s := by
  unfold dropWs; exact dropWhile_append_stop hw hs

theorem takeWhile_ws_blank_stop {w s : List Char} (hw : IsBlank w) (hs : StopsAt isWs s) :
    (w ++ s).takeWhile isWs = w := takeWhile_append_stop hw hs

/-- The 25 white space characters. -/
def wsCodes : List Nat := [9, 10, 11, 12, 13, 0x20, 0x85, 0xA0, 0x1680, 0x2000, 0x2001, 0x2002, 0x2003, 0x2004, 0x2005,
  0x2006, 0x2007, 0x2008, 0x2009, 0x200A, 0x2028, 0x2029, 0x202F, 0x205F, 0x3000]

theorem isWs_codes {c : Char} (h : isWs c = true) : c.toNat ∈ wsCodes := by
  simp only [isWs, Bool.or_eq_true, Bool.and_eq_true, decide_eq_true_eq, beq_iff_eq] at h
  simp only [wsCodes, List.mem_cons, List.not_mem_nil, or_false]
  omega

theorem not_ws_of_code {c : Char} (h : c.toNat ∉ wsCodes) : isWs c = false := by
  cases hc : isWs c with
  | false => rfl
  | true => exact absurd (isWs_codes hc) h

/-! ### what the theorems need of the regenerated tables -/

/-- Facts about the `\d` table and the case-folding table: ASCII digits are `\d`; white space is neither `\d` nor
a name character; `(` is not a name character. -/
structure TabOK (T : Tables) : Prop where
  decDigit : ∀ n, 48 ≤ n → n ≤ 57 → inRanges T.decimal n = true
  decWs : ∀ n ∈ wsCodes, inRanges T.decimal n = false
  decSym : ∀ n ∈ [40, 41, 44, 59], inRanges T.decimal n = false
  foldWs : ∀ n ∈ wsCodes, T.foldExtras.contains n = false
  foldSym : ∀ n ∈ [40, 41, 44, 59], T.foldExtras.contains n = false

theorem isDec_digit {T : Tables} (h : TabOK T) {c : Char} (hc : isDigit c = true) : isDec T c = true := by
  simp only [isDigit, Bool.and_eq_true, decide_eq_true_eq] at hc
  exact h.decDigit _ hc.1 hc.2

theorem isDec_ws {T : Tables} (h : TabOK T) {c : Char} (hc : isWs c = true) : isDec T c = false :=
  h.decWs _ (isWs_codes hc)

theorem nameChar_ws {T : Tables} (h : TabOK T) {c : Char} (hc : isWs c = true) : isNameChar T c = false := by
  have hm := isWs_codes hc
  have hf := h.foldWs _ hm
  simp only [isNameChar, isNameStart, isAsciiLetter, isDigit, hf, Bool.or_false, Bool.or_eq_false_iff,
    Bool.and_eq_false_iff, decide_eq_false_iff_not]
  simp only [wsCodes, List.mem_cons, List.not_mem_nil, or_false] at hm
  omega

theorem nameChar_sym {T : Tables} (h : TabOK T) {c : Char} (hc : c.toNat ∈ [40, 41, 44, 59]) :
    isNameChar T c = false := by
  have hf := h.foldSym _ hc
  simp only [isNameChar, isNameStart, isAsciiLetter, isDigit, hf, Bool.or_false, Bool.or_eq_false_iff,
    Bool.and_eq_false_iff, decide_eq_false_iff_not]
  simp only [List.mem_cons, List.not_mem_nil, or_false] at hc
  omega

/-! ### the name -/

theorem letter_not_ws {c : Char} (h : isLetter c = true) : isWs c = false := by
  apply not_ws_of_code
  simp only [isLetter, Bool.or_eq_true, Bool.and_eq_true, decide_eq_true_eq] at h
  simp only [wsCodes, List.mem_cons, List.not_mem_nil, or_false]
  omega

theorem nameStart_of_letter (T : Tables) {c : Char} (h : isLetter c = true) : isNameStart T c = true := by
  simp only [isLetter] at h
  simp [isNameStart, isAsciiLetter, h]

theorem nameChar_of_alnum (T : Tables) {c : Char} (h : isAlnum c = true) : isNameChar T c = true := by
  simp only [isAlnum, isLetter, Bool.or_eq_true] at h
  simp only [isNameChar, isNameStart, isAsciiLetter, isDigit, Bool.or_eq_true]
  rcases h with h | h
  · exact .inl (.inl h)
  · exact .inr h

/-- `parse_gate_name` on `blanks name tail`, where `tail` cannot continue the name. -/
theorem parseGateName_render (T : Tables) {w name tail : List Char} (hw : IsBlank w) (hn : isIdent name = true)
    (ht : StopsAt (isNameChar T) tail) : parseGateName T (w ++ (name ++ tail)) = .ok (name, tail) := by
  cases name with
  | nil => simp [isIdent] at hn
  | cons c t =>
    simp only [isIdent, Bool.and_eq_true, List.all_eq_true] at hn
    have hd : dropWs (w ++ (c :: t ++ tail)) = c :: (t ++ tail) :=
      dropWs_blank_stop hw (stopsAt_cons (letter_not_ws hn.1))
    unfold parseGateName
    rw [hd]
    simp only [nameStart_of_letter T hn.1, if_true]
    rw [takeWhile_append_stop (fun x hx => nameChar_of_alnum T (hn.2 x hx)) ht,
      dropWhile_append_stop (fun x hx => nameChar_of_alnum T (hn.2 x hx)) ht]

/-! ### decimal digits -/

theorem digitsToNat_append (xs : List Char) (d : Char) :
    digitsToNat (xs ++ [d]) = digitsToNat xs * 10 + digitVal d := by
  simp [digitsToNat, List.foldl_append]

theorem digitVal_digitChar {k : Nat} (h : k < 10) : digitVal (Nat.digitChar k) = k := by
  have : k = 0 ∨ k = 1 ∨ k = 2 ∨ k = 3 ∨ k = 4 ∨ k = 5 ∨ k = 6 ∨ k = 7 ∨ k = 8 ∨ k = 9 := by omega
  rcases this with h | h | h | h | h | h | h | h | h | h <;> subst h <;> rfl

theorem digitsToNat_toDigits : ∀ (n : Nat), digitsToNat (Nat.toDigits 10 n) = n := by
  intro n
  induction n using Nat.strongRecOn with
  | _ n ih =>
    rw [Nat.toDigits_eq_if (by omega)]
    split
    · rename_i h; simp [digitsToNat, digitVal_digitChar h]
    · rename_i h
      rw [digitsToNat_append, ih (n / 10) (by omega), digitVal_digitChar (Nat.mod_lt n (by omega))]
      omega

theorem digitsToNat_zeros (z : Nat) (ds : List Char) :
    digitsToNat (List.replicate z '0' ++ ds) = digitsToNat ds := by
  induction z with
  | zero => rfl
  | succ k ih =>
    simp only [List.replicate_succ, List.cons_append]
    unfold digitsToNat at *
    simp only [List.foldl_cons]
    have : 0 * 10 + digitVal '0' = 0 := by decide
    rw [this]; exact ih

theorem isDigit_of_core {c : Char} (h : c.isDigit = true) : isDigit c = true := by
  simp only [Char.isDigit, Bool.and_eq_true, decide_eq_true_eq] at h
  simp only [isDigit, Bool.and_eq_true, decide_eq_true_eq]
  have h1 := h.1; have h2 := h.2
  simp only [UInt32.le_iff_toNat_le] at h1 h2
  exact ⟨h1, h2⟩

/-- The digits a qubit index is written with. -/
def bitDigits (b : BitL) : List Char := List.replicate b.zeros '0' ++ Nat.toDigits 10 b.val

theorem bitDigits_digit (b : BitL) : ∀ c ∈ bitDigits b, isDigit c = true := by
  intro c hc
  simp only [bitDigits, List.mem_append, List.mem_replicate] at hc
  rcases hc with ⟨_, rfl⟩ | hc
  · rfl
  · exact isDigit_of_core (Nat.isDigit_of_mem_toDigits (by omega) (by omega) hc)

theorem bitDigits_ne_nil (b : BitL) : bitDigits b ≠ [] := by
  unfold bitDigits
  intro h
  have h2 := (List.append_eq_nil_iff.mp h).2
  rw [Nat.toDigits_eq_if (by omega)] at h2
  split at h2 <;> simp at h2

theorem bitDigits_val (b : BitL) : digitsToNat (bitDigits b) = b.val := by
  unfold bitDigits; rw [digitsToNat_zeros, digitsToNat_toDigits]

theorem renderBit_eq (b : BitL) : renderBit b = b.w ++ bitDigits b := rfl

/-! ### the qubit indices -/

/-- The text after the last index: no further index ahead. -/
def NoIndexAhead (T : Tables) (tail : List Char) : Prop :=
  StopsAt (isDec T) tail ∧ ((dropWs tail).takeWhile (isDec T)).isEmpty = true

theorem noIndexAhead_blank {T : Tables} (h : TabOK T) {w : List Char} (hw : IsBlank w) : NoIndexAhead T w := by
  constructor
  · intro y t e; exact isDec_ws h (hw y (by simp [e]))
  · have : dropWs w = [] := by
      have := dropWs_blank_stop (s := []) hw (stopsAt_nil _)
      simpa using this
    simp [this]

theorem digit_not_ws {c : Char} (h : isDigit c = true) : isWs c = false := Q1t.Proofs.Expr.isDigit_not_ws h

/-- One pass of the index loop over `blanks digits`. -/
theorem bitsLoop_step {T : Tables} (hT : TabOK T) (n : Nat) (acc : List Nat) (b : BitL) (rest : List Char)
    (hw : IsBlank b.w) (hv : b.val < 2 ^ 64) (hr : StopsAt (isDec T) rest) :
    bitsLoop T (n + 1) acc (renderBit b ++ rest) = bitsLoop T n (acc ++ [b.val]) rest := by
  have hne := bitDigits_ne_nil b
  have hdig := bitDigits_digit b
  have hd : dropWs (renderBit b ++ rest) = bitDigits b ++ rest := by
    rw [renderBit_eq, List.append_assoc]
    apply dropWs_blank_stop hw
    cases hb : bitDigits b with
    | nil => exact absurd hb hne
    | cons c t => exact stopsAt_cons (digit_not_ws (hdig c (by simp [hb])))
  have htw : (bitDigits b ++ rest).takeWhile (isDec T) = bitDigits b :=
    takeWhile_append_stop (fun x hx => isDec_digit hT (hdig x hx)) hr
  have hdw : (bitDigits b ++ rest).dropWhile (isDec T) = rest :=
    dropWhile_append_stop (fun x hx => isDec_digit hT (hdig x hx)) hr
  rw [bitsLoop]
  simp only [hd, htw, hdw]
  have h1 : (bitDigits b).isEmpty = false := by
    cases hb : bitDigits b with
    | nil => exact absurd hb hne
    | cons c t => rfl
  have h2 : (bitDigits b).all isDigit = true := List.all_eq_true.mpr hdig
  simp [h1, h2, bitDigits_val, hv]

/-- Layout of a list of indices: blanks are white space, every index but the first is preceded by at least one. -/
def BitsWF (bits : List BitL) : Prop :=
  (∀ b ∈ bits, IsBlank b.w) ∧ ∀ b ∈ bits.tail, b.w ≠ []

theorem stopsAt_renderBits {T : Tables} (hT : TabOK T) {b : BitL} {more : List BitL} {tail : List Char}
    (hb : IsBlank b.w) (hne : b.w ≠ []) : StopsAt (isDec T) (renderBits (b :: more) ++ tail) := by
  cases hw : b.w with
  | nil => exact absurd hw hne
  | cons c t =>
    have : renderBits (b :: more) ++ tail = c :: (t ++ (bitDigits b ++ (renderBits more ++ tail))) := by
      simp [renderBits, renderBit_eq, hw]
    rw [this]
    exact stopsAt_cons (isDec_ws hT (hb c (by simp [hw])))

/-- The index loop over rendered indices: all of them are read, the tail is handed back. -/
theorem bitsLoop_render {T : Tables} (hT : TabOK T) : ∀ (bits : List BitL) (n : Nat) (acc : List Nat)
    (tail : List Char), BitsWF bits → (∀ b ∈ bits, b.val < 2 ^ 64) → NoIndexAhead T tail →
    bits.length < n →
    bitsLoop T n acc (renderBits bits ++ tail) = .ok (acc ++ bits.map (·.val), tail)
  | [], n, acc, tail, _, _, ht, hn => by
    cases n with
    | zero => omega
    | succ k =>
      simp only [renderBits, List.nil_append, List.map_nil, List.append_nil]
      rw [bitsLoop]
      simp [ht.2]
  | b :: more, n, acc, tail, hwf, hv, ht, hn => by
    cases n with
    | zero => simp at hn
    | succ k =>
      have hrest : StopsAt (isDec T) (renderBits more ++ tail) := by
        cases more with
        | nil => simpa [renderBits] using ht.1
        | cons b' more' =>
          exact stopsAt_renderBits hT (hwf.1 b' (by simp)) (hwf.2 b' (by simp))
      have : renderBits (b :: more) ++ tail = renderBit b ++ (renderBits more ++ tail) := by
        simp [renderBits]
      rw [this, bitsLoop_step hT k acc b _ (hwf.1 b (by simp)) (hv b (by simp)) hrest]
      have hwf' : BitsWF more := by
        refine ⟨fun x hx => hwf.1 x (List.mem_cons_of_mem _ hx), fun x hx => ?_⟩
        exact hwf.2 x (by
          simp only [List.tail_cons]
          exact List.mem_of_mem_tail hx)
      rw [bitsLoop_render hT more k (acc ++ [b.val]) tail hwf' (fun x hx => hv x (List.mem_cons_of_mem _ hx)) ht
        (by simp at hn; omega)]
      simp

/-! ### the argument list -/

/-- What an argument must satisfy for the round trip of C14. -/
def ArgGood (a : ArgL) : Prop :=
  a.c.WF = true ∧ Conv a.c = true ∧ a.c.bigInt = false ∧ IsBlank a.wAfter

theorem stops_blank_sym {w t : List Char} {c : Char} (hw : IsBlank w) (hc : c = ',' ∨ c = ')') :
    Stops (w ++ c :: t) = true := by
  have hcws : isWs c = false := by rcases hc with rfl | rfl <;> decide
  have hdrop : (w ++ c :: t).dropWhile isBlank = c :: t := by
    rw [Q1t.Proofs.Expr.isBlank_eq]
    exact dropWhile_append_stop hw (stopsAt_cons hcws)
  cases w with
  | nil =>
    simp only [List.nil_append] at hdrop ⊢
    unfold Stops
    simp only [hdrop]
    rcases hc with rfl | rfl <;> decide
  | cons b w' =>
    have hb : isWs b = true := hw b (by simp)
    have hnd : isDigit b = false := by
      cases h : isDigit b with
      | false => rfl
      | true => rw [digit_not_ws h] at hb; exact absurd hb (by simp)
    have hne : ∀ d : Char, isWs d = false → (b == d) = false := by
      intro d hd
      cases h : b == d with
      | false => rfl
      | true => rw [beq_iff_eq.mp h, hd] at hb; exact absurd hb (by simp)
    unfold Stops
    simp only [List.cons_append] at hdrop ⊢
    simp only [hdrop, hnd, hne '.' (by decide), hne 'e' (by decide), hne 'E' (by decide)]
    rcases hc with rfl | rfl <;> decide

/-- `Expression::parse` + `eval` on a rendered argument followed by text that stops it. -/
theorem parseArg_render {F : Type} (I : FloatOps F) (hneg : ∀ x, I.neg (I.neg x) = x) {a : ArgL}
    (ha : ArgGood a) (m rest : List Char) (hr : Stops rest = true) :
    parseArg I m (a.c.flatten ++ rest) = .ok (evalConv (interpOf I) a.c.toAst, rest) := by
  unfold parseArg
  rw [Q1t.Proofs.Expr.parse_flatten a.c ha.1 ha.2.1 ha.2.2.1 rest hr]
  simp only [Q1t.Proofs.Expr.eval_parsed I hneg a.c]

/-- Text after an argument whose trailing blanks are `w`: the other arguments, the closing parenthesis, `tail`. -/
def restAfter (w : List Char) : List ArgL → List Char → List Char
  | [], tail => w ++ ')' :: tail
  | a :: more, tail => w ++ ',' :: (a.c.flatten ++ restAfter a.wAfter more tail)

theorem renderArgs_cons (a : ArgL) (more : List ArgL) (tail : List Char) :
    renderArgs (a :: more) ++ tail = a.c.flatten ++ restAfter a.wAfter more tail := by
  induction more generalizing a with
  | nil => simp [renderArgs, restAfter]
  | cons b more ih =>
    simp only [renderArgs, restAfter, List.append_assoc, List.cons_append]
    rw [← ih b]

theorem stops_restAfter {w : List Char} (hw : IsBlank w) (more : List ArgL) (tail : List Char) :
    Stops (restAfter w more tail) = true := by
  cases more with
  | nil => exact stops_blank_sym hw (.inr rfl)
  | cons a more => exact stops_blank_sym hw (.inl rfl)

theorem reLit_blank {w t : List Char} {c : Char} (hw : IsBlank w) (hc : isWs c = false) :
    reLit [c] (w ++ c :: t) = some t := Q1t.Proofs.Expr.reLit_hit hw hc

theorem reLit_blank_ne {w t : List Char} {c d : Char} (hw : IsBlank w) (hd : isWs d = false) (hne : d ≠ c) :
    reLit [c] (w ++ d :: t) = none := by
  apply Q1t.Proofs.Expr.reLit_miss
  rw [Q1t.Proofs.Expr.headNB_blank_cons hw hd]
  intro h; exact hne (Option.some.inj h)

theorem length_le_restAfter (w : List Char) (more : List ArgL) (tail : List Char) :
    more.length ≤ (restAfter w more tail).length := by
  induction more generalizing w with
  | nil => simp
  | cons b more ih =>
    have := ih b.wAfter
    simp only [restAfter, List.length_append, List.length_cons] at this ⊢
    omega

/-- The separator loop over the remaining arguments. -/
theorem argsLoop_render {F : Type} (I : FloatOps F) (hneg : ∀ x, I.neg (I.neg x) = x) :
    ∀ (more : List ArgL) (w : List Char) (n : Nat) (acc : List F) (tail : List Char), IsBlank w →
    (∀ a ∈ more, ArgGood a) → more.length < n →
    ∃ w', IsBlank w' ∧ argsLoop I n acc (restAfter w more tail) =
      .ok (acc ++ more.map (fun a => evalConv (interpOf I) a.c.toAst), w' ++ ')' :: tail)
  | [], w, n, acc, tail, hw, _, hn => by
    cases n with
    | zero => omega
    | succ k =>
      refine ⟨w, hw, ?_⟩
      simp only [restAfter, List.map_nil, List.append_nil]
      rw [argsLoop, reLit_blank_ne hw (by decide) (by decide)]
  | a :: more, w, n, acc, tail, hw, hg, hn => by
    cases n with
    | zero => simp at hn
    | succ k =>
      have ha := hg a (by simp)
      obtain ⟨w', hw', h⟩ := argsLoop_render I hneg more a.wAfter k
        (acc ++ [evalConv (interpOf I) a.c.toAst]) tail ha.2.2.2
        (fun x hx => hg x (List.mem_cons_of_mem _ hx)) (by simp at hn; omega)
      refine ⟨w', hw', ?_⟩
      simp only [restAfter]
      rw [argsLoop, reLit_blank hw (by decide)]
      simp only
      rw [parseArg_render I hneg ha _ _ (stops_restAfter ha.2.2.2 more tail)]
      simp only [h, List.map_cons, List.append_assoc, List.singleton_append]

/-- `parse_gate_args` on a rendered argument list. -/
theorem parseGateArgs_render {F : Type} (I : FloatOps F) (hneg : ∀ x, I.neg (I.neg x) = x)
    {wOpen : List Char} (hw : IsBlank wOpen) (a : ArgL) (more : List ArgL) (hg : ∀ x ∈ a :: more, ArgGood x)
    (tail : List Char) :
    parseGateArgs I (wOpen ++ '(' :: (renderArgs (a :: more) ++ tail)) =
      .ok ((a :: more).map (fun a => evalConv (interpOf I) a.c.toAst), tail) := by
  have ha := hg a (by simp)
  unfold parseGateArgs
  rw [reLit_blank hw (by decide)]
  simp only
  rw [renderArgs_cons, parseArg_render I hneg ha _ _ (stops_restAfter ha.2.2.2 more tail)]
  simp only
  obtain ⟨w', hw', h⟩ := argsLoop_render I hneg more a.wAfter ((restAfter a.wAfter more tail).length + 1)
    [evalConv (interpOf I) a.c.toAst] tail ha.2.2.2 (fun x hx => hg x (List.mem_cons_of_mem _ hx)) (by
      have := length_le_restAfter a.wAfter more tail
      omega)
  rw [h]
  simp only [reLit_blank hw' (show isWs ')' = false by decide)]
  simp

/-- `parse_gate_args` when there is no argument list: the text does not start (after blanks) with `(`. -/
theorem parseGateArgs_none {F : Type} (I : FloatOps F) {s : List Char}
    (h : Q1t.Proofs.Expr.headNB s ≠ some '(') : parseGateArgs I s = .ok ([], s) := by
  unfold parseGateArgs
  rw [Q1t.Proofs.Expr.reLit_miss h]

end Q1t.Proofs.FromString

import Q1t.Proofs.CQasmTextGates
set_option linter.unusedSimpArgs false
set_option linter.unusedSectionVars false
set_option linter.unusedVariables false
/-!
C12 (text link), part 4: the exporter's recursion over gate terms with denotations — `c_qasm` (library gates,
bundles, composites, loops) and `conditional_c_qasm` (every line prefixed; one-line leaves).
-/
namespace Q1t.Proofs.CQasm
open Q1t Q1t.Spec Q1t.CQ Q1t.Gen Q1t.Proofs.Route

variable {F α P : Type} [CommRing α] [Amp α P]

theorem gateLines_append (a b : List (List Nat × LMat α)) : gateLines (a ++ b) = gateLines a ++ gateLines b := by
  simp [gateLines]

theorem gateLines_repeat (L : List (List Nat × LMat α)) : ∀ k, gateLines (repeatLines L k) = repeatD (gateLines L) k
  | 0 => rfl
  | k + 1 => by simp [repeatLines, repeatD, gateLines_append, gateLines_repeat L k]

theorem condLines_append (control : List Nat) (a b : List (List Nat × LMat α)) :
    condLines control (a ++ b) = condLines control a ++ condLines control b := by
  simp [condLines]

theorem condLines_repeat (control : List Nat) (L : List (List Nat × LMat α)) :
    ∀ k, condLines control (repeatLines L k) = repeatD (condLines control L) k
  | 0 => rfl
  | k + 1 => by simp [repeatLines, repeatD, condLines_append, condLines_repeat control L k]

section
variable (N : Num F) (S : CQ1.NumSem α P) (val : F → P) (nq : Nat) (nz : List α → Bool)

/-- the lines of a library gate as a plain text -/
theorem lib_plain (RB : ReadsBack (α := α) N S val) (name : String) (ps : List (Param F)) (bits : List Nat)
    (hs : libSound name ps = true) (hl : bits.length = libBits name) (hn : bits.Nodup) (hb : ∀ b ∈ bits, b < nq)
    (t : Text) (h : libCQasm cqGates N (qNames nq) name ps bits = .ok t)
    (L : List (List Nat × LMat α))
    (hL : gateLinesN (α := α) (mapGate val (.lib name ps)) bits = some L) :
    PlainDen S nq nz t (gateLines L) := by
  simp only [mapGate, gateLinesN, mapParam_value] at hL
  cases happs : exactDenot (α := α) name (ps.map fun p => val p.value) with
  | none => rw [happs] at hL; cases hL
  | some apps =>
    rw [happs] at hL
    simp only [Option.map_some, Option.some.injEq] at hL
    subst hL
    obtain ⟨g, lines, _, _, rfl, hf⟩ := lib_den N S val RB nq nz name ps bits hs hl hn hb t h apps happs
    have : ∀ (ls : List Text) (as : List (List Nat × LMat α)), List.Forall₂ (LineFacts S nq nz bits) ls as →
        ∃ Ds, List.Forall₂ (PlainDen S nq nz) ls Ds ∧ Ds.flatten = gateLines (placeApps bits as) := by
      intro ls as hf
      induction hf with
      | nil => exact ⟨[], List.Forall₂.nil, rfl⟩
      | @cons l a ls as hla _ ih =>
        obtain ⟨Ds, f, e⟩ := ih
        exact ⟨[.gate [] (relabel bits a.1) a.2] :: Ds,
          List.Forall₂.cons (plainDen_single S nq nz l _ hla.clean hla.plain) f, by simp [e, gateLines, placeApps]⟩
    obtain ⟨Ds, f, e⟩ := this lines apps hf
    rw [← e]
    exact plainDen_intercalate S nq nz lines Ds f

/-- a part of a bundle: ONE printed instruction with its meaning -/
theorem part_den (RB : ReadsBack (α := α) N S val) (g : XGate F) (bits : List Nat) (hs : partSound g = true)
    (hl : bits.length = nrBits g) (hn : bits.Nodup) (hb : ∀ b ∈ bits, b < nq) (t : Text)
    (h : cQasm cqGates N (qNames nq) g bits = .ok t) (L : List (List Nat × LMat α))
    (hL : gateLinesN (α := α) (mapGate val g) bits = some L) :
    GoodPrinted nq bits t ∧ ∃ i, CQ1.parseInstr t = .ok i ∧ InstrDen S nq nz i (gateLines L) := by
  cases g with
  | lib name ps =>
    simp only [partSound, Bool.and_eq_true] at hs
    simp only [cQasm] at h
    simp only [mapGate, gateLinesN, mapParam_value] at hL
    cases happs : exactDenot (α := α) name (ps.map fun p => val p.value) with
    | none => rw [happs] at hL; cases hL
    | some apps =>
      rw [happs] at hL
      simp only [Option.map_some, Option.some.injEq] at hL
      subst hL
      obtain ⟨g, lines, hfd, hlen, rfl, hf⟩ := lib_den N S val RB nq nz name ps bits hs.1 hl hn hb t h apps happs
      have hsing : (slinesOf g).length = 1 := by
        have := hs.2; simp only [libSingle, hfd, singleLine, beq_iff_eq] at this; exact this
      rw [hsing] at hlen
      cases hf with
      | nil => simp at hlen
      | @cons l a ls as hla hrest =>
        cases hrest with
        | cons _ _ => simp at hlen
        | nil =>
          simp only [intercalate]
          obtain ⟨i, hi, hd⟩ := hla.instr
          exact ⟨hla.printed, i, hi, by simpa [gateLines, placeApps] using hd⟩
  | ctl _ => simp [partSound] at hs
  | kron _ _ => simp [partSound] at hs
  | comp _ _ _ => simp [partSound] at hs
  | loop _ _ _ _ _ => simp [partSound] at hs

/-- two printed instructions on disjoint parts of a placement: a bundle statement with the meaning of both -/
theorem bundle_den (bits0 bits1 : List Nat) (hb0 : ∀ b ∈ bits0, b < nq) (hb1 : ∀ b ∈ bits1, b < nq)
    (hdis : ∀ b ∈ bits0, b ∉ bits1) (a b : Text) (ha : GoodPrinted nq bits0 a) (hbp : GoodPrinted nq bits1 b)
    (ia ib : CQ1.Instr) (Da Db : List (DStmt α)) (hia : CQ1.parseInstr a = .ok ia) (hib : CQ1.parseInstr b = .ok ib)
    (hda : InstrDen S nq nz ia Da) (hdb : InstrDen S nq nz ib Db) :
    PlainDen S nq nz (fillFormat (cqKronPieces.map String.toList) [a, b]) (Da ++ Db) := by
  have hp : cqKronPieces.map String.toList = ["{ ".toList, " | ".toList, " }".toList] := by decide
  have e : fillFormat (cqKronPieces.map String.toList) [a, b] = "{ ".toList ++ a ++ " | ".toList ++ b ++ " }".toList := by
    simp [hp, fillFormat, List.append_assoc]
  rw [e]
  obtain ⟨ia', hpa, hwa, hna, hqa, hdna⟩ := goodPrinted_instr a ha hb0
  obtain ⟨ib', hpb, hwb, hnb, hqb, hdnb⟩ := goodPrinted_instr b hbp hb1
  have ea : ia' = ia := by rw [hpa] at hia; injection hia
  have eb : ib' = ib := by rw [hpb] at hib; injection hib
  subst ea; subst eb
  obtain ⟨na, oa, _, _, rfl, a1, _, _, _, a5, _⟩ := ha.ex
  obtain ⟨nb, ob, _, _, rfl, b1, _, _, _, b5, _⟩ := hbp.ex
  obtain ⟨x1, x2, x3, x4⟩ := printInstr_trim_chars na oa a1 a5
  obtain ⟨y1, y2, y3, y4⟩ := printInstr_trim_chars nb ob b1 b5
  have hhead : ∀ (nm : Text) (os : List Text), word nm = true → (∀ t ∈ os, word t = true) →
      (∀ c, (printInstr nm os).head? = some c → CQ1.isBlank c = false) ∧
      (∀ c, (printInstr nm os).getLast? = some c → CQ1.isBlank c = false) := by
    intro nm os hnm hos
    have ht := trim_printInstr nm os hnm hos
    constructor
    · intro c hc
      rw [printInstr_head nm os hnm] at hc
      exact word_head hnm c hc
    · intro c hc
      unfold printInstr at hc
      split at hc
      · exact word_last hnm c hc
      · rename_i hne
        have hne' : os ≠ [] := by intro e; simp [e] at hne
        have hi : intercalate ", ".toList os ≠ [] := by
          cases os with
          | nil => exact absurd rfl hne'
          | cons o os' =>
            have := word_ne_nil (hos o (by simp))
            cases os' with
            | nil => simpa [intercalate] using this
            | cons _ _ =>
              cases o with
              | nil => exact absurd rfl this
              | cons _ _ => simp [intercalate]
        have e2 : nm ++ ' ' :: intercalate ", ".toList os = (nm ++ [' ']) ++ intercalate ", ".toList os := by simp
        rw [e2, getLast?_append_ne _ _ hi] at hc
        exact intercalate_word_last os hne' hos c hc
  have hA := hhead na oa a1 a5
  have hB := hhead nb ob b1 b5
  have hparse := parseStmt_bundle _ _ ia' ib' hpa hpb x4 y4 hA.1 hA.2 hB.1 hB.2 x1 y1
  apply plainDen_single S nq nz
  · refine ⟨by simp, ?_, ?_⟩
    · apply trim_id
      · intro c hc; simp at hc; subst hc; decide
      · intro c hc
        have e3 : "{ ".toList ++ printInstr na oa ++ " | ".toList ++ printInstr nb ob ++ " }".toList =
            ("{ ".toList ++ printInstr na oa ++ " | ".toList ++ printInstr nb ob ++ [' ']) ++ ['}'] := by simp
        rw [e3, List.getLast?_concat] at hc; injection hc with hc; subst hc; decide
    · intro c hc
      simp only [List.mem_append] at hc
      rcases hc with (((hc | hc) | hc) | hc) | hc
      · revert hc; revert c; decide
      · exact x3 c hc
      · revert hc; revert c; decide
      · exact y3 c hc
      · revert hc; revert c; decide
  · refine ⟨by simp, _, hparse, ?_, stmtDen_bundle S nq nz ia' ib' Da Db hda hdb⟩
    simp only [CQ1.stmtWf, CQ1.firstSome, hwa, hwb]
    have hnd : (ia'.qubits nq ++ ib'.qubits nq).Nodup := by
      rw [List.nodup_append]
      refine ⟨hdna, hdnb, ?_⟩
      intro x hx y hy e
      subst e
      exact hdis x (hqa x hx) (hqb x hy)
    simp [hasDup_false_of_nodup _ hnd]

theorem gateLines_flatten (Ls : List (List (List Nat × LMat α))) :
    (Ls.map gateLines).flatten = gateLines Ls.flatten := by
  induction Ls with
  | nil => rfl
  | cons l ls ih => simp [gateLines_append, ih]

/-- what is shown of a text `t` with the value-level lines `l` -/
def TermDen (inLoop : Bool) (t : Text) (l : List (List Nat × LMat α)) : Prop :=
  TextDen S nq nz t (gateLines l) ∧ (inLoop = true → PlainDen S nq nz t (gateLines l))

theorem termDen_intercalate (inLoop : Bool) (ts : List Text) (Ls : List (List (List Nat × LMat α)))
    (h : List.Forall₂ (TermDen S nq nz inLoop) ts Ls) : TermDen S nq nz inLoop (intercalate ['\n'] ts) Ls.flatten := by
  constructor
  · rw [← gateLines_flatten]
    apply textDen_intercalate
    rw [List.forall₂_map_right_iff]
    exact List.Forall₂.imp (fun _ _ h => h.1) h
  · intro hin
    rw [← gateLines_flatten]
    apply plainDen_intercalate
    rw [List.forall₂_map_right_iff]
    exact List.Forall₂.imp (fun _ _ h => h.2 hin) h

mutual
/-- **`c_qasm` of a gate term with its meaning** -/
theorem cQasm_den (RB : ReadsBack (α := α) N S val) : (g : XGate F) → (inLoop : Bool) →
    termOK inLoop (mapGate val g) = true → gateSound false g = true → (bits : List Nat) →
    bits.length = nrBits g → bits.Nodup → (∀ b ∈ bits, b < nq) → (t : Text) →
    cQasm cqGates N (qNames nq) g bits = .ok t → (L : List (List Nat × LMat α)) →
    gateLinesN (α := α) (mapGate val g) bits = some L → TermDen S nq nz inLoop t L
  | .lib name ps, inLoop, hok, hs, bits, hl, hn, hb, t, h, L, hL => by
    simp only [gateSound] at hs
    simp only [cQasm] at h
    have := lib_plain N S val nq nz RB name ps bits hs hl hn hb t h L hL
    exact ⟨textDen_of_plain S nq nz _ _ this, fun _ => this⟩
  | .ctl _, _, _, _, _, _, _, _, _, h, _, _ => by simp [cQasm] at h
  | .kron g0 g1, inLoop, hok, hs, bits, hl, hn, hb, t, h, L, hL => by
    simp only [gateSound, Bool.false_eq_true, if_false, Bool.and_eq_true] at hs
    simp only [cQasm] at h
    simp only [nrBits] at hl
    have hlt : ¬ bits.length < nrBits g0 := by omega
    simp only [hlt, if_false] at h
    obtain ⟨op0, h0, h⟩ := res_bind_ok _ _ _ h
    obtain ⟨op1, h1, h⟩ := res_bind_ok _ _ _ h
    injection h with h
    subst h
    simp only [mapGate, gateLinesN, nrBits_mapGate] at hL
    cases hL0 : gateLinesN (α := α) (mapGate val g0) (bits.take (nrBits g0)) with
    | none => rw [hL0] at hL; simp at hL
    | some l0 =>
      cases hL1 : gateLinesN (α := α) (mapGate val g1) (bits.drop (nrBits g0)) with
      | none => rw [hL0, hL1] at hL; simp at hL
      | some l1 =>
        rw [hL0, hL1] at hL
        simp only [Option.some.injEq] at hL
        subst hL
        have hb0 : ∀ b ∈ bits.take (nrBits g0), b < nq := fun b hbm => hb b (List.mem_of_mem_take hbm)
        have hb1 : ∀ b ∈ bits.drop (nrBits g0), b < nq := fun b hbm => hb b (List.mem_of_mem_drop hbm)
        obtain ⟨p0, i0, hi0, hd0⟩ := part_den N S val nq nz RB g0 _ hs.1 (by simp; omega)
          (List.Nodup.sublist (List.take_sublist _ _) hn) hb0 op0 h0 l0 hL0
        obtain ⟨p1, i1, hi1, hd1⟩ := part_den N S val nq nz RB g1 _ hs.2 (by simp; omega)
          (List.Nodup.sublist (List.drop_sublist _ _) hn) hb1 op1 h1 l1 hL1
        have := bundle_den S nq nz _ _ hb0 hb1 (take_drop_disjoint bits hn _) op0 op1 p0 p1 i0 i1 _ _ hi0 hi1 hd0 hd1
        rw [← gateLines_append] at this
        exact ⟨textDen_of_plain S nq nz _ _ this, fun _ => this⟩
  | .comp _ n ops, inLoop, hok, hs, bits, hl, hn, hb, t, h, L, hL => by
    simp only [gateSound] at hs
    simp only [mapGate, termOK] at hok
    simp only [cQasm] at h
    obtain ⟨ts, h0, h⟩ := res_bind_ok _ _ _ h
    injection h with h
    subst h
    simp only [mapGate, gateLinesN] at hL
    obtain ⟨Ls, rfl, hf⟩ := opsTexts_den RB ops inLoop n hok hs bits (by simpa [nrBits] using hl) hn hb ts h0 L hL
    exact termDen_intercalate S nq nz inLoop ts Ls hf
  | .loop label iters _ n ops, inLoop, hok, hs, bits, hl, hn, hb, t, h, L, hL => by
    simp only [gateSound, Bool.false_or, Bool.and_eq_true] at hs
    simp only [mapGate, termOK, Bool.and_eq_true, Bool.not_eq_true'] at hok
    simp only [cQasm] at h
    obtain ⟨ts, h0, h⟩ := res_bind_ok _ _ _ h
    injection h with h
    subst h
    simp only [mapGate, gateLinesN] at hL
    cases hLb : opsLinesN (α := α) (mapOps val ops) bits with
    | none => rw [hLb] at hL; cases hL
    | some Lb =>
      rw [hLb] at hL
      simp only [Option.map_some, Option.some.injEq] at hL
      subst hL
      obtain ⟨Ls, rfl, hf⟩ := opsTexts_den RB ops true n hok.2 hs.2 bits (by simpa [nrBits] using hl) hn hb ts h0 Lb hLb
      have hbody := (termDen_intercalate S nq nz true ts Ls hf).2 rfl
      have hp : cqLoopPieces.map String.toList = [".".toList, "(".toList, ")\n".toList, "\n.end".toList] := by decide
      have e : fillFormat (cqLoopPieces.map String.toList) [label, natText iters, intercalate ['\n'] ts] =
          ('.' :: (label ++ '(' :: (natText iters ++ [')']))) ++ '\n' :: (intercalate ['\n'] ts ++ '\n' :: ".end".toList) := by
        simp [hp, fillFormat, List.append_assoc]
      rw [e]
      refine ⟨?_, fun hin => by rw [hok.1] at hin; cases hin⟩
      rw [gateLines_repeat]
      exact textDen_loop S nq nz label iters hs.1 _ _ hbody
theorem opsTexts_den (RB : ReadsBack (α := α) N S val) : (ops : XOps F) → (inLoop : Bool) → (n : Nat) →
    opsOK inLoop n (mapOps val ops) = true → opsSound false n ops = true → (bits : List Nat) → bits.length = n →
    bits.Nodup → (∀ b ∈ bits, b < nq) → (ts : List Text) →
    opsTexts cqGates N (qNames nq) ops bits = .ok ts → (L : List (List Nat × LMat α)) →
    opsLinesN (α := α) (mapOps val ops) bits = some L →
    ∃ Ls, L = Ls.flatten ∧ List.Forall₂ (TermDen S nq nz inLoop) ts Ls
  | .nil, _, _, _, _, _, _, _, _, ts, h, L, hL => by
    simp only [opsTexts] at h; injection h with h; subst h
    simp only [mapOps, opsLinesN, Option.some.injEq] at hL; subst hL
    exact ⟨[], rfl, List.Forall₂.nil⟩
  | .cons g sub rest, inLoop, n, hok, hs, bits, hl, hn, hb, ts, h, L, hL => by
    simp only [opsSound, Bool.and_eq_true, beq_iff_eq, decide_eq_true_eq, List.all_eq_true] at hs
    obtain ⟨⟨⟨⟨hs1, hs2⟩, hs3⟩, hs4⟩, hs5⟩ := hs
    simp only [mapOps, opsOK, Bool.and_eq_true, beq_iff_eq] at hok
    obtain ⟨⟨⟨ho1, _⟩, _⟩, ho4⟩ := hok
    simp only [opsTexts] at h
    have hsub : ∀ b ∈ sub, b < bits.length := fun b hbm => by rw [hl]; exact hs4 b hbm
    rw [gatherBits_ok bits sub hsub] at h
    simp only [Res.bind_ok] at h
    obtain ⟨t0, h0, h⟩ := res_bind_ok _ _ _ h
    obtain ⟨ts', h1, h⟩ := res_bind_ok _ _ _ h
    injection h with h
    subst h
    simp only [mapOps, opsLinesN] at hL
    cases hLg : gateLinesN (α := α) (mapGate val g) (relabel bits sub) with
    | none => rw [hLg] at hL; simp at hL
    | some lg =>
      cases hLr : opsLinesN (α := α) (mapOps val rest) bits with
      | none => rw [hLg, hLr] at hL; simp at hL
      | some lr =>
        rw [hLg, hLr] at hL
        simp only [Option.some.injEq] at hL
        subst hL
        have hg := cQasm_den RB g inLoop ho1 hs1 _ (by simp [hs2]) (map_getD_nodup bits hn sub hs3 hsub)
          (placed_lt nq bits sub hb hsub) _ h0 lg hLg
        obtain ⟨Ls, rfl, hf⟩ := opsTexts_den RB rest inLoop n ho4 hs5 bits hl hn hb ts' h1 lr hLr
        exact ⟨lg :: Ls, by simp, List.Forall₂.cons hg hf⟩
end

theorem condLines_flatten (control : List Nat) (Ls : List (List (List Nat × LMat α))) :
    (Ls.map (condLines control)).flatten = condLines control Ls.flatten := by
  induction Ls with
  | nil => rfl
  | cons l ls ih => simp [condLines_append, ih]

theorem condDen_intercalate (control : List Nat) (ts : List Text) (Ls : List (List (List Nat × LMat α)))
    (h : List.Forall₂ (fun t l => PlainDen S nq nz t (condLines control l)) ts Ls) :
    PlainDen S nq nz (intercalate ['\n'] ts) (condLines control Ls.flatten) := by
  rw [← condLines_flatten]
  apply plainDen_intercalate
  rw [List.forall₂_map_right_iff]
  exact h

mutual
/-- **`conditional_c_qasm` of a gate term whose leaves have one-line translations, with its meaning**: every line
carries the `c-` prefix on the control bits -/
theorem condCQasm_den (RB : ReadsBack (α := α) N S val) (control : List Nat) (hc : control ≠ [])
    (hcb : ∀ k ∈ control, k < nq) : (g : XGate F) →
    condTermOK (mapGate val g) = true → gateSound true g = true → (bits : List Nat) →
    bits.length = nrBits g → bits.Nodup → (∀ b ∈ bits, b < nq) → (t : Text) →
    condCQasm cqGates N (intercalate ", ".toList (control.map bName)) (qNames nq) g bits = .ok t →
    (L : List (List Nat × LMat α)) → gateLinesN (α := α) (mapGate val g) bits = some L →
    PlainDen S nq nz t (condLines control L)
  | .lib name ps, hok, hs, bits, hl, hn, hb, t, h, L, hL => by
    simp only [gateSound] at hs
    simp only [mapGate, condTermOK, Bool.and_eq_true] at hok
    simp only [condCQasm] at h
    obtain ⟨unc, h0, h⟩ := res_bind_ok _ _ _ h
    simp only [mapGate, gateLinesN, mapParam_value] at hL
    cases happs : exactDenot (α := α) name (ps.map fun p => val p.value) with
    | none => rw [happs] at hL; cases hL
    | some apps =>
      rw [happs] at hL
      simp only [Option.map_some, Option.some.injEq] at hL
      subst hL
      obtain ⟨g, lines, hfd, hlen, rfl, hf⟩ := lib_den N S val RB nq nz name ps bits hs hl hn hb unc h0 apps happs
      have hsing : (slinesOf g).length = 1 := by
        have := hok.2
        simpa [oneLine, slinesOfName, hfd] using this
      rw [hsing] at hlen
      cases hf with
      | nil => simp at hlen
      | @cons l a ls as hla hrest =>
        cases hrest with
        | cons _ _ => simp at hlen
        | nil =>
          simp only [intercalate] at h
          obtain ⟨line', e, hst, hcl⟩ := hla.cond control hc hcb
          rw [e] at h
          injection h with h
          subst h
          have := plainDen_single S nq nz line' _ hcl hst
          simpa [condLines, placeApps] using this
  | .ctl _, _, _, _, _, _, _, _, h, _, _ => by simp [condCQasm] at h
  | .kron g0 g1, hok, hs, bits, hl, hn, hb, t, h, L, hL => by
    simp only [gateSound, if_true, Bool.and_eq_true] at hs
    simp only [mapGate, condTermOK, Bool.and_eq_true] at hok
    simp only [condCQasm] at h
    simp only [nrBits] at hl
    have hlt : ¬ bits.length < nrBits g0 := by omega
    simp only [hlt, if_false] at h
    obtain ⟨op0, h0, h⟩ := res_bind_ok _ _ _ h
    obtain ⟨op1, h1, h⟩ := res_bind_ok _ _ _ h
    injection h with h
    subst h
    simp only [mapGate, gateLinesN, nrBits_mapGate] at hL
    cases hL0 : gateLinesN (α := α) (mapGate val g0) (bits.take (nrBits g0)) with
    | none => rw [hL0] at hL; simp at hL
    | some l0 =>
      cases hL1 : gateLinesN (α := α) (mapGate val g1) (bits.drop (nrBits g0)) with
      | none => rw [hL0, hL1] at hL; simp at hL
      | some l1 =>
        rw [hL0, hL1] at hL
        simp only [Option.some.injEq] at hL
        subst hL
        have hb0 : ∀ b ∈ bits.take (nrBits g0), b < nq := fun b hbm => hb b (List.mem_of_mem_take hbm)
        have hb1 : ∀ b ∈ bits.drop (nrBits g0), b < nq := fun b hbm => hb b (List.mem_of_mem_drop hbm)
        rw [condLines_append]
        exact plainDen_append S nq nz _ _ _ _
          (condCQasm_den RB control hc hcb g0 hok.1 hs.1 _ (by simp; omega)
            (List.Nodup.sublist (List.take_sublist _ _) hn) hb0 op0 h0 l0 hL0)
          (condCQasm_den RB control hc hcb g1 hok.2 hs.2 _ (by simp; omega)
            (List.Nodup.sublist (List.drop_sublist _ _) hn) hb1 op1 h1 l1 hL1)
  | .comp _ n ops, hok, hs, bits, hl, hn, hb, t, h, L, hL => by
    simp only [gateSound] at hs
    simp only [mapGate, condTermOK] at hok
    simp only [condCQasm] at h
    obtain ⟨ts, h0, h⟩ := res_bind_ok _ _ _ h
    injection h with h
    subst h
    simp only [mapGate, gateLinesN] at hL
    obtain ⟨Ls, rfl, hf⟩ := condOpsTexts_den RB control hc hcb ops n hok hs bits (by simpa [nrBits] using hl) hn hb ts
      h0 L hL
    exact condDen_intercalate S nq nz control ts Ls hf
  | .loop label iters _ n ops, hok, hs, bits, hl, hn, hb, t, h, L, hL => by
    simp only [gateSound, Bool.true_or, Bool.true_and] at hs
    simp only [mapGate, condTermOK] at hok
    simp only [condCQasm] at h
    simp only [mapGate, gateLinesN] at hL
    cases hLb : opsLinesN (α := α) (mapOps val ops) bits with
    | none => rw [hLb] at hL; cases hL
    | some Lb =>
      rw [hLb] at hL
      simp only [Option.map_some, Option.some.injEq] at hL
      subst hL
      by_cases hi : iters = 0
      · simp only [hi, if_true] at h
        injection h with h; subst h
        subst hi
        exact plainDen_nil S nq nz
      · simp only [hi, if_false] at h
        obtain ⟨ts, h0, h⟩ := res_bind_ok _ _ _ h
        injection h with h
        subst h
        obtain ⟨Ls, rfl, hf⟩ := condOpsTexts_den RB control hc hcb ops n hok hs bits (by simpa [nrBits] using hl) hn hb
          ts h0 Lb hLb
        rw [condLines_repeat]
        exact plainDen_replicate S nq nz _ _ (condDen_intercalate S nq nz control ts Ls hf) iters
theorem condOpsTexts_den (RB : ReadsBack (α := α) N S val) (control : List Nat) (hc : control ≠ [])
    (hcb : ∀ k ∈ control, k < nq) : (ops : XOps F) → (n : Nat) →
    condOpsOK n (mapOps val ops) = true → opsSound true n ops = true → (bits : List Nat) → bits.length = n →
    bits.Nodup → (∀ b ∈ bits, b < nq) → (ts : List Text) →
    condOpsTexts cqGates N (intercalate ", ".toList (control.map bName)) (qNames nq) ops bits = .ok ts →
    (L : List (List Nat × LMat α)) → opsLinesN (α := α) (mapOps val ops) bits = some L →
    ∃ Ls, L = Ls.flatten ∧ List.Forall₂ (fun t l => PlainDen S nq nz t (condLines control l)) ts Ls
  | .nil, _, _, _, _, _, _, _, ts, h, L, hL => by
    simp only [condOpsTexts] at h; injection h with h; subst h
    simp only [mapOps, opsLinesN, Option.some.injEq] at hL; subst hL
    exact ⟨[], rfl, List.Forall₂.nil⟩
  | .cons g sub rest, n, hok, hs, bits, hl, hn, hb, ts, h, L, hL => by
    simp only [opsSound, Bool.and_eq_true, beq_iff_eq, decide_eq_true_eq, List.all_eq_true] at hs
    obtain ⟨⟨⟨⟨hs1, hs2⟩, hs3⟩, hs4⟩, hs5⟩ := hs
    simp only [mapOps, condOpsOK, Bool.and_eq_true, beq_iff_eq] at hok
    obtain ⟨⟨⟨ho1, _⟩, _⟩, ho4⟩ := hok
    simp only [condOpsTexts] at h
    have hsub : ∀ b ∈ sub, b < bits.length := fun b hbm => by rw [hl]; exact hs4 b hbm
    rw [gatherBits_ok bits sub hsub] at h
    simp only [Res.bind_ok] at h
    obtain ⟨t0, h0, h⟩ := res_bind_ok _ _ _ h
    obtain ⟨ts', h1, h⟩ := res_bind_ok _ _ _ h
    injection h with h
    subst h
    simp only [mapOps, opsLinesN] at hL
    cases hLg : gateLinesN (α := α) (mapGate val g) (relabel bits sub) with
    | none => rw [hLg] at hL; simp at hL
    | some lg =>
      cases hLr : opsLinesN (α := α) (mapOps val rest) bits with
      | none => rw [hLg, hLr] at hL; simp at hL
      | some lr =>
        rw [hLg, hLr] at hL
        simp only [Option.some.injEq] at hL
        subst hL
        have hg := condCQasm_den RB control hc hcb g ho1 hs1 _ (by simp [hs2]) (map_getD_nodup bits hn sub hs3 hsub)
          (placed_lt nq bits sub hb hsub) _ h0 lg hLg
        obtain ⟨Ls, rfl, hf⟩ := condOpsTexts_den RB control hc hcb rest n ho4 hs5 bits hl hn hb ts' h1 lr hLr
        exact ⟨lg :: Ls, by simp, List.Forall₂.cons hg hf⟩
end

end

end Q1t.Proofs.CQasm

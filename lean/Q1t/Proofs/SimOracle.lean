import Q1t.Model.Sim
/-!
Structural determinism of the simulator model (C10): the only way randomness reaches a result is
through the recorded draws, and the result depends only on the consumed prefix of the draw list.
-/
namespace Q1t.Proofs.SimOracle
open Q1t.Sim Q1t.Sim.Prog

variable {W β : Type}

/-- `runOracle` consumes a prefix `used` of the draw list and its result does not depend on what
follows that prefix. -/
theorem runOracle_prefix (p : Prog W β) :
    ∀ (ds : List Draw) (r : Except Fail β) (rest : List Draw),
      runOracle p ds = some (r, rest) →
      ∃ used, ds = used ++ rest ∧ ∀ ds', runOracle p (used ++ ds') = some (r, ds') := by
  induction p with
  | pure b =>
    intro ds r rest h
    simp only [runOracle, Option.some.injEq, Prod.mk.injEq] at h
    obtain ⟨h1, h2⟩ := h
    exact ⟨[], by simp [h2], fun ds' => by simp [runOracle, h1]⟩
  | fail e =>
    intro ds r rest h
    simp only [runOracle, Option.some.injEq, Prod.mk.injEq] at h
    obtain ⟨h1, h2⟩ := h
    exact ⟨[], by simp [h2], fun ds' => by simp [runOracle, h1]⟩
  | binomial c w k ih =>
    intro ds r rest h
    match ds, h with
    | .bin n0 :: ds0, h =>
      simp only [runOracle] at h
      split at h
      · rename_i hle
        obtain ⟨used, hu, hall⟩ := ih n0 ds0 r rest h
        refine ⟨.bin n0 :: used, by simp [hu], fun ds' => ?_⟩
        simp only [List.cons_append, runOracle, hle, if_true]
        exact hall ds'
      · exact absurd h (by simp)
    | [], h => simp [runOracle] at h
    | .cat _ :: _, h => simp [runOracle] at h
  | categorical ws c k ih =>
    intro ds r rest h
    match ds, h with
    | .cat l :: ds0, h =>
      simp only [runOracle] at h
      split at h
      · rename_i hok
        obtain ⟨used, hu, hall⟩ := ih l ds0 r rest h
        refine ⟨.cat l :: used, by simp [hu], fun ds' => ?_⟩
        simp only [List.cons_append, runOracle, hok]
        exact hall ds'
      · exact absurd h (by simp)
    | [], h => simp [runOracle] at h
    | .bin _ :: _, h => simp [runOracle] at h

/-- Two draw streams that agree on the consumed prefix give the same result. -/
theorem runOracle_congr_prefix (p : Prog W β) (ds ds' : List Draw) (r : Except Fail β) (rest : List Draw)
    (h : runOracle p ds = some (r, rest))
    (hpre : ds'.take (ds.length - rest.length) = ds.take (ds.length - rest.length)) :
    runOracle p ds' = some (r, ds'.drop (ds.length - rest.length)) := by
  obtain ⟨used, hu, hall⟩ := runOracle_prefix p ds r rest h
  have hlen : ds.length - rest.length = used.length := by simp [hu]
  rw [hlen] at hpre ⊢
  have htake : ds.take used.length = used := by simp [hu]
  rw [htake] at hpre
  have hsplit : used ++ ds'.drop used.length = ds' := by
    have := List.take_append_drop used.length ds'
    rw [hpre] at this
    exact this
  have := hall (ds'.drop used.length)
  rw [hsplit] at this
  exact this

end Q1t.Proofs.SimOracle

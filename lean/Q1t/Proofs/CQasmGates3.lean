import Q1t.Proofs.CQasmGates
/-! C12: kernel-checked instances, three-qubit constant gates. -/
namespace Q1t.Proofs.CQasm
open Q1t Q1t.CQ

theorem ccx_plain_012 : plainOK "CCX" 1 [0, 1, 2] = true := by decide +kernel
theorem ccx_plain_201 : plainOK "CCX" 1 [2, 0, 1] = true := by decide +kernel
theorem ccx_conditional : condOK "CCX" 1 [1, 2, 0] = true := by decide +kernel
/-- `CCZ` (three lines: `h t; toffoli; h t`) -/
theorem ccz_plain_012 : plainOK "CCZ" 1 [0, 1, 2] = true := by decide +kernel
theorem ccz_plain_120 : plainOK "CCZ" 1 [1, 2, 0] = true := by decide +kernel
/-- NEGATIVE: under a condition only the first `h` is conditioned -/
theorem ccz_conditional_fails : condOK "CCZ" 1 [0, 1, 2] = false := by decide +kernel

end Q1t.Proofs.CQasm

import Q1t.Proofs.DetShapePartN2b
/-!
`PartN2` under the name asked for in the worker brief.  The proof is `partN2b` (`DetShapePartN2b.lean`):
`swap_rows(a, b)` exchanges `d_a, d_b`; `multiply_row(m, i)` (`m ≠ i`, the only case `normalize` issues) replaces
`d_i` by `d_i · d_m`; both facts are carried through `elimRows`, `pass`, `normalize` by induction with `WF`.
-/
namespace Q1t.Proofs.DetPlan

theorem partN2 : PartN2 := partN2b

end Q1t.Proofs.DetPlan

import Mathlib.LinearAlgebra.Matrix.NonsingularInverse
import Q1t.Proofs.LMatBridge
import Q1t.Proofs.SimAlg
/-!
C02/C01: a unitary list matrix (`U·Uᴴ = 1`, `LMat.Unitary`) preserves the squared norm of a coefficient vector:
`‖U v‖² = ‖v‖²`.  Over a commutative ring `U·Uᴴ = 1` gives `Uᴴ·U = 1` (Mathlib, `Matrix.mul_eq_one_comm`), the
rest is an exchange of finite sums.
-/
set_option linter.unusedSectionVars false
namespace Q1t.Sim
open Q1t Q1t.Spec Q1t.LMat

section
variable {α P : Type} [CommRing α] [Amp α P] [SimAmp α] {nz : α → Prop}

theorem conj_sum (ha : LawfulAmp α P) {ι : Type} (s : Finset ι) (f : ι → α) :
    Amp.conj P (∑ i ∈ s, f i) = ∑ i ∈ s, Amp.conj P (f i) :=
  map_sum (AddMonoidHom.mk' (Amp.conj P) ha.conj_add) f s

theorem list_sum_fin (l : List α) (d : Nat) (hl : l.length = d) : l.sum = ∑ i : Fin d, l.getD i 0 := by
  subst hl
  induction l with
  | nil => simp
  | cons x xs ih =>
    rw [List.sum_cons, ih]
    simp only [List.length_cons]
    rw [Fin.sum_univ_succ]
    simp

theorem normSqSum_fin (v : List α) (d : Nat) (hv : v.length = d) :
    normSqSum v = ∑ i : Fin d, SimAmp.normSq (v.getD i 0) := by
  rw [normSqSum, list_sum_fin _ d (by simpa using hv)]
  apply Finset.sum_congr rfl
  intro i _
  have hi : i.val < v.length := hv ▸ i.2
  simp [List.getD_eq_getElem?_getD, hi]

/-- **a unitary preserves the squared norm** -/
theorem unitary_normSqSum (ha : LawfulAmp α P) (hs : LawfulSim α P nz) {d : Nat} (hd : 0 < d) {U : LMat α}
    (hU : LMat.Unitary P d U) (v : List α) (hv : v.length = d) :
    normSqSum (LMat.mulVec U v) = normSqSum v := by
  obtain ⟨hW, hUU⟩ := (unitary_iff hd).mp hU
  have hAU : adjM (toM d d U) P * toM d d U = 1 := mul_eq_one_comm.mp hUU
  have horth : ∀ j k : Fin d, ∑ i : Fin d, Amp.conj P (get U i k) * get U i j = if k = j then 1 else 0 := by
    intro j k
    have := congrFun (congrFun hAU k) j
    simpa [Matrix.mul_apply, adjM, toM, Matrix.one_apply] using this
  have hlen : (LMat.mulVec U v).length = d := by simp [LMat.mulVec, hW.1]
  have hentry : ∀ i : Fin d, (LMat.mulVec U v).getD i 0 = ∑ j : Fin d, get U i j * v.getD j 0 := by
    intro i
    have hi : i.val < U.length := hW.1 ▸ i.2
    have hrow : (U[i.val]'hi).length = d := hW.2 _ (List.getElem_mem hi)
    simp only [LMat.mulVec, List.getD_eq_getElem?_getD, List.getElem?_map, List.getElem?_eq_getElem hi,
      Option.map_some, Option.getD_some]
    rw [LMat.dot_eq_sum _ _ d hrow hv]
    apply Finset.sum_congr rfl
    intro j _
    simp [LMat.get, List.getD_eq_getElem?_getD, hi]
  rw [normSqSum_fin _ d hlen, normSqSum_fin _ d hv]
  simp only [hentry, hs.normSq_eq, conj_sum ha, ha.conj_mul]
  -- Σ_i (Σ_j U_ij v_j)(Σ_k conj U_ik conj v_k) = Σ_j v_j conj v_j
  have step : ∀ i : Fin d,
      (∑ j : Fin d, get U i j * v.getD j 0) * (∑ k : Fin d, Amp.conj P (get U i k) * Amp.conj P (v.getD k 0)) =
      ∑ j : Fin d, ∑ k : Fin d, (v.getD j 0 * Amp.conj P (v.getD k 0)) * (Amp.conj P (get U i k) * get U i j) := by
    intro i
    rw [Finset.sum_mul_sum]
    apply Finset.sum_congr rfl; intro j _
    apply Finset.sum_congr rfl; intro k _
    ring
  simp only [step]
  rw [Finset.sum_comm]
  apply Finset.sum_congr rfl
  intro j _
  rw [Finset.sum_comm]
  have : ∀ k : Fin d, ∑ i : Fin d, (v.getD j 0 * Amp.conj P (v.getD k 0)) * (Amp.conj P (get U i k) * get U i j) =
      (v.getD j 0 * Amp.conj P (v.getD k 0)) * (if k = j then 1 else 0) := by
    intro k
    rw [← Finset.mul_sum, horth j k]
  simp only [this]
  rw [Finset.sum_eq_single j]
  · simp
  · intro k _ hk; simp [hk]
  · intro h; exact absurd (Finset.mem_univ j) h

end
end Q1t.Sim

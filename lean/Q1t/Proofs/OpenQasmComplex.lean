import Q1t.Proofs.AmpComplex
import Q1t.Proofs.OpenQasmParam
/-!
C11: the intended model of `LawfulAngle` — real angles, decimal literals `m·10^e`, `Real.pi`, real arithmetic,
amplitudes ℂ with `Real.cos` / `Real.sin` (the `Amp ℂ ℝ` instance of `Proofs/AmpComplex.lean`).  So the
parametrised theorems of `Proofs/OpenQasmParam.lean` hold for the complex matrices at all real angles.
-/
noncomputable section
namespace Q1t.OpenQasm
open Q1t Q1t.Spec.OQ2 Q1t.AmpComplex

instance angleReal : Angle ℝ where
  ofDec m e := (m : ℝ) * (10 : ℝ) ^ e
  pi := Real.pi
  neg x := -x
  add x y := x + y
  sub x y := x - y
  mul x y := x * y
  div x y := x / y

theorem lawfulAngleComplex : LawfulAngle ℂ ℝ where
  cos_zero := by
    show ((Real.cos (((0 : ℕ) : ℝ) * (10 : ℝ) ^ (0 : ℤ)) : ℝ) : ℂ) = 1
    simp
  sin_zero := by
    show ((Real.sin (((0 : ℕ) : ℝ) * (10 : ℝ) ^ (0 : ℤ)) : ℝ) : ℂ) = 0
    simp
  cos_half_zero := by
    show ((Real.cos ((((0 : ℕ) : ℝ) * (10 : ℝ) ^ (0 : ℤ)) / 2) : ℝ) : ℂ) = 1
    simp
  sin_half_zero := by
    show ((Real.sin ((((0 : ℕ) : ℝ) * (10 : ℝ) ^ (0 : ℤ)) / 2) : ℝ) : ℂ) = 0
    simp
  cos_halfPi := by
    show ((Real.cos (Real.pi / (((2 : ℕ) : ℝ) * (10 : ℝ) ^ (0 : ℤ))) : ℝ) : ℂ) = 0
    simp
  sin_halfPi := by
    show ((Real.sin (Real.pi / (((2 : ℕ) : ℝ) * (10 : ℝ) ^ (0 : ℤ))) : ℝ) : ℂ) = 1
    simp
  cos_quarterPi := by
    show ((Real.cos (Real.pi / (((2 : ℕ) : ℝ) * (10 : ℝ) ^ (0 : ℤ)) / 2) : ℝ) : ℂ) = ((Real.sqrt 2 / 2 : ℝ) : ℂ)
    rw [show Real.pi / (((2 : ℕ) : ℝ) * (10 : ℝ) ^ (0 : ℤ)) / 2 = Real.pi / 4 by simp; ring, Real.cos_pi_div_four]
  sin_quarterPi := by
    show ((Real.sin (Real.pi / (((2 : ℕ) : ℝ) * (10 : ℝ) ^ (0 : ℤ)) / 2) : ℝ) : ℂ) = ((Real.sqrt 2 / 2 : ℝ) : ℂ)
    rw [show Real.pi / (((2 : ℕ) : ℝ) * (10 : ℝ) ^ (0 : ℤ)) / 2 = Real.pi / 4 by simp; ring, Real.sin_pi_div_four]
  cos_neg x := by
    show ((Real.cos (-x) : ℝ) : ℂ) = (Real.cos x : ℝ)
    rw [Real.cos_neg]
  sin_neg x := by
    show ((Real.sin (-x) : ℝ) : ℂ) = -((Real.sin x : ℝ) : ℂ)
    rw [Real.sin_neg]; push_cast; rfl
  cos_div_two x := by
    show ((Real.cos (x / (((2 : ℕ) : ℝ) * (10 : ℝ) ^ (0 : ℤ))) : ℝ) : ℂ) = (Real.cos (x / 2) : ℝ)
    simp
  sin_div_two x := by
    show ((Real.sin (x / (((2 : ℕ) : ℝ) * (10 : ℝ) ^ (0 : ℤ))) : ℝ) : ℂ) = (Real.sin (x / 2) : ℝ)
    simp

end Q1t.OpenQasm

import Mathlib.Algebra.Ring.Defs
import Mathlib.Algebra.BigOperators.Group.List.Basic
import Mathlib.Algebra.BigOperators.Ring.List
import Mathlib.Tactic.Ring
import Q1t.Proofs.SimBasic
/-!
C02, algebraic layer (T2): lawful simulator operations, the index-bit lemma, `collapse` = projector +
renormalise, `weights0` = Born weight of outcome 0, linearity of the reference operations.
-/
set_option linter.unusedSectionVars false
namespace Q1t.Sim
open Q1t Q1t.Spec

/-- Laws of the simulator-specific amplitude operations, relative to a predicate `nz` on weights
("`w` is a valid non-zero weight": for `ℂ`, `w` is a positive real; for a finite exact instance, `w` is one
of the finitely many weights on which `rsqrt` is defined).

* `normSq a = a · conj a`;
* `rsqrt w` is real and `rsqrt w · rsqrt w · w = 1` on valid non-zero weights;
* `min1` (the clamp `w.min(1.0)` applied to the binomial parameter) does not turn an impossible outcome
  into a possible one: if outcome 0 (resp. 1) is in the support of `Binomial(c, min1 w)` then `w` (resp.
  `1 - w`) is a valid non-zero weight.  Nothing else about `min1` is used. -/
structure LawfulSim (α P : Type) [CommRing α] [Amp α P] [SimAmp α] (nz : α → Prop) : Prop where
  normSq_eq : ∀ a : α, SimAmp.normSq a = a * Amp.conj P a
  rsqrt_mul : ∀ w : α, nz w → SimAmp.rsqrt w * SimAmp.rsqrt w * w = 1
  rsqrt_real : ∀ w : α, nz w → Amp.conj P (SimAmp.rsqrt w) = SimAmp.rsqrt w
  min1_nz0 : ∀ w : α, nz (SimAmp.min1 w) → nz w
  min1_nz1 : ∀ w : α, nz (1 - SimAmp.min1 w) → nz (1 - w)

section defs
variable {α : Type} [Zero α] [Add α] [SimAmp α]

/-- squared norm of a coefficient vector -/
def normSqSum (v : List α) : α := (v.map SimAmp.normSq).sum

/-- the weight of outcome 0 of qubit `q` that `weights0` computes for one column -/
def w0Of (n q : Nat) (col : List α) : α :=
  col.zipIdx.foldl (fun acc (ar : α × Nat) =>
    if (ar.2 / 2 ^ (n - q - 1)) % 2 = 0 then acc + SimAmp.normSq ar.1 else acc) 0

end defs

/-- **index-bit lemma**: block membership in `collapse`/`weights0` is the value of qubit `q` -/
theorem index_bit (n q r : Nat) : (r / 2 ^ (n - q - 1)) % 2 = Spec.qbit n q r := by
  have e : n - q - 1 = n - 1 - q := by omega
  simp [Spec.qbit, Nat.shiftRight_eq_div_pow, e]

theorem qbit_lt_two (n q r : Nat) : Spec.qbit n q r < 2 := by
  simp only [Spec.qbit]; omega

section weights
variable {α : Type} [Zero α] [Add α] [SimAmp α]

theorem weights0_eq (s : VecState α) (q : Nat) :
    VecState.weights0 s q = (cols s).map (w0Of s.nrBits q) := by
  simp only [VecState.weights0, cols, List.map_map, VecState.nrCols]
  apply List.map_congr_left
  intro k _
  simp only [Function.comp, w0Of, VecState.column, List.zipIdx_map, List.foldl_map]
  rfl

end weights

section ring
variable {α P : Type} [CommRing α] [Amp α P] [SimAmp α]

theorem foldl_cond_sum {β : Type} (p : β → Prop) [DecidablePred p] (f : β → α) :
    ∀ (xs : List β) (a : α),
    xs.foldl (fun acc x => if p x then acc + f x else acc) a =
      a + (xs.map (fun x => if p x then f x else 0)).sum := by
  intro xs
  induction xs with
  | nil => intro a; simp
  | cons x xs ih =>
    intro a
    simp only [List.foldl_cons, List.map_cons, List.sum_cons, ih]
    split <;> simp [add_assoc]

variable {nz : α → Prop}

theorem LawfulSim.normSq_zero (hs : LawfulSim α P nz) : SimAmp.normSq (0 : α) = 0 := by
  rw [hs.normSq_eq, zero_mul]

theorem project_map_normSq (hs : LawfulSim α P nz) (n q : Nat) (o : Bool) (col : List α) :
    (project n q o col).map SimAmp.normSq =
      col.zipIdx.map (fun ar => if (Spec.qbit n q ar.2 == 1) == o then SimAmp.normSq ar.1 else 0) := by
  simp only [project, List.map_map]
  apply List.map_congr_left
  intro ar _
  simp only [Function.comp]
  split
  · rfl
  · exact hs.normSq_zero

/-- **`prob0_eq_born`**: the weight the code computes by summing `|a|²` over the blocks with the index
bit clear is `⟨ψ|P₀^{(q)}|ψ⟩` -/
theorem prob0_eq_born (hs : LawfulSim α P nz) (n q : Nat) (col : List α) :
    w0Of n q col = normSqSum (project n q false col) := by
  rw [w0Of, foldl_cond_sum (fun ar : α × Nat => (ar.2 / 2 ^ (n - q - 1)) % 2 = 0)
    (fun ar => SimAmp.normSq ar.1), zero_add, normSqSum, project_map_normSq hs]
  congr 1
  apply List.map_congr_left
  intro ar _
  have h2 := qbit_lt_two n q ar.2
  rw [index_bit]
  by_cases h : Spec.qbit n q ar.2 = 0
  · simp [h]
  · have : Spec.qbit n q ar.2 = 1 := by omega
    simp [this]

/-- `collapse` is the projector on the kept outcome followed by a rescaling -/
theorem collapseCol_eq (n q : Nat) (col : List α) (keep : Bool) (w : α) :
    VecState.collapseCol n q col keep w = (project n q keep col).map (· * SimAmp.rsqrt w) := by
  simp only [VecState.collapseCol, project, List.map_map]
  apply List.map_congr_left
  intro ar _
  obtain ⟨a, r⟩ := ar
  simp only [Function.comp]
  have h2 := qbit_lt_two n q r
  rw [index_bit]
  by_cases h : Spec.qbit n q r = 0
  · cases keep <;> simp [h]
  · have h1 : Spec.qbit n q r = 1 := by omega
    cases keep <;> simp [h1]

theorem project_length (n q : Nat) (o : Bool) (col : List α) : (project n q o col).length = col.length := by
  simp [project]

/-- the two outcomes split the squared norm -/
theorem normSqSum_split (hs : LawfulSim α P nz) (n q : Nat) (col : List α) :
    normSqSum (project n q false col) + normSqSum (project n q true col) = normSqSum col := by
  have hcol : normSqSum col = (col.zipIdx.map (fun ar : α × Nat => SimAmp.normSq ar.1)).sum := by
    rw [normSqSum]
    congr 1
    have : col.zipIdx.map (fun ar : α × Nat => SimAmp.normSq ar.1) =
        (col.zipIdx.map Prod.fst).map SimAmp.normSq := by
      rw [List.map_map]; rfl
    rw [this, List.zipIdx_map_fst]
  rw [hcol, normSqSum, normSqSum, project_map_normSq hs, project_map_normSq hs, ← List.sum_map_add]
  congr 1
  apply List.map_congr_left
  intro ar _
  have h2 := qbit_lt_two n q ar.2
  by_cases h : Spec.qbit n q ar.2 = 0
  · simp [h]
  · have : Spec.qbit n q ar.2 = 1 := by omega
    simp [this]

/-- scaling a vector scales its squared norm -/
theorem normSqSum_smul (ha : LawfulAmp α P) (hs : LawfulSim α P nz) (v : List α) (a : α) :
    normSqSum (v.map (· * a)) = normSqSum v * (a * Amp.conj P a) := by
  simp only [normSqSum, List.map_map]
  rw [← List.sum_map_mul_right]
  congr 1
  apply List.map_congr_left
  intro x _
  simp only [Function.comp, hs.normSq_eq, ha.conj_mul]
  ring

/-! ### linearity of the reference operations -/

theorem project_smul (n q : Nat) (o : Bool) (v : List α) (a : α) :
    project n q o (v.map (· * a)) = (project n q o v).map (· * a) := by
  simp only [project, List.zipIdx_map, List.map_map]
  apply List.map_congr_left
  intro ar _
  simp only [Function.comp, Prod.map, id]
  split <;> simp

theorem dot_smul_aux (a : α) : ∀ (r c : List α) (acc : α),
    (List.zipWith (· * ·) r (c.map (· * a))).foldl (· + ·) (acc * a) =
      ((List.zipWith (· * ·) r c).foldl (· + ·) acc) * a := by
  intro r
  induction r with
  | nil => intro c acc; simp
  | cons x r ih =>
    intro c acc
    cases c with
    | nil => simp
    | cons y c =>
      simp only [List.map_cons, List.zipWith_cons_cons, List.foldl_cons]
      have : acc * a + x * (y * a) = (acc + x * y) * a := by ring
      rw [this, ih]

theorem dot_smul (r c : List α) (a : α) : LMat.dot r (c.map (· * a)) = LMat.dot r c * a := by
  have := dot_smul_aux a r c 0
  rw [zero_mul] at this
  exact this

theorem mulVec_smul (M : LMat α) (v : List α) (a : α) :
    LMat.mulVec M (v.map (· * a)) = (LMat.mulVec M v).map (· * a) := by
  simp only [LMat.mulVec, List.map_map]
  apply List.map_congr_left
  intro row _
  simp [dot_smul]

theorem gateOn_smul (n : Nat) (g : GateTerm P) (bits : List Nat) (v : List α) (a : α) :
    gateOn n g bits (v.map (· * a)) = (gateOn n g bits v).map (· * a) := by
  simp only [gateOn, mulVec_smul]

theorem gateOn_length (n : Nat) (g : GateTerm P) (bits : List Nat) (v : List α) :
    (gateOn n g bits v).length = 2 ^ n := by
  simp [gateOn, LMat.mulVec, embed]

theorem map_mul_mul (v : List α) (a b : α) : (v.map (· * a)).map (· * b) = v.map (· * (a * b)) := by
  simp only [List.map_map]
  apply List.map_congr_left
  intro x _
  simp [mul_assoc]

end ring
end Q1t.Sim

import Q1t.Proofs.CQasmHoles
import Q1t.Proofs.CQasmTemplates
import Q1t.Proofs.CQasmProgram
set_option linter.unusedSimpArgs false
/-!
C12 (`cq_wellformed_partial`), part 7: a gate's translation as STRUCTURED lines (`SLine`): instruction name and
operands (`{i}` = i-th listed qubit, literal number, `{arg}`, evaluated hole).  The structured lines are read off the
generated table by computation (`parseSLines`); their token list (`flat`) renders to the template text; after
substitution and hole evaluation the text is the list of printed instructions.
-/
namespace Q1t.Proofs.CQasm
open Q1t Q1t.CQ

inductive SOp where
  | q (loc : Nat)
  | lit (t : Text)
  | arg (a : String)
  | hole (inner : List Tok)
  deriving DecidableEq, Repr

structure SLine where
  name : Text
  ops : List SOp
  deriving DecidableEq, Repr

def SOp.toks : SOp → List Tok
  | .q loc => [.var (natText loc)]
  | .lit t => [.lit t]
  | .arg a => [.var a.toList]
  | .hole inner => .lb :: (inner ++ [.rb])

def opsToks : List SOp → List Tok
  | [] => []
  | [o] => o.toks
  | o :: os => o.toks ++ .lit ", ".toList :: opsToks os

def lineToks (pre : Text) (l : SLine) : List Tok := .lit (pre ++ l.name ++ [' ']) :: opsToks l.ops

def flat : List SLine → List Tok
  | [] => []
  | l :: ls => lineToks [] l ++ ls.flatMap (lineToks ['\n'])

/-! ### substitution maps -/

/-- a token map that leaves everything but variables alone -/
structure Subst (σ : Tok → Tok) : Prop where
  lit : ∀ t, σ (.lit t) = .lit t
  lb : σ .lb = .lb
  rb : σ .rb = .rb

def textOf : Tok → Text
  | .lit t => t
  | t => t.render

theorem substAll_lit (kvs : List (Text × Text)) (t : Text) : substAll kvs (.lit t) = .lit t := by
  induction kvs with
  | nil => rfl
  | cons kv kvs ih => simpa [substAll, substVar] using ih
theorem substAll_lb (kvs : List (Text × Text)) : substAll kvs .lb = .lb := by
  induction kvs with
  | nil => rfl
  | cons kv kvs ih => simpa [substAll, substVar] using ih
theorem substAll_rb (kvs : List (Text × Text)) : substAll kvs .rb = .rb := by
  induction kvs with
  | nil => rfl
  | cons kv kvs ih => simpa [substAll, substVar] using ih

theorem substAll_subst (kvs : List (Text × Text)) : Subst (substAll kvs) :=
  ⟨substAll_lit kvs, substAll_lb kvs, substAll_rb kvs⟩

/-- the first pair with this key decides -/
theorem substAll_var (k : Text) : ∀ (kvs : List (Text × Text)),
    substAll kvs (.var k) = match kvs.find? (fun kv => kv.1 == k) with
      | some kv => .lit kv.2
      | none => .var k
  | [] => rfl
  | kv :: kvs => by
    by_cases h : kv.1 = k
    · have : substAll (kv :: kvs) (.var k) = substAll kvs (.lit kv.2) := by
        simp [substAll, substVar, h]
      have hb : (kv.1 == k) = true := by simp [h]
      rw [this, substAll_lit]; simp only [List.find?, hb]
    · have h' : ¬ k = kv.1 := fun e => h e.symm
      have : substAll (kv :: kvs) (.var k) = substAll kvs (.var k) := by
        simp [substAll, substVar, h']
      have hb : (kv.1 == k) = false := by simp [h]
      rw [this, substAll_var k kvs]; simp only [List.find?, hb]

/-! ### the printed lines -/

/-- concatenated text of hole-inner tokens after substitution -/
def innerText (σ : Tok → Tok) (inner : List Tok) : Text := inner.flatMap (fun t => textOf (σ t))

def instOp (σ : Tok → Tok) (v : Text → Text) : SOp → Text
  | .q loc => textOf (σ (.var (natText loc)))
  | .lit t => t
  | .arg a => textOf (σ (.var a.toList))
  | .hole inner => v (innerText σ inner)

def instLine (σ : Tok → Tok) (v : Text → Text) (l : SLine) : Text :=
  l.name ++ ' ' :: intercalate ", ".toList (l.ops.map (instOp σ v))

/-- every variable of the token list is substituted by literal text; hole-inner tokens are literals or variables -/
def coveredTok (σ : Tok → Tok) : Tok → Prop
  | .var k => ∃ t, σ (.var k) = .lit t
  | _ => True

def innerOK : List Tok → Bool
  | [] => true
  | .lit _ :: r => innerOK r
  | .var _ :: r => innerOK r
  | _ :: _ => false

def SOp.shapeOK : SOp → Bool
  | .hole inner => innerOK inner
  | _ => true

def SOp.covered (σ : Tok → Tok) : SOp → Prop
  | .q loc => coveredTok σ (.var (natText loc))
  | .lit _ => True
  | .arg a => coveredTok σ (.var a.toList)
  | .hole inner => ∀ t ∈ inner, coveredTok σ t

theorem fillH_inner (σ : Tok → Tok) (hσ : Subst σ) (v : Text → Text) : ∀ (inner : List Tok) (acc : Text) (rest : List Tok),
    innerOK inner = true → (∀ t ∈ inner, coveredTok σ t) →
    fillH v (some acc) (inner.map σ ++ .rb :: rest) = v (acc ++ innerText σ inner) ++ fillH v none rest
  | [], acc, rest, _, _ => by simp [fillH, innerText]
  | .lit t :: r, acc, rest, hok, hc => by
    have ih := fillH_inner σ hσ v r (acc ++ t) rest (by simpa [innerOK] using hok) (fun x hx => hc x (by simp [hx]))
    simp only [List.map_cons, List.cons_append, hσ.lit, fillH, ih, innerText, List.flatMap_cons, textOf, List.append_assoc]
  | .var k :: r, acc, rest, hok, hc => by
    obtain ⟨t, ht⟩ := hc (.var k) (by simp)
    have ih := fillH_inner σ hσ v r (acc ++ t) rest (by simpa [innerOK] using hok) (fun x hx => hc x (by simp [hx]))
    simp only [List.map_cons, List.cons_append, ht, fillH, ih, innerText, List.flatMap_cons, textOf, List.append_assoc]
  | .lb :: _, _, _, hok, _ => by simp [innerOK] at hok
  | .rb :: _, _, _, hok, _ => by simp [innerOK] at hok

theorem fillH_op (σ : Tok → Tok) (hσ : Subst σ) (v : Text → Text) (o : SOp) (rest : List Tok)
    (hs : o.shapeOK = true) (hc : o.covered σ) :
    fillH v none (o.toks.map σ ++ rest) = instOp σ v o ++ fillH v none rest := by
  cases o with
  | q loc =>
    obtain ⟨t, ht⟩ := hc
    simp [SOp.toks, instOp, ht, fillH, textOf]
  | lit t => simp [SOp.toks, instOp, hσ.lit, fillH]
  | arg a =>
    obtain ⟨t, ht⟩ := hc
    simp [SOp.toks, instOp, ht, fillH, textOf]
  | hole inner =>
    have := fillH_inner σ hσ v inner [] rest hs hc
    simp only [SOp.toks, List.map_cons, List.map_append, List.map_nil, hσ.lb, hσ.rb, List.cons_append, fillH,
      List.append_assoc, List.singleton_append, instOp]
    simpa using this

theorem fillH_ops (σ : Tok → Tok) (hσ : Subst σ) (v : Text → Text) : ∀ (ops : List SOp) (rest : List Tok),
    (∀ o ∈ ops, o.shapeOK = true) → (∀ o ∈ ops, o.covered σ) →
    fillH v none ((opsToks ops).map σ ++ rest) = intercalate ", ".toList (ops.map (instOp σ v)) ++ fillH v none rest
  | [], rest, _, _ => by simp [opsToks, intercalate]
  | [o], rest, hs, hc => by
    simpa [opsToks, intercalate] using fillH_op σ hσ v o rest (hs o (by simp)) (hc o (by simp))
  | o :: o' :: os, rest, hs, hc => by
    have ih := fillH_ops σ hσ v (o' :: os) rest (fun x hx => hs x (by simp [hx])) (fun x hx => hc x (by simp [hx]))
    have e : (opsToks (o :: o' :: os)).map σ ++ rest =
        o.toks.map σ ++ (σ (.lit ", ".toList) :: ((opsToks (o' :: os)).map σ ++ rest)) := by
      simp [opsToks]
    rw [e, fillH_op σ hσ v o _ (hs o (by simp)) (hc o (by simp)), hσ.lit]
    simp only [fillH, ih]
    simp [intercalate, List.append_assoc]

theorem fillH_line (σ : Tok → Tok) (hσ : Subst σ) (v : Text → Text) (pre : Text) (l : SLine) (rest : List Tok)
    (hs : ∀ o ∈ l.ops, o.shapeOK = true) (hc : ∀ o ∈ l.ops, o.covered σ) :
    fillH v none ((lineToks pre l).map σ ++ rest) = pre ++ instLine σ v l ++ fillH v none rest := by
  simp only [lineToks, List.map_cons, List.cons_append, hσ.lit, fillH, fillH_ops σ hσ v l.ops rest hs hc, instLine]
  simp [List.append_assoc]

theorem fillH_lines (σ : Tok → Tok) (hσ : Subst σ) (v : Text → Text) : ∀ (ls : List SLine),
    (∀ l ∈ ls, ∀ o ∈ l.ops, o.shapeOK = true) → (∀ l ∈ ls, ∀ o ∈ l.ops, o.covered σ) →
    fillH v none ((ls.flatMap (lineToks ['\n'])).map σ) = ls.flatMap (fun l => '\n' :: instLine σ v l)
  | [], _, _ => by simp [fillH]
  | l :: ls, hs, hc => by
    have ih := fillH_lines σ hσ v ls (fun x hx => hs x (by simp [hx])) (fun x hx => hc x (by simp [hx]))
    simp only [List.flatMap_cons, List.map_append]
    rw [fillH_line σ hσ v ['\n'] l _ (hs l (by simp)) (hc l (by simp)), ih]
    simp

theorem intercalate_nl : ∀ (t : Text) (ts : List Text),
    intercalate ['\n'] (t :: ts) = t ++ ts.flatMap (fun x => '\n' :: x)
  | t, [] => by simp [intercalate]
  | t, t' :: ts => by
    have := intercalate_nl t' ts
    simp [intercalate, this]

/-- **the text after substitution and hole evaluation is the list of printed lines** -/
theorem fillH_flat (σ : Tok → Tok) (hσ : Subst σ) (v : Text → Text) (l : SLine) (ls : List SLine)
    (hs : ∀ x ∈ l :: ls, ∀ o ∈ x.ops, o.shapeOK = true) (hc : ∀ x ∈ l :: ls, ∀ o ∈ x.ops, o.covered σ) :
    fillH v none ((flat (l :: ls)).map σ) = intercalate ['\n'] ((l :: ls).map (instLine σ v)) := by
  simp only [flat, List.map_append]
  rw [fillH_line σ hσ v [] l _ (hs l (by simp)) (hc l (by simp)),
    fillH_lines σ hσ v ls (fun x hx => hs x (by simp [hx])) (fun x hx => hc x (by simp [hx]))]
  simp [intercalate_nl, List.flatMap_map]

end Q1t.Proofs.CQasm

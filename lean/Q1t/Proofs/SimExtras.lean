import Q1t.Proofs.SimResetAll
/-!
C02, named parts of the property: a peek (single qubit or all qubits, any basis) leaves every shot's state
untouched; a reset leaves the qubit in `|0⟩`.
-/
set_option linter.unusedSectionVars false
namespace Q1t.Sim
open Q1t Q1t.Spec Prog

section
variable {α P : Type} [CommRing α] [Amp α P] [SimAmp α]
variable {n : Nat} {valid : GateTerm P → List Nat → Prop} {nz : α → Prop}
variable {sc : List α → Nat → Prop} {sb : Nat → α → Nat → Prop}

theorem getElem?_shot_length {s : VecState α} (hwf : WFS s) {i : Nat} {col : List α}
    (h : (shotStates s)[i]? = some col) : col.length = 2 ^ s.nrBits :=
  mem_shotStates_length hwf (List.mem_of_getElem? h)

/-- **a peek leaves the state untouched** (X and Y: the basis change and its inverse cancel) -/
theorem peek_untouched (hsem : GateSemOK α n valid) {N : Nat} {s : VecState α} {c : List Nat} {q cb : Nat} {b : Basis}
    (hwf : WFState n N s c) {ds ds' : List Draw} {s' : VecState α} {c' : List Nat}
    (h : Runs sb sc (execOp (vecBackend (α := α) (P := P)) s c (.peek q cb b)) ds (.ok (s', c')) ds') :
    shotStates s' = shotStates s := by
  simp only [execOp, vecBackend] at h
  have hb := withBasis1_runs _ h
  dsimp only at hb
  have hi0 : Shape n N s := ⟨hwf.wfs, hwf.nrBits, hwf.nrShots⟩
  cases b with
  | Z =>
    obtain ⟨rfl, _⟩ := peek_body hb
    rfl
  | X =>
    obtain ⟨s1, d1, s2, d2, h1, h2, h3⟩ := hb
    obtain ⟨rfl, d3, hp⟩ := peek_body h2
    have hq : q < n := by
      have := (peekInto_runs _ _ _ _ hp).1
      rw [applyGate_nrBits h1, hwf.nrBits] at this; exact this
    have hH := (hsem.basis q hq).1
    obtain ⟨i1, ss1⟩ := gate_step hsem hH hi0 h1
    obtain ⟨_, ss3⟩ := gate_step hsem hH i1 h3
    apply List.ext_getElem?
    intro i
    rw [ss3, ss1]
    cases hc : (shotStates s)[i]? with
    | none => rfl
    | some col =>
      simp only [Option.map_some]
      rw [hsem.hh q hq col (by rw [getElem?_shot_length hwf.wfs hc, hwf.nrBits])]
  | Y =>
    obtain ⟨sa, da, s1, d1, s2, d2, sz, dz, ha', h1, h2, h3, h4⟩ := hb
    obtain ⟨rfl, d3, hp⟩ := peek_body h2
    have hq : q < n := by
      have := (peekInto_runs _ _ _ _ hp).1
      rw [applyGate_nrBits h1, applyGate_nrBits ha', hwf.nrBits] at this; exact this
    obtain ⟨hH, hS, hSd, _⟩ := hsem.basis q hq
    obtain ⟨ia, ssa⟩ := gate_step hsem hSd hi0 ha'
    obtain ⟨i1, ss1⟩ := gate_step hsem hH ia h1
    obtain ⟨iz, ss3⟩ := gate_step hsem hH i1 h3
    obtain ⟨_, ss4⟩ := gate_step hsem hS iz h4
    apply List.ext_getElem?
    intro i
    rw [ss4, ss3, ss1, ssa]
    cases hc : (shotStates s)[i]? with
    | none => rfl
    | some col =>
      simp only [Option.map_some]
      rw [hsem.hh q hq _ (gateOn_length _ _ _ _),
        hsem.ssdg q hq col (by rw [getElem?_shot_length hwf.wfs hc, hwf.nrBits])]

/-- **`peek_all` leaves the state untouched** -/
theorem peekAll_untouched (hsem : GateSemOK α n valid) {N : Nat} {s : VecState α} {c cbits : List Nat} {b : Basis}
    (hwf : WFState n N s c) {ds ds' : List Draw} {s' : VecState α} {c' : List Nat}
    (h : Runs sb sc (execOp (vecBackend (α := α) (P := P)) s c (.peekAll cbits b)) ds (.ok (s', c')) ds') :
    shotStates s' = shotStates s := by
  simp only [execOp] at h
  obtain ⟨s1, d1, s2, d2, i1, ss1, hbody, hpost⟩ := withBasisAll_shots hsem ⟨hwf.wfs, hwf.nrBits, hwf.nrShots⟩ h
  simp only [vecBackend] at hbody
  have hsame : s2 = s1 := by
    unfold VecState.measureAllHelper at hbody
    split at hbody
    · exact absurd hbody runs_err_ok
    split at hbody
    · exact absurd hbody runs_err_ok
    obtain ⟨ls, ds1, _, hk⟩ := runs_sampleAll _ _ _ _ _ hbody
    split at hk
    · exact absurd hk runs_panic_ok
    dsimp only at hk
    generalize List.foldl _ (c, 0) ls.flatten = R at hk
    simp only [Bool.false_eq_true, if_false] at hk
    obtain ⟨e, _⟩ := runs_pure_iff.mp hk
    simp only [Except.ok.injEq, Prod.mk.injEq] at e
    exact e.1
  subst hsame
  obtain ⟨_, ss3⟩ := hpost i1
  apply List.ext_getElem?
  intro i
  rw [ss3, ss1]
  cases hc : (shotStates s)[i]? with
  | none => rfl
  | some col =>
    simp only [Option.map_some]
    rw [postAll_preAll hsem b col (by rw [getElem?_shot_length hwf.wfs hc, hwf.nrBits])]

/-- **a reset leaves the qubit in `|0⟩`**: whatever the hidden outcome, the shot's new state has no amplitude on
an index with qubit `q` set -/
theorem resetShot_qubit_zero {q r : Nat} (hq : q < n) (hr : r < 2 ^ n) (col : List α) (o : Bool)
    (h1 : qbit n q r = 1) : (resetShot (P := P) n q col o).getD r 0 = 0 := by
  cases o with
  | false =>
    simp only [resetShot, Bool.false_eq_true, if_false, collapseShot, collapseCol_eq]
    rw [List.getD_eq_getElem?_getD, List.getElem?_map]
    have := getD_project n q false col r
    simp only [h1] at this
    rw [List.getD_eq_getElem?_getD] at this
    cases hc : (project n q false col)[r]? with
    | none => rfl
    | some x =>
      rw [hc] at this
      simp only [Option.getD_some] at this
      simp [this]
  | true =>
    simp only [resetShot, if_true, collapseShot, collapseCol_eq]
    rw [getD_gateOn_X hq hr]
    have hf : qbit n q (flipBit n q r) = 0 := by rw [qbit_flipBit_self, h1]
    have := getD_project n q true col (flipBit n q r)
    simp only [hf] at this
    rw [List.getD_eq_getElem?_getD] at this ⊢
    rw [List.getElem?_map]
    cases hc : (project n q true col)[flipBit n q r]? with
    | none => rfl
    | some x =>
      rw [hc] at this
      simp only [Option.getD_some] at this
      simp [this]

end
end Q1t.Sim

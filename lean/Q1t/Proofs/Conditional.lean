import Q1t.Model.Conditional
import Q1t.Spec.Conditional
import Q1t.Proofs.Bits
import Q1t.Model.Sim
/-!
Proofs for C07: `collect_conditional_ranges` is the per-range run-length encoding of the mask; the
per-shot reading of `apply_conditional_gate`.
-/
namespace Q1t.Proofs.Conditional
open Q1t.Bits Q1t.Conditional Q1t.Spec.Conditional Q1t.Proofs.Bits

def tag (icol : Nat) (l : List (Nat × Bool)) : List Piece := l.map (fun nb => (icol, nb.1, nb.2))

/-- The inner loop over a window of the mask is the run-length encoder, with the open run carried as
`(begin, prev)`. -/
theorem innerLoop_rle (control : List Bool) (icol : Nat) : ∀ (bs : List Bool) (start begin : Nat) (prev : Bool) (acc : List Piece),
    begin < start → (∀ t (h : t < bs.length), control[start + t]? = some bs[t]) →
    ∃ acc' begin' prev', innerLoop control icol (List.range' start bs.length) begin prev acc = some (acc', begin', prev') ∧
      begin' < start + bs.length ∧
      acc' ++ [(icol, start + bs.length - begin', prev')] = acc ++ tag icol (rleAux prev (start - begin) bs) := by
  intro bs
  induction bs with
  | nil =>
    intro start begin prev acc hb _
    exact ⟨acc, begin, prev, by simp [innerLoop], by simpa using hb, by simp [tag, rleAux]⟩
  | cons b bs ih =>
    intro start begin prev acc hb hget
    have h0 : control[start]? = some b := by
      have := hget 0 (by simp)
      rw [Nat.add_zero] at this; rw [this]; rfl
    have hrest : ∀ t (h : t < bs.length), control[start + 1 + t]? = some bs[t] := by
      intro t ht
      have := hget (t + 1) (by simp; omega)
      simpa [Nat.add_assoc, Nat.add_comm 1 t] using this
    simp only [List.length_cons, List.range'_succ, innerLoop, h0]
    by_cases hne : (b != prev) = true
    · have hb' : b = !prev := by cases b <;> cases prev <;> simp_all
      obtain ⟨acc', begin', prev', h1, h2, h3⟩ := ih (start + 1) start (!prev) (acc ++ [(icol, start - begin, prev)]) (by omega) hrest
      refine ⟨acc', begin', prev', by simp [hne, h1], by omega, ?_⟩
      have e : start + (bs.length + 1) = start + 1 + bs.length := by omega
      rw [e, h3]
      simp [rleAux, tag, hb']
    · have hb' : b = prev := by cases b <;> cases prev <;> simp_all
      obtain ⟨acc', begin', prev', h1, h2, h3⟩ := ih (start + 1) begin prev acc (by omega) hrest
      refine ⟨acc', begin', prev', by simp [hne, h1], by omega, ?_⟩
      have e : start + (bs.length + 1) = start + 1 + bs.length := by omega
      have e2 : start + 1 - begin = start - begin + 1 := by omega
      rw [e, h3, e2]
      simp [rleAux, hne]

theorem outerLoop_eq_spec (control : List Bool) : ∀ (counts : List Nat) (icol off : Nat) (acc : List Piece),
    (∀ c ∈ counts, 0 < c) → off + counts.sum ≤ control.length →
    outerLoop control counts icol off acc = some (acc ++ ranges counts icol (control.drop off)) := by
  intro counts
  induction counts with
  | nil => intro icol off acc _ _; simp [outerLoop, ranges]
  | cons c cs ih =>
    intro icol off acc hpos hlen
    have hc : 0 < c := hpos c (by simp)
    simp only [List.sum_cons] at hlen
    have hoff : off < control.length := by omega
    obtain ⟨c', rfl⟩ : ∃ c', c = c' + 1 := ⟨c - 1, by omega⟩
    let bs := (control.drop (off + 1)).take c'
    have hbslen : bs.length = c' := by simp [bs]; omega
    have hslice : (control.drop off).take (c' + 1) = control[off] :: bs := by
      rw [List.drop_eq_getElem_cons hoff, List.take_succ_cons]
    have hget : ∀ t (h : t < bs.length), control[off + 1 + t]? = some bs[t] := by
      intro t ht
      have ht' : t < c' := by omega
      simp only [bs, List.getElem_take, List.getElem_drop]
      rw [List.getElem?_eq_getElem]
    obtain ⟨acc', begin', prev', h1, h2, h3⟩ := innerLoop_rle control icol bs (off + 1) off control[off] acc (by omega) hget
    rw [hbslen] at h1 h2 h3
    have e1 : c' + 1 - 1 = c' := by omega
    have e2 : off + 1 + c' = off + (c' + 1) := by omega
    rw [outerLoop, List.getElem?_eq_getElem hoff]
    simp only [e1, h1]
    rw [e2] at h2 h3
    rw [if_pos h2, h3, ih (icol + 1) (off + (c' + 1)) _ (fun x hx => hpos x (by simp [hx])) (by omega)]
    have e3 : off + 1 - off = 1 := by omega
    simp only [ranges, hslice, rle, e3, tag, List.append_assoc, List.drop_drop]

/-- **collect_conditional_ranges = reference**, for every layout with positive counts covering the mask -/
theorem collectRanges_eq_spec (counts : List Nat) (control : List Bool)
    (hpos : ∀ c ∈ counts, 0 < c) (hsum : counts.sum = control.length) :
    collectRanges counts control = some (ranges counts 0 control) := by
  have := outerLoop_eq_spec control counts 0 0 [] hpos (by omega)
  simpa [collectRanges] using this

/-! ### properties of the run-length encoding -/

def runs (l : List (Nat × Bool)) : List Bool := l.flatMap (fun nb => List.replicate nb.1 nb.2)

theorem rleAux_expand : ∀ (bs : List Bool) (prev : Bool) (n : Nat),
    runs (rleAux prev n bs) = List.replicate n prev ++ bs := by
  intro bs
  induction bs with
  | nil => intro prev n; simp [rleAux, runs]
  | cons b bs ih =>
    intro prev n
    rw [rleAux]
    split
    · rename_i hne
      have : runs ((n, prev) :: rleAux b 1 bs) = List.replicate n prev ++ runs (rleAux b 1 bs) := by simp [runs]
      rw [this, ih]; simp
    · rename_i hne
      have hb : b = prev := by cases b <;> cases prev <;> simp_all
      rw [ih, hb, List.replicate_succ']; simp

theorem rle_expand (bs : List Bool) : runs (rle bs) = bs := by
  cases bs with
  | nil => rfl
  | cons b bs => rw [rle, rleAux_expand]; rfl

theorem rleAux_pos : ∀ (bs : List Bool) (prev : Bool) (n : Nat), 0 < n → ∀ p ∈ rleAux prev n bs, 0 < p.1 := by
  intro bs
  induction bs with
  | nil => intro prev n hn p hp; simp [rleAux] at hp; subst hp; exact hn
  | cons b bs ih =>
    intro prev n hn p hp
    rw [rleAux] at hp
    split at hp
    · simp only [List.mem_cons] at hp
      rcases hp with rfl | hp
      · exact hn
      · exact ih b 1 (by omega) p hp
    · exact ih prev (n + 1) (by omega) p hp

/-- neighbouring runs carry different values -/
def AdjDiff : List (Nat × Bool) → Prop
  | [] => True
  | [_] => True
  | a :: b :: r => a.2 ≠ b.2 ∧ AdjDiff (b :: r)

theorem rleAux_adj : ∀ (bs : List Bool) (prev : Bool) (n : Nat),
    ∃ k rest, rleAux prev n bs = (k, prev) :: rest ∧ AdjDiff (rleAux prev n bs) := by
  intro bs
  induction bs with
  | nil => intro prev n; exact ⟨n, [], by simp [rleAux], by simp [rleAux, AdjDiff]⟩
  | cons b bs ih =>
    intro prev n
    rw [rleAux]
    split
    · rename_i hne
      obtain ⟨k, rest, h1, h2⟩ := ih b 1
      refine ⟨n, rleAux b 1 bs, rfl, ?_⟩
      rw [h1] at h2 ⊢
      refine ⟨?_, h2⟩
      simp only
      intro h; subst h; simp at hne
    · exact ih prev (n + 1)

theorem rle_adj (bs : List Bool) : AdjDiff (rle bs) := by
  cases bs with
  | nil => trivial
  | cons b bs => obtain ⟨_, _, _, h⟩ := rleAux_adj bs b 1; exact h

theorem rle_pos (bs : List Bool) : ∀ p ∈ rle bs, 0 < p.1 := by
  cases bs with
  | nil => intro p hp; simp [rle] at hp
  | cons b bs => exact rleAux_pos bs b 1 (by omega)

/-! ### the pieces cover the shots in order -/

theorem tag_expand (icol : Nat) (l : List (Nat × Bool)) :
    (tag icol l).flatMap (fun p => List.replicate p.2.1 (p.1, p.2.2)) = (runs l).map (fun b => (icol, b)) := by
  induction l with
  | nil => rfl
  | cons nb l ih =>
    have e1 : tag icol (nb :: l) = (icol, nb.1, nb.2) :: tag icol l := rfl
    have e2 : runs (nb :: l) = List.replicate nb.1 nb.2 ++ runs l := by simp [runs]
    rw [e1, e2, List.flatMap_cons, ih]; simp

theorem zip_replicate_left {α β} (a : α) (xs : List β) : List.zip (List.replicate xs.length a) xs = xs.map (fun b => (a, b)) := by
  induction xs with
  | nil => rfl
  | cons x xs ih => simp [List.replicate_succ, ih]

/-- the expansion of the reference pieces is, shot by shot, (old range, mask value) -/
theorem ranges_expand : ∀ (counts : List Nat) (icol : Nat) (mask : List Bool), counts.sum = mask.length →
    (ranges counts icol mask).flatMap (fun p => List.replicate p.2.1 (p.1, p.2.2)) =
      List.zip (shotCols counts icol) mask := by
  intro counts
  induction counts with
  | nil => intro icol mask h; simp [ranges, shotCols]
  | cons c cs ih =>
    intro icol mask h
    simp only [List.sum_cons] at h
    have hlen : (mask.take c).length = c := by simp; omega
    have hz : List.zip (shotCols (c :: cs) icol) mask =
        List.zip (List.replicate c icol) (mask.take c) ++ List.zip (shotCols cs (icol + 1)) (mask.drop c) := by
      conv => lhs; rw [← List.take_append_drop c mask]
      rw [shotCols, List.zip_append (by simp [hlen])]
    have ht := tag_expand icol (rle (mask.take c))
    rw [rle_expand] at ht
    have hrep : List.zip (List.replicate c icol) (mask.take c) = (mask.take c).map (fun b => (icol, b)) := by
      have := zip_replicate_left icol (mask.take c)
      rwa [hlen] at this
    rw [hz, ranges, List.flatMap_append, ih (icol + 1) (mask.drop c) (by simp; omega), hrep]
    congr 1

section
variable {σ : Type} (g : σ → σ)

def expandCols (cols : List (Nat × σ)) : List σ := cols.flatMap (fun c => List.replicate c.1 c.2)

theorem buildCols_tag (states : List σ) (icol : Nat) (s0 : σ) (h0 : states[icol]? = some s0) (rest : List Piece) :
    ∀ l : List (Nat × Bool), buildCols g states (tag icol l ++ rest) =
      (buildCols g states rest).map ((l.map (fun nb => (nb.1, if nb.2 then g s0 else s0))) ++ ·) := by
  intro l
  induction l with
  | nil => simp [tag]
  | cons nb l ih =>
    have e1 : tag icol (nb :: l) ++ rest = (icol, nb.1, nb.2) :: (tag icol l ++ rest) := rfl
    rw [e1, buildCols]
    simp only [h0]
    rw [ih]
    cases buildCols g states rest <;> simp

theorem expandCols_runs (s0 : σ) (l : List (Nat × Bool)) :
    expandCols (l.map (fun nb => (nb.1, if nb.2 then g s0 else s0))) = (runs l).map (fun b => if b then g s0 else s0) := by
  induction l with
  | nil => rfl
  | cons nb l ih =>
    have e2 : runs (nb :: l) = List.replicate nb.1 nb.2 ++ runs l := by simp [runs]
    rw [e2, List.map_cons, expandCols, List.flatMap_cons]
    rw [expandCols] at ih
    rw [ih]; simp

theorem zipWith_replicate_left {α β γ} (f : α → β → γ) (a : α) (xs : List β) :
    List.zipWith f (List.replicate xs.length a) xs = xs.map (f a) := by
  induction xs with
  | nil => rfl
  | cons x xs ih => simp [List.replicate_succ, ih]

theorem buildCols_ranges (states : List σ) : ∀ (counts : List Nat) (sts : List σ) (icol : Nat) (mask : List Bool),
    counts.length = sts.length → counts.sum = mask.length →
    (∀ k (h : k < sts.length), states[icol + k]? = some sts[k]) →
    ∃ cols, buildCols g states (ranges counts icol mask) = some cols ∧
      expandCols cols = perShot g ((List.zip counts sts).flatMap (fun cs => List.replicate cs.1 cs.2)) mask := by
  intro counts
  induction counts with
  | nil =>
    intro sts icol mask hl hs _
    cases sts with
    | nil => exact ⟨[], rfl, by simp [expandCols, perShot]⟩
    | cons _ _ => simp at hl
  | cons c cs ih =>
    intro sts icol mask hl hs hst
    cases sts with
    | nil => simp at hl
    | cons s0 sts' =>
      simp only [List.sum_cons] at hs
      have h0 : states[icol]? = some s0 := by
        have := hst 0 (by simp)
        rw [Nat.add_zero] at this; rw [this]; rfl
      obtain ⟨cols', hc1, hc2⟩ := ih sts' (icol + 1) (mask.drop c) (by simpa using hl) (by simp; omega) (by
        intro k hk
        have := hst (k + 1) (by simp; omega)
        simpa [Nat.add_assoc, Nat.add_comm 1 k] using this)
      have hlen : (mask.take c).length = c := by simp; omega
      refine ⟨(rle (mask.take c)).map (fun nb => (nb.1, if nb.2 then g s0 else s0)) ++ cols', ?_, ?_⟩
      · show buildCols g states (tag icol (rle (mask.take c)) ++ ranges cs (icol + 1) (mask.drop c)) = _
        rw [buildCols_tag g states icol s0 h0, hc1]; rfl
      have e1 : expandCols ((rle (mask.take c)).map (fun nb => (nb.1, if nb.2 then g s0 else s0)) ++ cols') =
          (mask.take c).map (fun b => if b then g s0 else s0) ++ expandCols cols' := by
        have := expandCols_runs g s0 (rle (mask.take c))
        rw [rle_expand] at this
        rw [← this]; simp [expandCols]
      rw [e1, hc2]
      simp only [List.zip_cons_cons, List.flatMap_cons, perShot]
      conv => rhs; rw [← List.take_append_drop c mask]
      rw [List.zipWith_append (by simp [hlen])]
      congr 1
      have := zipWith_replicate_left (fun (s : σ) (b : Bool) => if b then g s else s) s0 (mask.take c)
      rw [hlen] at this
      rw [this]

theorem buildCols_counts (states : List σ) : ∀ (ps : List Piece) (cols : List (Nat × σ)),
    buildCols g states ps = some cols → cols.map (·.1) = ps.map (·.2.1) := by
  intro ps
  induction ps with
  | nil => intro cols h; simp [buildCols] at h; subst h; rfl
  | cons p ps ih =>
    intro cols h
    rw [buildCols] at h
    cases hs : states[p.1]? with
    | none => rw [hs] at h; cases h
    | some s =>
      rw [hs] at h; simp only at h
      cases hb : buildCols g states ps with
      | none => rw [hb] at h; cases h
      | some cols' =>
        rw [hb] at h; simp only [Option.map_some] at h
        injection h with h; subst h
        simp [ih cols' hb]

theorem shotCols_length : ∀ (counts : List Nat) (icol : Nat), (shotCols counts icol).length = counts.sum := by
  intro counts
  induction counts with
  | nil => intro _; rfl
  | cons c cs ih => intro icol; simp [shotCols, ih]

theorem pieces_length (ps : List Piece) :
    (ps.flatMap (fun p => List.replicate p.2.1 (p.1, p.2.2))).length = (ps.map (·.2.1)).sum := by
  induction ps with
  | nil => rfl
  | cons p ps ih => simp [ih]

/-- the piece lengths add up to the number of shots -/
theorem ranges_sum (counts : List Nat) (icol : Nat) (mask : List Bool) (h : counts.sum = mask.length) :
    ((ranges counts icol mask).map (·.2.1)).sum = mask.length := by
  rw [← pieces_length, ranges_expand counts icol mask h, List.length_zip, shotCols_length, h]; simp

theorem zip_fst_snd {α β} (l : List (α × β)) : List.zip (l.map (·.1)) (l.map (·.2)) = l := by
  induction l with
  | nil => rfl
  | cons x xs ih => simp [ih]

/-- **conditional_per_shot** at the level of the ranges representation: for every layout (positive
counts covering the `N` shots, one state per range), every mask and every gate action, the call
completes, and shot by shot the new state is the gate applied to the old state iff the shot's mask
bit is set — every other shot's state is the old one. -/
theorem applyConditional_per_shot (nrShots : Nat) (control : List Bool) (st : RState σ)
    (hl : st.counts.length = st.states.length) (hpos : ∀ c ∈ st.counts, 0 < c)
    (hsum : st.counts.sum = control.length) (hn : control.length = nrShots) :
    ∃ st', applyConditional nrShots g control st = .ok st' ∧
      expand st' = perShot g (expand st) control ∧
      st'.counts = (ranges st.counts 0 control).map (·.2.1) ∧ st'.counts.sum = nrShots := by
  obtain ⟨cols, h1, h2⟩ := buildCols_ranges g st.states st.counts st.states 0 control hl hsum (by
    intro k hk; simp)
  have hcounts : cols.map (·.1) = (ranges st.counts 0 control).map (·.2.1) := buildCols_counts g st.states _ _ h1
  refine ⟨⟨cols.map (·.1), cols.map (·.2)⟩, ?_, ?_, hcounts, ?_⟩
  · have hne : ¬ control.length ≠ nrShots := by omega
    simp [applyConditional, hne, collectRanges_eq_spec st.counts control hpos hsum, h1]
  · simp only [expand, zip_fst_snd]
    exact h2
  · rw [hcounts, ← hn]; exact ranges_sum st.counts 0 control hsum

end

theorem gatherAll_eq (control : List Nat) (hc : ∀ c ∈ control, c < 64) (hlen : control.length ≤ 64) :
    ∀ reg : List Word, gatherAll control reg = some (reg.map (Spec.Bits.select control)) := by
  intro reg
  induction reg with
  | nil => rfl
  | cons w ws ih => simp [gatherAll, controlWord_eq_select control w hc hlen, ih]

/-- **conditional_per_shot**: the `ConditionalGate` arm, for every control list (indices below 64, at
most 64 of them), target, register contents, layout and gate action: a shot's state gets the gate iff
the word spelt by its selected register bits (first listed = least significant) equals the target;
every other shot's state is untouched. (The register is an input only.) -/
theorem condOp_per_shot {σ : Type} (g : σ → σ) (control : List Nat) (target : Word) (reg : List Word) (st : RState σ)
    (hc : ∀ c ∈ control, c < 64) (hlen : control.length ≤ 64)
    (hl : st.counts.length = st.states.length) (hpos : ∀ c ∈ st.counts, 0 < c) (hsum : st.counts.sum = reg.length) :
    ∃ st', condOp g control target reg st = .ok st' ∧
      expand st' = perShot g (expand st) (reg.map (fun w => Spec.Bits.select control w == target)) ∧
      st'.counts.sum = reg.length := by
  have hmask : ((reg.map (Spec.Bits.select control)).map (· == target)) =
      reg.map (fun w => Spec.Bits.select control w == target) := by simp
  obtain ⟨st', h1, h2, _, h4⟩ := applyConditional_per_shot g reg.length
    (reg.map (fun w => Spec.Bits.select control w == target)) st hl hpos (by simpa using hsum) (by simp)
  refine ⟨st', ?_, h2, h4⟩
  rw [condOp, gatherAll_eq control hc hlen reg]
  simp only [hmask]; exact h1

/-- **conditional_histogram_order**: with the whole register as control list, in index order, the
control word IS the register word — the histogram key; so `target` is compared in the bit order of
histogram keys (classical bit `i` = bit `i` of the key = character `n-1-i` of the string key). -/
theorem controlWord_full_register (nc : Nat) (w : Word) (hnc : nc ≤ 64) (hw : w.toNat < 2 ^ nc) :
    controlWord (List.range nc) w = some w := by
  obtain ⟨cw, h1, h2⟩ := control_word_bit (List.range nc) w (by intro c hc; simp at hc; omega) (by simpa using hnc)
  rw [h1]; congr 1
  apply word_ext
  intro j _
  rw [h2 j]
  by_cases hj : j < nc
  · simp [List.getElem?_range hj]
  · have : (List.range nc)[j]? = none := by simp; omega
    rw [this]
    have : w.toNat.testBit j = false :=
      Nat.testBit_lt_two_pow (Nat.lt_of_lt_of_le hw (Nat.pow_le_pow_right (by omega) (by omega)))
    rw [BitVec.testBit_toNat] at this; exact this.symm

/-- the fold step of `Q1t.Sim.scanRange` -/
def simStep (control : List Bool) (icol : Nat) :=
  fun (st : List (Nat × Nat × Bool) × Nat × Bool) (ibit : Nat) =>
      let (acc, begin, prev) := st
      if control.getD ibit prev != prev then (acc ++ [(icol, ibit - begin, prev)], ibit, !prev) else st

theorem innerLoop_eq_foldl (control : List Bool) (icol : Nat) : ∀ (l : List Nat) (begin : Nat) (prev : Bool) (acc : List Piece),
    (∀ i ∈ l, i < control.length) →
    innerLoop control icol l begin prev acc = some (l.foldl (simStep control icol) (acc, begin, prev)) := by
  intro l
  induction l with
  | nil => intro _ _ _ _; rfl
  | cons i l ih =>
    intro begin prev acc h
    have hi : i < control.length := h i (by simp)
    have hget : control.getD i prev = control[i] := by
      rw [List.getD_eq_getElem?_getD, List.getElem?_eq_getElem hi]; rfl
    rw [innerLoop, List.getElem?_eq_getElem hi, List.foldl_cons]
    simp only
    have hstep : simStep control icol (acc, begin, prev) i =
        if (control[i] != prev) then (acc ++ [(icol, i - begin, prev)], i, !prev) else (acc, begin, prev) := by
      simp only [simStep, hget]
    rw [hstep]
    split
    · exact ih _ _ _ (fun x hx => h x (by simp [hx]))
    · exact ih _ _ _ (fun x hx => h x (by simp [hx]))

/-- **bridge to the lead's model** (`Q1t/Model/Sim.lean`): on every layout with positive counts covering
the mask, `Q1t.Sim.collectConditionalRanges` returns the same reference pieces. -/
theorem sim_collectLoop_eq_spec (control : List Bool) : ∀ (counts : List Nat) (icol off : Nat),
    (∀ c ∈ counts, 0 < c) → off + counts.sum ≤ control.length →
    Q1t.Sim.collectLoop control counts icol off = some (ranges counts icol (control.drop off)) := by
  intro counts
  induction counts with
  | nil => intro icol off _ _; simp [Q1t.Sim.collectLoop, ranges]
  | cons c cs ih =>
    intro icol off hpos hlen
    have hc : 0 < c := hpos c (by simp)
    simp only [List.sum_cons] at hlen
    have hoff : off < control.length := by omega
    obtain ⟨c', rfl⟩ : ∃ c', c = c' + 1 := ⟨c - 1, by omega⟩
    let bs := (control.drop (off + 1)).take c'
    have hbslen : bs.length = c' := by simp [bs]; omega
    have hslice : (control.drop off).take (c' + 1) = control[off] :: bs := by
      rw [List.drop_eq_getElem_cons hoff, List.take_succ_cons]
    have hget : ∀ t (h : t < bs.length), control[off + 1 + t]? = some bs[t] := by
      intro t ht
      have ht' : t < c' := by omega
      simp only [bs, List.getElem_take, List.getElem_drop]
      rw [List.getElem?_eq_getElem]
    obtain ⟨acc', begin', prev', h1, h2, h3⟩ := innerLoop_rle control icol bs (off + 1) off control[off] [] (by omega) hget
    rw [hbslen] at h1 h2 h3
    have hfold := innerLoop_eq_foldl control icol (List.range' (off + 1) c') off control[off] [] (by
      intro i hi; simp [List.mem_range'] at hi; omega)
    rw [h1] at hfold
    injection hfold with hfold
    have e2 : off + 1 + c' = off + (c' + 1) := by omega
    rw [e2] at h2 h3
    have hscan : Q1t.Sim.scanRange control icol off (c' + 1) = some (tag icol (rle ((control.drop off).take (c' + 1)))) := by
      unfold Q1t.Sim.scanRange
      rw [List.getElem?_eq_getElem hoff]
      simp only [Nat.add_sub_cancel]
      have : (List.range' (off + 1) c').foldl (simStep control icol) ([], off, control[off]) = (acc', begin', prev') := hfold.symm
      unfold simStep at this
      rw [this]
      have hle : off + (c' + 1) ≤ control.length := by omega
      simp only [h2, if_true, hle, true_or]
      have e3 : off + 1 - off = 1 := by omega
      rw [h3, hslice, rle, e3]; simp
    rw [Q1t.Sim.collectLoop, hscan, ih (icol + 1) (off + (c' + 1)) (fun x hx => hpos x (by simp [hx])) (by omega)]
    simp [ranges, tag, List.drop_drop]

theorem sim_collectConditionalRanges_eq (counts : List Nat) (control : List Bool)
    (hpos : ∀ c ∈ counts, 0 < c) (hsum : counts.sum = control.length) :
    Q1t.Sim.collectConditionalRanges counts control = collectRanges counts control := by
  rw [collectRanges_eq_spec counts control hpos hsum]
  have := sim_collectLoop_eq_spec control counts 0 0 hpos (by omega)
  simpa [Q1t.Sim.collectConditionalRanges] using this

theorem nat_bit_term (w isrc idst j : Nat) :
    ((((w >>> isrc) &&& 1) <<< idst).testBit j = true) ↔ (j = idst ∧ w.testBit isrc = true) := by
  rw [Nat.testBit_shiftLeft]
  simp only [Bool.and_eq_true, decide_eq_true_eq, Nat.testBit_and, Nat.testBit_shiftRight]
  constructor
  · rintro ⟨h1, h2, h3⟩
    have : j - idst = 0 := by
      rcases Nat.eq_zero_or_pos (j - idst) with h | h
      · exact h
      · rw [Nat.testBit_one_eq_true_iff_self_eq_zero] at h3; exact h3
    exact ⟨by omega, by simpa [this] using h2⟩
  · rintro ⟨rfl, h⟩
    exact ⟨by omega, by simpa using h, by simp⟩

theorem sim_fold_bits (w : Nat) : ∀ (l : List (Nat × Nat)) (acc j : Nat),
    ((l.foldl (fun acc (p : Nat × Nat) => acc ||| (((w >>> p.1) &&& 1) <<< p.2)) acc).testBit j = true) ↔
      (acc.testBit j = true ∨ ∃ p ∈ l, j = p.2 ∧ w.testBit p.1 = true) := by
  intro l
  induction l with
  | nil => intro acc j; simp
  | cons p l ih =>
    intro acc j
    rw [List.foldl_cons, ih, Nat.testBit_or, Bool.or_eq_true, nat_bit_term]
    simp only [List.mem_cons, exists_eq_or_imp]
    constructor
    · rintro ((h | h) | h)
      · exact Or.inl h
      · exact Or.inr (Or.inl h)
      · exact Or.inr (Or.inr h)
    · rintro (h | h | h)
      · exact Or.inl (Or.inl h)
      · exact Or.inl (Or.inr h)
      · exact Or.inr h

/-- **bridge**: the lead's `Q1t.Sim.controlWord` (on `Nat` words) computes the same control word. -/
theorem sim_controlWord_eq (control : List Nat) (w : Word) (hc : ∀ c ∈ control, c < 64) (hlen : control.length ≤ 64) :
    Q1t.Sim.controlWord control w.toNat = (controlWord control w).map BitVec.toNat := by
  obtain ⟨cw, h1, h2⟩ := control_word_bit control w hc hlen
  have hall : control.all Q1t.Sim.shiftOk = true := by
    rw [List.all_eq_true]; intro c hcm; simpa [Q1t.Sim.shiftOk] using hc c hcm
  rw [h1, Option.map_some, Q1t.Sim.controlWord, if_pos ⟨hall, hlen⟩]
  congr 1
  apply Nat.eq_of_testBit_eq
  intro j
  rw [Bool.eq_iff_iff]
  have hf := sim_fold_bits w.toNat control.zipIdx 0 j
  have e : (fun (acc : Nat) (x : Nat × Nat) => match x with | (isrc, idst) => acc ||| (w.toNat >>> isrc &&& 1) <<< idst) =
      (fun acc (p : Nat × Nat) => acc ||| (((w.toNat >>> p.1) &&& 1) <<< p.2)) := by
    funext acc x; rfl
  rw [e, hf, BitVec.testBit_toNat, h2 j]
  simp only [Nat.zero_testBit, Bool.false_eq_true, false_or]
  constructor
  · rintro ⟨p, hp, rfl, hbit⟩
    obtain ⟨hlt, hpe⟩ := List.mem_zipIdx hp
    simp at hlt hpe
    have : control[p.2]? = some p.1 := by rw [List.getElem?_eq_getElem hpe.1]; simp [hpe.2]
    rw [this]; simp only
    rw [← BitVec.testBit_toNat]; exact hbit
  · intro h
    cases hj : control[j]? with
    | none => rw [hj] at h; cases h
    | some c =>
      rw [hj] at h
      refine ⟨(c, j), ?_, rfl, by rw [BitVec.testBit_toNat]; exact h⟩
      rw [List.mem_zipIdx_iff_getElem?]; simpa using hj

end Q1t.Proofs.Conditional

import Q1t.Proofs.CQasmNot
set_option linter.unusedSectionVars false
set_option linter.unusedSimpArgs false
/-!
C12: the `not` bracketing at the level of the reference semantics (`Spec/CQ1`): for every control list without
repetition, every target, every branch `(ψ, w)` and every binary-controlled gate instruction `g` on those bits, the
statement sequence `not … ; g ; not …` maps the branch to `(Uψ, w)` if the listed bits of `w` spell the target, and
leaves it unchanged otherwise.
-/
namespace Q1t.Proofs.CQasm
open Q1t Q1t.CQ

variable {α P : Type} [Zero α] [One α] [Add α] [Mul α] [Neg α] [Sub α] [Amp α P]

def notStmt (k : Nat) : CQ1.Stmt := .one ⟨[], "not", [.b k]⟩

theorem seqSem_append {β} (f : β → CQ1.Branch α → Option (List (CQ1.Branch α))) :
    ∀ (xs ys : List β) (brs : List (CQ1.Branch α)),
      CQ1.seqSem f (xs ++ ys) brs = (CQ1.seqSem f xs brs).bind (CQ1.seqSem f ys)
  | [], ys, brs => by simp [CQ1.seqSem]
  | x :: xs, ys, brs => by
    simp only [List.cons_append, CQ1.seqSem]
    cases h : brs.mapM (f x) with
    | none => simp
    | some l => simp [seqSem_append f xs ys]

theorem notStmt_sem (S : CQ1.NumSem α P) (n : Nat) (nz : List α → Bool) (k : Nat) (br : CQ1.Branch α) :
    CQ1.stmtSem S n nz (notStmt k) br = some [(br.1, br.2 ^^^ (1 <<< k))] := by
  simp [notStmt, CQ1.stmtSem, CQ1.instrSem]

theorem nots_sem (S : CQ1.NumSem α P) (n : Nat) (nz : List α → Bool) :
    ∀ (ks : List Nat) (ψ : List α) (w : Nat),
      CQ1.seqSem (CQ1.stmtSem S n nz) (ks.map notStmt) [(ψ, w)] = some [(ψ, flipBits w ks)]
  | [], ψ, w => by simp [CQ1.seqSem, flipBits]
  | k :: ks, ψ, w => by
    simp only [List.map_cons, CQ1.seqSem, List.mapM_cons, List.mapM_nil, notStmt_sem]
    simp only [Option.pure_def, Option.bind_eq_bind, Option.bind_some, List.flatten_cons, List.flatten_nil,
      List.append_nil]
    rw [nots_sem S n nz ks ψ (w ^^^ (1 <<< k))]
    rfl

/-- `g` is a gate instruction conditioned on `control` whose unconditioned action is `U` -/
def ControlledBy (S : CQ1.NumSem α P) (n : Nat) (nz : List α → Bool) (g : CQ1.Instr) (control : List Nat)
    (U : List α → List α) : Prop :=
  ∀ br : CQ1.Branch α, CQ1.stmtSem S n nz (.one g) br =
    some [if control.all (CQ1.bitSet br.2) then (U br.1, br.2) else br]

/-- **the bracketing, semantically**: the listed bits spell the target — the gate is applied, the word restored -/
theorem bracket_sem_fires (S : CQ1.NumSem α P) (n : Nat) (nz : List α → Bool) (control : List Nat) (target : Nat)
    (hnd : control.Nodup) (g : CQ1.Instr) (U : List α → List α) (hg : ControlledBy S n nz g control U)
    (ψ : List α) (w : Nat) (hfire : ∀ i, ∀ (h : i < control.length), w.testBit control[i] = target.testBit i) :
    CQ1.seqSem (CQ1.stmtSem S n nz)
        ((notBits control target).map notStmt ++ [.one g] ++ (notBits control target).map notStmt) [(ψ, w)] =
      some [(U ψ, w)] := by
  have hb := (bracket_fires control target w hnd).mpr hfire
  have hg' := hg (ψ, flipBits w (notBits control target))
  rw [seqSem_append, seqSem_append, nots_sem]
  simp only [Option.bind_some, CQ1.seqSem, List.mapM_cons, List.mapM_nil, hg', hb, if_true]
  simp only [Option.pure_def, Option.bind_eq_bind, Option.bind_some, List.flatten_cons, List.flatten_nil,
    List.append_nil]
  rw [nots_sem, flipBits_restores]

/-- … they do not: nothing happens -/
theorem bracket_sem_skips (S : CQ1.NumSem α P) (n : Nat) (nz : List α → Bool) (control : List Nat) (target : Nat)
    (hnd : control.Nodup) (g : CQ1.Instr) (U : List α → List α) (hg : ControlledBy S n nz g control U)
    (ψ : List α) (w : Nat) (hno : ¬ ∀ i, ∀ (h : i < control.length), w.testBit control[i] = target.testBit i) :
    CQ1.seqSem (CQ1.stmtSem S n nz)
        ((notBits control target).map notStmt ++ [.one g] ++ (notBits control target).map notStmt) [(ψ, w)] =
      some [(ψ, w)] := by
  have hb : control.all (fun k => CQ1.bitSet (flipBits w (notBits control target)) k) = false := by
    cases hb : control.all (fun k => CQ1.bitSet (flipBits w (notBits control target)) k) with
    | false => rfl
    | true => exact absurd ((bracket_fires control target w hnd).mp hb) hno
  have hg' := hg (ψ, flipBits w (notBits control target))
  rw [seqSem_append, seqSem_append, nots_sem]
  simp only [Option.bind_some, CQ1.seqSem, List.mapM_cons, List.mapM_nil, hg', hb, Bool.false_eq_true, if_false]
  simp only [Option.pure_def, Option.bind_eq_bind, Option.bind_some, List.flatten_cons, List.flatten_nil,
    List.append_nil]
  rw [nots_sem, flipBits_restores]

end Q1t.Proofs.CQasm

import Q1t.Proofs.CQasmEquivText
import Q1t.Proofs.CQasmEquivMeasureAll
import Q1t.Proofs.CQasmComplex
/-! C12: non-vacuity of `cq_equiv_partial` over the complex numbers. -/
noncomputable section
namespace Q1t.AmpComplex
open Q1t Q1t.CQ Q1t.Proofs.CQasm

/-- `H 0; CCRX(θ) [2,0,1]; measure_y 1; reset 0` on three qubits, for every real θ, keeping every branch -/
theorem equiv_example (θ : ℝ) : ∃ steps : List (XOp ℝ × List (DStmt ℂ) × Sim.COp ℝ),
    steps.map (·.1) = [.gate (.lib "H" []) [0], .gate (.lib "CCRX" [.direct θ]) [2, 0, 1], .measure 1 1 .Y, .reset 0] ∧
    Spec.branches 3 (fun _ => true) (steps.map (·.2.2)) (CQ1.initial 3) =
      some (dSeq 3 (fun _ => true) (steps.flatMap (·.2.1)) (CQ1.initial 3)) := by
  obtain ⟨D1, c1, f1⟩ := faithful_gate (α := ℂ) lawful lawfulHalf lawfulNegHalf 3
    (fun _ => true) "H" (by decide) [] (by rw [params_const _ (by decide)]; rfl) [0] (by decide) (by decide)
    (fun _ _ _ _ => rfl)
  obtain ⟨D2, c2, f2⟩ := faithful_gate (α := ℂ) lawful lawfulHalf lawfulNegHalf 3
    (fun _ => true) "CCRX" (by decide) [θ]
    (by rw [slines_table.2.2.2.2.2.2.2.2.2.2.2.2.2.2.2.2.2.2.2.2.2.2.2]; rfl) [2, 0, 1] (by decide) (by decide)
    (fun _ _ _ _ => rfl)
  refine ⟨[(_, D1, c1), (_, D2, c2),
    (.measure 1 1 .Y, [.measure 1 (basisPre (P := ℝ) .Y) (basisPost (P := ℝ) .Y)], .measure 1 1 .Y),
    (.reset 0, [.prep 0], .reset 0)], rfl, ?_⟩
  apply circuit_equiv lawful lawfulHalf lawfulNegHalf 3 (by decide) _ rfl
  intro s hs
  simp only [List.mem_cons, List.mem_nil_iff, or_false] at hs
  rcases hs with rfl | rfl | rfl | rfl
  · exact f1
  · exact f2
  · exact FaithfulOp.measure 1 .Y (by decide)
  · exact FaithfulOp.reset 0

/-- a loop around a bundle `{ h | x }` on swapped qubits and a composite with `T`, then `V` (phase), then a measurement -/
def termSample : XGate ℝ :=
  .loop "rep".toList 2 "body" 2
    (.cons (.kron (.lib "H" []) (.lib "X" [])) [1, 0] (.cons (.comp "c" 1 (.cons (.lib "T" []) [0] .nil)) [1] .nil))

theorem termSample_ok : termOK false termSample = true := by decide +kernel

theorem equiv_example_term : ∃ steps : List (XOp ℝ × List (DStmt ℂ) × Sim.COp ℝ),
    steps.map (·.1) = [.gate termSample [2, 0], .gate (.lib "V" []) [1], .measure 0 0 .X] ∧
    ∃ r2, Spec.branches 3 (fun _ => true) (steps.map (·.2.2)) (CQ1.initial 3) = some r2 ∧
      List.Forall₂ (PhRel ℝ 3 (fun _ => true)) (dSeq 3 (fun _ => true) (steps.flatMap (·.2.1)) (CQ1.initial 3)) r2 := by
  obtain ⟨D1, c1, f1⟩ := faithful_term (α := ℂ) lawful lawfulHalf lawfulNegHalf lawfulQuarter 3 (fun _ => true)
    termSample termSample_ok [2, 0] rfl (by decide) (fun _ _ _ _ => rfl)
  obtain ⟨D2, c2, f2⟩ := faithful_term (α := ℂ) lawful lawfulHalf lawfulNegHalf lawfulQuarter 3 (fun _ => true)
    (.lib "V" []) (by decide +kernel) [1] rfl (by decide) (fun _ _ _ _ => rfl)
  refine ⟨[(_, D1, c1), (_, D2, c2),
    (.measure 0 0 .X, [.measure 0 (basisPre (P := ℝ) .X) (basisPost (P := ℝ) .X)], .measure 0 0 .X)], rfl, ?_⟩
  apply circuit_equiv_term lawful lawfulHalf lawfulNegHalf lawfulQuarter 3 (by decide) _ (fun _ _ _ => rfl) rfl
  intro s hs
  simp only [List.mem_cons, List.mem_nil_iff, or_false] at hs
  rcases hs with rfl | rfl | rfl
  · exact f1
  · exact f2
  · exact FaithfulOpT.base _ _ _ (FaithfulOpPh.exact _ _ _ (FaithfulOp.measure 0 .X (by decide)))

theorem termSample_condOk : condTermOK termSample = true := by decide +kernel

/-- `H 0; measure 0; if b[0] = 1 then (the loop / bundle / composite of `termSample`) on qubits [2, 1]; if b[0] = 0
then V 1 (phase); measure_all` on three qubits: the program's branch list is a permutation of a list related branch by
branch to the circuit's -/
theorem equiv_example_cond_measureAll : ∃ steps : List (XOp ℝ × List (DStmt ℂ) × Sim.COp ℝ),
    steps.map (·.1) = [.gate (.lib "H" []) [0], .measure 0 0 .Z, .cond [0] 1 termSample [2, 1],
      .cond [0] 0 (.lib "V" []) [1], .measureAll [0, 1, 2] .Z] ∧
    ∃ r2, Spec.branches 3 (fun _ => true) (steps.map (·.2.2)) (CQ1.initial 3) = some r2 ∧
      PermRel (PhRel ℝ 3 (fun _ => true)) (dSeq 3 (fun _ => true) (steps.flatMap (·.2.1)) (CQ1.initial 3)) r2 := by
  obtain ⟨D1, c1, f1⟩ := faithful_term (α := ℂ) lawful lawfulHalf lawfulNegHalf lawfulQuarter 3 (fun _ => true)
    (.lib "H" []) (by decide +kernel) [0] rfl (by decide) (fun _ _ _ _ => rfl)
  obtain ⟨D3, c3, f3⟩ := faithful_cond (α := ℂ) lawful lawfulHalf lawfulNegHalf lawfulQuarter 3 (fun _ => true)
    termSample termSample_condOk [2, 1] rfl (by decide) (fun _ _ _ _ => rfl) [0] 1 (by simp) (by simp) (by simp)
    (by decide)
  obtain ⟨D4, c4, f4⟩ := faithful_cond (α := ℂ) lawful lawfulHalf lawfulNegHalf lawfulQuarter 3 (fun _ => true)
    (.lib "V" []) (by decide +kernel) [1] rfl (by decide) (fun _ _ _ _ => rfl) [0] 0 (by simp) (by simp) (by simp)
    (by decide)
  refine ⟨[(_, D1, c1),
    (.measure 0 0 .Z, [.measure 0 (basisPre (P := ℝ) .Z) (basisPost (P := ℝ) .Z)], .measure 0 0 .Z),
    (_, D3, c3), (_, D4, c4), (.measureAll (List.range 3) .Z, measureAllStmts 3, .measureAll (List.range 3) .Z)],
    rfl, ?_⟩
  apply circuit_equiv_measureAll lawful lawfulHalf lawfulNegHalf lawfulQuarter 3 (by decide) _ (fun _ => rfl)
  intro s hs
  simp only [List.mem_cons, List.mem_nil_iff, or_false] at hs
  rcases hs with rfl | rfl | rfl | rfl | rfl
  · exact .base _ _ _ (.base _ _ _ f1)
  · exact .base _ _ _ (.base _ _ _ (.base _ _ _ (.exact _ _ _ (FaithfulOp.measure 0 .Z (by decide)))))
  · exact .base _ _ _ f3
  · exact .base _ _ _ f4
  · exact .measureAll

end Q1t.AmpComplex

import Q1t.Proofs.PauliActG
import Q1t.Proofs.ConjBridge
import Q1t.Proofs.ConjEmbed
import Q1t.Proofs.EmbedLift
set_option linter.unusedSectionVars false
set_option linter.unusedVariables false
set_option linter.unusedSimpArgs false
/-!
C03, general-ring part 2: matrices acting on coefficient vectors (`LMat.mulVec`), and the bridge
`mulVec (pauliMat r) v = actOps r v` between the Kronecker-product matrices of C06 and the recursive action.
-/
namespace Q1t.Proofs.TabG
open Q1t Q1t.LMat Q1t.Spec Q1t.Spec.Clifford Q1t.Tableau Q1t.Proofs.ConjBridge

variable {α A : Type} [CommRing α] [Amp α A]

theorem mulVec_length (M : LMat α) (v : List α) : (mulVec M v).length = M.length := by simp [mulVec]

/-- entries of `M · v` -/
theorem mulVec_getElem {n m : Nat} {M : LMat α} (hM : WF n m M) (v : List α) (i : Nat) (hi : i < n) :
    (mulVec M v)[i]'(by rw [mulVec_length, hM.1]; exact hi) = ∑ c ∈ Finset.range m, LMat.get M i c * v.getD c 0 := by
  have hi' : i < M.length := by rw [hM.1]; exact hi
  simp only [mulVec, List.getElem_map]
  rw [Q1t.Proofs.Route.dot_eq_sum, hM.2 _ (List.getElem_mem hi')]
  apply Finset.sum_congr rfl
  intro c _
  simp [LMat.get, List.getD_eq_getElem?_getD, List.getElem?_eq_getElem hi']

theorem getD_mulVec {n m : Nat} {M : LMat α} (hM : WF n m M) (v : List α) (i : Nat) (hi : i < n) :
    (mulVec M v).getD i 0 = ∑ c ∈ Finset.range m, LMat.get M i c * v.getD c 0 := by
  rw [← mulVec_getElem hM v i hi, List.getD_eq_getElem?_getD, List.getElem?_eq_getElem]; rfl

/-- `(A·B)·v = A·(B·v)` -/
theorem mulVec_mul {d : Nat} (hd : 0 < d) {M N : LMat α} (hM : WF d d M) (hN : WF d d N) (v : List α) :
    mulVec (mul M N) v = mulVec M (mulVec N v) := by
  have hMN : WF d d (mul M N) := wf_mul hM hN hd
  apply List.ext_getElem
  · rw [mulVec_length, mulVec_length, hMN.1, hM.1]
  · intro i h1 h2
    have hi : i < d := by rw [mulVec_length, hMN.1] at h1; exact h1
    rw [mulVec_getElem hMN v i hi, mulVec_getElem hM _ i hi]
    have e : ∀ c ∈ Finset.range d, LMat.get (mul M N) i c * v.getD c 0 =
        ∑ k ∈ Finset.range d, LMat.get M i k * (LMat.get N k c * v.getD c 0) := by
      intro c hc
      rw [get_mul hM hN hd hi (Finset.mem_range.1 hc), Finset.sum_mul,
        Fin.sum_univ_eq_sum_range (fun k => LMat.get M i k * LMat.get N k c * v.getD c 0)]
      apply Finset.sum_congr rfl; intro k _; ring
    rw [Finset.sum_congr rfl e, Finset.sum_comm]
    apply Finset.sum_congr rfl
    intro k hk
    rw [getD_mulVec hN v k (Finset.mem_range.1 hk), Finset.mul_sum]

theorem mulVec_signed {n m : Nat} {X : LMat α} (hX : WF n m X) (flip : Bool) (v : List α) :
    mulVec (signed flip X) v = (mulVec X v).map ((sgn flip : α) * ·) := by
  apply List.ext_getElem
  · simp [mulVec_length, (wf_signed hX flip).1, hX.1]
  · intro i h1 h2
    have hi : i < n := by rw [mulVec_length, (wf_signed hX flip).1] at h1; exact h1
    rw [mulVec_getElem (wf_signed hX flip) v i hi, List.getElem_map, mulVec_getElem hX v i hi, Finset.mul_sum]
    apply Finset.sum_congr rfl
    intro c hc
    rw [Q1t.Proofs.ConjEmbed.get_signed hX flip hi (Finset.mem_range.1 hc)]; ring


theorem getD_take_lt (v : List α) (m c : Nat) (hc : c < m) : (v.take m).getD c 0 = v.getD c 0 := by
  simp [List.getD_eq_getElem?_getD, List.getElem?_take, hc]

theorem getD_drop (v : List α) (m c : Nat) : (v.drop m).getD c 0 = v.getD (m + c) 0 := by
  simp [List.getD_eq_getElem?_getD, List.getElem?_drop]

/-- entries of `(S ⊗ B)·v` for a 2×2 matrix `S`: the two halves of `v` go through `B` and are mixed by `S` -/
theorem kron2_getD {m : Nat} {S B : LMat α} (hS : WF 2 2 S) (hB : WF m m B) (hm : 0 < m) (v : List α)
    (i : Nat) (hi : i < 2 * m) :
    (mulVec (kronecker S B) v).getD i 0 =
      LMat.get S (i / m) 0 * (mulVec B (v.take m)).getD (i % m) 0 +
      LMat.get S (i / m) 1 * (mulVec B (v.drop m)).getD (i % m) 0 := by
  have hK := wf_kronecker hS hB (by decide) hm
  have him : i % m < m := Nat.mod_lt _ hm
  rw [getD_mulVec hK v i hi, getD_mulVec hB _ _ him, getD_mulVec hB _ _ him, two_mul, Finset.sum_range_add,
    Finset.mul_sum, Finset.mul_sum]
  congr 1
  · apply Finset.sum_congr rfl
    intro c hc
    have hc' : c < m := Finset.mem_range.1 hc
    rw [get_kronecker hS hB (by decide) hm hi (by omega), Nat.div_eq_of_lt hc', Nat.mod_eq_of_lt hc',
      getD_take_lt v m c hc']
    ring
  · apply Finset.sum_congr rfl
    intro c hc
    have hc' : c < m := Finset.mem_range.1 hc
    have e1 : (m + c) / m = 1 := by
      rw [Nat.add_comm, Nat.add_div_right _ hm, Nat.div_eq_of_lt hc']
    have e2 : (m + c) % m = c := by
      rw [Nat.add_comm, Nat.add_mod_right, Nat.mod_eq_of_lt hc']
    rw [get_kronecker hS hB (by decide) hm hi (by omega), e1, e2, getD_drop]
    ring

theorem getD_smul (k : Nat) (w : List α) (i : Nat) : (smul A k w).getD i 0 = (Amp.I A : α) ^ k * w.getD i 0 := by
  simp only [smul, List.getD_eq_getElem?_getD, List.getElem?_map]
  cases w[i]? <;> simp

theorem getD_append_lt (x y : List α) (i : Nat) (hi : i < x.length) : (x ++ y).getD i 0 = x.getD i 0 := by
  simp [List.getD_eq_getElem?_getD, List.getElem?_append_left hi]

theorem getD_append_ge (x y : List α) (i : Nat) (hi : x.length ≤ i) : (x ++ y).getD i 0 = y.getD (i - x.length) 0 := by
  simp [List.getD_eq_getElem?_getD, List.getElem?_append_right hi]

/-- the halves form of the cell action, entry by entry, as a 2×2 matrix mixing -/
theorem cellAct_getD (h : LawfulAmp α A) (p : P) (w0 w1 : List α) (m : Nat) (h0 : w0.length = m) (h1 : w1.length = m) (hm : 0 < m)
    (i : Nat) (hi : i < 2 * m) :
    ((cellAct A p (w0, w1)).1 ++ (cellAct A p (w0, w1)).2).getD i 0 =
      LMat.get (sigma A p : LMat α) (i / m) 0 * w0.getD (i % m) 0 +
      LMat.get (sigma A p : LMat α) (i / m) 1 * w1.getD (i % m) 0 := by
  by_cases hlt : i < m
  · have e1 : i / m = 0 := Nat.div_eq_of_lt hlt
    have e2 : i % m = i := Nat.mod_eq_of_lt hlt
    have key : ∀ x y : List α, x.length = m → (x ++ y).getD i 0 = x.getD i 0 :=
      fun x y hx => getD_append_lt x y i (by rw [hx]; exact hlt)
    rw [e1, e2]
    cases p
    · simp only [cellAct]; rw [key _ _ h0]; simp [sigma, LMat.get]
    · simp only [cellAct]; rw [key _ _ h0]; simp [sigma, LMat.get]
    · simp only [cellAct]; rw [key _ _ h1]; simp [sigma, LMat.get]
    · simp only [cellAct]; rw [key _ _ (by rw [smul_length, h1]), getD_smul]; simp [sigma, LMat.get, pow_succ]
      rw [h.I_mul_I]; ring
  · have hge : m ≤ i := by omega
    have e1 : i / m = 1 := by
      apply Nat.div_eq_of_lt_le <;> omega
    have e2 : i % m = i - m := by
      rw [Nat.mod_eq_sub_mod hge, Nat.mod_eq_of_lt (by omega)]
    have key : ∀ x y : List α, x.length = m → (x ++ y).getD i 0 = y.getD (i - m) 0 :=
      fun x y hx => by rw [getD_append_ge x y i (by rw [hx]; exact hge), hx]
    rw [e1, e2]
    cases p
    · simp only [cellAct]; rw [key _ _ h0]; simp [sigma, LMat.get]
    · simp only [cellAct]; rw [key _ _ h0, getD_smul]; simp [sigma, LMat.get, pow_succ]
      rw [h.I_mul_I]; ring
    · simp only [cellAct]; rw [key _ _ h1]; simp [sigma, LMat.get]
    · simp only [cellAct]; rw [key _ _ (by rw [smul_length, h1]), getD_smul]; simp [sigma, LMat.get, pow_succ]

/-- **Bridge**: the Kronecker-product matrix of a Pauli string acts on a vector as the recursive action. -/
theorem mulVec_pauliMat (h : LawfulAmp α A) (r : List P) : ∀ v : List α, v.length = 2 ^ r.length →
    mulVec (pauliMat A r : LMat α) v = actOps A r v := by
  induction r with
  | nil =>
    intro v hv
    match v, hv with
    | [x], _ => simp [pauliMat, mulVec, LMat.dot, actOps]
  | cons p ps ih =>
    intro v hv
    have hm : 0 < 2 ^ ps.length := Nat.two_pow_pos _
    have hv' : v.length = 2 * 2 ^ ps.length := by rw [hv, List.length_cons, Nat.pow_succ]; ring
    have hhalf : v.length / 2 = 2 ^ ps.length := by omega
    have hB := wf_pauliMat (α := α) (A := A) ps
    have hS := wf_sigma (α := α) (A := A) p
    have h0 : (v.take (2 ^ ps.length)).length = 2 ^ ps.length := by simp; omega
    have h1 : (v.drop (2 ^ ps.length)).length = 2 ^ ps.length := by simp; omega
    apply List.ext_getElem
    · rw [mulVec_length, actOps_length, hv]
      exact (wf_pauliMat (α := α) (A := A) (p :: ps)).1
    · intro i hi1 hi2
      have hi : i < 2 * 2 ^ ps.length := by rw [actOps_length, hv'] at hi2; exact hi2
      have e1 : ∀ (l : List α) (hl : i < l.length), l[i] = l.getD i 0 := fun l hl => by
        simp [List.getD_eq_getElem?_getD, List.getElem?_eq_getElem hl]
      rw [e1 _ hi1, e1 _ hi2]
      show (mulVec (kronecker (sigma A p) (pauliMat A ps)) v).getD i 0 = _
      rw [kron2_getD hS hB hm v i hi, actOps_cons, hhalf, ← ih _ h0, ← ih _ h1,
        cellAct_getD h p _ _ (2 ^ ps.length) (by rw [mulVec_length, hB.1]) (by rw [mulVec_length, hB.1]) hm i hi]

end Q1t.Proofs.TabG

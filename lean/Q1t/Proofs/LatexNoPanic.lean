import Q1t.Proofs.LatexStages
/-!
C13 / C18 — the LaTeX exporter model never panics on circuits of the proved class (`opOk`) that avoid
exactly the known panic classes (`opSafe`): progress lemmas for every emitter, outside a range (from the
invariant `Inv`) and inside a range (from `InR`: a column exists, the open ranges lie inside the grid).
-/
namespace Q1t.Proofs.Latex
open Q1t.Latex Q1t.Spec.QcGrid

theorem bind_np {α β} {r : Res α} {f : α → Res β} (h1 : r ≠ .panic) (h2 : ∀ a, r = .ok a → f a ≠ .panic) :
    (r >>== f) ≠ .panic := by
  cases r with
  | ok a => exact h2 a rfl
  | err e => intro h; cases h
  | panic => exact absurd rfl h1

theorem ok_np {α} (a : α) : (Res.ok a : Res α) ≠ .panic := by intro h; cases h
theorem err_np {α} (e : Err) : (Res.err e : Res α) ≠ .panic := by intro h; cases h

/-! ## Bit lists -/

theorem getBitIndices_np (s : St) (q : List Nat) (c : Option (List Nat)) : getBitIndices s q c ≠ .panic := by
  unfold getBitIndices
  split
  · exact err_np _
  · split
    · exact ok_np _
    · split
      · exact err_np _
      · exact ok_np _

theorem getBitIndices_lt {s : St} {q : List Nat} {c : Option (List Nat)} {bits : List Nat}
    (h : getBitIndices s q c = .ok bits) : (∀ b ∈ bits, b < s.total) ∧ (∀ b ∈ q, b ∈ bits) := by
  unfold getBitIndices at h
  split at h
  · cases h
  · rename_i hf
    have hq : ∀ b ∈ q, b < s.nq := by
      intro b hb
      have := List.find?_eq_none.mp hf b hb
      simpa using this
    split at h
    · injection h with h; subst h
      exact ⟨fun b hb => by have := hq b hb; simp [St.total]; omega, fun b hb => hb⟩
    · rename_i cbs
      split at h
      · cases h
      · rename_i hfc
        injection h with h; subst h
        refine ⟨?_, fun b hb => List.mem_append_left _ hb⟩
        intro b hb
        rcases List.mem_append.mp hb with hb | hb
        · have := hq b hb; simp [St.total]; omega
        · obtain ⟨x, hx, rfl⟩ := List.mem_map.mp hb
          have := List.find?_eq_none.mp hfc x hx
          simp at this
          simp [St.total]; omega

/-- What a successful `get_bit_indices` has checked. -/
def ValidBits (nq nc : Nat) (q : List Nat) (c : Option (List Nat)) : Prop :=
  (∀ b ∈ q, b < nq) ∧ ∀ cbs, c = some cbs → ∀ b ∈ cbs, b < nc

theorem getBitIndices_valid {s : St} {q : List Nat} {c : Option (List Nat)} {bits : List Nat}
    (h : getBitIndices s q c = .ok bits) : ValidBits s.nq s.nc q c := by
  unfold getBitIndices at h
  split at h
  · cases h
  · rename_i hf
    have hq : ∀ b ∈ q, b < s.nq := by
      intro b hb
      have := List.find?_eq_none.mp hf b hb
      simpa using this
    split at h
    · exact ⟨hq, fun cbs hc => by cases hc⟩
    · rename_i cbs
      split at h
      · cases h
      · rename_i hfc
        refine ⟨hq, fun cbs' hc => ?_⟩
        injection hc with hc; subst hc
        intro b hb
        have := List.find?_eq_none.mp hfc b hb
        simpa using this

theorem startRangeOp_valid {s s1 : St} {q : List Nat} {c : Option (List Nat)} (h : startRangeOp q c s = .ok s1) :
    ValidBits s.nq s.nc q c := by
  unfold startRangeOp at h
  obtain ⟨bits, hb, _⟩ := Res.bind_eq_ok.mp h
  exact getBitIndices_valid hb

theorem anyInUse_np {iu : List Bool} {bits : List Nat} (h : ∀ b ∈ bits, b < iu.length) :
    anyInUse iu bits ≠ .panic := by
  induction bits with
  | nil => exact ok_np _
  | cons b bs ih =>
    simp only [anyInUse]
    have hb := h b (by simp)
    rw [List.getElem?_eq_getElem hb]
    cases iu[b] with
    | true => exact ok_np _
    | false => exact ih (fun x hx => h x (by simp [hx]))

theorem reserve_np {q : List Nat} {c : Option (List Nat)} {s : St} (hs : Shape s) : reserve q c s ≠ .panic := by
  unfold reserve
  refine bind_np (getBitIndices_np _ _ _) ?_
  intro bits hb
  refine bind_np (anyInUse_np ?_) (fun _ _ => ok_np _)
  intro b hbm
  rw [hs.iu]; exact (getBitIndices_lt hb).1 b hbm

theorem foldl_max_lt {bs : List Nat} {b n : Nat} (h : ∀ x ∈ b :: bs, x < n) : bs.foldl max b < n :=
  h _ (foldl_max_mem bs b)

theorem startRangeOp_np {q : List Nat} {c : Option (List Nat)} {s : St} (hs : Shape s) :
    startRangeOp q c s ≠ .panic := by
  unfold startRangeOp
  refine bind_np (getBitIndices_np _ _ _) ?_
  intro bits hb
  split
  · exact ok_np _
  · rename_i b bs
    dsimp only
    split
    · have : bs.foldl max b < s.inUse.length := by
        rw [hs.iu]; exact foldl_max_lt (getBitIndices_lt hb).1
      rw [if_pos this]; exact ok_np _
    · split
      · exact ok_np _
      · exact err_np _

theorem markRange_isSome (l : List Bool) (f n : Nat) (h : n = 0 ∨ f + n ≤ l.length) :
    ∃ l', markRange l f n = some l' := by
  induction n generalizing l f with
  | zero => exact ⟨l, rfl⟩
  | succ n ih =>
    have h' : f + (n + 1) ≤ l.length := by
      rcases h with h | h
      · omega
      · exact h
    simp only [markRange]
    rw [if_pos (by omega)]
    exact ih (l.set f true) (f + 1) (Or.inr (by simp; omega))

/-! ## Inside an open range -/

/-- "In the grid": a column exists, the state is well-shaped over `nq + nc` wires and every open range
ends inside the grid. -/
structure InG (nq nc : Nat) (s : St) : Prop where
  nq : s.nq = nq
  nc : s.nc = nc
  cols : s.rcols ≠ []
  shape : Shape s
  rin : ∀ p ∈ s.ranges, p.2 < s.total

def InR (nq nc : Nat) (s : St) : Prop := InG nq nc s ∧ s.ranges ≠ []

/-- A piece of code that runs inside a range: it does not panic and keeps the situation. -/
def InRStep (nq nc : Nat) (f : St → Res St) : Prop :=
  ∀ s1, InR nq nc s1 → f s1 ≠ .panic ∧ ∀ s2, f s1 = .ok s2 → InG nq nc s2 ∧ s2.ranges = s1.ranges

/-- A piece of code that ends by closing the innermost range. -/
def InRClose (nq nc : Nat) (k : St → Res St) : Prop :=
  ∀ s1, InR nq nc s1 → k s1 ≠ .panic ∧ ∀ s2, k s1 = .ok s2 → InG nq nc s2 ∧ s2.ranges = s1.ranges.tail

theorem InG.total {nq nc : Nat} {s : St} (h : InG nq nc s) : s.total = nq + nc := by
  simp [St.total, h.nq, h.nc]

theorem InG.of_fields {nq nc : Nat} {s s' : St} (h : InG nq nc s) (hq : s'.nq = s.nq) (hc : s'.nc = s.nc)
    (hr : s'.rcols = s.rcols) (hi : s'.inUse = s.inUse) (hg : s'.ranges = s.ranges) : InG nq nc s' :=
  ⟨hq.trans h.nq, hc.trans h.nc, by rw [hr]; exact h.cols, shape_of_fields h.shape hq hc hr hi,
   by rw [hg, total_eq hq hc]; exact h.rin⟩

theorem InRStep.bind {nq nc : Nat} {f g : St → Res St} (hf : InRStep nq nc f) (hg : InRStep nq nc g) :
    InRStep nq nc (fun s => f s >>== g) := by
  intro s1 h1
  obtain ⟨np, ok⟩ := hf s1 h1
  refine ⟨bind_np np (fun a ha => (hg a ⟨(ok a ha).1, by rw [(ok a ha).2]; exact h1.2⟩).1), ?_⟩
  intro s2 h2
  obtain ⟨a, ha, h2⟩ := Res.bind_eq_ok.mp h2
  obtain ⟨ig, hr⟩ := ok a ha
  obtain ⟨ig2, hr2⟩ := (hg a ⟨ig, by rw [hr]; exact h1.2⟩).2 s2 h2
  exact ⟨ig2, hr2.trans hr⟩

theorem InRStep.close {nq nc : Nat} {f k : St → Res St} (hf : InRStep nq nc f) (hk : InRClose nq nc k) :
    InRClose nq nc (fun s => f s >>== k) := by
  intro s1 h1
  obtain ⟨np, ok⟩ := hf s1 h1
  refine ⟨bind_np np (fun a ha => (hk a ⟨(ok a ha).1, by rw [(ok a ha).2]; exact h1.2⟩).1), ?_⟩
  intro s2 h2
  obtain ⟨a, ha, h2⟩ := Res.bind_eq_ok.mp h2
  obtain ⟨ig, hr⟩ := ok a ha
  obtain ⟨ig2, hr2⟩ := (hk a ⟨ig, by rw [hr]; exact h1.2⟩).2 s2 h2
  exact ⟨ig2, by rw [hr2, hr]⟩

/-- A check that may refuse (error) but not panic, before the code. -/
theorem InRStep.guard {nq nc : Nat} {α} {r : Res α} {f : St → Res St} (hr : r ≠ .panic) (hf : InRStep nq nc f) :
    InRStep nq nc (fun s => r >>== fun _ => f s) := by
  intro s1 h1
  cases r with
  | ok a => exact hf s1 h1
  | err e => exact ⟨err_np _, fun s2 h => by cases h⟩
  | panic => exact absurd rfl hr

theorem InRStep.ctl {nq nc : Nat} {f : St → Res St} (hf : InRStep nq nc f) (b : Bool) :
    InRStep nq nc (fun s => f { s with controlled := b }) := by
  intro s1 h1
  exact hf { s1 with controlled := b } ⟨h1.1.of_fields rfl rfl rfl rfl rfl, h1.2⟩

theorem InRStep.pure (nq nc : Nat) : InRStep nq nc (fun s => .ok s) := by
  intro s1 h1
  exact ⟨ok_np _, fun s2 h => by injection h with h; subst h; exact ⟨h1.1, rfl⟩⟩

theorem checkNrBits_np (g : Gate) (bits : List Nat) : checkNrBits g bits ≠ .panic := by
  unfold checkNrBits; split
  · exact err_np _
  · exact ok_np _

theorem setField_step {nq nc b : Nat} (y : Sym) (hb : b < nq + nc) : InRStep nq nc (setField b y) := by
  intro s1 h1
  have hne : s1.ranges.isEmpty = false := by cases hr : s1.ranges <;> simp_all [InR]
  constructor
  · unfold setField
    simp only [hne, Bool.false_eq_true, if_false, Res.bind_ok]
    obtain ⟨col, rest, hc⟩ := List.exists_cons_of_ne_nil h1.1.cols
    rw [hc]
    dsimp only
    have h2 : b < col.length ∧ b < s1.inUse.length := by
      rw [h1.1.shape.cols col (by rw [hc]; simp), h1.1.shape.iu, h1.1.total]; exact ⟨hb, hb⟩
    rw [if_pos h2]; exact ok_np _
  · intro s2 h2
    obtain ⟨hw, hr, _⟩ := setField_inRange h1.2 h2
    exact ⟨⟨hw.nq.trans h1.1.nq, hw.nc.trans h1.1.nc, hw.rcols_ne, hw.shape h1.1.shape,
      by rw [hr, total_eq hw.nq hw.nc]; exact h1.1.rin⟩, hr⟩

theorem endRangeOp_close (nq nc : Nat) : InRClose nq nc endRangeOp := by
  intro s1 h1
  obtain ⟨⟨f, l⟩, rest, hr⟩ := List.exists_cons_of_ne_nil h1.2
  have hl : l < s1.inUse.length := by
    rw [h1.1.shape.iu]; exact h1.1.rin (f, l) (by rw [hr]; simp)
  obtain ⟨iu, hm⟩ := markRange_isSome s1.inUse f (l + 1 - f) (by omega)
  have he : endRangeOp s1 = .ok { s1 with inUse := iu, ranges := rest } := by
    unfold endRangeOp; rw [hr]; dsimp only; rw [hm]
  refine ⟨by rw [he]; exact ok_np _, ?_⟩
  intro s2 h2
  rw [he] at h2; injection h2 with h2; subst h2
  refine ⟨⟨h1.1.nq, h1.1.nc, h1.1.cols, (keeps_endRangeOp he).shape h1.1.shape, ?_⟩, by simp [hr]⟩
  intro p hp
  exact h1.1.rin p (by rw [hr]; simp [hp])

/-- A nested range: opened inside the open one (or refused), closed again by the continuation. -/
theorem range_step {nq nc : Nat} {q : List Nat} {c : Option (List Nat)} {k : St → Res St} (hq : q ≠ [])
    (hk' : ValidBits nq nc q c → InRClose nq nc k) : InRStep nq nc (fun s => startRangeOp q c s >>== k) := by
  intro s1 h1
  by_cases hv : ValidBits nq nc q c
  case neg =>
    have : ∀ s2, startRangeOp q c s1 ≠ .ok s2 := by
      intro s2 h2
      have := startRangeOp_valid h2
      rw [h1.1.nq, h1.1.nc] at this; exact hv this
    cases hres : startRangeOp q c s1 with
    | ok a => exact absurd hres (this a)
    | err e =>
      refine ⟨?_, ?_⟩
      · show (startRangeOp q c s1 >>== k) ≠ .panic
        rw [hres]; exact err_np _
      · intro s2 h
        have h' : (startRangeOp q c s1 >>== k) = .ok s2 := h
        rw [hres] at h'; cases h'
    | panic => exact absurd hres (startRangeOp_np h1.1.shape)
  have hk := hk' hv
  have hnp := startRangeOp_np (q := q) (c := c) h1.1.shape
  -- what a successful `start_range_op` inside a range looks like
  have hok : ∀ s2, startRangeOp q c s1 = .ok s2 → InR nq nc s2 ∧ s2.ranges.tail = s1.ranges := by
    intro s2 h2
    unfold startRangeOp at h2
    obtain ⟨bits, hb, h2⟩ := Res.bind_eq_ok.mp h2
    split at h2
    · obtain ⟨x, hx⟩ := List.exists_mem_of_ne_nil q hq
      have := (getBitIndices_lt hb).2 x hx
      cases this
    · rename_i b bs
      dsimp only at h2
      split at h2
      · rename_i hnil; exact absurd hnil h1.2
      · rename_i of ol orest hrs
        split at h2
        · rename_i hnest
          injection h2 with h2; subst h2
          refine ⟨⟨⟨h1.1.nq, h1.1.nc, h1.1.cols, shape_of_fields h1.1.shape rfl rfl rfl rfl, ?_⟩, by simp⟩, by simp⟩
          intro p hp
          simp only [List.mem_cons] at hp
          rcases hp with rfl | hp
          · have := h1.1.rin (of, ol) (by rw [hrs]; simp)
            simp only at this ⊢
            show bs.foldl max b < s1.total
            omega
          · exact h1.1.rin p hp
        · cases h2
  refine ⟨bind_np hnp (fun a ha => (hk a (hok a ha).1).1), ?_⟩
  intro s3 h3
  obtain ⟨a, ha, h3⟩ := Res.bind_eq_ok.mp h3
  obtain ⟨ir, ht⟩ := hok a ha
  obtain ⟨ig, hr⟩ := (hk a ir).2 s3 h3
  exact ⟨ig, by rw [hr, ht]⟩

/-- A range opened outside any range (state satisfying `Inv`) and closed by the continuation. -/
theorem range_top_np {q : List Nat} {c : Option (List Nat)} {s : St} {k : St → Res St} (hinv : Inv s)
    (hq : q ≠ []) (hk' : ValidBits s.nq s.nc q c → InRClose s.nq s.nc k) : (startRangeOp q c s >>== k) ≠ .panic := by
  refine bind_np (startRangeOp_np hinv.shape) ?_
  intro s1 h1
  have hk := hk' (startRangeOp_valid h1)
  obtain ⟨bits, hb, hcase⟩ := startRangeOp_top hinv.shape hinv.noRange h1
  obtain ⟨x, hx⟩ := List.exists_mem_of_ne_nil q hq
  have hxb := (getBitIndices_lt hb).2 x hx
  rcases hcase with ⟨he, _⟩ | ⟨s0, f, l, hs0, hs1, hl, hfree, hin⟩
  · rw [he] at hxb; cases hxb
  · have hpre : Pre s s0 := by
      rcases hs0 with rfl | rfl
      · exact Or.inl rfl
      · exact Or.inr ⟨hinv.noRange, rfl⟩
    have hinv0 : Inv s0 := hpre.inv hinv
    have hfx := hfree x (hin x hxb).1 (hin x hxb).2
    have hcols0 : s0.rcols ≠ [] := by
      intro he
      have := hinv0.start he x false hfx
      cases this
    have hq0 : s0.nq = s.nq := by rcases hs0 with rfl | rfl <;> rfl
    have hc0 : s0.nc = s.nc := by rcases hs0 with rfl | rfl <;> rfl
    refine (hk s1 ⟨⟨by rw [hs1]; exact hq0, by rw [hs1]; exact hc0, by rw [hs1]; exact hcols0,
      by rw [hs1]; exact shape_of_fields hinv0.shape rfl rfl rfl rfl, ?_⟩, by rw [hs1]; simp⟩).1
    intro p hp
    rw [hs1] at hp
    simp only [List.mem_singleton] at hp
    subst hp
    rw [hs1]
    show l < s0.total
    rw [total_eq hq0 hc0]; exact hl

/-! ## Outside a range -/

theorem setField_np_top {b : Nat} {y : Sym} {s : St} (hinv : Inv s) : setField b y s ≠ .panic := by
  unfold setField
  simp only [hinv.noRange, List.isEmpty_nil, if_true]
  refine bind_np (reserve_np hinv.shape) ?_
  intro s0 h0
  obtain ⟨hs0, hfree⟩ := reserve_top h0
  have hfb := hfree b (by simp)
  have hinv0 : Inv s0 := by
    rcases hs0 with rfl | rfl
    · exact hinv
    · exact inv_addColumn hinv
  have hbl : b < s0.inUse.length := by
    rcases Nat.lt_or_ge b s0.inUse.length with h | h
    · exact h
    · rw [List.getElem?_eq_none h] at hfb; cases hfb
  cases hc : s0.rcols with
  | nil => have := hinv0.start hc b false hfb; cases this
  | cons col rest =>
    dsimp only
    have h2 : b < col.length ∧ b < s0.inUse.length := by
      refine ⟨?_, hbl⟩
      rw [hinv0.shape.cols col (by rw [hc]; simp), ← hinv0.shape.iu]; exact hbl
    rw [if_pos h2]; exact ok_np _

/-! ## One-column gates -/

/-- The body of `C<G>::latex` after the range has been opened. -/
def ctlBody (g : Gate) (ctl t : Nat) (ts : List Nat) (s1 : St) : Res St :=
  (if ts.foldl min t > ctl ∧ ts.foldl max t > ctl then
      setField ctl (.ctrl ((ts.foldl min t - ctl : Nat) : Int)) s1
    else if ts.foldl min t < ctl ∧ ts.foldl max t < ctl then
      setField ctl (.ctrl (((ts.foldl max t : Nat) : Int) - (ctl : Int))) s1
    else .panic) >>== fun s2 =>
  latex g (t :: ts) { s2 with controlled := true } >>== fun s3 =>
  endRangeOp { s3 with controlled := s2.controlled }

theorem ctlBody_close {nq nc : Nat} {g : Gate} {ctl t : Nat} {ts : List Nat}
    (hpl : (ts.foldl min t > ctl ∧ ts.foldl max t > ctl) ∨ (ts.foldl min t < ctl ∧ ts.foldl max t < ctl))
    (hctl : ctl < nq + nc) (hg : InRStep nq nc (latex g (t :: ts))) : InRClose nq nc (ctlBody g ctl t ts) := by
  intro s1 h1
  have hsf : ∃ y, (if ts.foldl min t > ctl ∧ ts.foldl max t > ctl then
      setField ctl (.ctrl ((ts.foldl min t - ctl : Nat) : Int)) s1
    else if ts.foldl min t < ctl ∧ ts.foldl max t < ctl then
      setField ctl (.ctrl (((ts.foldl max t : Nat) : Int) - (ctl : Int))) s1
    else .panic) = setField ctl y s1 := by
    by_cases hA : ts.foldl min t > ctl ∧ ts.foldl max t > ctl
    · exact ⟨_, by rw [if_pos hA]⟩
    · rcases hpl with h | h
      · exact absurd h hA
      · exact ⟨_, by rw [if_neg hA, if_pos h]⟩
  obtain ⟨y, hy⟩ := hsf
  unfold ctlBody
  rw [hy]
  obtain ⟨np1, ok1⟩ := setField_step y hctl s1 h1
  constructor
  · refine bind_np np1 ?_
    intro s2 h2
    obtain ⟨ig2, hr2⟩ := ok1 s2 h2
    have ir2 : InR nq nc { s2 with controlled := true } :=
      ⟨ig2.of_fields rfl rfl rfl rfl rfl, by show s2.ranges ≠ []; rw [hr2]; exact h1.2⟩
    obtain ⟨np3, ok3⟩ := hg _ ir2
    refine bind_np np3 ?_
    intro s3 h3
    obtain ⟨ig3, hr3⟩ := ok3 s3 h3
    exact (endRangeOp_close nq nc { s3 with controlled := s2.controlled }
      ⟨ig3.of_fields rfl rfl rfl rfl rfl, by show s3.ranges ≠ []; rw [hr3]; show s2.ranges ≠ []; rw [hr2]; exact h1.2⟩).1
  · intro s4 h4
    obtain ⟨s2, h2, h4⟩ := Res.bind_eq_ok.mp h4
    obtain ⟨s3, h3, h4⟩ := Res.bind_eq_ok.mp h4
    obtain ⟨ig2, hr2⟩ := ok1 s2 h2
    have ir2 : InR nq nc { s2 with controlled := true } :=
      ⟨ig2.of_fields rfl rfl rfl rfl rfl, by show s2.ranges ≠ []; rw [hr2]; exact h1.2⟩
    obtain ⟨ig3, hr3⟩ := (hg _ ir2).2 s3 h3
    obtain ⟨ig4, hr4⟩ := (endRangeOp_close nq nc { s3 with controlled := s2.controlled }
      ⟨ig3.of_fields rfl rfl rfl rfl rfl, by show s3.ranges ≠ []; rw [hr3]; show s2.ranges ≠ []; rw [hr2]; exact h1.2⟩).2 s4 h4
    refine ⟨ig4, ?_⟩
    rw [hr4]
    show s3.ranges.tail = s1.ranges.tail
    rw [hr3]
    show s2.ranges.tail = s1.ranges.tail
    rw [hr2]

theorem latex_c_eq (g : Gate) (ctl t : Nat) (ts : List Nat) (s : St) :
    latex (.c g) (ctl :: t :: ts) s =
      (checkNrBits (.c g) (ctl :: t :: ts) >>== fun _ =>
        startRangeOp (ctl :: t :: ts) none s >>== ctlBody g ctl t ts) := by
  simp only [latex]
  rfl

theorem goodPlace_c {g : Gate} {ctl t : Nat} {ts : List Nat} (h : goodPlace (.c g) (ctl :: t :: ts) = true) :
    ((ts.foldl min t > ctl ∧ ts.foldl max t > ctl) ∨ (ts.foldl min t < ctl ∧ ts.foldl max t < ctl)) ∧
      goodPlace g (t :: ts) = true := by
  simpa [goodPlace] using h

/-- One-column gates inside a range (under a control or a condition): no panic, situation kept. -/
theorem simple_step {nq nc : Nat} : ∀ (g : Gate), simple g = true → ∀ (bits : List Nat), goodPlace g bits = true →
    (∀ b ∈ bits, b < nq) → InRStep nq nc (latex g bits)
  | .box l n, hs, bits, hg, hv => by
    simp only [simple, beq_iff_eq] at hs; subst hs
    match bits, hg with
    | [b], _ =>
      have hb : b < nq + nc := by have := hv b (by simp); omega
      have key : InRStep nq nc (fun s => startRangeOp [b] none s >>== fun s1 =>
          setField b (.gate l none) s1 >>== endRangeOp) :=
        range_step (by simp) (fun _ => (setField_step _ hb).close (endRangeOp_close nq nc))
      intro s1 h1
      have := key s1 h1
      have he : latex (.box l 1) [b] s1 = (startRangeOp [b] none s1 >>== fun s1 =>
          setField b (.gate l none) s1 >>== endRangeOp) := by
        have hgr : getRanges [b] = some [(b, b)] := by simp [getRanges, sortNat, insertNat, rangesGo]
        simp only [latex, checkNrBits, Gate.nbits, List.length_singleton, ne_eq, not_true_eq_false, if_false,
          Res.bind_ok, addBlockGate, hgr, drawRange, if_true, blockRest]
      rw [he]; exact this
  | .x, _, bits, hg, hv => by
    match bits, hg with
    | [b], _ =>
      have hb : b < nq + nc := by have := hv b (by simp); omega
      intro s1 h1
      have := setField_step (nq := nq) (nc := nc) (if s1.controlled then Sym.targ else .gate "X" none) hb s1 h1
      simpa [latex, checkNrBits, Gate.nbits] using this
  | .z, _, bits, hg, hv => by
    match bits, hg with
    | [b], _ =>
      have hb : b < nq + nc := by have := hv b (by simp); omega
      intro s1 h1
      have := setField_step (nq := nq) (nc := nc) (if s1.controlled then Sym.control else .gate "Z" none) hb s1 h1
      simpa [latex, checkNrBits, Gate.nbits] using this
  | .swap, _, bits, hg, hv => by
    match bits, hg with
    | [x0, x1], _ =>
      have h0 : x0 < nq + nc := by have := hv x0 (by simp); omega
      have h1' : x1 < nq + nc := by have := hv x1 (by simp); omega
      have hb0 : (if x1 < x0 then x1 else x0) < nq + nc := by split <;> assumption
      have hb1 : (if x1 < x0 then x0 else x1) < nq + nc := by split <;> assumption
      have key : InRStep nq nc (fun s => startRangeOp [x0, x1] none s >>== fun s1 =>
          setField (if x1 < x0 then x1 else x0)
            (.qswap (some (((if x1 < x0 then x0 else x1) - (if x1 < x0 then x1 else x0) : Nat) : Int))) s1 >>== fun s2 =>
          setField (if x1 < x0 then x0 else x1) (.qswap none) s2 >>== endRangeOp) :=
        range_step (by simp) (fun _ => (setField_step _ hb0).close ((setField_step _ hb1).close (endRangeOp_close nq nc)))
      intro s1 h1
      have := key s1 h1
      simpa [latex, checkNrBits, Gate.nbits] using this
  | .c g, hs, bits, hg, hv => by
    have hsg : simple g = true := by simpa [simple] using hs
    match bits, hg with
    | ctl :: t :: ts, hg =>
      obtain ⟨hpl, hgi⟩ := goodPlace_c hg
      have hctl : ctl < nq + nc := by have := hv ctl (by simp); omega
      have ih := simple_step (nq := nq) (nc := nc) g hsg (t :: ts) hgi (fun b hb => hv b (by simp [List.mem_cons] at hb ⊢; exact Or.inr hb))
      have key : InRStep nq nc (fun s => checkNrBits (.c g) (ctl :: t :: ts) >>== fun _ =>
          startRangeOp (ctl :: t :: ts) none s >>== ctlBody g ctl t ts) :=
        InRStep.guard (checkNrBits_np _ _) (range_step (by simp) (fun _ => ctlBody_close hpl hctl ih))
      intro s1 h1
      rw [latex_c_eq]; exact key s1 h1

/-- One-column gates outside a range. -/
theorem simple_np {g : Gate} (hs : simple g = true) {bits : List Nat} (hg : goodPlace g bits = true) {s : St}
    (hinv : Inv s) : latex g bits s ≠ .panic := by
  cases g with
  | box l n =>
    simp only [simple, beq_iff_eq] at hs; subst hs
    match bits, hg with
    | [b], _ =>
      have he : latex (.box l 1) [b] s = (startRangeOp [b] none s >>== fun s1 =>
          setField b (.gate l none) s1 >>== endRangeOp) := by
        have hgr : getRanges [b] = some [(b, b)] := by simp [getRanges, sortNat, insertNat, rangesGo]
        simp only [latex, checkNrBits, Gate.nbits, List.length_singleton, ne_eq, not_true_eq_false, if_false,
          Res.bind_ok, addBlockGate, hgr, drawRange, if_true, blockRest]
      rw [he]
      refine range_top_np hinv (by simp) (fun hv => ?_)
      have hb : b < s.nq + s.nc := by have := hv.1 b (by simp); omega
      exact (setField_step _ hb).close (endRangeOp_close _ _)
  | x =>
    match bits, hg with
    | [b], _ =>
      have := setField_np_top (b := b) (y := if s.controlled then Sym.targ else .gate "X" none) hinv
      simpa [latex, checkNrBits, Gate.nbits] using this
  | z =>
    match bits, hg with
    | [b], _ =>
      have := setField_np_top (b := b) (y := if s.controlled then Sym.control else .gate "Z" none) hinv
      simpa [latex, checkNrBits, Gate.nbits] using this
  | swap =>
    match bits, hg with
    | [x0, x1], _ =>
      have key : (startRangeOp [x0, x1] none s >>== fun s1 =>
          setField (if x1 < x0 then x1 else x0)
            (.qswap (some (((if x1 < x0 then x0 else x1) - (if x1 < x0 then x1 else x0) : Nat) : Int))) s1 >>== fun s2 =>
          setField (if x1 < x0 then x0 else x1) (.qswap none) s2 >>== endRangeOp) ≠ .panic := by
        refine range_top_np hinv (by simp) (fun hv => ?_)
        have h0 : x0 < s.nq + s.nc := by have := hv.1 x0 (by simp); omega
        have h1' : x1 < s.nq + s.nc := by have := hv.1 x1 (by simp); omega
        have hb0 : (if x1 < x0 then x1 else x0) < s.nq + s.nc := by split <;> assumption
        have hb1 : (if x1 < x0 then x0 else x1) < s.nq + s.nc := by split <;> assumption
        exact (setField_step _ hb0).close ((setField_step _ hb1).close (endRangeOp_close _ _))
      simpa [latex, checkNrBits, Gate.nbits] using key
  | c g =>
    have hsg : simple g = true := by simpa [simple] using hs
    match bits, hg with
    | ctl :: t :: ts, hg =>
      obtain ⟨hpl, hgi⟩ := goodPlace_c hg
      rw [latex_c_eq]
      refine bind_np (checkNrBits_np _ _) (fun _ _ => ?_)
      refine range_top_np hinv (by simp) (fun hv => ?_)
      have hctl : ctl < s.nq + s.nc := by have := hv.1 ctl (by simp); omega
      exact ctlBody_close hpl hctl
        (simple_step g hsg (t :: ts) hgi (fun b hb => hv.1 b (by simp [List.mem_cons] at hb ⊢; exact Or.inr hb)))
  | i => simp [simple] at hs
  | kron _ _ => simp [simple] at hs
  | comp _ _ _ => simp [simple] at hs
  | loop _ _ => simp [simple] at hs

/-! ## Conditions, resets, measurements -/

theorem condLoop_step {nq nc : Nat} (target : Nat) : ∀ (bp : List (Nat × Nat)) (pbit : Nat),
    (∀ p ∈ bp, p.1 < nq + nc ∧ p.2 < 64) → InRStep nq nc (condLoop target bp pbit)
  | [], _, _ => by
    intro s1 h1
    exact ⟨ok_np _, fun s2 h => by simp only [condLoop] at h; injection h with h; subst h; exact ⟨h1.1, rfl⟩⟩
  | (bit, pos) :: rest, pbit, hv => by
    have hb := hv (bit, pos) (by simp)
    have ih := condLoop_step (nq := nq) (nc := nc) target rest bit (fun p hp => hv p (by simp [hp]))
    have key : InRStep nq nc (fun s =>
        setField bit (if target.testBit pos then Sym.cctrl ((pbit : Int) - (bit : Int)) else Sym.cctrlo ((pbit : Int) - (bit : Int))) s >>==
          condLoop target rest bit) := (setField_step _ hb.1).bind ih
    intro s1 h1
    have := key s1 h1
    have hp : ¬ pos ≥ 64 := by have := hb.2; simp only at this; omega
    simpa [condLoop, hp] using this

theorem mem_zipIdx_lt {α} {l : List α} {a : α} {i : Nat} (h : (a, i) ∈ l.zipIdx) : a ∈ l ∧ i < l.length := by
  rw [List.mem_zipIdx_iff_getElem?] at h
  refine ⟨List.mem_of_getElem? h, ?_⟩
  rcases Nat.lt_or_ge i l.length with hl | hl
  · exact hl
  · rw [List.getElem?_eq_none hl] at h; cases h

theorem setCondition_step {nq nc : Nat} (control : List Nat) (target : Nat) (qbits : List Nat)
    (h64 : control.length ≤ 64) : InRStep nq nc (setCondition control target qbits) := by
  intro s1 h1
  unfold setCondition
  split
  · exact ⟨err_np _, fun s2 h => by cases h⟩
  · split
    · exact ⟨err_np _, fun s2 h => by cases h⟩
    · rename_i hfc
      split
      · exact ⟨ok_np _, fun s2 h => by injection h with h; subst h; exact ⟨h1.1, rfl⟩⟩
      · rename_i q qs
        dsimp only
        refine condLoop_step target _ _ ?_ s1 h1
        intro p hp
        have hp' := (sortPairs_perm _).mem_iff.mp hp
        obtain ⟨y, hy, rfl⟩ := List.mem_map.mp hp'
        obtain ⟨hm, hl⟩ := mem_zipIdx_lt (a := y.1) (i := y.2) (by cases y; exact hy)
        have := List.find?_eq_none.mp hfc y.1 hm
        simp only [ge_iff_le, decide_eq_true_eq, Nat.not_le] at this
        rw [h1.1.nq]
        exact ⟨by rw [h1.1.nc] at this; omega, by simp only; omega⟩

theorem resetLoop_step {nq nc : Nat} : ∀ (n q : Nat), q + n ≤ nq → InRStep nq nc (resetLoop q n)
  | 0, q, _ => by
    intro s1 h1
    exact ⟨ok_np _, fun s2 h => by simp only [resetLoop] at h; injection h with h; subst h; exact ⟨h1.1, rfl⟩⟩
  | n + 1, q, h => by
    have ih := resetLoop_step (nq := nq) (nc := nc) n (q + 1) (by omega)
    have key : InRStep nq nc (fun s => setField q .reset s >>== resetLoop (q + 1) n) :=
      (setField_step _ (by omega)).bind ih
    intro s1 h1
    have := key s1 h1
    simpa [resetLoop, setReset] using this

theorem setMeasurement_np {q c : Nat} {b : Option String} {s : St} (hinv : Inv s) :
    setMeasurement q c b s ≠ .panic := by
  unfold setMeasurement
  dsimp only
  refine range_top_np hinv (by simp) (fun hv => ?_)
  have hq : q < s.nq + s.nc := by have := hv.1 q (by simp); omega
  have hc : s.nq + c < s.nq + s.nc := by have := hv.2 [c] rfl c (by simp); omega
  exact (setField_step _ hq).close ((setField_step _ hc).close (endRangeOp_close _ _))

/-! ## The decidable strengthening: exactly the known panic classes are excluded -/

mutual
/-- No loop of three or more iterations inside. -/
def noBig : Gate → Bool
  | .loop k body => decide (k < 3) && noBig body
  | .kron a b => noBig a && noBig b
  | .comp _ _ ops => noBigSubs ops
  | .c g => noBig g
  | _ => true
def noBigSubs : Subs → Bool
  | .nil => true
  | .cons g _ rest => noBig g && noBigSubs rest
end

mutual
/-- A gate placement that avoids the known panic classes of the exporter which `topOk` does not
already exclude (control between targets IS excluded by `topOk`):
* a loop of ≥ 3 iterations needs at least one operand, operands that are qubits of the circuit
  (`zero-width loop`, `min().unwrap()`; `matrix.len() - 1` in a circuit without wires), and a body without
  another loop of ≥ 3 iterations (`nested loop`: underflow in the header offsets);
* every sub-gate of a composite addresses local qubits inside the composite (`sub-bit out of range`). -/
def gateSafe (nq : Nat) : Gate → List Nat → Bool
  | .kron a b, bits => gateSafe nq a (bits.take a.nbits) && gateSafe nq b (bits.drop a.nbits)
  | .comp _ _ ops, bits => subsSafe nq ops bits
  | .loop k body, bits =>
    gateSafe nq body bits && (decide (k < 3) || (!bits.isEmpty && bits.all (· < nq) && noBig body))
  | _, _ => true
def subsSafe (nq : Nat) : Subs → List Nat → Bool
  | .nil, _ => true
  | .cons g sb rest, bits =>
    (match subBits bits sb with
     | some gb => gateSafe nq g gb
     | none => false) && subsSafe nq rest bits
end

/-- Operations avoiding the known panic classes; a condition on more than 64 classical bits overflows
`1 << pos` on the `u64` target word (checked builds). -/
def opSafe (nq : Nat) : Op → Bool
  | .gate g bits => gateSafe nq g bits
  | .cond control _ _ _ => decide (control.length ≤ 64)
  | _ => true

/-! ## Loops -/

theorem startLoop_np {n : Nat} {s : St} (hinv : Inv s) (hw : ∃ b, b < s.nq) : startLoop n s ≠ .panic := by
  unfold startLoop
  dsimp only
  have : (reserveAll s).rcols ≠ [] := by
    unfold reserveAll
    split
    · simp [addColumn]
    · rename_i hc
      intro he
      obtain ⟨b, hb⟩ := hw
      have hbl : b < s.inUse.length := by rw [hinv.shape.iu]; simp [St.total]; omega
      have := hinv.start he b s.inUse[b] (List.getElem?_eq_getElem hbl)
      apply hc
      have hm : s.inUse[b] ∈ s.inUse := List.getElem_mem hbl
      rw [this] at hm
      simpa using hm
  cases hr : (reserveAll s).rcols with
  | nil => exact absurd hr this
  | cons col rest => simp only [List.length_cons]; exact ok_np _

theorem endLoop_np {s : St} (hc : s.rcols ≠ []) : endLoop s ≠ .panic := by
  unfold endLoop
  split
  · exact err_np _
  · cases hr : s.rcols with
    | nil => exact absurd hr hc
    | cons col rest => simp only [List.length_cons]; exact ok_np _

theorem startLoop_cols {n : Nat} {s s' : St} (h : startLoop n s = .ok s') : s'.rcols ≠ [] := by
  unfold startLoop at h
  dsimp only at h
  split at h
  · cases h
  · rename_i m hm
    injection h with h; subst h
    show (reserveAll s).rcols ≠ []
    intro he; rw [he] at hm; cases hm

theorem draws_len {s s' : St} {S} (hinv : Inv s) (h : Draws s s' S) : s.rcols.length ≤ s'.rcols.length := by
  obtain ⟨L, t, _⟩ := h
  exact (layout_of_trace hinv t).len

theorem cols_of_len {s s' : St} (h : s.rcols.length ≤ s'.rcols.length) (hc : s.rcols ≠ []) : s'.rcols ≠ [] := by
  intro he; rw [he] at h
  cases hs : s.rcols with
  | nil => exact hc hs
  | cons a b => rw [hs] at h; simp at h

theorem addCds_np {b c : Nat} {l : String} {s : St} (hinv : Inv s) : addCds b c l s ≠ .panic := by
  unfold addCds
  exact bind_np (setField_np_top (inv_reserveAll hinv)) (fun _ _ => ok_np _)

/-! ## Multi-qubit block gates -/

theorem ghosts_step {nq nc : Nat} (d : String) : ∀ (n b : Nat), (∀ p ∈ ghostWrites d b n, p.1 < nq + nc) →
    InRStep nq nc (ghosts d b n)
  | 0, _, _ => by
    intro s1 h1
    exact ⟨ok_np _, fun s2 h => by simp only [ghosts] at h; injection h with h; subst h; exact ⟨h1.1, rfl⟩⟩
  | n + 1, b, hv => by
    have hb : b < nq + nc := hv (b, .ghost d) (by simp [ghostWrites])
    have ih := ghosts_step (nq := nq) (nc := nc) d n (b + 1) (fun p hp => hv p (by simp [ghostWrites, hp]))
    have key : InRStep nq nc (fun s => setField b (.ghost d) s >>== ghosts d (b + 1) n) :=
      (setField_step _ hb).bind ih
    intro s1 h1
    have := key s1 h1
    simpa [ghosts] using this

theorem drawRange_step {nq nc : Nat} {f l : Nat} {d : String} {q : Option Int}
    (hv : ∀ p ∈ drawWrites f l d q, p.1 < nq + nc) : InRStep nq nc (drawRange f l d q) := by
  unfold drawWrites at hv
  by_cases he : l = f
  · rw [if_pos he] at hv
    have hf : f < nq + nc := hv (f, .gate d q) (by simp)
    intro s1 h1
    have := setField_step (nq := nq) (nc := nc) (.gate d q) hf s1 h1
    simpa [drawRange, he] using this
  · rw [if_neg he] at hv
    have hf : f < nq + nc := hv (f, .multigate (l - f) d q) (by simp)
    have key : InRStep nq nc (fun s => setField f (.multigate (l - f) d q) s >>== ghosts d (f + 1) (l - f)) :=
      (setField_step _ hf).bind (ghosts_step d _ _ (fun p hp => hv p (by simp [hp])))
    intro s1 h1
    have := key s1 h1
    simpa [drawRange, he] using this

theorem blockRest_step {nq nc : Nat} (d : String) : ∀ (rs : List (Nat × Nat)) (prev : Nat),
    (∀ p ∈ restWrites d rs prev, p.1 < nq + nc) → InRStep nq nc (blockRest d rs prev)
  | [], _, _ => by
    intro s1 h1
    exact ⟨ok_np _, fun s2 h => by simp only [blockRest] at h; injection h with h; subst h; exact ⟨h1.1, rfl⟩⟩
  | (f, l) :: more, prev, hv => by
    have h1' : InRStep nq nc (drawRange f l d (some ((prev : Int) - (f : Int)))) :=
      drawRange_step (fun p hp => hv p (by simp [restWrites, hp]))
    have ih := blockRest_step (nq := nq) (nc := nc) d more l (fun p hp => hv p (by simp [restWrites, hp]))
    have key := h1'.bind ih
    intro s1 h1
    have := key s1 h1
    simpa [blockRest] using this

theorem block_np {d : String} {n : Nat} {bits : List Nat} {s : St} (hinv : Inv s) (hok : blockOk d n bits = true) :
    latex (.box d n) bits s ≠ .panic := by
  obtain ⟨f, l, more, _, hne, hws, he⟩ := blockOk_latex hok s
  obtain ⟨_, hrows, _, _, _⟩ := blockOk_facts hok
  rw [he]
  refine range_top_np hinv hne (fun hv => ?_)
  have hlt : ∀ p ∈ blockWrites d bits, p.1 < s.nq + s.nc := by
    intro p hp
    obtain ⟨_, _, hi, hhi, _, h2⟩ := hrows p hp
    have := hv.1 hi hhi
    omega
  rw [hws] at hlt
  exact ((drawRange_step (fun p hp => hlt p (List.mem_append_left _ hp))).bind
    (blockRest_step d more l (fun p hp => hlt p (List.mem_append_right _ hp)))).close (endRangeOp_close _ _)

/-! ## Gates outside a range -/

mutual
theorem latex_np : ∀ (g : Gate) (bits : List Nat) (s : St), Inv s → s.expand = true → topOk g bits = true →
    gateSafe s.nq g bits = true → latex g bits s ≠ .panic
  | .box l n, bits, s, hinv, _, ht, _ => by
    simp only [topOk, Bool.or_eq_true, Bool.and_eq_true, decide_eq_true_eq] at ht
    rcases ht with ht | ht
    · exact simple_np ht.1.1 ht.1.2 hinv
    · exact block_np hinv ht
  | .x, bits, s, hinv, _, ht, _ => by
    simp only [topOk] at ht; exact simple_np rfl ht hinv
  | .z, bits, s, hinv, _, ht, _ => by
    simp only [topOk] at ht; exact simple_np rfl ht hinv
  | .swap, bits, s, hinv, _, ht, _ => by
    simp only [topOk, Bool.and_eq_true, decide_eq_true_eq] at ht
    exact simple_np rfl ht.1 hinv
  | .c g, bits, s, hinv, _, ht, _ => by
    simp only [topOk, Bool.and_eq_true, decide_eq_true_eq] at ht
    exact simple_np (by simpa [simple] using ht.1.1) ht.1.2 hinv
  | .i, bits, s, hinv, _, _, _ => by
    simp only [latex]
    refine bind_np (checkNrBits_np _ _) (fun u hu => ?_)
    have hl := checkNrBits_ok hu
    match bits, hl with
    | [b], _ => exact setField_np_top hinv
  | .kron a b, bits, s, hinv, he, ht, hsf => by
    simp only [topOk, Bool.and_eq_true] at ht
    simp only [gateSafe, Bool.and_eq_true] at hsf
    simp only [latex]
    refine bind_np (checkNrBits_np _ _) (fun _ _ => ?_)
    refine bind_np (latex_np a _ s hinv he ht.1 hsf.1) (fun s1 h1 => ?_)
    have d1 := latex_draws a _ s s1 hinv he ht.1 h1
    have e1 : s1.expand = true := by rw [(keeps_latex a _ _ _ h1).expand]; exact he
    have q1 : s1.nq = s.nq := (keeps_latex a _ _ _ h1).nq
    exact latex_np b _ s1 (d1.inv hinv) e1 ht.2 (by rw [q1]; exact hsf.2)
  | .comp name n ops, bits, s, hinv, he, ht, hsf => by
    simp only [topOk] at ht
    simp only [gateSafe] at hsf
    simp only [latex]
    refine bind_np (checkNrBits_np _ _) (fun _ _ => ?_)
    rw [if_pos he]
    exact latexSubs_np ops bits s hinv he ht hsf
  | .loop iters body, bits, s, hinv, he, ht, hsf => by
    simp only [topOk] at ht
    simp only [gateSafe, Bool.and_eq_true, Bool.or_eq_true, decide_eq_true_eq, Bool.not_eq_true',
      List.all_eq_true] at hsf
    have hb := latex_np body bits
    simp only [latex]
    refine bind_np (checkNrBits_np _ _) (fun _ _ => ?_)
    split
    · exact ok_np _
    · exact hb s hinv he ht hsf.1
    · refine bind_np (hb s hinv he ht hsf.1) (fun s1 h1 => ?_)
      have d1 := latex_draws body _ s s1 hinv he ht h1
      have e1 : s1.expand = true := by rw [(keeps_latex body _ _ _ h1).expand]; exact he
      have q1 : s1.nq = s.nq := (keeps_latex body _ _ _ h1).nq
      exact hb s1 (d1.inv hinv) e1 ht (by rw [q1]; exact hsf.1)
    · rename_i hn0 hn1 hn2
      have hbig : ¬ iters < 3 := by
        intro hlt
        match iters, hlt with
        | 0, _ => exact hn0 rfl
        | 1, _ => exact hn1 rfl
        | 2, _ => exact hn2 rfl
      obtain ⟨hsb, hrest⟩ := hsf
      rcases hrest with hlt | ⟨⟨hne, hval⟩, _⟩
      · exact absurd hlt hbig
      · split
        · rename_i hnil; simp [hnil] at hne
        · have hw : ∃ x, x < s.nq := ⟨_, hval _ List.mem_cons_self⟩
          refine bind_np (startLoop_np hinv hw) (fun s1 h1 => ?_)
          have d1 := startLoop_draws hinv h1
          have i1 := d1.inv hinv
          have e1 : s1.expand = true := by rw [(keeps_startLoop h1).expand]; exact he
          have q1 : s1.nq = s.nq := (keeps_startLoop h1).nq
          refine bind_np (hb s1 i1 e1 ht (by rw [q1]; exact hsb)) (fun s2 h2 => ?_)
          have d2 := latex_draws body _ s1 s2 i1 e1 ht h2
          have i2 := d2.inv i1
          have e2 : s2.expand = true := by rw [(keeps_latex body _ _ _ h2).expand]; exact e1
          have q2 : s2.nq = s.nq := ((keeps_latex body _ _ _ h2).nq).trans q1
          refine bind_np (addCds_np i2) (fun s3 h3 => ?_)
          have d3 := addCds_draws i2 h3
          have i3 := d3.inv i2
          have e3 : s3.expand = true := by rw [(keeps_addCds h3).expand]; exact e2
          have q3 : s3.nq = s.nq := ((keeps_addCds h3).nq).trans q2
          refine bind_np (hb s3 i3 e3 ht (by rw [q3]; exact hsb)) (fun s4 h4 => ?_)
          have d4 := latex_draws body _ s3 s4 i3 e3 ht h4
          have hc1 := startLoop_cols h1
          exact endLoop_np (cols_of_len (draws_len i3 d4) (cols_of_len (draws_len i2 d3)
            (cols_of_len (draws_len i1 d2) hc1)))
theorem latexSubs_np : ∀ (ops : Subs) (bits : List Nat) (s : St), Inv s → s.expand = true →
    topOkSubs ops bits = true → subsSafe s.nq ops bits = true → latexSubs ops bits s ≠ .panic
  | .nil, bits, s, _, _, _, _ => by simp only [latexSubs]; exact ok_np _
  | .cons g sb rest, bits, s, hinv, he, ht, hsf => by
    simp only [topOkSubs, Bool.and_eq_true] at ht
    simp only [subsSafe, Bool.and_eq_true] at hsf
    simp only [latexSubs]
    cases hsb : subBits bits sb with
    | none => rw [hsb] at hsf; simp at hsf
    | some gb =>
      rw [hsb] at ht hsf
      dsimp only
      refine bind_np (latex_np g gb s hinv he ht.1 hsf.1) (fun s1 h1 => ?_)
      have d1 := latex_draws g gb s s1 hinv he ht.1 h1
      have e1 : s1.expand = true := by rw [(keeps_latex g _ _ _ h1).expand]; exact he
      have q1 : s1.nq = s.nq := (keeps_latex g _ _ _ h1).nq
      exact latexSubs_np rest bits s1 (d1.inv hinv) e1 ht.2 (by rw [q1]; exact hsf.2)
end

/-! ## Circuit operations -/

/-- The body of a conditional gate after the range has been opened. -/
def condBody (control : List Nat) (target : Nat) (g : Gate) (bits : List Nat) (s1 : St) : Res St :=
  latex g bits { s1 with controlled := true } >>== fun s2 =>
  setCondition control target bits { s2 with controlled := s1.controlled } >>== fun s3 =>
  endRangeOp s3

theorem condBody_close {nq nc : Nat} {control : List Nat} {target : Nat} {g : Gate} {bits : List Nat}
    (hg : InRStep nq nc (latex g bits)) (h64 : control.length ≤ 64) :
    InRClose nq nc (condBody control target g bits) := by
  intro s1 h1
  have ir1 : InR nq nc { s1 with controlled := true } := ⟨h1.1.of_fields rfl rfl rfl rfl rfl, h1.2⟩
  obtain ⟨np1, ok1⟩ := hg _ ir1
  have hcl := (setCondition_step (nq := nq) (nc := nc) control target bits h64).close (endRangeOp_close nq nc)
  unfold condBody
  constructor
  · refine bind_np np1 (fun s2 h2 => ?_)
    obtain ⟨ig2, hr2⟩ := ok1 s2 h2
    exact (hcl { s2 with controlled := s1.controlled }
      ⟨ig2.of_fields rfl rfl rfl rfl rfl, by show s2.ranges ≠ []; rw [hr2]; exact h1.2⟩).1
  · intro s4 h4
    obtain ⟨s2, h2, h4⟩ := Res.bind_eq_ok.mp h4
    obtain ⟨ig2, hr2⟩ := ok1 s2 h2
    obtain ⟨ig4, hr4⟩ := (hcl { s2 with controlled := s1.controlled }
      ⟨ig2.of_fields rfl rfl rfl rfl rfl, by show s2.ranges ≠ []; rw [hr2]; exact h1.2⟩).2 s4 h4
    refine ⟨ig4, ?_⟩
    rw [hr4]
    show s2.ranges.tail = s1.ranges.tail
    rw [hr2]

theorem measureAllLoop_np {b : Option String} : ∀ (cs : List Nat) (q : Nat) (s : St), Inv s →
    measureAllLoop b cs q s ≠ .panic
  | [], _, _, _ => by simp only [measureAllLoop]; exact ok_np _
  | c :: rest, q, s, hinv => by
    simp only [measureAllLoop]
    refine bind_np (setMeasurement_np hinv) (fun s1 h1 => ?_)
    exact measureAllLoop_np rest (q + 1) s1 ((setMeasurement_draws hinv h1).inv hinv)

theorem barrierLoop_np : ∀ (rs : List (Nat × Nat)) (s : St), Inv s → barrierLoop rs s ≠ .panic
  | [], _, _ => by simp only [barrierLoop]; exact ok_np _
  | (f, l) :: rest, s, hinv => by
    simp only [barrierLoop]
    refine bind_np (setField_np_top hinv) (fun s1 h1 => ?_)
    exact barrierLoop_np rest s1 (inv_setField hinv rfl h1)

theorem insertNat_ne_nil (a : Nat) (l : List Nat) : insertNat a l ≠ [] := by
  cases l with
  | nil => simp [insertNat]
  | cons b bs => simp only [insertNat]; split <;> simp

theorem getRanges_some {q : List Nat} (h : q ≠ []) : ∃ rs, getRanges q = some rs := by
  unfold getRanges
  cases q with
  | nil => exact absurd rfl h
  | cons a as =>
    simp only [sortNat]
    cases hs : insertNat a (sortNat as) with
    | nil => exact absurd hs (insertNat_ne_nil _ _)
    | cons x xs => exact ⟨_, rfl⟩

theorem setBarrier_np {q : List Nat} {s : St} (hinv : Inv s) : setBarrier q s ≠ .panic := by
  unfold setBarrier
  split
  · exact err_np _
  · split
    · exact ok_np _
    · rename_i hne
      obtain ⟨rs, hrs⟩ := getRanges_some (q := q) (by intro he; subst he; simp at hne)
      rw [hrs]
      exact barrierLoop_np rs _ (inv_addColumn hinv)

theorem resetAll_np {nq : Nat} {s : St} (hinv : Inv s) (hq : s.nq = nq) : opLatex nq .resetAll s ≠ .panic := by
  simp only [opLatex]
  cases nq with
  | zero =>
    have h1 : startRangeOp (List.range 0) none s = .ok s := by
      simp [startRangeOp, getBitIndices]
    rw [h1]
    simp only [Res.bind_ok, resetLoop]
    unfold endRangeOp; rw [hinv.noRange]; exact ok_np _
  | succ n =>
    refine range_top_np hinv (by simp) (fun _ => ?_)
    exact (resetLoop_step (n + 1) 0 (by omega)).close (endRangeOp_close _ _)

theorem op_np {nq : Nat} {op : Op} {s : St} (hinv : Inv s) (he : s.expand = true) (hq : s.nq = nq)
    (hop : opOk op = true) (hsf : opSafe nq op = true) : opLatex nq op s ≠ .panic := by
  cases op with
  | gate g bits => subst hq; exact latex_np g bits s hinv he hop hsf
  | cond control target g bits =>
    simp only [opOk, condOk, Bool.and_eq_true, decide_eq_true_eq] at hop
    simp only [opSafe, decide_eq_true_eq] at hsf
    obtain ⟨⟨⟨hs, hg⟩, _⟩, _⟩ := hop
    have hb : bits ≠ [] := by intro hb; subst hb; rw [goodPlace_ne_nil] at hg; cases hg
    have : opLatex nq (.cond control target g bits) s =
        (startRangeOp bits (some control) s >>== condBody control target g bits) := by
      simp only [opLatex]; rfl
    rw [this]
    refine range_top_np hinv hb (fun hv => ?_)
    exact condBody_close (simple_step g hs bits hg hv.1) hsf
  | reset q => exact setField_np_top hinv
  | resetAll => exact resetAll_np hinv hq
  | measure q c b => exact setMeasurement_np hinv
  | measureAll cbits b => exact measureAllLoop_np cbits 0 s hinv
  | peek q c b => simp only [opLatex]; exact err_np _
  | peekAll cbits b => simp only [opLatex]; exact err_np _
  | barrier qbits => exact setBarrier_np hinv

theorem opsLatex_np {nq : Nat} : ∀ (ops : List Op) (s : St), Inv s → s.expand = true → s.nq = nq →
    s.controlled = false → (∀ op ∈ ops, opOk op = true ∧ opSafe nq op = true) → opsLatex nq ops s ≠ .panic
  | [], _, _, _, _, _, _ => by simp only [opsLatex]; exact ok_np _
  | op :: rest, s, hinv, he, hq, hctl, hop => by
    simp only [opsLatex]
    obtain ⟨ho, hs⟩ := hop op (by simp)
    refine bind_np (op_np hinv he hq ho hs) (fun s1 h1 => ?_)
    have d1 := op_draws hinv he hq hctl ho h1
    have i1 := d1.inv hinv
    have e1 : s1.expand = true := by rw [(keeps_opLatex h1).expand]; exact he
    have q1 : s1.nq = nq := by rw [(keeps_opLatex h1).nq]; exact hq
    have c1 : s1.controlled = false := by rw [d1.choose_spec.2.2.1]; exact hctl
    exact opsLatex_np rest { s1 with cur := s1.cur + 1 } (inv_of_fields i1 rfl rfl rfl rfl rfl) e1 q1 c1
      (fun o ho' => hop o (by simp [ho']))

theorem exportSt_np {c : Circ} (hop : ∀ op ∈ c.ops, opOk op = true ∧ opSafe c.nq op = true) :
    exportSt c ≠ .panic :=
  opsLatex_np c.ops (St.new c.nq c.nc) (inv_new c.nq c.nc) rfl rfl rfl hop

end Q1t.Proofs.Latex

import Q1t.Proofs.TableauStates
/-!
C03, proofs part 6 — FINITE: kernel-checked exhaustive statements for all stabilizer states of
`n ≤ 2` qubits (6 and 60 states).  Everything here is evaluated by the kernel (`decide +kernel`) on the
literal lists `states1`, `states2`, with the generated phase table and the generated conjugation tables.
-/
namespace Q1t.Proofs.Tableau
open Q1t Q1t.Tableau Q1t.Spec.Pauli Q1t.Spec.Stab Q1t.Spec.StabEnum

/-! ### the Boolean checks -/

theorem closure1_K : closure paramsK 1 50 = some states1 := by decide +kernel
theorem closure2_K : closure paramsK 2 50 = some states2 := by decide +kernel

theorem card : states1.length = 6 ∧ states2.length = 60 := by decide +kernel

def chunk (k : Nat) : List Pair := (states2.drop (15 * k)).take 15
theorem states2_chunks : states2 = chunk 0 ++ chunk 1 ++ chunk 2 ++ chunk 3 := by decide +kernel

theorem gates1_K : states1.all (gatesOk paramsK 1 states1) = true := by decide +kernel
theorem gates2_K0 : (chunk 0).all (gatesOk paramsK 2 states2) = true := by decide +kernel
theorem gates2_K1 : (chunk 1).all (gatesOk paramsK 2 states2) = true := by decide +kernel
theorem gates2_K2 : (chunk 2).all (gatesOk paramsK 2 states2) = true := by decide +kernel
theorem gates2_K3 : (chunk 3).all (gatesOk paramsK 2 states2) = true := by decide +kernel

theorem measure1_K : states1.all (fun tv => (List.range 1).all (measureOk paramsK 1 states1 tv)) = true := by
  decide +kernel
theorem measure2_K : states2.all (fun tv => (List.range 2).all (measureOk paramsK 2 states2 tv)) = true := by
  decide +kernel
theorem reset1_K : states1.all (fun tv => (List.range 1).all (resetOk paramsK 1 states1 tv)) = true := by
  decide +kernel
theorem reset2_K : states2.all (fun tv => (List.range 2).all (resetOk paramsK 2 states2 tv)) = true := by
  decide +kernel
theorem pair1_K : states1.all (fun tv => pairOk paramsK tv && rrefB tv.1) = true := by decide +kernel
theorem pair2_K : states2.all (fun tv => pairOk paramsK tv && rrefB tv.1) = true := by decide +kernel
theorem nodup1_K : (nodupBy (fun a b : Pair => a.1 == b.1) states1 && nodupBy (fun a b : Pair => a.2 == b.2) states1) = true := by
  decide +kernel
theorem nodup2_K : (nodupBy (fun a b : Pair => a.1 == b.1) states2 && nodupBy (fun a b : Pair => a.2 == b.2) states2) = true := by
  decide +kernel

end Q1t.Proofs.Tableau

import Q1t.Proofs.FromStringErrors
/-!
C15, part 5: errors inside the argument list (C14's errors come through with their payload; a list that is not
closed), the width overflow, and the errors of the dispatch (unknown name, number of parameters, number of qubits),
which are only found after every part has been parsed and in the order of the parts.  (Core Lean only.)
-/
namespace Q1t.Proofs.FromString
open Q1t Q1t.FromString Q1t.Spec.FromString
open Q1t.Expr (isWs dropWs reLit FloatOps)
open Q1t.Spec.ExprGrammar (Cst Conv Stops isBlank evalConv Blank)
open Q1t.DecFloat (isDigit digitsToNat digitVal)
open Q1t.Proofs.Expr (interpOf parsed headNB)

/-! ### the argument list -/

/-- Text after an argument whose trailing blanks are `w`: further complete arguments, then `fin`. -/
def restG (w : List Char) : List ArgL → List Char → List Char
  | [], fin => w ++ fin
  | a :: more, fin => w ++ ',' :: (a.c.flatten ++ restG a.wAfter more fin)

theorem stops_blank_append {w tail : List Char} (hw : IsBlank w) (ht : Stops tail = true) :
    Stops (w ++ tail) = true := by
  cases w with
  | nil => exact ht
  | cons b w' =>
    have hb : isWs b = true := hw b (by simp)
    have hnd : isDigit b = false := by
      cases h : isDigit b with
      | false => rfl
      | true => rw [digit_not_ws h] at hb; exact absurd hb (by simp)
    have hne : ∀ d : Char, isWs d = false → (b == d) = false := by
      intro d hd
      cases h : b == d with
      | false => rfl
      | true => rw [beq_iff_eq.mp h, hd] at hb; exact absurd hb (by simp)
    have hdrop : ((b :: w') ++ tail).dropWhile isBlank = tail.dropWhile isBlank := by
      rw [Q1t.Proofs.Expr.isBlank_eq]
      show (b :: w' ++ tail).dropWhile isWs = _
      have : ∀ (u : List Char), IsBlank u → (u ++ tail).dropWhile isWs = tail.dropWhile isWs := by
        intro u hu
        induction u with
        | nil => rfl
        | cons c t ih =>
          simp only [List.cons_append, List.dropWhile_cons, hu c (by simp), if_true]
          exact ih (fun x hx => hu x (List.mem_cons_of_mem _ hx))
      exact this (b :: w') hw
    unfold Stops at ht ⊢
    simp only [List.cons_append] at hdrop ⊢
    simp only [hdrop, hnd, hne '.' (by decide), hne 'e' (by decide), hne 'E' (by decide)]
    cases tail with
    | nil => simp
    | cons c t =>
      simp only [Bool.and_eq_true] at ht
      simpa using ht.2

theorem stops_restG {w : List Char} (hw : IsBlank w) (more : List ArgL) {fin : List Char}
    (hf : Stops fin = true) : Stops (restG w more fin) = true := by
  cases more with
  | nil => exact stops_blank_append hw hf
  | cons a more => exact stops_blank_sym hw (.inl rfl)

/-- The separator loop runs over the complete arguments and arrives at `blanks fin`. -/
theorem argsLoop_restG {F : Type} (I : FloatOps F) (hneg : ∀ x, I.neg (I.neg x) = x) :
    ∀ (more : List ArgL) (w : List Char) (k : Nat) (acc : List F) (fin : List Char), IsBlank w →
    (∀ a ∈ more, ArgGood a) → Stops fin = true →
    ∃ w', IsBlank w' ∧ argsLoop I (k + more.length) acc (restG w more fin) =
      argsLoop I k (acc ++ more.map (fun a => evalConv (interpOf I) a.c.toAst)) (w' ++ fin)
  | [], w, k, acc, fin, hw, _, _ => ⟨w, hw, by simp [restG]⟩
  | a :: more, w, k, acc, fin, hw, hg, hf => by
    have ha := hg a (by simp)
    obtain ⟨w', hw', h⟩ := argsLoop_restG I hneg more a.wAfter k
      (acc ++ [evalConv (interpOf I) a.c.toAst]) fin ha.2.2.2
      (fun x hx => hg x (List.mem_cons_of_mem _ hx)) hf
    refine ⟨w', hw', ?_⟩
    have : k + (a :: more).length = (k + more.length) + 1 := by simp; omega
    rw [this]
    simp only [restG]
    rw [argsLoop, reLit_blank hw (by decide)]
    simp only
    rw [parseArg_render I hneg ha _ _ (stops_restG ha.2.2.2 more hf)]
    simp only [h, List.map_cons, List.append_assoc, List.singleton_append]

theorem headNB_blank_append {w s : List Char} (hw : IsBlank w) : headNB (w ++ s) = headNB s := by
  unfold headNB
  congr 1
  unfold dropWs
  induction w with
  | nil => rfl
  | cons c t ih =>
    simp only [List.cons_append, List.dropWhile_cons, hw c (by simp), if_true]
    exact ih (fun x hx => hw x (List.mem_cons_of_mem _ hx))

theorem length_restG (w : List Char) (more : List ArgL) (fin : List Char) :
    more.length ≤ (restG w more fin).length := by
  induction more generalizing w with
  | nil => simp
  | cons b more ih =>
    have := ih b.wAfter
    simp only [restG, List.length_append, List.length_cons] at this ⊢
    omega

/-- `parse_gate_args` on `( a1 , … , ak fin`: what the loop and the closing test see. -/
theorem parseGateArgs_restG {F : Type} (I : FloatOps F) (hneg : ∀ x, I.neg (I.neg x) = x)
    {wOpen : List Char} (hw : IsBlank wOpen) (a : ArgL) (more : List ArgL) (hg : ∀ x ∈ a :: more, ArgGood x)
    (fin : List Char) (hf : Stops fin = true) :
    ∃ w' k, IsBlank w' ∧
      parseGateArgs I (wOpen ++ '(' :: (a.c.flatten ++ restG a.wAfter more fin)) =
        (match argsLoop I (k + 1) ((a :: more).map (fun a => evalConv (interpOf I) a.c.toAst)) (w' ++ fin) with
         | .ok (args, rest') =>
           (match reLit [')'] rest' with
            | some r2 => .ok (args, r2)
            | none => .err (.unclosedParentheses (wOpen ++ '(' :: (a.c.flatten ++ restG a.wAfter more fin))))
         | other => other) := by
  have ha := hg a (by simp)
  have hlen := length_restG a.wAfter more fin
  obtain ⟨w', hw', h⟩ := argsLoop_restG I hneg more a.wAfter
    ((restG a.wAfter more fin).length + 1 - more.length) [evalConv (interpOf I) a.c.toAst] fin ha.2.2.2
    (fun x hx => hg x (List.mem_cons_of_mem _ hx)) hf
  refine ⟨w', (restG a.wAfter more fin).length - more.length, hw', ?_⟩
  have e1 : (restG a.wAfter more fin).length + 1 - more.length + more.length = (restG a.wAfter more fin).length + 1 := by
    omega
  have e2 : (restG a.wAfter more fin).length + 1 - more.length = (restG a.wAfter more fin).length - more.length + 1 := by
    omega
  rw [e1] at h
  rw [e2] at h
  conv => lhs; unfold parseGateArgs
  rw [reLit_blank hw (by decide)]
  simp only
  rw [parseArg_render I hneg ha _ _ (stops_restG ha.2.2.2 more hf)]
  simp only
  rw [h]
  simp only [List.map_cons, List.singleton_append]
  generalize argsLoop I _ _ (w' ++ fin) = r
  cases r with
  | ok x => obtain ⟨args, rest'⟩ := x; rfl
  | err e => rfl
  | panic s => rfl
  | fuel => rfl

/-- The head of a part up to its name, followed by an argument list that starts. -/
theorem parseGateDesc_open {F : Type} (I : FloatOps F) {T : Tables} (hT : TabOK T) {w0 name wOpen : List Char}
    (h0 : IsBlank w0) (hn : isIdent name = true) (ho : IsBlank wOpen) (s : List Char) :
    parseGateDesc I T (w0 ++ (name ++ (wOpen ++ '(' :: s))) =
      (match parseGateArgs I (wOpen ++ '(' :: s) with
       | .ok (args, rest) =>
         (match parseGateBits T rest name with
          | .ok (bits, rest) =>
            let rest := trim rest
            if !rest.isEmpty then .err (.trailingText rest) else .ok ⟨name, args, bits⟩
          | .err e => .err e
          | .panic s => .panic s
          | .fuel => .fuel)
       | .err e => .err e
       | .panic s => .panic s
       | .fuel => .fuel) := by
  have hstop : StopsAt (isNameChar T) (wOpen ++ '(' :: s) := by
    cases hw : wOpen with
    | nil => exact stopsAt_cons (nameChar_sym hT (by decide))
    | cons c t => exact stopsAt_cons (nameChar_ws hT (ho c (by simp [hw])))
  conv => lhs; unfold parseGateDesc
  rw [parseGateName_render T h0 hn hstop]
  rfl

/-- The argument list is not closed: after `k ≥ 1` complete arguments comes text that neither continues the
expression nor starts with `,` or `)`.  Payload: everything after the name. -/
theorem parseGateDesc_unclosedList {F : Type} (I : FloatOps F) (hneg : ∀ x, I.neg (I.neg x) = x) {T : Tables}
    (hT : TabOK T) {w0 name wOpen : List Char} (h0 : IsBlank w0) (hn : isIdent name = true) (ho : IsBlank wOpen)
    (a : ArgL) (more : List ArgL) (hg : ∀ x ∈ a :: more, ArgGood x) (fin : List Char) (hf : Stops fin = true)
    (h1 : headNB fin ≠ some ',') (h2 : headNB fin ≠ some ')') :
    parseGateDesc I T (w0 ++ (name ++ (wOpen ++ '(' :: (a.c.flatten ++ restG a.wAfter more fin)))) =
      .err (.unclosedParentheses (wOpen ++ '(' :: (a.c.flatten ++ restG a.wAfter more fin))) := by
  rw [parseGateDesc_open I hT h0 hn ho]
  obtain ⟨w', k, hw', h⟩ := parseGateArgs_restG I hneg ho a more hg fin hf
  rw [h, argsLoop]
  have e1 : reLit [','] (w' ++ fin) = none := by
    apply Q1t.Proofs.Expr.reLit_miss; rw [headNB_blank_append hw']; exact h1
  have e2 : reLit [')'] (w' ++ fin) = none := by
    apply Q1t.Proofs.Expr.reLit_miss; rw [headNB_blank_append hw']; exact h2
  simp only [e1, e2]

/-- An argument that does not parse: the error of `Expression::parse` comes through with its payload — for the
first argument … -/
theorem parseGateDesc_argError_first {F : Type} (I : FloatOps F) {T : Tables}
    (hT : TabOK T) {w0 name wOpen : List Char} (h0 : IsBlank w0) (hn : isIdent name = true) (ho : IsBlank wOpen)
    (s : List Char) (e : Expr.ParseError) (he : Expr.parse s = .err e) :
    parseGateDesc I T (w0 ++ (name ++ (wOpen ++ '(' :: s))) = .err (liftExprErr e) := by
  rw [parseGateDesc_open I hT h0 hn ho]
  unfold parseGateArgs
  rw [reLit_blank ho (by decide)]
  simp only [parseArg, he]

/-- … and for a later one, after `k ≥ 1` complete arguments and a comma. -/
theorem parseGateDesc_argError_later {F : Type} (I : FloatOps F) (hneg : ∀ x, I.neg (I.neg x) = x) {T : Tables}
    (hT : TabOK T) {w0 name wOpen : List Char} (h0 : IsBlank w0) (hn : isIdent name = true) (ho : IsBlank wOpen)
    (a : ArgL) (more : List ArgL) (hg : ∀ x ∈ a :: more, ArgGood x)
    (s : List Char) (e : Expr.ParseError) (he : Expr.parse s = .err e) :
    parseGateDesc I T (w0 ++ (name ++ (wOpen ++ '(' :: (a.c.flatten ++ restG a.wAfter more (',' :: s))))) =
      .err (liftExprErr e) := by
  rw [parseGateDesc_open I hT h0 hn ho]
  obtain ⟨w', k, hw', h⟩ := parseGateArgs_restG I hneg ho a more hg (',' :: s)
    (stops_blank_sym (w := []) (fun _ h => by simp at h) (.inl rfl))
  rw [h, argsLoop, reLit_blank hw' (by decide)]
  simp only [parseArg, he]

/-! ### after all parts have parsed -/

/-- `usize::MAX` as an index: `InvalidBit` before any name is looked up — ∀ names, ∀ arities. -/
theorem fromString_overflow {F : Type} (I : FloatOps F) (hneg : ∀ x, I.neg (I.neg x) = x) {T : Tables}
    (hT : TabOK T) (name : String) (ps : List PartL) (hne : ps ≠ []) (hg : ∀ p ∈ ps, PartGood p ∧ p.bits ≠ [])
    (hmax : 2 ^ 64 ≤ maxIndex ps + 1) :
    fromString I T name (renderDesc ps) = .err (.invalidBit (Nat.toDigits 10 (maxIndex ps))) := by
  rw [fromString_render_parsed I hneg hT name ps hne hg]
  simp [hmax]

theorem lookupArm_eq_find (T : Tables) (l : List Char) :
    lookupArm T l = T.dispatch.find? (fun r => r.1 == String.ofList l) := by
  unfold lookupArm
  congr 1
  funext e
  rw [Bool.eq_iff_iff, beq_iff_eq, beq_iff_eq]
  constructor
  · intro h; rw [← h, String.ofList_toList]
  · intro h; rw [h, String.toList_ofList]

theorem lookup_key {F : Type} (I : FloatOps F) {T : Tables} (hD : T.dispatch = documentedTable) {p : PartL}
    (hn : isIdent p.name = true) :
    lookupArm T ((descOf I p).name.map lowerChar) = documentedTable.find? (fun r => r.1 == p.key) := by
  rw [lookupArm_eq_find, hD]
  simp only [descOf, map_lowerChar_ident hn, PartL.key]

/-- Unknown name. -/
theorem dispatchOne_unknown {F : Type} (I : FloatOps F) {T : Tables} (hD : T.dispatch = documentedTable)
    {p : PartL} (hn : isIdent p.name = true) (hu : docArity p.key = none) :
    dispatchOne T (descOf I p) = .err (.unknownGate p.name) := by
  unfold dispatchOne
  rw [lookup_key I hD hn]
  unfold docArity at hu
  cases hf : documentedTable.find? (fun r => r.1 == p.key) with
  | none => rfl
  | some row => rw [hf] at hu; simp at hu

theorem lookup_row {F : Type} (I : FloatOps F) {T : Tables} (hD : T.dispatch = documentedTable) {p : PartL}
    (hn : isIdent p.name = true) {na nb : Nat} (h : docArity p.key = some (na, nb)) :
    ∃ key ctor order, lookupArm T ((descOf I p).name.map lowerChar) = some (key, ctor, na, nb, order) := by
  rw [lookup_key I hD hn]
  unfold docArity at h
  cases hf : documentedTable.find? (fun r => r.1 == p.key) with
  | none => rw [hf] at h; simp at h
  | some row =>
    rw [hf] at h
    obtain ⟨key, ctor, a, b, order⟩ := row
    simp only [Option.map_some, Option.some.injEq, Prod.mk.injEq] at h
    exact ⟨key, ctor, order, by rw [h.1, h.2]⟩

/-- Wrong number of parameters (checked before the number of qubits). -/
theorem dispatchOne_nrArgs {F : Type} (I : FloatOps F) {T : Tables} (hD : T.dispatch = documentedTable)
    {p : PartL} (hn : isIdent p.name = true) {na nb : Nat} (h : docArity p.key = some (na, nb))
    (hne : na ≠ p.args.length) :
    dispatchOne T (descOf I p) = .err (.invalidNrArguments p.args.length na p.name) := by
  obtain ⟨key, ctor, order, hl⟩ := lookup_row I hD hn h
  unfold dispatchOne
  rw [hl]
  have : (descOf I p).args.length = p.args.length := by simp [descOf, PartL.params]
  simp only [this, hne, ne_eq, not_false_eq_true, if_true]
  rfl

/-- Wrong number of qubits. -/
theorem dispatchOne_nrBits {F : Type} (I : FloatOps F) {T : Tables} (hD : T.dispatch = documentedTable)
    {p : PartL} (hn : isIdent p.name = true) {nb : Nat} (h : docArity p.key = some (p.args.length, nb))
    (hne : nb ≠ p.bits.length) :
    dispatchOne T (descOf I p) = .err (.invalidNrBits p.bits.length nb p.name) := by
  obtain ⟨key, ctor, order, hl⟩ := lookup_row I hD hn h
  unfold dispatchOne
  rw [hl]
  have e1 : (descOf I p).args.length = p.args.length := by simp [descOf, PartL.params]
  have e2 : (descOf I p).bits.length = p.bits.length := by simp [descOf, PartL.vals]
  simp only [e1, e2, hne, ne_eq, not_true_eq_false, not_false_eq_true, if_true, if_false]
  rfl

theorem dispatchAll_err {F : Type} (I : FloatOps F) {T : Tables} (hD : T.dispatch = documentedTable) :
    ∀ (good : List PartL) (g : SubGateDesc F) (more : List (SubGateDesc F)) (e : ParseErr),
    (∀ p ∈ good, isIdent p.name = true ∧ p.Matches = true) → dispatchOne T g = .err e →
    dispatchAll T (good.map (descOf I) ++ g :: more) = .err e
  | [], g, more, e, _, he => by simp [dispatchAll, he]
  | p :: good, g, more, e, h, he => by
    obtain ⟨hn, hm⟩ := h p (by simp)
    obtain ⟨t, _, ht⟩ := dispatchOne_documented I hD hn hm
    simp only [List.map_cons, List.cons_append, dispatchAll, ht]
    rw [dispatchAll_err I hD good g more e (fun x hx => h x (List.mem_cons_of_mem _ hx)) he]

/-- The dispatch errors: all parts parse, the width fits, the parts before `p` are documented gates with the right
arities, `p` is not — whatever comes after `p`. -/
theorem fromString_dispatch_error {F : Type} (I : FloatOps F) (hneg : ∀ x, I.neg (I.neg x) = x) {T : Tables}
    (hT : TabOK T) (hD : T.dispatch = documentedTable) (name : String) (good : List PartL) (p : PartL)
    (more : List PartL) (hg : ∀ q ∈ good ++ p :: more, PartGood q ∧ q.bits ≠ [])
    (hm : ∀ q ∈ good, q.Matches = true) (hw : maxIndex (good ++ p :: more) + 1 < 2 ^ 64)
    (e : ParseErr) (he : dispatchOne T (descOf I p) = .err e) :
    fromString I T name (renderDesc (good ++ p :: more)) = .err e := by
  rw [fromString_render_parsed I hneg hT name _ (by simp) hg]
  have : ¬ 2 ^ 64 ≤ maxIndex (good ++ p :: more) + 1 := by omega
  simp only [this, if_false, List.map_append, List.map_cons]
  rw [dispatchAll_err I hD good (descOf I p) (more.map (descOf I)) e
    (fun q hq => ⟨(hg q (List.mem_append_left _ hq)).1.name, hm q hq⟩) he]

end Q1t.Proofs.FromString

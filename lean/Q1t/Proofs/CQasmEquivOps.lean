import Q1t.Proofs.CQasmEquivCore
set_option linter.unusedSimpArgs false
set_option linter.unusedSectionVars false
set_option linter.unusedVariables false
/-!
C12 (`cq_equiv_partial`), part 2: one circuit operation against `Spec/Born.branchesOp`, on a branch that satisfies the
invariant (state of length `2^n`, non-zero, register word below `2^n`, `n ≤ 64`).
-/
namespace Q1t.Proofs.CQasm
open Q1t Q1t.Spec Q1t.Proofs.Route Q1t.CQ

variable {α P : Type} [CommRing α] [Amp α P]

/-- what is kept along a run -/
structure BrInv (n : Nat) (nz : List α → Bool) (br : CQ1.Branch α) : Prop where
  len : br.1.length = 2 ^ n
  nonzero : nz br.1 = true
  word : br.2 < 2 ^ n

theorem eraseDups_single (w : Nat) : [w].eraseDups = [w] := by
  simp [List.eraseDups, List.eraseDupsBy, List.eraseDupsBy.loop]

theorem eraseDups_pair (a b : Nat) (h : a ≠ b) : [a, b].eraseDups = [a, b] := by
  have hb : (b == a) = false := by simpa using Ne.symm h
  simp [List.eraseDups, List.eraseDupsBy, List.eraseDupsBy.loop, hb]

/-! ### a gate -/

theorem born_gate (n : Nat) (nz : List α → Bool) (g : GateTerm P) (bits : List Nat) (ψ : List α) (w : Nat)
    (hnz : nz (LMat.mulVec (embed n bits (specMatrix g)) ψ) = true) :
    Spec.branchesOp n nz (.gate g bits) (ψ, w) = some [(LMat.mulVec (embed n bits (specMatrix g)) ψ, w)] := by
  simp [Spec.branchesOp, Spec.outcomesOf, eraseDups_single, Spec.replayOp, Spec.gateOn, hnz]

/-- gate lines whose ordered product is the embedded unitary of the gate: same branch as the circuit's gate -/
theorem gate_op_equiv (n : Nat) (nz : List α → Bool) (g : GateTerm P) (bits : List Nat)
    (apps : List (List Nat × LMat α))
    (hU : apps.foldl (fun m a => LMat.mul (embed n a.1 a.2) m) (LMat.identity (2 ^ n)) = embed n bits (specMatrix g))
    (br : CQ1.Branch α) (hbr : BrInv n nz br)
    (hnz : nz (LMat.mulVec (embed n bits (specMatrix g)) br.1) = true) :
    some (dSeq n nz (gateLines apps) [br]) = Spec.branchesOp n nz (.gate g bits) br := by
  obtain ⟨ψ, w⟩ := br
  rw [born_gate n nz g bits ψ w hnz, gateLines_sem n nz apps _ hU ψ w hbr.len]

theorem gate_op_inv (n : Nat) (nz : List α → Bool) (U : LMat α) (hU : U.length = 2 ^ n) (br : CQ1.Branch α)
    (hbr : BrInv n nz br) (hnz : nz (LMat.mulVec U br.1) = true) : BrInv n nz (LMat.mulVec U br.1, br.2) :=
  ⟨by rw [mulVec_length, hU], hnz, hbr.word⟩

/-! ### the `not`-bracketed conditional -/

theorem dSeq_nots (n : Nat) (nz : List α → Bool) : ∀ (ks : List Nat) (ψ : List α) (w : Nat),
    dSeq n nz (ks.map .notb) [(ψ, w)] = [(ψ, flipBits w ks)]
  | [], ψ, w => rfl
  | k :: ks, ψ, w => by
    simp only [List.map_cons, dSeq, List.flatMap_cons, List.flatMap_nil, List.append_nil, dSem]
    rw [dSeq_nots n nz ks ψ (w ^^^ (1 <<< k))]
    rfl

/-- `not…; c-g; not…` on the value level -/
theorem bracket_dSeq (n : Nat) (nz : List α → Bool) (control : List Nat) (target : Nat) (hnd : control.Nodup)
    (qs : List Nat) (M : LMat α) (ψ : List α) (w : Nat) :
    dSeq n nz ((notBits control target).map .notb ++ [.gate control qs M] ++ (notBits control target).map .notb) [(ψ, w)] =
      [(if (∀ i, ∀ (h : i < control.length), w.testBit control[i] = target.testBit i) then CQ1.applyOn n M qs ψ else ψ, w)] := by
  rw [dSeq_append, dSeq_append, dSeq_nots]
  have hstep : ∀ (w' : Nat), dSeq n nz [DStmt.gate control qs M] [(ψ, w')] =
      [if control.all (CQ1.bitSet w') then (CQ1.applyOn n M qs ψ, w') else (ψ, w')] := by
    intro w'; simp [dSeq, dSem]
  rw [hstep]
  by_cases hf : ∀ i, ∀ (h : i < control.length), w.testBit control[i] = target.testBit i
  · have := (bracket_fires control target w hnd).mpr hf
    rw [if_pos this, if_pos hf, dSeq_nots, flipBits_restores]
  · have hb : ¬ control.all (fun k => CQ1.bitSet (flipBits w (notBits control target)) k) = true :=
      fun hb => hf ((bracket_fires control target w hnd).mp hb)
    rw [if_neg hb, if_neg hf, dSeq_nots, flipBits_restores]

/-- a conditional gate whose translation is ONE line with the right matrix: same branch as the circuit's conditional
gate, for a control list without repetition and a target below `2^len` -/
theorem cond_op_equiv (n : Nat) (nz : List α → Bool) (g : GateTerm P) (bits : List Nat) (qs : List Nat) (M : LMat α)
    (hU : ∀ ψ : List α, ψ.length = 2 ^ n → LMat.mulVec (embed n qs M) ψ = LMat.mulVec (embed n bits (specMatrix g)) ψ)
    (control : List Nat) (target : Nat) (hnd : control.Nodup) (ht : target < 2 ^ control.length)
    (hc64 : control.all Sim.shiftOk = true) (hlen : control.length ≤ 64)
    (br : CQ1.Branch α) (hbr : BrInv n nz br)
    (hnz : nz (LMat.mulVec (embed n bits (specMatrix g)) br.1) = true) :
    some (dSeq n nz ((notBits control target).map .notb ++ [.gate control qs M] ++ (notBits control target).map .notb) [br]) =
      Spec.branchesOp n nz (.cond control target g bits) br := by
  obtain ⟨ψ, w⟩ := br
  rw [bracket_dSeq n nz control target hnd qs M ψ w]
  have hcw : ∃ cw, Sim.controlWord control w = some cw := by
    unfold Sim.controlWord; simp [hc64, hlen]
  obtain ⟨cw, hcw⟩ := hcw
  have hiff := controlWord_eq_target control w cw target hcw
  simp only [Spec.branchesOp, Spec.outcomesOf, eraseDups_single, Spec.replayOp, hcw, List.flatMap_cons,
    List.flatMap_nil, List.append_nil, ne_eq, not_true_eq_false, if_false]
  by_cases hf : ∀ i, ∀ (h : i < control.length), w.testBit control[i] = target.testBit i
  · have : cw = target := hiff.mpr ⟨hf, ht⟩
    simp only [hf, if_true, this, CQ1.applyOn, hU ψ hbr.len, Spec.gateOn]
    simp [hnz]
  · have : ¬ cw = target := fun e => hf (hiff.mp e).1
    simp only [hf, if_false, this]
    simp [hbr.nonzero]

/-! ### measurements, `prep_z` -/

theorem mH_eq : (CQ1.mH (P := P) : LMat α) = specMatrix (.H : GateTerm P) := by
  simp [CQ1.mH, CQ1.scale, specMatrix]
theorem mS_eq : (CQ1.mS (P := P) : LMat α) = specMatrix (.S : GateTerm P) := by simp [CQ1.mS, specMatrix]
theorem mSdag_eq : (CQ1.mSdag (P := P) : LMat α) = specMatrix (.Sdg : GateTerm P) := by simp [CQ1.mSdag, specMatrix]
theorem mX_eq : (CQ1.mX : LMat α) = specMatrix (.X : GateTerm P) := by simp [CQ1.mX, specMatrix, pauliX]

theorem project_eq (n q : Nat) (o : Bool) (ψ : List α) : CQ1.project n q o ψ = Spec.project n q o ψ := rfl

def basisPre : Sim.Basis → List (LMat α)
  | .Z => []
  | .X => [CQ1.mH (P := P)]
  | .Y => [CQ1.mSdag (P := P), CQ1.mH (P := P)]
def basisPost : Sim.Basis → List (LMat α)
  | .Z => []
  | .X => [CQ1.mH (P := P)]
  | .Y => [CQ1.mH (P := P), CQ1.mS (P := P)]

theorem measureTo_eq (n q : Nat) (b : Sim.Basis) (o : Bool) (ψ : List α) :
    Spec.measureTo (P := P) n q b o ψ =
      (basisPost (P := P) b).foldl (fun φ M => CQ1.applyOn n M [q] φ)
        (CQ1.project n q o ((basisPre (P := P) b).foldl (fun φ M => CQ1.applyOn n M [q] φ) ψ)) := by
  cases b <;>
    simp [Spec.measureTo, Spec.toBasis, Spec.fromBasis, Spec.gateOn, basisPre, basisPost, CQ1.applyOn, mH_eq, mS_eq,
      mSdag_eq, project_eq]

theorem bitOf_writeBit (w k : Nat) (o : Bool) (hw : w < 2 ^ 64) (hk : k < 64) :
    Spec.bitOf (Spec.writeBit w k o) k = o := by
  rw [writeBit_eq w k o hw hk]
  unfold Spec.bitOf CQ1.writeBit
  have : ∀ x : Nat, ((x >>> k) % 2 == 1) = x.testBit k := by
    intro x; simp [Nat.testBit, Nat.shiftRight_eq_div_pow, Nat.and_one_is_mod]
  rw [this]
  by_cases h : w.testBit k = o
  · simp [h]
  · have : (w.testBit k == o) = false := by simpa using h
    simp only [this, Bool.false_eq_true, if_false, Nat.testBit_xor, Nat.one_shiftLeft, Nat.testBit_two_pow]
    cases o <;> cases hb : w.testBit k <;> simp_all

theorem writeBit_ne (w k : Nat) (hw : w < 2 ^ 64) (hk : k < 64) : Spec.writeBit w k false ≠ Spec.writeBit w k true := by
  intro e
  have := congrArg (fun x => Spec.bitOf x k) e
  simp only [bitOf_writeBit w k _ hw hk] at this
  cases this

/-- `measure`, `measure_x`, `measure_y` of qubit `q` into bit `q` -/
theorem measure_op_equiv (n : Nat) (hn : n ≤ 64) (nz : List α → Bool) (q : Nat) (hq : q < n) (b : Sim.Basis)
    (br : CQ1.Branch α) (hbr : BrInv n nz br) :
    some (dSeq n nz [.measure q (basisPre (P := P) b) (basisPost (P := P) b)] [br]) =
      Spec.branchesOp n nz (.measure q q b : Sim.COp P) br := by
  obtain ⟨ψ, w⟩ := br
  have hw : w < 2 ^ 64 := Nat.lt_of_lt_of_le hbr.word (Nat.pow_le_pow_right (by omega) hn)
  have hk : q < 64 := by omega
  have hne := writeBit_ne w q hw hk
  have hed := eraseDups_pair _ _ hne
  have hborn : Spec.branchesOp n nz (.measure q q b : Sim.COp P) (ψ, w) =
      some (([false, true].map fun o => (Spec.measureTo (P := P) n q b o ψ, Spec.writeBit w q o)).filter fun c => nz c.1) := by
    simp only [Spec.branchesOp, Spec.outcomesOf, hed, Spec.replayOp, bitOf_writeBit w q _ hw hk, if_true,
      List.flatMap_cons, List.flatMap_nil, List.append_nil, List.map_cons, List.map_nil]
    simp [List.filter_cons]
    split <;> split <;> simp
  rw [hborn]
  simp only [dSeq, dSem, CQ1.measureWith, List.flatMap_cons, List.flatMap_nil, List.append_nil, List.map_cons,
    List.map_nil, measureTo_eq, writeBit_eq w q _ hw hk]

theorem prep_op_equiv (n : Nat) (nz : List α → Bool) (q : Nat) (br : CQ1.Branch α) :
    some (dSeq n nz [.prep q] [br]) = Spec.branchesOp n nz (.reset q : Sim.COp P) br := by
  obtain ⟨ψ, w⟩ := br
  have e := mX_eq (α := α) (P := P)
  simp [Spec.branchesOp, Spec.outcomesOf, eraseDups_single, Spec.replayOp, dSeq, dSem, Spec.gateOn, CQ1.applyOn, e,
    project_eq, List.filter_cons]

theorem barrier_op_equiv (n : Nat) (nz : List α → Bool) (bits : List Nat) (br : CQ1.Branch α) (hbr : BrInv n nz br) :
    some (dSeq n nz [] [br]) = Spec.branchesOp n nz (.barrier bits : Sim.COp P) br := by
  obtain ⟨ψ, w⟩ := br
  simp [Spec.branchesOp, Spec.outcomesOf, eraseDups_single, Spec.replayOp, dSeq, hbr.nonzero]

end Q1t.Proofs.CQasm

import Q1t.Proofs.TableauProgress
import Q1t.Proofs.TableauContractQ8
set_option linter.unusedSectionVars false
set_option linter.unusedVariables false
set_option linter.unusedSimpArgs false
/-!
# Plan for `DetShapeHolds` (generated tables, ℚ(ζ₈)): five independent parts and their checked composition

Route: **ghost destabilizers + reduced echelon shape**, no uniqueness-of-the-ray argument.

The invariant of every reachable pair `(t, ψ)` is
`StabG t ψ ∧ t.n = n ∧ ‖ψ‖² invertible ∧ RREF t ∧ HasDual t` where

* `RREF t` — every row is a *pivot row* (it owns a private pivot column: an X/Y-carrying row a column in which no
  other row has an X-bit, an X/Y-free row a column in which no other row has a Z-bit) or is the identity string;
* `HasDual t` — there are `n` strings `d_0 … d_{n-1}` ("destabilizers", never computed by the code) with
  `d_k` anticommuting with row `k` and commuting with every other row.  This is independence of the rows, kept as
  data; in particular no row is the identity string.

Parts (each a closed `Prop`; prove each in its own file against the statement here):

* `PartI n`  — `Tab.new n` has both properties.
* `PartN`    — `normalize` (whenever it returns, on a well-shaped tableau) produces `RREF` (`PartN1`) and preserves
                `HasDual` (`PartN2`).  Pure combinatorics of the three nested loops; cells never depend on the phase table.
                `PartN2` needs only: `swap_rows` permutes the duals; `multiply_row(m, i)` (m ≠ i) replaces `d_i` by `d_i·d_m`.
* `PartG n`  — the row loop of `apply_gate` for a valid claiming term preserves `HasDual`
                (conjugate the destabilizers by the same rule; exact conjugation preserves (anti)commutation).
* `PartK`    — the part of `collapse` before `normalize` preserves `HasDual`
                (new dual of row `i` is the old row `i`; the other duals get the old row `i` multiplied in if they
                anticommute with `Z_q`).
* `PartC`    — linear algebra over GF(2): `RREF ∧ HasDual ∧` rows pairwise commuting `⇒ DetShape`
                (`Z_q` is orthogonal to all rows, the `2n` strings rows ∪ duals are independent hence span, so
                `Z_q` is a product of rows; by `RREF` that product is a single X/Y-free row with pivot `q`).

`detShapeHolds_of_parts` composes them by induction over `Reach` (the soundness part of the invariant is the
content of `reach_sound`, re-proved here with `DetShape` of the predecessor supplied by `PartC`).
-/
namespace Q1t.Proofs.DetPlan
open Q1t Q1t.LMat Q1t.Tableau Q1t.Spec Q1t.Spec.Clifford Q1t.Spec.Pauli Q1t.Proofs.Tableau Q1t.Sim Q1t.Conj
open Q1t.Proofs.ConjBridge Q1t.Proofs.ConjTerm Q1t.Gate Q1t.Proofs.TabG Q1t.Sim.Demo

abbrev phG : List Nat := Q1t.Gen.phaseTable
abbrev tblG : Conj.Table := Q1t.Gen.conjTable
abbrev ncG : List String := Q1t.Gen.conjNoArityCheck

/-- reachable pairs for the generated tables over ℚ(ζ₈) -/
abbrev ReachG (n : Nat) : Tab → List Q8 → Prop := Reach (A := Empty) Q8 n phG tblG ncG

/-! ## vocabulary -/

/-- symplectic product of two Pauli strings: `true` iff they anticommute -/
def sp (r d : List P) : Bool := phaseSum r d % 2 == 1

/-- does the string have Z or Y at position `p` -/
def zbitAt (r : List P) (p : Nat) : Bool := match r[p]? with | some c => c.hasZ | none => false

/-- row `i` (= `r`) owns a private pivot column -/
def PivotRow (t : Tab) (i : Nat) (r : List P) : Prop :=
  (∃ x : Nat, xAt r x = true ∧ ∀ (k : Nat) r', k ≠ i → t.rows[k]? = some r' → xAt r' x = false) ∨
  ((∀ c : Nat, xAt r c = false) ∧
    ∃ p : Nat, zbitAt r p = true ∧ ∀ (k : Nat) r', k ≠ i → t.rows[k]? = some r' → zbitAt r' p = false)

/-- reduced echelon shape, as far as `DetShape` needs it -/
def RREF (t : Tab) : Prop :=
  ∀ (i : Nat) r, t.rows[i]? = some r → PivotRow t i r ∨ ∀ c ∈ r, c = P.I

/-- `ds` are destabilizers of `t` -/
def Dual (t : Tab) (ds : List (List P)) : Prop :=
  ds.length = t.n ∧ (∀ d ∈ ds, d.length = t.n) ∧
    ∀ (i k : Nat) r d, t.rows[i]? = some r → ds[k]? = some d → sp r d = decide (i = k)

def HasDual (t : Tab) : Prop := ∃ ds, Dual t ds

/-- the rows commute pairwise -/
def PairComm (t : Tab) : Prop := ∀ (i k : Nat) r r', t.rows[i]? = some r → t.rows[k]? = some r' → sp r r' = false

/-! ## the parts -/

def PartI (n : Nat) : Prop := RREF (Tab.new n) ∧ HasDual (Tab.new n)

def PartN : Prop :=
  ∀ t0 t : Tab, t0.WF → t0.normalize phG = .ok t → RREF t ∧ (HasDual t0 → HasDual t)

/-- first half of `PartN`: the shape -/
def PartN1 : Prop := ∀ t0 t : Tab, t0.WF → t0.normalize phG = .ok t → RREF t
/-- second half of `PartN`: the destabilizers follow the row operations -/
def PartN2 : Prop := ∀ t0 t : Tab, t0.WF → t0.normalize phG = .ok t → HasDual t0 → HasDual t

theorem partN_of (h1 : PartN1) (h2 : PartN2) : PartN := fun t0 t hwf hok => ⟨h1 t0 t hwf hok, h2 t0 t hwf hok⟩

def PartG (n : Nat) : Prop :=
  ∀ (g : GateTerm Empty) (bits : List Nat) (t t1 : Tab), validT (A := Empty) n tblG g bits → t.WF → t.n = n →
    HasDual t → Tab.conjRows (conjOfT (A := Empty) tblG ncG g) bits (List.range t.n) t = .ok t1 → HasDual t1

def PartK : Prop :=
  ∀ (t t1 : Tab) (q i : Nat) (o : Bool), t.WF → PairComm t → HasDual t → t.measure q = .ok (.random i) →
    Tab.collapseRows phG i q (List.range i) t = .ok t1 →
    HasDual ⟨t1.n, t1.rows.set i (zRow t1.n q), t1.signs.set i o⟩

def PartC : Prop := ∀ t : Tab, t.WF → RREF t → HasDual t → PairComm t → DetShape t

/-! ## composition -/

theorem q8_one_ne_zero : (1 : Q8) ≠ 0 := by decide

theorem pairComm_of_stabG (t : Tab) (ψ : List Q8) (hst : StabG Empty t ψ) (hnz : NZ ψ) : PairComm t := by
  intro i k r r' hr hr'
  obtain ⟨h1, h2, h3, h4⟩ := hst
  have hi : i < t.signs.length := by have := (List.getElem?_eq_some_iff.mp hr).1; omega
  have hk : k < t.signs.length := by have := (List.getElem?_eq_some_iff.mp hr').1; omega
  obtain ⟨l0, a0⟩ := h4 i _ r (List.getElem?_eq_getElem hi) hr
  obtain ⟨l1, a1⟩ := h4 k _ r' (List.getElem?_eq_getElem hk) hr'
  have hc := commutes_of_fixG Q8.lawful _ _ r r' ψ (l0.trans l1.symm) (l0 ▸ h1) a0 a1 hnz
  rw [commutes_iff] at hc
  simp [sp, hc]

/-- the invariant -/
def Inv (n : Nat) (t : Tab) (ψ : List Q8) : Prop :=
  StabG Empty t ψ ∧ t.n = n ∧ (∃ u : Q8, normSqSum ψ * u = 1) ∧ RREF t ∧ HasDual t

theorem detShape_of_inv (hC : PartC) (n : Nat) (t : Tab) (ψ : List Q8) (h : Inv n t ψ) : DetShape t := by
  obtain ⟨hst, _, hw, hr, hd⟩ := h
  exact hC t (wf_of_stabG t ψ hst) hr hd
    (pairComm_of_stabG t ψ hst (nz_of_weight lawfulSimQ8 q8_one_ne_zero ψ hw))

theorem inv_of_reach (n : Nat) (hI : PartI n) (hN : PartN) (hG : PartG n) (hK : PartK) (hC : PartC)
    (t : Tab) (ψ : List Q8) (hr : ReachG n t ψ) : Inv n t ψ := by
  have ha := Q8.lawful
  have hs := lawfulSimQ8
  have hph : PhaseTableCorrect phG := phaseTable_correct
  have hp := Q1t.Proofs.ConjQ8.prims_exact_Q8
  have hT := tableFacts_generated
  induction hr with
  | init => exact ⟨stabG_new ha n, rfl, ⟨1, by rw [normSqSum_ket0' ha hs, one_mul]⟩, hI.1, hI.2⟩
  | scale t ψ a b hab _ ih =>
    obtain ⟨hst, hn, ⟨u, hu⟩, hrr, hdd⟩ := ih
    refine ⟨stabG_scale t ψ a hst, hn, ⟨u * (b * Amp.conj Empty b), ?_⟩, hrr, hdd⟩
    rw [Q1t.Sim.normSqSum_smul ha hs]
    have : normSqSum ψ * (a * Amp.conj Empty a) * (u * (b * Amp.conj Empty b)) =
        (normSqSum ψ * u) * ((a * b) * (Amp.conj Empty a * Amp.conj Empty b)) := by ring
    rw [this, hu, ← ha.conj_mul, hab, ha.conj_one]; ring
  | gate g bits t t' ψ hvalid hreach hok ih =>
    obtain ⟨hst, hn, ⟨u, hu⟩, hrr, hdd⟩ := ih
    have hvalid' := hvalid
    obtain ⟨hw, hstab, hvb, hlen⟩ := hvalid
    have te := term_exact tblG ncG hp Q1t.Proofs.ConjEmbed.embed_exact g hw hstab
    have hM : WF (2 ^ bits.length) (2 ^ bits.length) (specMatrix g : LMat Q8) := by rw [hlen]; exact te.wf
    have hrule : RuleExact Empty (specMatrix g : LMat Q8) bits.length (conjugateT tblG ncG g) := by
      rw [hlen]; exact te.rule
    obtain ⟨hst', hn'⟩ := applyGate_stabilizes ha hph t t' ψ hst (by rw [hn]; exact hvb) hM hrule hok
    rw [hn] at hst'
    have hU : IsUnitary Empty n (embed n bits (specMatrix g : LMat Q8)) :=
      Q1t.Proofs.ConjEmbed.embed_unitary ha n bits hvb _ (by
        rw [hlen]; exact Q1t.Proofs.ConjUnitary.isUnitary_iff_unitary.2 (Q1t.Proofs.ConjUnitary.spec_unitary ha g hw))
    have hiso := unitary_normSqSum ha hs (Nat.two_pow_pos n) (Q1t.Proofs.ConjUnitary.isUnitary_iff_unitary.1 hU) ψ
      (by rw [hst.1, hn])
    -- the structure: conjRows, then normalize
    have hok2 := hok
    simp only [Tab.applyGate, bind] at hok2
    obtain ⟨t1, ht1, hnorm⟩ := bind_ok hok2
    obtain ⟨hψ, h2, h3, h4⟩ := hst
    obtain ⟨hsh1, hdone, _⟩ := conjRows_inv ha (by rw [hn]; exact hvb) hM hrule ψ hψ (List.range t.n) t t1
      List.nodup_range (fun i hi => List.mem_range.mp hi) ⟨rfl, h2, h3⟩ (fun k _ s r hs' hr => h4 k s r hs' hr) ht1
    have hE : WF (2 ^ t.n) (2 ^ t.n) (embed t.n bits (specMatrix g : LMat Q8)) := Q1t.Proofs.Route.embed_wf _ _ _
    have hst1 : StabG Empty t1 (mulVec (embed t.n bits (specMatrix g : LMat Q8)) ψ) := by
      refine ⟨by rw [mulVec_length, hE.1, hsh1.1], by rw [hsh1.2.1, hsh1.1], by rw [hsh1.2.2, hsh1.1], ?_⟩
      intro i s r hs' hr
      have hi : i < t.n := by
        have := (List.getElem?_eq_some_iff.mp hr).1
        rw [hsh1.2.1] at this; exact this
      rw [hsh1.1]
      exact hdone i (List.mem_range.mpr hi) s r hs' hr
    have hst0 : StabG Empty t ψ := ⟨hψ, h2, h3, h4⟩
    have hd1 : HasDual t1 := hG g bits t t1 hvalid' (wf_of_stabG t ψ hst0) hn hdd ht1
    obtain ⟨hr', hd'⟩ := hN t1 t' (wf_of_stabG t1 _ hst1) hnorm
    refine ⟨hst', hn'.trans hn, ⟨u, ?_⟩, hr', hd' hd1⟩
    unfold gateOn
    rw [hiso, hu]
  | collapse t t' ψ q i o hreach hm hok ih =>
    obtain ⟨hst, hn, ⟨u, hu⟩, hrr, hdd⟩ := ih
    obtain ⟨hq, hi, hxi, hlater⟩ := measure_random_inv t q i hm
    obtain ⟨hst', hn'⟩ := collapse_stabilizes ha hph t t' ψ hst q i hq hi hxi hlater o hok
    rw [hn] at hst'
    obtain ⟨e1, e2⟩ := random_weights ha hs t ψ hst q i hm
    rw [hn] at e1 e2
    have hnorm : normSqSum (project n q o ψ) = normSqSum (project n q false ψ) := by cases o; rfl; exact e1
    have hnz := nz_of_weight hs q8_one_ne_zero ψ ⟨u, hu⟩
    -- the structure: collapseRows, replace row i, setSign, normalize
    have hok2 := hok
    simp only [Tab.collapse, bind] at hok2
    obtain ⟨t1, ht1, hok2⟩ := bind_ok hok2
    obtain ⟨hn1, _, _, hst3⟩ := collapse_pre ha hph t t1 ψ hst q i hq hi hxi hlater o ht1
    have hd3 := hK t t1 q i o (wf_of_stabG t ψ hst) (pairComm_of_stabG t ψ hst hnz) hdd hm ht1
    split at hok2
    case isFalse => cases hok2
    obtain ⟨t3, ht3, hok2⟩ := bind_ok hok2
    simp only [Tab.setSign] at ht3
    split at ht3
    case isFalse => cases ht3
    cases ht3
    obtain ⟨hr', hd'⟩ := hN _ t' (wf_of_stabG _ _ hst3) hok2
    exact ⟨hst', hn'.trans hn, ⟨u + u, by rw [hnorm, mul_add, ← add_mul, e2, hu]⟩, hr', hd' hd3⟩
  | resetDet t t' ψ q v hreach hm hok ih =>
    have hD : DetShape t := detShape_of_inv hC n t ψ ih
    obtain ⟨hst, hn, ⟨u, hu⟩, hrr, hdd⟩ := ih
    obtain ⟨j, hj, hrow, hsign, hothers, hreset⟩ := det_row phG t hst.2.1 q v hm hD
    have ht' := hreset t' hok
    subst ht'
    have hq : q < t.n := (measure_det_inv phG t q v hm).1
    have hrr' : RREF { t with signs := t.signs.set j false } := hrr
    have hdd' : HasDual { t with signs := t.signs.set j false } := hdd
    cases v with
    | false =>
      have : t.signs.set j false = t.signs := set_self_of_getElem? _ _ _ hsign
      simp only [this, Bool.false_eq_true, if_false]
      exact ⟨hst, hn, ⟨u, hu⟩, hrr, hdd⟩
    | true =>
      simp only [if_true]
      have hfl := reset_det_flip tblG ncG ha hp hT t ψ hst q j hq hj hrow hsign hothers
      have hfl' : StabG Empty { t with signs := t.signs.set j false } (gateOn (P := Empty) n .X [q] ψ) := by
        rw [← hn]; exact hfl
      refine ⟨hfl', hn, ⟨u, ?_⟩, hrr', hdd'⟩
      have hvb : validBits n [q] = true := by simp [validBits]; omega
      have hU : IsUnitary Empty n (embed n [q] (specMatrix (.X : GateTerm Empty) : LMat Q8)) :=
        Q1t.Proofs.ConjEmbed.embed_unitary ha n [q] hvb _
          (Q1t.Proofs.ConjUnitary.isUnitary_iff_unitary.2
            (Q1t.Proofs.ConjUnitary.spec_unitary ha (.X : GateTerm Empty) trivial))
      have := unitary_normSqSum ha hs (Nat.two_pow_pos n) (Q1t.Proofs.ConjUnitary.isUnitary_iff_unitary.1 hU) ψ
        (by rw [hst.1, hn])
      unfold gateOn
      rw [this, hu]

/-- **`DetShapeHolds` from the five parts** (generated tables, ℚ(ζ₈), every `n`) -/
theorem detShapeHolds_of_parts (n : Nat) (hI : PartI n) (hN : PartN) (hG : PartG n) (hK : PartK) (hC : PartC) :
    DetShapeHolds (α := Q8) (A := Empty) n phG tblG ncG :=
  fun t ψ hr => detShape_of_inv hC n t ψ (inv_of_reach n hI hN hG hK hC t ψ hr)

end Q1t.Proofs.DetPlan

import Q1t.Proofs.CQasmGood
set_option linter.unusedSimpArgs false
/-!
C12 (`cq_wellformed_partial`), part 9: every good library gate (`gateGood`), on every placement in range with direct
parameters, is translated into a non-empty list of printed instructions (`GoodPrinted`) joined by newlines.
-/
namespace Q1t.Proofs.CQasm
open Q1t Q1t.CQ Q1t.Gen

variable {F : Type}

/-- the text of a hole-inner token when its variables denote printed numbers -/
def instTok (N : Num F) (ρ : Text → Option F) : Tok → Text
  | .lit s => s
  | .var key => match ρ key with
    | some x => N.disp x
    | none => []
  | t => t.render

/-- what is assumed of `f64::to_string` and of the expression evaluator: a number is printed as ONE decimal literal
of the language, and every evaluated hole of the generated templates, with printed numbers for its parameters,
evaluates to a number.  (False for NaN and the infinities, which print as `NaN`, `inf`.) -/
structure GoodNum (N : Num F) : Prop where
  disp_word : ∀ x, word (N.disp x) = true
  disp_num : ∀ x, ∃ l, CQ1.parseArg (N.disp x) = some (.num l)
  holes : ∀ g ∈ cqGates, gateGood g = true → ∀ l ∈ slinesOf g, ∀ inner, SOp.hole inner ∈ l.ops → ∀ ρ : Text → Option F,
    (∀ key, Tok.var key ∈ inner → (ρ key).isSome = true) →
    ∃ y, holeValue N (inner.flatMap (instTok N ρ)) = some (N.disp y)

theorem word_braceFree {t : Text} (h : word t = true) : braceFree t = true := by
  simp only [braceFree, List.all_eq_true]
  intro c hc
  have := word_noSpecial h c hc
  simp [this.2.1, this.2.2.1]

/-! ### the passes of `expandTemplate` -/

theorem passes_append (a b : List (Text × Text)) (s : Text) : passes (a ++ b) s = passes b (passes a s) := by
  simp [passes, List.foldl_append]

theorem substBits_passes (nq : Nat) : ∀ (pairs : List (Nat × Nat)) (s : Text), (∀ p ∈ pairs, p.1 < nq) →
    substBits (qNames nq) pairs s = some (passes (pairs.map fun p => (natText p.2, qName p.1)) s)
  | [], s, _ => rfl
  | (b, i) :: more, s, h => by
    have hb : b < nq := h (b, i) (by simp)
    simp only [substBits, qNames_get nq b hb]
    rw [substBits_passes nq more _ (fun p hp => h p (by simp [hp]))]
    rfl

theorem substArgs_passes (N : Num F) : ∀ (pairs : List (String × Param F)) (s : Text),
    substArgs N pairs s = passes (pairs.map fun ap => (ap.1.toList, ap.2.text N)) s
  | [], s => rfl
  | (a, p) :: more, s => by
    simp only [substArgs]
    rw [substArgs_passes N more]
    rfl

def kvsOf (N : Num F) (bits : List Nat) (argNames : List String) (params : List (Param F)) : List (Text × Text) :=
  (bits.zipIdx.map fun p => (natText p.2, qName p.1)) ++ ((argNames.zip params).map fun ap => (ap.1.toList, ap.2.text N))

theorem expandTemplate_passes (N : Num F) (nq : Nat) (tpl : String) (argNames : List String) (params : List (Param F))
    (bits : List Nat) (hb : ∀ b ∈ bits, b < nq) :
    expandTemplate N (qNames nq) tpl argNames params bits =
      .ok (holes N (passes (kvsOf N bits argNames params) tpl.toList)) := by
  unfold expandTemplate
  rw [substBits_passes nq bits.zipIdx _ (by
    intro p hp
    have := List.mem_zipIdx hp
    exact hb p.1 (by rw [this.2.2]; exact List.getElem_mem _))]
  simp only [substArgs_passes, kvsOf, passes_append]

theorem zipIdx_snd : ∀ (l : List Nat) (s : Nat), (l.zipIdx s).map (·.2) = List.range' s l.length
  | [], _ => rfl
  | x :: xs, s => by simp [List.zipIdx_cons, List.range'_succ, zipIdx_snd xs (s + 1)]

theorem kvs_keys (N : Num F) (bits : List Nat) (argNames : List String) (params : List (Param F))
    (hl : params.length = argNames.length) :
    (kvsOf N bits argNames params).map (·.1) = keysFor bits.length argNames := by
  simp only [kvsOf, keysFor, List.map_append, List.map_map]
  congr 1
  · have := zipIdx_snd bits 0
    rw [← List.range_eq_range'] at this
    rw [← this, List.map_map]; rfl
  · have : (argNames.zip params).map (fun ap => ap.1) = argNames := List.map_fst_zip (by omega)
    conv => rhs; rw [← this]
    rw [List.map_map]; rfl

theorem natText_inj {i j : Nat} (h : natText i = natText j) : i = j := by
  have := congrArg CQ1.natOfDigits h
  rwa [natOfDigits_natText, natOfDigits_natText] at this

/-- E1: the `loc`-th listed qubit -/
theorem find_bit : ∀ (l : List Nat) (s loc : Nat) (h1 : s ≤ loc) (h2 : loc - s < l.length),
    ((l.zipIdx s).map fun p => (natText p.2, qName p.1)).find? (fun kv => kv.1 == natText loc) =
      some (natText loc, qName l[loc - s])
  | [], _, _, _, h2 => by simp at h2
  | x :: xs, s, loc, h1, h2 => by
    simp only [List.zipIdx_cons, List.map_cons, List.find?]
    by_cases hs : s = loc
    · subst hs; simp
    · have hne : (natText s == natText loc) = false := by
        simp; exact fun e => hs (natText_inj e)
      simp only [hne]
      have h3 : loc - (s + 1) < xs.length := by simp at h2; omega
      rw [find_bit xs (s + 1) loc (by omega) h3]
      have : loc - s = (loc - (s + 1)) + 1 := by omega
      simp [this]

theorem natText_ne_param (i : Nat) (a : String) (ha : paramGood a = true) : natText i ≠ a.toList := by
  intro e
  simp only [paramGood, Bool.and_eq_true] at ha
  have hd := natText_digits i
  rw [e] at hd
  cases hl : a.toList with
  | nil => rw [hl] at ha; simp at ha
  | cons c cs =>
    rw [hl] at ha hd
    have := hd c (by simp)
    simp [this] at ha

theorem find_append_none {α} (p : α → Bool) (a b : List α) (h : ∀ x ∈ a, p x = false) :
    (a ++ b).find? p = b.find? p := by
  rw [List.find?_append, find_none_of_all p a h]; rfl

theorem find_append_some {α} (p : α → Bool) (a b : List α) (x : α) (h : a.find? p = some x) :
    (a ++ b).find? p = some x := by
  rw [List.find?_append, h]; rfl

theorem sigma_bit (N : Num F) (bits : List Nat) (argNames : List String) (params : List (Param F)) (loc : Nat)
    (h : loc < bits.length) :
    substAll (kvsOf N bits argNames params) (.var (natText loc)) = .lit (qName bits[loc]) := by
  rw [substAll_var, kvsOf, find_append_some _ _ _ _ (find_bit bits 0 loc (by omega) (by simpa using h))]
  simp

/-- E2: a parameter -/
theorem sigma_arg (N : Num F) (bits : List Nat) (argNames : List String) (params : List (Param F)) (a : String)
    (hgood : ∀ x ∈ argNames, paramGood x = true) (ha : a ∈ argNames) (hl : params.length = argNames.length) :
    ∃ p, paramOf argNames params a = some p ∧ p ∈ params ∧
      substAll (kvsOf N bits argNames params) (.var a.toList) = .lit (p.text N) := by
  have hfind : ∃ ap, (argNames.zip params).find? (fun ap => ap.1 == a) = some ap := by
    have : ((argNames.zip params).find? (fun ap => ap.1 == a)).isSome = true := by
      rw [List.find?_isSome]
      obtain ⟨i, hi, rfl⟩ := List.getElem_of_mem ha
      refine ⟨(argNames[i], params[i]'(by omega)), ?_, by simp⟩
      rw [List.mem_iff_getElem]
      exact ⟨i, by simp; omega, by simp⟩
    exact Option.isSome_iff_exists.mp this
  obtain ⟨ap, hap⟩ := hfind
  refine ⟨ap.2, by simp [paramOf, hap], (List.of_mem_zip (List.mem_of_find?_eq_some hap)).2, ?_⟩
  rw [substAll_var, kvsOf, find_append_none _ _ _ (by
    intro kv hkv
    obtain ⟨p, _, rfl⟩ := List.mem_map.mp hkv
    simp; exact natText_ne_param p.2 a (hgood a ha))]
  rw [List.find?_map]
  have : ((fun (kv : Text × Text) => kv.1 == a.toList) ∘ fun (ap : String × Param F) => (ap.1.toList, ap.2.text N)) =
      fun ap => ap.1 == a := by
    funext ap
    simp only [Function.comp]
    by_cases h : ap.1 = a
    · rw [h]; simp
    · have h2 : ¬ ap.1.toList = a.toList := fun e => h (String.toList_inj.mp e)
      have e1 : (ap.1.toList == a.toList) = false := by simpa using h2
      have e2 : (ap.1 == a) = false := by simpa using h
      rw [e1, e2]
  rw [this, hap]
  rfl

/-! ### printed instructions on a placement -/

/-- one line of a good gate's translation: a printed gate instruction on some of the placed qubits -/
structure GoodPrinted (nq : Nat) (bits : List Nat) (line : Text) : Prop where
  ex : ∃ (name : Text) (ops : List Text) (args : List CQ1.Arg) (sig : List CQ1.Kind),
    line = printInstr name ops ∧ word name = true ∧ notCondName name = true ∧ name.head? ≠ some '.' ∧
    ops ≠ [] ∧ (∀ t ∈ ops, word t = true) ∧ ops.map CQ1.parseArg = args.map some ∧
    CQ1.signature (String.ofList name) = some sig ∧ CQ1.argsMatch args sig = true ∧
    CQ1.isGate (String.ofList name) = true ∧ (∀ a, args.head? = some a → CQ1.isB a = false) ∧
    (args.filterMap CQ1.qIndex).Nodup ∧ (∀ q ∈ args.filterMap CQ1.qIndex, q ∈ bits) ∧
    args.filterMap CQ1.bIndex = []

end Q1t.Proofs.CQasm

namespace Q1t.Proofs.CQasm
open Q1t Q1t.CQ Q1t.Gen

variable {F : Type}

/-! ### from typed structured lines to printed instructions -/

theorem op_printed (N : Num F) (hN : GoodNum N) (σ : Tok → Tok) (v : Text → Text) (k : Nat) (params : List String)
    (bits : List Nat) (hk : bits.length = k) (o : SOp) (kd : CQ1.Kind) (ht : opTyped k params o kd = true)
    (hq : ∀ loc, ∀ (h : loc < bits.length), σ (.var (natText loc)) = .lit (qName bits[loc]))
    (ha : ∀ a ∈ params, ∃ x, σ (.var a.toList) = .lit (N.disp x))
    (hv : ∀ inner, o = .hole inner → ∃ y, v (innerText σ inner) = N.disp y) :
    ∃ arg, CQ1.parseArg (instOp σ v o) = some arg ∧ word (instOp σ v o) = true ∧ CQ1.argKind arg kd = true ∧
      CQ1.qIndex arg = (locOf o).map (fun loc => bits.getD loc 0) ∧ CQ1.bIndex arg = none := by
  cases o with
  | q loc =>
    cases kd <;> simp [opTyped] at ht
    have hl : loc < bits.length := by omega
    refine ⟨.q bits[loc], ?_, ?_, rfl, ?_, rfl⟩
    · simp [instOp, hq loc hl, textOf, parseArg_qName]
    · simp [instOp, hq loc hl, textOf, word_qName]
    · simp [CQ1.qIndex, locOf, hl]
  | lit t =>
    simp only [opTyped, Bool.and_eq_true] at ht
    cases hp : CQ1.parseArg t with
    | none => rw [hp] at ht; simp at ht
    | some a =>
      rw [hp] at ht
      cases a with
      | num x => exact ⟨.num x, by simp [instOp, hp], by simpa [instOp] using ht.1, ht.2, rfl, rfl⟩
      | q _ => simp at ht
      | b _ => simp at ht
  | arg a =>
    cases kd <;> simp [opTyped] at ht
    obtain ⟨x, hx⟩ := ha a ht
    obtain ⟨l, hl⟩ := hN.disp_num x
    exact ⟨.num l, by simp [instOp, hx, textOf, hl], by simp [instOp, hx, textOf, hN.disp_word], rfl, rfl, rfl⟩
  | hole inner =>
    cases kd <;> simp [opTyped] at ht
    obtain ⟨y, hy⟩ := hv inner rfl
    obtain ⟨l, hl⟩ := hN.disp_num y
    exact ⟨.num l, by simp [instOp, hy, hl], by simp [instOp, hy, hN.disp_word], rfl, rfl, rfl⟩

theorem ops_printed (N : Num F) (hN : GoodNum N) (σ : Tok → Tok) (v : Text → Text) (k : Nat) (params : List String)
    (bits : List Nat) (hk : bits.length = k)
    (hq : ∀ loc, ∀ (h : loc < bits.length), σ (.var (natText loc)) = .lit (qName bits[loc]))
    (ha : ∀ a ∈ params, ∃ x, σ (.var a.toList) = .lit (N.disp x)) :
    ∀ (ops : List SOp) (sig : List CQ1.Kind), opsTyped k params ops sig = true →
      (∀ inner, SOp.hole inner ∈ ops → ∃ y, v (innerText σ inner) = N.disp y) →
      ∃ args, (ops.map (instOp σ v)).map CQ1.parseArg = args.map some ∧ (∀ t ∈ ops.map (instOp σ v), word t = true) ∧
        CQ1.argsMatch args sig = true ∧
        args.filterMap CQ1.qIndex = (ops.filterMap locOf).map (fun loc => bits.getD loc 0) ∧
        args.filterMap CQ1.bIndex = [] ∧ (firstIsQ ops = true → ∀ a, args.head? = some a → CQ1.isB a = false)
  | [], [], _, _ => ⟨[], rfl, by simp, rfl, rfl, rfl, by simp [firstIsQ]⟩
  | [], _ :: _, h, _ => by simp [opsTyped] at h
  | _ :: _, [], h, _ => by simp [opsTyped] at h
  | o :: os, kd :: ks, h, hv => by
    simp only [opsTyped, Bool.and_eq_true] at h
    obtain ⟨arg, h1, h2, h3, h4, h5⟩ := op_printed N hN σ v k params bits hk o kd h.1 hq ha
      (fun inner e => hv inner (by simp [e]))
    obtain ⟨args, g1, g2, g3, g4, g5, _⟩ := ops_printed N hN σ v k params bits hk hq ha os ks h.2
      (fun inner hm => hv inner (by simp [hm]))
    refine ⟨arg :: args, by simp [h1, g1], ?_, by simp [CQ1.argsMatch, h3, g3], ?_, ?_, ?_⟩
    · intro t ht
      rcases List.mem_cons.mp ht with rfl | ht
      · exact h2
      · exact g2 t ht
    · cases hl : locOf o with
      | none => simp [List.filterMap_cons, h4, hl, g4]
      | some loc => simp [List.filterMap_cons, h4, hl, g4]
    · simp [List.filterMap_cons, h5, g5]
    · intro hf a ha'
      simp at ha'; subst ha'
      cases o with
      | q loc =>
        have : CQ1.qIndex arg = some (bits.getD loc 0) := by simpa [locOf] using h4
        cases arg <;> simp [CQ1.qIndex] at this <;> rfl
      | lit _ => simp [firstIsQ] at hf
      | arg _ => simp [firstIsQ] at hf
      | hole _ => simp [firstIsQ] at hf

theorem map_getD_nodup (bits : List Nat) (hb : bits.Nodup) : ∀ (locs : List Nat), locs.Nodup → (∀ l ∈ locs, l < bits.length) →
    (locs.map (fun loc => bits.getD loc 0)).Nodup
  | [], _, _ => by simp
  | l :: ls, hn, hl => by
    have h1 := List.nodup_cons.mp hn
    rw [List.map_cons, List.nodup_cons]
    refine ⟨?_, map_getD_nodup bits hb ls h1.2 (fun x hx => hl x (by simp [hx]))⟩
    intro hm
    obtain ⟨l', hl', he⟩ := List.mem_map.mp hm
    have a1 : l < bits.length := hl l (by simp)
    have a2 : l' < bits.length := hl l' (by simp [hl'])
    simp only [List.getD_eq_getElem?_getD, List.getElem?_eq_getElem a1, List.getElem?_eq_getElem a2, Option.getD_some] at he
    have := (List.getElem_inj hb).mp he
    subst this
    exact h1.1 hl'

theorem locs_lt (k : Nat) (params : List String) : ∀ (ops : List SOp) (sig : List CQ1.Kind),
    opsTyped k params ops sig = true → ∀ l ∈ ops.filterMap locOf, l < k
  | [], _, _ => by simp
  | _ :: _, [], h => by simp [opsTyped] at h
  | o :: os, kd :: ks, h => by
    simp only [opsTyped, Bool.and_eq_true] at h
    intro l hl
    rw [List.filterMap_cons] at hl
    cases ho : locOf o with
    | none => rw [ho] at hl; exact locs_lt k params os ks h.2 l hl
    | some loc =>
      rw [ho] at hl
      rcases List.mem_cons.mp hl with rfl | hl
      · cases o <;> simp [locOf] at ho
        subst ho
        cases kd <;> simp [opTyped] at h
        exact h.1
      · exact locs_lt k params os ks h.2 l hl

theorem notCondName_spec {name : Text} (h : notCondName name = true) : ∀ g, name ≠ 'c' :: '-' :: g := by
  intro g e; subst e; simp [notCondName] at h

/-- a good line, instantiated, is a printed gate instruction on the placement -/
theorem line_printed (N : Num F) (hN : GoodNum N) (σ : Tok → Tok) (v : Text → Text) (k : Nat) (params : List String)
    (nq : Nat) (bits : List Nat) (hk : bits.length = k) (hbn : bits.Nodup) (l : SLine) (hl : lineGood k params l = true)
    (hq : ∀ loc, ∀ (h : loc < bits.length), σ (.var (natText loc)) = .lit (qName bits[loc]))
    (ha : ∀ a ∈ params, ∃ x, σ (.var a.toList) = .lit (N.disp x))
    (hv : ∀ inner, SOp.hole inner ∈ l.ops → ∃ y, v (innerText σ inner) = N.disp y) :
    GoodPrinted nq bits (instLine σ v l) := by
  simp only [lineGood, Bool.and_eq_true, decide_eq_true_eq] at hl
  obtain ⟨⟨⟨⟨⟨⟨h1, h2⟩, h3⟩, h4⟩, h5⟩, h6⟩, h7⟩ := hl
  cases hs : CQ1.signature (String.ofList l.name) with
  | none => rw [hs] at h5; simp at h5
  | some sig =>
    rw [hs] at h5
    obtain ⟨args, g1, g2, g3, g4, g5, g6⟩ := ops_printed N hN σ v k params bits hk hq ha l.ops sig h5 hv
    have hne : l.ops ≠ [] := by
      intro e; rw [e] at h7; simp [firstIsQ] at h7
    refine ⟨⟨l.name, l.ops.map (instOp σ v), args, sig, ?_, h1, h2, by simpa using h3, by simpa using hne, g2, g1, hs, g3,
      h4, g6 h7, ?_, ?_, g5⟩⟩
    · have : (l.ops.map (instOp σ v)).isEmpty = false := by
        cases ho : l.ops with
        | nil => exact absurd ho hne
        | cons _ _ => rfl
      simp [instLine, printInstr, this]
    · rw [g4]
      exact map_getD_nodup bits hbn _ h6 (fun x hx => by rw [hk]; exact locs_lt k params l.ops sig h5 x hx)
    · intro q hq'
      rw [g4] at hq'
      obtain ⟨loc, hloc, rfl⟩ := List.mem_map.mp hq'
      have : loc < bits.length := by rw [hk]; exact locs_lt k params l.ops sig h5 loc hloc
      simp [List.getD_eq_getElem?_getD, List.getElem?_eq_getElem this]

end Q1t.Proofs.CQasm

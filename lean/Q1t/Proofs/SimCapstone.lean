import Q1t.Proofs.SimResetAll
/-!
C02 capstone: `shot_refinement` — by induction over the operation list, from the per-operation lemmas
(`refine_*` in `SimRefine.lean`, `SimMeasAll.lean`): after any run of `do_execute_with` (vector backend) on
draws in the support, every shot has an outcome record — the column of its register words in the trace of
register snapshots — whose forced replay by the reference semantics (`Spec.replay`) has a candidate of
non-zero weight whose state is `Rel`ated (equal up to a scalar; unit norm) to the simulator's state of the shot.
-/
set_option linter.unusedSectionVars false
namespace Q1t.Sim
open Q1t Q1t.Spec Prog

section trace
variable {W P S : Type} (B : Backend W P S) (sb : Nat → W → Nat → Prop) (sc : List W → Nat → Prop)

/-- a run of `do_execute_with` together with the register snapshot after every operation -/
inductive RunsTrace : S → List Nat → List (COp P) → List Draw → List (List Nat) → S → List Nat → List Draw → Prop
  | nil (s : S) (c : List Nat) (ds : List Draw) : RunsTrace s c [] ds [] s c ds
  | cons {s : S} {c : List Nat} {op : COp P} {ops : List (COp P)} {ds : List Draw} {s1 : S} {c1 : List Nat}
      {d1 : List Draw} {regs : List (List Nat)} {s' : S} {c' : List Nat} {ds' : List Draw} :
      Runs sb sc (execOp B s c op) ds (.ok (s1, c1)) d1 → RunsTrace s1 c1 ops d1 regs s' c' ds' →
      RunsTrace s c (op :: ops) ds (c1 :: regs) s' c' ds'

variable {B sb sc}

theorem runs_bind_intro {β γ : Type} {p : Prog W β} {f : β → Prog W γ} {ds d1 ds' : List Draw} {b : β}
    {r : Except Fail γ} (h1 : Runs sb sc p ds (.ok b) d1) (h2 : Runs sb sc (f b) d1 r ds') :
    Runs sb sc (p.bind f) ds r ds' := by
  generalize hr : (Except.ok b : Except Fail β) = rb at h1
  induction h1 with
  | pure b0 ds0 =>
    simp only [Except.ok.injEq] at hr
    subst hr
    exact h2
  | fail e ds0 => cases hr
  | binomial c0 p0 k n0 ds0 r0 ds0' hle hsb _ ih => exact .binomial _ _ _ _ _ _ _ hle hsb (ih h2 hr)
  | categorical ws c0 k l ds0 r0 ds0' hok hsc _ ih => exact .categorical _ _ _ _ _ _ _ hok hsc (ih h2 hr)

/-- a successful run of the whole circuit is a chain of successful runs of its operations -/
theorem runs_execOps_iff_trace : ∀ (ops : List (COp P)) (s : S) (c : List Nat) (ds : List Draw) (s' : S)
    (c' : List Nat) (ds' : List Draw),
    Runs sb sc (execOps B s c ops) ds (.ok (s', c')) ds' ↔ ∃ regs, RunsTrace B sb sc s c ops ds regs s' c' ds' := by
  intro ops
  induction ops with
  | nil =>
    intro s c ds s' c' ds'
    constructor
    · intro h
      obtain ⟨e, rfl⟩ := runs_pure_iff.mp h
      simp only [Except.ok.injEq, Prod.mk.injEq] at e
      obtain ⟨rfl, rfl⟩ := e
      exact ⟨[], .nil _ _ _⟩
    · rintro ⟨regs, h⟩
      cases h
      exact .pure _ _
  | cons op rest ih =>
    intro s c ds s' c' ds'
    constructor
    · intro h
      simp only [execOps] at h
      obtain ⟨⟨s1, c1⟩, d1, h1, h2⟩ := runs_bind_ok _ _ h
      obtain ⟨regs, ht⟩ := (ih s1 c1 d1 s' c' ds').mp h2
      exact ⟨c1 :: regs, .cons h1 ht⟩
    · rintro ⟨regs, h⟩
      cases h with
      | cons h1 ht =>
        simp only [execOps]
        exact runs_bind_intro h1 ((ih _ _ _ _ _ _).mpr ⟨_, ht⟩)

theorem RunsTrace.length {s : S} {c : List Nat} {ops : List (COp P)} {ds : List Draw} {regs : List (List Nat)}
    {s' : S} {c' : List Nat} {ds' : List Draw} (h : RunsTrace B sb sc s c ops ds regs s' c' ds') :
    regs.length = ops.length := by
  induction h with
  | nil => rfl
  | cons _ _ ih => simp [ih]

/-- the last snapshot is the final register -/
theorem RunsTrace.last {s : S} {c : List Nat} {ops : List (COp P)} {ds : List Draw} {regs : List (List Nat)}
    {s' : S} {c' : List Nat} {ds' : List Draw} (h : RunsTrace B sb sc s c ops ds regs s' c' ds') :
    (c :: regs).getLast? = some c' := by
  induction h with
  | nil => rfl
  | cons _ _ ih => rw [List.getLast?_cons_cons]; exact ih

end trace

section
variable {α P : Type} [CommRing α] [Amp α P] [SimAmp α]
variable {n : Nat} {valid : GateTerm P → List Nat → Prop} {nz : α → Prop}

/-- side condition of the statement on an operation, beyond validity of its gate instance: the classical
targets of a `measure_all` / `peek_all` are distinct (D14: with a repeated target "the bit stored" for a qubit is
ambiguous — the code ORs the outcomes of the qubits sharing the target) -/
def OpOK : COp P → Prop
  | .measureAll cbits _ => cbits.Nodup
  | .peekAll cbits _ => cbits.Nodup
  | _ => True

theorem execOp_refine (ha : LawfulAmp α P) (hs : LawfulSim α P nz) (hsem : GateSemOK α n valid)
    {nonzero : List α → Bool} (hnzb : NonzeroOK nonzero) {N : Nat} {s : VecState α} {c : List Nat} {op : COp P}
    (hloc : op = .resetAll → LocalWeights α)
    (hop : OpValid valid op) (hok : OpOK op) (hwf : WFState n N s c)
    {ds ds' : List Draw} {s' : VecState α} {c' : List Nat}
    (h : Runs (suppBin nz) (suppCat nz) (execOp (vecBackend (α := α) (P := P)) s c op) ds (.ok (s', c')) ds') :
    StepRefines n nonzero op s c s' c' := by
  cases op with
  | gate g bits => exact refine_gate hsem hop hwf h
  | cond control target g bits => exact refine_cond hsem hop hwf h
  | reset q => exact refine_reset ha hs hsem hwf h
  | resetAll => exact refine_resetAll ha hs hsem (hloc rfl) hwf h
  | measure q cb b => exact refine_measure ha hs hsem hwf h
  | measureAll cbits b => exact refine_measureAll ha hs hsem hok hwf h
  | peek q cb b => exact refine_peek ha hs hsem hnzb hwf h
  | peekAll cbits b => exact refine_peekAll ha hs hsem hnzb hok hwf h
  | barrier bits => exact refine_barrier h

/-- the column of shot `i` in the trace of register snapshots -/
abbrev ShotRecord (regs : List (List Nat)) (i : Nat) (outs : List Nat) : Prop :=
  List.Forall₂ (fun (reg : List Nat) (o : Nat) => reg[i]? = some o) regs outs

/-- the refinement invariant, from an arbitrary well-formed state: every shot related to a candidate of the
replay so far stays related to a candidate of the replay continued with its own outcome record -/
theorem execOps_refine (ha : LawfulAmp α P) (hs : LawfulSim α P nz) (hsem : GateSemOK α n valid)
    {nonzero : List α → Bool} (hnzb : NonzeroOK nonzero) {N : Nat} :
    ∀ (ops : List (COp P)) (s : VecState α) (c : List Nat), OpsValid valid ops → (∀ op ∈ ops, OpOK op) →
    (COp.resetAll ∈ ops → LocalWeights α) →
    WFState n N s c → ∀ {ds ds' : List Draw} {s' : VecState α} {c' : List Nat} {regs : List (List Nat)},
    RunsTrace (vecBackend (α := α) (P := P)) (suppBin nz) (suppCat nz) s c ops ds regs s' c' ds' →
    ∀ (i : Nat) (col : List α) (w : Nat) (ψ : List α) (cands : List (List α × Nat)),
      (shotStates s)[i]? = some col → c[i]? = some w → w < 2 ^ 64 → Rel n col ψ → (ψ, w) ∈ cands →
      ∃ outs col' w' φ, ShotRecord regs i outs ∧ (shotStates s')[i]? = some col' ∧ c'[i]? = some w' ∧
        w' < 2 ^ 64 ∧ (φ, w') ∈ replay n nonzero ops outs cands ∧ Rel n col' φ := by
  intro ops
  induction ops with
  | nil =>
    intro s c _ _ _ _ ds ds' s' c' regs ht i col w ψ cands hcol hw hwb hrel hmem
    cases ht
    exact ⟨[], col, w, ψ, .nil, hcol, hw, hwb, by simpa [replay] using hmem, hrel⟩
  | cons op rest ih =>
    intro s c hv hok hloc hwf ds ds' s' c' regs ht i col w ψ cands hcol hw hwb hrel hmem
    cases ht with
    | @cons _ _ _ _ _ s1 c1 d1 regs1 _ _ _ h1 ht1 =>
      have hop := hv op List.mem_cons_self
      have hwf1 := execOp_wf hsem.toShape hsem.basis hop hwf h1
      obtain ⟨col1, w1, φ1, e1, e2, e3, e4, e5⟩ :=
        execOp_refine ha hs hsem hnzb (fun e => hloc (e ▸ List.mem_cons_self)) hop (hok op List.mem_cons_self) hwf h1
          i col w ψ hcol hw hwb hrel
      have hmem1 : (φ1, w1) ∈ ((cands.flatMap fun (ψw : List α × Nat) => replayOp n nonzero op ψw.1 ψw.2 w1).filter
          fun cd => nonzero cd.1) := by
        rw [List.mem_filter]
        exact ⟨List.mem_flatMap.mpr ⟨(ψ, w), hmem, e4⟩, e5.nonzero ha hs hnzb⟩
      obtain ⟨outs, col', w', φ, f1, f2, f3, f4, f5, f6⟩ :=
        ih s1 c1 (fun o ho => hv o (List.mem_cons_of_mem _ ho)) (fun o ho => hok o (List.mem_cons_of_mem _ ho))
          (fun hm => hloc (List.mem_cons_of_mem _ hm)) hwf1 ht1
          i col1 w1 φ1 _ e1 e2 e3 e5 hmem1
      exact ⟨w1 :: outs, col', w', φ, .cons e2 f1, f2, f3, f4, by simpa [replay] using f5, f6⟩

/-! ### from the initial state -/

theorem wfState_new (n N : Nat) : WFState n N (VecState.new (α := α) n N) (List.replicate N 0) := by
  obtain ⟨_, _, h3, _⟩ := resetAll_shots (VecState.new (α := α) n N)
  exact ⟨h3, rfl, rfl, by simp⟩

theorem shotStates_new (n N : Nat) : shotStates (VecState.new (α := α) n N) = List.replicate N (ket0 n) :=
  (resetAll_shots (VecState.new (α := α) n N)).2.2.2

theorem rel_ket0 (ha : LawfulAmp α P) (hs : LawfulSim α P nz) (n : Nat) : Rel n (ket0 (α := α) n) (ket0 n) :=
  ⟨by simp [ket0], normSqSum_ketIdx ha hs 0 (Nat.pow_pos (by decide)), 1, by simp⟩

/-- **`shot_refinement`** (Runs form) -/
theorem shot_refinement_runs (ha : LawfulAmp α P) (hs : LawfulSim α P nz) (hsem : GateSemOK α n valid)
    {nonzero : List α → Bool} (hnzb : NonzeroOK nonzero) {N : Nat} (ops : List (COp P))
    (hv : OpsValid valid ops) (hok : ∀ op ∈ ops, OpOK op) (hloc : COp.resetAll ∈ ops → LocalWeights α) {ds ds' : List Draw} {s' : VecState α} {c' : List Nat}
    (h : Runs (suppBin nz) (suppCat nz)
      (execOps (vecBackend (α := α) (P := P)) (VecState.new n N) (List.replicate N 0) ops) ds (.ok (s', c')) ds') :
    WFState n N s' c' ∧
    ∃ regs, RunsTrace (vecBackend (α := α) (P := P)) (suppBin nz) (suppCat nz) (VecState.new n N)
        (List.replicate N 0) ops ds regs s' c' ds' ∧
      ∀ i, i < N → ∃ outs col w φ, ShotRecord regs i outs ∧ (shotStates s')[i]? = some col ∧ c'[i]? = some w ∧
        (φ, w) ∈ replay n nonzero ops outs [(ket0 n, 0)] ∧ Rel n col φ ∧ ∃ u : α, normSqSum φ * u = 1 := by
  refine ⟨execOps_wf hsem.toShape hsem.basis ops _ _ hv (wfState_new n N) h, ?_⟩
  obtain ⟨regs, ht⟩ := (runs_execOps_iff_trace _ _ _ _ _ _ _).mp h
  refine ⟨regs, ht, fun i hi => ?_⟩
  obtain ⟨outs, col, w, φ, f1, f2, f3, _, f5, f6⟩ :=
    execOps_refine ha hs hsem hnzb ops _ _ hv hok hloc (wfState_new n N) ht i (ket0 n) 0 (ket0 n) [(ket0 n, 0)]
      (by rw [shotStates_new, List.getElem?_replicate, if_pos hi]) (by rw [List.getElem?_replicate, if_pos hi])
      (by decide) (rel_ket0 ha hs n) (by simp)
  exact ⟨outs, col, w, φ, f1, f2, f3, f5, f6, f6.weight ha hs⟩

end
end Q1t.Sim

import Q1t.Proofs.TableauStabG
import Q1t.Proofs.TableauMeasure
import Q1t.Proofs.SimAlg
import Q1t.Spec.Born
set_option linter.unusedSectionVars false
set_option linter.unusedVariables false
set_option linter.unusedSimpArgs false
/-!
C03, general-ring part 5 (all `n`): the projector `Spec.project n q o` on "qubit `q` = `o`" against the Pauli
action: a Pauli string without X/Y on `q` commutes with it, one with X/Y on `q` exchanges the two projectors;
`±Z_q` fixes exactly the matching projection; the action preserves the squared norm.
-/
namespace Q1t.Proofs.TabG
open Q1t Q1t.Tableau Q1t.Spec Q1t.Spec.Pauli Q1t.Proofs.Tableau

variable {α A : Type} [CommRing α] [Amp α A]

/-! ### `project`, recursively -/

theorem project_getElem? (n q : Nat) (o : Bool) (ψ : List α) (idx : Nat) :
    (project n q o ψ)[idx]? = (ψ[idx]?).map fun a => if (qbit n q idx == 1) == o then a else 0 := by
  simp only [project, List.getElem?_map, List.getElem?_zipIdx]
  cases ψ[idx]? <;> simp

theorem project_length (n q : Nat) (o : Bool) (ψ : List α) : (project n q o ψ).length = ψ.length := by
  simp [project]

theorem qbit_eq_bitOf (n q idx : Nat) : (qbit n q idx == 1) = Q1t.Spec.Stab.bitOf n q idx := by
  simp [qbit, Q1t.Spec.Stab.bitOf, Nat.shiftRight_eq_div_pow]

theorem project_smul (n q : Nat) (o : Bool) (k : Nat) (v : List α) :
    project n q o (smul A k v) = smul A k (project n q o v) := by
  apply List.ext_getElem?
  intro idx
  simp only [project_getElem?, smul, List.getElem?_map]
  cases v[idx]? <;> simp

/-- first qubit: the projector keeps one half -/
theorem project_zero (n : Nat) (o : Bool) (v : List α) (hv : v.length = 2 ^ (n + 1)) :
    project (n + 1) 0 o v =
      if o then List.replicate (2 ^ n) 0 ++ v.drop (2 ^ n) else v.take (2 ^ n) ++ List.replicate (2 ^ n) 0 := by
  have hp : 2 ^ (n + 1) = 2 ^ n + 2 ^ n := by rw [Nat.pow_succ]; omega
  apply List.ext_getElem?
  intro idx
  rw [project_getElem?, qbit_eq_bitOf]
  by_cases hlt : idx < 2 ^ n
  · rw [bitOf_zero_lt n idx hlt]
    cases o
    · simp only [if_false, Bool.false_eq_true]
      rw [List.getElem?_append_left (by simp; omega), List.getElem?_take, if_pos hlt]
      cases v[idx]? <;> simp
    · simp only [if_true]
      rw [List.getElem?_append_left (by simp; exact hlt)]
      have : idx < v.length := by omega
      simp [List.getElem?_eq_getElem this, hlt]
  · by_cases hlt2 : idx < 2 ^ (n + 1)
    · rw [bitOf_zero_ge n idx (by omega) hlt2]
      cases o
      · simp only [if_false, Bool.false_eq_true]
        have hl : (v.take (2 ^ n)).length = 2 ^ n := by simp; omega
        rw [List.getElem?_append_right (by rw [hl]; omega), hl]
        have : idx < v.length := by omega
        rw [List.getElem?_eq_getElem this, List.getElem?_replicate, if_pos (by omega)]
        simp
      · simp only [if_true]
        rw [List.getElem?_append_right (by simp; omega)]
        simp only [List.length_replicate, List.getElem?_drop]
        rw [show 2 ^ n + (idx - 2 ^ n) = idx by omega]
        cases v[idx]? <;> simp
    · have h1 : v[idx]? = none := List.getElem?_eq_none (by omega)
      rw [h1]
      cases o <;> simp <;> omega

/-- later qubits: the projector acts inside the two halves -/
theorem project_succ (n q : Nat) (hq : q < n) (o : Bool) (v : List α) (hv : v.length = 2 ^ (n + 1)) :
    project (n + 1) (q + 1) o v = project n q o (v.take (2 ^ n)) ++ project n q o (v.drop (2 ^ n)) := by
  have hp : 2 ^ (n + 1) = 2 ^ n + 2 ^ n := by rw [Nat.pow_succ]; omega
  apply List.ext_getElem?
  intro idx
  rw [project_getElem?, qbit_eq_bitOf]
  by_cases hlt : idx < 2 ^ n
  · rw [List.getElem?_append_left (by rw [project_length]; simp; omega), project_getElem?, qbit_eq_bitOf,
      bitOf_succ_lt, List.getElem?_take, if_pos hlt]
  · rw [List.getElem?_append_right (by rw [project_length]; simp; omega), project_length, project_getElem?,
      qbit_eq_bitOf, List.getElem?_drop]
    simp only [List.length_take]
    have hmin : min (2 ^ n) v.length = 2 ^ n := by omega
    rw [hmin, show 2 ^ n + (idx - 2 ^ n) = idx by omega]
    have := bitOf_succ_ge n q (idx - 2 ^ n) hq
    rw [show 2 ^ n + (idx - 2 ^ n) = idx by omega] at this
    rw [this]


/-! ### the action against the projector -/

theorem smul_zeros (k m : Nat) : smul A k (List.replicate m (0 : α)) = List.replicate m 0 := by
  simp [smul]

theorem actOps_zeros (r : List P) : actOps A r (List.replicate (2 ^ r.length) (0 : α)) = List.replicate (2 ^ r.length) 0 := by
  induction r with
  | nil => rfl
  | cons p ps ih =>
    have hp : 2 ^ (p :: ps).length = 2 ^ ps.length + 2 ^ ps.length := by rw [List.length_cons, Nat.pow_succ]; omega
    rw [actOps_cons]
    have hhalf : (List.replicate (2 ^ (p :: ps).length) (0 : α)).length / 2 = 2 ^ ps.length := by
      rw [List.length_replicate, hp]; omega
    rw [hhalf, List.take_replicate, List.drop_replicate]
    have h1 : min (2 ^ ps.length) (2 ^ (p :: ps).length) = 2 ^ ps.length := by omega
    have h2 : 2 ^ (p :: ps).length - 2 ^ ps.length = 2 ^ ps.length := by omega
    rw [h1, h2, ih]
    cases p <;> simp [cellAct, smul_zeros, ← List.replicate_add] <;> (rw [Nat.pow_succ]; omega)

/-- does the string have X or Y at position `q` -/
def xAt (r : List P) (q : Nat) : Bool := match r[q]? with | some p => p.hasX | none => false

theorem xAt_zero (p : P) (ps : List P) : xAt (p :: ps) 0 = p.hasX := rfl
theorem xAt_succ (p : P) (ps : List P) (q : Nat) : xAt (p :: ps) (q + 1) = xAt ps q := by
  simp [xAt]

/-- **A Pauli string commutes with the projector on qubit `q` if it has `I`/`Z` there, and exchanges the two
projectors if it has `X`/`Y` there** (all `n`). -/
theorem actOps_project (r : List P) : ∀ (q : Nat) (v : List α) (o : Bool), q < r.length → v.length = 2 ^ r.length →
    actOps A r (project r.length q o v) = project r.length q (o != xAt r q) (actOps A r v) := by
  induction r with
  | nil => intro q v o hq; simp at hq
  | cons p ps ih =>
    intro q v o hq hv
    have hv' : v.length = 2 ^ (ps.length + 1) := by simpa using hv
    obtain ⟨h0, h1⟩ := halves_length v ps.length hv'
    have hhalf : v.length / 2 = 2 ^ ps.length := by rw [hv', Nat.pow_succ]; omega
    rw [hhalf] at h0 h1
    have hlen : (actOps A (p :: ps) v).length = 2 ^ (ps.length + 1) := by rw [actOps_length]; exact hv'
    cases q with
    | zero =>
      rw [xAt_zero]
      show actOps A (p :: ps) (project (ps.length + 1) 0 o v) = project (ps.length + 1) 0 _ (actOps A (p :: ps) v)
      rw [project_zero _ _ _ hv', project_zero _ _ _ hlen, actOps_cons p ps v, hhalf]
      have hc := cellAct_lengths (A := A) p (actOps A ps (v.take (2 ^ ps.length)), actOps A ps (v.drop (2 ^ ps.length)))
        (by simp [actOps_length, h0, h1])
      simp only [actOps_length, h0] at hc
      have ht : ∀ x y : List α, x.length = 2 ^ ps.length → (x ++ y).take (2 ^ ps.length) = x := fun x y hx => by
        rw [← hx]; simp
      have hd : ∀ x y : List α, x.length = 2 ^ ps.length → (x ++ y).drop (2 ^ ps.length) = y := fun x y hx => by
        rw [← hx]; simp
      rw [ht _ _ hc.1, hd _ _ hc.1]
      cases o
      · simp only [Bool.false_eq_true, if_false, Bool.false_bne]
        rw [actOps_cons]
        have hl : (v.take (2 ^ ps.length) ++ List.replicate (2 ^ ps.length) (0 : α)).length / 2 = 2 ^ ps.length := by
          simp [h0]; omega
        rw [hl, ht _ _ h0, hd _ _ h0, actOps_zeros]
        cases p <;> simp [cellAct, P.hasX, smul_zeros]
      · simp only [if_true, Bool.true_bne]
        rw [actOps_cons]
        have hl : (List.replicate (2 ^ ps.length) (0 : α) ++ v.drop (2 ^ ps.length)).length / 2 = 2 ^ ps.length := by
          simp [h1]; omega
        rw [hl, ht _ _ (by simp), hd _ _ (by simp), actOps_zeros]
        cases p <;> simp [cellAct, P.hasX, smul_zeros]
    | succ q =>
      have hq' : q < ps.length := by simpa using hq
      rw [xAt_succ]
      show actOps A (p :: ps) (project (ps.length + 1) (q + 1) o v) =
        project (ps.length + 1) (q + 1) _ (actOps A (p :: ps) v)
      rw [project_succ _ _ hq' _ _ hv', project_succ _ _ hq' _ _ hlen, actOps_cons p ps v, hhalf]
      have hc := cellAct_lengths (A := A) p (actOps A ps (v.take (2 ^ ps.length)), actOps A ps (v.drop (2 ^ ps.length)))
        (by simp [actOps_length, h0, h1])
      simp only [actOps_length, h0] at hc
      have ht : ∀ x y : List α, x.length = 2 ^ ps.length → (x ++ y).take (2 ^ ps.length) = x := fun x y hx => by
        rw [← hx]; simp
      have hd : ∀ x y : List α, x.length = 2 ^ ps.length → (x ++ y).drop (2 ^ ps.length) = y := fun x y hx => by
        rw [← hx]; simp
      rw [ht _ _ hc.1, hd _ _ hc.1, actOps_cons]
      have hl : (project ps.length q o (v.take (2 ^ ps.length)) ++ project ps.length q o (v.drop (2 ^ ps.length))).length / 2
          = 2 ^ ps.length := by simp [project_length, h0, h1]; omega
      rw [hl, ht _ _ (by rw [project_length, h0]), hd _ _ (by rw [project_length, h0]),
        ih q _ o hq' h0, ih q _ o hq' h1]
      have hpm := cellAct_pairmap (A := A) (project ps.length q (o != xAt ps q))
        (fun k u => project_smul _ _ _ k u) p
        (actOps A ps (v.take (2 ^ ps.length)), actOps A ps (v.drop (2 ^ ps.length)))
      simp only [pairmap] at hpm
      rw [hpm]


/-! ### `±Z_q` and the projector -/

/-- `Z_q · P_o ψ = (−1)^o · P_o ψ` -/
theorem zRow_project (n : Nat) : ∀ (q : Nat) (v : List α) (o : Bool), q < n → v.length = 2 ^ n →
    actOps A (zRow n q) (project n q o v) = smul A (if o then 2 else 0) (project n q o v) := by
  induction n with
  | zero => intro q v o hq; omega
  | succ n ih =>
    intro q v o hq hv
    have hp : 2 ^ (n + 1) = 2 ^ n + 2 ^ n := by rw [Nat.pow_succ]; omega
    have h0 : (v.take (2 ^ n)).length = 2 ^ n := by simp; omega
    have h1 : (v.drop (2 ^ n)).length = 2 ^ n := by simp; omega
    have ht : ∀ x y : List α, x.length = 2 ^ n → (x ++ y).take (2 ^ n) = x := fun x y hx => by rw [← hx]; simp
    have hd : ∀ x y : List α, x.length = 2 ^ n → (x ++ y).drop (2 ^ n) = y := fun x y hx => by rw [← hx]; simp
    cases q with
    | zero =>
      rw [zRow_zero, project_zero _ _ _ hv, actOps_cons]
      cases o
      · simp only [Bool.false_eq_true, if_false]
        have hl : (v.take (2 ^ n) ++ List.replicate (2 ^ n) (0 : α)).length / 2 = 2 ^ n := by simp [h0]; omega
        rw [hl, ht _ _ h0, hd _ _ h0, actOps_replicate_I, actOps_replicate_I]
        simp [cellAct, smul_zeros, smul_0]
      · simp only [if_true]
        have hl : (List.replicate (2 ^ n) (0 : α) ++ v.drop (2 ^ n)).length / 2 = 2 ^ n := by simp [h1]; omega
        rw [hl, ht _ _ (by simp), hd _ _ (by simp), actOps_replicate_I, actOps_replicate_I]
        simp [cellAct, smul_zeros, smul_append]
    | succ q =>
      have hq' : q < n := by omega
      rw [zRow_succ, project_succ _ _ hq' _ _ hv, actOps_cons]
      have hl : (project n q o (v.take (2 ^ n)) ++ project n q o (v.drop (2 ^ n))).length / 2 = 2 ^ n := by
        simp [project_length, h0, h1]; omega
      rw [hl, ht _ _ (by rw [project_length, h0]), hd _ _ (by rw [project_length, h0]),
        ih q _ o hq' h0, ih q _ o hq' h1]
      simp [cellAct, smul_append]

/-- the signed row `(o, Z_q)` fixes `P_o ψ` -/
theorem zRow_fixes_project (h : LawfulAmp α A) (n q : Nat) (hq : q < n) (v : List α) (hv : v.length = 2 ^ n) (o : Bool) :
    act (A := A) (rowStr o (zRow n q)) (project n q o v) = project n q o v := by
  unfold act
  simp only [rowStr]
  rw [zRow_project n q v o hq hv, smul_smul]
  cases o
  · exact smul_0 _
  · exact smul_4 h _

/-- a signed row without X/Y at `q` that fixes `ψ` fixes both projections -/
theorem row_fixes_project (s : Bool) (r : List P) (q : Nat) (hq : q < r.length) (hx : xAt r q = false)
    (ψ : List α) (hψ : ψ.length = 2 ^ r.length) (hfix : act (A := A) (rowStr s r) ψ = ψ) (o : Bool) :
    act (A := A) (rowStr s r) (project r.length q o ψ) = project r.length q o ψ := by
  unfold act at hfix ⊢
  simp only [rowStr] at hfix ⊢
  rw [actOps_project r q ψ o hq hψ, hx, ← project_smul, hfix]
  simp

/-- a signed row with X/Y at `q` that fixes `ψ` maps one projection to the other -/
theorem row_swaps_project (s : Bool) (r : List P) (q : Nat) (hq : q < r.length) (hx : xAt r q = true)
    (ψ : List α) (hψ : ψ.length = 2 ^ r.length) (hfix : act (A := A) (rowStr s r) ψ = ψ) (o : Bool) :
    act (A := A) (rowStr s r) (project r.length q o ψ) = project r.length q (!o) ψ := by
  unfold act at hfix ⊢
  simp only [rowStr] at hfix ⊢
  rw [actOps_project r q ψ o hq hψ, hx, ← project_smul, hfix]
  simp

end Q1t.Proofs.TabG

import Q1t.Model.OpenQasmTable
import Q1t.Proofs.NoPanic
/-!
C18 ← C11: the OpenQASM exporter model (`Q1t.OpenQasm`, table-driven) never takes its `panic` outcome on
gate terms with well-formed bodies placed with their arity on qubits in range.

* `tplOK` — a decidable fact about one table entry: the parameters its statements mention are fields of the
  gate, and (hand-written `format!` entries) every `{}` hole indexes an operand below the gate's arity.
  `libTable_ok` checks it for the whole compiled table by `decide`.
* `qOK` / `qOpsOK` — the exporter-side reading of `WellFormed.gateOK`.
* `exportGate_ne_panic`, `exportOp_ne_panic`, `exportCircuit_ne_panic`.
-/
set_option linter.unusedSectionVars false
set_option linter.unusedVariables false
namespace Q1t.OpenQasm
open Q1t

variable {P : Type}

/-! ### `Res` -/

theorem Res.bind_ne_panic {α β} {r : Res α} {f : α → Res β} (hr : r ≠ .panic) (hf : ∀ a, r = .ok a → f a ≠ .panic) :
    r.bind f ≠ .panic := by
  cases r with
  | ok a => exact hf a rfl
  | err e => intro h; cases h
  | panic => exact absurd rfl hr

theorem Res.map_ne_panic {α β} {r : Res α} {f : α → β} (hr : r ≠ .panic) : r.map f ≠ .panic :=
  Res.bind_ne_panic hr (fun _ _ h => by cases h)

theorem Res.ofOption_ne_panic {α} {o : Option α} (h : ∃ a, o = some a) : Res.ofOption o ≠ .panic := by
  obtain ⟨a, rfl⟩ := h
  intro h; cases h

/-! ### table entries -/

def tplOK (t : GateTpl) : Bool :=
  t.stmts.all fun s => s.args.all (paramsKnown t.params) &&
    (match t.kind with
     | .format _ => s.qargs.all (fun k => decide (k < t.nbits))
     | _ => true)

theorem libTable_ok : libTable.all tplOK = true := by decide

theorem fieldParam_some (fields : List String) (ps : List (QParam P)) (f : String) (hf : fields.contains f = true)
    (hl : fields.length ≤ ps.length) : ∃ p, fieldParam fields ps f = some p := by
  unfold fieldParam
  cases hi : fields.idxOf? f with
  | none =>
    have := List.idxOf?_eq_none_iff.mp hi
    exact absurd (by simpa using hf) this
  | some i =>
    obtain ⟨h, _⟩ := List.idxOf?_eq_some_iff.mp hi
    exact ⟨ps[i]'(by omega), by simp [List.getElem?_eq_getElem (show i < ps.length by omega)]⟩

theorem instArg_some (fields : List String) (ps : List (QParam P)) (hl : fields.length ≤ ps.length) :
    ∀ a : TArg, paramsKnown fields a = true → ∃ x, instArg fields ps a = some x
  | .lit n, _ => ⟨_, rfl⟩
  | .pi, _ => ⟨_, rfl⟩
  | .param f, h => by
    obtain ⟨p, hp⟩ := fieldParam_some fields ps f (by simpa [paramsKnown] using h) hl
    exact ⟨showParam p, by simp [instArg, hp]⟩
  | .neg e, h => by
    obtain ⟨x, hx⟩ := instArg_some fields ps hl e (by simpa [paramsKnown] using h)
    exact ⟨.neg x, by simp [instArg, hx]⟩
  | .div a b, h => by
    simp only [paramsKnown, Bool.and_eq_true] at h
    obtain ⟨x, hx⟩ := instArg_some fields ps hl a h.1
    obtain ⟨y, hy⟩ := instArg_some fields ps hl b h.2
    exact ⟨.div x y, by simp [instArg, hx, hy]⟩

theorem nameOf_some (names : List QRef) (bits : List Nat) (k : Nat) (hk : k < bits.length)
    (hb : ∀ b ∈ bits, b < names.length) : ∃ r, nameOf names bits k = some r := by
  unfold nameOf
  rw [List.getElem?_eq_getElem hk]
  have := hb _ (List.getElem_mem hk)
  exact ⟨_, List.getElem?_eq_getElem this⟩

/-- `open_qasm` of a library gate: no panic when the entry is sane, the parameter list fits, and the operands
are as many as the gate's arity and in range -/
theorem libExport_ne_panic (tpl : GateTpl) (ps : List (QParam P)) (names : List QRef) (bits : List Nat)
    (hok : tplOK tpl = true) (hps : ps.length = tpl.params.length) (hlen : bits.length = tpl.nbits)
    (hb : ∀ b ∈ bits, b < names.length) : libExport tpl ps names bits ≠ .panic := by
  unfold tplOK at hok
  rw [List.all_eq_true] at hok
  have hargs : ∀ s ∈ tpl.stmts, ∃ as, s.args.mapM (instArg tpl.params ps) = some as := by
    intro s hs
    have h1 := hok s hs
    simp only [Bool.and_eq_true, List.all_eq_true] at h1
    obtain ⟨r, hr, _⟩ := Sim.mapM_some_of_forall (instArg tpl.params ps) s.args
      (fun a ha => instArg_some tpl.params ps (by omega) a (h1.1 a ha))
    exact ⟨r, hr⟩
  have hgiven : ∃ given, bits.mapM (fun b => names[b]?) = some given := by
    obtain ⟨r, hr, _⟩ := Sim.mapM_some_of_forall (fun b => names[b]?) bits
      (fun b hbm => ⟨_, List.getElem?_eq_getElem (hb b hbm)⟩)
    exact ⟨r, hr⟩
  unfold libExport
  rw [if_neg (by simp [hps])]
  cases hk : tpl.kind with
  | format check =>
    have hgo : libExport.go tpl ps names bits ≠ .panic := by
      unfold libExport.go
      apply Res.ofOption_ne_panic
      obtain ⟨r, hr, _⟩ := Sim.mapM_some_of_forall
        (fun (s : TStmt) => (do
          let args ← s.args.mapM (instArg tpl.params ps)
          let qargs ← s.qargs.mapM (nameOf names bits)
          pure (⟨[], some ⟨s.name, args, qargs⟩⟩ : Chunk P))) tpl.stmts (by
        intro s hs
        obtain ⟨as, has⟩ := hargs s hs
        have h1 := hok s hs
        simp only [hk, Bool.and_eq_true, List.all_eq_true, decide_eq_true_eq] at h1
        obtain ⟨qs, hqs, _⟩ := Sim.mapM_some_of_forall (nameOf names bits) s.qargs
          (fun k hkm => nameOf_some names bits k (by rw [hlen]; exact h1.2 k hkm) hb)
        exact ⟨⟨[], some ⟨s.name, as, qs⟩⟩, by simp [has, hqs]⟩)
      exact ⟨r, hr⟩
    simp only
    cases check with
    | none => exact hgo
    | some k =>
      simp only
      split
      · intro h; cases h
      · exact hgo
  | template =>
    obtain ⟨given, hg⟩ := hgiven
    simp only [hg]
    apply Res.ofOption_ne_panic
    obtain ⟨r, hr, _⟩ := Sim.mapM_some_of_forall
      (fun (s : TStmt) => (do
        let args ← s.args.mapM (instArg tpl.params ps)
        pure (⟨[], some ⟨s.name, args, s.qargs.map fun k => given.getD k (.raw k)⟩⟩ : Chunk P))) tpl.stmts (by
      intro s hs
      obtain ⟨as, has⟩ := hargs s hs
      exact ⟨⟨[], some ⟨s.name, as, s.qargs.map fun k => given.getD k (.raw k)⟩⟩, by simp [has]⟩)
    exact ⟨r, hr⟩
  | plain =>
    obtain ⟨given, hg⟩ := hgiven
    simp only [hg]
    apply Res.ofOption_ne_panic
    obtain ⟨r, hr, _⟩ := Sim.mapM_some_of_forall
      (fun (s : TStmt) => (do
        let args ← s.args.mapM (instArg tpl.params ps)
        pure (⟨[], some ⟨s.name, args, given⟩⟩ : Chunk P))) tpl.stmts (by
      intro s hs
      obtain ⟨as, has⟩ := hargs s hs
      exact ⟨⟨[], some ⟨s.name, as, given⟩⟩, by simp [has]⟩)
    exact ⟨r, hr⟩

/-! ### gate terms -/

mutual
/-- the exporter-side reading of `WellFormed.gateOK`: library gates with a sane table entry and a fitting
parameter list (a name outside the table is the `NotImplemented` error, not a panic), bodies of composites and
loops placed with their arity on local indices below the width -/
def qOK (tbl : List GateTpl) : QGate P → Bool
  | .lib name ps =>
    match lookupTpl tbl name with
    | some t => tplOK t && ps.length == t.params.length
    | none => true
  | .ctrl _ => true
  | .kron a b => qOK tbl a && qOK tbl b
  | .composite _ n ops => qOpsOK tbl n ops
  | .loop _ _ _ n body => qOpsOK tbl n body
def qOpsOK (tbl : List GateTpl) (n : Nat) : QOps P → Bool
  | .nil => true
  | .cons g sub rest =>
    qOK tbl g && decide (nbits tbl g = sub.length) && sub.all (fun b => decide (b < n)) && qOpsOK tbl n rest
end

theorem subBits_some (bits sub : List Nat) (h : ∀ b ∈ sub, b < bits.length) :
    ∃ gb, sub.mapM (fun b => bits[b]?) = some gb ∧ gb.length = sub.length ∧ ∀ x ∈ gb, x ∈ bits := by
  induction sub with
  | nil => exact ⟨[], rfl, rfl, by simp⟩
  | cons b rest ih =>
    obtain ⟨gb, h1, h2, h3⟩ := ih (fun x hx => h x (by simp [hx]))
    have hb := h b (by simp)
    refine ⟨bits[b] :: gb, by simp [List.mapM_cons, List.getElem?_eq_getElem hb, h1], by simp [h2], ?_⟩
    intro x hx
    rcases List.mem_cons.mp hx with rfl | hx
    · exact List.getElem_mem hb
    · exact h3 x hx

mutual
theorem exportGate_ne_panic (tbl : List GateTpl) (names : List QRef) (cond : Option Nat) :
    (g : QGate P) → (bits : List Nat) → qOK tbl g = true → nbits tbl g = bits.length →
      (∀ b ∈ bits, b < names.length) → exportGate tbl names cond g bits ≠ .panic
  | .lib name ps, bits, hok, hn, hb => by
    rw [exportGate]
    cases hl : lookupTpl tbl name with
    | none => intro h; cases h
    | some tpl =>
      simp only
      simp only [qOK, hl, Bool.and_eq_true, beq_iff_eq] at hok
      simp only [nbits, hl] at hn
      exact Res.map_ne_panic (libExport_ne_panic tpl ps names bits hok.1 hok.2 hn.symm hb)
  | .ctrl g, bits, _, _, _ => by rw [exportGate]; intro h; cases h
  | .kron g0 g1, bits, hok, hn, hb => by
    rw [exportGate]
    simp only [qOK, Bool.and_eq_true] at hok
    simp only [nbits] at hn
    rw [if_neg (by omega)]
    refine Res.bind_ne_panic (exportGate_ne_panic tbl names cond g0 _ hok.1 (by simp; omega)
      (fun b hbm => hb b (List.mem_of_mem_take hbm))) fun _ _ => ?_
    refine Res.bind_ne_panic (exportGate_ne_panic tbl names cond g1 _ hok.2 (by simp; omega)
      (fun b hbm => hb b (List.mem_of_mem_drop hbm))) fun _ _ => ?_
    intro h; cases h
  | .composite _ n ops, bits, hok, hn, hb => by
    simp only [qOK] at hok
    simp only [nbits] at hn
    cases ops with
    | nil => rw [exportGate]; intro h; cases h
    | cons g sub rest =>
      rw [exportGate]
      · exact exportOps_ne_panic tbl names cond n _ bits hok hn.symm hb
      · intro h; cases h
  | .loop _ iters _ n body, bits, hok, hn, hb => by
    simp only [qOK] at hok
    simp only [nbits] at hn
    cases body with
    | nil =>
      rw [exportGate]
      split
      · intro h; cases h
      · intro h; cases h
    | cons g sub rest =>
      rw [exportGate]
      · split
        · intro h; cases h
        · exact Res.bind_ne_panic (exportOps_ne_panic tbl names cond n _ bits hok hn.symm hb)
            fun _ _ => by intro h; cases h
      · intro h; cases h
theorem exportOps_ne_panic (tbl : List GateTpl) (names : List QRef) (cond : Option Nat) (n : Nat) :
    (ops : QOps P) → (bits : List Nat) → qOpsOK tbl n ops = true → bits.length = n →
      (∀ b ∈ bits, b < names.length) → exportOps tbl names cond ops bits ≠ .panic
  | .nil, bits, _, _, _ => by rw [exportOps]; intro h; cases h
  | .cons g sub rest, bits, hok, hn, hb => by
    rw [exportOps]
    simp only [qOpsOK, Bool.and_eq_true, decide_eq_true_eq, List.all_eq_true] at hok
    obtain ⟨gb, h1, h2, h3⟩ := subBits_some bits sub (fun b hbm => by rw [hn]; exact hok.1.2 b hbm)
    simp only [h1]
    refine Res.bind_ne_panic (exportGate_ne_panic tbl names cond g gb hok.1.1.1 (by rw [h2]; exact hok.1.1.2)
      (fun x hx => hb x (h3 x hx))) fun _ _ => ?_
    refine Res.bind_ne_panic (exportOps_ne_panic tbl names cond n rest bits hok.2 hn hb) fun _ _ => ?_
    intro h; cases h
end

end Q1t.OpenQasm

/-! ## operations and circuits -/

namespace Q1t.OpenQasm
open Q1t Q1t.Sim Q1t.WellFormed

variable {P : Type}

theorem qbitNames_length (n : Nat) : (qbitNames n).length = n := by simp [qbitNames]
theorem cbitNames_length (n : Nat) : (cbitNames n).length = n := by simp [cbitNames]

/-- a library gate whose table entry is sane, with a fitting parameter list -/
theorem lib_ok (name : String) (k n : Nat) (ps : List (QParam P))
    (h : (lookupTpl libTable name).map (fun t => (tplOK t, t.params.length, t.nbits)) = some (true, k, n))
    (hps : ps.length = k) :
    qOK libTable (.lib name ps) = true ∧ nbits libTable (.lib name ps) = n := by
  cases hl : lookupTpl libTable name with
  | none => rw [hl] at h; cases h
  | some t =>
    rw [hl] at h
    simp only [Option.map_some, Option.some.injEq, Prod.mk.injEq] at h
    simp [qOK, nbits, hl, h.1, h.2.1, h.2.2, hps]

theorem lookup_H : (lookupTpl libTable "H").map (fun t => (tplOK t, t.params.length, t.nbits)) = some (true, 0, 1) := by
  decide
theorem lookup_Sdg : (lookupTpl libTable "Sdg").map (fun t => (tplOK t, t.params.length, t.nbits)) = some (true, 0, 1) := by
  decide

/-- the basis-change gates `H`, `Sdg` of the table on one operand in range -/
theorem basisLines_ne_panic (names : List QRef) (bit : Nat) (hb : bit < names.length) (b : Sim.Basis) :
    basisLines (P := P) libTable names bit b ≠ .panic := by
  have hH : exportGate (P := P) libTable names none (.lib "H" []) [bit] ≠ .panic :=
    exportGate_ne_panic libTable names none _ _ (lib_ok "H" 0 1 [] lookup_H rfl).1 (lib_ok "H" 0 1 [] lookup_H rfl).2
      (by simpa using hb)
  have hS : exportGate (P := P) libTable names none (.lib "Sdg" []) [bit] ≠ .panic :=
    exportGate_ne_panic libTable names none _ _ (lib_ok "Sdg" 0 1 [] lookup_Sdg rfl).1
      (lib_ok "Sdg" 0 1 [] lookup_Sdg rfl).2 (by simpa using hb)
  cases b with
  | Z => intro h; cases h
  | X => exact Res.map_ne_panic hH
  | Y =>
    simp only [basisLines]
    exact Res.bind_ne_panic hS fun _ _ => Res.bind_ne_panic hH fun _ _ => by intro h; cases h

theorem mapM_ne_none_of_forall {σ τ : Type} (f : σ → Option τ) (l : List σ) (h : ∀ x ∈ l, ∃ y, f x = some y) :
    l.mapM f ≠ none := by
  obtain ⟨r, hr, _⟩ := Sim.mapM_some_of_forall f l h
  rw [hr]; intro h; cases h

/-- what `exportOp` needs of one operation (the exporter-side reading of `opInRange` ∧ no OpenQASM-relevant
defect) -/
def QOpGood (nq nc : Nat) : QOp P → Prop
  | .gate g bits => qOK libTable g = true ∧ nbits libTable g = bits.length ∧ ∀ b ∈ bits, b < nq
  | .cond control _ g bits =>
    (qOK libTable g = true ∧ nbits libTable g = bits.length ∧ ∀ b ∈ bits, b < nq) ∧
      (∀ c ∈ control, c < nc) ∧ control.length ≤ 64
  | .measure q c _ => q < nq ∧ c < nc
  | .measureAll cbits _ => cbits.length = nq ∧ ∀ c ∈ cbits, c < nc
  | .peek _ _ _ | .peekAll _ _ | .resetAll => True
  | .reset q => q < nq
  | .barrier bits => ∀ b ∈ bits, b < nq

theorem exportOp_ne_panic (nq nc : Nat) (op : QOp P) (h : QOpGood nq nc op) :
    exportOp libTable nq nc op ≠ .panic := by
  cases op with
  | gate g bits =>
    obtain ⟨h1, h2, h3⟩ := h
    exact Res.map_ne_panic (exportGate_ne_panic _ _ _ g bits h1 h2 (by simpa [qbitNames_length] using h3))
  | cond control target g bits =>
    obtain ⟨⟨h1, h2, h3⟩, hc, hl⟩ := h
    have hg : ∀ cnd, exportGate libTable (qbitNames nq) cnd g bits ≠ .panic := fun cnd =>
      exportGate_ne_panic _ _ _ g bits h1 h2 (by simpa [qbitNames_length] using h3)
    simp only [exportOp]
    split
    · exact Res.map_ne_panic (hg _)
    · split
      · intro h; cases h
      · rename_i hfull
        have hlen : control.length = nc := by
          simp [isFullRegister] at hfull
          exact hfull.1
        have hcw : ∃ k, conditionWord control target = some k := by
          unfold conditionWord
          rw [if_pos ⟨hl, by
            simp only [List.all_eq_true, decide_eq_true_eq]
            intro c hcm
            have := hc c hcm
            omega⟩]
          exact ⟨_, rfl⟩
        obtain ⟨k, hk⟩ := hcw
        simp only [hk]
        exact Res.map_ne_panic (hg _)
  | measure q c b =>
    obtain ⟨hq, hc⟩ := h
    simp only [exportOp]
    refine Res.bind_ne_panic (basisLines_ne_panic _ q (by simpa [qbitNames_length] using hq) b) fun pre _ => ?_
    rw [List.getElem?_eq_getElem (by simpa [qbitNames_length] using hq),
      List.getElem?_eq_getElem (by simpa [cbitNames_length] using hc)]
    intro h; cases h
  | measureAll cbits b =>
    obtain ⟨hl, hc⟩ := h
    simp only [exportOp]
    refine Res.bind_ne_panic (basisLines_ne_panic _ 0 (by simp) b) fun pre _ => ?_
    split
    · intro h; cases h
    · split
      · intro h; cases h
      · rename_i hnone
        refine absurd hnone (mapM_ne_none_of_forall _ _ ?_)
        intro x hx
        obtain ⟨cbit, qbit⟩ := x
        have hmem := List.mem_zipIdx hx
        have hq : qbit < nq := by have := hmem.2.1; omega
        have hcb : cbit < nc := by
          have := hmem.2.2
          simp only [Nat.sub_zero] at this
          rw [this]
          exact hc _ (List.getElem_mem _)
        simp only
        rw [List.getElem?_eq_getElem (by simpa [qbitNames_length] using hq),
          List.getElem?_eq_getElem (by simpa [cbitNames_length] using hcb)]
        exact ⟨_, rfl⟩
  | peek _ _ _ => intro h; cases h
  | peekAll _ _ => intro h; cases h
  | reset q =>
    have hq : q < nq := h
    simp only [exportOp]
    rw [List.getElem?_eq_getElem (by simpa [qbitNames_length] using hq)]
    intro h; cases h
  | resetAll => intro h; cases h
  | barrier bits =>
    simp only [exportOp]
    split
    · intro h; cases h
    · obtain ⟨ns, hns, _⟩ := Sim.mapM_some_of_forall (fun b => (qbitNames nq)[b]?) bits
        (fun b hb => ⟨_, List.getElem?_eq_getElem (by simpa [qbitNames_length] using (h b hb))⟩)
      rw [hns]
      intro h; cases h

theorem exportLoop_ne_panic (nq nc : Nat) : ∀ (ops : List (QOp P)) (res : List (Line P)),
    (∀ op ∈ ops, QOpGood nq nc op) → exportLoop libTable nq nc ops res ≠ .panic := by
  intro ops
  induction ops with
  | nil => intro res _ h; cases h
  | cons op rest ih =>
    intro res hg
    simp only [exportLoop]
    exact Res.bind_ne_panic (exportOp_ne_panic nq nc op (hg op List.mem_cons_self))
      fun ls _ => ih _ (fun o ho => hg o (List.mem_cons_of_mem _ ho))

/-- `Circuit::open_qasm` never panics on operations that are `QOpGood` -/
theorem exportCircuit_ne_panic (c : QCircuit P) (h : ∀ op ∈ c.ops, QOpGood c.nq c.nc op) :
    exportCircuit libTable c ≠ .panic :=
  exportLoop_ne_panic c.nq c.nc c.ops _ h

end Q1t.OpenQasm

import Mathlib.Tactic.Ring
import Q1t.Proofs.OpenQasmCtrl2
set_option linter.unusedSimpArgs false
set_option linter.unusedSectionVars false
/-!
C11: the three-qubit parametrised library gates CCRX, CCRY, CCRZ through the exporter's templates, for ALL
parameter values.  The statement sequences consist of one-qubit gates on the target, `cx` onto the target from
either control, controlled gates onto the target, and `cx control0, control1`; the products stay block diagonal
(`bd4`: one 2×2 block per value of the two controls) up to the exchange of the row blocks 10 and 11 (`bd4s`).
-/
namespace Q1t.OpenQasm
open Q1t Q1t.Spec Q1t.Spec.OQ2 Q1t.Proofs.Unitaries

variable {α P : Type} [CommRing α] [Amp α P] [Angle P]

def app3 (qs : List Nat) (M acc : LMat α) : LMat α := LMat.mul (embed 3 qs M) acc
def I8 : LMat α := LMat.identity 8

/-- block diagonal, blocks for the controls 00, 01, 10, 11 -/
def bd4 (a0 a1 a2 a3 b0 b1 b2 b3 c0 c1 c2 c3 d0 d1 d2 d3 : α) : LMat α :=
  [[a0, a1, 0, 0, 0, 0, 0, 0], [a2, a3, 0, 0, 0, 0, 0, 0],
   [0, 0, b0, b1, 0, 0, 0, 0], [0, 0, b2, b3, 0, 0, 0, 0],
   [0, 0, 0, 0, c0, c1, 0, 0], [0, 0, 0, 0, c2, c3, 0, 0],
   [0, 0, 0, 0, 0, 0, d0, d1], [0, 0, 0, 0, 0, 0, d2, d3]]

/-- the same with the row blocks 10 and 11 exchanged -/
def bd4s (a0 a1 a2 a3 b0 b1 b2 b3 c0 c1 c2 c3 d0 d1 d2 d3 : α) : LMat α :=
  [[a0, a1, 0, 0, 0, 0, 0, 0], [a2, a3, 0, 0, 0, 0, 0, 0],
   [0, 0, b0, b1, 0, 0, 0, 0], [0, 0, b2, b3, 0, 0, 0, 0],
   [0, 0, 0, 0, 0, 0, d0, d1], [0, 0, 0, 0, 0, 0, d2, d3],
   [0, 0, 0, 0, c0, c1, 0, 0], [0, 0, 0, 0, c2, c3, 0, 0]]

theorem app3_target (p q r s a0 a1 a2 a3 b0 b1 b2 b3 c0 c1 c2 c3 d0 d1 d2 d3 : α) :
    app3 [2] [[p, q], [r, s]] (bd4 a0 a1 a2 a3 b0 b1 b2 b3 c0 c1 c2 c3 d0 d1 d2 d3) =
      bd4 (p * a0 + q * a2) (p * a1 + q * a3) (r * a0 + s * a2) (r * a1 + s * a3) (p * b0 + q * b2) (p * b1 + q * b3) (r * b0 + s * b2) (r * b1 + s * b3) (p * c0 + q * c2) (p * c1 + q * c3) (r * c0 + s * c2) (r * c1 + s * c3) (p * d0 + q * d2) (p * d1 + q * d3) (r * d0 + s * d2) (r * d1 + s * d3) := by
  simp only [app3, bd4, bd4s, bd2, matCX, embed, agreeOff, subIndex, qbit, LMat.get, LMat.mul, LMat.transpose, LMat.dot]
  simp [List.range_succ]

theorem app3_target_s (p q r s a0 a1 a2 a3 b0 b1 b2 b3 c0 c1 c2 c3 d0 d1 d2 d3 : α) :
    app3 [2] [[p, q], [r, s]] (bd4s a0 a1 a2 a3 b0 b1 b2 b3 c0 c1 c2 c3 d0 d1 d2 d3) =
      bd4s (p * a0 + q * a2) (p * a1 + q * a3) (r * a0 + s * a2) (r * a1 + s * a3) (p * b0 + q * b2) (p * b1 + q * b3) (r * b0 + s * b2) (r * b1 + s * b3) (p * c0 + q * c2) (p * c1 + q * c3) (r * c0 + s * c2) (r * c1 + s * c3) (p * d0 + q * d2) (p * d1 + q * d3) (r * d0 + s * d2) (r * d1 + s * d3) := by
  simp only [app3, bd4, bd4s, bd2, matCX, embed, agreeOff, subIndex, qbit, LMat.get, LMat.mul, LMat.transpose, LMat.dot]
  simp [List.range_succ]

theorem app3_cx12 (a0 a1 a2 a3 b0 b1 b2 b3 c0 c1 c2 c3 d0 d1 d2 d3 : α) :
    app3 [1, 2] matCX (bd4 a0 a1 a2 a3 b0 b1 b2 b3 c0 c1 c2 c3 d0 d1 d2 d3) =
      bd4 a0 a1 a2 a3 b2 b3 b0 b1 c0 c1 c2 c3 d2 d3 d0 d1 := by
  simp only [app3, bd4, bd4s, bd2, matCX, embed, agreeOff, subIndex, qbit, LMat.get, LMat.mul, LMat.transpose, LMat.dot]
  simp [List.range_succ]

theorem app3_cx12_s (a0 a1 a2 a3 b0 b1 b2 b3 c0 c1 c2 c3 d0 d1 d2 d3 : α) :
    app3 [1, 2] matCX (bd4s a0 a1 a2 a3 b0 b1 b2 b3 c0 c1 c2 c3 d0 d1 d2 d3) =
      bd4s a0 a1 a2 a3 b2 b3 b0 b1 c2 c3 c0 c1 d0 d1 d2 d3 := by
  simp only [app3, bd4, bd4s, bd2, matCX, embed, agreeOff, subIndex, qbit, LMat.get, LMat.mul, LMat.transpose, LMat.dot]
  simp [List.range_succ]

theorem app3_cx02 (a0 a1 a2 a3 b0 b1 b2 b3 c0 c1 c2 c3 d0 d1 d2 d3 : α) :
    app3 [0, 2] matCX (bd4 a0 a1 a2 a3 b0 b1 b2 b3 c0 c1 c2 c3 d0 d1 d2 d3) =
      bd4 a0 a1 a2 a3 b0 b1 b2 b3 c2 c3 c0 c1 d2 d3 d0 d1 := by
  simp only [app3, bd4, bd4s, bd2, matCX, embed, agreeOff, subIndex, qbit, LMat.get, LMat.mul, LMat.transpose, LMat.dot]
  simp [List.range_succ]

theorem app3_cx01 (a0 a1 a2 a3 b0 b1 b2 b3 c0 c1 c2 c3 d0 d1 d2 d3 : α) :
    app3 [0, 1] matCX (bd4 a0 a1 a2 a3 b0 b1 b2 b3 c0 c1 c2 c3 d0 d1 d2 d3) =
      bd4s a0 a1 a2 a3 b0 b1 b2 b3 c0 c1 c2 c3 d0 d1 d2 d3 := by
  simp only [app3, bd4, bd4s, bd2, matCX, embed, agreeOff, subIndex, qbit, LMat.get, LMat.mul, LMat.transpose, LMat.dot]
  simp [List.range_succ]

theorem app3_cx01_s (a0 a1 a2 a3 b0 b1 b2 b3 c0 c1 c2 c3 d0 d1 d2 d3 : α) :
    app3 [0, 1] matCX (bd4s a0 a1 a2 a3 b0 b1 b2 b3 c0 c1 c2 c3 d0 d1 d2 d3) =
      bd4 a0 a1 a2 a3 b0 b1 b2 b3 c0 c1 c2 c3 d0 d1 d2 d3 := by
  simp only [app3, bd4, bd4s, bd2, matCX, embed, agreeOff, subIndex, qbit, LMat.get, LMat.mul, LMat.transpose, LMat.dot]
  simp [List.range_succ]

theorem app3_cd12 (e f a0 a1 a2 a3 b0 b1 b2 b3 c0 c1 c2 c3 d0 d1 d2 d3 : α) :
    app3 [1, 2] (bd2 1 0 0 1 e 0 0 f) (bd4 a0 a1 a2 a3 b0 b1 b2 b3 c0 c1 c2 c3 d0 d1 d2 d3) =
      bd4 a0 a1 a2 a3 (e * b0) (e * b1) (f * b2) (f * b3) c0 c1 c2 c3 (e * d0) (e * d1) (f * d2) (f * d3) := by
  simp only [app3, bd4, bd4s, bd2, matCX, embed, agreeOff, subIndex, qbit, LMat.get, LMat.mul, LMat.transpose, LMat.dot]
  simp [List.range_succ]

theorem app3_cd12_s (e f a0 a1 a2 a3 b0 b1 b2 b3 c0 c1 c2 c3 d0 d1 d2 d3 : α) :
    app3 [1, 2] (bd2 1 0 0 1 e 0 0 f) (bd4s a0 a1 a2 a3 b0 b1 b2 b3 c0 c1 c2 c3 d0 d1 d2 d3) =
      bd4s a0 a1 a2 a3 (e * b0) (e * b1) (f * b2) (f * b3) (e * c0) (e * c1) (f * c2) (f * c3) d0 d1 d2 d3 := by
  simp only [app3, bd4, bd4s, bd2, matCX, embed, agreeOff, subIndex, qbit, LMat.get, LMat.mul, LMat.transpose, LMat.dot]
  simp [List.range_succ]

theorem app3_cd02 (e f a0 a1 a2 a3 b0 b1 b2 b3 c0 c1 c2 c3 d0 d1 d2 d3 : α) :
    app3 [0, 2] (bd2 1 0 0 1 e 0 0 f) (bd4 a0 a1 a2 a3 b0 b1 b2 b3 c0 c1 c2 c3 d0 d1 d2 d3) =
      bd4 a0 a1 a2 a3 b0 b1 b2 b3 (e * c0) (e * c1) (f * c2) (f * c3) (e * d0) (e * d1) (f * d2) (f * d3) := by
  simp only [app3, bd4, bd4s, bd2, matCX, embed, agreeOff, subIndex, qbit, LMat.get, LMat.mul, LMat.transpose, LMat.dot]
  simp [List.range_succ]

theorem I8_eq : (I8 : LMat α) = bd4 1 0 0 1 1 0 0 1 1 0 0 1 1 0 0 1 := by
  simp [I8, bd4, LMat.identity, List.range_succ]

theorem ctrl_bd2 (a b c d e f g h : α) :
    Spec.ctrl (bd2 a b c d e f g h) = bd4 1 0 0 1 1 0 0 1 a b c d e f g h := by
  simp [Spec.ctrl, bd2, bd4, List.range_succ, List.replicate]

theorem bd4_ext {a0 a1 a2 a3 b0 b1 b2 b3 c0 c1 c2 c3 d0 d1 d2 d3 a0' a1' a2' a3' b0' b1' b2' b3' c0' c1' c2' c3'
    d0' d1' d2' d3' : α} (h1 : a0 = a0') (h2 : a1 = a1') (h3 : a2 = a2') (h4 : a3 = a3') (h5 : b0 = b0')
    (h6 : b1 = b1') (h7 : b2 = b2') (h8 : b3 = b3') (h9 : c0 = c0') (h10 : c1 = c1') (h11 : c2 = c2')
    (h12 : c3 = c3') (h13 : d0 = d0') (h14 : d1 = d1') (h15 : d2 = d2') (h16 : d3 = d3') :
    bd4 a0 a1 a2 a3 b0 b1 b2 b3 c0 c1 c2 c3 d0 d1 d2 d3 =
      bd4 a0' a1' a2' a3' b0' b1' b2' b3' c0' c1' c2' c3' d0' d1' d2' d3' := by
  subst h1 h2 h3 h4 h5 h6 h7 h8 h9 h10 h11 h12 h13 h14 h15 h16; rfl

theorem seqFrom3_cons {g : String} {vals : List P} {qs : List Nat} {rest : List (String × List P × List Nat)}
    {acc m : LMat α} (hm : gateMatrix (α := α) defaultFuel g vals = some m) :
    seqFrom 3 ((g, vals, qs) :: rest) acc = seqFrom 3 rest (app3 qs m acc) := by
  simp [seqFrom, hm, app3]

theorem libMeaning_of3 {name : String} {ps : List (QParam P)} (apps : List (String × List P × List Nat))
    (h1 : (lookupTpl libTable name).map (·.nbits) = some 3) (h2 : libApps libTable name ps = some apps) :
    libMeaning (α := α) libTable name ps = seqFrom 3 apps I8 := by
  unfold libMeaning
  cases h : lookupTpl libTable name with
  | none => simp [h] at h1
  | some t =>
    simp only [h, Option.map_some, Option.some.injEq] at h1
    simp [h2, h1, seqMatrix_eq, I8]


abbrev four : P := Angle.ofDec 4 0

/-- laws for eighth angles (the templates of CCRX / CCRY rotate by `±θ/4`, i.e. by half of that) -/
structure LawfulAngle3 (α P : Type) [CommRing α] [Amp α P] [Angle P] : Prop where
  o_cos : ∀ x : P, (Amp.cos (Amp.phalf α (Angle.div x four)) : α) = Amp.cos (Amp.phalf α (Amp.phalf α (Amp.phalf α x)))
  o_sin : ∀ x : P, (Amp.sin (Amp.phalf α (Angle.div x four)) : α) = Amp.sin (Amp.phalf α (Amp.phalf α (Amp.phalf α x)))
  on_cos : ∀ x : P, (Amp.cos (Amp.phalf α (Angle.div (Angle.neg x) four)) : α) =
    Amp.cos (Amp.phalf α (Amp.phalf α (Amp.phalf α x)))
  on_sin : ∀ x : P, (Amp.sin (Amp.phalf α (Angle.div (Angle.neg x) four)) : α) =
    -Amp.sin (Amp.phalf α (Amp.phalf α (Amp.phalf α x)))

theorem apps_CCRX (t : P) : libApps libTable "CCRX" [.direct t] =
    some [("s", [], [2]), ("cx", [], [1, 2]), ("ry", [Angle.div (Angle.neg t) four], [2]), ("cx", [], [1, 2]), ("ry", [Angle.div t four], [2]), ("cx", [], [0, 1]), ("cx", [], [1, 2]), ("ry", [Angle.div t four], [2]), ("cx", [], [1, 2]), ("ry", [Angle.div (Angle.neg t) four], [2]), ("cx", [], [0, 1]), ("cx", [], [0, 2]), ("ry", [Angle.div (Angle.neg t) four], [2]), ("cx", [], [0, 2]), ("ry", [Angle.div t four], [2]), ("sdg", [], [2])] := by rfl
theorem apps_CCRY (t : P) : libApps libTable "CCRY" [.direct t] =
    some [("cx", [], [1, 2]), ("u3", [Angle.div (Angle.neg t) four, z0, z0], [2]), ("cx", [], [1, 2]), ("u3", [Angle.div t four, z0, z0], [2]), ("cx", [], [0, 1]), ("cx", [], [1, 2]), ("u3", [Angle.div t four, z0, z0], [2]), ("cx", [], [1, 2]), ("u3", [Angle.div (Angle.neg t) four, z0, z0], [2]), ("cx", [], [0, 1]), ("cx", [], [0, 2]), ("u3", [Angle.div (Angle.neg t) four, z0, z0], [2]), ("cx", [], [0, 2]), ("u3", [Angle.div t four, z0, z0], [2])] := by rfl
theorem apps_CCRZ (l : P) : libApps libTable "CCRZ" [.direct l] =
    some [("crz", [Angle.div l two], [1, 2]), ("cx", [], [0, 1]), ("crz", [Angle.div (Angle.neg l) two], [1, 2]),
      ("cx", [], [0, 1]), ("crz", [Angle.div l two], [0, 2])] := by rfl

theorem meaning_CCRX (t : P) : libMeaning (α := α) libTable "CCRX" [.direct t] =
    some (app3 [2] (wrap1 (wrap1 (matU (z0 : P) z0 (Angle.neg halfPi)))) (app3 [2] (wrap1 (wrap1 (matU (Angle.div t four) z0 z0))) (app3 [0, 2] (app2 [0, 1] matCX I4) (app3 [2] (wrap1 (wrap1 (matU (Angle.div (Angle.neg t) four) z0 z0))) (app3 [0, 2] (app2 [0, 1] matCX I4) (app3 [0, 1] (app2 [0, 1] matCX I4) (app3 [2] (wrap1 (wrap1 (matU (Angle.div (Angle.neg t) four) z0 z0))) (app3 [1, 2] (app2 [0, 1] matCX I4) (app3 [2] (wrap1 (wrap1 (matU (Angle.div t four) z0 z0))) (app3 [1, 2] (app2 [0, 1] matCX I4) (app3 [0, 1] (app2 [0, 1] matCX I4) (app3 [2] (wrap1 (wrap1 (matU (Angle.div t four) z0 z0))) (app3 [1, 2] (app2 [0, 1] matCX I4) (app3 [2] (wrap1 (wrap1 (matU (Angle.div (Angle.neg t) four) z0 z0))) (app3 [1, 2] (app2 [0, 1] matCX I4) (app3 [2] (wrap1 (wrap1 (matU (z0 : P) z0 halfPi))) I8)))))))))))))))) := by
  rw [libMeaning_of3 _ rfl (apps_CCRX t), seqFrom3_cons gm_s, seqFrom3_cons gm_cx, seqFrom3_cons (gm_ry _), seqFrom3_cons gm_cx, seqFrom3_cons (gm_ry _), seqFrom3_cons gm_cx, seqFrom3_cons gm_cx, seqFrom3_cons (gm_ry _), seqFrom3_cons gm_cx, seqFrom3_cons (gm_ry _), seqFrom3_cons gm_cx, seqFrom3_cons gm_cx, seqFrom3_cons (gm_ry _), seqFrom3_cons gm_cx, seqFrom3_cons (gm_ry _), seqFrom3_cons gm_sdg, seqFrom_nil]

theorem meaning_CCRY (t : P) : libMeaning (α := α) libTable "CCRY" [.direct t] =
    some (app3 [2] (wrap1 (matU (Angle.div t four) z0 z0)) (app3 [0, 2] (app2 [0, 1] matCX I4) (app3 [2] (wrap1 (matU (Angle.div (Angle.neg t) four) z0 z0)) (app3 [0, 2] (app2 [0, 1] matCX I4) (app3 [0, 1] (app2 [0, 1] matCX I4) (app3 [2] (wrap1 (matU (Angle.div (Angle.neg t) four) z0 z0)) (app3 [1, 2] (app2 [0, 1] matCX I4) (app3 [2] (wrap1 (matU (Angle.div t four) z0 z0)) (app3 [1, 2] (app2 [0, 1] matCX I4) (app3 [0, 1] (app2 [0, 1] matCX I4) (app3 [2] (wrap1 (matU (Angle.div t four) z0 z0)) (app3 [1, 2] (app2 [0, 1] matCX I4) (app3 [2] (wrap1 (matU (Angle.div (Angle.neg t) four) z0 z0)) (app3 [1, 2] (app2 [0, 1] matCX I4) I8)))))))))))))) := by
  rw [libMeaning_of3 _ rfl (apps_CCRY t), seqFrom3_cons gm_cx, seqFrom3_cons (gm_u3 _ _ _), seqFrom3_cons gm_cx, seqFrom3_cons (gm_u3 _ _ _), seqFrom3_cons gm_cx, seqFrom3_cons gm_cx, seqFrom3_cons (gm_u3 _ _ _), seqFrom3_cons gm_cx, seqFrom3_cons (gm_u3 _ _ _), seqFrom3_cons gm_cx, seqFrom3_cons gm_cx, seqFrom3_cons (gm_u3 _ _ _), seqFrom3_cons gm_cx, seqFrom3_cons (gm_u3 _ _ _), seqFrom_nil]


section lawful
variable (h : LawfulAmp α P) (hh : LawfulHalf α P) (ha : LawfulAngle α P) (ha2 : LawfulAngle2 α P)
  (ha3 : LawfulAngle3 α P)
include h hh ha ha2 ha3

/-- `CCRY(θ)` is exported as 8 `cx` and 6 `u3(±θ/4, 0, 0)`: exactly the doubly controlled `RY(θ)` -/
theorem ccry_ok (t : P) : LibGateOK α P libTable "CCRY" [t] := by
  refine ⟨_, .C (.C (.RY t)), meaning_CCRY t, rfl, PhaseEq.of_eq h ?_⟩
  simp only [wrap1_matU, wrap1_two, matU_rot h ha, cxM_eq, ha3.on_cos, ha3.on_sin]
  simp only [ha3.o_cos, ha3.o_sin, I8_eq]
  simp only [app3_target, app3_target_s, app3_cx12, app3_cx12_s, app3_cx02, app3_cx01, app3_cx01_s]
  show _ = Spec.ctrl (Spec.ctrl (specMatrix (.RY t)))
  rw [spec_RY h, ctrl_two, ctrl_bd2]
  have hp := h.cos_sq_add_sin_sq (Amp.phalf α (Amp.phalf α (Amp.phalf α t)))
  have hc := hh.cos_phalf_twice (Amp.phalf α t)
  have hs := hh.sin_phalf_twice (Amp.phalf α t)
  rw [h.cos_padd] at hc
  rw [h.sin_padd] at hs
  have hc2 := hh.cos_phalf_twice (Amp.phalf α (Amp.phalf α t))
  have hs2 := hh.sin_phalf_twice (Amp.phalf α (Amp.phalf α t))
  rw [h.cos_padd] at hc2
  rw [h.sin_padd] at hs2
  rw [← hc, ← hs, ← hc2, ← hs2]
  refine bd4_ext ?_ ?_ ?_ ?_ ?_ ?_ ?_ ?_ ?_ ?_ ?_ ?_ ?_ ?_ ?_ ?_ <;> grind

/-- `CCRX(θ)` is exported as `s`, 8 `cx`, 6 `ry(±θ/4)`, `sdg`: exactly the doubly controlled `RX(θ)` -/
theorem ccrx_ok (t : P) : LibGateOK α P libTable "CCRX" [t] := by
  refine ⟨_, .C (.C (.RX t)), meaning_CCRX t, rfl, PhaseEq.of_eq h ?_⟩
  simp only [wrap1_matU, wrap1_two, matU_rot h ha, matU_diag h ha, cxM_eq, ha3.on_cos, ha3.on_sin,
    expi_halfPi h ha, expi_neg_halfPi h ha]
  simp only [ha3.o_cos, ha3.o_sin, I8_eq]
  simp only [app3_target, app3_target_s, app3_cx12, app3_cx12_s, app3_cx02, app3_cx01, app3_cx01_s]
  show _ = Spec.ctrl (Spec.ctrl (specMatrix (.RX t)))
  rw [spec_RX h, ctrl_two, ctrl_bd2]
  have hI := h.I_mul_I
  have hp := h.cos_sq_add_sin_sq (Amp.phalf α (Amp.phalf α (Amp.phalf α t)))
  have hc := hh.cos_phalf_twice (Amp.phalf α t)
  have hs := hh.sin_phalf_twice (Amp.phalf α t)
  rw [h.cos_padd] at hc
  rw [h.sin_padd] at hs
  have hc2 := hh.cos_phalf_twice (Amp.phalf α (Amp.phalf α t))
  have hs2 := hh.sin_phalf_twice (Amp.phalf α (Amp.phalf α t))
  rw [h.cos_padd] at hc2
  rw [h.sin_padd] at hs2
  rw [← hc, ← hs, ← hc2, ← hs2]
  refine bd4_ext ?_ ?_ ?_ ?_ ?_ ?_ ?_ ?_ ?_ ?_ ?_ ?_ ?_ ?_ ?_ ?_ <;> grind

end lawful

section lawful2
variable (h : LawfulAmp α P) (hh : LawfulHalf α P) (ha : LawfulAngle α P) (ha2 : LawfulAngle2 α P)
include h ha

/-- the body of `crz(x)` is `diag(1, 1, e^{-ix/2}, e^{ix/2})` -/
theorem crz_value (x : P) : ∃ m : LMat α, gateMatrix (α := α) defaultFuel "crz" [x] = some m ∧
    m = bd2 1 0 0 1 (Amp.cos (Amp.phalf α x) - Amp.I P * Amp.sin (Amp.phalf α x)) 0 0
      (Amp.cos (Amp.phalf α x) + Amp.I P * Amp.sin (Amp.phalf α x)) := by
  refine ⟨_, gm_crz x, ?_⟩
  simp only [wrap1_matU, wrap1_two, matU_diag h ha, cxM_eq]
  rw [I4_eq]
  simp only [app2_target, app2_cx]
  have hp := h.cos_sq_add_sin_sq (Amp.phalf α x)
  have hI := h.I_mul_I
  simp only [expi_neg h ha, expi_div_two h ha, ha.cos_div_two, ha.sin_div_two]
  refine bd2_ext ?_ ?_ ?_ ?_ ?_ ?_ ?_ ?_ <;> grind

include hh ha2 in
/-- `CCRZ(λ)` is exported as `crz(λ/2) b,c; cx a,b; crz(-λ/2) b,c; cx a,b; crz(λ/2) a,c`: exactly the doubly
controlled `RZ(λ)` -/
theorem ccrz_ok (l : P) : LibGateOK α P libTable "CCRZ" [l] := by
  obtain ⟨m1, hm1, hv1⟩ := crz_value h ha (Angle.div l two)
  obtain ⟨m2, hm2, hv2⟩ := crz_value h ha (Angle.div (Angle.neg l) two)
  have hm : libMeaning (α := α) libTable "CCRZ" [.direct l] =
      some (app3 [0, 2] m1 (app3 [0, 1] (app2 [0, 1] matCX I4) (app3 [1, 2] m2
        (app3 [0, 1] (app2 [0, 1] matCX I4) (app3 [1, 2] m1 I8))))) := by
    rw [libMeaning_of3 _ rfl (apps_CCRZ l), seqFrom3_cons hm1, seqFrom3_cons gm_cx, seqFrom3_cons hm2,
      seqFrom3_cons gm_cx, seqFrom3_cons hm1, seqFrom_nil]
  refine ⟨_, .C (.C (.RZ l)), hm, rfl, PhaseEq.of_eq h ?_⟩
  rw [hv1, hv2]
  simp only [cxM_eq, ha2.qn_cos, ha2.qn_sin]
  simp only [ha2.q_cos, ha2.q_sin, I8_eq]
  simp only [app3_cd12, app3_cd12_s, app3_cd02, app3_cx01, app3_cx01_s]
  show _ = Spec.ctrl (Spec.ctrl (specMatrix (.RZ l)))
  rw [spec_RZ h, ctrl_two, ctrl_bd2]
  have hI := h.I_mul_I
  have hp := h.cos_sq_add_sin_sq (Amp.phalf α (Amp.phalf α l))
  have hc := hh.cos_phalf_twice (Amp.phalf α l)
  have hs := hh.sin_phalf_twice (Amp.phalf α l)
  rw [h.cos_padd] at hc
  rw [h.sin_padd] at hs
  rw [← hc, ← hs]
  refine bd4_ext ?_ ?_ ?_ ?_ ?_ ?_ ?_ ?_ ?_ ?_ ?_ ?_ ?_ ?_ ?_ ?_ <;> grind

end lawful2

end Q1t.OpenQasm

import Q1t.Proofs.SimRanges
import Q1t.Spec.WellFormed
/-!
C18, execution: a compositional "safety" predicate on simulator programs and the proof that
`Circuit::do_execute_with` on the vector representation, run on a `WellFormed` circuit the builders
accepted, can only end in `ok` — for every sequence of random draws the oracle accepts.

* `Safe okErr allowed Q p` — every leaf of the program tree `p` reachable with draws in the support the
  oracle checks (`n0 ≤ c`; multiplicities positive, summing to `c`, indices below the number of weights)
  is a value satisfying `Q`, an error satisfying `okErr`, or a panic whose site satisfies `allowed`.
  `Safe.bind` composes; `Safe.sound` transfers to `Prog.runOracle`.
* `VInv n N s` — the shape invariant of a `VecState` needed for panic-freedom: `n` qubits, `N` shots,
  ranges **positive** and summing to `N`, `2^n` rows of one amplitude per range.
* `RouteTotal` — the ONE hypothesis about gates: on a valid placement (arity, distinct qubits below `n`)
  `apply_gate_mat_slice` / `apply_gate_slice` return (a state of the same shape).  It is the totality
  half of C04 (`applyGateSlice_eq_embed`).
* `execOps_vec_safe` — the theorem.  The only panic site left is `WeightedIndex::new(..).unwrap()`
  (all-zero / NaN weights: a numeric condition, excluded in exact arithmetic by the normalisation theorem
  of C02, not by operand shapes).

Core Lean only (no Mathlib).
-/
set_option linter.unusedSectionVars false
set_option linter.unusedVariables false
namespace Q1t.Sim
open Q1t Q1t.Builders Q1t.WellFormed

/-! ## `Safe` -/

/-- what `Prog.runOracle` accepts as a categorical draw -/
def DrawOK {W : Type} (ws : List W) (c : Nat) (l : List (Nat × Nat)) : Prop :=
  (l.map (·.2)).foldl (· + ·) 0 = c ∧ l.all (fun ic => ic.1 < ws.length ∧ 0 < ic.2) = true ∧ (l.map (·.1)).Nodup

inductive Safe {W β : Type} (okErr : SimErr → Prop) (allowed : String → Prop) (Q : β → Prop) : Prog W β → Prop
  | pure {b : β} : Q b → Safe okErr allowed Q (.pure b)
  | err {e : SimErr} : okErr e → Safe okErr allowed Q (.fail (.err e))
  | panic {s : String} : allowed s → Safe okErr allowed Q (.fail (.panic s))
  | binomial {c : Nat} {p : W} {k : Nat → Prog W β} :
      (∀ n0, n0 ≤ c → Safe okErr allowed Q (k n0)) → Safe okErr allowed Q (.binomial c p k)
  | categorical {ws : List W} {c : Nat} {k : List (Nat × Nat) → Prog W β} :
      (∀ l, DrawOK ws c l → Safe okErr allowed Q (k l)) → Safe okErr allowed Q (.categorical ws c k)

section safe
variable {W β γ : Type} {okErr : SimErr → Prop} {allowed : String → Prop}

theorem Safe.mono {Q Q' : β → Prop} {p : Prog W β} (h : Safe okErr allowed Q p) (hq : ∀ b, Q b → Q' b) :
    Safe okErr allowed Q' p := by
  induction h with
  | pure hb => exact .pure (hq _ hb)
  | err he => exact .err he
  | panic hs => exact .panic hs
  | binomial _ ih => exact .binomial ih
  | categorical _ ih => exact .categorical ih

theorem Safe.bind {Q : β → Prop} {Q' : γ → Prop} {p : Prog W β} {f : β → Prog W γ}
    (h : Safe okErr allowed Q p) (hf : ∀ b, Q b → Safe okErr allowed Q' (f b)) :
    Safe okErr allowed Q' (p.bind f) := by
  induction h with
  | pure hb => exact hf _ hb
  | err he => exact .err he
  | panic hs => exact .panic hs
  | binomial _ ih => exact .binomial ih
  | categorical _ ih => exact .categorical ih

theorem Safe.errP {Q : β → Prop} {e : SimErr} (he : okErr e) : Safe okErr allowed Q (Prog.err (W := W) e) := .err he
theorem Safe.panicP {Q : β → Prop} {s : String} (hs : allowed s) : Safe okErr allowed Q (Prog.panic (W := W) s) :=
  .panic hs

/-- what a safe program can return under the deterministic interpreter -/
def Outcome (okErr : SimErr → Prop) (allowed : String → Prop) (Q : β → Prop) : Except Fail β → Prop
  | .ok b => Q b
  | .error (.err e) => okErr e
  | .error (.panic s) => allowed s

theorem Safe.sound {Q : β → Prop} {p : Prog W β} (h : Safe okErr allowed Q p) :
    ∀ (ds : List Prog.Draw) (r : Except Fail β) (ds' : List Prog.Draw),
      Prog.runOracle p ds = some (r, ds') → Outcome okErr allowed Q r := by
  induction h with
  | pure hb =>
    intro ds r ds' hr
    simp only [Prog.runOracle, Option.some.injEq, Prod.mk.injEq] at hr
    obtain ⟨rfl, _⟩ := hr; exact hb
  | err he =>
    intro ds r ds' hr
    simp only [Prog.runOracle, Option.some.injEq, Prod.mk.injEq] at hr
    obtain ⟨rfl, _⟩ := hr; exact he
  | panic hs =>
    intro ds r ds' hr
    simp only [Prog.runOracle, Option.some.injEq, Prod.mk.injEq] at hr
    obtain ⟨rfl, _⟩ := hr; exact hs
  | @binomial c p k _ ih =>
    intro ds r ds' hr
    cases ds with
    | nil => simp [Prog.runOracle] at hr
    | cons d ds =>
      cases d with
      | bin n0 =>
        simp only [Prog.runOracle] at hr
        split at hr
        · rename_i hle; exact ih n0 hle ds r ds' hr
        · cases hr
      | cat l => simp [Prog.runOracle] at hr
  | @categorical ws c k _ ih =>
    intro ds r ds' hr
    cases ds with
    | nil => simp [Prog.runOracle] at hr
    | cons d ds =>
      cases d with
      | bin n0 => simp [Prog.runOracle] at hr
      | cat l =>
        simp only [Prog.runOracle] at hr
        split at hr
        · rename_i hok
          refine ih l ⟨hok.1, ?_, hok.2.2⟩ ds r ds' hr
          simpa using hok.2.1
        · cases hr

/-- a left fold of binds keeps an invariant that each step keeps -/
theorem Safe.foldl_bind {ι : Type} {Q : β → Prop} (f : β → ι → Prog W β) :
    ∀ (l : List ι) (acc : Prog W β), Safe okErr allowed Q acc →
      (∀ x ∈ l, ∀ b, Q b → Safe okErr allowed Q (f b x)) →
      Safe okErr allowed Q (l.foldl (fun acc x => acc.bind fun b => f b x) acc) := by
  intro l
  induction l with
  | nil => intro acc h _; exact h
  | cons x l ih =>
    intro acc h hf
    simp only [List.foldl_cons]
    exact ih _ (h.bind (hf x List.mem_cons_self)) (fun y hy => hf y (List.mem_cons_of_mem _ hy))

end safe

/-! ## ranges: `collect_conditional_ranges` is total on positive ranges, and returns positive ranges -/

theorem foldl_scanStep_pos (control : List Bool) (icol : Nat) :
    ∀ (m j : Nat) (st : List (Nat × Nat × Bool) × Nat × Bool), st.2.1 < j → (∀ p ∈ st.1, 0 < p.2.1) →
      ((List.range' j m).foldl (scanStep control icol) st).2.1 < j + m ∧
      ∀ p ∈ ((List.range' j m).foldl (scanStep control icol) st).1, 0 < p.2.1 := by
  intro m
  induction m with
  | zero => intro j st h1 h2; exact ⟨by simpa using h1, by simpa using h2⟩
  | succ m ih =>
    intro j st h1 h2
    simp only [List.range'_succ, List.foldl_cons]
    have hstep : (scanStep control icol st j).2.1 < j + 1 ∧ ∀ p ∈ (scanStep control icol st j).1, 0 < p.2.1 := by
      unfold scanStep
      split
      · refine ⟨by simp, ?_⟩
        intro p hp
        simp only [List.mem_append, List.mem_singleton] at hp
        rcases hp with hp | rfl
        · exact h2 p hp
        · simp only; omega
      · exact ⟨by omega, h2⟩
    obtain ⟨a, b⟩ := ih (j + 1) _ hstep.1 hstep.2
    exact ⟨by omega, b⟩

theorem scanRange_total (control : List Bool) (icol off count : Nat) (hc : 0 < count)
    (hlen : off + count ≤ control.length) :
    ∃ r, scanRange control icol off count = some r ∧ ∀ p ∈ r, 0 < p.2.1 := by
  rw [scanRange_eq]
  have hoff : off < control.length := by omega
  rw [List.getElem?_eq_getElem hoff]
  simp only
  obtain ⟨h1, h2⟩ := foldl_scanStep_pos control icol (count - 1) (off + 1) ([], off, control[off]) (by simp) (by simp)
  rw [if_pos (Or.inl hlen)]
  refine ⟨_, rfl, ?_⟩
  have hb : ((List.range' (off + 1) (count - 1)).foldl (scanStep control icol) ([], off, control[off])).2.1 < off + count := by
    omega
  rw [if_pos hb]
  intro p hp
  simp only [List.mem_append, List.mem_singleton] at hp
  rcases hp with hp | rfl
  · exact h2 p hp
  · simp only; omega

theorem collectLoop_total (control : List Bool) :
    ∀ (counts : List Nat) (icol off : Nat), (∀ c ∈ counts, 0 < c) → off + counts.sum ≤ control.length →
      ∃ r, collectLoop control counts icol off = some r ∧ ∀ p ∈ r, 0 < p.2.1 := by
  intro counts
  induction counts with
  | nil => intro icol off _ _; exact ⟨[], rfl, by simp⟩
  | cons c cs ih =>
    intro icol off hpos hlen
    simp only [List.sum_cons] at hlen
    obtain ⟨r1, h1, p1⟩ := scanRange_total control icol off c (hpos c (by simp)) (by omega)
    obtain ⟨r2, h2, p2⟩ := ih (icol + 1) (off + c) (fun x hx => hpos x (by simp [hx])) (by omega)
    refine ⟨r1 ++ r2, ?_, ?_⟩
    · simp [collectLoop, h1, h2]
    · intro p hp
      rcases List.mem_append.mp hp with hp | hp
      · exact p1 p hp
      · exact p2 p hp

/-- totality, positivity and the sum of the new ranges -/
theorem collect_total (counts : List Nat) (control : List Bool) (hpos : ∀ c ∈ counts, 0 < c)
    (hsum : counts.sum = control.length) :
    ∃ r, collectConditionalRanges counts control = some r ∧ (∀ p ∈ r, 0 < p.2.1) ∧
      (r.map (·.2.1)).sum = counts.sum := by
  obtain ⟨r, h, hp⟩ := collectLoop_total control counts 0 0 hpos (by omega)
  refine ⟨r, h, hp, ?_⟩
  obtain ⟨_, h2⟩ := collectLoop_partition control counts 0 0 r (by omega) h
  have := congrArg List.length h2
  rw [expandPieces_length, List.length_zip, shotCols_length, List.length_take, List.length_drop] at this
  omega

/-! ## the vector representation -/

section vec
variable {α P : Type} [Zero α] [One α] [Add α] [Mul α] [Neg α] [Sub α] [Amp α P] [SimAmp α]

/-- shape invariant of a `VectorState` with positive ranges -/
structure VInv (n N : Nat) (s : VecState α) : Prop where
  nrBits : s.nrBits = n
  nrShots : s.nrShots = N
  sum : s.counts.sum = N
  pos : ∀ c ∈ s.counts, 0 < c
  rows : s.states.length = 2 ^ n
  rowLen : ∀ row ∈ s.states, row.length = s.counts.length

/-- the side conditions of a gate placement on an `n`-qubit register -/
def ValidPlace (n : Nat) (g : GateTerm P) (bits : List Nat) : Prop :=
  gateOK g = true ∧ Gate.nrBits g = bits.length ∧ hasDup bits = false ∧ ∀ b ∈ bits, b < n

/-- totality of the two application routes on valid placements (C04) -/
structure RouteTotal (α : Type) {P : Type} [Zero α] [One α] [Add α] [Mul α] [Neg α] [Sub α] [Amp α P]
    (n : Nat) : Prop where
  mat : ∀ (g : GateTerm P) bits, ValidPlace n g bits → ∀ (m : Nat) (M : LMat α), M.length = 2 ^ n →
    (∀ row ∈ M, row.length = m) →
    ∃ M', Gate.applyGateSlice (α := α) .mat g bits n M = some M' ∧ M'.length = 2 ^ n ∧ ∀ row ∈ M', row.length = m
  vec : ∀ (g : GateTerm P) bits, ValidPlace n g bits → ∀ (v : List α), v.length = 2 ^ n →
    ∃ v', Gate.applyGateSlice (α := α) .vec g bits n v = some v'

variable {n N : Nat}

/-- errors never arise on well-formed input; the only panic left is the numeric one -/
def noErr : SimErr → Prop := fun _ => False
def numericOnly : String → Prop := fun s => s = "WeightedIndex::new(..).unwrap()"

local notation "SafeV" => Safe (W := α) noErr numericOnly

theorem ofColumns_vinv (s : VecState α) (hs : VInv n N s) (cols : List (List α)) (counts : List Nat)
    (hl : cols.length = counts.length) (hsum : counts.sum = N) (hpos : ∀ c ∈ counts, 0 < c) :
    VInv n N { s with states := VecState.ofColumns s.nrBits cols, counts := counts } where
  nrBits := hs.nrBits
  nrShots := hs.nrShots
  sum := hsum
  pos := hpos
  rows := by simp [VecState.ofColumns, hs.nrBits]
  rowLen := by
    intro row hr
    simp only [VecState.ofColumns, List.mem_map] at hr
    obtain ⟨_, _, rfl⟩ := hr
    simp [hl]

theorem column_length (s : VecState α) (hs : VInv n N s) (k : Nat) : (s.column k).length = 2 ^ n := by
  simp [VecState.column, hs.rows]

theorem applyGate_safe (ht : RouteTotal α (P := P) n) {s : VecState α} (hs : VInv n N s) {g : GateTerm P}
    {bits : List Nat} (hv : ValidPlace n g bits) :
    SafeV (VInv n N) (VecState.applyGate s g bits) := by
  unfold VecState.applyGate
  rw [if_neg (by simp [hv.2.1])]
  obtain ⟨M', h1, h2, h3⟩ := ht.mat g bits hv s.counts.length s.states hs.rows hs.rowLen
  have h1' : Gate.applyGateSlice (α := α) .mat g bits s.nrBits s.states = some M' := by rw [hs.nrBits]; exact h1
  rw [h1']
  exact .pure ⟨hs.nrBits, hs.nrShots, hs.sum, hs.pos, h2, h3⟩

theorem validPlace_single {g : GateTerm P} (hg : gateOK g = true) (h1 : Gate.nrBits g = 1) {q : Nat} (hq : q < n) :
    ValidPlace n g [q] :=
  ⟨hg, by simp [h1], by simp [hasDup], by simpa using hq⟩

theorem applyUnaryAll_safe (ht : RouteTotal α (P := P) n) {s : VecState α} (hs : VInv n N s) {g : GateTerm P}
    (hg : gateOK g = true) (h1 : Gate.nrBits g = 1) :
    SafeV (VInv n N) (VecState.applyUnaryAll s g) := by
  unfold VecState.applyUnaryAll
  refine Safe.foldl_bind (fun st bit => VecState.applyGate st g [bit]) _ _ (.pure hs) ?_
  intro bit hbit st hst
  exact applyGate_safe ht hst (validPlace_single hg h1 (by rw [hs.nrBits] at hbit; simpa using hbit))

theorem mapM_some_of_forall {σ τ : Type} (f : σ → Option τ) :
    ∀ (l : List σ), (∀ x ∈ l, ∃ y, f x = some y) → ∃ r, l.mapM f = some r ∧ r.length = l.length := by
  intro l
  induction l with
  | nil => intro _; exact ⟨[], rfl, rfl⟩
  | cons x l ih =>
    intro h
    obtain ⟨y, hy⟩ := h x (by simp)
    obtain ⟨r, hr, hl⟩ := ih (fun z hz => h z (by simp [hz]))
    exact ⟨y :: r, by simp [List.mapM_cons, hy, hr], by simp [hl]⟩

theorem applyConditional_safe (ht : RouteTotal α (P := P) n) {s : VecState α} (hs : VInv n N s)
    {control : List Bool} (hc : control.length = N) {g : GateTerm P} {bits : List Nat} (hv : ValidPlace n g bits) :
    SafeV (VInv n N) (VecState.applyConditional s control g bits) := by
  unfold VecState.applyConditional
  rw [if_neg (by simp [hc, hs.nrShots]), if_neg (by simp [hv.2.1])]
  obtain ⟨ranges, hr, hpos, hsum⟩ := collect_total s.counts control hs.pos (by rw [hs.sum, hc])
  rw [hr]
  simp only
  obtain ⟨cols, hcols, hlen⟩ := mapM_some_of_forall
    (fun (x : Nat × Nat × Bool) =>
      if x.2.2 then Gate.applyGateSlice (α := α) .vec g bits s.nrBits (s.column x.1) else some (s.column x.1)) ranges (by
      intro x _
      by_cases hx : x.2.2 = true
      · obtain ⟨v', hv'⟩ := ht.vec g bits hv (s.column x.1) (column_length s hs x.1)
        exact ⟨v', by simp [hx, hs.nrBits, hv']⟩
      · exact ⟨s.column x.1, by simp [hx]⟩)
  have hcols' : (ranges.mapM fun (x : Nat × Nat × Bool) =>
      match x with
      | (icol, _, apply) =>
        let col := s.column icol
        if apply then Gate.applyGateSlice (α := α) .vec g bits s.nrBits col else some col) = some cols := hcols
  rw [hcols']
  refine .pure (ofColumns_vinv s hs cols _ (by simp [hlen]) (by rw [hsum, hs.sum]) ?_)
  intro c hc'
  simp only [List.mem_map] at hc'
  obtain ⟨p, hp, rfl⟩ := hc'
  exact hpos p hp

/-! ### draws -/

theorem drawAll_safe {β : Type} {Q : β → Prop} :
    ∀ (l : List (α × Nat)) (k : List Nat → Prog α β),
      (∀ ns : List Nat, ns.length = l.length → (∀ i, ns.getD i 0 ≤ (l.map (·.2)).getD i 0) → SafeV Q (k ns)) →
      SafeV Q (VecState.drawAll l k) := by
  intro l
  induction l with
  | nil => intro k h; exact h [] rfl (by simp)
  | cons wc rest ih =>
    intro k h
    obtain ⟨w, c⟩ := wc
    simp only [VecState.drawAll]
    refine .binomial fun n0 hn0 => ih _ fun ns hl hle => h (n0 :: ns) (by simp [hl]) ?_
    intro i
    cases i with
    | zero => simpa using hn0
    | succ i => simpa using hle i

theorem writeRange_length (res : List Nat) (start c n0 cbit : Nat) :
    (writeRange res start c n0 cbit).length = res.length := by
  simp [writeRange]

/-- the new ranges of `measure_into`: same number of columns and counts, positive, same sum -/
theorem measureLoop_inv (q cbit : Nat) :
    ∀ (items : List (List α × α × Nat × Nat)) (start : Nat) (res : List Nat) (cols : List (List α)) (counts : List Nat),
      (∀ it ∈ items, 0 < it.2.2.1 ∧ it.2.2.2 ≤ it.2.2.1) →
      (VecState.measureLoop n q cbit items start res cols counts).1.length = res.length ∧
      ∃ ncols ncounts,
        (VecState.measureLoop n q cbit items start res cols counts).2.1 = cols ++ ncols ∧
        (VecState.measureLoop n q cbit items start res cols counts).2.2 = counts ++ ncounts ∧
        ncols.length = ncounts.length ∧ ncounts.sum = (items.map (·.2.2.1)).sum ∧ ∀ c ∈ ncounts, 0 < c := by
  intro items
  induction items with
  | nil => intro start res cols counts _; exact ⟨rfl, [], [], by simp [VecState.measureLoop]⟩
  | cons it rest ih =>
    intro start res cols counts h
    obtain ⟨col, w0, c, n0⟩ := it
    have hit := h (col, w0, c, n0) (by simp)
    simp only at hit
    have hrest := fun it' hit' => h it' (List.mem_cons_of_mem _ hit')
    simp only [VecState.measureLoop]
    split
    · obtain ⟨hl, nc, nn, e1, e2, e3, e4, e5⟩ := ih (start + c) (writeRange res start c n0 cbit) _ (counts ++ [c]) hrest
      refine ⟨by rw [hl, writeRange_length], VecState.collapseCol n q col false w0 :: nc, c :: nn, by rw [e1]; simp,
        by rw [e2]; simp, by simp [e3], by simp [e4], ?_⟩
      intro x hx
      rcases List.mem_cons.mp hx with rfl | hx
      · exact hit.1
      · exact e5 x hx
    · split
      · obtain ⟨hl, nc, nn, e1, e2, e3, e4, e5⟩ := ih (start + c) (writeRange res start c n0 cbit) _ (counts ++ [c]) hrest
        refine ⟨by rw [hl, writeRange_length], VecState.collapseCol n q col true (1 - w0) :: nc, c :: nn, by rw [e1]; simp,
          by rw [e2]; simp, by simp [e3], by simp [e4], ?_⟩
        intro x hx
        rcases List.mem_cons.mp hx with rfl | hx
        · exact hit.1
        · exact e5 x hx
      · rename_i hne1 hne0
        obtain ⟨hl, nc, nn, e1, e2, e3, e4, e5⟩ := ih (start + c) (writeRange res start c n0 cbit) _ (counts ++ [n0, c - n0]) hrest
        refine ⟨by rw [hl, writeRange_length],
          VecState.collapseCol n q col false w0 :: VecState.collapseCol n q col true (1 - w0) :: nc,
          n0 :: (c - n0) :: nn, by rw [e1]; simp, by rw [e2]; simp, by simp [e3], ?_, ?_⟩
        · simp only [List.sum_cons, List.map_cons, e4]; omega
        · intro x hx
          simp only [List.mem_cons] at hx
          rcases hx with rfl | rfl | hx
          · omega
          · omega
          · exact e5 x hx

theorem sum_range_getD (l : List Nat) : ((List.range l.length).map fun k => l.getD k 0).sum = l.sum := by
  have : (List.range l.length).map (fun k => l.getD k 0) = l := by
    apply List.ext_getElem
    · simp
    · intro k h1 h2
      simp [List.getD_eq_getElem?_getD, h2]
  rw [this]

theorem weights0_length (s : VecState α) (q : Nat) : (VecState.weights0 s q).length = s.counts.length := by
  simp [VecState.weights0, VecState.nrCols]

theorem measure_tail_safe {s : VecState α} (hs : VInv n N s) (q cbit : Nat) {res : List Nat} (hres : res.length = N)
    (items : List (List α × α × Nat × Nat)) (hitems : ∀ it ∈ items, 0 < it.2.2.1 ∧ it.2.2.2 ≤ it.2.2.1)
    (hsum : (items.map (·.2.2.1)).sum = N) :
    SafeV (fun x : VecState α × List Nat => VInv n N x.1 ∧ x.2.length = N)
      (match VecState.measureLoop s.nrBits q cbit items 0 res [] [] with
       | (res', cols, counts) =>
         Prog.pure ({ s with states := VecState.ofColumns s.nrBits cols, counts := counts }, res')) := by
  obtain ⟨hl', nc, nn, e1, e2, e3, e4, e5⟩ := measureLoop_inv (n := s.nrBits) q cbit items 0 res [] [] hitems
  generalize VecState.measureLoop s.nrBits q cbit items 0 res [] [] = R at hl' e1 e2
  obtain ⟨r1, r2, r3⟩ := R
  simp only [List.nil_append] at hl' e1 e2 ⊢
  subst e1 e2
  exact .pure ⟨ofColumns_vinv s hs _ _ e3 (by rw [e4, hsum]) e5, by rw [hl', hres]⟩

theorem measureInto_safe {s : VecState α} (hs : VInv n N s) {q cbit : Nat} (hq : q < n) (hcb : cbit < 64)
    {res : List Nat} (hres : res.length = N) :
    SafeV (fun x : VecState α × List Nat => VInv n N x.1 ∧ x.2.length = N) (VecState.measureInto s q cbit res) := by
  unfold VecState.measureInto
  rw [if_neg (by rw [hs.nrBits]; omega), if_neg (by rw [hs.nrShots, hres]; omega)]
  simp only
  refine drawAll_safe _ _ fun n0s hl hle => ?_
  rw [if_neg (by simp [shiftOk, hcb])]
  have hitems : ∀ it ∈ (List.range s.nrCols).map (fun k =>
      (s.column k, (VecState.weights0 s q).getD k 0, s.counts.getD k 0, n0s.getD k 0)),
      0 < it.2.2.1 ∧ it.2.2.2 ≤ it.2.2.1 := by
    intro it hit
    simp only [List.mem_map, List.mem_range] at hit
    obtain ⟨k, hk, rfl⟩ := hit
    simp only [VecState.nrCols] at hk
    simp only
    have hz := hle k
    have hzip : ((VecState.weights0 s q).zip s.counts).map (·.2) = s.counts := by
      rw [List.map_snd_zip]; rw [weights0_length]; exact Nat.le_refl _
    rw [hzip] at hz
    refine ⟨?_, hz⟩
    rw [List.getD_eq_getElem?_getD, List.getElem?_eq_getElem hk]
    exact hs.pos _ (List.getElem_mem hk)
  refine measure_tail_safe hs q cbit hres _ hitems ?_
  rw [List.map_map]
  have : ((fun (it : List α × α × Nat × Nat) => it.2.2.1) ∘ fun k =>
      (s.column k, (VecState.weights0 s q).getD k 0, s.counts.getD k 0, n0s.getD k 0)) = fun k => s.counts.getD k 0 := rfl
  rw [this, VecState.nrCols, sum_range_getD, hs.sum]

theorem peekGo_safe (cbit : Nat) :
    ∀ (l : List (α × Nat)) (start : Nat) (res : List Nat),
      SafeV (fun r : List Nat => r.length = res.length) (VecState.peekInto.go cbit l start res) := by
  intro l
  induction l with
  | nil => intro start res; exact .pure rfl
  | cons wc rest ih =>
    intro start res
    obtain ⟨w, c⟩ := wc
    simp only [VecState.peekInto.go]
    refine .binomial fun n0 _ => (ih (start + c) (writeRange res start c n0 cbit)).mono ?_
    intro r hr
    rw [hr, writeRange_length]

theorem peekInto_safe {s : VecState α} (hs : VInv n N s) {q cbit : Nat} (hq : q < n) (hcb : cbit < 64)
    {res : List Nat} (hres : res.length = N) :
    SafeV (fun r : List Nat => r.length = N) (VecState.peekInto s q cbit res) := by
  unfold VecState.peekInto
  rw [if_neg (by rw [hs.nrBits]; omega), if_neg (by rw [hs.nrShots, hres]; omega),
    if_neg (by simp [shiftOk, hcb])]
  exact (peekGo_safe cbit _ 0 res).mono fun r hr => by rw [hr, hres]

theorem foldl_add_eq_sum (l : List Nat) (a : Nat) : l.foldl (· + ·) a = a + l.sum := by
  induction l generalizing a with
  | nil => simp
  | cons x l ih => simp [ih, Nat.add_assoc]

theorem sampleAll_safe {β : Type} {Q : β → Prop} :
    ∀ (l : List (List α × Nat)) (k : List (Nat × Nat) → Prog α β),
      (∀ ls : List (Nat × Nat), (∀ ic ∈ ls, 0 < ic.2) → (ls.map (·.2)).sum = (l.map (·.2)).sum → SafeV Q (k ls)) →
      SafeV Q (VecState.sampleAll l k) := by
  intro l
  induction l with
  | nil => intro k h; exact h [] (by simp) rfl
  | cons wc rest ih =>
    intro k h
    obtain ⟨ws, c⟩ := wc
    simp only [VecState.sampleAll]
    split
    · exact .panic rfl
    · refine .categorical fun ll hll => ih _ fun ls hpos hsum => h (ll ++ ls) ?_ ?_
      · intro ic hic
        rcases List.mem_append.mp hic with hic | hic
        · have := List.all_eq_true.mp hll.2.1 ic hic
          simp only [decide_eq_true_eq] at this
          exact this.2
        · exact hpos ic hic
      · have h1 := hll.1
        rw [foldl_add_eq_sum, Nat.zero_add] at h1
        simp [h1, hsum]

theorem measureAllHelper_safe {s : VecState α} (hs : VInv n N s) {cbits : List Nat} (hlen : cbits.length = n)
    (hcb : ∀ b ∈ cbits, b < 64) {res : List Nat} (hres : res.length = N) (collapse : Bool) :
    SafeV (fun x : VecState α × List Nat => VInv n N x.1 ∧ x.2.length = N)
      (VecState.measureAllHelper s cbits res collapse) := by
  unfold VecState.measureAllHelper
  rw [if_neg (by rw [hs.nrShots, hres]; omega), if_neg (by rw [hs.nrBits, hlen]; simp)]
  simp only
  refine sampleAll_safe _ _ fun ls hpos hsum => ?_
  have hall : cbits.all shiftOk = true := List.all_eq_true.mpr fun b hb => by simp [shiftOk, hcb b hb]
  rw [if_neg (fun h => h hall)]
  have hlenR : ∀ (l : List (Nat × Nat)) (st : List Nat × Nat), (l.foldl (fun (st : List Nat × Nat) (ic : Nat × Nat) =>
      (st.1.zipIdx.map fun (wi : Nat × Nat) =>
        if st.2 ≤ wi.2 ∧ wi.2 < st.2 + ic.2 then
          (wi.1 &&& ((2 ^ 64 - 1) ^^^ cbits.foldl (fun m b => m ||| (1 <<< b)) 0)) |||
            (shuffleBits (reverseBits ic.1 s.nrBits) cbits).getD 0 else wi.1, st.2 + ic.2)) st).1.length = st.1.length := by
    intro l
    induction l with
    | nil => intro st; rfl
    | cons x l ih => intro st; simp only [List.foldl_cons]; rw [ih]; simp
  have hcs : ((List.range s.nrCols).map fun k => ((s.column k).map SimAmp.normSq, s.counts.getD k 0)).map (·.2) = s.counts := by
    rw [List.map_map]
    apply List.ext_getElem
    · simp [VecState.nrCols]
    · intro k h1 h2
      simp [List.getD_eq_getElem?_getD, h2]
  rw [hcs, hs.sum] at hsum
  split
  · refine .pure ⟨ofColumns_vinv s hs _ _ (by simp) hsum ?_, ?_⟩
    · intro c hc
      simp only [List.mem_map] at hc
      obtain ⟨ic, hic, rfl⟩ := hc
      exact hpos ic hic
    · simp only
      rw [← hres]
      exact hlenR ls (res, 0)
  · refine .pure ⟨hs, ?_⟩
    simp only
    rw [← hres]
    exact hlenR ls (res, 0)

theorem reset_safe (ht : RouteTotal α (P := P) n) {s : VecState α} (hs : VInv n N s) {q : Nat} (hq : q < n) :
    SafeV (VInv n N) (VecState.reset (P := P) s q) := by
  unfold VecState.reset
  refine (measureInto_safe hs hq (by omega) (by simp [hs.nrShots])).bind ?_
  rintro ⟨s', m⟩ ⟨hs', hm⟩
  exact applyConditional_safe ht hs' (by simpa using hm) (validPlace_single (by simp [gateOK]) (by simp [Gate.nrBits]) hq)

theorem resetAll_vinv {s : VecState α} (hs : VInv n N s) (hN : 0 < N) : VInv n N (VecState.resetAll s) where
  nrBits := hs.nrBits
  nrShots := hs.nrShots
  sum := by simp [VecState.resetAll, hs.nrShots]
  pos := by simp [VecState.resetAll, hs.nrShots, hN]
  rows := by simp [VecState.resetAll, hs.nrBits]
  rowLen := by
    intro row hr
    simp only [VecState.resetAll, List.mem_map] at hr
    obtain ⟨_, _, rfl⟩ := hr
    simp [VecState.resetAll]

theorem new_vinv (hN : 0 < N) : VInv n N (VecState.new (α := α) n N) where
  nrBits := rfl
  nrShots := rfl
  sum := by simp [VecState.new]
  pos := by simp [VecState.new, hN]
  rows := by simp [VecState.new]
  rowLen := by
    intro row hr
    simp only [VecState.new, List.mem_map] at hr
    obtain ⟨_, _, rfl⟩ := hr
    simp [VecState.new]

end vec
end Q1t.Sim

import Mathlib.Algebra.Ring.Defs
import Mathlib.Tactic.Ring
import Q1t.Base.Amp
import Q1t.Base.Q8
/-!
The algebraic laws under which the general gate theorems (C04, C05, C06, C16, C11, C12) are proved.

`α` is any commutative ring (its `Zero One Add Mul Neg Sub` are the operations the executable
model uses — a `CommRing` instance provides exactly those core classes), `Amp α P` supplies the
constants, conjugation and the trigonometric functions, and `LawfulAmp α P` states what they must
satisfy: `i² = −1`, `(1/√2)² = ½`, `½ + ½ = 1`, conjugation is an involutive ring homomorphism fixing
the real constants, and `cos`/`sin` form an *abstract trigonometric context* (Pythagoras, real-valued,
addition and negation formulas).  The complex numbers with `Real.cos`, `Real.sin` are a model
(see `Q1t/Proofs/AmpComplex.lean` if present); so is the exact field `Q8` with `P = Empty`.
-/
namespace Q1t

structure LawfulAmp (α P : Type) [CommRing α] [Amp α P] : Prop where
  I_mul_I : (Amp.I P : α) * Amp.I P = -1
  hsqrt2_mul_self : (Amp.hsqrt2 P : α) * Amp.hsqrt2 P = Amp.half P
  half_add_half : (Amp.half P : α) + Amp.half P = 1
  zeta8_eq : (Amp.zeta8 P : α) = Amp.hsqrt2 P + Amp.hsqrt2 P * Amp.I P
  conj_add : ∀ x y : α, Amp.conj P (x + y) = Amp.conj P x + Amp.conj P y
  conj_mul : ∀ x y : α, Amp.conj P (x * y) = Amp.conj P x * Amp.conj P y
  conj_one : Amp.conj P (1 : α) = 1
  conj_conj : ∀ x : α, Amp.conj P (Amp.conj P x) = x
  conj_I : Amp.conj P (Amp.I P : α) = -Amp.I P
  conj_hsqrt2 : Amp.conj P (Amp.hsqrt2 P : α) = Amp.hsqrt2 P
  conj_half : Amp.conj P (Amp.half P : α) = Amp.half P
  cos_sq_add_sin_sq : ∀ x : P, (Amp.cos x : α) * Amp.cos x + Amp.sin x * Amp.sin x = 1
  conj_cos : ∀ x : P, Amp.conj P (Amp.cos x : α) = Amp.cos x
  conj_sin : ∀ x : P, Amp.conj P (Amp.sin x : α) = Amp.sin x
  cos_padd : ∀ x y : P, (Amp.cos (Amp.padd α x y) : α) = Amp.cos x * Amp.cos y - Amp.sin x * Amp.sin y
  sin_padd : ∀ x y : P, (Amp.sin (Amp.padd α x y) : α) = Amp.sin x * Amp.cos y + Amp.cos x * Amp.sin y
  cos_pneg : ∀ x : P, (Amp.cos (Amp.pneg α x) : α) = Amp.cos x
  sin_pneg : ∀ x : P, (Amp.sin (Amp.pneg α x) : α) = -Amp.sin x

namespace LawfulAmp
variable {α P : Type} [CommRing α] [Amp α P] (h : LawfulAmp α P)
include h

theorem conj_zero : Amp.conj P (0 : α) = 0 := by
  have := h.conj_add (0 : α) 0
  simp only [add_zero] at this
  have h2 : Amp.conj P (0 : α) + 0 = Amp.conj P (0 : α) + Amp.conj P (0 : α) := by
    rw [add_zero]; exact this
  exact (add_left_cancel h2).symm

theorem conj_neg (x : α) : Amp.conj P (-x) = -Amp.conj P x := by
  have h1 := h.conj_add x (-x)
  rw [add_neg_cancel, h.conj_zero] at h1
  exact (neg_eq_of_add_eq_zero_right h1.symm).symm

theorem conj_sub (x y : α) : Amp.conj P (x - y) = Amp.conj P x - Amp.conj P y := by
  rw [sub_eq_add_neg, h.conj_add, h.conj_neg, ← sub_eq_add_neg]

end LawfulAmp
end Q1t

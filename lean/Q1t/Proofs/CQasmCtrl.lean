import Mathlib.Tactic.Ring
import Mathlib.Tactic.LinearCombination
import Q1t.Proofs.OpenQasmCtrl3
import Q1t.Proofs.CQasmTrig
set_option linter.unusedSimpArgs false
set_option linter.unusedSectionVars false
/-!
C12: the ASSEMBLED identities of the parametrised templates, for ALL angles — the product of the template's lines,
each embedded on its qubits of the 2- resp. 3-qubit register (`Spec.embed`, qubit 0 = first listed qubit), equals the
documented controlled gate (`Spec.specMatrix`).  The block-diagonal calculus (`app2`, `app3`, `bd2`, `bd4`, `bd4s`)
is the one of the OpenQASM sibling (`Proofs/OpenQasmCtrl2/3.lean`); the angle laws are `LawfulAmp`, `LawfulHalf`,
`LawfulNegHalf` (model: ℂ with the real cosine and sine, `Proofs/CQasmComplex.lean`).

The angle of a template line is the `f64` product the exporter evaluates: `0.5 * θ` is `phalf θ`, `-0.5 * θ` is
`pneg (phalf θ)`, `0.25 * θ` is `phalf (phalf θ)` (exact in binary floating point), as elements of `P`.
-/
namespace Q1t.Proofs.CQasm
open Q1t Q1t.Spec Q1t.OpenQasm Q1t.Proofs.Unitaries

variable {α P : Type} [CommRing α] [Amp α P]

theorem mCnot_bd : (CQ1.mCnot : LMat α) = bd2 1 0 0 1 0 1 1 0 := by
  simp [CQ1.mCnot, CQ1.mX, Spec.ctrl, bd2, List.range_succ, List.replicate]

/-- a diagonal one-qubit gate `diag(k0, k1)` on the control -/
theorem app2_control2 (k0 k1 a b c d e f g h : α) :
    app2 [0] [[k0, 0], [0, k1]] (bd2 a b c d e f g h) =
      bd2 (k0 * a) (k0 * b) (k0 * c) (k0 * d) (k1 * e) (k1 * f) (k1 * g) (k1 * h) := by
  simp only [app2, bd2, embed, agreeOff, subIndex, qbit, LMat.get, LMat.mul, LMat.transpose, LMat.dot]
  simp [List.range_succ]

/-! ### `CRY`, `CRX` -/

/-- `CRY(θ) ↦ cnot c,t; ry t, −θ/2; cnot c,t; ry t, θ/2` -/
theorem cry_assembled (h : LawfulAmp α P) (hh : LawfulHalf α P) (hn : LawfulNegHalf α P) (θ : P) :
    app2 [1] (CQ1.mRy (Amp.phalf α θ)) (app2 [0, 1] CQ1.mCnot
      (app2 [1] (CQ1.mRy (Amp.pneg α (Amp.phalf α θ))) (app2 [0, 1] CQ1.mCnot I4))) =
      (specMatrix (.C (.RY θ)) : LMat α) := by
  have e1 := hh.cos_phalf_twice (Amp.phalf α θ); have e2 := hh.sin_phalf_twice (Amp.phalf α θ)
  simp only [h.cos_padd, h.sin_padd] at e1 e2
  have hsq := h.cos_sq_add_sin_sq (Amp.phalf α (Amp.phalf α θ))
  rw [show (specMatrix (.C (.RY θ)) : LMat α) = Spec.ctrl (specMatrix (.RY θ)) from rfl, ← ry_line h θ]
  simp only [CQ1.mRy, mCnot_bd, I4_eq, app2_cx', app2_target, ctrl_two, hn.cos_phalf_pneg, hn.sin_phalf_pneg]
  rw [← e1, ← e2]
  refine bd2_ext ?_ ?_ ?_ ?_ ?_ ?_ ?_ ?_ <;> grind

/-- `CRX(θ) ↦ s t; cnot c,t; ry t, −θ/2; cnot c,t; ry t, θ/2; sdag t` -/
theorem crx_assembled (h : LawfulAmp α P) (hh : LawfulHalf α P) (hn : LawfulNegHalf α P) (θ : P) :
    app2 [1] (CQ1.mSdag (P := P)) (app2 [1] (CQ1.mRy (Amp.phalf α θ)) (app2 [0, 1] CQ1.mCnot
      (app2 [1] (CQ1.mRy (Amp.pneg α (Amp.phalf α θ))) (app2 [0, 1] CQ1.mCnot (app2 [1] (CQ1.mS (P := P)) I4))))) =
      (specMatrix (.C (.RX θ)) : LMat α) := by
  have e1 := hh.cos_phalf_twice (Amp.phalf α θ); have e2 := hh.sin_phalf_twice (Amp.phalf α θ)
  simp only [h.cos_padd, h.sin_padd] at e1 e2
  have hsq := h.cos_sq_add_sin_sq (Amp.phalf α (Amp.phalf α θ))
  have hI := h.I_mul_I
  rw [show (specMatrix (.C (.RX θ)) : LMat α) = Spec.ctrl (specMatrix (.RX θ)) from rfl, ← rx_line θ]
  simp only [CQ1.mRy, CQ1.mRx, CQ1.mS, CQ1.mSdag, mCnot_bd, I4_eq, app2_cx', app2_target, ctrl_two,
    hn.cos_phalf_pneg, hn.sin_phalf_pneg]
  rw [← e1, ← e2]
  refine bd2_ext ?_ ?_ ?_ ?_ ?_ ?_ ?_ ?_ <;> grind

/-! ### `CCRZ` as it is: the template builds `CC-U1(λ)` -/

theorem mCPhase_bd (k : α) : (CQ1.mCPhase k : LMat α) = bd2 1 0 0 1 1 0 0 k := rfl

theorem matCX_eq_mCnot : (CQ1.mCnot : LMat α) = Spec.OQ2.matCX := by
  simp [CQ1.mCnot, CQ1.mX, Spec.ctrl, Spec.OQ2.matCX, List.range_succ, List.replicate]

/-- `CCRZ(λ) ↦ cr b,t, λ/2; cnot a,b; cr b,t, −λ/2; cnot a,b; cr a,t, λ/2` is exactly the doubly controlled
`U1(λ) = diag(1, e^{iλ})` — NOT the doubly controlled `RZ(λ)` (`neg_ccrz_block_is_u1`) -/
theorem ccrz_template_is_ccu1 (h : LawfulAmp α P) (hh : LawfulHalf α P) (l : P) :
    let e : α := Amp.cos (Amp.phalf α l) + Amp.I P * Amp.sin (Amp.phalf α l)
    let e' : α := Amp.cos (Amp.pneg α (Amp.phalf α l)) + Amp.I P * Amp.sin (Amp.pneg α (Amp.phalf α l))
    app3 [0, 2] (CQ1.mCPhase e) (app3 [0, 1] CQ1.mCnot (app3 [1, 2] (CQ1.mCPhase e') (app3 [0, 1] CQ1.mCnot
      (app3 [1, 2] (CQ1.mCPhase e) I8)))) =
      (specMatrix (.C (.C (.U1 l))) : LMat α) := by
  intro e e'
  have e1 := hh.cos_phalf_twice l; have e2 := hh.sin_phalf_twice l
  simp only [h.cos_padd, h.sin_padd] at e1 e2
  have hsq := h.cos_sq_add_sin_sq (Amp.phalf α l)
  have hI := h.I_mul_I
  have hsp : (specMatrix (.C (.C (.U1 l))) : LMat α) =
      bd4 1 0 0 1 1 0 0 1 1 0 0 1 1 0 0 (Amp.cos l + Amp.I P * Amp.sin l) := by
    show Spec.ctrl (Spec.ctrl (specMatrix (.U1 l))) = _
    simp only [specMatrix, expi, ctrl_two, ctrl_bd2]
  rw [hsp]
  simp only [mCPhase_bd, matCX_eq_mCnot, I8_eq, app3_cd12, app3_cx01, app3_cd12_s, app3_cx01_s, app3_cd02]
  simp only [e, e', h.cos_pneg, h.sin_pneg]
  rw [← e1, ← e2]
  refine bd4_ext ?_ ?_ ?_ ?_ ?_ ?_ ?_ ?_ ?_ ?_ ?_ ?_ ?_ ?_ ?_ ?_ <;> grind

end Q1t.Proofs.CQasm

namespace Q1t.Proofs.CQasm
open Q1t Q1t.Spec Q1t.OpenQasm Q1t.Proofs.Unitaries

variable {α P : Type} [CommRing α] [Amp α P]

/-! ### `CCRY`, `CCRX` -/

/-- the fourteen lines of the `CCRY` template applied after `acc` (`q = θ/4`, `nq = −θ/4`) -/
def ccryLines (q nq : P) (acc : LMat α) : LMat α :=
  app3 [2] (CQ1.mRy q) (app3 [0, 2] CQ1.mCnot (app3 [2] (CQ1.mRy nq) (app3 [0, 2] CQ1.mCnot
  (app3 [0, 1] CQ1.mCnot
  (app3 [2] (CQ1.mRy nq) (app3 [1, 2] CQ1.mCnot (app3 [2] (CQ1.mRy q) (app3 [1, 2] CQ1.mCnot
  (app3 [0, 1] CQ1.mCnot
  (app3 [2] (CQ1.mRy q) (app3 [1, 2] CQ1.mCnot (app3 [2] (CQ1.mRy nq) (app3 [1, 2] CQ1.mCnot acc)))))))))))))

/-- `CCRY(θ)`: the assembled 8×8 identity -/
theorem ccry_assembled (h : LawfulAmp α P) (hh : LawfulHalf α P) (hn : LawfulNegHalf α P) (θ : P) :
    ccryLines (Amp.phalf α (Amp.phalf α θ)) (Amp.pneg α (Amp.phalf α (Amp.phalf α θ))) I8 =
      (specMatrix (.C (.C (.RY θ))) : LMat α) := by
  have e1 := hh.cos_phalf_twice (Amp.phalf α θ); have e2 := hh.sin_phalf_twice (Amp.phalf α θ)
  have f1 := hh.cos_phalf_twice (Amp.phalf α (Amp.phalf α θ)); have f2 := hh.sin_phalf_twice (Amp.phalf α (Amp.phalf α θ))
  simp only [h.cos_padd, h.sin_padd] at e1 e2 f1 f2
  have hsq := h.cos_sq_add_sin_sq (Amp.phalf α (Amp.phalf α (Amp.phalf α θ)))
  have hsp : (specMatrix (.C (.C (.RY θ))) : LMat α) = Spec.ctrl (Spec.ctrl (CQ1.mRy θ)) := by
    rw [ry_line h θ]; rfl
  rw [hsp]
  simp only [ccryLines, CQ1.mRy, matCX_eq_mCnot, I8_eq, app3_cx12, app3_target, app3_cx01, app3_cx12_s, app3_target_s,
    app3_cx01_s, app3_cx02, ctrl_two, ctrl_bd2, hn.cos_phalf_pneg, hn.sin_phalf_pneg]
  rw [← e1, ← e2, ← f1, ← f2]
  refine bd4_ext ?_ ?_ ?_ ?_ ?_ ?_ ?_ ?_ ?_ ?_ ?_ ?_ ?_ ?_ ?_ ?_ <;> grind

/-- `CCRX(θ)`: `s t`, the `CCRY` lines, `sdag t` -/
theorem ccrx_assembled (h : LawfulAmp α P) (hh : LawfulHalf α P) (hn : LawfulNegHalf α P) (θ : P) :
    app3 [2] (CQ1.mSdag (P := P))
      (ccryLines (Amp.phalf α (Amp.phalf α θ)) (Amp.pneg α (Amp.phalf α (Amp.phalf α θ))) (app3 [2] (CQ1.mS (P := P)) I8)) =
      (specMatrix (.C (.C (.RX θ))) : LMat α) := by
  have e1 := hh.cos_phalf_twice (Amp.phalf α θ); have e2 := hh.sin_phalf_twice (Amp.phalf α θ)
  have f1 := hh.cos_phalf_twice (Amp.phalf α (Amp.phalf α θ)); have f2 := hh.sin_phalf_twice (Amp.phalf α (Amp.phalf α θ))
  simp only [h.cos_padd, h.sin_padd] at e1 e2 f1 f2
  have hsq := h.cos_sq_add_sin_sq (Amp.phalf α (Amp.phalf α (Amp.phalf α θ)))
  have hI := h.I_mul_I
  have hsp : (specMatrix (.C (.C (.RX θ))) : LMat α) = Spec.ctrl (Spec.ctrl (CQ1.mRx θ)) := by
    rw [rx_line θ]; rfl
  rw [hsp]
  simp only [ccryLines, CQ1.mRy, CQ1.mRx, CQ1.mS, CQ1.mSdag, matCX_eq_mCnot, I8_eq, app3_cx12, app3_target, app3_cx01,
    app3_cx12_s, app3_target_s, app3_cx01_s, app3_cx02, ctrl_two, ctrl_bd2, hn.cos_phalf_pneg, hn.sin_phalf_pneg]
  rw [← e1, ← e2, ← f1, ← f2]
  refine bd4_ext ?_ ?_ ?_ ?_ ?_ ?_ ?_ ?_ ?_ ?_ ?_ ?_ ?_ ?_ ?_ ?_ <;> grind

end Q1t.Proofs.CQasm

import Q1t.Proofs.CQasmGates
/-! C12: kernel-checked instances, one- and two-qubit constant gates, unconditioned (every placement). -/
namespace Q1t.Proofs.CQasm
open Q1t Q1t.CQ

theorem const1_plain : ∀ e ∈ const1, plainOK e.1 e.2 [0] = true := by decide +kernel

theorem const2_plain : ∀ e ∈ const2, ∀ bits ∈ [[0, 1], [1, 0]], plainOK e.1 e.2 bits = true := by decide +kernel

/-- `CY` (three lines: `sdag t; cnot c,t; s t`) -/
theorem cy_plain : ∀ bits ∈ [[0, 1], [1, 0]], plainOK "CY" 1 bits = true := by decide +kernel

end Q1t.Proofs.CQasm

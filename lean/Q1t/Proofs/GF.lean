import Mathlib.Data.Nat.Choose.Sum
import Mathlib.Tactic.Ring
/-!
The multinomial law of a range-based shot sampler, abstractly (core of C01).

`Prog` is a free monad whose only effect is `binomial c p k` (draw `n ~ Binomial(c, p)`); `expect`
is its expectation in any commutative ring.  A sampler state is a list of *ranges* `(count, data)`;
an operation splits every range binomially into two sub-ranges with new data (`stepAll`).  The
theorem `histogram_gf`: for every operation list and every initial range list, the expectation of
`∏_ranges g(data)^count` after the run equals `∏_ranges (gfShot ops data)^count`, where `gfShot` is
the *single-shot* generating function.  With `R = MvPolynomial Word ℚ` and `x = X` this says that the
probability generating function of the histogram of N shots is `(Σ_v p_v X_v)^N`, i.e. the histogram
is Multinomial(N, p) with p the single-shot (Born) distribution.
-/
namespace Q1t.GF
open Finset

inductive Prog (W : Type) (β : Type) where
  | pure : β → Prog W β
  | binomial : Nat → W → (Nat → Prog W β) → Prog W β

namespace Prog
variable {W β γ : Type}

def bind : Prog W β → (β → Prog W γ) → Prog W γ
  | .pure b, f => f b
  | .binomial c p k, f => .binomial c p (fun n => bind (k n) f)

variable {R : Type} [CommRing R]

def expect (toR : W → R) : Prog W β → (β → R) → R
  | .pure b, f => f b
  | .binomial c p k, f =>
      ∑ n ∈ range (c + 1), ((c.choose n : R) * toR p ^ n * (1 - toR p) ^ (c - n)) * expect toR (k n) f

theorem expect_bind (toR : W → R) (m : Prog W β) (g : β → Prog W γ) (f : γ → R) :
    expect toR (bind m g) f = expect toR m (fun b => expect toR (g b) f) := by
  induction m with
  | pure b => rfl
  | binomial c p k ih => simp only [bind, expect, ih]

theorem expect_const_mul (toR : W → R) (m : Prog W β) (a : R) (f : β → R) :
    expect toR m (fun b => a * f b) = a * expect toR m f := by
  induction m with
  | pure b => rfl
  | binomial c p k ih =>
    simp only [expect, ih, Finset.mul_sum]
    apply Finset.sum_congr rfl; intro n _; ring
end Prog

open Prog
variable {S Word W R : Type} [CommRing R]

structure Op (S Word W : Type) where
  p  : S → W
  k0 : S × Word → S × Word
  k1 : S × Word → S × Word

abbrev Rng (S Word : Type) := Nat × (S × Word)

def gfShot (toR : W → R) (x : Word → R) : List (Op S Word W) → S × Word → R
  | [], sw => x sw.2
  | op :: rest, sw =>
      toR (op.p sw.1) * gfShot toR x rest (op.k0 sw) + (1 - toR (op.p sw.1)) * gfShot toR x rest (op.k1 sw)

def stepAll (op : Op S Word W) : List (Rng S Word) → Prog W (List (Rng S Word))
  | [] => .pure []
  | (c, sw) :: rs =>
      .binomial c (op.p sw.1) (fun n0 =>
        Prog.bind (stepAll op rs) (fun rs' => .pure ((n0, op.k0 sw) :: (c - n0, op.k1 sw) :: rs')))

def exec : List (Op S Word W) → List (Rng S Word) → Prog W (List (Rng S Word))
  | [], rs => .pure rs
  | op :: rest, rs => Prog.bind (stepAll op rs) (exec rest)

def value (g : S × Word → R) (rs : List (Rng S Word)) : R := (rs.map (fun r => g r.2 ^ r.1)).prod

theorem binom_split (p A B : R) (c : ℕ) :
    ∑ k ∈ range (c + 1), ((c.choose k : R) * p ^ k * (1 - p) ^ (c - k)) * (A ^ k * B ^ (c - k))
      = (p * A + (1 - p) * B) ^ c := by
  rw [add_pow]
  apply Finset.sum_congr rfl
  intro k _
  rw [mul_pow, mul_pow]; ring

theorem stepAll_value (toR : W → R) (op : Op S Word W) (g : S × Word → R) (rs : List (Rng S Word)) :
    expect toR (stepAll op rs) (value g)
      = value (fun sw => toR (op.p sw.1) * g (op.k0 sw) + (1 - toR (op.p sw.1)) * g (op.k1 sw)) rs := by
  induction rs with
  | nil => rfl
  | cons r rs ih =>
    obtain ⟨c, sw⟩ := r
    simp only [stepAll, expect, expect_bind]
    have h : ∀ n0, expect toR (stepAll op rs)
        (fun rs' => value g ((n0, op.k0 sw) :: (c - n0, op.k1 sw) :: rs'))
        = (g (op.k0 sw) ^ n0 * g (op.k1 sw) ^ (c - n0)) * expect toR (stepAll op rs) (value g) := by
      intro n0
      rw [← expect_const_mul]
      congr 1; funext rs'; simp [value, List.prod_cons]; ring
    simp only [h, ih]
    rw [show value (fun sw => toR (op.p sw.1) * g (op.k0 sw) + (1 - toR (op.p sw.1)) * g (op.k1 sw)) ((c, sw) :: rs)
          = (toR (op.p sw.1) * g (op.k0 sw) + (1 - toR (op.p sw.1)) * g (op.k1 sw)) ^ c
            * value (fun sw => toR (op.p sw.1) * g (op.k0 sw) + (1 - toR (op.p sw.1)) * g (op.k1 sw)) rs from by
          simp [value, List.prod_cons]]
    rw [← binom_split, Finset.sum_mul]
    apply Finset.sum_congr rfl; intro n _; ring

theorem histogram_gf (toR : W → R) (x : Word → R) (ops : List (Op S Word W)) (rs : List (Rng S Word)) :
    expect toR (exec ops rs) (value (fun sw => x sw.2)) = value (gfShot toR x ops) rs := by
  induction ops generalizing rs with
  | nil => simp [exec, expect, gfShot]
  | cons op rest ih =>
    simp only [exec, expect_bind]
    have : (fun b => expect toR (exec rest b) (value fun sw => x sw.2)) = value (gfShot toR x rest) := by
      funext b; exact ih b
    rw [this, stepAll_value]
    rfl

theorem histogram_gf_single (toR : W → R) (x : Word → R) (ops : List (Op S Word W)) (N : Nat) (sw : S × Word) :
    expect toR (exec ops [(N, sw)]) (value (fun sw => x sw.2)) = gfShot toR x ops sw ^ N := by
  rw [histogram_gf]; simp [value]
end Q1t.GF

import Q1t.Proofs.RouteKron
import Q1t.Proofs.SubIndex
/-!
# C04: the reference matrix `embed`, the full product `mulState`, and lifting a placement from an
`n`-qubit register to an `N`-qubit register (the extra qubits are the low index bits)

* entries / well-formedness of `Spec.embed`;
* length / row width / entries of `Spec.mulState`;
* `qbit`, `subIndex`, `agreeOff`, `embed` of the larger register in terms of the smaller one;
* `mulState (embed N bits M) = blockMul (embed n bits M) (2^(N-n))`;
* composition of block products, identity, `t = 1`;
* `mulState .mat d A B = LMat.mul A B` for square matrices, powers are square.
-/
namespace Q1t.Proofs.Route
open Q1t Q1t.Gate Q1t.Spec
variable {α : Type} [CommRing α]
set_option linter.unusedSectionVars false
set_option linter.unusedVariables false

/-! ## `embed`: shape and entries -/

theorem embed_wf (n : Nat) (bits : List Nat) (M : LMat α) : WFMat (2 ^ n) (embed n bits M) := by
  refine ⟨by simp [embed], ?_⟩
  intro row hrow
  obtain ⟨_, _, rfl⟩ := List.mem_map.1 hrow
  simp

theorem embed_get (n : Nat) (bits : List Nat) (M : LMat α) (r c : Nat) (hr : r < 2 ^ n)
    (hc : c < 2 ^ n) :
    LMat.get (embed n bits M) r c =
      if agreeOff n bits r c then LMat.get M (subIndex n bits r) (subIndex n bits c) else 0 := by
  simp [embed, LMat.get, List.getD_eq_getElem?_getD, hr, hc]

/-! ## `mulState` -/

theorem mulState_length (m : Mode) (w : Nat) (A : LMat α) (v : List (Row α m)) :
    (mulState m w A v).length = A.length := by simp [mulState]

theorem mulState_rowsW (m : Mode) (w : Nat) (hw : OkWidth m w) (A : LMat α) (v : List (Row α m)) :
    RowsW m w (mulState m w A v) := by
  intro r hr
  simp only [mulState, List.mem_map] at hr
  obtain ⟨_, _, rfl⟩ := hr
  exact width_mk _ _ _ hw

theorem mulState_entry (m : Mode) (w : Nat) (hw : OkWidth m w) (A : LMat α) (v : List (Row α m))
    (r col : Nat) (hr : r < A.length) (hcol : col < w) :
    stateEntry m (mulState m w A v) r col =
      ∑ c ∈ Finset.range A.length, LMat.get A r c * stateEntry m v c col := by
  rw [stateEntry_get _ _ _ _ (by simpa [mulState] using hr)]
  simp only [mulState, List.getElem_map, List.getElem_range]
  rw [entry_mk _ _ _ hw _ hcol, sumTo_eq_sum]

/-- in mode `mat` a state is a matrix and `stateEntry` is `LMat.get` -/
theorem stateEntry_mat (B : LMat α) (i j : Nat) :
    stateEntry (α := α) .mat B i j = LMat.get B i j := by
  simp only [stateEntry, LMat.get, List.getD_eq_getElem?_getD]
  cases h : B[i]? with
  | none => simp
  | some r => simp [rowEntry, List.getD_eq_getElem?_getD]

theorem okWidth_mat (d : Nat) : OkWidth .mat d := fun h => by cases h

theorem mulState_mat_wf (d : Nat) (A B : LMat α) (hA : WFMat d A) :
    WFMat d (mulState (α := α) .mat d A B) := by
  refine ⟨by rw [mulState_length]; exact hA.1, ?_⟩
  intro row hrow
  exact mulState_rowsW .mat d (okWidth_mat d) A B row hrow

/-- entries of the matrix product `mulState .mat d A B` -/
theorem mulState_mat_get (d : Nat) (A B : LMat α) (hA : WFMat d A) (i j : Nat) (hi : i < d)
    (hj : j < d) :
    LMat.get (mulState (α := α) .mat d A B) i j =
      ∑ c ∈ Finset.range d, LMat.get A i c * LMat.get B c j := by
  rw [← stateEntry_mat, mulState_entry .mat d (okWidth_mat d) A B i j (by rw [hA.1]; exact hi) hj,
    hA.1]
  apply Finset.sum_congr rfl
  intro c _
  rw [stateEntry_mat]

/-! ## composition of block products -/

theorem div_mod_block (c t j : Nat) (hj : j < t) : (c * t + j) / t = c ∧ (c * t + j) % t = j := by
  have ht : 0 < t := by omega
  constructor
  · rw [Nat.add_comm, Nat.add_mul_div_right _ _ ht, Nat.div_eq_of_lt hj, Nat.zero_add]
  · rw [Nat.add_comm, Nat.add_mul_mod_self_right, Nat.mod_eq_of_lt hj]

theorem block_lt (c d t j : Nat) (hc : c < d) (hj : j < t) : c * t + j < d * t := by
  have := Nat.mul_le_mul_right t (Nat.succ_le_of_lt hc)
  rw [Nat.succ_mul] at this; omega

theorem blockMul_blockMul (m : Mode) (w : Nat) (hw : OkWidth m w) (d : Nat) (A B : LMat α)
    (hA : WFMat d A) (hB : WFMat d B) (t : Nat) (v : List (Row α m)) (hlen : v.length = d * t)
    (hv : RowsW m w v) :
    blockMul m w A t (blockMul m w B t v) = blockMul m w (mulState .mat d A B) t v := by
  have hAB := mulState_mat_wf d A B hA
  apply state_ext m w
  · rw [blockMul_length, blockMul_length, hA.1, hAB.1]
  · exact blockMul_rowsW m w hw _ _ _
  · exact blockMul_rowsW m w hw _ _ _
  · intro r col hr hcol
    rw [blockMul_length, hA.1] at hr
    have ht : 0 < t := by
      rcases Nat.eq_zero_or_pos t with h | h
      · subst h; simp at hr
      · exact h
    have hi : r / t < d := by rw [Nat.div_lt_iff_lt_mul ht]; exact hr
    have hj : r % t < t := Nat.mod_lt _ ht
    rw [blockMul_entry m w hw A t _ r col (by rw [hA.1]; exact hr) hcol, hA.1,
      blockMul_entry m w hw _ t v r col (by rw [hAB.1]; exact hr) hcol, hAB.1]
    have hin : ∀ c, c < d → stateEntry m (blockMul m w B t v) (c * t + r % t) col =
        ∑ c' ∈ Finset.range d, LMat.get B c c' * stateEntry m v (c' * t + r % t) col := by
      intro c hc
      rw [blockMul_entry m w hw B t v _ col (by rw [hB.1]; exact block_lt c d t _ hc hj) hcol, hB.1,
        (div_mod_block c t _ hj).1, (div_mod_block c t _ hj).2]
    have e1 : ∑ c ∈ Finset.range d, LMat.get A (r / t) c *
          stateEntry m (blockMul m w B t v) (c * t + r % t) col =
        ∑ c ∈ Finset.range d, ∑ c' ∈ Finset.range d,
          LMat.get A (r / t) c * (LMat.get B c c' * stateEntry m v (c' * t + r % t) col) := by
      apply Finset.sum_congr rfl
      intro c hc
      rw [hin c (Finset.mem_range.1 hc), Finset.mul_sum]
    rw [e1, Finset.sum_comm]
    apply Finset.sum_congr rfl
    intro c' hc'
    rw [mulState_mat_get d A B hA _ _ hi (Finset.mem_range.1 hc'), Finset.sum_mul]
    apply Finset.sum_congr rfl
    intro c _
    ring

/-! ## identity, `t = 1` -/

theorem identity_wf (d : Nat) : WFMat d (LMat.identity d : LMat α) := by
  refine ⟨by simp [LMat.identity], ?_⟩
  intro row hrow
  obtain ⟨_, _, rfl⟩ := List.mem_map.1 hrow
  simp

theorem get_identity (d i j : Nat) (hi : i < d) (hj : j < d) :
    LMat.get (LMat.identity d : LMat α) i j = if i = j then 1 else 0 := by
  simp [LMat.identity, LMat.get, List.getD_eq_getElem?_getD, hi, hj]

theorem blockMul_identity (m : Mode) (w : Nat) (hw : OkWidth m w) (d t : Nat) (v : List (Row α m))
    (hlen : v.length = d * t) (hv : RowsW m w v) :
    blockMul m w (LMat.identity d) t v = v := by
  have hI := identity_wf (α := α) d
  apply state_ext m w
  · rw [blockMul_length, hI.1, hlen]
  · exact blockMul_rowsW m w hw _ _ _
  · exact hv
  · intro r col hr hcol
    rw [blockMul_length, hI.1] at hr
    have ht : 0 < t := by
      rcases Nat.eq_zero_or_pos t with h | h
      · subst h; simp at hr
      · exact h
    have hi : r / t < d := by rw [Nat.div_lt_iff_lt_mul ht]; exact hr
    rw [blockMul_entry m w hw _ t v r col (by rw [hI.1]; exact hr) hcol, hI.1,
      Finset.sum_eq_single (r / t)]
    · rw [get_identity d _ _ hi hi, if_pos rfl, one_mul, Nat.div_add_mod']
    · intro c hc hne
      rw [get_identity d _ _ hi (Finset.mem_range.1 hc), if_neg (Ne.symm hne), zero_mul]
    · intro h; exact absurd (Finset.mem_range.2 hi) h

theorem blockMul_one (m : Mode) (w : Nat) (hw : OkWidth m w) (M : LMat α) (d : Nat)
    (hM : WFMat d M) (v : List (Row α m)) (hlen : v.length = d) (hv : RowsW m w v) :
    blockMul m w M 1 v = mulState m w M v := by
  unfold blockMul mulState
  rw [Nat.mul_one]
  apply List.map_congr_left
  intro r _
  congr 1
  funext col
  congr 1
  funext c
  rw [Nat.div_one, Nat.mod_one, Nat.mul_one, Nat.add_zero]

/-! ## lifting a placement to a larger register -/

theorem qbit_lift (n N q r : Nat) (hq : q < n) (hnN : n ≤ N) :
    qbit N q r = qbit n q (r / 2 ^ (N - n)) := by
  unfold qbit
  rw [Nat.shiftRight_eq_div_pow, Nat.shiftRight_eq_div_pow, Nat.div_div_eq_div_mul, ← Nat.pow_add]
  congr 3
  omega

theorem subIndex_lift (n N : Nat) (bits : List Nat) (r : Nat) (hb : ∀ q ∈ bits, q < n)
    (hnN : n ≤ N) : subIndex N bits r = subIndex n bits (r / 2 ^ (N - n)) := by
  induction bits with
  | nil => rfl
  | cons x t ih =>
    rw [BitPerm.subIndex_cons, BitPerm.subIndex_cons, ih (fun q hq => hb q (List.mem_cons_of_mem _ hq)),
      qbit_lift n N x r (hb x (List.mem_cons_self ..)) hnN]

/-- the extra (low) qubits of the larger register read the remainder -/
theorem qbit_low (n N q r : Nat) (hq : n ≤ q) (hqN : q < N) :
    qbit N q r = qbit (N - n) (q - n) (r % 2 ^ (N - n)) := by
  rw [BitPerm.qbit_eq_testBit, BitPerm.qbit_eq_testBit, Nat.testBit_mod_two_pow]
  have e : N - n - 1 - (q - n) = N - 1 - q := by omega
  have h : N - 1 - q < N - n := by omega
  rw [e]
  simp [h]

theorem mod_eq_iff_qbit (n N r c : Nat) (hnN : n ≤ N) :
    r % 2 ^ (N - n) = c % 2 ^ (N - n) ↔ ∀ q, n ≤ q → q < N → qbit N q r = qbit N q c := by
  constructor
  · intro h q hq hqN
    rw [qbit_low n N q r hq hqN, qbit_low n N q c hq hqN, h]
  · intro h
    apply BitPerm.eq_of_qbit_eq (N - n) _ _ (Nat.mod_lt _ (by positivity)) (Nat.mod_lt _ (by positivity))
    intro q hq
    have := h (n + q) (by omega) (by omega)
    rw [qbit_low n N _ r (by omega) (by omega), qbit_low n N _ c (by omega) (by omega)] at this
    simpa using this

theorem agreeOff_lift (n N : Nat) (bits : List Nat) (r c : Nat) (hb : ∀ q ∈ bits, q < n)
    (hnN : n ≤ N) (hr : r < 2 ^ N) (hc : c < 2 ^ N) :
    agreeOff N bits r c = true ↔
      (agreeOff n bits (r / 2 ^ (N - n)) (c / 2 ^ (N - n)) = true ∧
        r % 2 ^ (N - n) = c % 2 ^ (N - n)) := by
  rw [mod_eq_iff_qbit n N r c hnN]
  simp only [agreeOff, List.all_eq_true, List.mem_range, Bool.or_eq_true, List.contains_iff_mem,
    beq_iff_eq]
  constructor
  · intro h
    refine ⟨?_, ?_⟩
    · intro q hq
      rcases h q (by omega) with h' | h'
      · exact Or.inl h'
      · right
        rw [← qbit_lift n N q r hq hnN, ← qbit_lift n N q c hq hnN]; exact h'
    · intro q hq hqN
      rcases h q hqN with h' | h'
      · have := hb q h'; omega
      · exact h'
  · rintro ⟨h1, h2⟩ q hqN
    by_cases hq : q < n
    · rcases h1 q hq with h' | h'
      · exact Or.inl h'
      · right
        rw [qbit_lift n N q r hq hnN, qbit_lift n N q c hq hnN]; exact h'
    · exact Or.inr (h2 q (by omega) hqN)

theorem div_lt_lift (n N r : Nat) (hnN : n ≤ N) (hr : r < 2 ^ N) : r / 2 ^ (N - n) < 2 ^ n := by
  rw [Nat.div_lt_iff_lt_mul (by positivity), ← Nat.pow_add]
  have : n + (N - n) = N := by omega
  rw [this]; exact hr

theorem embed_lift_get (n N : Nat) (bits : List Nat) (M : LMat α) (r c : Nat)
    (hb : ∀ q ∈ bits, q < n) (hnN : n ≤ N) (hr : r < 2 ^ N) (hc : c < 2 ^ N) :
    LMat.get (embed N bits M) r c =
      if r % 2 ^ (N - n) = c % 2 ^ (N - n) then
        LMat.get (embed n bits M) (r / 2 ^ (N - n)) (c / 2 ^ (N - n)) else 0 := by
  rw [embed_get N bits M r c hr hc,
    embed_get n bits M _ _ (div_lt_lift n N r hnN hr) (div_lt_lift n N c hnN hc),
    subIndex_lift n N bits r hb hnN, subIndex_lift n N bits c hb hnN]
  have h := agreeOff_lift n N bits r c hb hnN hr hc
  by_cases h1 : agreeOff N bits r c = true
  · obtain ⟨h2, h3⟩ := h.1 h1
    rw [if_pos h1, if_pos h3, if_pos h2]
  · rw [if_neg h1]
    by_cases h3 : r % 2 ^ (N - n) = c % 2 ^ (N - n)
    · rw [if_pos h3]
      have h2 : ¬ agreeOff n bits (r / 2 ^ (N - n)) (c / 2 ^ (N - n)) = true :=
        fun h2 => h1 (h.2 ⟨h2, h3⟩)
      rw [if_neg h2]
    · rw [if_neg h3]

theorem mulState_embed_lift (m : Mode) (w : Nat) (hw : OkWidth m w) (n N : Nat) (hnN : n ≤ N)
    (bits : List Nat) (hb : ∀ q ∈ bits, q < n) (M : LMat α) (v : List (Row α m))
    (hlen : v.length = 2 ^ N) (hv : RowsW m w v) :
    mulState m w (embed N bits M) v = blockMul m w (embed n bits M) (2 ^ (N - n)) v := by
  have hEN := embed_wf (α := α) N bits M
  have hEn := embed_wf (α := α) n bits M
  have hpow : 2 ^ N = 2 ^ n * 2 ^ (N - n) := by
    rw [← Nat.pow_add]; congr 1; omega
  obtain ⟨T, hT⟩ : ∃ T, T = 2 ^ (N - n) := ⟨_, rfl⟩
  have hTpos : 0 < T := by rw [hT]; positivity
  rw [← hT] at hpow ⊢
  apply state_ext m w
  · rw [mulState_length, blockMul_length, hEN.1, hEn.1, hpow]
  · exact mulState_rowsW m w hw _ _
  · exact blockMul_rowsW m w hw _ _ _
  · intro r col hr hcol
    rw [mulState_length, hEN.1] at hr
    have hr' : r < 2 ^ n * T := by rw [← hpow]; exact hr
    have hi : r / T < 2 ^ n := by rw [Nat.div_lt_iff_lt_mul hTpos]; exact hr'
    have hj : r % T < T := Nat.mod_lt _ hTpos
    rw [mulState_entry m w hw _ v r col (by rw [hEN.1]; exact hr) hcol, hEN.1,
      blockMul_entry m w hw _ T v r col (by rw [hEn.1]; exact hr') hcol, hEn.1, hpow, sum_range_mul]
    apply Finset.sum_congr rfl
    intro c0 hc0
    have hc0' : c0 < 2 ^ n := Finset.mem_range.1 hc0
    rw [Finset.sum_eq_single (r % T)]
    · have hcN : c0 * T + r % T < 2 ^ N := by rw [hpow]; exact block_lt c0 _ T _ hc0' hj
      rw [embed_lift_get n N bits M r _ hb hnN hr hcN, ← hT, (div_mod_block c0 T _ hj).1,
        (div_mod_block c0 T _ hj).2, if_pos rfl]
    · intro c1 hc1 hne
      have hc1' : c1 < T := Finset.mem_range.1 hc1
      have hcN : c0 * T + c1 < 2 ^ N := by rw [hpow]; exact block_lt c0 _ T _ hc0' hc1'
      rw [embed_lift_get n N bits M r _ hb hnN hr hcN, ← hT, (div_mod_block c0 T _ hc1').2,
        if_neg (Ne.symm hne), zero_mul]
    · intro h; exact absurd (Finset.mem_range.2 hj) h

/-! ## `mulState .mat` is `LMat.mul` on square matrices -/

theorem foldl_zipWith_eq (r c : List α) (a : α) :
    (List.zipWith (· * ·) r c).foldl (· + ·) a =
      a + ∑ k ∈ Finset.range r.length, r.getD k 0 * c.getD k 0 := by
  induction r generalizing c a with
  | nil => simp
  | cons x xs ih =>
    cases c with
    | nil => simp
    | cons y ys =>
      rw [List.zipWith_cons_cons, List.foldl_cons, ih, List.length_cons, Finset.sum_range_succ']
      simp only [List.getD_cons_succ, List.getD_cons_zero]
      ring

theorem dot_eq_sum (r c : List α) :
    LMat.dot r c = ∑ k ∈ Finset.range r.length, r.getD k 0 * c.getD k 0 := by
  unfold LMat.dot
  rw [foldl_zipWith_eq, zero_add]

theorem mulState_mat_eq_mul (d : Nat) (A B : LMat α) (hA : WFMat d A) (hB : WFMat d B) :
    mulState (α := α) .mat d A B = LMat.mul A B := by
  rcases Nat.eq_zero_or_pos d with h0 | hd
  · subst h0
    have : A = [] := List.eq_nil_of_length_eq_zero hA.1
    subst this
    rfl
  · have hhead : (B.headD []).length = d := by
      cases B with
      | nil => have := hB.1; simp at this; omega
      | cons b bs => exact hB.2 b (List.mem_cons_self ..)
    unfold LMat.mul LMat.transpose mulState
    simp only [hhead]
    apply List.ext_getElem
    · simp
    · intro i h1 h2
      have hi : i < A.length := by simpa using h2
      simp only [List.getElem_map, List.getElem_range]
      show (List.range d).map _ = _
      rw [List.map_map]
      apply List.map_congr_left
      intro j _
      simp only [Function.comp]
      rw [sumTo_eq_sum, dot_eq_sum, hA.2 _ (List.getElem_mem _)]
      refine Finset.sum_congr (by rw [hA.1]) ?_
      intro c hc
      have hc' : c < B.length := by rw [hB.1]; exact Finset.mem_range.1 hc
      rw [stateEntry_mat]
      simp [LMat.get, List.getD_eq_getElem?_getD, hi, hc']

theorem mul_wf (d : Nat) (A B : LMat α) (hA : WFMat d A) (hB : WFMat d B) :
    WFMat d (LMat.mul A B) := by
  rw [← mulState_mat_eq_mul d A B hA hB]; exact mulState_mat_wf d A B hA

/-- entries of `LMat.mul` on square matrices -/
theorem get_mul (d : Nat) (A B : LMat α) (hA : WFMat d A) (hB : WFMat d B) (i j : Nat) (hi : i < d)
    (hj : j < d) :
    LMat.get (LMat.mul A B) i j = ∑ c ∈ Finset.range d, LMat.get A i c * LMat.get B c j := by
  rw [← mulState_mat_eq_mul d A B hA hB]; exact mulState_mat_get d A B hA i j hi hj

theorem mpow_wf (d : Nat) (M : LMat α) (hM : WFMat d M) (k : Nat) : WFMat d (mpow M k) := by
  induction k with
  | zero => show WFMat d (LMat.identity M.length); rw [hM.1]; exact identity_wf d
  | succ k ih => exact mul_wf d M (mpow M k) hM ih

/-- `k+1` applications of a block product are the block product with the power -/
theorem blockMul_mul (m : Mode) (w : Nat) (hw : OkWidth m w) (d : Nat) (A B : LMat α)
    (hA : WFMat d A) (hB : WFMat d B) (t : Nat) (v : List (Row α m)) (hlen : v.length = d * t)
    (hv : RowsW m w v) :
    blockMul m w A t (blockMul m w B t v) = blockMul m w (LMat.mul A B) t v := by
  rw [blockMul_blockMul m w hw d A B hA hB t v hlen hv, mulState_mat_eq_mul d A B hA hB]

end Q1t.Proofs.Route

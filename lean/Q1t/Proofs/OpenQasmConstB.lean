import Q1t.Spec.OQ2Obligation
/-! C11, constants part B: the two-qubit gates (`cx`, `cy`, `cz`, three `cx` for Swap, `ch`, `cu1(±pi/2)`);
`cv`, `cvdg` have no meaning. -/
namespace Q1t.OpenQasm
set_option maxRecDepth 100000
theorem const_two_qubit_ok :
    ["CX", "CY", "CZ", "Swap", "CS", "CSdg"].all (constOK libTable) = true := by
  decide +kernel
theorem const_ch_ok : constOK libTable "CH" = true := by decide +kernel
theorem const_cv_undefined : ["CV", "CVdg"].all (constUndefined libTable) = true := by decide +kernel
end Q1t.OpenQasm

import Q1t.Proofs.DetShapeSp
set_option linter.unusedSectionVars false
set_option linter.unusedVariables false
set_option linter.unusedSimpArgs false
/-!
# `PartG`: the row loop of `apply_gate` preserves `HasDual`

The new rows are the old rows conjugated by the exact rule of the gate; the new destabilizers are the old ones
conjugated by the same rule.  An exact conjugation (`E·P = ±P'·E`, `E·Q = ±Q'·E` with `E` norm-preserving, hence
`E·|0…0⟩ ≠ 0`) preserves the symplectic product: `sp P Q = sp P' Q'` (`sp_of_intertwines`).
-/
namespace Q1t.Proofs.DetPlan
open Q1t Q1t.LMat Q1t.Tableau Q1t.Spec Q1t.Spec.Clifford Q1t.Spec.Pauli Q1t.Proofs.Tableau Q1t.Sim Q1t.Conj
open Q1t.Proofs.ConjBridge Q1t.Proofs.ConjTerm Q1t.Gate Q1t.Proofs.TabG Q1t.Sim.Demo

section algebra
variable {α A : Type} [CommRing α] [Amp α A]

/-- a Pauli string maps the zero vector to the zero vector -/
theorem allzero_actOps (r : List P) (v : List α) (hv : ∀ x ∈ v, x = 0) : ∀ x ∈ actOps A r v, x = 0 := by
  have e : v = v.map (· * (0 : α)) := by
    apply List.ext_getElem (by simp)
    intro i h1 h2
    simp only [List.getElem_map, mul_zero]
    exact hv _ (List.getElem_mem _)
  rw [e, TabG.actOps_map_mul]
  intro x hx
  obtain ⟨y, _, rfl⟩ := List.mem_map.mp hx
  simp

/-- (anti)commutation of the actions, governed by `sp` -/
theorem sp_act (h : LawfulAmp α A) (r0 r1 : List P) (v : List α) (hl : r0.length = r1.length)
    (hv : v.length = 2 ^ r0.length) :
    actOps A r0 (actOps A r1 v) = smul A (if sp r0 r1 then 2 else 0) (actOps A r1 (actOps A r0 v)) := by
  rcases commutes_or_anticommutes r0 r1 with hc | ha
  · have hs : sp r0 r1 = false := by rw [commutes_iff] at hc; simp [sp, hc]
    rw [hs, TabG.comm_act h r0 r1 v hc hl hv]
    simp [TabG.smul_0]
  · have hs : sp r0 r1 = true := by rw [anticommutes_iff] at ha; simp [sp, ha]
    rw [hs, TabG.anticomm_act h r0 r1 v ha hl hv]
    rfl

theorem smul_shift2 (h : LawfulAmp α A) (χ : List α) (k1 k2 : Nat) (hk : (k1 + 2) % 4 = k2 % 4)
    (he : smul A k1 χ = smul A k2 χ) : smul A 2 χ = χ := by
  have e := congrArg (smul A (3 * k1)) he
  rw [TabG.smul_smul, TabG.smul_smul] at e
  rw [TabG.smul_congr_mod h (j := 3 * k1 + k1) (k := 0) (by omega), TabG.smul_0,
    TabG.smul_congr_mod h (j := 3 * k1 + k2) (k := 2) (by omega)] at e
  exact e.symm

/-- **an exact conjugation by a matrix that does not kill `ψ` preserves the symplectic product** -/
theorem sp_of_intertwines (h : LawfulAmp α A) {n : Nat} {E : LMat α} (hE : WF (2 ^ n) (2 ^ n) E)
    {P0 Q0 P1 Q1 : List P} (hP0 : P0.length = n) (hQ0 : Q0.length = n) (hP1 : P1.length = n) (hQ1 : Q1.length = n)
    {a b : Bool} (iP : Intertwines A E P0 a P1) (iQ : Intertwines A E Q0 b Q1)
    (ψ : List α) (hψ : ψ.length = 2 ^ n) (hnz : NZ (mulVec E ψ)) : sp P0 Q0 = sp P1 Q1 := by
  by_contra hne
  have hφ : (mulVec E ψ).length = 2 ^ n := by rw [mulVec_length, hE.1]
  -- E P0 Q0 ψ and E Q0 P0 ψ
  have e1 : mulVec E (actOps A P0 (actOps A Q0 ψ)) =
      smul A (if a then 2 else 0) (smul A (if b then 2 else 0) (actOps A P1 (actOps A Q1 (mulVec E ψ)))) := by
    rw [intertwines_vec h hE hP0 hP1 iP _ (by rw [TabG.actOps_length]; exact hψ),
      intertwines_vec h hE hQ0 hQ1 iQ ψ hψ, TabG.actOps_smul]
  have e2 : mulVec E (actOps A Q0 (actOps A P0 ψ)) =
      smul A (if b then 2 else 0) (smul A (if a then 2 else 0) (actOps A Q1 (actOps A P1 (mulVec E ψ)))) := by
    rw [intertwines_vec h hE hQ0 hQ1 iQ _ (by rw [TabG.actOps_length]; exact hψ),
      intertwines_vec h hE hP0 hP1 iP ψ hψ, TabG.actOps_smul]
  have c0 := sp_act h P0 Q0 ψ (hP0.trans hQ0.symm) (by rw [hP0]; exact hψ)
  have c1 := sp_act h P1 Q1 (mulVec E ψ) (hP1.trans hQ1.symm) (by rw [hP1]; exact hφ)
  rw [c0, mulVec_smul hE, e2, c1] at e1
  simp only [TabG.smul_smul] at e1
  generalize hχ : actOps A Q1 (actOps A P1 (mulVec E ψ)) = χ at e1
  have h2 : smul A 2 χ = χ := by
    refine smul_shift2 h χ _ _ ?_ e1
    revert hne
    cases sp P0 Q0 <;> cases sp P1 Q1 <;> cases a <;> cases b <;> simp
  have hz := zeros_of_smul2 h χ h2
  have hback : actOps A P1 (actOps A Q1 χ) = mulVec E ψ := by
    rw [← hχ, TabG.actOps_involutive h Q1 _ (by rw [TabG.actOps_length, hQ1]; exact hφ),
      TabG.actOps_involutive h P1 _ (by rw [hP1]; exact hφ)]
  have hz' := allzero_actOps (A := A) P1 _ (allzero_actOps (A := A) Q1 χ hz)
  rw [hback] at hz'
  obtain ⟨x, hx, hx0⟩ := hnz
  exact hx0 (hz' x hx)

end algebra

/-! ## the row loop, structurally -/

section loop
variable {α A : Type} [CommRing α] [Amp α A]

variable (A) in
/-- `r1` is an exact conjugate of `r` under `E` (both of length `n`) -/
def Rel (E : LMat α) (n : Nat) (r r1 : List P) : Prop :=
  r.length = n ∧ r1.length = n ∧ ∃ flip : Bool, Intertwines A E r flip r1

/-- the rule, applied to any string of the register length -/
theorem rel_image {n : Nat} {M : LMat α} {bits : List Nat} (hv : validBits n bits = true)
    (hM : WF (2 ^ bits.length) (2 ^ bits.length) M) {rule : List P → Conj.Result}
    (hrule : RuleExact A M bits.length rule) (d : List P) (hd : d.length = n) :
    ∃ d', Rel A (embed n bits M) n d d' := by
  have hrange : ∀ b ∈ bits, b < n := ((Q1t.Proofs.BitPerm.validBits_iff n bits).1 hv).1
  obtain ⟨L, hL, hLlen⟩ := gather_some d bits (by rw [hd]; exact hrange)
  obtain ⟨flip, L', _, hL'len, hint⟩ := hrule L hLlen
  exact ⟨scatter d bits L', hd, by rw [scatter_length, hd], flip,
    Q1t.Proofs.ConjEmbed.embed_exact (α := α) (A := A) n bits M d L L' flip hv hd hM hL hL'len hint⟩

/-- one iteration of the row loop of `apply_gate`: row `i` becomes an exact conjugate, nothing else moves -/
theorem conjRow_step_rel {n : Nat} {M : LMat α} {bits : List Nat} (hv : validBits n bits = true)
    (hM : WF (2 ^ bits.length) (2 ^ bits.length) M) {rule : List P → Conj.Result}
    (hrule : RuleExact A M bits.length rule)
    (t t3 : Tab) (i : Nat) (hi : i < n) (hsh : Shape n t) (r : List P) (hri : t.rows[i]? = some r)
    (hrlen : r.length = n)
    (hstep : (do
      let ops ← t.gatherOps i bits
      match conjOfRule rule ops with
      | .error e => Res.err e
      | .ok (flip, ops') =>
        let t ← Tab.scatterOps i bits ops' t
        let s ← t.sign i
        t.setSign i (s != flip)) = Res.ok t3) :
    Shape n t3 ∧ (∃ r1, t3.rows[i]? = some r1 ∧ Rel A (embed n bits M) n r r1) ∧
      ∀ k, k ≠ i → t3.rows[k]? = t.rows[k]? := by
  obtain ⟨hn, hrl, hsl⟩ := hsh
  simp only [bind] at hstep
  obtain ⟨L, hL, hstep⟩ := bind_ok hstep
  have hg := gatherOps_gather t i r hri bits L hL
  have hLlen := gather_length r bits L hg
  obtain ⟨flip, L', hr, hL'len, hint⟩ := hrule L hLlen
  have hc : conjOfRule rule L = .ok (flip, L') := by unfold conjOfRule; rw [hr]
  rw [hc] at hstep
  simp only [] at hstep
  obtain ⟨t2, ht2, hstep⟩ := bind_ok hstep
  have e2 := scatterOps_scatter i bits L' t t2 r hri ht2
  subst e2
  obtain ⟨s', hs', hstep⟩ := bind_ok hstep
  simp only [Tab.setSign] at hstep
  split at hstep
  case isFalse hx => cases hstep
  cases hstep
  have hemb := Q1t.Proofs.ConjEmbed.embed_exact (α := α) (A := A) n bits M r L L' flip hv hrlen hM hg hL'len hint
  have hr'len : (scatter r bits L').length = n := by rw [scatter_length, hrlen]
  refine ⟨⟨hn, by simp [hrl], by simp [hsl]⟩, ⟨scatter r bits L', ?_, hrlen, hr'len, flip, hemb⟩, ?_⟩
  · simp only [List.getElem?_set, if_true, hrl, hi]
  · intro k hk
    simp only [List.getElem?_set, Ne.symm hk, if_false]

theorem conjRows_rel {n : Nat} {M : LMat α} {bits : List Nat} (hv : validBits n bits = true)
    (hM : WF (2 ^ bits.length) (2 ^ bits.length) M) {rule : List P → Conj.Result}
    (hrule : RuleExact A M bits.length rule) :
    ∀ (is : List Nat) (t t1 : Tab), is.Nodup → (∀ i ∈ is, i < n) → Shape n t →
      (∀ k ∈ is, ∀ r, t.rows[k]? = some r → r.length = n) →
      Tab.conjRows (conjOfRule rule) bits is t = .ok t1 →
      Shape n t1 ∧ (∀ k ∈ is, ∃ r r1, t.rows[k]? = some r ∧ t1.rows[k]? = some r1 ∧ Rel A (embed n bits M) n r r1) ∧
        ∀ k, k ∉ is → t1.rows[k]? = t.rows[k]? := by
  intro is
  induction is with
  | nil =>
    intro t t1 _ _ hsh _ hok
    cases hok
    exact ⟨hsh, fun k hk => absurd hk (List.not_mem_nil), fun k _ => rfl⟩
  | cons i rest ih =>
    intro t t1 hnd hlt hsh hlen hok
    have hnd' := List.nodup_cons.mp hnd
    have hsplit : ∃ t3, (do
        let ops ← t.gatherOps i bits
        match conjOfRule rule ops with
        | .error e => Res.err e
        | .ok (flip, ops') =>
          let t ← Tab.scatterOps i bits ops' t
          let s ← t.sign i
          t.setSign i (s != flip)) = Res.ok t3 ∧ Tab.conjRows (conjOfRule rule) bits rest t3 = .ok t1 := by
      simp only [Tab.conjRows, bind] at hok ⊢
      obtain ⟨L, hL, hok⟩ := bind_ok hok
      rw [hL]
      simp only [Res.bind]
      cases hc : conjOfRule rule L with
      | error e => rw [hc] at hok; cases hok
      | ok fo =>
        obtain ⟨flip, ops'⟩ := fo
        rw [hc] at hok
        simp only [] at hok ⊢
        obtain ⟨t2, ht2, hok⟩ := bind_ok hok
        obtain ⟨s, hs, hok⟩ := bind_ok hok
        obtain ⟨t3, ht3, hok⟩ := bind_ok hok
        exact ⟨t3, by rw [ht2]; simp only [Res.bind]; rw [hs]; simp only [Res.bind]; exact ht3, hok⟩
    obtain ⟨t3, hstep, hrest⟩ := hsplit
    have hi : i < n := hlt i (List.mem_cons_self ..)
    have hil : i < t.rows.length := by rw [hsh.2.1]; exact hi
    have hri : t.rows[i]? = some t.rows[i] := List.getElem?_eq_getElem hil
    obtain ⟨hsh3, ⟨r1, hr1, hrel⟩, hothers⟩ := conjRow_step_rel hv hM hrule t t3 i hi hsh _ hri
      (hlen i (List.mem_cons_self ..) _ hri) hstep
    obtain ⟨hsh1, hdone, hkeep⟩ := ih t3 t1 hnd'.2 (fun k hk => hlt k (List.mem_cons_of_mem _ hk)) hsh3
      (fun k hk r hr => by
        have hki : k ≠ i := fun e => hnd'.1 (e ▸ hk)
        rw [hothers k hki] at hr
        exact hlen k (List.mem_cons_of_mem _ hk) r hr) hrest
    refine ⟨hsh1, ?_, ?_⟩
    · intro k hk
      rcases List.mem_cons.mp hk with rfl | hk'
      · exact ⟨_, r1, hri, by rw [hkeep k hnd'.1]; exact hr1, hrel⟩
      · obtain ⟨r, r', h1, h2, h3⟩ := hdone k hk'
        have hki : k ≠ i := fun e => hnd'.1 (e ▸ hk')
        exact ⟨r, r', by rw [← hothers k hki]; exact h1, h2, h3⟩
    · intro k hk
      have hki : k ≠ i := fun e => hk (e ▸ List.mem_cons_self ..)
      rw [hkeep k (fun hm => hk (List.mem_cons_of_mem _ hm)), hothers k hki]

/-- a list of images under a total relation -/
theorem exists_list_rel {β γ : Type} (R : β → γ → Prop) : ∀ (l : List β), (∀ a ∈ l, ∃ b, R a b) →
    ∃ l' : List γ, l'.length = l.length ∧ ∀ (k : Nat) a, l[k]? = some a → ∃ b, l'[k]? = some b ∧ R a b := by
  intro l
  induction l with
  | nil => intro _; exact ⟨[], rfl, fun k a h => by simp at h⟩
  | cons x xs ih =>
    intro h
    obtain ⟨y, hy⟩ := h x (List.mem_cons_self ..)
    obtain ⟨ys, hlen, hys⟩ := ih (fun a ha => h a (List.mem_cons_of_mem _ ha))
    refine ⟨y :: ys, by simp [hlen], ?_⟩
    intro k a hk
    cases k with
    | zero => simp at hk; subst hk; exact ⟨y, by simp, hy⟩
    | succ k => simp at hk; obtain ⟨b, hb, hR⟩ := hys k a hk; exact ⟨b, by simpa using hb, hR⟩

end loop

/-! ## `PartG` -/

/-- **the row loop of `apply_gate` preserves `HasDual`** (generated tables, ℚ(ζ₈), every `n`) -/
theorem partG (n : Nat) : PartG n := by
  intro g bits t t1 hvalid hwf hn hdual hok
  have ha := Q8.lawful
  have hs := lawfulSimQ8
  have hp := Q1t.Proofs.ConjQ8.prims_exact_Q8
  obtain ⟨hw, hstab, hvb, hlen⟩ := hvalid
  have te := term_exact tblG ncG hp Q1t.Proofs.ConjEmbed.embed_exact g hw hstab
  have hM : WF (2 ^ bits.length) (2 ^ bits.length) (specMatrix g : LMat Q8) := by rw [hlen]; exact te.wf
  have hrule : RuleExact Empty (specMatrix g : LMat Q8) bits.length (conjugateT tblG ncG g) := by
    rw [hlen]; exact te.rule
  have hU : IsUnitary Empty n (embed n bits (specMatrix g : LMat Q8)) :=
    Q1t.Proofs.ConjEmbed.embed_unitary ha n bits hvb _ (by
      rw [hlen]; exact Q1t.Proofs.ConjUnitary.isUnitary_iff_unitary.2 (Q1t.Proofs.ConjUnitary.spec_unitary ha g hw))
  have hiso := unitary_normSqSum ha hs (Nat.two_pow_pos n) (Q1t.Proofs.ConjUnitary.isUnitary_iff_unitary.1 hU)
    (ket0 n : List Q8) (by simp [ket0])
  have hE : WF (2 ^ n) (2 ^ n) (embed n bits (specMatrix g : LMat Q8)) := Q1t.Proofs.Route.embed_wf _ _ _
  have hnz : NZ (mulVec (embed n bits (specMatrix g : LMat Q8)) (ket0 n : List Q8)) :=
    nz_of_weight hs q8_one_ne_zero _ ⟨1, by rw [hiso, normSqSum_ket0' ha hs, one_mul]⟩
  obtain ⟨w1, w2, w3⟩ := hwf
  subst hn
  obtain ⟨hsh1, hdone, _⟩ := conjRows_rel (A := Empty) hvb hM hrule (List.range t.n) t t1 List.nodup_range
    (fun i hi => List.mem_range.mp hi) ⟨rfl, w1, w2⟩ (fun k _ r hr => w3 r (List.mem_of_getElem? hr)) hok
  obtain ⟨ds, hdl, hdlen, hdsp⟩ := hdual
  obtain ⟨ds', hl', hds'⟩ := exists_list_rel (Rel Empty (embed t.n bits (specMatrix g : LMat Q8)) t.n) ds
    (fun d hd => rel_image hvb hM hrule d (hdlen d hd))
  refine ⟨ds', by rw [hl', hdl, hsh1.1], ?_, ?_⟩
  · intro d' hd'
    obtain ⟨k, hk, rfl⟩ := List.getElem_of_mem hd'
    have hk' : k < ds.length := by rw [← hl']; exact hk
    obtain ⟨b, hb, hR⟩ := hds' k _ (List.getElem?_eq_getElem hk')
    rw [List.getElem?_eq_getElem hk] at hb
    cases hb
    rw [hsh1.1]; exact hR.2.1
  · intro i k r1 d' hr1 hd'
    have hi : i < t.n := by
      have := (List.getElem?_eq_some_iff.mp hr1).1
      rw [hsh1.2.1] at this; exact this
    obtain ⟨r, r1', h1, h2, hrel⟩ := hdone i (List.mem_range.mpr hi)
    rw [hr1] at h2; cases h2
    have hk : k < ds'.length := (List.getElem?_eq_some_iff.mp hd').1
    have hk' : k < ds.length := by rw [← hl']; exact hk
    obtain ⟨b, hb, hR⟩ := hds' k _ (List.getElem?_eq_getElem hk')
    rw [hd'] at hb; cases hb
    obtain ⟨l1, l2, f1, i1⟩ := hrel
    obtain ⟨l3, l4, f2, i2⟩ := hR
    rw [← sp_of_intertwines ha hE l1 l3 l2 l4 i1 i2 (ket0 t.n : List Q8) (by simp [ket0]) hnz]
    exact hdsp i k r _ h1 (List.getElem?_eq_getElem hk')

end Q1t.Proofs.DetPlan

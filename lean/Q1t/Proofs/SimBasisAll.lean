import Q1t.Proofs.SimEmbed1
import Q1t.Proofs.SimMeasAll
/-!
C02: `measure_all` / `peek_all` in the X and Y bases.  The simulator changes the basis of ALL qubits
(`apply_unary_gate_all`: `H`, resp. `S†` then `H`), samples/collapses in the Z basis and changes back; the
reference semantics measures qubit after qubit, each in its own basis (`Spec.measureAllTo`).  The two agree
because one-qubit operators on different qubits commute with each other and with the projectors of other qubits
(`SimEmbed1.lean`; facts about `Spec.embed` only).
-/
set_option linter.unusedSectionVars false
namespace Q1t.Sim
open Q1t Q1t.Spec Prog

section abstract
variable {V : Type}

theorem foldl_comm_one (F : Nat → V → V) (G : V → V) : ∀ m : Nat,
    (∀ q, q < m → ∀ v, G (F q v) = F q (G v)) →
    ∀ v, G ((List.range m).foldl (fun v q => F q v) v) = (List.range m).foldl (fun v q => F q v) (G v) := by
  intro m
  induction m with
  | zero => intro _ v; rfl
  | succ m ih =>
    intro h v
    rw [List.range_succ, List.foldl_append, List.foldl_append]
    simp only [List.foldl_cons, List.foldl_nil]
    rw [h m (Nat.lt_succ_self m), ih fun q hq => h q (Nat.lt_succ_of_lt hq)]

/-- a fold of composites of operators that commute across different sites is the composite of the folds -/
theorem foldl_comp (F G : Nat → V → V) : ∀ m : Nat,
    (∀ q q', q < m → q' < m → q ≠ q' → ∀ v, F q (G q' v) = G q' (F q v)) →
    ∀ v, (List.range m).foldl (fun v q => F q (G q v)) v =
      (List.range m).foldl (fun v q => F q v) ((List.range m).foldl (fun v q => G q v) v) := by
  intro m
  induction m with
  | zero => intro _ v; rfl
  | succ m ih =>
    intro h v
    rw [List.range_succ, List.foldl_append, List.foldl_append, List.foldl_append]
    simp only [List.foldl_cons, List.foldl_nil]
    rw [ih fun q q' hq hq' hne => h q q' (Nat.lt_succ_of_lt hq) (Nat.lt_succ_of_lt hq') hne]
    congr 1
    exact foldl_comm_one F (G m) m
      (fun q hq v => (h q m (Nat.lt_succ_of_lt hq) (Nat.lt_succ_self m) (Nat.ne_of_lt hq) v).symm) _

theorem foldl_id_on (Good : V → Prop) (F : Nat → V → V) : ∀ m : Nat,
    (∀ q, q < m → ∀ v, Good v → F q v = v) → ∀ v, Good v → (List.range m).foldl (fun v q => F q v) v = v := by
  intro m
  induction m with
  | zero => intro _ v _; rfl
  | succ m ih =>
    intro h v hv
    rw [List.range_succ, List.foldl_append]
    simp only [List.foldl_cons, List.foldl_nil]
    rw [ih (fun q hq => h q (Nat.lt_succ_of_lt hq)) v hv, h m (Nat.lt_succ_self m) v hv]

end abstract

section
variable {α P : Type} [CommRing α] [Amp α P] [SimAmp α]
variable {n : Nat} {valid : GateTerm P → List Nat → Prop} {nz : α → Prop}

/-- the gate `g` on every qubit in turn (per shot: what `apply_unary_gate_all` does) -/
def unaryAll (n : Nat) (g : GateTerm P) (v : List α) : List α :=
  (List.range n).foldl (fun v q => gateOn n g [q] v) v

theorem gateOn_single (g : GateTerm P) {q : Nat} (hq : q < n) (v : List α) :
    gateOn n g [q] v = app1 (specMatrix g) n q v := mulVec_embed_single _ hq v

theorem gateOn_comm (g g' : GateTerm P) {q q' : Nat} (hq : q < n) (hq' : q' < n) (hne : q ≠ q') (v : List α) :
    gateOn n g [q] (gateOn n g' [q'] v) = gateOn n g' [q'] (gateOn n g [q] v) := by
  rw [gateOn_single g hq, gateOn_single g' hq', gateOn_single g hq, gateOn_single g' hq', app1_comm _ _ hq hq' hne]

theorem gateOn_project (g : GateTerm P) {q q' : Nat} (hq : q < n) (hq' : q' < n) (hne : q ≠ q') (o : Bool)
    (v : List α) : gateOn n g [q] (project n q' o v) = project n q' o (gateOn n g [q] v) := by
  rw [gateOn_single g hq, gateOn_single g hq, app1_project _ hq hq' hne]

theorem unaryAll_length (g : GateTerm P) (v : List α) (hv : v.length = 2 ^ n) : (unaryAll n g v).length = 2 ^ n := by
  unfold unaryAll
  exact foldl_inv (fun w : List α => w.length = 2 ^ n) _ _ _ hv (fun _ _ _ => gateOn_length _ _ _ _)

theorem foldl_gate_rel (hsem : GateSemOK α n valid) (g : GateTerm P) : ∀ (l : List Nat), (∀ q ∈ l, valid g [q]) →
    ∀ {col ψ : List α}, Rel n col ψ →
    Rel n (l.foldl (fun v q => gateOn n g [q] v) col) (l.foldl (fun v q => gateOn n g [q] v) ψ) := by
  intro l
  induction l with
  | nil => intro _ col ψ h; exact h
  | cons q l ih =>
    intro hv col ψ h
    exact ih (fun q' hq' => hv q' (List.mem_cons_of_mem _ hq')) (h.gate hsem (hv q List.mem_cons_self))

theorem Rel.unaryAll (hsem : GateSemOK α n valid) {g : GateTerm P} (hv : ∀ q, q < n → valid g [q])
    {col ψ : List α} (h : Rel n col ψ) : Rel n (unaryAll n g col) (unaryAll n g ψ) :=
  foldl_gate_rel hsem g _ (fun q hq => hv q (List.mem_range.mp hq)) h

/-- `H` on all qubits twice, and `S†` then `S` on all qubits, are the identity -/
theorem unaryAll_hh (hsem : GateSemOK α n valid) (v : List α) (hv : v.length = 2 ^ n) :
    unaryAll (P := P) n .H (unaryAll (P := P) n .H v) = v := by
  unfold unaryAll
  rw [← foldl_comp (fun q v => gateOn (P := P) n .H [q] v) (fun q v => gateOn (P := P) n .H [q] v) n
    (fun q q' hq hq' hne v => gateOn_comm _ _ hq hq' hne v)]
  exact foldl_id_on (fun w : List α => w.length = 2 ^ n) _ n (fun q hq w hw => hsem.hh q hq w hw) v hv

theorem unaryAll_ssdg (hsem : GateSemOK α n valid) (v : List α) (hv : v.length = 2 ^ n) :
    unaryAll (P := P) n .S (unaryAll (P := P) n .Sdg v) = v := by
  unfold unaryAll
  rw [← foldl_comp (fun q v => gateOn (P := P) n .S [q] v) (fun q v => gateOn (P := P) n .Sdg [q] v) n
    (fun q q' hq hq' hne v => gateOn_comm _ _ hq hq' hne v)]
  exact foldl_id_on (fun w : List α => w.length = 2 ^ n) _ n (fun q hq w hw => hsem.ssdg q hq w hw) v hv

/-- basis change of all qubits before / after the Z-basis measurement -/
def preAll (n : Nat) (b : Basis) (v : List α) : List α :=
  match b with
  | .Z => v
  | .X => unaryAll (P := P) n .H v
  | .Y => unaryAll (P := P) n .H (unaryAll (P := P) n .Sdg v)

def postAll (n : Nat) (b : Basis) (v : List α) : List α :=
  match b with
  | .Z => v
  | .X => unaryAll (P := P) n .H v
  | .Y => unaryAll (P := P) n .S (unaryAll (P := P) n .H v)

/-- **qubit-by-qubit measurement in the basis `b` = change all, project all, change all back** -/
theorem measureAllTo_basis (b : Basis) (outs : Nat → Bool) (ψ : List α) :
    measureAllTo (P := P) n b outs ψ = postAll (P := P) n b (measureAllTo (P := P) n .Z outs (preAll (P := P) n b ψ)) := by
  cases b with
  | Z => rfl
  | X =>
    show (List.range n).foldl (fun φ q => gateOn (P := P) n .H [q] (project n q (outs q) (gateOn (P := P) n .H [q] φ))) ψ = _
    rw [foldl_comp (fun q v => gateOn (P := P) n .H [q] v) (fun q v => project n q (outs q) (gateOn (P := P) n .H [q] v)) n
      (fun q q' hq hq' hne v => by
        rw [gateOn_project _ hq hq' hne, gateOn_comm _ _ hq hq' hne])]
    rw [foldl_comp (fun q v => project n q (outs q) v) (fun q v => gateOn (P := P) n .H [q] v) n
      (fun q q' hq hq' hne v => (gateOn_project _ hq' hq (Ne.symm hne) _ v).symm)]
    rfl
  | Y =>
    show (List.range n).foldl (fun φ q => gateOn (P := P) n .S [q] (gateOn (P := P) n .H [q]
      (project n q (outs q) (gateOn (P := P) n .H [q] (gateOn (P := P) n .Sdg [q] φ))))) ψ = _
    rw [foldl_comp (fun q v => gateOn (P := P) n .S [q] (gateOn (P := P) n .H [q] v))
      (fun q v => project n q (outs q) (gateOn (P := P) n .H [q] (gateOn (P := P) n .Sdg [q] v))) n
      (fun q q' hq hq' hne v => by
        rw [gateOn_project _ hq hq' hne, gateOn_comm .H .H hq hq' hne, gateOn_comm .H .Sdg hq hq' hne,
          gateOn_project _ hq hq' hne, gateOn_comm .S .H hq hq' hne, gateOn_comm .S .Sdg hq hq' hne])]
    rw [foldl_comp (fun q v => gateOn (P := P) n .S [q] v) (fun q v => gateOn (P := P) n .H [q] v) n
      (fun q q' hq hq' hne v => gateOn_comm _ _ hq hq' hne v)]
    rw [foldl_comp (fun q v => project n q (outs q) v)
      (fun q v => gateOn (P := P) n .H [q] (gateOn (P := P) n .Sdg [q] v)) n
      (fun q q' hq hq' hne v => by
        rw [← gateOn_project _ hq' hq (Ne.symm hne), ← gateOn_project _ hq' hq (Ne.symm hne)])]
    rw [foldl_comp (fun q v => gateOn (P := P) n .H [q] v) (fun q v => gateOn (P := P) n .Sdg [q] v) n
      (fun q q' hq hq' hne v => gateOn_comm _ _ hq hq' hne v)]
    rfl

/-! ### the model side: `apply_unary_gate_all`, per shot -/

variable {sc : List α → Nat → Prop} {sb : Nat → α → Nat → Prop}

theorem foldl_applyGate_shots (hsem : GateSemOK α n valid) {N : Nat} (g : GateTerm P) : ∀ (bitsL : List Nat),
    (∀ bit ∈ bitsL, valid g [bit]) →
    ∀ (acc : Prog α (VecState α)) (ds ds' : List Draw) (s' : VecState α),
    Runs sb sc (bitsL.foldl (fun acc bit => acc.bind fun st => VecState.applyGate st g [bit]) acc) ds (.ok s') ds' →
    ∃ s0, Runs sb sc acc ds (.ok s0) ds' ∧ (Shape n N s0 → Shape n N s' ∧
      ∀ i : Nat, (shotStates s')[i]? = ((shotStates s0)[i]?).map fun v => bitsL.foldl (fun v q => gateOn n g [q] v) v) := by
  intro bitsL
  induction bitsL with
  | nil =>
    intro _ acc ds ds' s' h
    exact ⟨s', h, fun hi => ⟨hi, fun i => by cases (shotStates s')[i]? <;> rfl⟩⟩
  | cons bit rest ih =>
    intro hv acc ds ds' s' h
    simp only [List.foldl_cons] at h
    obtain ⟨s1, h1, himp⟩ := ih (fun b hb => hv b (List.mem_cons_of_mem _ hb)) _ _ _ _ h
    obtain ⟨s0, d0, h0, hg⟩ := runs_bind_ok _ _ h1
    obtain ⟨hd, _⟩ := applyGate_runs hg
    subst hd
    refine ⟨s0, h0, fun hi => ?_⟩
    obtain ⟨i1, ss1⟩ := gate_step hsem (hv bit List.mem_cons_self) hi hg
    obtain ⟨i2, ss2⟩ := himp i1
    refine ⟨i2, fun i => ?_⟩
    rw [ss2, ss1]
    cases (shotStates s0)[i]? <;> rfl

theorem applyUnaryAll_shots (hsem : GateSemOK α n valid) {N : Nat} {g : GateTerm P}
    (hv : ∀ q, q < n → valid g [q]) {s s' : VecState α} (hi : Shape n N s) {ds ds' : List Draw}
    (h : Runs sb sc (VecState.applyUnaryAll s g) ds (.ok s') ds') :
    Shape n N s' ∧ ∀ i : Nat, (shotStates s')[i]? = ((shotStates s)[i]?).map (unaryAll n g) := by
  unfold VecState.applyUnaryAll at h
  obtain ⟨s0, h0, himp⟩ := foldl_applyGate_shots (N := N) hsem g (List.range s.nrBits)
    (fun bit hbit => hv bit (hi.2.1 ▸ List.mem_range.mp hbit)) _ _ _ _ h
  obtain ⟨h1, _⟩ := runs_pure_iff.mp h0
  simp only [Except.ok.injEq] at h1
  subst h1
  obtain ⟨i1, ss⟩ := himp hi
  refine ⟨i1, fun i => ?_⟩
  rw [ss, hi.2.1]
  rfl

/-- the runs of the basis changes around the body of a `measure_all` / `peek_all`, per shot -/
theorem withBasisAll_shots (hsem : GateSemOK α n valid) {N : Nat} {s : VecState α} {b : Basis}
    {body : VecState α → Prog α (VecState α × List Nat)} (hi : Shape n N s)
    {ds ds' : List Draw} {s' : VecState α} {r : List Nat}
    (h : Runs sb sc (withBasisAll (vecBackend (α := α) (P := P)) s b body) ds (.ok (s', r)) ds') :
    ∃ s1 d1 s2 d2, Shape n N s1 ∧ (∀ i : Nat, (shotStates s1)[i]? = ((shotStates s)[i]?).map (preAll (P := P) n b)) ∧
      Runs sb sc (body s1) d1 (.ok (s2, r)) d2 ∧
      (Shape n N s2 → Shape n N s' ∧ ∀ i : Nat, (shotStates s')[i]? = ((shotStates s2)[i]?).map (postAll (P := P) n b)) := by
  have hb := withBasisAll_runs _ h
  have hH : ∀ q, q < n → valid (.H : GateTerm P) [q] := fun q hq => (hsem.basis q hq).1
  have hS : ∀ q, q < n → valid (.S : GateTerm P) [q] := fun q hq => (hsem.basis q hq).2.1
  have hSd : ∀ q, q < n → valid (.Sdg : GateTerm P) [q] := fun q hq => (hsem.basis q hq).2.2.1
  cases b with
  | Z =>
    exact ⟨s, ds, s', ds', hi, fun i => by cases (shotStates s)[i]? <;> rfl, hb,
      fun h2 => ⟨h2, fun i => by cases (shotStates s')[i]? <;> rfl⟩⟩
  | X =>
    obtain ⟨s1, d1, s2, d2, h1, h2, h3⟩ := hb
    simp only [vecBackend] at h1 h3
    obtain ⟨i1, ss1⟩ := applyUnaryAll_shots hsem hH hi h1
    exact ⟨s1, d1, s2, d2, i1, ss1, h2, fun i2 => applyUnaryAll_shots hsem hH i2 h3⟩
  | Y =>
    obtain ⟨sa, da, s1, d1, s2, d2, sz, dz, ha', h1, h2, h3, h4⟩ := hb
    simp only [vecBackend] at ha' h1 h3 h4
    obtain ⟨ia, ssa⟩ := applyUnaryAll_shots hsem hSd hi ha'
    obtain ⟨i1, ss1⟩ := applyUnaryAll_shots hsem hH ia h1
    refine ⟨s1, d1, s2, d2, i1, fun i => ?_, h2, fun i2 => ?_⟩
    · rw [ss1, ssa]; cases (shotStates s)[i]? <;> rfl
    · obtain ⟨iz, ss3⟩ := applyUnaryAll_shots hsem hH i2 h3
      obtain ⟨i4, ss4⟩ := applyUnaryAll_shots hsem hS iz h4
      refine ⟨i4, fun i => ?_⟩
      rw [ss4, ss3]; cases (shotStates s2)[i]? <;> rfl

theorem Rel.preAll (hsem : GateSemOK α n valid) (b : Basis) {col ψ : List α} (h : Rel n col ψ) :
    Rel n (preAll (P := P) n b col) (preAll (P := P) n b ψ) := by
  cases b with
  | Z => exact h
  | X => exact h.unaryAll hsem fun q hq => (hsem.basis q hq).1
  | Y => exact (h.unaryAll hsem fun q hq => (hsem.basis q hq).2.2.1).unaryAll hsem fun q hq => (hsem.basis q hq).1

theorem Rel.postAll (hsem : GateSemOK α n valid) (b : Basis) {col ψ : List α} (h : Rel n col ψ) :
    Rel n (postAll (P := P) n b col) (postAll (P := P) n b ψ) := by
  cases b with
  | Z => exact h
  | X => exact h.unaryAll hsem fun q hq => (hsem.basis q hq).1
  | Y => exact (h.unaryAll hsem fun q hq => (hsem.basis q hq).1).unaryAll hsem fun q hq => (hsem.basis q hq).2.1

theorem postAll_preAll (hsem : GateSemOK α n valid) (b : Basis) (v : List α) (hv : v.length = 2 ^ n) :
    postAll (P := P) n b (preAll (P := P) n b v) = v := by
  cases b with
  | Z => rfl
  | X => exact unaryAll_hh hsem v hv
  | Y =>
    show unaryAll (P := P) n .S (unaryAll (P := P) n .H (unaryAll (P := P) n .H (unaryAll (P := P) n .Sdg v))) = v
    rw [unaryAll_hh hsem _ (unaryAll_length _ _ hv), unaryAll_ssdg hsem v hv]

/-! ### `measure_all` / `peek_all`, all bases -/

theorem refine_measureAll (ha : LawfulAmp α P) (hs : LawfulSim α P nz) (hsem : GateSemOK α n valid)
    {nonzero : List α → Bool} {N : Nat}
    {s : VecState α} {c cbits : List Nat} {b : Basis} (hnd : cbits.Nodup) (hwf : WFState n N s c)
    {ds ds' : List Draw} {s' : VecState α} {c' : List Nat}
    (h : Runs sb (suppCat nz) (execOp (vecBackend (α := α) (P := P)) s c (.measureAll cbits b)) ds (.ok (s', c')) ds') :
    StepRefines n nonzero (.measureAll cbits b : COp P) s c s' c' := by
  intro i col w ψ hcol hw hwb hrel
  simp only [execOp] at h
  obtain ⟨s1, d1, s2, d2, i1, ss1, hbody, hpost⟩ := withBasisAll_shots hsem ⟨hwf.wfs, hwf.nrBits, hwf.nrShots⟩ h
  simp only [vecBackend] at hbody
  obtain ⟨hlen, hcb, i2, _, _, hshot⟩ := measureAll_core ha hs i1 hwf.reg hbody
  obtain ⟨_, ss3⟩ := hpost i2
  obtain ⟨idx, hidx, hreg, hst, hrel'⟩ := hshot i _ w _ (by rw [ss1, hcol]; rfl) hw (hrel.preAll hsem b)
  refine ⟨_, _, _, by rw [ss3, hst rfl]; rfl, hreg, writeAll_lt n cbits hcb w idx,
    mem_replayOp_measureAll nonzero cbits b ψ w idx hcb hlen hwb, ?_⟩
  rw [measureAllTo_basis, measureAllTo_Z idx hidx _ (outs_writeAll cbits hcb hnd hlen w idx) _ (hrel.preAll hsem b).1]
  exact hrel'.postAll hsem b

theorem refine_peekAll (ha : LawfulAmp α P) (hs : LawfulSim α P nz) (hsem : GateSemOK α n valid)
    {nonzero : List α → Bool} (hnzb : NonzeroOK nonzero) {N : Nat}
    {s : VecState α} {c cbits : List Nat} {b : Basis} (hnd : cbits.Nodup) (hwf : WFState n N s c)
    {ds ds' : List Draw} {s' : VecState α} {c' : List Nat}
    (h : Runs sb (suppCat nz) (execOp (vecBackend (α := α) (P := P)) s c (.peekAll cbits b)) ds (.ok (s', c')) ds') :
    StepRefines n nonzero (.peekAll cbits b : COp P) s c s' c' := by
  intro i col w ψ hcol hw hwb hrel
  simp only [execOp] at h
  obtain ⟨s1, d1, s2, d2, i1, ss1, hbody, hpost⟩ := withBasisAll_shots hsem ⟨hwf.wfs, hwf.nrBits, hwf.nrShots⟩ h
  simp only [vecBackend] at hbody
  obtain ⟨hlen, hcb, i2, _, hsame, hshot⟩ := measureAll_core ha hs i1 hwf.reg hbody
  obtain ⟨_, ss3⟩ := hpost i2
  obtain ⟨idx, hidx, hreg, _, hrel'⟩ := hshot i _ w _ (by rw [ss1, hcol]; rfl) hw (hrel.preAll hsem b)
  refine ⟨col, _, ψ, ?_, hreg, writeAll_lt n cbits hcb w idx,
    mem_replayOp_peekAll nonzero cbits b ψ w idx hcb hlen hwb ?_, hrel⟩
  · rw [ss3, hsame rfl, ss1, hcol]
    simp only [Option.map_some]
    rw [postAll_preAll hsem b col hrel.length]
  · rw [measureAllTo_basis, measureAllTo_Z idx hidx _ (outs_writeAll cbits hcb hnd hlen w idx) _ (hrel.preAll hsem b).1]
    exact (hrel'.postAll hsem b).nonzero ha hs hnzb

end
end Q1t.Sim

import Q1t.Proofs.LatexOnce
/-!
C13 — provenance is monotone for EVERY circuit (no restriction on the operations): every write goes
to the last column with the current operation index, columns are only appended and the index only
grows. Hence, whatever is drawn (also by operations outside the proved class, also after overwrites),
the operation index of the symbols never decreases from left to right.

The part from `pk_bind` on is the composition skeleton of `LatexShape.lean` (same case analysis of
every emitter / gate / operation) with `PKeeps` in place of `Keeps`.
-/
namespace Q1t.Proofs.Latex
open Q1t.Latex Q1t.Spec.QcGrid

/-- Every cell of `later` was drawn by an operation not before any cell of `earlier`. -/
def ColLe (later earlier : Column) : Prop :=
  ∀ (r r' : Nat) (x y : Cell), later[r]? = some (some x) → earlier[r']? = some (some y) → y.prov ≤ x.prov

structure PM (s : St) : Prop where
  below : ∀ col ∈ s.rcols, ∀ (r : Nat) (x : Cell), col[r]? = some (some x) → x.prov ≤ s.cur
  sorted : s.rcols.Pairwise ColLe

structure PKeeps (s s' : St) : Prop where
  cur : s.cur ≤ s'.cur
  pm : PM s → PM s'

theorem PKeeps.refl (s : St) : PKeeps s s := ⟨Nat.le_refl _, id⟩

theorem PKeeps.trans {a b c : St} (h1 : PKeeps a b) (h2 : PKeeps b c) : PKeeps a c :=
  ⟨Nat.le_trans h1.cur h2.cur, fun h => h2.pm (h1.pm h)⟩

theorem pk_of_rcols {s s' : St} (hr : s'.rcols = s.rcols) (hcur : s.cur ≤ s'.cur) : PKeeps s s' :=
  ⟨hcur, fun h => ⟨by rw [hr]; intro col hc r x hx; exact Nat.le_trans (h.below col hc r x hx) hcur,
    by rw [hr]; exact h.sorted⟩⟩

/-- Same argument list as `keeps_of_fields` (the register and `in_use` do not matter here). -/
theorem pk_of_fields {s s' : St} (_hq : s'.nq = s.nq) (_hc : s'.nc = s.nc) (hr : s'.rcols = s.rcols)
    (_hi : s'.inUse = s.inUse) (hcur : s.cur ≤ s'.cur := by first | exact Nat.le_refl _ | exact Nat.le_succ _) :
    PKeeps s s' := pk_of_rcols hr hcur

theorem pk_addColumn (s : St) : PKeeps s (addColumn s) := by
  refine ⟨Nat.le_refl _, fun h => ⟨?_, ?_⟩⟩
  · intro col hc r x hx
    simp only [addColumn, List.mem_cons] at hc
    rcases hc with rfl | hc
    · exact absurd hx (replicate_none_get _ _ _)
    · exact h.below col hc r x hx
  · show List.Pairwise ColLe (List.replicate s.total none :: s.rcols)
    rw [List.pairwise_cons]
    refine ⟨?_, h.sorted⟩
    intro c _ r r' x y hx _
    exact absurd hx (replicate_none_get _ _ _)

theorem pk_reserve {q c s s'} (h : reserve q c s = .ok s') : PKeeps s s' := by
  unfold reserve at h
  obtain ⟨_, _, h⟩ := Res.bind_eq_ok.mp h
  obtain ⟨used, _, h⟩ := Res.bind_eq_ok.mp h
  injection h with h; subst h
  split
  · exact pk_addColumn s
  · exact PKeeps.refl s

theorem pk_reserveAll (s : St) : PKeeps s (reserveAll s) := by
  unfold reserveAll; split
  · exact pk_addColumn s
  · exact PKeeps.refl s

theorem pk_startRangeOp {q c s s'} (h : startRangeOp q c s = .ok s') : PKeeps s s' := by
  unfold startRangeOp at h
  obtain ⟨bits, _, h⟩ := Res.bind_eq_ok.mp h
  split at h
  · injection h with h; subst h; exact PKeeps.refl s
  · dsimp only at h
    split at h
    · split at h
      · injection h with h; subst h
        split
        · exact (pk_addColumn s).trans (pk_of_rcols rfl (Nat.le_refl _))
        · exact pk_of_rcols rfl (Nat.le_refl _)
      · cases h
    · split at h
      · injection h with h; subst h; exact pk_of_rcols rfl (Nat.le_refl _)
      · cases h

theorem pk_endRangeOp {s s'} (h : endRangeOp s = .ok s') : PKeeps s s' := by
  unfold endRangeOp at h
  split at h
  · injection h with h; subst h; exact PKeeps.refl s
  · split at h
    · injection h with h; subst h
      exact pk_of_rcols rfl (Nat.le_refl _)
    · cases h

theorem set_cell_iff (col : Column) (b : Nat) (c : Cell) (r : Nat) (x : Cell)
    (h : (col.set b (some c))[r]? = some (some x)) : (r = b ∧ x = c) ∨ col[r]? = some (some x) := by
  rw [List.getElem?_set] at h
  split at h
  · rename_i hb
    split at h
    · injection h with h; injection h with h
      exact Or.inl ⟨hb.symm, h.symm⟩
    · cases h
  · exact Or.inr h

theorem pk_setField {b y s s'} (h : setField b y s = .ok s') : PKeeps s s' := by
  unfold setField at h
  obtain ⟨s1, h1, h⟩ := Res.bind_eq_ok.mp h
  have k1 : PKeeps s s1 := by
    split at h1
    · exact pk_reserve h1
    · injection h1 with h1; subst h1; exact PKeeps.refl s
  refine k1.trans ?_
  split at h
  · cases h
  · rename_i col rest hr
    split at h
    · injection h with h; subst h
      refine ⟨Nat.le_refl _, fun hp => ⟨?_, ?_⟩⟩
      · intro c hc r x hx
        simp only [List.mem_cons] at hc
        rcases hc with rfl | hc
        · rcases set_cell_iff col b _ r x hx with ⟨_, rfl⟩ | hx
          · exact Nat.le_refl _
          · exact hp.below col (by rw [hr]; simp) r x hx
        · exact hp.below c (by rw [hr]; simp [hc]) r x hx
      · have hs := hp.sorted
        rw [hr, List.pairwise_cons] at hs
        show List.Pairwise ColLe (col.set b (some ⟨y, s1.cur⟩) :: rest)
        rw [List.pairwise_cons]
        refine ⟨?_, hs.2⟩
        intro c hc r r' x z hx hz
        rcases set_cell_iff col b _ r x hx with ⟨_, rfl⟩ | hx
        · exact hp.below c (by rw [hr]; simp [hc]) r' z hz
        · exact hs.1 c hc r r' x z hx hz
    · cases h

/-- Sequencing. -/
theorem pk_bind {f : St → Res St} {g : St → Res St} {s s' : St}
    (hf : ∀ a b, f a = .ok b → PKeeps a b) (hg : ∀ a b, g a = .ok b → PKeeps a b)
    (h : (f s >>== g) = .ok s') : PKeeps s s' := by
  obtain ⟨m, h1, h2⟩ := Res.bind_eq_ok.mp h
  exact (hf _ _ h1).trans (hg _ _ h2)

theorem pk_setMeasurement {q c b s s'} (h : setMeasurement q c b s = .ok s') : PKeeps s s' := by
  unfold setMeasurement at h
  obtain ⟨s1, h1, h⟩ := Res.bind_eq_ok.mp h
  obtain ⟨s2, h2, h⟩ := Res.bind_eq_ok.mp h
  obtain ⟨s3, h3, h⟩ := Res.bind_eq_ok.mp h
  have e1 := (pk_startRangeOp h1)
  have e2 := pk_setField h2
  have e3 := pk_setField h3
  exact ((e1.trans e2).trans e3).trans (pk_endRangeOp h)

theorem pk_condLoop {t : Nat} {bp : List (Nat × Nat)} {p : Nat} {s s' : St}
    (h : condLoop t bp p s = .ok s') : PKeeps s s' := by
  induction bp generalizing p s with
  | nil => simp [condLoop] at h; subst h; exact PKeeps.refl s
  | cons x rest ih =>
    obtain ⟨bit, pos⟩ := x
    simp only [condLoop] at h
    split at h
    · cases h
    · obtain ⟨s1, h1, h⟩ := Res.bind_eq_ok.mp h
      exact (pk_setField h1).trans (ih h)

theorem pk_setCondition {ctl t q s s'} (h : setCondition ctl t q s = .ok s') : PKeeps s s' := by
  unfold setCondition at h
  split at h
  · cases h
  · split at h
    · cases h
    · split at h
      · injection h with h; subst h; exact PKeeps.refl s
      · exact pk_condLoop h

theorem pk_ghosts {d : String} {n b : Nat} {s s' : St} (h : ghosts d b n s = .ok s') : PKeeps s s' := by
  induction n generalizing b s with
  | zero => simp [ghosts] at h; subst h; exact PKeeps.refl s
  | succ n ih =>
    simp only [ghosts] at h
    obtain ⟨s1, h1, h⟩ := Res.bind_eq_ok.mp h
    exact (pk_setField h1).trans (ih h)

theorem pk_drawRange {f l d q s s'} (h : drawRange f l d q s = .ok s') : PKeeps s s' := by
  unfold drawRange at h
  split at h
  · exact pk_setField h
  · obtain ⟨s1, h1, h⟩ := Res.bind_eq_ok.mp h
    exact (pk_setField h1).trans (pk_ghosts h)

theorem pk_blockRest {d : String} {rs : List (Nat × Nat)} {p : Nat} {s s' : St}
    (h : blockRest d rs p s = .ok s') : PKeeps s s' := by
  induction rs generalizing p s with
  | nil => simp [blockRest] at h; subst h; exact PKeeps.refl s
  | cons x rest ih =>
    obtain ⟨f, l⟩ := x
    simp only [blockRest] at h
    obtain ⟨s1, h1, h⟩ := Res.bind_eq_ok.mp h
    exact (pk_drawRange h1).trans (ih h)

theorem pk_addBlockGate {q d s s'} (h : addBlockGate q d s = .ok s') : PKeeps s s' := by
  unfold addBlockGate at h
  split at h
  · cases h
  · injection h with h; subst h; exact PKeeps.refl s
  · obtain ⟨s1, h1, h⟩ := Res.bind_eq_ok.mp h
    obtain ⟨s2, h2, h⟩ := Res.bind_eq_ok.mp h
    obtain ⟨s3, h3, h⟩ := Res.bind_eq_ok.mp h
    exact (((pk_startRangeOp h1).trans (pk_drawRange h2)).trans (pk_blockRest h3)).trans (pk_endRangeOp h)

theorem pk_startLoop {n s s'} (h : startLoop n s = .ok s') : PKeeps s s' := by
  unfold startLoop at h
  dsimp only at h
  split at h
  · cases h
  · injection h with h; subst h
    exact (pk_reserveAll s).trans (pk_of_fields rfl rfl rfl rfl)

theorem pk_endLoop {s s'} (h : endLoop s = .ok s') : PKeeps s s' := by
  unfold endLoop at h
  split at h
  · cases h
  · split at h
    · cases h
    · injection h with h; subst h
      refine PKeeps.trans ?_ (pk_reserveAll _)
      exact pk_of_fields rfl rfl rfl rfl

theorem pk_addCds {b c l s s'} (h : addCds b c l s = .ok s') : PKeeps s s' := by
  unfold addCds at h
  obtain ⟨s1, h1, h⟩ := Res.bind_eq_ok.mp h
  injection h with h; subst h
  exact ((pk_reserveAll s).trans (pk_setField h1)).trans (pk_reserveAll s1)

theorem pk_barrierLoop {rs : List (Nat × Nat)} {s s' : St} (h : barrierLoop rs s = .ok s') : PKeeps s s' := by
  induction rs generalizing s with
  | nil => simp [barrierLoop] at h; subst h; exact PKeeps.refl s
  | cons x rest ih =>
    obtain ⟨f, l⟩ := x
    simp only [barrierLoop] at h
    obtain ⟨s1, h1, h⟩ := Res.bind_eq_ok.mp h
    exact (pk_setField h1).trans (ih h)

theorem pk_setBarrier {q s s'} (h : setBarrier q s = .ok s') : PKeeps s s' := by
  unfold setBarrier at h
  split at h
  · cases h
  · split at h
    · cases h; exact PKeeps.refl s
    · split at h
      · cases h
      · exact (pk_addColumn s).trans (pk_barrierLoop h)

theorem pk_controlled (s : St) (b : Bool) : PKeeps s { s with controlled := b } :=
  pk_of_fields rfl rfl rfl rfl

/-! Gates: by structural induction on the gate term (mutually with composite bodies). -/

mutual
theorem pk_latex : ∀ (g : Gate) (bits : List Nat) (s s' : St), latex g bits s = .ok s' → PKeeps s s'
  | .box l n, bits, s, s', h => by
    simp only [latex] at h
    obtain ⟨_, _, h⟩ := Res.bind_eq_ok.mp h
    exact pk_addBlockGate h
  | .x, bits, s, s', h => by
    simp only [latex] at h
    obtain ⟨_, _, h⟩ := Res.bind_eq_ok.mp h
    split at h
    · exact pk_setField h
    · cases h
  | .z, bits, s, s', h => by
    simp only [latex] at h
    obtain ⟨_, _, h⟩ := Res.bind_eq_ok.mp h
    split at h
    · exact pk_setField h
    · cases h
  | .i, bits, s, s', h => by
    simp only [latex] at h
    obtain ⟨_, _, h⟩ := Res.bind_eq_ok.mp h
    split at h
    · exact pk_setField h
    · cases h
  | .swap, bits, s, s', h => by
    simp only [latex] at h
    obtain ⟨_, _, h⟩ := Res.bind_eq_ok.mp h
    split at h
    · obtain ⟨s1, h1, h⟩ := Res.bind_eq_ok.mp h
      obtain ⟨s2, h2, h⟩ := Res.bind_eq_ok.mp h
      obtain ⟨s3, h3, h⟩ := Res.bind_eq_ok.mp h
      exact (((pk_startRangeOp h1).trans (pk_setField h2)).trans (pk_setField h3)).trans (pk_endRangeOp h)
    · cases h
  | .c g, bits, s, s', h => by
    simp only [latex] at h
    obtain ⟨_, _, h⟩ := Res.bind_eq_ok.mp h
    obtain ⟨s1, h1, h⟩ := Res.bind_eq_ok.mp h
    have k1 := pk_startRangeOp h1
    split at h
    · cases h
    · cases h
    · obtain ⟨s2, h2, h⟩ := Res.bind_eq_ok.mp h
      obtain ⟨s3, h3, h⟩ := Res.bind_eq_ok.mp h
      have k2 : PKeeps s1 s2 := by
        split at h2
        · exact pk_setField h2
        · split at h2
          · exact pk_setField h2
          · cases h2
      have k3 := pk_latex g _ _ _ h3
      exact (((k1.trans k2).trans (pk_controlled s2 true)).trans k3).trans
        ((pk_controlled s3 _).trans (pk_endRangeOp h))
  | .kron a b, bits, s, s', h => by
    simp only [latex] at h
    obtain ⟨_, _, h⟩ := Res.bind_eq_ok.mp h
    obtain ⟨s1, h1, h⟩ := Res.bind_eq_ok.mp h
    exact (pk_latex a _ _ _ h1).trans (pk_latex b _ _ _ h)
  | .comp name n ops, bits, s, s', h => by
    simp only [latex] at h
    obtain ⟨_, _, h⟩ := Res.bind_eq_ok.mp h
    split at h
    · exact pk_latexSubs ops _ _ _ h
    · exact pk_addBlockGate h
  | .loop iters body, bits, s, s', h => by
    simp only [latex] at h
    obtain ⟨_, _, h⟩ := Res.bind_eq_ok.mp h
    split at h
    · injection h with h; subst h; exact PKeeps.refl s
    · exact pk_latex body _ _ _ h
    · obtain ⟨s1, h1, h⟩ := Res.bind_eq_ok.mp h
      exact (pk_latex body _ _ _ h1).trans (pk_latex body _ _ _ h)
    · split at h
      · cases h
      · obtain ⟨s1, h1, h⟩ := Res.bind_eq_ok.mp h
        obtain ⟨s2, h2, h⟩ := Res.bind_eq_ok.mp h
        obtain ⟨s3, h3, h⟩ := Res.bind_eq_ok.mp h
        obtain ⟨s4, h4, h⟩ := Res.bind_eq_ok.mp h
        exact ((((pk_startLoop h1).trans (pk_latex body _ _ _ h2)).trans (pk_addCds h3)).trans
          (pk_latex body _ _ _ h4)).trans (pk_endLoop h)
theorem pk_latexSubs : ∀ (ops : Subs) (bits : List Nat) (s s' : St), latexSubs ops bits s = .ok s' → PKeeps s s'
  | .nil, bits, s, s', h => by
    simp only [latexSubs] at h; injection h with h; subst h; exact PKeeps.refl s
  | .cons g sb rest, bits, s, s', h => by
    simp only [latexSubs] at h
    split at h
    · cases h
    · obtain ⟨s1, h1, h⟩ := Res.bind_eq_ok.mp h
      exact (pk_latex g _ _ _ h1).trans (pk_latexSubs rest _ _ _ h)
end

theorem pk_measureAllLoop {b : Option String} {cs : List Nat} {q : Nat} {s s' : St}
    (h : measureAllLoop b cs q s = .ok s') : PKeeps s s' := by
  induction cs generalizing q s with
  | nil => simp [measureAllLoop] at h; subst h; exact PKeeps.refl s
  | cons c rest ih =>
    simp only [measureAllLoop] at h
    obtain ⟨s1, h1, h⟩ := Res.bind_eq_ok.mp h
    exact (pk_setMeasurement h1).trans (ih h)

theorem pk_resetLoop {n q : Nat} {s s' : St} (h : resetLoop q n s = .ok s') : PKeeps s s' := by
  induction n generalizing q s with
  | zero => simp [resetLoop] at h; subst h; exact PKeeps.refl s
  | succ n ih =>
    simp only [resetLoop] at h
    obtain ⟨s1, h1, h⟩ := Res.bind_eq_ok.mp h
    exact (pk_setField h1).trans (ih h)

theorem pk_opLatex {nq : Nat} {op : Op} {s s' : St} (h : opLatex nq op s = .ok s') : PKeeps s s' := by
  cases op with
  | gate g bits => exact pk_latex g bits s s' h
  | cond control target g bits =>
    simp only [opLatex] at h
    obtain ⟨s1, h1, h⟩ := Res.bind_eq_ok.mp h
    obtain ⟨s2, h2, h⟩ := Res.bind_eq_ok.mp h
    obtain ⟨s3, h3, h⟩ := Res.bind_eq_ok.mp h
    exact ((((pk_startRangeOp h1).trans (pk_controlled s1 true)).trans (pk_latex g _ _ _ h2)).trans
      ((pk_controlled s2 _).trans (pk_setCondition h3))).trans (pk_endRangeOp h)
  | reset q => exact pk_setField h
  | resetAll =>
    simp only [opLatex] at h
    obtain ⟨s1, h1, h⟩ := Res.bind_eq_ok.mp h
    obtain ⟨s2, h2, h⟩ := Res.bind_eq_ok.mp h
    exact ((pk_startRangeOp h1).trans (pk_resetLoop h2)).trans (pk_endRangeOp h)
  | measure q c b => exact pk_setMeasurement h
  | measureAll cbits b => exact pk_measureAllLoop h
  | peek q c b => simp [opLatex] at h
  | peekAll cbits b => simp [opLatex] at h
  | barrier qbits => exact pk_setBarrier h

theorem pk_opsLatex {nq : Nat} {ops : List Op} {s s' : St} (h : opsLatex nq ops s = .ok s') : PKeeps s s' := by
  induction ops generalizing s with
  | nil => simp [opsLatex] at h; subst h; exact PKeeps.refl s
  | cons op rest ih =>
    simp only [opsLatex] at h
    obtain ⟨s1, h1, h⟩ := Res.bind_eq_ok.mp h
    exact ((pk_opLatex h1).trans (pk_of_fields (s' := { s1 with cur := s1.cur + 1 }) rfl rfl rfl rfl)).trans (ih h)

theorem pm_new (nq nc : Nat) : PM (St.new nq nc) :=
  ⟨by intro c hc; simp [St.new] at hc, by simp [St.new]⟩

theorem exportSt_pm {c : Circ} {s : St} (h : exportSt c = .ok s) : PM s :=
  (pk_opsLatex h).pm (pm_new _ _)

/-- **Provenance is monotone, for every circuit**: a symbol in an earlier column was never drawn by a
later operation than a symbol in a later column. -/
theorem prov_monotone {s : St} (hp : PM s) {c1 c2 r1 r2 : Nat} {x1 x2 : Cell}
    (h1 : Has s c1 r1 x1) (h2 : Has s c2 r2 x2) (hlt : c1 < c2) : x1.prov ≤ x2.prov := by
  obtain ⟨col1, hc1, hx1⟩ := h1
  obtain ⟨col2, hc2, hx2⟩ := h2
  have hl2 : c2 < s.rcols.length := by
    rcases Nat.lt_or_ge c2 s.rcols.length with h | h
    · exact h
    · rw [List.getElem?_eq_none (by simpa using h)] at hc2; cases hc2
  rw [List.getElem?_reverse (by omega)] at hc1
  rw [List.getElem?_reverse hl2] at hc2
  have hi : s.rcols.length - 1 - c2 < s.rcols.length - 1 - c1 := by omega
  have hj : s.rcols.length - 1 - c1 < s.rcols.length := by omega
  have := (List.pairwise_iff_getElem.mp hp.sorted) (s.rcols.length - 1 - c2) (s.rcols.length - 1 - c1)
    (by omega) hj hi
  rw [List.getElem?_eq_getElem (by omega)] at hc2
  rw [List.getElem?_eq_getElem hj] at hc1
  injection hc1 with hc1; injection hc2 with hc2
  rw [hc1, hc2] at this
  exact this r2 r1 x2 x1 hx2 hx1

/-- … hence a symbol of a later operation is not to the left, and on the same wire strictly to the right. -/
theorem prov_wire_order {s : St} (hp : PM s) {c1 c2 r1 r2 : Nat} {x1 x2 : Cell}
    (h1 : Has s c1 r1 x1) (h2 : Has s c2 r2 x2) (hlt : x1.prov < x2.prov) : c1 ≤ c2 ∧ (r1 = r2 → c1 < c2) := by
  refine ⟨?_, ?_⟩
  · rcases Nat.lt_or_ge c2 c1 with hl | hge
    · have := prov_monotone hp h2 h1 hl; omega
    · exact hge
  · intro hr
    subst hr
    rcases Nat.lt_trichotomy c1 c2 with hl | he | hg
    · exact hl
    · subst he
      have := hasCols_fun h1 h2
      subst this; omega
    · have := prov_monotone hp h2 h1 hg; omega

end Q1t.Proofs.Latex

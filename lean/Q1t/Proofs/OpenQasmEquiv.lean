import Q1t.Proofs.EmbedAlgebra
import Q1t.Proofs.OpenQasmCtrl2
import Q1t.Proofs.OpenQasmWF
import Q1t.Spec.Born
import Q1t.Proofs.SimGFAll
import Q1t.Proofs.Conditional
import Q1t.Proofs.OpenQasmMeasureAll
set_option linter.unusedSimpArgs false
set_option linter.unusedSectionVars false
/-!
C11: `export_equiv_partial` — the exported program has the same branches as the circuit (register value, state
up to a global phase of modulus one per branch), for the class `equivSound` (see `Props/C11.lean`).

Route: a library gate's statements on `k` local qubits denote `c · specMatrix` (hypothesis `LeavesOK`, discharged by
the per-gate theorems); `embed_mul` / `embed_compose` / `embed_one` lift that to any placement in an `n`-qubit
register; `Kron`, `Composite`, `Loop` by structural induction at the level of state vectors; operations one by
one against `Spec/Born.lean`; circuits by induction over the operations.
-/
namespace Q1t.OpenQasm
open Q1t Q1t.Spec Q1t.Spec.OQ2 Q1t.Proofs.Route Q1t.Proofs.BitPerm

variable {α P : Type} [CommRing α] [Amp α P] [Angle P]

/-! ## vectors -/

def vsmul (c : α) (v : List α) : List α := v.map fun y => c * y

theorem vsmul_length (c : α) (v : List α) : (vsmul c v).length = v.length := by simp [vsmul]

theorem vsmul_vsmul (a b : α) (v : List α) : vsmul a (vsmul b v) = vsmul (a * b) v := by
  simp [vsmul, mul_assoc]

theorem vsmul_one (v : List α) : vsmul (1 : α) v = v := by simp [vsmul]

theorem getD_vsmul (c : α) (v : List α) (x : Nat) : (vsmul c v).getD x 0 = c * v.getD x 0 := by
  unfold vsmul
  by_cases hx : x < v.length
  · simp [List.getD_eq_getElem?_getD, hx]
  · simp [List.getD_eq_getElem?_getD, Nat.not_lt.1 hx]

theorem mulVec_vsmul (d : Nat) (A : LMat α) (hA : WFMat d A) (c : α) (v : List α) :
    LMat.mulVec A (vsmul c v) = vsmul c (LMat.mulVec A v) := by
  apply vec_ext d _ _ (by rw [mulVec_length, hA.1]) (by rw [vsmul_length, mulVec_length, hA.1])
  intro r hr
  rw [getD_mulVec d A hA _ r hr, getD_vsmul, getD_mulVec d A hA v r hr, Finset.mul_sum]
  apply Finset.sum_congr rfl
  intro x _
  rw [getD_vsmul]; ring

/-! ## statement sequences as matrices and as maps on vectors -/

/-- a statement sequence acting on a state vector -/
def applyApps (n : Nat) : List (String × List P × List Nat) → List α → Option (List α)
  | [], ψ => some ψ
  | (g, vals, qs) :: rest, ψ =>
    (gateMatrix (α := α) defaultFuel g vals).bind fun m => applyApps n rest (LMat.mulVec (embed n qs m) ψ)

theorem applyApps_append (n : Nat) (a b : List (String × List P × List Nat)) (ψ : List α) :
    applyApps (α := α) n (a ++ b) ψ = (applyApps (α := α) n a ψ).bind (applyApps n b) := by
  induction a generalizing ψ with
  | nil => rfl
  | cons x a ih =>
    obtain ⟨g, vals, qs⟩ := x
    simp only [List.cons_append, applyApps]
    cases gateMatrix (α := α) defaultFuel g vals with
    | none => rfl
    | some m => exact ih _

theorem seqFrom_wf (n : Nat) : ∀ (apps : List (String × List P × List Nat)) (acc M : LMat α),
    WFMat (2 ^ n) acc → seqFrom n apps acc = some M → WFMat (2 ^ n) M
  | [], acc, M, h, e => by
    simp only [seqFrom, Option.some.injEq] at e
    exact e ▸ h
  | (g, vals, qs) :: rest, acc, M, h, e => by
    simp only [seqFrom] at e
    cases hm : gateMatrix (α := α) defaultFuel g vals with
    | none => rw [hm] at e; cases e
    | some m =>
      rw [hm] at e
      exact seqFrom_wf n rest _ M (mul_wf _ _ _ (embed_wf n qs m) h) e

/-- the matrix of a statement sequence acts on vectors as the sequence does -/
theorem applyApps_of_seqFrom (n : Nat) : ∀ (apps : List (String × List P × List Nat)) (acc M : LMat α)
    (ψ : List α), WFMat (2 ^ n) acc → ψ.length = 2 ^ n → seqFrom n apps acc = some M →
    applyApps n apps (LMat.mulVec acc ψ) = some (LMat.mulVec M ψ)
  | [], acc, M, ψ, _, _, e => by
    simp only [seqFrom, Option.some.injEq] at e
    subst e; rfl
  | (g, vals, qs) :: rest, acc, M, ψ, h, hψ, e => by
    simp only [seqFrom] at e
    simp only [applyApps]
    cases hm : gateMatrix (α := α) defaultFuel g vals with
    | none => rw [hm] at e; cases e
    | some m =>
      rw [hm] at e
      simp only [Option.bind_some] at e ⊢
      rw [← mulVec_mul (2 ^ n) _ _ (embed_wf n qs m) h ψ hψ]
      exact applyApps_of_seqFrom n rest _ M ψ (mul_wf _ _ _ (embed_wf n qs m) h) hψ e

/-- relabel the qubits of a statement sequence -/
def relabelApps (bits : List Nat) (apps : List (String × List P × List Nat)) : List (String × List P × List Nat) :=
  apps.map fun a => (a.1, a.2.1, relabel bits a.2.2)

/-- the lifting of a statement sequence on `bits.length` local qubits to the register -/
theorem seqFrom_relabel (n : Nat) (bits : List Nat) (hv : validBits n bits = true) :
    ∀ (apps : List (String × List P × List Nat)) (acc M : LMat α),
      (∀ a ∈ apps, validBits bits.length a.2.2 = true) → WFMat (2 ^ bits.length) acc →
      seqFrom bits.length apps acc = some M →
      seqFrom n (relabelApps bits apps) (embed n bits acc) = some (embed n bits M)
  | [], acc, M, _, _, e => by
    simp only [seqFrom, Option.some.injEq] at e
    subst e; rfl
  | (g, vals, qs) :: rest, acc, M, hq, h, e => by
    simp only [seqFrom] at e
    simp only [relabelApps, List.map_cons, seqFrom]
    cases hm : gateMatrix (α := α) defaultFuel g vals with
    | none => rw [hm] at e; cases e
    | some m =>
      rw [hm] at e
      simp only [Option.bind_some] at e ⊢
      have := seqFrom_relabel n bits hv rest _ M (fun a ha => hq a (List.mem_cons_of_mem _ ha))
        (mul_wf _ _ _ (embed_wf _ qs m) h) e
      rw [embed_mul n bits hv _ acc (embed_wf _ qs m) h,
        embed_compose n bits hv qs (hq _ (List.mem_cons_self ..)) m] at this
      exact this

/-! ## a library gate placed in a register -/

theorem mapM_map_option {β γ δ : Type} (f : β → Option γ) (h : γ → δ) (l : List β) :
    l.mapM (fun b => (f b).map h) = (l.mapM f).map (List.map h) := by
  induction l with
  | nil => rfl
  | cons b l ih =>
    rw [List.mapM_cons, List.mapM_cons, ih]
    cases f b with
    | none => rfl
    | some c =>
      cases l.mapM f with
      | none => rfl
      | some cs => rfl

theorem mapM_congr_mem {β γ : Type} (f g : β → Option γ) (l : List β) (h : ∀ b ∈ l, f b = g b) :
    l.mapM f = l.mapM g := by
  induction l with
  | nil => rfl
  | cons b l ih =>
    rw [List.mapM_cons, List.mapM_cons, h b (List.mem_cons_self ..),
      ih fun c hc => h c (List.mem_cons_of_mem _ hc)]

theorem localBit_mapM (is : List Nat) : (is.map (QRef.bit "q")).mapM QRef.localBit = some is := by
  rw [List.mapM_map]
  have := mapM_eq_map (QRef.localBit ∘ QRef.bit "q") id is (fun _ _ => rfl)
  simpa using this

/-- name and parameter values of a template statement -/
def stmtVals (t : GateTpl) (ps : List (QParam P)) (s : TStmt) : Option (String × List P) :=
  ((s.args.map (instArgT t.params ps (.lit 0))).mapM Arg.eval).map fun vals => (s.name, vals)

theorem chunkApps_chunkOf (t : GateTpl) (ps : List (QParam P)) (bits : List Nat) (stmts : List TStmt) :
    chunkApps (stmts.map (chunkOf t ps bits)) =
      stmts.mapM fun s => (stmtVals t ps s).map fun nv => (nv.1, nv.2, qubitsOf t s bits) := by
  unfold chunkApps
  rw [List.mapM_map]
  congr 1
  funext s
  simp only [Function.comp, chunkOf, stmtVals, localBit_mapM]
  cases ((s.args.map (instArgT t.params ps (.lit 0))).mapM Arg.eval) with
  | none => rfl
  | some vals => rfl

theorem relabel_range (bits : List Nat) : relabel bits (List.range bits.length) = bits := by
  apply List.ext_getElem (by simp [relabel])
  intro i h1 h2
  simp [relabel, List.getD_eq_getElem?_getD, h2]

theorem qubitsOf_relabel (t : GateTpl) (s : TStmt) (bits : List Nat) (hl : bits.length = t.nbits)
    (hq : t.kind ≠ .plain → ∀ k ∈ s.qargs, k < t.nbits) :
    qubitsOf t s bits = relabel bits (qubitsOf t s (List.range t.nbits)) := by
  unfold qubitsOf
  cases hk : t.kind with
  | plain => simp only; rw [← hl, relabel_range]
  | format c =>
    have := hq (by rw [hk]; intro h; cases h)
    simp only [relabel, List.map_map]
    refine List.map_congr_left fun k hkm => ?_
    simp [List.getD_eq_getElem?_getD, this k hkm]
  | template =>
    have := hq (by rw [hk]; intro h; cases h)
    simp only [relabel, List.map_map]
    refine List.map_congr_left fun k hkm => ?_
    simp [List.getD_eq_getElem?_getD, this k hkm]

theorem validBits_iff' (n : Nat) (bits : List Nat) :
    validBits n bits = true ↔ (∀ b ∈ bits, b < n) ∧ bits.Nodup := by
  simp [validBits]

/-- what a statement list means for the circuit: there is one phase `c` of modulus one such that running the
statements on any state of the register gives `c` times the documented unitary of `term` placed on `bits` -/
def GateSem (n : Nat) (cs : List (Chunk P)) (term : GateTerm P) (bits : List Nat) : Prop :=
  WFMat (2 ^ bits.length) (specMatrix term : LMat α) ∧
  ∃ apps, chunkApps cs = some apps ∧ ∃ c : α, c * Amp.conj P c = 1 ∧
    ∀ ψ : List α, ψ.length = 2 ^ n → applyApps n apps ψ = some (vsmul c (gateOn n term bits ψ))

/-- the per-gate obligation for every library gate a circuit may use (discharged in `Props/C11.lean`) -/
def LeavesOK (α P : Type) [CommRing α] [Amp α P] [Angle P] (tbl : List GateTpl) (names : List String) : Prop :=
  ∀ name ∈ names, ∀ ps : List P, (∃ t, lookupTpl tbl name = some t ∧ ps.length = t.params.length) →
    LibGateOK α P tbl name ps

theorem smulMat_eq_smul (c : α) (M : LMat α) : smulMat c M = smul c M := rfl

theorem wf_of_smul (d : Nat) (c : α) (S : LMat α) (h : WFMat d (smul c S)) : WFMat d S := by
  obtain ⟨h1, h2⟩ := h
  refine ⟨by simpa [smul] using h1, fun row hrow => ?_⟩
  have := h2 (row.map fun x => c * x) (by simp only [smul]; exact List.mem_map_of_mem hrow)
  simpa using this

theorem leaf_sem (tbl : List GateTpl) (name : String) (t : GateTpl) (ht : lookupTpl tbl name = some t)
    (hg : goodTpl t = true) (vals : List P) (hps : vals.length = t.params.length)
    (hok : LibGateOK α P tbl name vals) (n : Nat) (bits : List Nat) (hv : validBits n bits = true)
    (hl : bits.length = t.nbits) (cs : List (Chunk P))
    (h : exportGate tbl (qbitNames n) none (.lib name (vals.map QParam.direct)) bits = .ok cs) :
    ∃ term, libTerm name vals = some term ∧ GateSem (α := α) n cs term bits := by
  obtain ⟨hlt, hnd⟩ := (validBits_iff' n bits).1 hv
  obtain ⟨M, term, hM, hterm, c, hc, hMc⟩ := hok
  refine ⟨term, hterm, ?_⟩
  have hps' : (vals.map QParam.direct).length = t.params.length := by simpa using hps
  have hst : ∀ s ∈ t.stmts, goodStmt t s = true := by
    simp only [goodTpl, Bool.and_eq_true, List.all_eq_true] at hg
    exact hg.1
  -- the exported chunks, here and on the gate's own qubits
  have hcs : cs = t.stmts.map (chunkOf t (vals.map QParam.direct) bits) := by
    unfold exportGate at h
    rw [ht] at h
    simp only at h
    rw [libExport_eq t hg _ hps' n bits hlt hl] at h
    simpa [Res.map, withCond] using h.symm
  have hk : ∀ b ∈ List.range t.nbits, b < t.nbits := fun b hb => List.mem_range.1 hb
  -- unfold the obligation
  unfold libMeaning at hM
  rw [ht] at hM
  cases hla : libApps tbl name (vals.map QParam.direct) with
  | none => rw [hla] at hM; cases hM
  | some appsK =>
    rw [hla] at hM
    simp only at hM
    unfold libApps at hla
    rw [ht] at hla
    simp only at hla
    have hexp : exportGate tbl (qbitNames t.nbits) none (.lib name (vals.map QParam.direct)) (List.range t.nbits) =
        .ok (t.stmts.map (chunkOf t (vals.map QParam.direct) (List.range t.nbits))) := by
      unfold exportGate
      rw [ht]
      simp only
      rw [libExport_eq t hg _ hps' t.nbits (List.range t.nbits) hk (by simp)]
      simp [Res.map, withCond]
    rw [hexp] at hla
    simp only at hla
    rw [chunkApps_chunkOf] at hla
    -- the chunks here are the relabelled ones
    have hrel : chunkApps cs = some (relabelApps bits appsK) := by
      rw [hcs, chunkApps_chunkOf]
      rw [mapM_congr_mem _ (fun s => ((stmtVals t (vals.map QParam.direct) s).map fun nv =>
            (nv.1, nv.2, qubitsOf t s (List.range t.nbits))).map
              fun a => (a.1, a.2.1, relabel bits a.2.2)) t.stmts ?_]
      · rw [mapM_map_option, hla]; rfl
      · intro s hs
        rw [qubitsOf_relabel t s bits hl fun hne => (goodStmt_qargs t s (hst s hs) hne).2]
        cases stmtVals t (vals.map QParam.direct) s with
        | none => rfl
        | some nv => rfl
    -- every local qubit list is valid
    have hvalid : ∀ a ∈ appsK, validBits bits.length a.2.2 = true := by
      intro a ha
      obtain ⟨s, hs, hsa⟩ : ∃ s ∈ t.stmts, a.2.2 = qubitsOf t s (List.range t.nbits) := by
        have := hla
        clear hM hrel
        revert a appsK
        generalize t.stmts = stmts
        intro appsK
        induction stmts generalizing appsK with
        | nil =>
          intro _ a ha h
          simp at h
          subst h
          cases ha
        | cons s0 rest ih =>
          intro hla' a ha h
          rw [List.mapM_cons] at h
          cases h0 : stmtVals t (vals.map QParam.direct) s0 with
          | none => simp [h0] at h
          | some nv =>
            cases hr : rest.mapM (fun s => (stmtVals t (vals.map QParam.direct) s).map fun nv =>
                (nv.1, nv.2, qubitsOf t s (List.range t.nbits))) with
            | none => simp [h0, hr] at h
            | some r =>
              simp [h0, hr] at h
              subst h
              rcases List.mem_cons.1 ha with rfl | ha'
              · exact ⟨s0, List.mem_cons_self .., rfl⟩
              · obtain ⟨s, hs, e⟩ := ih r hr a ha' hr
                exact ⟨s, List.mem_cons_of_mem _ hs, e⟩
      rw [hsa, hl, validBits_iff']
      have hgs := hst s hs
      unfold qubitsOf
      cases hkd : t.kind with
      | plain => exact ⟨fun b hb => List.mem_range.1 hb, List.nodup_range⟩
      | format c =>
        have hq := goodStmt_qargs t s hgs (by rw [hkd]; intro h; cases h)
        refine ⟨?_, ?_⟩
        · intro b hb
          obtain ⟨k, hk1, rfl⟩ := List.mem_map.1 hb
          simp [List.getD_eq_getElem?_getD, hq.2 k hk1]
        · have := nodup_map_getD (List.range t.nbits) s.qargs List.nodup_range hq.1 (by simpa using hq.2)
          exact this
      | template =>
        have hq := goodStmt_qargs t s hgs (by rw [hkd]; intro h; cases h)
        refine ⟨?_, ?_⟩
        · intro b hb
          obtain ⟨k, hk1, rfl⟩ := List.mem_map.1 hb
          simp [List.getD_eq_getElem?_getD, hq.2 k hk1]
        · have := nodup_map_getD (List.range t.nbits) s.qargs List.nodup_range hq.1 (by simpa using hq.2)
          exact this
    -- lift the matrix
    rw [seqMatrix_eq, ← hl] at hM
    have hMwf : WFMat (2 ^ bits.length) M := seqFrom_wf _ appsK _ M (identity_wf _) hM
    have hlift := seqFrom_relabel (α := α) n bits hv appsK _ M hvalid (identity_wf _) hM
    rw [embed_one n bits hv] at hlift
    rw [smulMat_eq_smul] at hMc
    have hS : WFMat (2 ^ bits.length) (specMatrix term : LMat α) := wf_of_smul _ c _ (hMc ▸ hMwf)
    refine ⟨hS, relabelApps bits appsK, hrel, c, hc, fun ψ hψ => ?_⟩
    have := applyApps_of_seqFrom n _ _ _ ψ (identity_wf _) hψ hlift
    rw [mulVec_identity _ ψ hψ] at this
    rw [this, hMc]
    rw [mulVec_embed_smul n ψ hψ bits c _ hS]
    rfl

/-! ## combinators -/

theorem chunkApps_append (a b : List (Chunk P)) (xa xb : List (String × List P × List Nat))
    (ha : chunkApps a = some xa) (hb : chunkApps b = some xb) : chunkApps (a ++ b) = some (xa ++ xb) := by
  unfold chunkApps at *
  rw [List.mapM_append, ha, hb]; rfl

theorem conj_unit_mul (h : LawfulAmp α P) (a b : α) (ha : a * Amp.conj P a = 1) (hb : b * Amp.conj P b = 1) :
    (a * b) * Amp.conj P (a * b) = 1 := by
  rw [h.conj_mul]
  calc a * b * (Amp.conj P a * Amp.conj P b) = (a * Amp.conj P a) * (b * Amp.conj P b) := by ring
    _ = 1 := by rw [ha, hb]; ring

theorem gateOn_length (n : Nat) (term : GateTerm P) (bits : List Nat) (ψ : List α) :
    (gateOn n term bits ψ).length = 2 ^ n := by
  unfold gateOn
  rw [mulVec_length, (embed_wf n bits _).1]

theorem applyApps_vsmul (n : Nat) : ∀ (apps : List (String × List P × List Nat)) (c : α) (ψ : List α),
    applyApps (α := α) n apps (vsmul c ψ) = (applyApps n apps ψ).map (vsmul c)
  | [], c, ψ => rfl
  | (g, vals, qs) :: rest, c, ψ => by
    simp only [applyApps]
    cases gateMatrix (α := α) defaultFuel g vals with
    | none => rfl
    | some m =>
      simp only [Option.bind_some]
      rw [mulVec_vsmul _ _ (embed_wf n qs m)]
      exact applyApps_vsmul n rest c _

/-- `Kron(g0, g1)`: the statements of `g0`, then those of `g1` -/
theorem gateSem_kron (h : LawfulAmp α P) (n : Nat) (cs0 cs1 : List (Chunk P)) (t0 t1 : GateTerm P)
    (b0 b1 : List Nat) (hv : validBits n (b0 ++ b1) = true) (h0 : GateSem (α := α) n cs0 t0 b0)
    (h1 : GateSem (α := α) n cs1 t1 b1) : GateSem (α := α) n (cs0 ++ cs1) (.Kron t0 t1) (b0 ++ b1) := by
  obtain ⟨w0, a0, ha0, c0, hc0, hr0⟩ := h0
  obtain ⟨w1, a1, ha1, c1, hc1, hr1⟩ := h1
  obtain ⟨hv0, hv1, hd⟩ := validBits_of_append n b0 b1 hv
  have hp0 : 0 < 2 ^ b0.length := Nat.pow_pos (by decide)
  have hp1 : 0 < 2 ^ b1.length := Nat.pow_pos (by decide)
  have hk : (specMatrix (.Kron t0 t1) : LMat α) = LMat.kron (specMatrix t0) (specMatrix t1) := by
    simp only [specMatrix]
    exact (LMat.kron_eq_kronecker (A := specMatrix t0) (B := specMatrix t1) ⟨w0.1, w0.2⟩ ⟨w1.1, w1.2⟩ hp0 hp1 hp1).symm
  refine ⟨?_, a0 ++ a1, chunkApps_append _ _ _ _ ha0 ha1, c0 * c1, ?_, fun ψ hψ => ?_⟩
  · rw [hk, List.length_append, Nat.pow_add]
    have := LMat.wf_kron (A := specMatrix t0) (B := (specMatrix t1 : LMat α)) ⟨w0.1, w0.2⟩ ⟨w1.1, w1.2⟩
    exact ⟨this.1, this.2⟩
  · exact conj_unit_mul h c0 c1 hc0 hc1
  · rw [applyApps_append, hr0 ψ hψ, Option.bind_some, applyApps_vsmul, hr1 _ (gateOn_length n t0 b0 ψ)]
    simp only [Option.map_some, vsmul_vsmul]
    congr 2
    unfold gateOn
    rw [hk, mulVec_embed_kron n ψ hψ b0 b1 hv _ _ w0 w1,
      mulVec_embed_commute n ψ hψ b0 b1 hv0 hv1 hd]

/-- a list of sub-gates of a composite, from an accumulated matrix -/
def OpsSem (n : Nat) (cs : List (Chunk P)) (opsT : OpList P) (bits : List Nat) : Prop :=
  ∃ apps, chunkApps cs = some apps ∧ ∃ c : α, c * Amp.conj P c = 1 ∧
    ∀ (acc : LMat α) (ψ : List α), WFMat (2 ^ bits.length) acc → ψ.length = 2 ^ n →
      applyApps n apps (LMat.mulVec (embed n bits acc) ψ) =
        some (vsmul c (LMat.mulVec (embed n bits (specOps opsT bits.length acc)) ψ))

theorem opsSem_nil (h : LawfulAmp α P) (n : Nat) (bits : List Nat) :
    OpsSem (α := α) n ([] : List (Chunk P)) .nil bits :=
  ⟨[], rfl, 1, by rw [h.conj_one]; ring, fun acc ψ _ _ => by simp [applyApps, specOps, vsmul_one]⟩

theorem opsSem_cons (h : LawfulAmp α P) (n : Nat) (bits sub : List Nat) (hv : validBits n bits = true)
    (hsub : validBits bits.length sub = true) (csg csr : List (Chunk P)) (tg : GateTerm P) (restT : OpList P)
    (hg : GateSem (α := α) n csg tg (relabel bits sub)) (hr : OpsSem (α := α) n csr restT bits) :
    OpsSem (α := α) n (csg ++ csr) (.cons tg sub restT) bits := by
  obtain ⟨wg, ag, hag, cg, hcg, hrg⟩ := hg
  obtain ⟨ar, har, cr, hcr, hrr⟩ := hr
  refine ⟨ag ++ ar, chunkApps_append _ _ _ _ hag har, cg * cr, conj_unit_mul h cg cr hcg hcr, ?_⟩
  intro acc ψ hacc hψ
  have hφ : (LMat.mulVec (embed n bits acc) ψ).length = 2 ^ n := mulVec_embed_length n ψ hψ bits acc
  have hE : WFMat (2 ^ bits.length) (embed bits.length sub (specMatrix tg : LMat α)) := embed_wf _ _ _
  rw [applyApps_append, hrg _ hφ, Option.bind_some, applyApps_vsmul]
  have e : gateOn n tg (relabel bits sub) (LMat.mulVec (embed n bits acc) ψ) =
      LMat.mulVec (embed n bits (LMat.mul (embed bits.length sub (specMatrix tg)) acc)) ψ := by
    unfold gateOn
    rw [← embed_compose n bits hv sub hsub, ← mulVec_embed_mul n ψ hψ bits hv _ acc hE hacc]
  rw [e, hrr _ ψ (mul_wf _ _ _ hE hacc) hψ]
  simp only [Option.map_some, vsmul_vsmul, specOps]

theorem specOps_wf (k : Nat) : ∀ (ops : OpList P) (acc : LMat α), WFMat (2 ^ k) acc →
    WFMat (2 ^ k) (specOps ops k acc)
  | .nil, acc, h => h
  | .cons g sub rest, acc, h => specOps_wf k rest _ (mul_wf _ _ _ (embed_wf _ _ _) h)

/-- a non-empty composite -/
theorem gateSem_composite (n : Nat) (bits : List Nat) (hv : validBits n bits = true) (nm : String)
    (cs : List (Chunk P)) (opsT : OpList P) (ho : OpsSem (α := α) n cs opsT bits) :
    GateSem (α := α) n cs (.Composite nm bits.length opsT) bits := by
  obtain ⟨a, ha, c, hc, hr⟩ := ho
  refine ⟨?_, a, ha, c, hc, fun ψ hψ => ?_⟩
  · simp only [specMatrix]; exact specOps_wf _ opsT _ (identity_wf _)
  · have := hr (LMat.identity (2 ^ bits.length)) ψ (identity_wf _) hψ
    rw [mulVec_embed_one n ψ hψ bits hv] at this
    rw [this]; rfl

theorem chunkApps_repeat (b : List (Chunk P)) (a : List (String × List P × List Nat))
    (h : chunkApps b = some a) (j : Nat) : chunkApps (repeatAppend b j) = some (repeatAppend a j) := by
  induction j with
  | zero => rfl
  | succ j ih => exact chunkApps_append _ _ _ _ h ih

theorem pow_comm_vec (n : Nat) (bits : List Nat) (hv : validBits n bits = true) (B : LMat α)
    (hB : WFMat (2 ^ bits.length) B) (j : Nat) (ψ : List α) (hψ : ψ.length = 2 ^ n) :
    LMat.mulVec (embed n bits (mpow B j)) (LMat.mulVec (embed n bits B) ψ) =
      LMat.mulVec (embed n bits B) (LMat.mulVec (embed n bits (mpow B j)) ψ) := by
  induction j generalizing ψ with
  | zero =>
    show LMat.mulVec (embed n bits (LMat.identity B.length)) _ = LMat.mulVec _ (LMat.mulVec (embed n bits (LMat.identity B.length)) ψ)
    rw [hB.1, mulVec_embed_one n _ (mulVec_embed_length n ψ hψ bits B) bits hv, mulVec_embed_one n ψ hψ bits hv]
  | succ j ih =>
    show LMat.mulVec (embed n bits (LMat.mul B (mpow B j))) _ =
      LMat.mulVec _ (LMat.mulVec (embed n bits (LMat.mul B (mpow B j))) ψ)
    rw [mulVec_embed_mul n _ (mulVec_embed_length n ψ hψ bits B) bits hv B _ hB (mpow_wf _ B hB j),
      mulVec_embed_mul n ψ hψ bits hv B _ hB (mpow_wf _ B hB j), ih ψ hψ]

theorem unit_pow (h : LawfulAmp α P) (c : α) (hc : c * Amp.conj P c = 1) (j : Nat) :
    c ^ j * Amp.conj P (c ^ j) = 1 := by
  induction j with
  | zero => simp [h.conj_one]
  | succ j ih => rw [pow_succ]; exact conj_unit_mul h _ _ ih hc

/-- a loop around a non-empty body, executed `iters` times -/
theorem gateSem_loop (h : LawfulAmp α P) (n : Nat) (bits : List Nat) (hv : validBits n bits = true)
    (l nm : String) (iters : Nat) (cs : List (Chunk P)) (opsT : OpList P)
    (ho : OpsSem (α := α) n cs opsT bits) :
    GateSem (α := α) n (repeatAppend cs iters) (.Loop l iters nm bits.length opsT) bits := by
  obtain ⟨a, ha, c, hc, hr⟩ := ho
  have hB : WFMat (2 ^ bits.length) (specOps opsT bits.length (LMat.identity (2 ^ bits.length)) : LMat α) :=
    specOps_wf _ opsT _ (identity_wf _)
  have hbody : ∀ ψ : List α, ψ.length = 2 ^ n → applyApps n a ψ =
      some (vsmul c (LMat.mulVec (embed n bits (specOps opsT bits.length (LMat.identity (2 ^ bits.length)))) ψ)) := by
    intro ψ hψ
    have := hr (LMat.identity (2 ^ bits.length)) ψ (identity_wf _) hψ
    rw [mulVec_embed_one n ψ hψ bits hv] at this
    exact this
  refine ⟨?_, repeatAppend a iters, chunkApps_repeat cs a ha iters, c ^ iters, unit_pow h c hc iters, ?_⟩
  · simp only [specMatrix]; exact mpow_wf _ _ hB iters
  · intro ψ hψ
    show _ = some (vsmul (c ^ iters) (LMat.mulVec (embed n bits (mpow _ iters)) ψ))
    generalize (specOps opsT bits.length (LMat.identity (2 ^ bits.length)) : LMat α) = B at hB hbody ⊢
    clear hr
    induction iters generalizing ψ with
    | zero =>
      show some ψ = some (vsmul (c ^ 0) (LMat.mulVec (embed n bits (LMat.identity B.length)) ψ))
      rw [hB.1, mulVec_embed_one n ψ hψ bits hv, pow_zero, vsmul_one]
    | succ j ih =>
      show applyApps n (a ++ repeatAppend a j) ψ = _
      rw [applyApps_append, hbody ψ hψ, Option.bind_some, applyApps_vsmul,
        ih _ (mulVec_embed_length n ψ hψ bits B)]
      simp only [Option.map_some, vsmul_vsmul]
      rw [pow_comm_vec n bits hv B hB j ψ hψ]
      show _ = some (vsmul (c ^ (j + 1)) (LMat.mulVec (embed n bits (LMat.mul B (mpow B j))) ψ))
      rw [mulVec_embed_mul n ψ hψ bits hv B _ hB (mpow_wf _ B hB j), pow_succ, mul_comm]

/-! ## every sound gate -/

mutual
/-- every library leaf has a name accepted by `ok` -/
def QGate.leavesOk (ok : String → Bool) : QGate P → Bool
  | .lib name _ => ok name
  | .ctrl g => g.leavesOk ok
  | .kron a b => a.leavesOk ok && b.leavesOk ok
  | .composite _ _ ops => ops.leavesOk ok
  | .loop _ _ _ _ body => body.leavesOk ok
def QOps.leavesOk (ok : String → Bool) : QOps P → Bool
  | .nil => true
  | .cons g _ rest => g.leavesOk ok && rest.leavesOk ok
end

/-- the per-gate obligation for the library gates named by `ok` -/
def LeavesOK' (α P : Type) [CommRing α] [Amp α P] [Angle P] (tbl : List GateTpl) (ok : String → Bool) : Prop :=
  ∀ (name : String) (t : GateTpl), ok name = true → lookupTpl tbl name = some t → goodTpl t = true →
    ∀ vals : List P, vals.length = t.params.length → LibGateOK α P tbl name vals

theorem direct_eq_map (ps : List (QParam P)) (h : ∀ p ∈ ps, p.isDirect = true) :
    ps = (ps.map QParam.value).map QParam.direct := by
  induction ps with
  | nil => rfl
  | cons p ps ih =>
    have hp := h p (List.mem_cons_self ..)
    cases p with
    | direct v =>
      simp only [List.map_cons, QParam.value]
      rw [← ih fun q hq => h q (List.mem_cons_of_mem _ hq)]
    | ref nm v => simp [QParam.isDirect] at hp

mutual
theorem exportGate_sem (h : LawfulAmp α P) (tbl : List GateTpl) (ok : String → Bool)
    (hleaf : LeavesOK' α P tbl ok) (n : Nat) :
    ∀ (g : QGate P) (bits : List Nat) (cs : List (Chunk P)), g.sound tbl = true → g.leavesOk ok = true →
      validBits n bits = true → bits.length = nbits tbl g →
      exportGate tbl (qbitNames n) none g bits = .ok cs →
      ∃ term, g.toTerm = some term ∧ GateSem (α := α) n cs term bits
  | .lib name ps, bits, cs, hs, hk, hv, hl, he => by
    unfold QGate.sound at hs
    unfold nbits at hl
    cases ht : lookupTpl tbl name with
    | none => rw [ht] at hs; cases hs
    | some t =>
      rw [ht] at hs hl
      simp only [Bool.and_eq_true, beq_iff_eq, List.all_eq_true] at hs
      simp only at hl
      have hps := direct_eq_map ps hs.2
      rw [hps] at he
      have hlen : (ps.map QParam.value).length = t.params.length := by simpa using hs.1.2
      obtain ⟨term, hterm, hsem⟩ := leaf_sem tbl name t ht hs.1.1 (ps.map QParam.value) hlen
        (hleaf name t (by simpa [QGate.leavesOk] using hk) ht hs.1.1 _ hlen) n bits hv hl cs he
      exact ⟨term, by simpa [QGate.toTerm] using hterm, hsem⟩
  | .ctrl g, _, _, hs, _, _, _, _ => by simp [QGate.sound] at hs
  | .kron g0 g1, bits, cs, hs, hk, hv, hl, he => by
    unfold QGate.sound at hs
    unfold QGate.leavesOk at hk
    simp only [Bool.and_eq_true] at hs hk
    unfold exportGate at he
    unfold nbits at hl
    simp only at he
    have hlt : ¬ bits.length < nbits tbl g0 := by omega
    simp only [hlt, if_false] at he
    obtain ⟨a, ha, he⟩ := Res.bind_eq_ok.1 he
    obtain ⟨b, hb, he⟩ := Res.bind_eq_ok.1 he
    simp only [Res.ok.injEq] at he
    subst he
    have hbits : bits.take (nbits tbl g0) ++ bits.drop (nbits tbl g0) = bits := List.take_append_drop _ _
    have hv' : validBits n (bits.take (nbits tbl g0) ++ bits.drop (nbits tbl g0)) = true := by rw [hbits]; exact hv
    obtain ⟨hv0, hv1, _⟩ := validBits_of_append n _ _ hv'
    obtain ⟨t0, ht0, hs0⟩ := exportGate_sem h tbl ok hleaf n g0 _ a hs.1 hk.1 hv0 (by simp; omega) ha
    obtain ⟨t1, ht1, hs1⟩ := exportGate_sem h tbl ok hleaf n g1 _ b hs.2 hk.2 hv1 (by simp; omega) hb
    refine ⟨.Kron t0 t1, by simp [QGate.toTerm, ht0, ht1], ?_⟩
    have := gateSem_kron h n a b t0 t1 _ _ hv' hs0 hs1
    rw [hbits] at this
    exact this
  | .composite nm k ops, bits, cs, hs, hk, hv, hl, he => by
    unfold QGate.sound at hs
    unfold QGate.leavesOk at hk
    simp only [Bool.and_eq_true] at hs
    unfold exportGate at he
    unfold nbits at hl
    cases ops with
    | nil => simp [QOps.nonEmpty] at hs
    | cons g sub rest =>
      simp only at he
      obtain ⟨opsT, hopsT, hsem⟩ := exportOps_sem h tbl ok hleaf n _ bits cs (hl ▸ hs.2) hk hv he
      refine ⟨.Composite nm k opsT, by simp [QGate.toTerm, hopsT], ?_⟩
      have := gateSem_composite n bits hv nm cs opsT hsem
      rw [hl] at this
      exact this
  | .loop l iters nm k body, bits, cs, hs, hk, hv, hl, he => by
    unfold QGate.sound at hs
    unfold QGate.leavesOk at hk
    simp only [Bool.and_eq_true, decide_eq_true_eq] at hs
    unfold exportGate at he
    unfold nbits at hl
    have hi : ¬ iters = 0 := by omega
    simp only [hi, if_false] at he
    cases body with
    | nil => simp [QOps.nonEmpty] at hs
    | cons g sub rest =>
      simp only at he
      obtain ⟨b, hb, he⟩ := Res.bind_eq_ok.1 he
      simp only [Res.ok.injEq] at he
      subst he
      obtain ⟨opsT, hopsT, hsem⟩ := exportOps_sem h tbl ok hleaf n _ bits b (hl ▸ hs.2) hk hv hb
      refine ⟨.Loop l iters nm k opsT, by simp [QGate.toTerm, hopsT], ?_⟩
      have := gateSem_loop h n bits hv l nm iters b opsT hsem
      rw [hl] at this
      exact this
theorem exportOps_sem (h : LawfulAmp α P) (tbl : List GateTpl) (ok : String → Bool)
    (hleaf : LeavesOK' α P tbl ok) (n : Nat) :
    ∀ (ops : QOps P) (bits : List Nat) (cs : List (Chunk P)), ops.sound tbl bits.length = true →
      ops.leavesOk ok = true → validBits n bits = true →
      exportOps tbl (qbitNames n) none ops bits = .ok cs →
      ∃ opsT, ops.toTerm = some opsT ∧ OpsSem (α := α) n cs opsT bits
  | .nil, bits, cs, _, _, _, he => by
    simp only [exportOps, Res.ok.injEq] at he
    subst he
    exact ⟨.nil, rfl, opsSem_nil h n bits⟩
  | .cons g sub rest, bits, cs, hs, hk, hv, he => by
    unfold QOps.sound at hs
    unfold QOps.leavesOk at hk
    simp only [Bool.and_eq_true, beq_iff_eq, decide_eq_true_eq, List.all_eq_true] at hs hk
    obtain ⟨⟨⟨⟨hg, hlen⟩, hnd⟩, hlt⟩, hrest⟩ := hs
    unfold exportOps at he
    rw [sub_mapM bits sub hlt] at he
    simp only at he
    obtain ⟨a, ha, he⟩ := Res.bind_eq_ok.1 he
    obtain ⟨b, hb, he⟩ := Res.bind_eq_ok.1 he
    simp only [Res.ok.injEq] at he
    subst he
    have hsub : validBits bits.length sub = true := (validBits_iff' _ _).2 ⟨hlt, hnd⟩
    have hvr : validBits n (relabel bits sub) = true := validBits_relabel n bits sub hv hsub
    obtain ⟨tg, htg, hsg⟩ := exportGate_sem h tbl ok hleaf n g (relabel bits sub) a hg hk.1 hvr
      (by simp [relabel, hlen]) ha
    obtain ⟨restT, hrT, hsr⟩ := exportOps_sem h tbl ok hleaf n rest bits b hrest hk.2 hv hb
    exact ⟨.cons tg sub restT, by simp [QOps.toTerm, htg, hrT], opsSem_cons h n bits sub hv hsub a b tg restT hsg hsr⟩
end

/-! ## running the exported lines -/

theorem exportRegs_q (n nc : Nat) (hn : 0 < n) : (exportRegs n nc).qregs = [("q", n)] := by
  simp [exportRegs, hn]
theorem exportRegs_b (n nc : Nat) (hc : 0 < nc) : (exportRegs n nc).cregs = [("b", nc)] := by
  simp [exportRegs, hc]

/-- a gate application on listed qubits of the register `q` is the embedded matrix -/
theorem runApp_idx (n nc : Nat) (hn : 0 < n) (name : String) (vals : List P) (is : List Nat)
    (his : ∀ i ∈ is, i < n) (ψ : List α) (w : Nat) :
    runApp (α := α) n (exportRegs n nc) name vals (is.map (QArg.idx "q")) (ψ, w) =
      (gateMatrix (α := α) defaultFuel name vals).map fun m => [(LMat.mulVec (embed n is m) ψ, w)] := by
  unfold runApp
  cases gateMatrix (α := α) defaultFuel name vals with
  | none => rfl
  | some m => simp [exportRegs_q n nc hn, resolve_idx "q" n is his, instances_idx]

theorem toQArg_mapM (is : List Nat) :
    (is.map (QRef.bit "q")).mapM QRef.toQArg = some (is.map (QArg.idx "q")) := by
  rw [List.mapM_map]
  exact mapM_eq_map _ _ _ fun _ _ => rfl

/-- what `chunkApps` does with one chunk -/
def chunkF (c : Chunk P) : Option (String × List P × List Nat) :=
  match c.conds, c.app with
  | [], some a => do
    let vals ← a.args.mapM Arg.eval
    let qs ← a.qargs.mapM QRef.localBit
    pure (a.name, vals, qs)
  | _, _ => none

theorem chunkApps_eq (cs : List (Chunk P)) : chunkApps cs = cs.mapM chunkF := rfl

theorem chunkF_ok (c : Chunk P) (a : App P) (is : List Nat) (h1 : c.conds = []) (h2 : c.app = some a)
    (h3 : a.qargs = is.map (QRef.bit "q")) :
    chunkF c = (a.args.mapM Arg.eval).map fun vals => (a.name, vals, is) := by
  unfold chunkF
  rw [h1, h2]
  simp only [h3, localBit_mapM]
  cases a.args.mapM Arg.eval with
  | none => rfl
  | some vals => rfl

theorem flatten_singletons {β γ : Type} (f : β → γ) (l : List β) : (l.map fun b => [f b]).flatten = l.map f := by
  induction l with
  | nil => rfl
  | cons b l ih => simp [ih]

/-- the lines of an unconditional gate translation act on every branch as the statement sequence does -/
theorem run_gateLines (n nc : Nat) (hn : 0 < n) (nz : List α → Bool) :
    ∀ (cs : List (Chunk P)) (apps : List (String × List P × List Nat)) (brs : List (Branch α)),
      (∀ c ∈ cs, ChunkOK' n none c) → chunkApps cs = some apps →
      linesRun n (exportRegs n nc) nz (gateLines cs) brs =
        brs.mapM fun b => (applyApps (α := α) n apps b.1).map fun φ => (φ, b.2)
  | [], apps, brs, _, ha => by
    rw [chunkApps_eq] at ha
    simp only [List.mapM_nil, Option.pure_def, Option.some.injEq] at ha
    subst ha
    simp only [gateLines, List.map_nil, linesRun, applyApps, Option.map_some]
    rw [mapM_eq_map (fun b : Branch α => some (b.1, b.2)) id brs fun _ _ => rfl]; simp
  | c :: cs, apps, brs, hok, ha => by
    obtain ⟨⟨_, a, hca, hokA⟩, hnone⟩ := hok c (List.mem_cons_self ..)
    obtain ⟨_, _, is, hqs, _, hlt⟩ := hokA
    have hconds := hnone rfl
    rw [chunkApps_eq, List.mapM_cons, chunkF_ok c a is hconds hca hqs] at ha
    cases hv : a.args.mapM Arg.eval with
    | none => simp [hv] at ha
    | some vals =>
      cases hrest : cs.mapM chunkF with
      | none => simp [hv, hrest] at ha
      | some appsR =>
        simp only [hv, hrest, Option.map_some, Option.pure_def, Option.bind_eq_bind, Option.bind_some,
          Option.some.injEq] at ha
        subst ha
        have ih := run_gateLines n nc hn nz cs appsR
        have hline : ∀ b : Branch α, Line.run (P := P) n (exportRegs n nc) nz (Line.gate c) b =
            (gateMatrix (α := α) defaultFuel a.name vals).map fun m => [(LMat.mulVec (embed n is m) b.1, b.2)] := by
          intro b
          simp only [Line.run, Chunk.run, hca, hv, hqs, toQArg_mapM, hconds, Option.pure_def, Option.bind_eq_bind,
            Option.bind_some]
          exact runApp_idx n nc hn a.name vals is hlt b.1 b.2
        have hfun : Line.run (α := α) (P := P) n (exportRegs n nc) nz (Line.gate c) = fun b =>
            (gateMatrix (α := α) defaultFuel a.name vals).map fun m => [(LMat.mulVec (embed n is m) b.1, b.2)] :=
          funext hline
        simp only [gateLines, List.map_cons, linesRun]
        rw [hfun]
        cases hm : gateMatrix (α := α) defaultFuel a.name vals with
        | none =>
          cases brs with
          | nil =>
            have := ih [] (fun c hc => hok c (List.mem_cons_of_mem _ hc)) (by rw [chunkApps_eq]; exact hrest)
            simp only [gateLines, List.mapM_nil] at this
            simp [this]
          | cons b brs =>
            simp [List.mapM_cons, applyApps, hm]
        | some m =>
          simp only [Option.map_some]
          rw [mapM_eq_map _ (fun b : Branch α => [(LMat.mulVec (embed n is m) b.1, b.2)]) brs fun _ _ => rfl]
          simp only [Option.bind_some]
          rw [flatten_singletons (fun b : Branch α => (LMat.mulVec (embed n is m) b.1, b.2))]
          have := ih (brs.map fun b => (LMat.mulVec (embed n is m) b.1, b.2))
            (fun c hc => hok c (List.mem_cons_of_mem _ hc)) (by rw [chunkApps_eq]; exact hrest)
          simp only [gateLines] at this
          rw [this, List.mapM_map]
          congr 1
          funext b
          simp [applyApps, hm]

/-! ## branches -/

/-- a branch of the program and a branch of the circuit: same register word, states equal up to a phase of
modulus one (and the invariants: the state has `2^n` amplitudes, the word fits 64 bits) -/
def BrRel (P : Type) [Amp α P] (n : Nat) (b1 b2 : Branch α) : Prop :=
  b1.2 = b2.2 ∧ b2.1.length = 2 ^ n ∧ b2.2 < 2 ^ 64 ∧ ∃ c : α, c * Amp.conj P c = 1 ∧ b1.1 = vsmul c b2.1

theorem forall2_mapM_flatten {β : Type} (R : β → β → Prop) (F G : β → Option (List β))
    (hFG : ∀ b1 b2, R b1 b2 → ∃ x y, F b1 = some x ∧ G b2 = some y ∧ List.Forall₂ R x y) :
    ∀ l1 l2, List.Forall₂ R l1 l2 → ∃ s1 s2, (l1.mapM F).map List.flatten = some s1 ∧
      (l2.mapM G).map List.flatten = some s2 ∧ List.Forall₂ R s1 s2
  | [], [], _ => ⟨[], [], rfl, rfl, List.Forall₂.nil⟩
  | b1 :: l1, b2 :: l2, h => by
    cases h with
    | cons hb hl =>
      obtain ⟨x, y, hx, hy, hxy⟩ := hFG b1 b2 hb
      obtain ⟨s1, s2, h1, h2, h12⟩ := forall2_mapM_flatten R F G hFG l1 l2 hl
      cases e1 : l1.mapM F with
      | none => simp [e1] at h1
      | some r1 =>
        cases e2 : l2.mapM G with
        | none => simp [e2] at h2
        | some r2 =>
          simp only [e1, e2, Option.map_some, Option.some.injEq] at h1 h2
          subst h1 h2
          refine ⟨x ++ r1.flatten, y ++ r2.flatten, by simp [List.mapM_cons, hx, e1], by simp [List.mapM_cons, hy, e2], ?_⟩
          exact List.rel_append hxy h12

theorem project_vsmul (n q : Nat) (o : Bool) (c : α) (ψ : List α) :
    Spec.project n q o (vsmul c ψ) = vsmul c (Spec.project n q o ψ) := by
  unfold Spec.project vsmul
  rw [List.zipIdx_map]
  simp only [List.map_map]
  refine List.map_congr_left fun x _ => ?_
  obtain ⟨a, i⟩ := x
  by_cases hc : ((qbit n q i == 1) == o) = true <;> simp [hc]

theorem project_length (n q : Nat) (o : Bool) (ψ : List α) : (Spec.project n q o ψ).length = ψ.length := by
  simp [Spec.project]

theorem projectQ_eq (n q : Nat) (o : Bool) (ψ : List α) : projectQ n q o ψ = Spec.project n q o ψ := rfl

theorem flipQ_eq (n q : Nat) (ψ : List α) : flipQ n q ψ = gateOn (P := P) n .X [q] ψ := rfl

/-! ## operations -/

/-- keep every branch (also those of weight zero), on both sides -/
def nzT : List α → Bool := fun _ => true

theorem mapM_single_flatten {β γ : Type} (F : β → Option γ) (l : List β) :
    (l.mapM fun b => (F b).map fun x => [x]).map List.flatten = l.mapM F := by
  rw [mapM_map_option]
  cases l.mapM F with
  | none => rfl
  | some r =>
    have := flatten_singletons id r
    simpa using this

theorem branchesOp_barrier (n : Nat) (qbits : List Nat) (b : Branch α) :
    branchesOp (P := P) n nzT (.barrier qbits) b = some [b] := by
  obtain ⟨ψ, w⟩ := b
  simp [branchesOp, outcomesOf, replayOp, nzT, List.eraseDups_cons]

theorem mapM_singleton_flatten {β : Type} (l : List β) :
    (l.mapM fun b => some [b]).map List.flatten = some l := by
  rw [mapM_eq_map _ (fun b : β => [b]) l fun _ _ => rfl]
  have := flatten_singletons id l
  simpa using this

/-! ### conditional export of single-statement gates -/

mutual
/-- every library leaf translates into exactly one statement (so the default `conditional_open_qasm` conditions
the whole translation) -/
def QGate.singleStmt (tbl : List GateTpl) : QGate P → Bool
  | .lib name _ => match lookupTpl tbl name with
    | some t => t.stmts.length == 1
    | none => false
  | .ctrl _ => false
  | .kron a b => a.singleStmt tbl && b.singleStmt tbl
  | .composite _ _ ops => ops.singleStmt tbl
  | .loop _ _ _ _ body => body.singleStmt tbl
def QOps.singleStmt (tbl : List GateTpl) : QOps P → Bool
  | .nil => true
  | .cons g _ rest => g.singleStmt tbl && rest.singleStmt tbl
end

def addCond (k : Nat) (c : Chunk P) : Chunk P := { c with conds := k :: c.conds }

theorem repeatAppend_map {β γ : Type} (f : β → γ) (xs : List β) (j : Nat) :
    (repeatAppend xs j).map f = repeatAppend (xs.map f) j := by
  induction j with
  | zero => rfl
  | succ j ih => simp [repeatAppend, ih]

theorem Res.map_bind2 {β : Type} (f : List β → List β) (hf : ∀ a b, f (a ++ b) = f a ++ f b)
    (A B : Res (List β)) :
    (A.map f).bind (fun a => (B.map f).bind fun b => Res.ok (a ++ b)) =
      (A.bind fun a => B.bind fun b => Res.ok (a ++ b)).map f := by
  cases A <;> cases B <;> simp [Res.map, Res.bind, hf]

mutual
theorem exportGate_cond_map (tbl : List GateTpl) (n k : Nat) :
    ∀ (g : QGate P) (bits : List Nat), g.sound tbl = true → g.singleStmt tbl = true →
      (∀ b ∈ bits, b < n) → bits.length = nbits tbl g →
      exportGate tbl (qbitNames n) (some k) g bits =
        (exportGate tbl (qbitNames n) none g bits).map (List.map (addCond k))
  | .lib name ps, bits, hs, h1, hb, hl => by
    unfold QGate.sound at hs
    unfold QGate.singleStmt at h1
    unfold nbits at hl
    unfold exportGate
    cases ht : lookupTpl tbl name with
    | none => rw [ht] at hs; cases hs
    | some t =>
      rw [ht] at hs h1 hl
      simp only [Bool.and_eq_true, beq_iff_eq, List.all_eq_true] at hs h1
      simp only at hl
      simp only
      rw [libExport_eq t hs.1.1 ps hs.1.2 n bits hb hl]
      match hst : t.stmts, h1 with
      | [s], _ => simp [Res.map, Res.bind, withCond, prefixCond, addCond]
  | .ctrl g, _, hs, _, _, _ => by simp [QGate.sound] at hs
  | .kron g0 g1, bits, hs, h1, hb, hl => by
    unfold QGate.sound at hs
    unfold QGate.singleStmt at h1
    simp only [Bool.and_eq_true] at hs h1
    unfold nbits at hl
    unfold exportGate
    simp only
    have hlt : ¬ bits.length < nbits tbl g0 := by omega
    simp only [hlt, if_false]
    rw [exportGate_cond_map tbl n k g0 _ hs.1 h1.1 (fun x hx => hb x (List.mem_of_mem_take hx)) (by simp; omega),
      exportGate_cond_map tbl n k g1 _ hs.2 h1.2 (fun x hx => hb x (List.mem_of_mem_drop hx)) (by simp; omega)]
    exact Res.map_bind2 (List.map (addCond k)) (fun a b => List.map_append) _ _
  | .composite _ m ops, bits, hs, h1, hb, hl => by
    unfold QGate.sound at hs
    unfold QGate.singleStmt at h1
    simp only [Bool.and_eq_true] at hs
    unfold nbits at hl
    unfold exportGate
    cases ops with
    | nil => simp [QOps.nonEmpty] at hs
    | cons g sub rest =>
      simp only
      exact exportOps_cond_map tbl n k _ bits (hl ▸ hs.2) h1 hb
  | .loop _ iters _ m body, bits, hs, h1, hb, hl => by
    unfold QGate.sound at hs
    unfold QGate.singleStmt at h1
    simp only [Bool.and_eq_true, decide_eq_true_eq] at hs
    unfold nbits at hl
    unfold exportGate
    have hi : ¬ iters = 0 := by omega
    simp only [hi, if_false]
    cases body with
    | nil => simp [QOps.nonEmpty] at hs
    | cons g sub rest =>
      simp only
      rw [exportOps_cond_map tbl n k _ bits (hl ▸ hs.2) h1 hb]
      cases exportOps tbl (qbitNames n) none (QOps.cons g sub rest) bits with
      | ok b => simp [Res.map, Res.bind, repeatAppend_map]
      | err e => rfl
      | panic => rfl
theorem exportOps_cond_map (tbl : List GateTpl) (n k : Nat) :
    ∀ (ops : QOps P) (bits : List Nat), ops.sound tbl bits.length = true → ops.singleStmt tbl = true →
      (∀ b ∈ bits, b < n) →
      exportOps tbl (qbitNames n) (some k) ops bits =
        (exportOps tbl (qbitNames n) none ops bits).map (List.map (addCond k))
  | .nil, bits, _, _, _ => by simp [exportOps, Res.map, Res.bind]
  | .cons g sub rest, bits, hs, h1, hb => by
    unfold QOps.sound at hs
    unfold QOps.singleStmt at h1
    simp only [Bool.and_eq_true, beq_iff_eq, decide_eq_true_eq, List.all_eq_true] at hs h1
    obtain ⟨⟨⟨⟨hg, hlen⟩, hnd⟩, hlt⟩, hrest⟩ := hs
    unfold exportOps
    rw [sub_mapM bits sub hlt]
    simp only
    rw [exportGate_cond_map tbl n k g _ hg h1.1 (mem_map_getD_lt bits sub n hb hlt) (by simp [hlen]),
      exportOps_cond_map tbl n k rest bits hrest h1.2 hb]
    exact Res.map_bind2 (List.map (addCond k)) (fun a b => List.map_append) _ _
end

theorem mapM_kleisli {β γ δ : Type} (T : β → Option γ) (G : γ → Option δ) (l : List β) :
    (l.mapM T).bind (fun r => r.mapM G) = l.mapM fun b => (T b).bind G := by
  induction l with
  | nil => rfl
  | cons b l ih =>
    rw [List.mapM_cons, List.mapM_cons, ← ih]
    cases hT : T b with
    | none => rfl
    | some x =>
      cases hG : G x with
      | none =>
        cases l.mapM T with
        | none => simp [hG]
        | some xs => simp [List.mapM_cons, hG]
      | some y =>
        cases l.mapM T with
        | none => simp [hG]
        | some xs => simp [List.mapM_cons, hG]

/-- the lines of a CONDITIONAL gate translation in which every statement carries the `if`: a branch whose
register satisfies the condition is transformed as by the unconditional translation, the others are kept -/
theorem run_gateLines_cond (n nc : Nat) (hn : 0 < n) (hnc0 : 0 < nc) (nz : List α → Bool) (k : Nat) :
    ∀ (cs : List (Chunk P)) (apps : List (String × List P × List Nat)) (brs : List (Branch α)),
      (∀ c ∈ cs, ChunkOK' n none c) → chunkApps cs = some apps →
      linesRun n (exportRegs n nc) nz (gateLines (cs.map (addCond k))) brs =
        brs.mapM fun b => if slice b.2 0 nc = k then (applyApps (α := α) n apps b.1).map fun φ => (φ, b.2)
          else some b
  | [], apps, brs, _, ha => by
    rw [chunkApps_eq] at ha
    simp only [List.mapM_nil, Option.pure_def, Option.some.injEq] at ha
    subst ha
    simp only [List.map_nil, gateLines, linesRun, applyApps, Option.map_some, ite_self]
    rw [mapM_eq_map (fun b : Branch α => some b) id brs fun _ _ => rfl]; simp
  | c :: cs, apps, brs, hok, ha => by
    obtain ⟨⟨_, a, hca, hokA⟩, hnone⟩ := hok c (List.mem_cons_self ..)
    obtain ⟨_, _, is, hqs, _, hlt⟩ := hokA
    have hconds := hnone rfl
    rw [chunkApps_eq, List.mapM_cons, chunkF_ok c a is hconds hca hqs] at ha
    cases hv : a.args.mapM Arg.eval with
    | none => simp [hv] at ha
    | some vals =>
      cases hrest : cs.mapM chunkF with
      | none => simp [hv, hrest] at ha
      | some appsR =>
        simp only [hv, hrest, Option.map_some, Option.pure_def, Option.bind_eq_bind, Option.bind_some,
          Option.some.injEq] at ha
        subst ha
        have ih := run_gateLines_cond n nc hn hnc0 nz k cs appsR
        let T : Branch α → Option (Branch α) := fun b =>
          if slice b.2 0 nc = k then
            (gateMatrix (α := α) defaultFuel a.name vals).map fun m => (LMat.mulVec (embed n is m) b.1, b.2)
          else some b
        have hfun : Line.run (α := α) (P := P) n (exportRegs n nc) nz (Line.gate (addCond k c)) = fun b =>
            (T b).map fun x => [x] := by
          funext b
          simp only [Line.run, Chunk.run, addCond, hca, hv, hqs, toQArg_mapM, hconds, Option.pure_def,
            Option.bind_eq_bind, Option.bind_some, exportRegs_b n nc hnc0, findReg, if_true, T]
          by_cases hc : slice b.2 0 nc = k
          · simp only [hc, if_true]
            rw [runApp_idx n nc hn a.name vals is hlt b.1 b.2]
            cases gateMatrix (α := α) defaultFuel a.name vals with
            | none => rfl
            | some m => rfl
          · simp only [hc, if_false, Option.map_some]
        simp only [List.map_cons, gateLines, linesRun]
        rw [hfun]
        have hstep : (brs.mapM fun b => (T b).map fun x => [x]).bind (fun r =>
            linesRun n (exportRegs n nc) nz (List.map Line.gate (cs.map (addCond k))) r.flatten) =
            (brs.mapM T).bind fun r => linesRun n (exportRegs n nc) nz (List.map Line.gate (cs.map (addCond k))) r := by
          rw [mapM_map_option]
          cases brs.mapM T with
          | none => rfl
          | some r =>
            have := flatten_singletons id r
            simp only [id] at this
            simp [this]
        rw [hstep]
        have ih' : ∀ r : List (Branch α), linesRun n (exportRegs n nc) nz (List.map Line.gate (cs.map (addCond k))) r =
            r.mapM fun b => if slice b.2 0 nc = k then (applyApps (α := α) n appsR b.1).map fun φ => (φ, b.2)
              else some b := fun r => by
          have := ih r (fun c hc => hok c (List.mem_cons_of_mem _ hc)) (by rw [chunkApps_eq]; exact hrest)
          simpa [gateLines] using this
        simp only [ih']
        rw [mapM_kleisli]
        congr 1
        funext b
        simp only [T]
        by_cases hc : slice b.2 0 nc = k
        · simp only [hc, if_true, applyApps]
          cases gateMatrix (α := α) defaultFuel a.name vals with
          | none => rfl
          | some m => simp [hc]
        · simp [hc]

/-! ### register bits -/

theorem bitOf_eq_testBit' (w c : Nat) : Spec.bitOf w c = w.testBit c := by
  simp only [Spec.bitOf, Nat.testBit_eq_decide_div_mod_eq, Nat.shiftRight_eq_div_pow]
  by_cases hh : w / 2 ^ c % 2 = 1 <;> simp [hh]

theorem bitOf_writeBit (w c : Nat) (o : Bool) (hw : w < 2 ^ 64) (hc : c < 64) :
    Spec.bitOf (Spec.writeBit w c o) c = o := by
  rw [bitOf_eq_testBit', Spec.writeBit, Sim.SimGF.testBit_setBitTo w c o hw hc]; simp

theorem writeBit_ne (w c : Nat) (hw : w < 2 ^ 64) (hc : c < 64) :
    Spec.writeBit w c false ≠ Spec.writeBit w c true := by
  intro e
  have := congrArg (fun x => Spec.bitOf x c) e
  simp only [bitOf_writeBit w c _ hw hc] at this
  cases this

theorem setBit_eq_writeBit (w c : Nat) (o : Bool) (hw : w < 2 ^ 64) (hc : c < 64) :
    setBit w c o = Spec.writeBit w c o := by
  cases o with
  | true => rfl
  | false =>
    apply Nat.eq_of_testBit_eq
    intro j
    rw [Spec.writeBit, Sim.SimGF.testBit_setBitTo w c false hw hc j]
    simp only [setBit, Bool.false_eq_true, if_false, Nat.testBit_xor, Nat.testBit_and, Nat.one_shiftLeft,
      Nat.testBit_two_pow]
    by_cases hj : j = c
    · subst hj; simp
    · have : ¬ c = j := fun e => hj e.symm
      simp [hj, this]

theorem writeBit_lt (w c : Nat) (o : Bool) (hw : w < 2 ^ 64) (hc : c < 64) : Spec.writeBit w c o < 2 ^ 64 :=
  Sim.SimGF.setBitTo_lt w c o hw hc

theorem branchesOp_measure (n q c : Nat) (ψ : List α) (w : Nat) (hw : w < 2 ^ 64) (hc : c < 64) :
    branchesOp (P := P) n nzT (.measure q c .Z) (ψ, w) =
      some [(Spec.project n q false ψ, Spec.writeBit w c false), (Spec.project n q true ψ, Spec.writeBit w c true)] := by
  have hne := writeBit_ne w c hw hc
  have hb0 := bitOf_writeBit w c false hw hc
  have hb1 := bitOf_writeBit w c true hw hc
  simp only [branchesOp, outcomesOf, replayOp, nzT, List.eraseDups_cons, List.filter_cons, List.filter_nil,
    measureTo, toBasis, fromBasis]
  have hne' : ¬ Spec.writeBit w c true = Spec.writeBit w c false := fun e => hne e.symm
  simp [hne', hb0, hb1, List.eraseDups_cons]

/-! ### the condition word -/

theorem insertSorted_perm (x : Nat) (l : List Nat) : (insertSorted x l).Perm (x :: l) := by
  induction l with
  | nil => exact List.Perm.refl _
  | cons y ys ih =>
    unfold insertSorted
    split
    · exact List.Perm.refl _
    · exact ((List.Perm.cons y ih).trans (List.Perm.swap x y ys))

theorem sortNat_perm (l : List Nat) : (sortNat l).Perm l := by
  induction l with
  | nil => exact List.Perm.refl _
  | cons x xs ih => exact (insertSorted_perm x _).trans (List.Perm.cons x ih)

theorem isIdentityList_eq (l : List Nat) (h : isIdentityList l = true) : l = List.range l.length := by
  apply List.ext_getElem (by simp)
  intro i h1 h2
  simp only [isIdentityList, List.all_eq_true] at h
  have := h (l[i], i) (by rw [List.mem_zipIdx_iff_getElem?]; simp [h1])
  simpa using this

/-- a control list accepted by the exporter is a permutation of the whole register -/
theorem fullRegister_perm (nc : Nat) (control : List Nat) (h : isFullRegister nc control = true) :
    control.Perm (List.range nc) := by
  simp only [isFullRegister, Bool.and_eq_true, beq_iff_eq] at h
  have hp := sortNat_perm control
  have := isIdentityList_eq _ h.2
  rw [hp.length_eq, h.1] at this
  exact (this ▸ hp).symm

theorem foldl_swap_bits (t : Nat) (l : List (Nat × Nat)) (acc : Nat) :
    l.foldl (fun acc (x : Nat × Nat) => acc ||| (((t >>> x.2) &&& 1) <<< x.1)) acc =
      (l.map Prod.swap).foldl (fun acc (p : Nat × Nat) => acc ||| (((t >>> p.1) &&& 1) <<< p.2)) acc := by
  rw [List.foldl_map]; rfl

/-- the exported condition `b == k` holds exactly when the circuit's control word equals the target -/
theorem cond_iff (nc : Nat) (control : List Nat) (target w : Nat) (hf : isFullRegister nc control = true)
    (hnc : nc ≤ 64) (ht : target < 2 ^ nc) :
    ∃ cw k, Sim.controlWord control w = some cw ∧ conditionWord control target = some k ∧
      (cw = target ↔ slice w 0 nc = k) := by
  have hperm := fullRegister_perm nc control hf
  have hlen : control.length = nc := by simpa using hperm.length_eq
  have hmem : ∀ c, c ∈ control ↔ c < nc := fun c => by rw [hperm.mem_iff, List.mem_range]
  have hnd : control.Nodup := hperm.nodup_iff.2 List.nodup_range
  have hall : control.all Sim.shiftOk = true := by
    rw [List.all_eq_true]; intro c hc; simp only [Sim.shiftOk, decide_eq_true_eq]; have := (hmem c).1 hc; omega
  have hall' : control.all (· < 64) = true := by
    rw [List.all_eq_true]; intro c hc; simp only [decide_eq_true_eq]; have := (hmem c).1 hc; omega
  refine ⟨_, _, by rw [Sim.controlWord, if_pos ⟨hall, by omega⟩], by rw [conditionWord, if_pos ⟨by omega, hall'⟩], ?_⟩
  -- bits of the two folded words
  have hcw : ∀ i, (control.zipIdx.foldl (fun acc (x : Nat × Nat) => acc ||| (((w >>> x.1) &&& 1) <<< x.2)) 0).testBit i = true ↔
      ∃ hi : i < control.length, w.testBit control[i] = true := by
    intro i
    rw [Q1t.Proofs.Conditional.sim_fold_bits w control.zipIdx 0 i]
    simp only [Nat.zero_testBit, Bool.false_eq_true, false_or]
    constructor
    · rintro ⟨p, hp, rfl, hb⟩
      rw [List.mem_zipIdx_iff_getElem?] at hp
      obtain ⟨hi, he⟩ := List.getElem?_eq_some_iff.1 hp
      exact ⟨hi, by rw [he]; exact hb⟩
    · rintro ⟨hi, hb⟩
      exact ⟨(control[i], i), by rw [List.mem_zipIdx_iff_getElem?]; simp [hi], rfl, hb⟩
  have hk : ∀ j, (control.zipIdx.foldl (fun acc (x : Nat × Nat) => acc ||| (((target >>> x.2) &&& 1) <<< x.1)) 0).testBit j = true ↔
      ∃ (i : Nat) (hi : i < control.length), control[i] = j ∧ target.testBit i = true := by
    intro j
    rw [foldl_swap_bits, Q1t.Proofs.Conditional.sim_fold_bits target _ 0 j]
    simp only [Nat.zero_testBit, Bool.false_eq_true, false_or]
    constructor
    · rintro ⟨p, hp, rfl, hb⟩
      obtain ⟨q, hq, rfl⟩ := List.mem_map.1 hp
      rw [List.mem_zipIdx_iff_getElem?] at hq
      obtain ⟨hi, he⟩ := List.getElem?_eq_some_iff.1 hq
      exact ⟨q.2, hi, he, hb⟩
    · rintro ⟨i, hi, rfl, hb⟩
      exact ⟨(i, control[i]), List.mem_map.2 ⟨(control[i], i),
        by rw [List.mem_zipIdx_iff_getElem?]; simp [hi], rfl⟩, rfl, hb⟩
  have e1 : (fun (acc : Nat) (x : Nat × Nat) => match x with | (isrc, idst) => acc ||| (w >>> isrc &&& 1) <<< idst) =
      fun acc (x : Nat × Nat) => acc ||| (((w >>> x.1) &&& 1) <<< x.2) := by funext acc x; rfl
  have e2 : (fun (acc : Nat) (x : Nat × Nat) => match x with
      | (sshift, tshift) => acc ||| (target >>> tshift &&& 1) <<< sshift) =
      fun acc (x : Nat × Nat) => acc ||| (((target >>> x.2) &&& 1) <<< x.1) := by funext acc x; rfl
  rw [e1, e2]
  simp only [slice, Nat.shiftRight_zero]
  constructor
  · intro hcwt
    apply Nat.eq_of_testBit_eq
    intro j
    rw [Bool.eq_iff_iff, hk j, Nat.testBit_mod_two_pow]
    simp only [Bool.and_eq_true, decide_eq_true_eq]
    constructor
    · rintro ⟨hj, hb⟩
      obtain ⟨i, hi, he⟩ := List.getElem_of_mem ((hmem j).2 hj)
      refine ⟨i, hi, he, ?_⟩
      rw [← hcwt]
      exact (hcw i).2 ⟨hi, by rw [he]; exact hb⟩
    · rintro ⟨i, hi, he, hb⟩
      rw [← hcwt] at hb
      obtain ⟨_, hb'⟩ := (hcw i).1 hb
      exact ⟨by rw [← he]; exact (hmem _).1 (List.getElem_mem _), by rw [← he]; exact hb'⟩
  · intro hwk
    apply Nat.eq_of_testBit_eq
    intro i
    rw [Bool.eq_iff_iff, hcw i]
    constructor
    · rintro ⟨hi, hb⟩
      have hj : control[i] < nc := (hmem _).1 (List.getElem_mem _)
      have : (w % 2 ^ nc).testBit control[i] = true := by
        rw [Nat.testBit_mod_two_pow]; simp [hj, hb]
      rw [hwk] at this
      obtain ⟨i', hi', he, hb'⟩ := (hk _).1 this
      have : i' = i := (List.Nodup.getElem_inj_iff hnd).1 he
      exact this ▸ hb'
    · intro hb
      have hi : i < control.length := by
        rw [hlen]
        by_contra hge
        have : target.testBit i = false :=
          Nat.testBit_lt_two_pow (Nat.lt_of_lt_of_le ht (Nat.pow_le_pow_right (by omega) (by omega)))
        rw [this] at hb; cases hb
      refine ⟨hi, ?_⟩
      have : (w % 2 ^ nc).testBit control[i] = true := by
        rw [hwk]; exact (hk _).2 ⟨i, hi, rfl, hb⟩
      rw [Nat.testBit_mod_two_pow] at this
      simp only [Bool.and_eq_true, decide_eq_true_eq] at this
      exact this.2

/-! ### reset of the whole register -/

/-- reset the listed qubits one after the other, on a list of candidate states -/
def resetStates (n : Nat) (qs : List Nat) (L : List (List α)) : List (List α) :=
  qs.foldl (fun cands q => cands.flatMap fun φ =>
    [Spec.project n q false φ, gateOn (P := P) n .X [q] (Spec.project n q true φ)]) L

theorem resetPairs_eq (n : Nat) (w : Nat) : ∀ (qs : List Nat) (L : List (List α)),
    qs.foldl (fun (brs : List (Branch α)) qi =>
      (brs.flatMap fun (b : Branch α) =>
        [(projectQ n qi false b.1, b.2), (flipQ n qi (projectQ n qi true b.1), b.2)]).filter
          fun b => nzT b.1) (L.map fun φ => (φ, w)) =
      (resetStates (P := P) n qs L).map fun φ => (φ, w)
  | [], L => rfl
  | q :: qs, L => by
    simp only [List.foldl_cons, resetStates]
    have : ((L.map fun φ => ((φ, w) : Branch α)).flatMap fun (b : Branch α) =>
        [(projectQ n q false b.1, b.2), (flipQ n q (projectQ n q true b.1), b.2)]).filter (fun b => nzT b.1) =
        (L.flatMap fun φ => [Spec.project n q false φ, gateOn (P := P) n .X [q] (Spec.project n q true φ)]).map
          fun φ => (φ, w) := by
      have hfil : ∀ l : List (Branch α), l.filter (fun b => nzT b.1) = l := fun l =>
        List.filter_eq_self.2 (fun _ _ => rfl)
      rw [hfil]
      induction L with
      | nil => rfl
      | cons φ L ih =>
        simp only [List.map_cons, List.flatMap_cons, List.map_append, ih]
        rfl
    rw [this]
    exact resetPairs_eq n w qs _

theorem resetStates_rel (n : Nat) (c0 : α) : ∀ (qs : List Nat) (L1 L2 : List (List α)),
    List.Forall₂ (fun a b => b.length = 2 ^ n ∧ a = vsmul c0 b) L1 L2 →
    List.Forall₂ (fun a b => b.length = 2 ^ n ∧ a = vsmul c0 b) (resetStates (P := P) n qs L1)
      (resetStates (P := P) n qs L2)
  | [], _, _, h => h
  | q :: qs, L1, L2, h => by
    simp only [resetStates, List.foldl_cons]
    apply resetStates_rel n c0 qs
    induction h with
    | nil => exact List.Forall₂.nil
    | cons hab _ ih =>
      obtain ⟨hl, rfl⟩ := hab
      simp only [List.flatMap_cons]
      refine List.rel_append (List.Forall₂.cons ⟨by rw [project_length]; exact hl, project_vsmul n q false c0 _⟩
        (List.Forall₂.cons ⟨gateOn_length n _ _ _, ?_⟩ List.Forall₂.nil)) ih
      rw [project_vsmul]
      unfold gateOn
      rw [mulVec_vsmul _ _ (embed_wf n [q] _)]

/-! ### `measure_all`: branch lists up to a permutation -/

/-- the program's branches correspond one to one to a PERMUTATION of the circuit's branches -/
def PermRel (P : Type) [Amp α P] (n : Nat) (l1 l2 : List (Branch α)) : Prop :=
  ∃ l, l.Perm l2 ∧ List.Forall₂ (BrRel P n) l1 l

theorem PermRel.of_forall2 {n : Nat} {l1 l2 : List (Branch α)} (h : List.Forall₂ (BrRel P n) l1 l2) :
    PermRel P n l1 l2 := ⟨l2, List.Perm.refl _, h⟩

theorem PermRel.append {n : Nat} {a1 a2 b1 b2 : List (Branch α)} (ha : PermRel P n a1 a2)
    (hb : PermRel P n b1 b2) : PermRel P n (a1 ++ b1) (a2 ++ b2) := by
  obtain ⟨la, hpa, hfa⟩ := ha
  obtain ⟨lb, hpb, hfb⟩ := hb
  exact ⟨la ++ lb, List.Perm.append hpa hpb, List.rel_append hfa hfb⟩

theorem mapM_cons_some {β γ : Type} (G : β → Option γ) (x : β) (l : List β) (r : List γ)
    (h : (x :: l).mapM G = some r) : ∃ a r', G x = some a ∧ l.mapM G = some r' ∧ r = a :: r' := by
  rw [List.mapM_cons] at h
  cases hx : G x with
  | none => simp [hx] at h
  | some a =>
    cases hl : l.mapM G with
    | none => simp [hx, hl] at h
    | some r' =>
      simp [hx, hl] at h
      exact ⟨a, r', rfl, rfl, h.symm⟩

/-- a pointwise partial map on a permuted list gives a permuted (flattened) result -/
theorem mapM_flatten_perm {β γ : Type} (G : β → Option (List γ)) {l l2 : List β} (hp : l.Perm l2) :
    ∀ r, l.mapM G = some r → ∃ r2, l2.mapM G = some r2 ∧ r.flatten.Perm r2.flatten := by
  induction hp with
  | nil => intro r h; exact ⟨r, h, List.Perm.refl _⟩
  | cons x _ ih =>
    intro r h
    obtain ⟨a, r', hx, hl, rfl⟩ := mapM_cons_some G x _ r h
    obtain ⟨r2, h2, hp2⟩ := ih r' hl
    exact ⟨a :: r2, by simp [List.mapM_cons, hx, h2], by simpa using List.Perm.append_left a hp2⟩
  | swap x y t =>
    intro r h
    obtain ⟨b, r1, hy, h1, rfl⟩ := mapM_cons_some G y _ r h
    obtain ⟨a, rt, hx, ht, rfl⟩ := mapM_cons_some G x _ r1 h1
    refine ⟨a :: b :: rt, by simp [List.mapM_cons, hx, hy, ht], ?_⟩
    simp only [List.flatten_cons, ← List.append_assoc]
    exact List.Perm.append_right _ List.perm_append_comm
  | trans _ _ ih1 ih2 =>
    intro r h
    obtain ⟨r2, h2, hp2⟩ := ih1 r h
    obtain ⟨r3, h3, hp3⟩ := ih2 r2 h2
    exact ⟨r3, h3, hp2.trans hp3⟩

/-- all register words fit 64 bits -/
def AllLt (L : List (Branch α)) : Prop := ∀ b ∈ L, b.2 < 2 ^ 64

theorem mstep_allLt (n : Nat) (p : Nat × Nat) (hp : p.2 < 64) (L : List (Branch α)) (h : AllLt L) :
    AllLt (mstep n p L) := by
  intro b hb
  simp only [mstep, List.mem_flatMap, List.mem_cons, List.not_mem_nil, or_false] at hb
  obtain ⟨b0, hb0, rfl | rfl⟩ := hb
  · exact writeBit_lt b0.2 p.2 false (h b0 hb0) hp
  · exact writeBit_lt b0.2 p.2 true (h b0 hb0) hp

/-- the fold the semantics of `measure a -> c` performs, with `OQ2.setBit`, is the sequential measurement -/
theorem measureFold_eq (n : Nat) : ∀ (prs : List (Nat × Nat)) (L : List (Branch α)), AllLt L →
    (∀ p ∈ prs, p.2 < 64) →
    prs.foldl (fun (brs : List (Branch α)) (p : Nat × Nat) =>
      (brs.flatMap fun (b : Branch α) =>
        [(projectQ n p.1 false b.1, setBit b.2 p.2 false), (projectQ n p.1 true b.1, setBit b.2 p.2 true)]).filter
          fun b => nzT b.1) L = seqMeasure n prs L ∧ AllLt (seqMeasure n prs L)
  | [], L, h, _ => ⟨rfl, h⟩
  | p :: ps, L, h, h64 => by
    have hp := h64 p (List.mem_cons_self ..)
    have hstep : ((L.flatMap fun (b : Branch α) =>
        [(projectQ n p.1 false b.1, setBit b.2 p.2 false), (projectQ n p.1 true b.1, setBit b.2 p.2 true)]).filter
          fun b => nzT b.1) = mstep n p L := by
      have hfil : ∀ l : List (Branch α), l.filter (fun b => nzT b.1) = l := fun l =>
        List.filter_eq_self.2 (fun _ _ => rfl)
      rw [hfil]
      unfold mstep
      refine List.flatMap_congr fun b hb => ?_
      simp only [stepB, projectQ_eq, setBit_eq_writeBit b.2 p.2 _ (h b hb) hp]
    simp only [List.foldl_cons, hstep, seqMeasure]
    exact measureFold_eq n ps _ (mstep_allLt n p hp L h) fun q hq => h64 q (List.mem_cons_of_mem _ hq)

theorem zipIdx_swap_qpairs (cbits : List Nat) :
    cbits.zipIdx.map (fun x => (x.2, x.1)) = qpairs cbits.length cbits := by
  apply List.ext_getElem (by simp [qpairs])
  intro i h1 h2
  simp only [List.length_map, List.length_zipIdx] at h1
  simp [qpairs, List.getD_eq_getElem?_getD, h1]

/-- running a list of lines on a list of branches, when every line acts branch by branch -/
theorem linesRun_single (n : Nat) (rg : Regs) (nz : List α → Bool) (l : Line P) (L : List (Branch α))
    (S : Branch α → List (Branch α)) (h : ∀ b ∈ L, Line.run (α := α) n rg nz l b = some (S b)) :
    (L.mapM (Line.run (α := α) n rg nz l)).map List.flatten = some (L.flatMap S) := by
  rw [mapM_congr_mem _ (fun b => some (S b)) L h, mapM_eq_map _ S L fun _ _ => rfl]
  simp [List.flatMap_def]

theorem run_measure_line (nq nc : Nat) (hq : 0 < nq) (hnc : nc ≤ 64) (i c : Nat) (hi : i < nq) (hc : c < nc)
    (b : Branch α) (hb : b.2 < 2 ^ 64) :
    Line.run (α := α) (P := P) nq (exportRegs nq nc) nzT (Line.measure (QRef.bit "q" i) (QRef.bit "b" c)) b =
      some (seqMeasure nq [(i, c)] [b]) := by
  have hnc0 : 0 < nc := by omega
  have hc64 : c < 64 := by omega
  obtain ⟨φ, u⟩ := b
  simp only [Line.run, QRef.toQArg, Option.pure_def, Option.bind_eq_bind, Option.bind_some, runOp, resolveArg,
    exportRegs_q nq nc hq, exportRegs_b nq nc hnc0, findReg, if_true, hi, hc, Option.bind_some]
  simp only [List.length_singleton, ne_eq, not_true_eq_false, if_false, List.zip_cons_cons, List.zip_nil_right,
    List.foldl_cons, List.foldl_nil, List.flatMap_cons, List.flatMap_nil, List.append_nil, nzT,
    List.filter_cons_of_pos, List.filter_nil, projectQ_eq, Nat.zero_add,
    setBit_eq_writeBit u c _ hb hc64]
  simp [seqMeasure, mstep, stepB]

/-- the lines `measure q[i] -> b[c];` for a list of pairs, on any list of branches whose words fit 64 bits -/
theorem run_measure_lines (nq nc : Nat) (hq : 0 < nq) (hnc : nc ≤ 64) :
    ∀ (prs : List (Nat × Nat)) (L : List (Branch α)), (∀ p ∈ prs, p.1 < nq ∧ p.2 < nc) → AllLt L →
      linesRun (P := P) nq (exportRegs nq nc) nzT
        (prs.map fun p => Line.measure (QRef.bit "q" p.1) (QRef.bit "b" p.2)) L = some (seqMeasure nq prs L)
  | [], L, _, _ => rfl
  | p :: ps, L, hp, hL => by
    obtain ⟨h1, h2⟩ := hp p (List.mem_cons_self ..)
    simp only [List.map_cons, linesRun]
    have := linesRun_single (P := P) nq (exportRegs nq nc) nzT
      (Line.measure (QRef.bit "q" p.1) (QRef.bit "b" p.2)) L (fun b => seqMeasure nq [(p.1, p.2)] [b])
      (fun b hb => run_measure_line nq nc hq hnc p.1 p.2 h1 h2 b (hL b hb))
    cases hm : L.mapM (Line.run (α := α) (P := P) nq (exportRegs nq nc) nzT
        (Line.measure (QRef.bit "q" p.1) (QRef.bit "b" p.2))) with
    | none => rw [hm] at this; cases this
    | some r =>
      rw [hm] at this
      simp only [Option.map_some, Option.some.injEq] at this
      simp only [Option.bind_some, this]
      have e : (L.flatMap fun b => seqMeasure nq [(p.1, p.2)] [b]) = mstep nq p L := by
        simp [seqMeasure, mstep]
      rw [e, run_measure_lines nq nc hq hnc ps _ (fun q hq' => hp q (List.mem_cons_of_mem _ hq'))
        (mstep_allLt nq p (by omega) L hL)]
      rfl

theorem qpairs_range (n : Nat) : qpairs n (List.range n) = (List.range n).map fun i => (i, i) := by
  unfold qpairs
  refine List.map_congr_left fun q hq => ?_
  have := List.mem_range.1 hq
  simp [List.getD_eq_getElem?_getD, this]

theorem zip_self_range (n : Nat) : (List.range n).zip (List.range n) = (List.range n).map fun i => (i, i) := by
  rw [List.zip_eq_zipWith, List.zipWith_self]

/-- the line `measure q -> b;` (whole registers of equal size) on one branch -/
theorem run_measure_regs (n : Nat) (hq : 0 < n) (hn64 : n ≤ 64) (b : Branch α) (hb : b.2 < 2 ^ 64) :
    Line.run (α := α) (P := P) n (exportRegs n n) nzT (Line.measure (QRef.reg "q") (QRef.reg "b")) b =
      some (seqMeasure n (qpairs n (List.range n)) [b]) := by
  obtain ⟨φ, u⟩ := b
  have hfold := (measureFold_eq (α := α) n (qpairs n (List.range n)) [(φ, u)]
    (fun x hx => by simp only [List.mem_singleton] at hx; subst hx; exact hb)
    (fun p hp => by
      rw [qpairs_range] at hp
      obtain ⟨i, hi, rfl⟩ := List.mem_map.1 hp
      have := List.mem_range.1 hi
      simp only; omega)).1
  rw [← hfold, qpairs_range, ← zip_self_range]
  simp only [Line.run, QRef.toQArg, Option.pure_def, Option.bind_eq_bind, Option.bind_some, runOp, resolveArg,
    exportRegs_q n n hq, exportRegs_b n n hq, findReg, if_true, Option.map_some, Nat.zero_add, List.map_id',
    List.length_range, ne_eq, not_true_eq_false, if_false]

/-- the class of operations for which the equivalence is proved: unconditional sound gates whose leaves are
accepted by `ok`, on valid qubits; barriers; resets of a qubit in range; Z-basis measurements with operands in range; conditional gates on a
permutation of the whole classical register with a target the list can spell, all of whose leaves translate into a
single statement -/
def QOp.equivSound1 (tbl : List GateTpl) (ok : String → Bool) (nq nc : Nat) : QOp P → Bool
  | .gate g bits => g.sound tbl && g.leavesOk ok && validBits nq bits && bits.length == nbits tbl g
  | .reset q => decide (q < nq)
  | .barrier qbits => !qbits.isEmpty && qbits.all (· < nq)
  | .measure q c b => b == .Z && decide (q < nq) && decide (c < nc)
  | .resetAll => true
  | .cond control target g bits =>
    !control.isEmpty && isFullRegister nc control && decide (target < 2 ^ control.length) &&
      g.sound tbl && g.leavesOk ok && g.singleStmt tbl && validBits nq bits && bits.length == nbits tbl g
  | _ => false

theorem op_equiv (h : LawfulAmp α P) (tbl : List GateTpl) (ok : String → Bool) (hleaf : LeavesOK' α P tbl ok)
    (nq nc : Nat) (hq : 0 < nq) (hnc : nc ≤ 64) (op : QOp P) (hs : op.equivSound1 tbl ok nq nc = true) (ls : List (Line P))
    (he : exportOp tbl nq nc op = .ok ls) :
    ∃ cop, op.toCOp = some cop ∧ ∀ brs1 brs2 : List (Branch α), List.Forall₂ (BrRel P nq) brs1 brs2 →
      ∃ r1 r2, linesRun nq (exportRegs nq nc) nzT ls brs1 = some r1 ∧
        (brs2.mapM (branchesOp nq nzT cop)).map List.flatten = some r2 ∧ List.Forall₂ (BrRel P nq) r1 r2 := by
  cases op with
  | gate g bits =>
    simp only [QOp.equivSound1, Bool.and_eq_true, beq_iff_eq] at hs
    obtain ⟨⟨⟨hsound, hlv⟩, hv⟩, hl⟩ := hs
    obtain ⟨cs, hcs, rfl⟩ := Res.map_eq_ok.1 he
    obtain ⟨term, hterm, hS, apps, happs, c, hc, hrun⟩ := exportGate_sem h tbl ok hleaf nq g bits cs hsound hlv hv hl hcs
    obtain ⟨hlt, hnd⟩ := (validBits_iff' nq bits).1 hv
    have hok := exportGate_chunks tbl nq none g bits cs hsound hnd hlt hl hcs
    refine ⟨.gate term bits, by simp [QOp.toCOp, hterm], fun brs1 brs2 hrel => ?_⟩
    rw [run_gateLines nq nc hq nzT cs apps brs1 hok happs, ← mapM_single_flatten]
    refine forall2_mapM_flatten (BrRel P nq) _ _ ?_ brs1 brs2 hrel
    rintro ⟨φ, u⟩ ⟨ψ, w⟩ ⟨hw, hlen, hw64, c0, hc0, hφ⟩
    simp only at hw hlen hw64 hφ
    subst hw hφ
    refine ⟨[(vsmul (c0 * c) (gateOn nq term bits ψ), u)], [(gateOn nq term bits ψ, u)], ?_, ?_, ?_⟩
    · simp only [applyApps_vsmul, hrun ψ hlen, Option.map_some, vsmul_vsmul]
    · simp [branchesOp, outcomesOf, replayOp, nzT, List.eraseDups_cons]
    · exact List.Forall₂.cons ⟨rfl, gateOn_length nq term bits ψ, hw64, c0 * c, conj_unit_mul h c0 c hc0 hc, rfl⟩
        List.Forall₂.nil
  | reset q =>
    simp only [QOp.equivSound1, decide_eq_true_eq] at hs
    simp only [exportOp, qbitNames_get nq q hs, Res.ok.injEq] at he
    subst he
    refine ⟨.reset q, rfl, fun brs1 brs2 hrel => ?_⟩
    have hrun : linesRun (P := P) nq (exportRegs nq nc) nzT [Line.reset (QRef.bit "q" q)] brs1 =
        (brs1.mapM (Line.run (α := α) (P := P) nq (exportRegs nq nc) nzT (Line.reset (QRef.bit "q" q)))).map
          List.flatten := by
      simp only [linesRun]
      cases brs1.mapM (Line.run (α := α) (P := P) nq (exportRegs nq nc) nzT (Line.reset (QRef.bit "q" q))) with
      | none => rfl
      | some r => rfl
    rw [hrun]
    refine forall2_mapM_flatten (BrRel P nq) _ _ ?_ brs1 brs2 hrel
    rintro ⟨φ, u⟩ ⟨ψ, w⟩ ⟨hw, hlen, hw64, c0, hc0, hφ⟩
    simp only at hw hlen hw64 hφ
    subst hw hφ
    have hE : WFMat (2 ^ nq) (embed nq [q] (specMatrix (.X : GateTerm P) : LMat α)) := embed_wf _ _ _
    refine ⟨[(vsmul c0 (Spec.project nq q false ψ), u), (vsmul c0 (gateOn (P := P) nq .X [q] (Spec.project nq q true ψ)), u)],
      [(Spec.project nq q false ψ, u), (gateOn (P := P) nq .X [q] (Spec.project nq q true ψ), u)], ?_, ?_, ?_⟩
    · simp only [Line.run, QRef.toQArg, Option.pure_def, Option.bind_eq_bind, Option.bind_some, runOp, resolveArg,
        exportRegs_q nq nc hq, findReg, if_true, hs, Option.bind_some]
      simp only [List.foldl_cons, List.foldl_nil, List.flatMap_cons, List.flatMap_nil, List.append_nil, nzT,
        List.filter_cons_of_pos, List.filter_nil, projectQ_eq, project_vsmul, Nat.zero_add]
      simp only [flipQ_eq (P := P)]
      unfold gateOn
      rw [mulVec_vsmul _ _ hE]
    · simp [branchesOp, outcomesOf, replayOp, nzT, List.eraseDups_cons]
    · refine List.Forall₂.cons ⟨rfl, by rw [project_length]; exact hlen, hw64, c0, hc0, rfl⟩
        (List.Forall₂.cons ⟨rfl, gateOn_length nq _ _ _, hw64, c0, hc0, rfl⟩ List.Forall₂.nil)
  | barrier qbits =>
    simp only [QOp.equivSound1, Bool.and_eq_true, Bool.not_eq_true', List.all_eq_true, decide_eq_true_eq] at hs
    refine ⟨.barrier qbits, rfl, fun brs1 brs2 hrel => ?_⟩
    have hline : ∃ qs : List QArg, ls = [Line.barrier (qs.map fun a => match a with
        | .reg r => QRef.reg r | .idx r i => QRef.bit r i)] ∧ True := by
      simp only [exportOp] at he
      split at he
      · simp only [Res.ok.injEq] at he
        exact ⟨[.reg "q"], he.symm ▸ rfl, trivial⟩
      · rw [show qbits.mapM (fun b => (qbitNames nq)[b]?) = some (qbits.map (QRef.bit "q")) from
          bits_mapM nq qbits hs.2] at he
        simp only [Res.ok.injEq] at he
        exact ⟨qbits.map (QArg.idx "q"), by rw [← he]; simp [List.map_map, Function.comp_def], trivial⟩
    obtain ⟨qs, rfl, _⟩ := hline
    have hto : (qs.map fun a => match a with
        | .reg r => QRef.reg r | .idx r i => QRef.bit r i).mapM QRef.toQArg = some qs := by
      rw [List.mapM_map]
      have := mapM_eq_map (QRef.toQArg ∘ fun a : QArg => match a with
        | .reg r => QRef.reg r | .idx r i => QRef.bit r i) id qs (fun a _ => by cases a <;> rfl)
      simpa using this
    have hfun : Line.run (α := α) (P := P) nq (exportRegs nq nc) nzT (Line.barrier (qs.map fun a => match a with
        | .reg r => QRef.reg r | .idx r i => QRef.bit r i)) = fun b => some [b] := by
      funext b
      simp [Line.run, hto, runOp]
    have hrun : linesRun (α := α) (P := P) nq (exportRegs nq nc) nzT [Line.barrier (qs.map fun a => match a with
        | .reg r => QRef.reg r | .idx r i => QRef.bit r i)] brs1 = some brs1 := by
      simp only [linesRun]
      rw [hfun]
      have := mapM_singleton_flatten brs1
      cases hm : brs1.mapM (fun b => some [b]) with
      | none => rw [hm] at this; cases this
      | some r =>
        rw [hm] at this
        simpa using this
    rw [hrun]
    have hborn : (brs2.mapM (branchesOp (P := P) nq nzT (.barrier qbits))).map List.flatten = some brs2 := by
      have hf : branchesOp (α := α) (P := P) nq nzT (.barrier qbits) = fun b => some [b] :=
        funext fun b => branchesOp_barrier nq qbits b
      rw [hf]
      exact mapM_singleton_flatten brs2
    exact ⟨brs1, brs2, rfl, hborn, hrel⟩
  | cond control target g bits =>
    simp only [QOp.equivSound1, Bool.and_eq_true, Bool.not_eq_true', decide_eq_true_eq, beq_iff_eq] at hs
    obtain ⟨⟨⟨⟨⟨⟨⟨hne, hfull⟩, htgt⟩, hsound⟩, hlv⟩, hsingle⟩, hv⟩, hl⟩ := hs
    have hlenc : control.length = nc := isFullRegister_length nc control hfull
    have hnc0 : 0 < nc := by
      cases control with
      | nil => simp at hne
      | cons x xs => simp at hlenc; omega
    obtain ⟨hlt, hnd⟩ := (validBits_iff' nq bits).1 hv
    rw [hlenc] at htgt
    obtain ⟨_, k, _, hk, _⟩ := cond_iff nc control target 0 hfull hnc htgt
    simp only [exportOp, hne, Bool.false_eq_true, if_false, hfull, Bool.not_true, hk] at he
    rw [exportGate_cond_map tbl nq k g bits hsound hsingle hlt hl] at he
    cases hcs : exportGate tbl (qbitNames nq) none g bits with
    | err e => rw [hcs] at he; cases he
    | panic => rw [hcs] at he; cases he
    | ok cs =>
      rw [hcs] at he
      simp only [Res.map, Res.bind_ok, Res.ok.injEq] at he
      subst he
      obtain ⟨term, hterm, hS, apps, happs, c, hc, hrun⟩ :=
        exportGate_sem h tbl ok hleaf nq g bits cs hsound hlv hv hl hcs
      have hok := exportGate_chunks tbl nq none g bits cs hsound hnd hlt hl hcs
      refine ⟨.cond control target term bits, by simp [QOp.toCOp, hterm], fun brs1 brs2 hrel => ?_⟩
      rw [run_gateLines_cond nq nc hq hnc0 nzT k cs apps brs1 hok happs, ← mapM_single_flatten]
      refine forall2_mapM_flatten (BrRel P nq) _ _ ?_ brs1 brs2 hrel
      rintro ⟨φ, u⟩ ⟨ψ, w⟩ ⟨hw, hlen, hw64, c0, hc0, hφ⟩
      simp only at hw hlen hw64 hφ
      subst hw hφ
      obtain ⟨cw, k', hcw, hk', hiff⟩ := cond_iff nc control target u hfull hnc htgt
      have hkk : k' = k := by rw [hk] at hk'; exact (Option.some.inj hk').symm
      subst hkk
      by_cases hcond : slice u 0 nc = k'
      · have hct : cw = target := hiff.2 hcond
        refine ⟨[(vsmul (c0 * c) (gateOn nq term bits ψ), u)], [(gateOn nq term bits ψ, u)], ?_, ?_, ?_⟩
        · simp only [hcond, if_true, applyApps_vsmul, hrun ψ hlen, Option.map_some, vsmul_vsmul]
        · simp [branchesOp, outcomesOf, replayOp, nzT, List.eraseDups_cons, hcw, hct]
        · exact List.Forall₂.cons ⟨rfl, gateOn_length nq term bits ψ, hw64, c0 * c, conj_unit_mul h c0 c hc0 hc, rfl⟩
            List.Forall₂.nil
      · have hct : ¬ cw = target := fun e => hcond (hiff.1 e)
        refine ⟨[(vsmul c0 ψ, u)], [(ψ, u)], ?_, ?_, ?_⟩
        · simp only [hcond, if_false, Option.map_some]
        · simp [branchesOp, outcomesOf, replayOp, nzT, List.eraseDups_cons, hcw, hct]
        · exact List.Forall₂.cons ⟨rfl, hlen, hw64, c0, hc0, rfl⟩ List.Forall₂.nil
  | resetAll =>
    simp only [exportOp, Res.ok.injEq] at he
    subst he
    refine ⟨.resetAll, rfl, fun brs1 brs2 hrel => ?_⟩
    have hrun : linesRun (P := P) nq (exportRegs nq nc) nzT [Line.reset (QRef.reg "q")] brs1 =
        (brs1.mapM (Line.run (α := α) (P := P) nq (exportRegs nq nc) nzT (Line.reset (QRef.reg "q")))).map
          List.flatten := by
      simp only [linesRun]
      cases brs1.mapM (Line.run (α := α) (P := P) nq (exportRegs nq nc) nzT (Line.reset (QRef.reg "q"))) with
      | none => rfl
      | some r => rfl
    rw [hrun]
    refine forall2_mapM_flatten (BrRel P nq) _ _ ?_ brs1 brs2 hrel
    rintro ⟨φ, u⟩ ⟨ψ, w⟩ ⟨hw, hlen, hw64, c0, hc0, hφ⟩
    simp only at hw hlen hw64 hφ
    subst hw hφ
    have hst := resetStates_rel (P := P) nq c0 (List.range nq) [vsmul c0 ψ] [ψ]
      (List.Forall₂.cons ⟨hlen, rfl⟩ List.Forall₂.nil)
    refine ⟨(resetStates (P := P) nq (List.range nq) [vsmul c0 ψ]).map (fun φ => (φ, u)),
      (resetStates (P := P) nq (List.range nq) [ψ]).map (fun φ => (φ, u)), ?_, ?_, ?_⟩
    · simp only [Line.run, QRef.toQArg, Option.pure_def, Option.bind_eq_bind, Option.bind_some, runOp, resolveArg,
        exportRegs_q nq nc hq, findReg, if_true, Option.map_some, Nat.zero_add]
      have := resetPairs_eq (P := P) nq u (List.range nq) [vsmul c0 ψ]
      simp only [List.map_cons, List.map_nil] at this
      have e : (List.range nq).map (fun x => x) = List.range nq := List.map_id' _
      simp only [e]
      rw [← this]
    · simp only [branchesOp, outcomesOf, List.eraseDups_cons, List.filter_nil, List.eraseDups_nil, List.flatMap_cons,
        List.flatMap_nil, List.append_nil, replayOp, ne_eq, not_true_eq_false, if_false, nzT]
      rw [List.filter_eq_self.2 (fun _ _ => rfl)]
      rfl
    · rw [List.forall₂_map_left_iff, List.forall₂_map_right_iff]
      exact hst.imp fun a b hab => ⟨rfl, hab.1, hw64, c0, hc0, hab.2⟩
  | measure q c b =>
    simp only [QOp.equivSound1, Bool.and_eq_true, beq_iff_eq, decide_eq_true_eq] at hs
    obtain ⟨⟨rfl, hq'⟩, hc'⟩ := hs
    have hc64 : c < 64 := by omega
    have hnc0 : 0 < nc := by omega
    simp only [exportOp, basisLines, Res.bind_ok, qbitNames_get nq q hq', cbitNames_get nc c hc',
      List.nil_append, Res.ok.injEq] at he
    subst he
    refine ⟨.measure q c .Z, rfl, fun brs1 brs2 hrel => ?_⟩
    have hrun : linesRun (P := P) nq (exportRegs nq nc) nzT [Line.measure (QRef.bit "q" q) (QRef.bit "b" c)] brs1 =
        (brs1.mapM (Line.run (α := α) (P := P) nq (exportRegs nq nc) nzT
          (Line.measure (QRef.bit "q" q) (QRef.bit "b" c)))).map List.flatten := by
      simp only [linesRun]
      cases brs1.mapM (Line.run (α := α) (P := P) nq (exportRegs nq nc) nzT
          (Line.measure (QRef.bit "q" q) (QRef.bit "b" c))) with
      | none => rfl
      | some r => rfl
    rw [hrun]
    refine forall2_mapM_flatten (BrRel P nq) _ _ ?_ brs1 brs2 hrel
    rintro ⟨φ, u⟩ ⟨ψ, w⟩ ⟨hw, hlen, hw64, c0, hc0, hφ⟩
    simp only at hw hlen hw64 hφ
    subst hw hφ
    refine ⟨[(vsmul c0 (Spec.project nq q false ψ), Spec.writeBit u c false),
        (vsmul c0 (Spec.project nq q true ψ), Spec.writeBit u c true)],
      [(Spec.project nq q false ψ, Spec.writeBit u c false), (Spec.project nq q true ψ, Spec.writeBit u c true)],
      ?_, branchesOp_measure nq q c ψ u hw64 hc64, ?_⟩
    · simp only [Line.run, QRef.toQArg, Option.pure_def, Option.bind_eq_bind, Option.bind_some, runOp, resolveArg,
        exportRegs_q nq nc hq, exportRegs_b nq nc hnc0, findReg, if_true, hq', hc', Option.bind_some]
      simp only [List.length_singleton, ne_eq, not_true_eq_false, if_false, List.zip_cons_cons, List.zip_nil_right,
        List.foldl_cons, List.foldl_nil, List.flatMap_cons, List.flatMap_nil, List.append_nil, nzT,
        List.filter_cons_of_pos, List.filter_nil, projectQ_eq, project_vsmul, Nat.zero_add,
        setBit_eq_writeBit u c _ hw64 hc64]
    · exact List.Forall₂.cons ⟨rfl, by rw [project_length]; exact hlen, writeBit_lt u c false hw64 hc64, c0, hc0, rfl⟩
        (List.Forall₂.cons ⟨rfl, by rw [project_length]; exact hlen, writeBit_lt u c true hw64 hc64, c0, hc0, rfl⟩
          List.Forall₂.nil)
  | measureAll cbits b => simp [QOp.equivSound1] at hs
  | peek q c b => simp [QOp.equivSound1] at hs
  | peekAll cbits b => simp [QOp.equivSound1] at hs

/-! ## `measure_all`, and every operation up to a permutation of the branches -/

theorem run_measureAll (tbl : List GateTpl) (nq nc : Nat) (hq : 0 < nq) (hnc : nc ≤ 64) (cbits : List Nat)
    (hlen : cbits.length = nq) (hlt : ∀ c ∈ cbits, c < nc) (ls : List (Line P))
    (he : exportOp tbl nq nc (.measureAll cbits .Z) = .ok ls) (L : List (Branch α)) (hL : AllLt L) :
    linesRun nq (exportRegs nq nc) nzT ls L = some (seqMeasure nq (qpairs nq cbits) L) := by
  simp only [exportOp, basisLines, Res.bind_ok, List.nil_append] at he
  split at he
  · rename_i hid
    simp only [Bool.and_eq_true, beq_iff_eq] at hid
    simp only [Res.ok.injEq] at he
    subst he
    have hcb : cbits = List.range nc := by
      have := isIdentityList_eq cbits hid.2
      rw [hid.1] at this; exact this
    have hnn : nq = nc := by rw [← hlen, hid.1]
    subst hnn
    subst hcb
    have := linesRun_single (P := P) nq (exportRegs nq nq) nzT (Line.measure (QRef.reg "q") (QRef.reg "b")) L
      (fun b => seqMeasure nq (qpairs nq (List.range nq)) [b])
      (fun b hb => run_measure_regs nq hq hnc b (hL b hb))
    simp only [linesRun]
    cases hm : L.mapM (Line.run (α := α) (P := P) nq (exportRegs nq nq) nzT
        (Line.measure (QRef.reg "q") (QRef.reg "b"))) with
    | none => rw [hm] at this; cases this
    | some r =>
      rw [hm] at this
      simp only [Option.map_some, Option.some.injEq] at this
      simp only [Option.bind_some, this]
      rw [← seqMeasure_flatMap]
  · rw [mapM_eq_map _ (fun x : Nat × Nat => (Line.measure (QRef.bit "q" x.2) (QRef.bit "b" x.1) : Line P))
        cbits.zipIdx (by
          intro x hx
          have hx2 : x.2 < nq := by
            have := List.mem_zipIdx hx
            omega
          have hx1 : x.1 < nc := by
            have := List.mem_zipIdx hx
            exact hlt x.1 (by rw [this.2.2]; exact List.getElem_mem _)
          simp [qbitNames_get nq x.2 hx2, cbitNames_get nc x.1 hx1])] at he
    simp only [Res.ok.injEq] at he
    subst he
    have e : (cbits.zipIdx.map fun x : Nat × Nat => (Line.measure (QRef.bit "q" x.2) (QRef.bit "b" x.1) : Line P)) =
        (qpairs nq cbits).map fun p => Line.measure (QRef.bit "q" p.1) (QRef.bit "b" p.2) := by
      rw [← hlen, ← zipIdx_swap_qpairs, List.map_map]; rfl
    rw [e]
    refine run_measure_lines nq nc hq hnc _ L ?_ hL
    intro p hp
    simp only [qpairs, List.mem_map, List.mem_range] at hp
    obtain ⟨q, hqlt, rfl⟩ := hp
    refine ⟨hqlt, hlt _ ?_⟩
    have : q < cbits.length := by omega
    simp [List.getD_eq_getElem?_getD, this]

theorem seqMeasure_rel (n : Nat) : ∀ (prs : List (Nat × Nat)), (∀ p ∈ prs, p.2 < 64) →
    ∀ L1 L2 : List (Branch α), List.Forall₂ (BrRel P n) L1 L2 →
      List.Forall₂ (BrRel P n) (seqMeasure n prs L1) (seqMeasure n prs L2)
  | [], _, _, _, h => h
  | p :: ps, hp, L1, L2, h => by
    simp only [seqMeasure, List.foldl_cons]
    refine seqMeasure_rel n ps (fun q hq => hp q (List.mem_cons_of_mem _ hq)) _ _ ?_
    have hp64 := hp p (List.mem_cons_self ..)
    induction h with
    | nil => exact List.Forall₂.nil
    | cons hab _ ih =>
      obtain ⟨hw, hlen, hw64, c0, hc0, hφ⟩ := hab
      simp only [mstep, List.flatMap_cons]
      refine List.rel_append (List.Forall₂.cons ?_ (List.Forall₂.cons ?_ List.Forall₂.nil)) ih
      · exact ⟨by simp [stepB, hw], by simp [stepB, project_length, hlen], writeBit_lt _ p.2 false hw64 hp64, c0, hc0,
          by simp [stepB, hφ, project_vsmul]⟩
      · exact ⟨by simp [stepB, hw], by simp [stepB, project_length, hlen], writeBit_lt _ p.2 true hw64 hp64, c0, hc0,
          by simp [stepB, hφ, project_vsmul]⟩

/-- the class of operations of `export_equiv_partial`: those of `equivSound1`, and `measure_all` in the Z basis into
DISTINCT classical bits, one per qubit, in range -/
def QOp.equivSound (tbl : List GateTpl) (ok : String → Bool) (nq nc : Nat) : QOp P → Bool
  | .measureAll cbits b => b == .Z && cbits.length == nq && decide cbits.Nodup && cbits.all (· < nc)
  | op => op.equivSound1 tbl ok nq nc

theorem permRel_flatMap (n : Nat) (S B : Branch α → List (Branch α))
    (hSB : ∀ b1 b2, BrRel P n b1 b2 → PermRel P n (S b1) (B b2)) :
    ∀ l1 l2, List.Forall₂ (BrRel P n) l1 l2 → PermRel P n (l1.flatMap S) (l2.flatMap B)
  | [], [], _ => ⟨[], List.Perm.refl _, List.Forall₂.nil⟩
  | b1 :: l1, b2 :: l2, h => by
    cases h with
    | cons hb hl =>
      simp only [List.flatMap_cons]
      exact PermRel.append (hSB b1 b2 hb) (permRel_flatMap n S B hSB l1 l2 hl)

theorem forall2_mem_left {β γ : Type} {R : β → γ → Prop} {l1 : List β} {l2 : List γ}
    (h : List.Forall₂ R l1 l2) : ∀ a ∈ l1, ∃ b ∈ l2, R a b := by
  induction h with
  | nil => intro a ha; cases ha
  | cons hab _ ih =>
    intro a ha
    rcases List.mem_cons.1 ha with rfl | ha
    · exact ⟨_, List.mem_cons_self .., hab⟩
    · obtain ⟨b, hb, hr⟩ := ih a ha
      exact ⟨b, List.mem_cons_of_mem _ hb, hr⟩

theorem forall2_mem_right {β γ : Type} {R : β → γ → Prop} {l1 : List β} {l2 : List γ}
    (h : List.Forall₂ R l1 l2) : ∀ b ∈ l2, ∃ a ∈ l1, R a b := by
  induction h with
  | nil => intro b hb; cases hb
  | cons hab _ ih =>
    intro b hb
    rcases List.mem_cons.1 hb with rfl | hb
    · exact ⟨_, List.mem_cons_self .., hab⟩
    · obtain ⟨a, ha, hr⟩ := ih b hb
      exact ⟨a, List.mem_cons_of_mem _ ha, hr⟩

theorem op_step (h : LawfulAmp α P) (tbl : List GateTpl) (ok : String → Bool) (hleaf : LeavesOK' α P tbl ok)
    (nq nc : Nat) (hq : 0 < nq) (hnc : nc ≤ 64) (op : QOp P) (hs : op.equivSound tbl ok nq nc = true)
    (ls : List (Line P)) (he : exportOp tbl nq nc op = .ok ls) :
    ∃ cop, op.toCOp = some cop ∧ ∀ brs1 brs2 : List (Branch α), PermRel P nq brs1 brs2 →
      ∃ r1 r2, linesRun nq (exportRegs nq nc) nzT ls brs1 = some r1 ∧
        (brs2.mapM (branchesOp nq nzT cop)).map List.flatten = some r2 ∧ PermRel P nq r1 r2 := by
  -- the operations whose branches correspond in order
  have old : op.equivSound1 tbl ok nq nc = true →
      ∃ cop, op.toCOp = some cop ∧ ∀ brs1 brs2 : List (Branch α), PermRel P nq brs1 brs2 →
        ∃ r1 r2, linesRun nq (exportRegs nq nc) nzT ls brs1 = some r1 ∧
          (brs2.mapM (branchesOp nq nzT cop)).map List.flatten = some r2 ∧ PermRel P nq r1 r2 := fun hs1 => by
    obtain ⟨cop, hcop, hstep⟩ := op_equiv h tbl ok hleaf nq nc hq hnc op hs1 ls he
    refine ⟨cop, hcop, fun brs1 brs2 hrel => ?_⟩
    obtain ⟨l, hperm, hf⟩ := hrel
    obtain ⟨r1, rl, hr1, hrl, h12⟩ := hstep brs1 l hf
    cases hm : l.mapM (branchesOp nq nzT cop) with
    | none => rw [hm] at hrl; cases hrl
    | some rr =>
      rw [hm] at hrl
      simp only [Option.map_some, Option.some.injEq] at hrl
      obtain ⟨rr2, hrr2, hp2⟩ := mapM_flatten_perm (branchesOp nq nzT cop) hperm rr hm
      exact ⟨r1, rr2.flatten, hr1, by rw [hrr2]; rfl, rl, hrl ▸ hp2, h12⟩
  cases op with
  | measureAll cbits b =>
    simp only [QOp.equivSound, Bool.and_eq_true, beq_iff_eq, decide_eq_true_eq, List.all_eq_true] at hs
    obtain ⟨⟨⟨rfl, hlen⟩, hnd⟩, hlt⟩ := hs
    have h64 : ∀ c ∈ cbits, c < 64 := fun c hc => by have := hlt c hc; omega
    have hp64 : ∀ p ∈ qpairs nq cbits, p.2 < 64 := by
      intro p hp
      simp only [qpairs, List.mem_map, List.mem_range] at hp
      obtain ⟨q, hqlt, rfl⟩ := hp
      have : q < cbits.length := by omega
      exact h64 _ (by simp [List.getD_eq_getElem?_getD, this])
    refine ⟨.measureAll cbits .Z, rfl, fun brs1 brs2 hrel => ?_⟩
    obtain ⟨l, hperm, hf⟩ := hrel
    have hL1 : AllLt brs1 := by
      intro b hb
      obtain ⟨b2, _, hr⟩ := forall2_mem_left hf b hb
      rw [hr.1]; exact hr.2.2.1
    have hL2 : ∀ b ∈ brs2, b.2 < 2 ^ 64 := by
      intro b hb
      obtain ⟨a, _, hr⟩ := forall2_mem_right hf b (hperm.mem_iff.2 hb)
      exact hr.2.2.1
    have hborn : brs2.mapM (branchesOp (P := P) nq nzT (.measureAll cbits .Z)) =
        some (brs2.map (bornList nq (qpairs nq cbits))) := by
      rw [mapM_congr_mem _ (fun b => some (bornList nq (qpairs nq cbits) b)) brs2 (fun b hb => by
        obtain ⟨ψ, w⟩ := b
        exact branchesOp_measureAll nq nzT (fun _ => rfl) cbits hlen hnd h64 ψ w (hL2 _ hb))]
      exact mapM_eq_map _ _ _ fun _ _ => rfl
    refine ⟨seqMeasure nq (qpairs nq cbits) brs1, (brs2.map (bornList nq (qpairs nq cbits))).flatten,
      run_measureAll tbl nq nc hq hnc cbits hlen hlt ls he brs1 hL1, by rw [hborn]; rfl, ?_⟩
    rw [seqMeasure_flatMap, ← List.flatMap_def]
    obtain ⟨l', hp', hf'⟩ := permRel_flatMap (P := P) nq (fun b => seqMeasure nq (qpairs nq cbits) [b])
      (bornList nq (qpairs nq cbits))
      (fun b1 b2 hb => ⟨seqMeasure nq (qpairs nq cbits) [b2], seq_perm_born nq _ b2,
        seqMeasure_rel nq _ hp64 [b1] [b2] (List.Forall₂.cons hb List.Forall₂.nil)⟩) brs1 l hf
    exact ⟨l', hp'.trans (List.Perm.flatMap_right _ hperm), hf'⟩
  | gate g bits => exact old hs
  | cond control target g bits => exact old hs
  | reset q => exact old hs
  | resetAll => exact old hs
  | measure q c b => exact old hs
  | peek q c b => exact old hs
  | peekAll cbits b => exact old hs
  | barrier bits => exact old hs

/-! ## circuits -/

theorem linesRun_append (n : Nat) (rg : Regs) (nz : List α → Bool) (l1 l2 : List (Line P))
    (brs : List (Branch α)) :
    linesRun n rg nz (l1 ++ l2) brs = (linesRun n rg nz l1 brs).bind (linesRun n rg nz l2) := by
  induction l1 generalizing brs with
  | nil => simp [linesRun]
  | cons l ls ih =>
    simp only [List.cons_append, linesRun]
    cases brs.mapM (Line.run n rg nz l) with
    | none => rfl
    | some r => simp [ih]

theorem linesRun_header (n : Nat) (rg : Regs) (nz : List α → Bool) (nq nc : Nat) (brs : List (Branch α)) :
    linesRun (P := P) n rg nz (header nq nc) brs = some brs := by
  have key : ∀ (hs : List (Line P)), (∀ l ∈ hs, Line.run (α := α) n rg nz l = fun b => some [b]) →
      ∀ brs : List (Branch α), linesRun n rg nz hs brs = some brs := by
    intro hs
    induction hs with
    | nil => intro _ brs; rfl
    | cons l hs ih =>
      intro hl brs
      simp only [linesRun]
      rw [hl l (List.mem_cons_self ..)]
      have := mapM_singleton_flatten brs
      cases hm : brs.mapM (fun b => some [b]) with
      | none => rw [hm] at this; cases this
      | some r =>
        rw [hm] at this
        simp only [Option.map_some, Option.some.injEq] at this
        simp only [Option.bind_some, this]
        exact ih (fun l' hl' => hl l' (List.mem_cons_of_mem _ hl')) brs
  apply key
  intro l hl
  simp only [header, List.mem_append, List.mem_cons, List.not_mem_nil, or_false] at hl
  rcases hl with ((rfl | rfl) | hl) | hl
  · rfl
  · rfl
  · split at hl
    · simp only [List.mem_singleton] at hl; subst hl; rfl
    · cases hl
  · split at hl
    · simp only [List.mem_singleton] at hl; subst hl; rfl
    · cases hl

theorem ops_equiv (h : LawfulAmp α P) (tbl : List GateTpl) (ok : String → Bool) (hleaf : LeavesOK' α P tbl ok)
    (nq nc : Nat) (hq : 0 < nq) (hnc : nc ≤ 64) :
    ∀ (ops : List (QOp P)) (per : List (List (Line P))), ops.map (exportOp tbl nq nc) = per.map Res.ok →
      (∀ op ∈ ops, op.equivSound tbl ok nq nc = true) →
      ∃ cops, ops.mapM QOp.toCOp = some cops ∧ ∀ brs1 brs2 : List (Branch α),
        PermRel P nq brs1 brs2 →
        ∃ r1 r2, linesRun nq (exportRegs nq nc) nzT per.flatten brs1 = some r1 ∧
          Spec.branches nq nzT cops brs2 = some r2 ∧ PermRel P nq r1 r2
  | [], per, hp, _ => by
    cases per with
    | nil => exact ⟨[], rfl, fun brs1 brs2 hrel => ⟨brs1, brs2, rfl, rfl, hrel⟩⟩
    | cons _ _ => cases hp
  | op :: ops, per, hp, hs => by
    cases per with
    | nil => cases hp
    | cons l per =>
      simp only [List.map_cons, List.cons.injEq] at hp
      obtain ⟨cop, hcop, hstep⟩ := op_step h tbl ok hleaf nq nc hq hnc op (hs op (List.mem_cons_self ..)) l hp.1
      obtain ⟨cops, hcops, hrest⟩ := ops_equiv h tbl ok hleaf nq nc hq hnc ops per hp.2
        fun o ho => hs o (List.mem_cons_of_mem _ ho)
      refine ⟨cop :: cops, by simp [List.mapM_cons, hcop, hcops], fun brs1 brs2 hrel => ?_⟩
      obtain ⟨m1, m2, hm1, hm2, hm12⟩ := hstep brs1 brs2 hrel
      obtain ⟨r1, r2, hr1, hr2, hr12⟩ := hrest m1 m2 hm12
      refine ⟨r1, r2, ?_, ?_, hr12⟩
      · rw [List.flatten_cons, linesRun_append, hm1]; exact hr1
      · simp only [Spec.branches]
        cases hb : brs2.mapM (branchesOp nq nzT cop) with
        | none => rw [hb] at hm2; cases hm2
        | some lb =>
          rw [hb] at hm2
          simp only [Option.map_some, Option.some.injEq] at hm2
          simp only [Option.bind_some, hm2]
          exact hr2

theorem zeroState_length (n : Nat) : (zeroState n : List α).length = 2 ^ n := by simp [zeroState]

/-- `export_equiv_partial`, for an arbitrary table and leaf predicate -/
theorem export_equiv_of_sound (h : LawfulAmp α P) (tbl : List GateTpl) (ok : String → Bool)
    (hleaf : LeavesOK' α P tbl ok) (c : QCircuit P) (hq : 0 < c.nq) (hnc : c.nc ≤ 64)
    (hs : ∀ op ∈ c.ops, op.equivSound tbl ok c.nq c.nc = true) (ls : List (Line P))
    (he : exportCircuit tbl c = .ok ls) :
    ∃ cops, c.ops.mapM QOp.toCOp = some cops ∧ ∃ r1 r2 : List (Branch α),
      exportedRun nzT c.nq c.nc ls = some r1 ∧
      Spec.branches c.nq nzT cops [(zeroState c.nq, 0)] = some r2 ∧ PermRel P c.nq r1 r2 := by
  obtain ⟨per, hper, rfl⟩ := (exportCircuit_ok_iff tbl c ls).1 he
  obtain ⟨cops, hcops, hrun⟩ := ops_equiv h tbl ok hleaf c.nq c.nc hq hnc c.ops per hper hs
  refine ⟨cops, hcops, ?_⟩
  have hinit : List.Forall₂ (BrRel P c.nq) [((zeroState c.nq : List α), 0)] [((zeroState c.nq : List α), 0)] :=
    List.Forall₂.cons ⟨rfl, zeroState_length c.nq, by norm_num, 1, by rw [h.conj_one]; ring, (vsmul_one _).symm⟩
      List.Forall₂.nil
  obtain ⟨r1, r2, hr1, hr2, hr12⟩ := hrun _ _ (PermRel.of_forall2 hinit)
  refine ⟨r1, r2, ?_, hr2, hr12⟩
  unfold exportedRun
  rw [linesRun_append, linesRun_header]
  exact hr1

end Q1t.OpenQasm

import Q1t.Proofs.PauliAct
/-!
C03, proofs part 4 (all `n`): `multiply_row` computes the signed Pauli-group product.
-/
namespace Q1t.Proofs.Tableau
open Q1t Q1t.Tableau Q1t.Spec.Pauli

theorem phaseAt_eq_mulP {ph : List Nat} (h : PhaseTableCorrect ph) (a b : P) :
    (Tab.phaseAt ph a b, P.xor a b) = mulP a b := by
  obtain ⟨h1, h2⟩ := h a b
  rw [mulP_eq_table]
  generalize Tab.phaseAt ph a b = k at *
  have hk : k = 0 ∨ k = 1 ∨ k = 2 ∨ k = 3 := by omega
  cases a <;> cases b <;> rcases hk with rfl | rfl | rfl | rfl <;>
    first
    | rfl
    | exact absurd h1 (by decide +kernel)

theorem iPow_eq {ph : List Nat} (h : PhaseTableCorrect ph) (r0 : List P) :
    ∀ (r1 : List P) (acc : Nat), acc < 4 → Tab.iPow ph r0 r1 acc = (acc + phaseSum r0 r1) % 4 := by
  induction r0 with
  | nil => intro r1 acc hacc; cases r1 <;> simp [Tab.iPow, phaseSum] <;> omega
  | cons a r0 ih =>
    intro r1 acc hacc
    cases r1 with
    | nil => simp [Tab.iPow, phaseSum]; omega
    | cons b r1 =>
      have hk : Tab.phaseAt ph a b = (mulP a b).1 := congrArg Prod.fst (phaseAt_eq_mulP h a b)
      simp only [Tab.iPow, phaseSum]
      rw [ih r1 _ (Nat.mod_lt _ (by decide)), hk]
      omega

theorem zipWith_xor_eq {ph : List Nat} (h : PhaseTableCorrect ph) (r0 : List P) :
    ∀ r1 : List P, List.zipWith P.xor r0 r1 = opsMul r0 r1 := by
  induction r0 with
  | nil => intro r1; cases r1 <;> rfl
  | cons a r0 ih =>
    intro r1
    cases r1 with
    | nil => rfl
    | cons b r1 =>
      have hk : P.xor a b = (mulP a b).2 := congrArg Prod.snd (phaseAt_eq_mulP h a b)
      simp only [List.zipWith, opsMul, ih r1, hk]

/-- the sign/row pair written by `multiply_row` denotes exactly the group product -/
theorem rowStr_of_even (s0 s1 : Bool) (r0 r1 : List P) (hev : phaseSum r0 r1 % 2 = 0) :
    let g := (rowStr s0 r0).mul (rowStr s1 r1)
    rowStr (g.phase == 2) g.ops = g ∧
    (s0 != ((((if s1 then 2 else 0) + phaseSum r0 r1) % 4) == 2)) = (g.phase == 2) ∧
    ((((if s1 then 2 else 0) + phaseSum r0 r1) % 4 = 0) ∨ (((if s1 then 2 else 0) + phaseSum r0 r1) % 4 = 2)) := by
  have h4 : phaseSum r0 r1 % 4 = 0 ∨ phaseSum r0 r1 % 4 = 2 := by omega
  simp only [rowStr, PStr.mul]
  cases s0 <;> cases s1 <;> rcases h4 with h | h <;> simp [Nat.add_mod, h]

/-- **`multiply_row`, all `n`.**  With a correct phase table, for rows `i0`, `i1` of a tableau:
if the two rows commute, `multiply_row(i0, i1)` returns, row `i0` becomes the Pauli-group product
`(±r0)·(±r1)` *with its sign* and nothing else changes; if they anticommute it trips
`assert!(i_pow == 0 || i_pow == 2)`.  (Rows of the same length always do one or the other.) -/
theorem multiplyRow_spec {ph : List Nat} (hph : PhaseTableCorrect ph) (t : Tab) (i0 i1 : Nat)
    (r0 r1 : List P) (s0 s1 : Bool)
    (hr0 : t.rows[i0]? = some r0) (hr1 : t.rows[i1]? = some r1)
    (hs0 : t.signs[i0]? = some s0) (hs1 : t.signs[i1]? = some s1) :
    let g := (rowStr s0 r0).mul (rowStr s1 r1)
    (Commutes r0 r1 →
      t.multiplyRow ph i0 i1 = .ok { t with rows := t.rows.set i0 g.ops, signs := t.signs.set i0 (g.phase == 2) } ∧
      rowStr (g.phase == 2) g.ops = g) ∧
    (Anticommutes r0 r1 → t.multiplyRow ph i0 i1 = .panic .assertIPow) := by
  intro g
  have hip := iPow_eq hph r0 r1 (if s1 then 2 else 0) (by cases s1 <;> decide)
  have hz := zipWith_xor_eq hph r0 r1
  constructor
  · intro hc
    rw [commutes_iff] at hc
    obtain ⟨e1, e2, e3⟩ := rowStr_of_even s0 s1 r0 r1 hc
    refine ⟨?_, e1⟩
    simp only [Tab.multiplyRow, Tab.row, Tab.sign, hr0, hr1, hs0, hs1, Res.ofOption, bind, Res.bind, pure]
    rw [hip, if_pos e3, hz, e2]
    rfl
  · intro ha
    rw [anticommutes_iff] at ha
    simp only [Tab.multiplyRow, Tab.row, Tab.sign, hr0, hr1, hs0, hs1, Res.ofOption, bind, Res.bind, pure]
    rw [hip, if_neg]
    cases s1 <;> simp <;> omega

end Q1t.Proofs.Tableau

import Q1t.Model.Param
/-!
C05, part 4 (`param_live`): the matrix of a gate under a store depends on the store exactly through
the current values of the cells its parameters refer to; a `Direct` parameter never depends on it.
-/
namespace Q1t.Proofs.ParamLive
open Q1t Q1t.Gate

variable {P Q : Type}

mutual
theorem mapP_congr (f f' : P → Q) : (g : GateTerm P) → (∀ p ∈ g.params, f p = f' p) → g.mapP f = g.mapP f'
  | .H, _ | .X, _ | .Y, _ | .Z, _ | .S, _ | .Sdg, _ | .T, _ | .Tdg, _ | .V, _ | .Vdg, _ | .I, _
  | .CX, _ | .CY, _ | .CZ, _ | .Swap, _ => rfl
  | .RX θ, h | .RY θ, h | .RZ θ, h | .U1 θ, h => by
      simp only [GateTerm.mapP, h θ (by simp [GateTerm.params])]
  | .U2 φ l, h => by
      simp only [GateTerm.mapP, h φ (by simp [GateTerm.params]), h l (by simp [GateTerm.params])]
  | .U3 θ φ l, h => by
      simp only [GateTerm.mapP, h θ (by simp [GateTerm.params]), h φ (by simp [GateTerm.params]),
        h l (by simp [GateTerm.params])]
  | .C g, h => by
      simp only [GateTerm.mapP]; rw [mapP_congr f f' g (fun p hp => h p (by simpa [GateTerm.params] using hp))]
  | .Kron g0 g1, h => by
      simp only [GateTerm.mapP]
      rw [mapP_congr f f' g0 (fun p hp => h p (by simp [GateTerm.params, hp])),
        mapP_congr f f' g1 (fun p hp => h p (by simp [GateTerm.params, hp]))]
  | .Composite _ _ ops, h => by
      simp only [GateTerm.mapP]
      rw [mapP_congr_ops f f' ops (fun p hp => h p (by simpa [GateTerm.params] using hp))]
  | .Loop _ _ _ _ body, h => by
      simp only [GateTerm.mapP]
      rw [mapP_congr_ops f f' body (fun p hp => h p (by simpa [GateTerm.params] using hp))]
theorem mapP_congr_ops (f f' : P → Q) : (ops : OpList P) → (∀ p ∈ ops.params, f p = f' p) →
    ops.mapP f = ops.mapP f'
  | .nil, _ => rfl
  | .cons g bits rest, h => by
      simp only [OpList.mapP]
      rw [mapP_congr f f' g (fun p hp => h p (by simp [OpList.params, hp])),
        mapP_congr_ops f f' rest (fun p hp => h p (by simp [OpList.params, hp]))]
end

variable {α V : Type} [Zero α] [One α] [Add α] [Mul α] [Neg α] [Sub α] [Amp α V]

/-- the matrix depends on the store only through the current values of the parameters -/
theorem matrixAt_congr (s s' : Store V) (g : GateTerm (Param V))
    (h : ∀ p ∈ g.params, p.value s = p.value s') : (matrixAt s g : LMat α) = matrixAt s' g := by
  unfold matrixAt; rw [mapP_congr _ _ g h]

/-- a gate all of whose parameters are `Direct` has the same matrix under every store -/
theorem matrixAt_direct (s s' : Store V) (g : GateTerm (Param V))
    (h : ∀ p ∈ g.params, p.isDirect = true) : (matrixAt s g : LMat α) = matrixAt s' g :=
  matrixAt_congr s s' g fun p hp => by
    cases p with
    | direct v => rfl
    | reference c => simpa [Param.isDirect] using h _ hp
    | ffiRef c => simpa [Param.isDirect] using h _ hp

/-- a reference parameter is live: after the cell `c` is overwritten with `v`, every occurrence of
`Reference c` contributes `v`, every other parameter what it contributed before -/
theorem matrixAt_setRef (s : Store V) (c : Nat) (v : V) (g : GateTerm (Param V)) :
    (matrixAt (s.setRef c v) g : LMat α) =
      matrix (g.mapP fun p => match p with
        | .reference k => if k = c then v else s.ref k
        | .direct x => x
        | .ffiRef k => s.ffi k) := by
  unfold matrixAt
  refine congrArg matrix (mapP_congr _ _ g ?_)
  intro p _
  cases p <;> rfl

theorem matrixAt_setFfi (s : Store V) (c : Nat) (v : V) (g : GateTerm (Param V)) :
    (matrixAt (s.setFfi c v) g : LMat α) =
      matrix (g.mapP fun p => match p with
        | .ffiRef k => if k = c then v else s.ffi k
        | .direct x => x
        | .reference k => s.ref k) := by
  unfold matrixAt
  refine congrArg matrix (mapP_congr _ _ g ?_)
  intro p _
  cases p <;> rfl

/-- writing to a cell the gate does not refer to changes nothing -/
theorem matrixAt_setRef_other (s : Store V) (c : Nat) (v : V) (g : GateTerm (Param V))
    (h : Param.reference c ∉ g.params) : (matrixAt (s.setRef c v) g : LMat α) = matrixAt s g := by
  apply matrixAt_congr
  intro p hp
  cases p with
  | direct x => rfl
  | ffiRef k => rfl
  | reference k =>
    have : k ≠ c := fun e => h (e ▸ hp)
    simp [Param.value, Store.setRef, this]

/-- the single-parameter gates, spelled out: the current content of the cell is what is used -/
theorem matrixAt_reference_prims (s : Store V) (c : Nat) :
    (matrixAt s (.RX (.reference c)) : LMat α) = matrix (.RX (s.ref c)) ∧
    (matrixAt s (.RY (.reference c)) : LMat α) = matrix (.RY (s.ref c)) ∧
    (matrixAt s (.RZ (.reference c)) : LMat α) = matrix (.RZ (s.ref c)) ∧
    (matrixAt s (.U1 (.reference c)) : LMat α) = matrix (.U1 (s.ref c)) ∧
    (matrixAt s (.C (.RX (.reference c))) : LMat α) = matrix (.C (.RX (s.ref c))) ∧
    (matrixAt s (.RX (.ffiRef c)) : LMat α) = matrix (.RX (s.ffi c)) ∧
    (∀ v, (matrixAt s (.RX (.direct v)) : LMat α) = matrix (.RX v)) :=
  ⟨rfl, rfl, rfl, rfl, rfl, rfl, fun _ => rfl⟩

/-- liveness is observable: two stores whose cell `c` holds angles with different `cos(θ/2)` give
different `RX` matrices (so the value was not frozen when the gate was built) -/
theorem reference_sensitive (s s' : Store V) (c : Nat)
    (hne : (Amp.cos (Amp.phalf α (s.ref c)) : α) ≠ Amp.cos (Amp.phalf α (s'.ref c))) :
    (matrixAt s (.RX (.reference c)) : LMat α) ≠ matrixAt s' (.RX (.reference c)) := by
  intro e
  apply hne
  simp only [matrixAt, GateTerm.mapP, Param.value, matrix, matRX] at e
  injection e with e1 _
  injection e1 with e2 _

end Q1t.Proofs.ParamLive

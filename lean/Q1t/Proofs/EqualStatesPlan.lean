import Q1t.Proofs.DetShapeAll
set_option linter.unusedSectionVars false
set_option linter.unusedVariables false
set_option linter.unusedSimpArgs false
/-!
# Plan for "equal states have the identical tableau" (all `n`): parts and checked composition

`Canon t` is the full post-condition of `normalize`: `k` X-pivot rows first (pivot columns `pivX` strictly
increasing, each pivot the *leading* X-bit of its row and the only X-bit of its column), then `m` X/Y-free Z-pivot
rows (same with `pivZ` and Z-bits, the pivot column cleared in ALL rows), then identity rows.

Parts (closed `Prop`s, one file each):

* `PartS`       — a string that commutes with every row of a tableau with destabilizers and pairwise commuting rows
                  is a bit-wise sum of rows (the core of `partC2`, with `Z_q` replaced by any string).
* `PartU`       — two `Canon` tableaux whose rows span the same GF(2)-space have the same rows, in the same order.
* `PartCanonN`  — `normalize`, whenever it returns on a well-shaped tableau, produces `Canon`.
* `PartCanonI n` — `Tab.new n` is `Canon`.

`equal_states_of_parts`: two tableaux with `StabG · ψ`, `Canon`, `HasDual` for the same non-zero `ψ` are equal
(rows by `PartS` + `PartU`; signs because two opposite signs on the same row would give `ψ = −ψ`).
`history_independent_of_parts`: two `Reach` derivations (generated tables, ℚ(ζ₈)) ending in proportional vectors end
in the identical tableau.
-/
namespace Q1t.Proofs.DetPlan
open Q1t Q1t.LMat Q1t.Tableau Q1t.Spec Q1t.Spec.Clifford Q1t.Spec.Pauli Q1t.Proofs.Tableau Q1t.Sim Q1t.Conj
open Q1t.Proofs.ConjBridge Q1t.Proofs.ConjTerm Q1t.Gate Q1t.Proofs.TabG Q1t.Sim.Demo

/-! ## vocabulary -/

/-- the full post-condition of `normalize` -/
def Canon (t : Tab) : Prop :=
  ∃ (pivX pivZ : List Nat),
    pivX.length + pivZ.length ≤ t.n ∧
    pivX.Pairwise (· < ·) ∧ pivZ.Pairwise (· < ·) ∧ (∀ c ∈ pivX, c < t.n) ∧ (∀ c ∈ pivZ, c < t.n) ∧
    -- X-pivot rows `0 … k-1`
    (∀ (a : Nat) (h : a < pivX.length), (∀ i, bit P.hasX t i pivX[a] = decide (i = a)) ∧
      ∀ c, c < pivX[a] → bit P.hasX t a c = false) ∧
    (∀ i, pivX.length ≤ i → ∀ c, bit P.hasX t i c = false) ∧
    -- Z-pivot rows `k … k+m-1`
    (∀ (b : Nat) (h : b < pivZ.length), (∀ i, bit P.hasZ t i pivZ[b] = decide (i = pivX.length + b)) ∧
      ∀ c, c < pivZ[b] → bit P.hasZ t (pivX.length + b) c = false) ∧
    (∀ i, pivX.length + pivZ.length ≤ i → ∀ c, bit P.hasZ t i c = false)

/-- every row of `t2` is a bit-wise sum of rows of `t1` (`n` = common number of qubits) -/
def SpanLe (n : Nat) (t1 t2 : Tab) : Prop :=
  ∀ i, i < n → ∃ α : Fin n → ZMod 2, ∀ c : Fin n,
    (∑ j : Fin n, α j * xZ (rowD t1 j) c = xZ (rowD t2 i) c) ∧
    (∑ j : Fin n, α j * zZ (rowD t1 j) c = zZ (rowD t2 i) c)

/-! ## the parts -/

def PartS : Prop :=
  ∀ (t : Tab) (w : List P), t.WF → HasDual t → PairComm t → w.length = t.n →
    (∀ (i : Nat) r, t.rows[i]? = some r → sp w r = false) →
    ∃ α : Fin t.n → ZMod 2, ∀ c : Fin t.n,
      (∑ j : Fin t.n, α j * xZ (rowD t j) c = xZ w c) ∧ (∑ j : Fin t.n, α j * zZ (rowD t j) c = zZ w c)

def PartU : Prop :=
  ∀ (n : Nat) (t1 t2 : Tab), t1.WF → t2.WF → t1.n = n → t2.n = n → Canon t1 → Canon t2 →
    SpanLe n t1 t2 → SpanLe n t2 t1 → t1.rows = t2.rows

def PartCanonN : Prop := ∀ t0 t : Tab, t0.WF → t0.normalize phG = .ok t → Canon t

def PartCanonI (n : Nat) : Prop := Canon (Tab.new n)

/-! ## composition, 1: equal states -/

/-- a row cannot fix a non-zero vector with both signs -/
theorem sign_unique (r : List P) (ψ : List Q8) (s1 s2 : Bool)
    (h1 : act (A := Empty) (rowStr s1 r) ψ = ψ) (h2 : act (A := Empty) (rowStr s2 r) ψ = ψ) (hnz : NZ ψ) : s1 = s2 := by
  by_contra hne
  have key : smul Empty 2 ψ = ψ := by
    unfold act at h1 h2
    simp only [rowStr] at h1 h2
    cases s1 <;> cases s2
    · exact absurd rfl hne
    · simp only [Bool.false_eq_true, if_false, if_true] at h1 h2
      rw [TabG.smul_0] at h1; rw [h1] at h2; exact h2
    · simp only [Bool.false_eq_true, if_false, if_true] at h1 h2
      rw [TabG.smul_0] at h2; rw [h2] at h1; exact h1
    · exact absurd rfl hne
  obtain ⟨x, hx, hx0⟩ := hnz
  exact hx0 (zeros_of_smul2 Q8.lawful ψ key x hx)

theorem equal_states_of_parts (hS : PartS) (hU : PartU) (t1 t2 : Tab) (ψ : List Q8)
    (h1 : StabG Empty t1 ψ) (h2 : StabG Empty t2 ψ) (hnz : NZ ψ) (hn : t1.n = t2.n)
    (hc1 : Canon t1) (hc2 : Canon t2) (hd1 : HasDual t1) (hd2 : HasDual t2) : t1 = t2 := by
  have hwf1 := wf_of_stabG t1 ψ h1
  have hwf2 := wf_of_stabG t2 ψ h2
  -- rows of one tableau commute with the rows of the other and are therefore sums of its rows
  have span : ∀ (ta tb : Tab), StabG Empty ta ψ → StabG Empty tb ψ → HasDual ta → ta.n = tb.n → SpanLe ta.n ta tb := by
    intro ta tb ha hb hda hnab i hi
    have hwa := wf_of_stabG ta ψ ha
    have hwb := wf_of_stabG tb ψ hb
    have hrb : tb.rows[i]? = some (rowD tb i) := rowD_getElem? tb i (by rw [hwb.1, ← hnab]; exact hi)
    have hib : i < tb.signs.length := by rw [hwb.2.1, ← hnab]; exact hi
    have hsb : tb.signs[i]? = some tb.signs[i] := List.getElem?_eq_getElem hib
    obtain ⟨lb, fb⟩ := hb.2.2.2 i _ _ hsb hrb
    have hw : (rowD tb i).length = ta.n := by rw [lb, hnab]
    exact hS ta (rowD tb i) hwa hda (pairComm_of_stabG ta ψ ha hnz) hw (fun k r hr => by
      have hk : k < ta.signs.length := by have := (List.getElem?_eq_some_iff.mp hr).1; rw [hwa.2.1, ← hwa.1]; exact this
      obtain ⟨la, fa⟩ := ha.2.2.2 k _ r (List.getElem?_eq_getElem hk) hr
      have hc := commutes_of_fixG Q8.lawful _ _ (rowD tb i) r ψ (by rw [hw, la]) (by rw [hw]; exact ha.1) fb fa hnz
      rw [commutes_iff] at hc
      simp [sp, hc])
  have hrows : t1.rows = t2.rows :=
    hU t1.n t1 t2 hwf1 hwf2 rfl hn.symm hc1 hc2 (span t1 t2 h1 h2 hd1 hn)
      (by have := span t2 t1 h2 h1 hd2 hn.symm; rw [← hn] at this; exact this)
  have hsigns : t1.signs = t2.signs := by
    apply List.ext_getElem (by rw [hwf1.2.1, hwf2.2.1, hn])
    intro i hi1 hi2
    have hi : i < t1.rows.length := by rw [hwf1.1, ← hwf1.2.1]; exact hi1
    have hr1 : t1.rows[i]? = some t1.rows[i] := List.getElem?_eq_getElem hi
    have hr2 : t2.rows[i]? = some t1.rows[i] := by rw [← hrows]; exact hr1
    exact sign_unique t1.rows[i] ψ _ _ (h1.2.2.2 i _ _ (List.getElem?_eq_getElem hi1) hr1).2
      (h2.2.2.2 i _ _ (List.getElem?_eq_getElem hi2) hr2).2 hnz
  cases t1; cases t2
  simp only [Tab.mk.injEq]
  exact ⟨hn, hrows, hsigns⟩


/-! ## composition, 2: every reachable tableau is a `normalize` output (or `Tab.new`) up to its signs -/

def NormOrNew (n : Nat) (t : Tab) : Prop :=
  (∃ s, t = { Tab.new n with signs := s }) ∨
  ∃ (t0 t' : Tab) (s : List Bool), t0.WF ∧ t0.normalize phG = .ok t' ∧ t = { t' with signs := s }

theorem reach_origin (n : Nat) (t : Tab) (ψ : List Q8) (hr : ReachG n t ψ) : NormOrNew n t := by
  have ha := Q8.lawful
  have hs := lawfulSimQ8
  have hph : PhaseTableCorrect phG := phaseTable_correct
  have hp := Q1t.Proofs.ConjQ8.prims_exact_Q8
  have hT := tableFacts_generated
  have sound := fun (t : Tab) (ψ : List Q8) (h : ReachG n t ψ) =>
    reach_sound n phG tblG ncG ha hs hph hp hT (detShapeHolds_generated n) t ψ h
  induction hr with
  | init => exact Or.inl ⟨(Tab.new n).signs, rfl⟩
  | scale t ψ a b hab _ ih => exact ih
  | gate g bits t t' ψ hvalid hreach hok _ =>
    obtain ⟨hst, hn, _⟩ := sound t ψ hreach
    obtain ⟨hw, hstab, hvb, hlen⟩ := hvalid
    have te := term_exact tblG ncG hp Q1t.Proofs.ConjEmbed.embed_exact g hw hstab
    have hM : WF (2 ^ bits.length) (2 ^ bits.length) (specMatrix g : LMat Q8) := by rw [hlen]; exact te.wf
    have hrule : RuleExact Empty (specMatrix g : LMat Q8) bits.length (conjugateT tblG ncG g) := by
      rw [hlen]; exact te.rule
    simp only [Tab.applyGate, bind] at hok
    obtain ⟨t1, ht1, hnorm⟩ := bind_ok hok
    obtain ⟨hψ, h2, h3, h4⟩ := hst
    obtain ⟨hsh1, hdone, _⟩ := conjRows_inv ha (by rw [hn]; exact hvb) hM hrule ψ hψ (List.range t.n) t t1
      List.nodup_range (fun i hi => List.mem_range.mp hi) ⟨rfl, h2, h3⟩ (fun k _ s r hs' hr => h4 k s r hs' hr) ht1
    have hE : WF (2 ^ t.n) (2 ^ t.n) (embed t.n bits (specMatrix g : LMat Q8)) := Q1t.Proofs.Route.embed_wf _ _ _
    have hst1 : StabG Empty t1 (mulVec (embed t.n bits (specMatrix g : LMat Q8)) ψ) := by
      refine ⟨by rw [mulVec_length, hE.1, hsh1.1], by rw [hsh1.2.1, hsh1.1], by rw [hsh1.2.2, hsh1.1], ?_⟩
      intro i s r hs' hr
      have hi : i < t.n := by
        have := (List.getElem?_eq_some_iff.mp hr).1
        rw [hsh1.2.1] at this; exact this
      rw [hsh1.1]
      exact hdone i (List.mem_range.mpr hi) s r hs' hr
    exact Or.inr ⟨t1, t', t'.signs, wf_of_stabG t1 _ hst1, hnorm, rfl⟩
  | collapse t t' ψ q i o hreach hm hok _ =>
    obtain ⟨hst, hn, _⟩ := sound t ψ hreach
    obtain ⟨hq, hi, hxi, hlater⟩ := measure_random_inv t q i hm
    simp only [Tab.collapse, bind] at hok
    obtain ⟨t1, ht1, hok⟩ := bind_ok hok
    obtain ⟨_, _, _, hst3⟩ := collapse_pre ha hph t t1 ψ hst q i hq hi hxi hlater o ht1
    split at hok
    case isFalse => cases hok
    obtain ⟨t3, ht3, hok⟩ := bind_ok hok
    simp only [Tab.setSign] at ht3
    split at ht3
    case isFalse => cases ht3
    cases ht3
    exact Or.inr ⟨_, t', t'.signs, wf_of_stabG _ _ hst3, hok, rfl⟩
  | resetDet t t' ψ q v hreach hm hok ih =>
    obtain ⟨hst, _, _⟩ := sound t ψ hreach
    obtain ⟨j, _, _, _, _, hreset⟩ := det_row phG t hst.2.1 q v hm (detShapeHolds_generated n t ψ hreach)
    rw [hreset t' hok]
    rcases ih with ⟨s, hs'⟩ | ⟨t0, t'', s, h1, h2, h3⟩
    · left; exact ⟨t.signs.set j false, by rw [hs']⟩
    · right; exact ⟨t0, t'', t.signs.set j false, h1, h2, by rw [h3]⟩

theorem canon_signs (t : Tab) (s : List Bool) (h : Canon t) : Canon { t with signs := s } := h

theorem canon_of_reach (hCI : ∀ n, PartCanonI n) (hCN : PartCanonN) (n : Nat) (t : Tab) (ψ : List Q8)
    (hr : ReachG n t ψ) : Canon t := by
  rcases reach_origin n t ψ hr with ⟨s, hs⟩ | ⟨t0, t', s, h1, h2, h3⟩
  · rw [hs]; exact canon_signs _ s (hCI n)
  · rw [h3]; exact canon_signs _ s (hCN t0 t' h1 h2)

/-- **history independence from the parts**: two derivations ending in proportional vectors end in the identical
tableau (generated tables, ℚ(ζ₈), every `n`) -/
theorem history_independent_of_parts (hS : PartS) (hU : PartU) (hCI : ∀ n, PartCanonI n) (hCN : PartCanonN)
    (n : Nat) (t1 t2 : Tab) (ψ1 ψ2 : List Q8) (c : Q8) (h1 : ReachG n t1 ψ1) (h2 : ReachG n t2 ψ2)
    (hprop : ψ2 = ψ1.map (· * c)) : t1 = t2 := by
  have inv := fun (t : Tab) (ψ : List Q8) (h : ReachG n t ψ) =>
    inv_of_reach n (partIb n) (partN_of partN1 partN2b) (partG n) partK partC2 t ψ h
  obtain ⟨hst1, hn1, _, _, hd1⟩ := inv t1 ψ1 h1
  obtain ⟨hst2, hn2, hw2, _, hd2⟩ := inv t2 ψ2 h2
  have hst1' : StabG Empty t1 ψ2 := by rw [hprop]; exact stabG_scale t1 ψ1 c hst1
  exact equal_states_of_parts hS hU t1 t2 ψ2 hst1' hst2 (nz_of_weight lawfulSimQ8 q8_one_ne_zero ψ2 hw2)
    (hn1.trans hn2.symm) (canon_of_reach hCI hCN n t1 ψ1 h1) (canon_of_reach hCI hCN n t2 ψ2 h2) hd1 hd2

end Q1t.Proofs.DetPlan

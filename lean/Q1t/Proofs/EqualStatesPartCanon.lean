import Q1t.Proofs.EqualStatesPlan
set_option linter.unusedSectionVars false
set_option linter.unusedVariables false
set_option linter.unusedSimpArgs false
/-!
`PartCanonN`, `PartCanonI`: `normalize` produces the full canonical shape `Canon`; `Tab.new n` has it.

`PInv` (from `DetShapePartN1c`) is extended by `PExtra`: the pivot columns are strictly increasing and `< j`, and
every pivot is the leading `sel`-bit of its row.
-/
namespace Q1t.Proofs.DetPlan
open Q1t Q1t.Tableau Q1t.Spec.Pauli Q1t.Proofs.Tableau Q1t.Proofs.TabG

structure PExtra (sel : P → Bool) (i0 : Nat) (t : Tab) (j : Nat) (piv : List Nat) : Prop where
  sorted : piv.Pairwise (· < ·)
  plt : ∀ c ∈ piv, c < j
  lead : ∀ (a : Nat) (h : a < piv.length) (c : Nat), c < piv[a] → bit sel t (i0 + a) c = false

theorem pass_step_extra {sel s2 : P → Bool} (hsel : XorLin sel) (hs2 : XorLin s2) (n i0 : Nat) (t0 t : Tab) (j i : Nat)
    (piv : List Nat) (hj : j < n) (inv : PInv sel s2 n i0 t0 t j i piv) (ex : PExtra sel i0 t j piv)
    (k : Nat) (hk1 : i ≤ k) (hk2 : k < n)
    (hkb : bit sel t k j = true) (t1 t2 : Tab) (e1 : t.swapRows i k = .ok t1)
    (e2 : Tab.elimRows phG sel j i (List.range t1.n) t1 = .ok t2) :
    PExtra sel i0 t2 (j + 1) (piv ++ [j]) := by
  obtain ⟨wf, hn, hi, hlen, pbit, clear, free2, keep2⟩ := inv
  obtain ⟨sorted, plt, lead⟩ := ex
  have hin : i < n := by omega
  obtain ⟨hn1, hwf1, hrow1⟩ := swapRows_rowD t t1 i k e1
  have hb1 : ∀ (s : P → Bool) k' c, bit s t1 k' c = bit s t (swapIdx i k k') c := fun s k' c => by
    unfold bit; rw [hrow1 k']
  obtain ⟨hwf2, hn2, hb2⟩ := elimRows_bits hsel n j i hin (List.range t1.n) t1 t2 List.nodup_range
    (fun m hm => by rw [List.mem_range, hn1, hn] at hm; exact hm) (hwf1 wf) (hn1.trans hn) e2
  have hi0 : i0 ≤ i := by omega
  have hswi : swapIdx i k i = k := by unfold swapIdx; split <;> simp_all
  -- the new pivot row has no `sel`-bit before column j
  have hrow_i : ∀ c, c < j → bit sel t1 i c = false := fun c hc => by
    rw [hb1, hswi]; exact clear c hc k hk1
  refine ⟨?_, ?_, ?_⟩
  · rw [List.pairwise_append]
    refine ⟨sorted, List.pairwise_singleton _ _, fun a ha b hb => ?_⟩
    rw [List.mem_singleton] at hb; subst hb; exact plt a ha
  · intro c hc
    rcases List.mem_append.mp hc with h | h
    · have := plt c h; omega
    · rw [List.mem_singleton] at h; omega
  · intro a h c hc
    simp only [List.length_append, List.length_singleton] at h
    rw [hb2 sel hsel (i0 + a) c]
    by_cases ha : a < piv.length
    · rw [List.getElem_append_left ha] at hc
      have hcj : c < j := by have := plt piv[a] (List.getElem_mem ha); omega
      have h1 : bit sel t1 (i0 + a) c = false := by
        rw [hb1, swapIdx_lt i k (i0 + a) i (Nat.le_refl _) hk1 (by omega)]; exact lead a ha c hc
      rw [h1, hrow_i c hcj]; split <;> rfl
    · have ha' : a = piv.length := by omega
      subst ha'
      rw [List.getElem_append_right (Nat.le_refl _)] at hc
      simp only [Nat.sub_self, List.getElem_cons_zero] at hc
      have hia : i0 + piv.length = i := by omega
      rw [hia, hrow_i c hc]
      have : ¬ (i ∈ List.range t1.n ∧ i ≠ i ∧ bit sel t1 i j = true) := fun h => h.2.1 rfl
      rw [if_neg this]

/-- the whole loop, with the extra invariant -/
theorem pass_pinv_extra {sel s2 : P → Bool} (hsel : XorLin sel) (hs2 : XorLin s2) (n i0 : Nat) (t0 : Tab) :
    ∀ (m j : Nat) (t : Tab) (i : Nat) (piv : List Nat) (t' : Tab) (i' : Nat), j + m = n →
      PInv sel s2 n i0 t0 t j i piv → PExtra sel i0 t j piv → Tab.pass phG sel (List.range' j m) t i = .ok (t', i') →
      ∃ piv', PInv sel s2 n i0 t0 t' n i' piv' ∧ PExtra sel i0 t' n piv' := by
  intro m
  induction m with
  | zero =>
    intro j t i piv t' i' hjm inv ex hok
    simp only [List.range'_zero, Tab.pass] at hok
    cases hok
    have : j = n := by omega
    subst this
    exact ⟨piv, inv, ex⟩
  | succ m ih =>
    intro j t i piv t' i' hjm inv ex hok
    have hj : j < n := by omega
    rw [List.range'_succ] at hok
    simp only [Tab.pass, bind] at hok
    obtain ⟨res, hres, hok⟩ := bind_ok hok
    obtain ⟨f1, f2⟩ := findRow_bits sel t j _ res hres
    cases res with
    | none =>
      simp only [] at hok
      refine ih (j + 1) t i piv t' i' (by omega) ?_ ⟨ex.sorted, fun c hc => by have := ex.plt c hc; omega, ex.lead⟩ hok
      obtain ⟨wf, hn, hi, hlen, pbit, clear, free2, keep2⟩ := inv
      refine ⟨wf, hn, hi, hlen, pbit, ?_, free2, keep2⟩
      intro c hc k hk
      by_cases hcj : c = j
      · subst hcj
        by_cases hlt : k < n
        · exact f2 rfl k (by rw [List.mem_range'_1, hn]; omega)
        · exact bit_oob sel t k c (by rw [wf.1, hn]; omega)
      · exact clear c (by omega) k hk
    | some k =>
      simp only [] at hok
      obtain ⟨t1, e1, hok⟩ := bind_ok hok
      obtain ⟨t2, e2, hok⟩ := bind_ok hok
      obtain ⟨hkm, hkb⟩ := f1 k rfl
      rw [List.mem_range'_1, inv.hn] at hkm
      exact ih (j + 1) t2 (i + 1) (piv ++ [j]) t' i' (by omega)
        (pass_step hsel hs2 n i0 t0 t j i piv hj inv k hkm.1 (by omega) hkb t1 t2 e1 e2)
        (pass_step_extra hsel hs2 n i0 t0 t j i piv hj inv ex k hkm.1 (by omega) hkb t1 t2 e1 e2) hok


theorem bit_col_oob (sel : P → Bool) (t : Tab) (hwf : t.WF) (k c : Nat) (hc : t.n ≤ c) : bit sel t k c = false := by
  have hl : (rowD t k).length ≤ c := by
    by_cases hkn : k < t.rows.length
    · rw [hwf.2.2 _ (List.mem_of_getElem? (rowD_getElem? t k hkn))]; exact hc
    · have : rowD t k = [] := by
        simp [rowD, List.getD_eq_getElem?_getD, List.getElem?_eq_none (Nat.le_of_not_lt hkn)]
      rw [this]; simp
  simp [bit, bitAt, List.getElem?_eq_none hl]

/-- **`PartCanonN`** -/
theorem partCanonN : PartCanonN := by
  intro t0 t hwf hok
  simp only [Tab.normalize, bind] at hok
  obtain ⟨⟨t1, i1⟩, e1, hok⟩ := bind_ok hok
  obtain ⟨⟨t2, i2⟩, e2, hok⟩ := bind_ok hok
  cases hok
  have inv0 : PInv P.hasX (fun _ => false) t0.n 0 t0 t0 0 0 [] :=
    ⟨hwf, rfl, Nat.zero_le _, rfl, fun a h => by simp at h, fun c hc => by omega,
     fun k _ c => by simp [bit, bitAt]; split <;> rfl, fun k hk => by omega⟩
  have ex0 : PExtra P.hasX 0 t0 0 [] := ⟨List.Pairwise.nil, fun c hc => by simp at hc, fun a h => by simp at h⟩
  rw [List.range_eq_range'] at e1
  obtain ⟨pivX, invX, exX⟩ := pass_pinv_extra xorLin_hasX xorLin_false t0.n 0 t0 t0.n 0 t0 0 [] t1 i1 (by omega) inv0 ex0 e1
  have invZ0 : PInv P.hasZ P.hasX t0.n i1 t1 t1 0 i1 [] :=
    ⟨invX.wf, invX.hn, invX.hi, rfl, fun a h => by simp at h, fun c hc => by omega,
     fun k hk c => by
       by_cases hc : c < t0.n
       · exact invX.clear c hc k hk
       · exact bit_col_oob _ t1 invX.wf k c (by rw [invX.hn]; omega),
     fun k _ c => rfl⟩
  have exZ0 : PExtra P.hasZ i1 t1 0 [] := ⟨List.Pairwise.nil, fun c hc => by simp at hc, fun a h => by simp at h⟩
  rw [List.range_eq_range'] at e2
  obtain ⟨pivZ, invZ, exZ⟩ := pass_pinv_extra xorLin_hasZ xorLin_hasX t0.n i1 t1 t1.n 0 t1 i1 [] t2 i2
    (by rw [invX.hn]; omega) invZ0 exZ0 e2
  have hk : i1 = pivX.length := by have := invX.hlen; omega
  have hm : i2 = pivX.length + pivZ.length := by have := invZ.hlen; omega
  have hn2 : (t2, i2).1.n = t0.n := invZ.hn
  refine ⟨pivX, pivZ, ?_, exX.sorted, exZ.sorted, ?_, ?_, ?_, ?_, ?_, ?_⟩
  · rw [hn2, ← hm]; exact invZ.hi
  · intro c hc; rw [hn2]; exact exX.plt c hc
  · intro c hc; rw [hn2]; exact exZ.plt c hc
  · intro a ha
    refine ⟨fun i => ?_, fun c hc => ?_⟩
    · by_cases hi : i < i1
      · rw [invZ.keep2 i hi, invX.pbit a ha i]; simp
      · rw [invZ.free2 i (by omega)]
        have : ¬ i = a := by omega
        simp [this]
    · rw [invZ.keep2 a (by omega)]
      have := exX.lead a ha c hc
      simpa using this
  · intro i hi c
    exact invZ.free2 i (by omega) c
  · intro b hb
    refine ⟨fun i => ?_, fun c hc => ?_⟩
    · rw [invZ.pbit b hb i, hk]
    · have := exZ.lead b hb c hc
      rw [hk] at this; exact this
  · intro i hi c
    by_cases hc : c < t0.n
    · exact invZ.clear c hc i (by omega)
    · exact bit_col_oob _ _ invZ.wf i c (by rw [invZ.hn]; omega)

/-- **`PartCanonI`** -/
theorem partCanonI (n : Nat) : PartCanonI n := by
  have hbit : ∀ (sel : P → Bool) (i c : Nat), i < n → bit sel (Tab.new n) i c = bitAt sel (zRow n i) c := by
    intro sel i c hi
    unfold bit
    rw [rowD_of_getElem? _ i _ (new_rows n i hi)]
  have hoob : ∀ (sel : P → Bool) (i c : Nat), n ≤ i → bit sel (Tab.new n) i c = false := fun sel i c hi =>
    bit_oob sel _ i c (by simp [Tab.new]; exact hi)
  refine ⟨[], List.range n, by simp [Tab.new], List.Pairwise.nil, List.pairwise_lt_range, by simp, ?_, by simp, ?_, ?_, ?_⟩
  · intro c hc; simpa [Tab.new] using List.mem_range.mp hc
  · intro i _ c
    by_cases hi : i < n
    · rw [hbit _ i c hi]; exact bitAt_zRow_X n i c
    · exact hoob _ i c (by omega)
  · intro b hb
    have hbn : b < n := by simpa using hb
    simp only [List.getElem_range, List.length_nil, Nat.zero_add]
    refine ⟨fun i => ?_, fun c hc => ?_⟩
    · by_cases hi : i < n
      · rw [hbit _ i b hi, bitAt_zRow_Z n i b hbn]
        by_cases h : b = i <;> simp [h, eq_comm]
      · rw [hoob _ i b (by omega)]
        have : ¬ i = b := by omega
        simp [this]
    · rw [hbit _ b c hbn, bitAt_zRow_Z n b c (by omega)]
      have : ¬ c = b := by omega
      simp [this]
  · intro i hi c
    simp only [List.length_nil, List.length_range, Nat.zero_add] at hi
    exact hoob _ i c hi

end Q1t.Proofs.DetPlan

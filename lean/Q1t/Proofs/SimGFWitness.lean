import Q1t.Proofs.SimGFExpect
import Q1t.Proofs.UnitariesQ8
import Q1t.Spec.Born
/-!
C01, negative witnesses (known findings D2, D3): outside the fragment F the range sampler of the pinned
code is NOT a sample of N independent Born-rule runs.  Everything here is a closed computation over the
exact field `Q8 = ℚ(ζ₈)`, checked by the kernel (`decide +kernel`) on the *model's own* `Prog` term
(`execOps vecBackend …`) through `expect`.

`simAmpQ8` is a **partial** `SimAmp Q8` instance, sufficient for the two witness circuits only:
`rsqrt` is defined on the weights that occur (`1 ↦ 1`, `½ ↦ √2 = ζ − ζ³`) and is `0` elsewhere; `min1` is
the identity (all weights that occur are `½` or `1`).  It is not claimed lawful on all of `Q8`.
-/
namespace Q1t.Sim.Witness
open Q1t Q1t.Sim Q1t.Sim.Prog

def q8Half : Q8 := ⟨1/2, 0, 0, 0⟩
def q8Sqrt2 : Q8 := ⟨0, 1, 0, -1⟩
def q8Rat (r : Rat) : Q8 := ⟨r, 0, 0, 0⟩

/-- partial instance, see the file header -/
instance simAmpQ8 : SimAmp Q8 where
  normSq x := x * Q8.conj x
  rsqrt w := if w = 1 then 1 else if w = q8Half then q8Sqrt2 else 0
  min1 w := w
  weightsOk ws := ws.any (· ≠ 0)

/-- `rsqrt` is correct on the weights that occur: `rsqrt(w)² · w = 1` -/
theorem rsqrt_ok : ∀ w ∈ [(1 : Q8), q8Half], SimAmp.rsqrt w * SimAmp.rsqrt w * w = 1 := by decide +kernel

def nonzero (v : List Q8) : Bool := v.any (· ≠ 0)
def normSqSum (v : List Q8) : Q8 := (v.map SimAmp.normSq).foldl (· + ·) 0

/-- the observable of the multinomial law: `∏_shots x(word of the shot)` -/
def shotProd (x : Nat → Q8) (sc : VecState Q8 × List Nat) : Q8 := (sc.2.map x).foldl (· * ·) 1

/-- indicator of "the two shots carry the words `a` and `b` (in either order)" -/
def pairIs (a b : Nat) (sc : VecState Q8 × List Nat) : Q8 := if sc.2 = [a, b] ∨ sc.2 = [b, a] then 1 else 0

/-- the test function `x(1) = 1, x(2) = −1, x = 0` elsewhere -/
def xTest (v : Nat) : Q8 := if v = 1 then 1 else if v = 2 then -1 else 0

/-! ### D2: two peeks of `H|0⟩` -/

def peekPeek : List (COp Empty) := [.gate .H [0], .peek 0 0 .Z, .peek 0 1 .Z]

/-- the model's program for 2 shots -/
def peekPeekProg : Prog Q8 (VecState Q8 × List Nat) :=
  execOps (vecBackend (α := Q8) (P := Empty)) (VecState.new 1 2) [0, 0] peekPeek

/-- `H|0⟩` -/
def plus : List Q8 := Spec.gateOn (P := Empty) 1 .H [0] [1, 0]

/-- Born rule for a peek: outcome `o` has probability `‖P_o ψ‖²` (ψ normalised) and the state is kept.
For `H; peek→0; peek→1` the single-shot generating function therefore is
`Σ_{o0,o1} ‖P_{o0}ψ‖² · ‖P_{o1}ψ‖² · x(word o0 o1)` with `ψ = H|0⟩`. -/
def peekPeekBornGF (x : Nat → Q8) : Q8 :=
  ([false, true].flatMap fun o0 => [false, true].map fun o1 =>
    normSqSum (Spec.measureTo (P := Empty) 1 0 .Z o0 plus) * normSqSum (Spec.measureTo (P := Empty) 1 0 .Z o1 plus)
      * x (Spec.writeBit (Spec.writeBit 0 0 o0) 1 o1)).foldl (· + ·) 0

/-- the Born probability of register value `v` -/
def peekPeekBorn (v : Nat) : Q8 := peekPeekBornGF fun u => if u = v then 1 else 0

theorem plus_normalised : normSqSum plus = 1 := by decide +kernel

/-- Born: the four register values are equally likely -/
theorem peekPeek_born : ∀ v ∈ [0, 1, 2, 3], peekPeekBorn v = q8Rat (1/4) := by decide +kernel

/-- model: the two shots are never `{01, 10}` … -/
theorem peekPeek_model_12 : expect id peekPeekProg (pairIs 1 2) = 0 := by decide +kernel
/-- … and are `{00, 11}` with probability 1/4 -/
theorem peekPeek_model_03 : expect id peekPeekProg (pairIs 0 3) = q8Rat (1/4) := by decide +kernel
/-- Born multinomial for two independent shots: both pairs have probability `2 · ¼ · ¼ = 1/8` -/
theorem peekPeek_born_12 : (1 + 1) * peekPeekBorn 1 * peekPeekBorn 2 = q8Rat (1/8) := by decide +kernel
theorem peekPeek_born_03 : (1 + 1) * peekPeekBorn 0 * peekPeekBorn 3 = q8Rat (1/8) := by decide +kernel
/-- the model does not fail on this circuit: total probability 1 -/
theorem peekPeek_model_total : expect id peekPeekProg (fun _ => 1) = 1 := by decide +kernel

/-- the generating-function identity of the multinomial law is violated at `xTest` -/
theorem peekPeek_gf_ne : expect id peekPeekProg (shotProd xTest) ≠ peekPeekBornGF xTest * peekPeekBornGF xTest := by
  decide +kernel

/-! ### D3: `h; measure→0; reset_all; h; measure→1` -/

def measResetMeas : List (COp Empty) :=
  [.gate .H [0], .measure 0 0 .Z, .resetAll, .gate .H [0], .measure 0 1 .Z]

def measResetMeasProg : Prog Q8 (VecState Q8 × List Nat) :=
  execOps (vecBackend (α := Q8) (P := Empty)) (VecState.new 1 2) [0, 0] measResetMeas

/-- the reference branching semantics of the circuit from `|0⟩`, word 0 -/
def measResetMeasBranches : Option (List (List Q8 × Nat)) :=
  Spec.branches (P := Empty) 1 nonzero measResetMeas [([1, 0], 0)]

/-- single-shot generating function from the reference semantics: `Σ_branches ‖ψ‖² · x(word)` -/
def measResetMeasBornGF (x : Nat → Q8) : Q8 :=
  ((measResetMeasBranches.getD []).map fun br => normSqSum br.1 * x br.2).foldl (· + ·) 0

def measResetMeasBorn (v : Nat) : Q8 := measResetMeasBornGF fun u => if u = v then 1 else 0

theorem measResetMeas_branches_some : measResetMeasBranches.isSome = true := by decide +kernel

theorem measResetMeas_born : ∀ v ∈ [0, 1, 2, 3], measResetMeasBorn v = q8Rat (1/4) := by decide +kernel

theorem measResetMeas_model_12 : expect id measResetMeasProg (pairIs 1 2) = 0 := by decide +kernel
theorem measResetMeas_model_03 : expect id measResetMeasProg (pairIs 0 3) = q8Rat (1/4) := by decide +kernel
theorem measResetMeas_born_12 : (1 + 1) * measResetMeasBorn 1 * measResetMeasBorn 2 = q8Rat (1/8) := by
  decide +kernel
theorem measResetMeas_born_03 : (1 + 1) * measResetMeasBorn 0 * measResetMeasBorn 3 = q8Rat (1/8) := by
  decide +kernel
theorem measResetMeas_model_total : expect id measResetMeasProg (fun _ => 1) = 1 := by decide +kernel

theorem measResetMeas_gf_ne :
    expect id measResetMeasProg (shotProd xTest) ≠ measResetMeasBornGF xTest * measResetMeasBornGF xTest := by
  decide +kernel

/-! ### a SINGLE peek followed by a collapsing measurement of the same range: `h; peek→0; measure→1`

One peek per range between collapses is already enough to break the law: the peek writes its zeros to the
leading shots of the (unsplit) range and the following measurement sends its zeros to the leading shots too. -/

def peekMeas : List (COp Empty) := [.gate .H [0], .peek 0 0 .Z, .measure 0 1 .Z]

def peekMeasProg : Prog Q8 (VecState Q8 × List Nat) :=
  execOps (vecBackend (α := Q8) (P := Empty)) (VecState.new 1 2) [0, 0] peekMeas

/-- Born rule: the peek shows `o0` with probability `‖P_{o0}ψ‖²` and keeps `ψ = H|0⟩`; the measurement then shows
`o1` with probability `‖P_{o1}ψ‖²` -/
def peekMeasBornGF (x : Nat → Q8) : Q8 :=
  ([false, true].flatMap fun o0 => [false, true].map fun o1 =>
    normSqSum (Spec.measureTo (P := Empty) 1 0 .Z o0 plus) * normSqSum (Spec.measureTo (P := Empty) 1 0 .Z o1 plus)
      * x (Spec.writeBit (Spec.writeBit 0 0 o0) 1 o1)).foldl (· + ·) 0

def peekMeasBorn (v : Nat) : Q8 := peekMeasBornGF fun u => if u = v then 1 else 0

theorem peekMeas_born : ∀ v ∈ [0, 1, 2, 3], peekMeasBorn v = q8Rat (1/4) := by decide +kernel
theorem peekMeas_model_12 : expect id peekMeasProg (pairIs 1 2) = 0 := by decide +kernel
theorem peekMeas_born_12 : (1 + 1) * peekMeasBorn 1 * peekMeasBorn 2 = q8Rat (1/8) := by decide +kernel
theorem peekMeas_model_total : expect id peekMeasProg (fun _ => 1) = 1 := by decide +kernel
theorem peekMeas_gf_ne : expect id peekMeasProg (shotProd xTest) ≠ peekMeasBornGF xTest * peekMeasBornGF xTest := by
  decide +kernel
/-- with ONE shot the peek is right: every value has probability ¼ (the defect is in the joint law of the shots) -/
theorem peekMeas_one_shot : ∀ v ∈ [0, 1, 2, 3],
    expect id (execOps (vecBackend (α := Q8) (P := Empty)) (VecState.new 1 1) [0] peekMeas)
      (fun sc => if sc.2 = [v] then 1 else 0) = q8Rat (1/4) := by decide +kernel

end Q1t.Sim.Witness

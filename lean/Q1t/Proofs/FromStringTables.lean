import Q1t.Model.FromStringTables
import Q1t.Proofs.FromStringTotal
import Q1t.Proofs.FromStringLex
/-!
C15, part 0: the facts about the tables re-extracted from the sources (`Q1t.Gen.FromString`) that the theorems
use.  Each is a finite check of the generated data, re-done whenever the sources change.  (Core Lean only.)
-/
namespace Q1t.Proofs.FromString
open Q1t Q1t.FromString Q1t.Spec.FromString

/-- The `match` arms of `from_string` are the documented table. -/
theorem gen_dispatch_documented : genTables.dispatch = documentedTable := by decide +kernel

/-- The string literals of the arms are pairwise distinct: the `match` is a lookup table and the order of its arms (which
the generator normalises by sorting) carries no meaning. -/
theorem gen_keys_distinct : (genTables.dispatch.map (·.1)).Nodup := by decide +kernel

/-- Every arm constructs a gate struct the model knows, with the right number of arguments, from `gate.args[i]`
with `i` below the number of arguments the arm has asserted. -/
theorem gen_tableWF : TableWF genTables := by decide +kernel

theorem gen_decDigit : ∀ n ∈ List.range' 48 10, inRanges genTables.decimal n = true := by decide +kernel
theorem gen_decWs : ∀ n ∈ wsCodes, inRanges genTables.decimal n = false := by decide +kernel
theorem gen_decSym : ∀ n ∈ [40, 41, 44, 59], inRanges genTables.decimal n = false := by decide +kernel
theorem gen_foldWs : ∀ n ∈ wsCodes, genTables.foldExtras.contains n = false := by decide +kernel
theorem gen_foldSym : ∀ n ∈ [40, 41, 44, 59], genTables.foldExtras.contains n = false := by decide +kernel

/-- ASCII digits are `\d`; white space is neither `\d` nor matched by `(?i)[a-z0-9]`; nor are `( ) , ;`. -/
theorem gen_tabOK : TabOK genTables where
  decDigit n h1 h2 := gen_decDigit n (List.mem_range'_1.mpr ⟨h1, by omega⟩)
  decWs := gen_decWs
  decSym := gen_decSym
  foldWs := gen_foldWs
  foldSym := gen_foldSym

end Q1t.Proofs.FromString

import Mathlib.Data.List.Perm.Basic
import Q1t.Proofs.CQasmEquivCond
import Q1t.Proofs.OpenQasmMeasureAll
set_option linter.unusedSimpArgs false
set_option linter.unusedSectionVars false
set_option linter.unusedVariables false
/-!
C12 (`cq_equiv_partial`), part 11: `measure_all` in the Z basis.  `Spec/CQ1` measures the qubits one after the other
(qubit 0 first); `Spec/Born` enumerates the `2^n` outcome words.  The two branch lists are permutations of each other
(`seq_perm_born`, `branchesOp_measureAll` of the OpenQASM sibling: pure combinatorics over `Spec/Born`), so whole
circuits are related by `PermRel`: a permutation of the program's branch list is related branch by branch to the
circuit's.  For the non-zero test that keeps every branch (as in the sibling's lemma).
-/
namespace Q1t.Proofs.CQasm
open Q1t Q1t.Spec Q1t.Proofs.Route Q1t.CQ Q1t.Proofs.Unitaries

variable {α P : Type} [CommRing α] [Amp α P]

/-- a permutation of `l1` is related to `l2` position by position -/
def PermRel (R : CQ1.Branch α → CQ1.Branch α → Prop) (l1 l2 : List (CQ1.Branch α)) : Prop :=
  ∃ l, l1.Perm l ∧ List.Forall₂ R l l2

theorem permRel_of_forall2 (R : CQ1.Branch α → CQ1.Branch α → Prop) (l1 l2 : List (CQ1.Branch α))
    (h : List.Forall₂ R l1 l2) : PermRel R l1 l2 := ⟨l1, List.Perm.refl _, h⟩

theorem permRel_append (R : CQ1.Branch α → CQ1.Branch α → Prop) (a1 a2 b1 b2 : List (CQ1.Branch α))
    (ha : PermRel R a1 a2) (hb : PermRel R b1 b2) : PermRel R (a1 ++ b1) (a2 ++ b2) := by
  obtain ⟨la, pa, fa⟩ := ha
  obtain ⟨lb, pb, fb⟩ := hb
  exact ⟨la ++ lb, List.Perm.append pa pb, List.rel_append fa fb⟩

/-- one operation, outputs related up to a permutation -/
def StepRelP (R : CQ1.Branch α → CQ1.Branch α → Prop) (n : Nat) (nz : List α → Bool) (D : List (DStmt α))
    (cop : Sim.COp P) : Prop :=
  ∀ b1 b2, R b1 b2 → ∃ y, Spec.branchesOp n nz cop b2 = some y ∧ PermRel R (dSeq n nz D [b1]) y

theorem stepRelP_of_stepRel (R : CQ1.Branch α → CQ1.Branch α → Prop) (n : Nat) (nz : List α → Bool)
    (D : List (DStmt α)) (cop : Sim.COp P) (h : StepRel R n nz D cop) : StepRelP R n nz D cop := by
  intro b1 b2 hb
  obtain ⟨y, hy, hrel⟩ := h b1 b2 hb
  exact ⟨y, hy, permRel_of_forall2 R _ _ hrel⟩

theorem mapM_forall2P (R : CQ1.Branch α → CQ1.Branch α → Prop) (F : CQ1.Branch α → List (CQ1.Branch α))
    (G : CQ1.Branch α → Option (List (CQ1.Branch α)))
    (hFG : ∀ b1 b2, R b1 b2 → ∃ y, G b2 = some y ∧ PermRel R (F b1) y) :
    ∀ l1 l2, List.Forall₂ R l1 l2 → ∃ ys, l2.mapM G = some ys ∧ PermRel R (l1.flatMap F) ys.flatten
  | [], [], _ => ⟨[], rfl, [], List.Perm.refl _, List.Forall₂.nil⟩
  | b1 :: l1, b2 :: l2, h => by
    cases h with
    | cons hb hl =>
      obtain ⟨y, hy, hxy⟩ := hFG b1 b2 hb
      obtain ⟨ys, hys, hrel⟩ := mapM_forall2P R F G hFG l1 l2 hl
      refine ⟨y :: ys, by simp [List.mapM_cons, hy, hys], ?_⟩
      simp only [List.flatMap_cons, List.flatten_cons]
      exact permRel_append R _ _ _ _ hxy hrel

theorem fold_equivP (R : CQ1.Branch α → CQ1.Branch α → Prop) (n : Nat) (nz : List α → Bool) :
    ∀ (steps : List (List (DStmt α) × Sim.COp P)), (∀ s ∈ steps, StepRelP R n nz s.1 s.2) →
    ∀ brs1 brs2, PermRel R brs1 brs2 →
      ∃ r2, Spec.branches n nz (steps.map (·.2)) brs2 = some r2 ∧
        PermRel R (dSeq n nz (steps.flatMap (·.1)) brs1) r2
  | [], _, brs1, brs2, h => ⟨brs2, rfl, by simpa [dSeq] using h⟩
  | s :: rest, hs, brs1, brs2, h => by
    obtain ⟨l, hperm, hfor⟩ := h
    obtain ⟨ys, hys, hrel⟩ := mapM_forall2P R (fun b => dSeq n nz s.1 [b]) (Spec.branchesOp n nz s.2)
      (hs s (by simp)) l brs2 hfor
    have hrel' : PermRel R (brs1.flatMap fun b => dSeq n nz s.1 [b]) ys.flatten := by
      obtain ⟨m, pm, fm⟩ := hrel
      exact ⟨m, (List.Perm.flatMap_right _ hperm).trans pm, fm⟩
    obtain ⟨r2, hr2, hfin⟩ := fold_equivP R n nz rest (fun x hx => hs x (by simp [hx])) _ _ hrel'
    refine ⟨r2, ?_, ?_⟩
    · simp only [List.map_cons, Spec.branches, hys, Option.bind_some]; exact hr2
    · simp only [List.flatMap_cons, dSeq_append]
      rw [dSeq_flatMap n nz s.1 brs1]
      exact hfin

/-! ### `measure_all` -/

def measureAllStmts (n : Nat) : List (DStmt α) := (List.range n).map fun q => .measure q [] []

/-- `Spec/CQ1`'s `measure_all` is the value-level statement list -/
theorem instrSem_measureAll (S : CQ1.NumSem α P) (n : Nat) (nz : List α → Bool) (br : CQ1.Branch α) :
    CQ1.instrSem S n nz ⟨[], "measure_all", []⟩ br = some (dSeq n nz (measureAllStmts n) [br]) := by
  have : ∀ (qs : List Nat) (L : List (CQ1.Branch α)),
      qs.foldl (fun brs q => brs.flatMap (CQ1.measureWith n nz [] [] q)) L =
        dSeq n nz (qs.map fun q => DStmt.measure q [] []) L := by
    intro qs
    induction qs with
    | nil => intro L; rfl
    | cons q qs ih => intro L; simp only [List.foldl_cons, List.map_cons, dSeq, dSem]; exact ih _
  simp only [CQ1.instrSem, measureAllStmts]
  rw [this]

theorem dSeq_measures_eq_seqMeasure (n : Nat) (hn : n ≤ 64) (nz : List α → Bool) (hnz : ∀ φ, nz φ = true) :
    ∀ (qs : List Nat) (L : List (CQ1.Branch α)), (∀ q ∈ qs, q < n) → (∀ b ∈ L, b.2 < 2 ^ n) →
      dSeq n nz (qs.map fun q => DStmt.measure q [] []) L = OpenQasm.seqMeasure n (qs.map fun q => (q, q)) L
  | [], L, _, _ => rfl
  | q :: qs, L, hq, hL => by
    have hstep : L.flatMap (dSem n nz (.measure q [] [])) = OpenQasm.mstep n (q, q) L := by
      unfold OpenQasm.mstep
      apply List.flatMap_congr
      intro b hb
      have hw : b.2 < 2 ^ 64 := Nat.lt_of_lt_of_le (hL b hb) (Nat.pow_le_pow_right (by omega) hn)
      have hk : q < 64 := by have := hq q (by simp); omega
      simp [dSem, CQ1.measureWith, hnz, OpenQasm.stepB, writeBit_eq b.2 q _ hw hk, project_eq]
    simp only [List.map_cons, dSeq, OpenQasm.seqMeasure, List.foldl_cons, hstep]
    apply dSeq_measures_eq_seqMeasure n hn nz hnz qs _ (fun x hx => hq x (by simp [hx]))
    intro b hb
    simp only [OpenQasm.mstep, List.mem_flatMap, List.mem_cons, List.not_mem_nil, or_false] at hb
    obtain ⟨b0, hb0, hb⟩ := hb
    have hw0 : b0.2 < 2 ^ 64 := Nat.lt_of_lt_of_le (hL b0 hb0) (Nat.pow_le_pow_right (by omega) hn)
    have hk : q < 64 := by have := hq q (by simp); omega
    rcases hb with rfl | rfl <;>
      simp only [OpenQasm.stepB, writeBit_eq b0.2 q _ hw0 hk] <;>
      exact cq1_writeBit_lt n _ q _ (hL b0 hb0) (hq q (by simp))

theorem qpairs_range (n : Nat) : OpenQasm.qpairs n (List.range n) = (List.range n).map fun q => (q, q) := by
  unfold OpenQasm.qpairs
  apply List.map_congr_left
  intro q hq
  have : q < n := by simpa using hq
  simp [List.getD_eq_getElem?_getD, this]

theorem dSeq_measures_inv (n : Nat) (nz : List α → Bool) :
    ∀ (qs : List Nat) (L : List (CQ1.Branch α)), (∀ q ∈ qs, q < n) → (∀ b ∈ L, BrInv n nz b) →
      ∀ b ∈ dSeq n nz (qs.map fun q => DStmt.measure q [] []) L, BrInv n nz b
  | [], L, _, hL => by simpa [dSeq] using hL
  | q :: qs, L, hq, hL => by
    simp only [List.map_cons, dSeq]
    apply dSeq_measures_inv n nz qs _ (fun x hx => hq x (by simp [hx]))
    intro b hb
    obtain ⟨b0, hb0, hb⟩ := List.mem_flatMap.mp hb
    apply measure_inv n nz q (hq q (by simp)) [] [] b0 (hL b0 hb0) b
    simpa [dSeq] using hb

/-- a step on equal inputs, outputs related up to phase and a permutation -/
def StepPhP (P : Type) [Amp α P] (n : Nat) (nz : List α → Bool) (D : List (DStmt α)) (cop : Sim.COp P) : Prop :=
  ∀ br, BrInv n nz br → ∃ y, Spec.branchesOp n nz cop br = some y ∧ PermRel (PhRel P n nz) (dSeq n nz D [br]) y

theorem stepRelP_of_stepPhP (h : LawfulAmp α P) (n : Nat) (nz : List α → Bool) (hs : NzScale P nz)
    (D : List (DStmt α)) (cop : Sim.COp P) (hst : StepPhP P n nz D cop) : StepRelP (PhRel P n nz) n nz D cop := by
  intro b1 b2 ⟨hinv, c, hc, hb⟩
  obtain ⟨y, hy, l, hperm, hrel⟩ := hst b2 hinv
  refine ⟨y, hy, l.map (scaleBr c), ?_, ?_⟩
  · subst hb
    have := dSeq_vsmul n nz hs c hc D [b2]
    simp only [List.map_cons, List.map_nil] at this
    rw [this]
    exact hperm.map _
  · have key : ∀ (l1 l2 : List (CQ1.Branch α)), List.Forall₂ (PhRel P n nz) l1 l2 →
        List.Forall₂ (PhRel P n nz) (l1.map (scaleBr c)) l2 := by
      intro l1 l2 hl
      induction hl with
      | nil => exact List.Forall₂.nil
      | cons hb _ ih =>
        obtain ⟨hi, c', hc', he⟩ := hb
        refine List.Forall₂.cons ⟨hi, c * c', unit_mul h c c' hc hc', ?_⟩ ih
        rw [he]; simp [scaleBr, vsmul_vsmul]
    exact key _ _ hrel

/-- **`measure_all` in Z**: the qubit-by-qubit branch list of `Spec/CQ1` is a permutation of `Spec/Born`'s list -/
theorem stepPhP_measureAll (h : LawfulAmp α P) (n : Nat) (hn : n ≤ 64) (nz : List α → Bool) (hnz : ∀ φ, nz φ = true) :
    StepPhP P n nz (measureAllStmts n) (.measureAll (List.range n) .Z) := by
  intro br hbr
  obtain ⟨ψ, w⟩ := br
  have hw : w < 2 ^ 64 := Nat.lt_of_lt_of_le hbr.word (Nat.pow_le_pow_right (by omega) hn)
  have hB := OpenQasm.branchesOp_measureAll (P := P) n nz hnz (List.range n) (by simp) List.nodup_range
    (fun c hc => by have : c < n := by simpa using hc
                    omega) ψ w hw
  refine ⟨_, hB, ?_⟩
  have e1 := dSeq_measures_eq_seqMeasure n hn nz hnz (List.range n) [(ψ, w)] (fun q hq => by simpa using hq)
    (fun b hb => by simp at hb; subst hb; exact hbr.word)
  have hperm := OpenQasm.seq_perm_born (α := α) n (OpenQasm.qpairs n (List.range n)) (ψ, w)
  rw [qpairs_range] at hperm ⊢
  refine ⟨OpenQasm.bornList n ((List.range n).map fun q => (q, q)) (ψ, w), ?_, ?_⟩
  · unfold measureAllStmts
    rw [e1]
    exact hperm
  · have hall : ∀ b ∈ OpenQasm.bornList n ((List.range n).map fun q => (q, q)) (ψ, w), BrInv n nz b := by
      intro b hb
      have hb' : b ∈ dSeq n nz ((List.range n).map fun q => DStmt.measure q [] []) [(ψ, w)] := by
        rw [e1]; exact hperm.symm.subset hb
      exact dSeq_measures_inv n nz (List.range n) [(ψ, w)] (fun q hq => by simpa using hq)
        (fun b hb => by simp at hb; subst hb; exact hbr) b hb'
    have key : ∀ l : List (CQ1.Branch α), (∀ b ∈ l, BrInv n nz b) → List.Forall₂ (PhRel P n nz) l l := by
      intro l hl
      induction l with
      | nil => exact List.Forall₂.nil
      | cons b l ih =>
        refine List.Forall₂.cons ⟨hl b (by simp), 1, by rw [h.conj_one]; ring, by simp [scaleBr, vsmul_one]⟩
          (ih fun x hx => hl x (by simp [hx]))
    exact key _ hall

/-- the per-operation class with `measure_all` in Z into the bits `0..n-1` (the only register layout that the exporter
accepts: `measureAllOk`) -/
inductive FaithfulOpM (n : Nat) (nz : List α → Bool) : XOp P → List (DStmt α) → Sim.COp P → Prop
  | base (op : XOp P) (D : List (DStmt α)) (cop : Sim.COp P) : FaithfulOpC n nz op D cop → FaithfulOpM n nz op D cop
  | measureAll : FaithfulOpM n nz (.measureAll (List.range n) .Z) (measureAllStmts n) (.measureAll (List.range n) .Z)

theorem stepRelP_of_faithfulM (h : LawfulAmp α P) (hh : LawfulHalf α P) (hn : LawfulNegHalf α P)
    (hq : LawfulQuarter α P) (n : Nat) (hn64 : n ≤ 64) (nz : List α → Bool) (hnz : ∀ φ, nz φ = true) (op : XOp P)
    (D : List (DStmt α)) (cop : Sim.COp P) (hf : FaithfulOpM n nz op D cop) : StepRelP (PhRel P n nz) n nz D cop := by
  have hs : NzScale P nz := fun c ψ _ => by rw [hnz, hnz]
  cases hf with
  | base op D cop hf' =>
    exact stepRelP_of_stepRel _ n nz D cop (stepRel_of_faithfulC h hh hn hq n hn64 nz hs op D cop hf')
  | measureAll => exact stepRelP_of_stepPhP h n nz hs _ _ (stepPhP_measureAll h n hn64 nz hnz)

/-- **cq_equiv_partial with `measure_all`**: for the non-zero test that keeps every branch, the branch list of the
exported statements is, up to a permutation, related branch by branch (same word, same state up to a unit factor) to
the branch list of the circuit in `Spec/Born`. -/
theorem circuit_equiv_measureAll (h : LawfulAmp α P) (hh : LawfulHalf α P) (hn : LawfulNegHalf α P)
    (hq : LawfulQuarter α P) (n : Nat) (hn64 : n ≤ 64) (nz : List α → Bool) (hnz : ∀ φ, nz φ = true)
    (steps : List (XOp P × List (DStmt α) × Sim.COp P)) (hst : ∀ s ∈ steps, FaithfulOpM n nz s.1 s.2.1 s.2.2) :
    ∃ r2, Spec.branches n nz (steps.map (·.2.2)) (CQ1.initial n) = some r2 ∧
      PermRel (PhRel P n nz) (dSeq n nz (steps.flatMap (·.2.1)) (CQ1.initial n)) r2 := by
  have hsteps : ∀ s ∈ steps.map (fun s => (s.2.1, s.2.2)), StepRelP (PhRel P n nz) n nz s.1 s.2 := by
    intro s hsm
    obtain ⟨x, hx, rfl⟩ := List.mem_map.mp hsm
    exact stepRelP_of_faithfulM h hh hn hq n hn64 nz hnz x.1 x.2.1 x.2.2 (hst x hx)
  have hinit : PermRel (PhRel P n nz) (CQ1.initial n : List (CQ1.Branch α)) (CQ1.initial n) := by
    apply permRel_of_forall2
    have hi := init_inv n nz (hnz _)
    simp only [CQ1.initial] at hi ⊢
    exact List.Forall₂.cons ⟨hi _ (by simp), 1, by rw [h.conj_one]; ring, by simp [scaleBr, vsmul_one]⟩ List.Forall₂.nil
  obtain ⟨r2, hr2, hrel⟩ := fold_equivP (PhRel P n nz) n nz _ hsteps _ _ hinit
  have e1 : (steps.map (fun s => (s.2.1, s.2.2))).map (·.2) = steps.map (·.2.2) := by simp
  have e2 : (steps.map (fun s => (s.2.1, s.2.2))).flatMap (·.1) = steps.flatMap (·.2.1) := by
    simp [List.flatMap_map]
  rw [e1] at hr2
  rw [e2] at hrel
  exact ⟨r2, hr2, hrel⟩

/-- the exporter's side: `measure_all` in Z into the bits `0..nq-1` is the one line `measure_all` -/
theorem export_measureAll {F : Type} (tbl : List Gen.CQGate) (N : Num F) (nq : Nat) :
    exportOp tbl N nq (.measureAll (List.range nq) .Z) = .ok ["measure_all".toList] := by
  have hok : ∀ (l : List Nat) (k : Nat), measureAllOk ((List.range' k l.length).zipIdx k) = true := by
    intro l
    induction l with
    | nil => intro k; rfl
    | cons a l ih =>
      intro k
      simp only [List.length_cons, List.range'_succ, List.zipIdx_cons, measureAllOk]
      simpa using ih (k + 1)
  have := hok (List.range nq) 0
  simp only [List.length_range, ← List.range_eq_range'] at this
  simp [exportOp, this]

end Q1t.Proofs.CQasm

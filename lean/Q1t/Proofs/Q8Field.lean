import Mathlib.NumberTheory.Real.Irrational
import Mathlib.Tactic.Linarith
import Mathlib.Tactic.FieldSimp
import Q1t.Proofs.UnitariesQ8
import Q1t.Proofs.SimResetAll
/-!
`Q8 = ℚ(ζ₈)` is a field: every non-zero element has an inverse (`x·x̄ = p + r√2` with `p = a²+b²+c²+d² > 0`, and
`p² − 2r² ≠ 0` because `√2` is irrational).  Hence `LocalWeights Q8` (C02: `reset_all` over `Q8`).
-/
namespace Q1t.Sim
open Q1t

theorem rat_sq_ne_two (q : ℚ) : q * q ≠ 2 := by
  intro h
  have h2 : ((q : ℝ)) * q = 2 := by exact_mod_cast h
  have hs : Real.sqrt 2 = |(q : ℝ)| := by
    rw [← h2, Real.sqrt_mul_self_eq_abs]
  have hirr := irrational_sqrt_two
  rw [hs] at hirr
  rcases abs_choice (q : ℝ) with h' | h'
  · rw [h'] at hirr; exact hirr ⟨q, rfl⟩
  · rw [h'] at hirr; exact hirr ⟨-q, by push_cast; rfl⟩

theorem q8_mul_def (x y : Q8) : x * y =
    ⟨x.a*y.a - x.b*y.d - x.c*y.c - x.d*y.b, x.a*y.b + x.b*y.a - x.c*y.d - x.d*y.c,
     x.a*y.c + x.b*y.b + x.c*y.a - x.d*y.d, x.a*y.d + x.b*y.c + x.c*y.b + x.d*y.a⟩ := rfl

theorem q8_exists_inv (x : Q8) (hx : x ≠ 0) : ∃ u : Q8, x * u = 1 := by
  obtain ⟨a, b, c, d⟩ := x
  obtain ⟨p, hp⟩ : ∃ p : ℚ, p = a * a + b * b + c * c + d * d := ⟨_, rfl⟩
  obtain ⟨r, hr⟩ : ∃ r : ℚ, r = -(a * d) + a * b + b * c + c * d := ⟨_, rfl⟩
  have hpos : 0 < p := by
    have hnn : 0 ≤ p := by
      rw [hp]; nlinarith [mul_self_nonneg a, mul_self_nonneg b, mul_self_nonneg c, mul_self_nonneg d]
    rcases lt_or_eq_of_le hnn with h | h
    · exact h
    · exfalso
      apply hx
      have za : a = 0 := by nlinarith [mul_self_nonneg a, mul_self_nonneg b, mul_self_nonneg c, mul_self_nonneg d]
      have zb : b = 0 := by nlinarith [mul_self_nonneg a, mul_self_nonneg b, mul_self_nonneg c, mul_self_nonneg d]
      have zc : c = 0 := by nlinarith [mul_self_nonneg a, mul_self_nonneg b, mul_self_nonneg c, mul_self_nonneg d]
      have zd : d = 0 := by nlinarith [mul_self_nonneg a, mul_self_nonneg b, mul_self_nonneg c, mul_self_nonneg d]
      subst za zb zc zd; rfl
  have hm : p * p - 2 * (r * r) ≠ 0 := by
    intro h0
    by_cases hr0 : r = 0
    · rw [hr0] at h0; nlinarith
    · apply rat_sq_ne_two (p / r)
      field_simp
      linarith
  obtain ⟨m, hmdef⟩ : ∃ m : ℚ, m = p * p - 2 * (r * r) := ⟨_, rfl⟩
  rw [← hmdef] at hm
  refine ⟨Q8.conj ⟨a, b, c, d⟩ * (⟨p, -r, 0, r⟩ * ⟨1 / m, 0, 0, 0⟩), ?_⟩
  have h1 : (⟨a, b, c, d⟩ : Q8) * Q8.conj ⟨a, b, c, d⟩ = ⟨p, r, 0, -r⟩ := by
    rw [q8_mul_def]
    simp only [Q8.conj, hp, hr]
    congr 1 <;> ring
  have h2 : (⟨p, r, 0, -r⟩ : Q8) * ⟨p, -r, 0, r⟩ = ⟨m, 0, 0, 0⟩ := by
    rw [q8_mul_def, hmdef]
    congr 1 <;> ring
  have h3 : (⟨m, 0, 0, 0⟩ : Q8) * ⟨1 / m, 0, 0, 0⟩ = 1 := by
    rw [q8_mul_def]
    show (⟨_, _, _, _⟩ : Q8) = ⟨1, 0, 0, 0⟩
    congr 1 <;> field_simp <;> ring
  rw [← mul_assoc, h1, ← mul_assoc, h2, h3]

/-- `Q8` is a field, so a sum of two weights is invertible only if one of them is -/
theorem localWeightsQ8 : LocalWeights Q8 := by
  intro a b ⟨u, hu⟩
  by_cases ha : a = 0
  · right
    subst ha
    exact ⟨u, by rwa [zero_add] at hu⟩
  · exact Or.inl (q8_exists_inv a ha)

end Q1t.Sim

import Q1t.Proofs.RouteBlock
import Mathlib.Tactic.IntervalCases
/-!
# C04 (a): every hand-written primitive route equals the block product with the gate's matrix
-/
namespace Q1t.Proofs.Route
open Q1t Q1t.Gate Q1t.Spec
variable {α P : Type} [CommRing α] [Amp α P]

/-- the primitive (non-combinator) gate terms -/
inductive IsPrim : GateTerm P → Prop
  | H : IsPrim .H | X : IsPrim .X | Y : IsPrim .Y | Z : IsPrim .Z | S : IsPrim .S | Sdg : IsPrim .Sdg
  | T : IsPrim .T | Tdg : IsPrim .Tdg | V : IsPrim .V | Vdg : IsPrim .Vdg | I : IsPrim .I
  | RX θ : IsPrim (.RX θ) | RY θ : IsPrim (.RY θ) | RZ l : IsPrim (.RZ l) | U1 l : IsPrim (.U1 l)
  | U2 φ l : IsPrim (.U2 φ l) | U3 θ φ l : IsPrim (.U3 θ φ l)
  | CX : IsPrim .CX | CY : IsPrim .CY | CZ : IsPrim .CZ | Swap : IsPrim .Swap

/-- tactic for `Acts2` goals: entries of row expressions, then `ring` -/
macro "acts2" : tactic => `(tactic|
  (intro s0 s1 w0 w1
   have w01 : rowWidth _ s0 = rowWidth _ s1 := w0.trans w1.symm
   have w10 : rowWidth _ s1 = rowWidth _ s0 := w01.symm
   refine ⟨?_, ?_, fun col => ⟨?_, ?_⟩⟩ <;>
   simp only [width_rsmul, width_rneg, width_radd, width_rsub, entry_rsmul, entry_rneg, entry_radd,
     entry_rsub, w0, w1] <;> try ring))

section prim
variable (m : Mode) (w : Nat) (hw : OkWidth m w) (t : Nat) (v : List (Row α m))
  (hv : RowsW m w v)
include hw hv

/-- a route that is a `twoBlock` acting as the 2×2 matrix of the gate -/
theorem lead_two (g : GateTerm P) (f : Row α m → Row α m → Row α m × Row α m) (a b c d : α)
    (hr : route (α := α) m g v = twoBlock f v) (hm : matrix (α := α) g = [[a, b], [c, d]])
    (hf : Acts2 m w f a b c d) (hlen : v.length = 2 * t) :
    route (α := α) m g v = some (blockMul m w (matrix (α := α) g) t v) := by
  rw [hr, hm]; exact twoBlock_spec m w hw f a b c d hf t v hlen hv

theorem lead_H (hlen : v.length = 2 * t) :
    route (α := α) (P := P) m .H v = some (blockMul m w (matrix (α := α) (P := P) .H) t v) := by
  apply lead_two m w hw t v hv .H _ _ _ _ _ (by rw [route]) (by rw [matrix]; rfl) _ hlen
  acts2

theorem lead_X (hlen : v.length = 2 * t) :
    route (α := α) (P := P) m .X v = some (blockMul m w (matrix (α := α) (P := P) .X) t v) := by
  apply lead_two m w hw t v hv .X _ _ _ _ _ (by rw [route]) (by rw [matrix]; rfl) _ hlen
  acts2

theorem lead_Y (hlen : v.length = 2 * t) :
    route (α := α) (P := P) m .Y v = some (blockMul m w (matrix (α := α) (P := P) .Y) t v) := by
  apply lead_two m w hw t v hv .Y _ _ _ _ _ (by rw [route]) (by rw [matrix]; rfl) _ hlen
  acts2

theorem lead_Z (hlen : v.length = 2 * t) :
    route (α := α) (P := P) m .Z v = some (blockMul m w (matrix (α := α) (P := P) .Z) t v) := by
  apply lead_two m w hw t v hv .Z _ _ _ _ _ (by rw [route]) (by rw [matrix]; rfl) _ hlen
  acts2

theorem lead_S (hlen : v.length = 2 * t) :
    route (α := α) (P := P) m .S v = some (blockMul m w (matrix (α := α) (P := P) .S) t v) := by
  apply lead_two m w hw t v hv .S _ _ _ _ _ (by rw [route]) (by rw [matrix]; rfl) _ hlen
  acts2

theorem lead_Sdg (hlen : v.length = 2 * t) :
    route (α := α) (P := P) m .Sdg v = some (blockMul m w (matrix (α := α) (P := P) .Sdg) t v) := by
  apply lead_two m w hw t v hv .Sdg _ _ _ _ _ (by rw [route]) (by rw [matrix]; rfl) _ hlen
  acts2

theorem lead_RX (θ : P) (hlen : v.length = 2 * t) :
    route (α := α) m (.RX θ) v = some (blockMul m w (matrix (α := α) (.RX θ)) t v) := by
  apply lead_two m w hw t v hv (.RX θ) _ _ _ _ _ (by rw [route]) (by rw [matrix]; rfl) _ hlen
  acts2

theorem lead_RY (θ : P) (hlen : v.length = 2 * t) :
    route (α := α) m (.RY θ) v = some (blockMul m w (matrix (α := α) (.RY θ)) t v) := by
  apply lead_two m w hw t v hv (.RY θ) _ _ _ _ _ (by rw [route]) (by rw [matrix]; rfl) _ hlen
  acts2

end prim

theorem conj_zeta8 (h : LawfulAmp α P) :
    Amp.conj P (Amp.zeta8 P : α) = Amp.hsqrt2 P - Amp.hsqrt2 P * Amp.I P := by
  rw [h.zeta8_eq, h.conj_add, h.conj_mul, h.conj_hsqrt2, h.conj_I]; ring

theorem conj_polar_one (h : LawfulAmp α P) (x : P) :
    Amp.conj P (Amp.polar (1 : α) x) = Amp.polar (1 : α) (Amp.pneg α x) := by
  unfold Amp.polar
  rw [h.conj_add, h.conj_mul, h.conj_mul, h.conj_mul, h.conj_one, h.conj_I, h.conj_cos, h.conj_sin,
    h.cos_pneg, h.sin_pneg]
  ring

omit [CommRing α] in
theorem wfMat_two (a b c d : α) : WFMat 2 [[a, b], [c, d]] := by
  refine ⟨rfl, ?_⟩; intro row hr; simp at hr; rcases hr with rfl | rfl <;> rfl

section prim
variable (m : Mode) (w : Nat) (hw : OkWidth m w) (t : Nat) (v : List (Row α m))
  (hv : RowsW m w v)
include hw hv

theorem lead_T (h : LawfulAmp α P) (hlen : v.length = 2 * t) :
    route (α := α) (P := P) m .T v = some (blockMul m w (matrix (α := α) (P := P) .T) t v) := by
  apply lead_two m w hw t v hv .T _ 1 0 0 (Amp.zeta8 P) (by rw [route])
    (by rw [matrix, h.zeta8_eq]; rfl) _ hlen
  acts2

theorem lead_Tdg (h : LawfulAmp α P) (hlen : v.length = 2 * t) :
    route (α := α) (P := P) m .Tdg v = some (blockMul m w (matrix (α := α) (P := P) .Tdg) t v) := by
  apply lead_two m w hw t v hv .Tdg _ 1 0 0 (Amp.conj P (Amp.zeta8 P)) (by rw [route])
    (by rw [matrix, conj_zeta8 h]; rfl) _ hlen
  acts2

theorem lead_RZ (h : LawfulAmp α P) (l : P) (hlen : v.length = 2 * t) :
    route (α := α) m (.RZ l) v = some (blockMul m w (matrix (α := α) (.RZ l)) t v) := by
  apply lead_two m w hw t v hv (.RZ l) _ (Amp.polar (1 : α) (Amp.pneg α (Amp.phalf α l))) 0 0
    (Amp.polar (1 : α) (Amp.phalf α l)) (by rw [route])
    (by rw [matrix, ← conj_polar_one h]; rfl) _ hlen
  acts2

/-- a route that is the default block multiply by the 2×2 matrix of the gate -/
theorem lead_default1 (g : GateTerm P) (M : LMat α)
    (hr : route (α := α) m g v = defaultRoute (α := α) 1 M v) (hm : matrix (α := α) g = M)
    (hM : WFMat 2 M) (hlen : v.length = 2 * t) :
    route (α := α) m g v = some (blockMul m w (matrix (α := α) g) t v) := by
  rw [hr, hm]; exact defaultRoute_spec m w hw 1 M hM t v hlen hv

theorem lead_V (hlen : v.length = 2 * t) :
    route (α := α) (P := P) m .V v = some (blockMul m w (matrix (α := α) (P := P) .V) t v) :=
  lead_default1 m w hw t v hv .V (matV (P := P)) (by rw [route]) (by rw [matrix]) (by exact wfMat_two _ _ _ _) hlen

theorem lead_Vdg (hlen : v.length = 2 * t) :
    route (α := α) (P := P) m .Vdg v = some (blockMul m w (matrix (α := α) (P := P) .Vdg) t v) :=
  lead_default1 m w hw t v hv .Vdg (matVdg (P := P)) (by rw [route]) (by rw [matrix]) (by exact wfMat_two _ _ _ _) hlen

theorem lead_U2 (φ l : P) (hlen : v.length = 2 * t) :
    route (α := α) m (.U2 φ l) v = some (blockMul m w (matrix (α := α) (.U2 φ l)) t v) :=
  lead_default1 m w hw t v hv (.U2 φ l) (matU2 φ l) (by rw [route]) (by rw [matrix]) (by exact wfMat_two _ _ _ _) hlen

theorem lead_U3 (θ φ l : P) (hlen : v.length = 2 * t) :
    route (α := α) m (.U3 θ φ l) v = some (blockMul m w (matrix (α := α) (.U3 θ φ l)) t v) :=
  lead_default1 m w hw t v hv (.U3 θ φ l) (matU3 θ φ l) (by rw [route]) (by rw [matrix]) (by exact wfMat_two _ _ _ _) hlen

theorem lead_U1 (l : P) (hlen : v.length = 2 * t) :
    route (α := α) m (.U1 l) v = some (blockMul m w (matrix (α := α) (.U1 l)) t v) := by
  cases m with
  | vec =>
    apply lead_two .vec w hw t v hv (.U1 l) _ _ _ _ _ (by rw [route]) (by rw [matrix]; rfl) _ hlen
    intro s0 s1 w0 w1
    refine ⟨w0, w1, fun col => ⟨?_, ?_⟩⟩ <;> simp only [rowEntry, rsmul, RowOps.smul] <;> ring
  | mat => exact lead_default1 .mat w hw t v hv (.U1 l) (matU1 l) (by rw [route]) (by rw [matrix]) (by exact wfMat_two _ _ _ _) hlen

omit [CommRing α] [Amp α P] hw hv in
theorem twoBlock_id (hlen : v.length = 2 * t) : twoBlock (fun s0 s1 => (s0, s1)) v = some v := by
  unfold twoBlock
  rw [if_neg (by omega)]
  have hn : v.length / 2 = t := by omega
  simp only [hn]
  congr 1
  have hl : (List.take t v).length = (List.drop t v).length := by simp; omega
  have e1 : List.map (fun x => x.1) (List.zipWith (fun s0 s1 => (s0, s1)) (List.take t v) (List.drop t v)) = List.take t v := by
    rw [← List.zip_eq_zipWith]; exact List.map_fst_zip (Nat.le_of_eq hl)
  have e2 : List.map (fun x => x.2) (List.zipWith (fun s0 s1 => (s0, s1)) (List.take t v) (List.drop t v)) = List.drop t v := by
    rw [← List.zip_eq_zipWith]; exact List.map_snd_zip (Nat.le_of_eq hl.symm)
  rw [e1, e2, List.take_append_drop]

theorem lead_I (hlen : v.length = 2 * t) :
    route (α := α) (P := P) m .I v = some (blockMul m w (matrix (α := α) (P := P) .I) t v) := by
  cases m with
  | vec =>
    have hm : matrix (α := α) (P := P) .I = [[1, 0], [0, 1]] := by rw [matrix]; rfl
    rw [route, hm, ← twoBlock_id .vec t v hlen]
    apply twoBlock_spec .vec w hw _ _ _ _ _ _ t v hlen hv
    acts2
  | mat =>
    exact lead_default1 .mat w hw t v hv .I (LMat.identity 2) (by rw [route]) (by rw [matrix])
      (by have : (LMat.identity 2 : LMat α) = [[1, 0], [0, 1]] := rfl
          rw [this]; exact wfMat_two _ _ _ _) hlen

end prim

set_option linter.unusedSectionVars false

theorem rowsW_drop (m : Mode) (w : Nat) (v : List (Row α m)) (n : Nat) (hv : RowsW m w v) :
    RowsW m w (v.drop n) := fun r hr => hv r (List.mem_of_mem_drop hr)

theorem rowsW_take (m : Mode) (w : Nat) (v : List (Row α m)) (n : Nat) (hv : RowsW m w v) :
    RowsW m w (v.take n) := fun r hr => hv r (List.mem_of_mem_take hr)

section prim
variable (m : Mode) (w : Nat) (hw : OkWidth m w) (t : Nat) (v : List (Row α m))
  (hv : RowsW m w v)
include hw hv

/-- a route `take n v ++ twoBlock f (drop n v)` is the controlled version of the 2×2 matrix -/
theorem lead_ctrl_two (g : GateTerm P) (f : Row α m → Row α m → Row α m × Row α m) (a b c d : α)
    (hr : route (α := α) m g v = (twoBlock f (v.drop (v.length / 2))).map (v.take (v.length / 2) ++ ·))
    (hm : matrix (α := α) g = controlledMat [[a, b], [c, d]])
    (hf : Acts2 m w f a b c d) (hlen : v.length = 4 * t) :
    route (α := α) m g v = some (blockMul m w (matrix (α := α) g) t v) := by
  rw [hr, hm]
  apply ctrl_spec m w hw [[a, b], [c, d]] t v (by simp; omega) hv
  apply twoBlock_spec m w hw f a b c d hf t _ (by simp; omega) (rowsW_drop m w v _ hv)

theorem lead_CX (hlen : v.length = 4 * t) :
    route (α := α) (P := P) m .CX v = some (blockMul m w (matrix (α := α) (P := P) .CX) t v) := by
  apply lead_ctrl_two m w hw t v hv .CX _ _ _ _ _ (by rw [route]) (by rw [matrix]; rfl) _ hlen
  acts2

theorem lead_CY (hlen : v.length = 4 * t) :
    route (α := α) (P := P) m .CY v = some (blockMul m w (matrix (α := α) (P := P) .CY) t v) := by
  apply lead_ctrl_two m w hw t v hv .CY _ _ _ _ _ (by rw [route]) (by rw [matrix]; rfl) _ hlen
  acts2

theorem lead_CZ (hlen : v.length = 4 * t) :
    route (α := α) (P := P) m .CZ v = some (blockMul m w (matrix (α := α) (P := P) .CZ) t v) := by
  apply lead_ctrl_two m w hw t v hv .CZ _ _ _ _ _ (by rw [route]) (by rw [matrix]; rfl) _ hlen
  acts2

end prim


theorem stateEntry_append (m : Mode) (x y : List (Row α m)) (r col : Nat) :
    stateEntry m (x ++ y) r col =
      if r < x.length then stateEntry m x r col else stateEntry m y (r - x.length) col := by
  simp only [stateEntry]
  by_cases h : r < x.length
  · rw [if_pos h, List.getElem?_append_left h]
  · rw [if_neg h, List.getElem?_append_right (Nat.le_of_not_lt h)]

theorem stateEntry_block (m : Mode) (v : List (Row α m)) (n t k col : Nat) (hk : k < t) :
    stateEntry m ((v.drop n).take t) k col = stateEntry m v (n + k) col := by
  rw [stateEntry_take _ _ _ _ _ hk, stateEntry_drop]

theorem sumTo_four (f : Nat → α) : ∑ c ∈ Finset.range 4, f c = f 0 + f 1 + f 2 + f 3 := by
  simp [Finset.sum_range_succ]

section prim
variable (m : Mode) (w : Nat) (hw : OkWidth m w) (t : Nat) (v : List (Row α m))
  (hv : RowsW m w v)
include hw hv

theorem lead_Swap (hlen : v.length = 4 * t) :
    route (α := α) (P := P) m .Swap v = some (blockMul m w (matrix (α := α) (P := P) .Swap) t v) := by
  rw [route, matrix, blocks_spec 4 t v (by omega) hlen]
  have hr4 : List.range 4 = [0, 1, 2, 3] := rfl
  simp only [hr4, List.map_cons, List.map_nil, Option.bind_some]
  congr 1
  have hbl : ∀ i, i < 4 → ((v.drop (i * t)).take t).length = t := by
    intro i hi; rw [List.length_take, List.length_drop, hlen]
    have : i * t + t ≤ 4 * t := by nlinarith
    omega
  have h0 := hbl 0 (by omega); have h1 := hbl 1 (by omega)
  have h2 := hbl 2 (by omega); have h3 := hbl 3 (by omega)
  apply state_ext m w
  · simp only [List.length_append, h0, h1, h2, h3, blockMul_length]; simp [matSwap]; omega
  · intro r hr
    simp only [List.mem_append] at hr
    rcases hr with ((h | h) | h) | h <;> exact hv r (List.mem_of_mem_drop (List.mem_of_mem_take h))
  · exact blockMul_rowsW m w hw _ _ _
  · intro r col hr hcol
    simp only [List.length_append, h0, h1, h2, h3] at hr
    have ht : 0 < t := by omega
    have hq : r / t < 4 := by rw [Nat.div_lt_iff_lt_mul ht]; omega
    have hj : r % t < t := Nat.mod_lt _ ht
    have hsplit : r = r / t * t + r % t := (Nat.div_add_mod' r t).symm
    have hML : (matSwap : LMat α).length = 4 := rfl
    rw [blockMul_entry m w hw _ t v r col (by rw [hML]; omega) hcol, hML, sumTo_four]
    generalize r / t = q at *
    generalize r % t = j at *
    subst hsplit
    simp only [stateEntry_append, List.length_append, h0, h1, h2, h3]
    interval_cases q
    · rw [if_pos (by omega), if_pos (by omega), if_pos (by omega), stateEntry_block _ _ _ _ _ _ (by omega)]
      simp [matSwap, LMat.get]
      try (congr 1; omega)
    · rw [if_pos (by omega), if_pos (by omega), if_neg (by omega), stateEntry_block _ _ _ _ _ _ (by omega)]
      simp [matSwap, LMat.get]
      try (congr 1; omega)
    · rw [if_pos (by omega), if_neg (by omega), stateEntry_block _ _ _ _ _ _ (by omega)]
      simp [matSwap, LMat.get]
      try (congr 1; omega)
    · rw [if_neg (by omega), stateEntry_block _ _ _ _ _ _ (by omega)]
      simp [matSwap, LMat.get]
      try (congr 1; omega)

end prim

/-- (a) every primitive gate, both modes, every state of `2^k·t` rows: the hand-written route equals
the block product with the gate's matrix -/
theorem lead_route_prim (h : LawfulAmp α P) (g : GateTerm P) (hg : IsPrim g) (m : Mode) (w : Nat)
    (hw : OkWidth m w) (t : Nat) (v : List (Row α m)) (hv : RowsW m w v)
    (hlen : v.length = 2 ^ nrBits g * t) :
    route (α := α) m g v = some (blockMul m w (matrix (α := α) g) t v) := by
  cases hg <;> simp only [nrBits, Nat.pow_one, show (2 : Nat) ^ 2 = 4 from rfl] at hlen
  case H => exact lead_H m w hw t v hv hlen
  case X => exact lead_X m w hw t v hv hlen
  case Y => exact lead_Y m w hw t v hv hlen
  case Z => exact lead_Z m w hw t v hv hlen
  case S => exact lead_S m w hw t v hv hlen
  case Sdg => exact lead_Sdg m w hw t v hv hlen
  case T => exact lead_T m w hw t v hv h hlen
  case Tdg => exact lead_Tdg m w hw t v hv h hlen
  case V => exact lead_V m w hw t v hv hlen
  case Vdg => exact lead_Vdg m w hw t v hv hlen
  case I => exact lead_I m w hw t v hv hlen
  case RX θ => exact lead_RX m w hw t v hv θ hlen
  case RY θ => exact lead_RY m w hw t v hv θ hlen
  case RZ l => exact lead_RZ m w hw t v hv h l hlen
  case U1 l => exact lead_U1 m w hw t v hv l hlen
  case U2 φ l => exact lead_U2 m w hw t v hv φ l hlen
  case U3 θ φ l => exact lead_U3 m w hw t v hv θ φ l hlen
  case CX => exact lead_CX m w hw t v hv hlen
  case CY => exact lead_CY m w hw t v hv hlen
  case CZ => exact lead_CZ m w hw t v hv hlen
  case Swap => exact lead_Swap m w hw t v hv hlen

end Q1t.Proofs.Route

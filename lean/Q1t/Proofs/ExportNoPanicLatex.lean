import Q1t.Proofs.LatexLoops
import Q1t.Proofs.NoPanicGeneric
import Q1t.Model.ExportClass
/-!
C18 ← C13: `WellFormed` (through `toLatexCirc`) puts every operation of a built circuit into the class for which
C13 proves that the LaTeX exporter model never panics (`opOk ∧ opSafe`).

The only part of `opOk` that is not a panic class — and therefore not a conjunct of `WellFormed` — concerns
conditional gates: C13's proof covers a conditional gate only if it is a one-column library gate (no `I`, `Kron`,
`Composite`, `Loop` under a condition) and the condition bits are distinct.  That is the extra hypothesis
`condOneColumn` of `latex_ne_panic`.
-/
set_option linter.unusedSectionVars false
set_option linter.unusedVariables false
set_option linter.unusedSimpArgs false
namespace Q1t.ExportClass
open Q1t Q1t.Sim Q1t.Builders Q1t.WellFormed Q1t.Latex Q1t.Spec.QcGrid Q1t.Proofs.Latex

variable {P : Type}

/-- the term draws itself in one column: a library gate other than `I` (`toLatexGate` of it is `simple`) -/
def simpleTerm : GateTerm P → Bool
  | .I | .Kron .. | .Composite .. | .Loop .. => false
  | .C g => simpleTerm g
  | _ => true

/-- conditional gates inside the class C13's theorem covers -/
def condOneColumn (c : Circ P) : Bool :=
  c.ops.all fun op => match op with
    | .cond control _ g _ => simpleTerm g && !WellFormed.hasDup control
    | _ => true

theorem nodup_of_hasDup' : ∀ (l : List Nat), WellFormed.hasDup l = false → l.Nodup
  | [], _ => List.nodup_nil
  | x :: xs, h => by
    simp only [WellFormed.hasDup, Bool.or_eq_false_iff] at h
    exact List.nodup_cons.mpr ⟨by simpa using h.1, nodup_of_hasDup' xs h.2⟩

theorem hasDup_of_nodup : ∀ (l : List Nat), l.Nodup → WellFormed.hasDup l = false
  | [], _ => rfl
  | x :: xs, h => by
    have := List.nodup_cons.mp h
    simp [WellFormed.hasDup, this.1, hasDup_of_nodup xs this.2]

/-! ### arity, `simple`, `noBig` of the image -/

mutual
theorem nbits_toLatex : (g : GateTerm P) → (toLatexGate g).nbits = Gate.nrBits g
  | .H | .X | .Y | .Z | .S | .Sdg | .T | .Tdg | .V | .Vdg | .I => by simp [toLatexGate, Gate.nbits, Gate.nrBits]
  | .RX _ | .RY _ | .RZ _ | .U1 _ | .U2 _ _ | .U3 _ _ _ => by simp [toLatexGate, Gate.nbits, Gate.nrBits]
  | .CX | .CY | .CZ | .Swap => by simp [toLatexGate, Gate.nbits, Gate.nrBits]
  | .C g => by simp [toLatexGate, Gate.nbits, Gate.nrBits, nbits_toLatex g]
  | .Kron a b => by simp [toLatexGate, Gate.nbits, Gate.nrBits, nbits_toLatex a, nbits_toLatex b]
  | .Composite _ _ _ => by simp [toLatexGate, Gate.nbits, Gate.nrBits]
  | .Loop _ _ _ _ _ => by simp [toLatexGate, Gate.nbits, Gate.nrBits]
end

theorem simple_toLatex : (g : GateTerm P) → simpleTerm g = true → simple (toLatexGate g) = true
  | .C g, h => by simpa [toLatexGate, simple] using simple_toLatex g (by simpa [simpleTerm] using h)
  | .H, _ | .X, _ | .Y, _ | .Z, _ | .S, _ | .Sdg, _ | .T, _ | .Tdg, _ | .V, _ | .Vdg, _ => by simp [toLatexGate, simple]
  | .RX _, _ | .RY _, _ | .RZ _, _ | .U1 _, _ | .U2 _ _, _ | .U3 _ _ _, _ => by simp [toLatexGate, simple]
  | .CX, _ | .CY, _ | .CZ, _ | .Swap, _ => by simp [toLatexGate, simple]
  | .I, h | .Kron _ _, h | .Composite _ _ _, h | .Loop _ _ _ _ _, h => by simp [simpleTerm] at h

theorem simpleTerm_of_named (g : GateTerm P) (h : isNamedC g = true) : simpleTerm g = true := by
  unfold isNamedC at h
  split at h <;> first | (simp [simpleTerm]; done) | (cases h)

mutual
theorem noBig_toLatex : (g : GateTerm P) → noBig (toLatexGate g) = noBigLoop g
  | .H | .X | .Y | .Z | .S | .Sdg | .T | .Tdg | .V | .Vdg | .I => by simp [toLatexGate, noBig, noBigLoop]
  | .RX _ | .RY _ | .RZ _ | .U1 _ | .U2 _ _ | .U3 _ _ _ => by simp [toLatexGate, noBig, noBigLoop]
  | .CX | .CY | .CZ | .Swap => by simp [toLatexGate, noBig, noBigLoop]
  | .C g => by simp [toLatexGate, noBig, noBigLoop, noBig_toLatex g]
  | .Kron a b => by simp [toLatexGate, noBig, noBigLoop, noBig_toLatex a, noBig_toLatex b]
  | .Composite _ _ ops => by simp [toLatexGate, noBig, noBigLoop, noBigSubs_toLatex ops]
  | .Loop _ k _ _ body => by simp [toLatexGate, noBig, noBigLoop, noBigSubs_toLatex body]
theorem noBigSubs_toLatex : (ops : OpList P) → noBigSubs (toLatexSubs ops) = noBigLoopOps ops
  | .nil => by simp [toLatexSubs, noBigSubs, noBigLoopOps]
  | .cons g _ rest => by simp [toLatexSubs, noBigSubs, noBigLoopOps, noBig_toLatex g, noBigSubs_toLatex rest]
end

/-! ### `goodPlace` -/

theorem nrBits_pos_of_simple : (g : GateTerm P) → simpleTerm g = true → 1 ≤ Gate.nrBits g
  | .C g, _ => by simp [Gate.nrBits]
  | .H, _ | .X, _ | .Y, _ | .Z, _ | .S, _ | .Sdg, _ | .T, _ | .Tdg, _ | .V, _ | .Vdg, _ => by simp [Gate.nrBits]
  | .RX _, _ | .RY _, _ | .RZ _, _ | .U1 _, _ | .U2 _ _, _ | .U3 _ _ _, _ => by simp [Gate.nrBits]
  | .CX, _ | .CY, _ | .CZ, _ | .Swap, _ => by simp [Gate.nrBits]
  | .I, h | .Kron _ _, h | .Composite _ _ _, h | .Loop _ _ _ _ _, h => by simp [simpleTerm] at h

theorem goodPlace_toLatex : (g : GateTerm P) → (bits : List Nat) → simpleTerm g = true →
    Gate.nrBits g = bits.length → ctrlOK g bits = true → goodPlace (toLatexGate g) bits = true
  | .C g, bits, hs, hn, hc => by
    have hs' : simpleTerm g = true := by simpa [simpleTerm] using hs
    have hp := nrBits_pos_of_simple g hs'
    simp only [Gate.nrBits] at hn
    match bits, hn, hc with
    | ctl :: t :: ts, hn, hc =>
      simp only [ctrlOK, Bool.and_eq_true, Bool.or_eq_true, decide_eq_true_eq] at hc
      have ih := goodPlace_toLatex g (t :: ts) hs' (by simp at hn ⊢; omega) hc.2
      simp only [toLatexGate, goodPlace, ih, Bool.and_true, Bool.or_eq_true, Bool.and_eq_true, decide_eq_true_eq, gt_iff_lt]
      rcases hc.1 with h | h
      · exact Or.inl ⟨h.1, h.2⟩
      · exact Or.inr ⟨h.1, h.2⟩
    | [], hn, _ => exfalso; simp at hn <;> omega
    | [_], hn, _ => exfalso; simp at hn <;> omega
  | .CX, bits, _, hn, hc | .CY, bits, _, hn, hc | .CZ, bits, _, hn, hc => by
    simp only [Gate.nrBits] at hn
    match bits, hn, hc with
    | [c, t], _, hc =>
      simp only [ctrlOK, bne_iff_ne, ne_eq] at hc
      rcases Nat.lt_or_gt_of_ne hc with h | h
      · simp [toLatexGate, goodPlace, h]
      · simp [toLatexGate, goodPlace, h]
  | .Swap, bits, _, hn, _ => by
    simp only [Gate.nrBits] at hn
    match bits, hn with
    | [_, _], _ => simp [toLatexGate, goodPlace]
  | .H, bits, _, hn, _ | .Y, bits, _, hn, _ | .S, bits, _, hn, _ | .Sdg, bits, _, hn, _ | .T, bits, _, hn, _
  | .Tdg, bits, _, hn, _ | .V, bits, _, hn, _ | .Vdg, bits, _, hn, _ | .X, bits, _, hn, _ | .Z, bits, _, hn, _ => by
    simp only [Gate.nrBits] at hn
    match bits, hn with
    | [_], _ => simp [toLatexGate, goodPlace]
  | .RX _, bits, _, hn, _ | .RY _, bits, _, hn, _ | .RZ _, bits, _, hn, _ | .U1 _, bits, _, hn, _
  | .U2 _ _, bits, _, hn, _ | .U3 _ _ _, bits, _, hn, _ => by
    simp only [Gate.nrBits] at hn
    match bits, hn with
    | [_], _ => simp [toLatexGate, goodPlace]
  | .I, _, h, _, _ | .Kron _ _, _, h, _, _ | .Composite _ _ _, _, h, _, _ | .Loop _ _ _ _ _, _, h, _, _ => by
    simp [simpleTerm] at h

/-- a one-column gate: `topOk` is `simple ∧ goodPlace ∧ Nodup` whatever the constructor -/
theorem topOk_of_simple (G : Gate) (bits : List Nat) (hs : simple G = true) (hg : goodPlace G bits = true)
    (hn : bits.Nodup) : topOk G bits = true := by
  cases G <;> simp_all [topOk, simple]

/-! ### sub-gate operands -/

theorem latex_subBits (bits : List Nat) : ∀ (sb : List Nat), (∀ b ∈ sb, b < bits.length) →
    Latex.subBits bits sb = some (sb.map fun b => bits.getD b 0) := by
  intro sb
  induction sb with
  | nil => intro _; rfl
  | cons b rest ih =>
    intro h
    have hb := h b (by simp)
    simp [Latex.subBits, List.getElem?_eq_getElem hb, ih (fun x hx => h x (by simp [hx])),
      List.getD_eq_getElem?_getD]

theorem nodup_map_getD (bits sb : List Nat) (hb : bits.Nodup) (hs : sb.Nodup) (hlt : ∀ b ∈ sb, b < bits.length) :
    (sb.map fun b => bits.getD b 0).Nodup := by
  induction sb with
  | nil => simp
  | cons x rest ih =>
    have hx := List.nodup_cons.mp hs
    refine List.nodup_cons.mpr ⟨?_, ih hx.2 (fun b hb' => hlt b (by simp [hb']))⟩
    intro hmem
    obtain ⟨y, hy, hyx⟩ := List.mem_map.mp hmem
    have hxl := hlt x (by simp)
    have hyl := hlt y (by simp [hy])
    simp only [List.getD_eq_getElem?_getD, List.getElem?_eq_getElem hxl, List.getElem?_eq_getElem hyl,
      Option.getD_some] at hyx
    have := (List.getElem_inj hb).mp hyx
    subst this
    exact hx.1 hy

theorem mem_map_getD (bits sb : List Nat) (hlt : ∀ b ∈ sb, b < bits.length) :
    ∀ x ∈ (sb.map fun b => bits.getD b 0), x ∈ bits := by
  intro x hx
  obtain ⟨b, hb, rfl⟩ := List.mem_map.mp hx
  have := hlt b hb
  simp [List.getD_eq_getElem?_getD, List.getElem?_eq_getElem this]

/-! ### `topOk` and `gateSafe` of the image -/

mutual
theorem topOk_toLatex : (g : GateTerm P) → (bits : List Nat) → gateOK g = true → Gate.nrBits g = bits.length →
    WellFormed.hasDup bits = false → ctrlOK g bits = true → topOk (toLatexGate g) bits = true
  | .I, _, _, _, _, _ => by simp [toLatexGate, topOk]
  | .Kron a b, bits, hok, hn, hd, hc => by
    simp only [gateOK, Bool.and_eq_true] at hok
    simp only [Gate.nrBits] at hn
    simp only [ctrlOK, Bool.and_eq_true] at hc
    have hnd := nodup_of_hasDup' bits hd
    simp only [toLatexGate, topOk, nbits_toLatex, Bool.and_eq_true]
    exact ⟨topOk_toLatex a _ hok.1 (by simp; omega) (hasDup_of_nodup _ (hnd.sublist (List.take_sublist _ _))) hc.1,
      topOk_toLatex b _ hok.2 (by simp; omega) (hasDup_of_nodup _ (hnd.sublist (List.drop_sublist _ _))) hc.2⟩
  | .Composite _ n ops, bits, hok, hn, hd, hc => by
    simp only [gateOK, Bool.and_eq_true, decide_eq_true_eq] at hok
    simp only [Gate.nrBits] at hn
    simp only [toLatexGate, topOk]
    exact topOkSubs_toLatex n ops bits hok.2 hn.symm hd (by simpa [ctrlOK] using hc)
  | .Loop _ _ _ n body, bits, hok, hn, hd, hc => by
    simp only [gateOK, Bool.and_eq_true, decide_eq_true_eq] at hok
    simp only [Gate.nrBits] at hn
    simp only [toLatexGate, topOk]
    exact topOkSubs_toLatex n body bits hok.2 hn.symm hd (by simpa [ctrlOK] using hc)
  | .C g, bits, hok, hn, hd, hc => by
    have hs : simpleTerm (.C g) = true := by
      simpa [simpleTerm] using simpleTerm_of_named g (by simpa [gateOK] using hok)
    exact topOk_of_simple _ bits (simple_toLatex _ hs) (goodPlace_toLatex _ bits hs hn hc) (nodup_of_hasDup' bits hd)
  | .H, bits, _, hn, hd, hc | .X, bits, _, hn, hd, hc | .Y, bits, _, hn, hd, hc | .Z, bits, _, hn, hd, hc
  | .S, bits, _, hn, hd, hc | .Sdg, bits, _, hn, hd, hc | .T, bits, _, hn, hd, hc | .Tdg, bits, _, hn, hd, hc
  | .V, bits, _, hn, hd, hc | .Vdg, bits, _, hn, hd, hc | .CX, bits, _, hn, hd, hc | .CY, bits, _, hn, hd, hc
  | .CZ, bits, _, hn, hd, hc | .Swap, bits, _, hn, hd, hc =>
    topOk_of_simple _ bits (simple_toLatex _ (by simp [simpleTerm])) (goodPlace_toLatex _ bits (by simp [simpleTerm]) hn hc)
      (nodup_of_hasDup' bits hd)
  | .RX _, bits, _, hn, hd, hc | .RY _, bits, _, hn, hd, hc | .RZ _, bits, _, hn, hd, hc | .U1 _, bits, _, hn, hd, hc
  | .U2 _ _, bits, _, hn, hd, hc | .U3 _ _ _, bits, _, hn, hd, hc =>
    topOk_of_simple _ bits (simple_toLatex _ (by simp [simpleTerm])) (goodPlace_toLatex _ bits (by simp [simpleTerm]) hn hc)
      (nodup_of_hasDup' bits hd)
theorem topOkSubs_toLatex (n : Nat) : (ops : OpList P) → (bits : List Nat) → opsOK n ops = true → bits.length = n →
    WellFormed.hasDup bits = false → ctrlOKOps ops bits = true → topOkSubs (toLatexSubs ops) bits = true
  | .nil, _, _, _, _, _ => by simp [toLatexSubs, topOkSubs]
  | .cons g sb rest, bits, hok, hn, hd, hc => by
    simp only [opsOK, Bool.and_eq_true, decide_eq_true_eq, Bool.not_eq_true', List.all_eq_true] at hok
    simp only [ctrlOKOps, Bool.and_eq_true] at hc
    have hlt : ∀ b ∈ sb, b < bits.length := fun b hb => by rw [hn]; exact hok.1.2 b hb
    simp only [toLatexSubs, topOkSubs, latex_subBits bits sb hlt, Bool.and_eq_true]
    refine ⟨topOk_toLatex g _ hok.1.1.1.1 (by simp [hok.1.1.1.2]) ?_ hc.1, topOkSubs_toLatex n rest bits hok.2 hn hd hc.2⟩
    exact hasDup_of_nodup _ (nodup_map_getD bits sb (nodup_of_hasDup' bits hd) (nodup_of_hasDup' sb hok.1.1.2) hlt)
end

mutual
theorem gateSafe_toLatex (nq : Nat) : (g : GateTerm P) → (bits : List Nat) → gateOK g = true →
    Gate.nrBits g = bits.length → (∀ b ∈ bits, b < nq) → loopsOK g = true → gateSafe nq (toLatexGate g) bits = true
  | .Kron a b, bits, hok, hn, hb, hl => by
    simp only [gateOK, Bool.and_eq_true] at hok
    simp only [Gate.nrBits] at hn
    simp only [loopsOK, Bool.and_eq_true] at hl
    simp only [toLatexGate, gateSafe, nbits_toLatex, Bool.and_eq_true]
    exact ⟨gateSafe_toLatex nq a _ hok.1 (by simp; omega) (fun x hx => hb x (List.mem_of_mem_take hx)) hl.1,
      gateSafe_toLatex nq b _ hok.2 (by simp; omega) (fun x hx => hb x (List.mem_of_mem_drop hx)) hl.2⟩
  | .Composite _ n ops, bits, hok, hn, hb, hl => by
    simp only [gateOK, Bool.and_eq_true, decide_eq_true_eq] at hok
    simp only [Gate.nrBits] at hn
    simp only [toLatexGate, gateSafe]
    exact subsSafe_toLatex nq n ops bits hok.2 hn.symm hb (by simpa [loopsOK] using hl)
  | .Loop _ k _ n body, bits, hok, hn, hb, hl => by
    simp only [gateOK, Bool.and_eq_true, decide_eq_true_eq] at hok
    simp only [Gate.nrBits] at hn
    simp only [loopsOK, Bool.and_eq_true, Bool.or_eq_true, decide_eq_true_eq] at hl
    simp only [toLatexGate, gateSafe, Bool.and_eq_true, Bool.or_eq_true, decide_eq_true_eq, noBig,
      noBigSubs_toLatex, Bool.not_eq_true', List.all_eq_true]
    refine ⟨subsSafe_toLatex nq n body bits hok.2 hn.symm hb hl.1, ?_⟩
    rcases hl.2 with h | h
    · exact Or.inl h
    · refine Or.inr ⟨⟨?_, hb⟩, h⟩
      cases bits with
      | nil => simp at hn; omega
      | cons _ _ => rfl
  | .C _, _, _, _, _, _ => by simp [toLatexGate, gateSafe]
  | .H, _, _, _, _, _ | .X, _, _, _, _, _ | .Y, _, _, _, _, _ | .Z, _, _, _, _, _ | .S, _, _, _, _, _
  | .Sdg, _, _, _, _, _ | .T, _, _, _, _, _ | .Tdg, _, _, _, _, _ | .V, _, _, _, _, _ | .Vdg, _, _, _, _, _
  | .I, _, _, _, _, _ | .CX, _, _, _, _, _ | .CY, _, _, _, _, _ | .CZ, _, _, _, _, _ | .Swap, _, _, _, _, _ => by
    simp [toLatexGate, gateSafe]
  | .RX _, _, _, _, _, _ | .RY _, _, _, _, _, _ | .RZ _, _, _, _, _, _ | .U1 _, _, _, _, _, _ | .U2 _ _, _, _, _, _, _
  | .U3 _ _ _, _, _, _, _, _ => by simp [toLatexGate, gateSafe]
theorem subsSafe_toLatex (nq n : Nat) : (ops : OpList P) → (bits : List Nat) → opsOK n ops = true → bits.length = n →
    (∀ b ∈ bits, b < nq) → loopsOKOps ops = true → subsSafe nq (toLatexSubs ops) bits = true
  | .nil, _, _, _, _, _ => by simp [toLatexSubs, subsSafe]
  | .cons g sb rest, bits, hok, hn, hb, hl => by
    simp only [opsOK, Bool.and_eq_true, decide_eq_true_eq, Bool.not_eq_true', List.all_eq_true] at hok
    simp only [loopsOKOps, Bool.and_eq_true] at hl
    have hlt : ∀ b ∈ sb, b < bits.length := fun b hb' => by rw [hn]; exact hok.1.2 b hb'
    simp only [toLatexSubs, subsSafe, latex_subBits bits sb hlt, Bool.and_eq_true]
    exact ⟨gateSafe_toLatex nq g _ hok.1.1.1.1 (by simp [hok.1.1.1.2])
      (fun x hx => hb x (mem_map_getD bits sb hlt x hx)) hl.1, subsSafe_toLatex nq n rest bits hok.2 hn hb hl.2⟩
end

/-! ### operations and circuits -/

theorem gate_facts {g : GateTerm P} {bits : List Nat} (hd : gateDefects g bits = []) :
    gateOK g = true ∧ Gate.nrBits g = bits.length ∧ WellFormed.hasDup bits = false ∧ ctrlOK g bits = true ∧ loopsOK g = true := by
  unfold gateDefects at hd
  simp only [List.append_eq_nil_iff] at hd
  obtain ⟨⟨⟨⟨h1, h2⟩, h3⟩, h4⟩, h5⟩ := hd
  have a1 : gateOK g = true := by
    apply Classical.byContradiction; intro h; simp [h] at h1
  have a2 : Gate.nrBits g = bits.length := by
    apply Classical.byContradiction; intro h; simp [h] at h2
  have a3 : WellFormed.hasDup bits = false := by
    apply Classical.byContradiction; intro h; simp at h; simp [h] at h3
  have a5 : loopsOK g = true := by
    apply Classical.byContradiction; intro h; simp [h] at h5
  refine ⟨a1, a2, a3, ?_, a5⟩
  apply Classical.byContradiction; intro h
  simp at h
  simp [a2, a3, h] at h4

theorem opOk_opSafe_of_wf (nq nc : Nat) (op : COp P) (hin : opInRange nq nc op) (hdef : opDefects nq op = [])
    (hcond : match op with | .cond control _ g _ => simpleTerm g = true ∧ WellFormed.hasDup control = false | _ => True) :
    opOk (toLatexOp op) = true ∧ opSafe nq (toLatexOp op) = true := by
  cases op with
  | gate g bits =>
    obtain ⟨h1, h2, h3, h4, h5⟩ := gate_facts (by simpa [opDefects] using hdef)
    exact ⟨by simpa [toLatexOp, opOk] using topOk_toLatex g bits h1 h2 h3 h4,
      by simpa [toLatexOp, opSafe] using gateSafe_toLatex nq g bits h1 h2 hin h5⟩
  | cond control target g bits =>
    simp only [opDefects, List.append_eq_nil_iff] at hdef
    obtain ⟨h1, h2, h3, h4, h5⟩ := gate_facts hdef.1.2
    have hlen : control.length ≤ 64 := by
      apply Classical.byContradiction; intro h
      have := hdef.1.1.2
      simp [show 64 < control.length by omega] at this
    refine ⟨?_, by simpa [toLatexOp, opSafe] using hlen⟩
    simp only [toLatexOp, opOk, condOk, Bool.and_eq_true, decide_eq_true_eq]
    exact ⟨⟨⟨simple_toLatex g hcond.1, goodPlace_toLatex g bits hcond.1 h2 h4⟩, nodup_of_hasDup' bits h3⟩,
      nodup_of_hasDup' control hcond.2⟩
  | reset q => simp [toLatexOp, opOk, opSafe]
  | resetAll => simp [toLatexOp, opOk, opSafe]
  | measure q c b => simp [toLatexOp, opOk, opSafe]
  | measureAll cbits b => simp [toLatexOp, opOk, opSafe]
  | peek q c b => simp [toLatexOp, opOk, opSafe]
  | peekAll cbits b => simp [toLatexOp, opOk, opSafe]
  | barrier bits => simp [toLatexOp, opOk, opSafe]

/-- **`Circuit::latex` never panics** on a circuit whose indices are in range, without defects, and whose
conditional gates are one-column gates under distinct condition bits -/
theorem latex_ne_panic (c : Circ P) (hin : ∀ op ∈ c.ops, opInRange c.nq c.nc op)
    (hdef : ∀ op ∈ c.ops, opDefects c.nq op = []) (hcond : condOneColumn c = true) :
    (∃ t, circuitLatex (toLatexCirc c) = .ok t) ∨ (∃ e, circuitLatex (toLatexCirc c) = .err e) := by
  apply circuitLatex_ok_or_err
  intro lop hl
  simp only [toLatexCirc, List.mem_map] at hl
  obtain ⟨op, hop, rfl⟩ := hl
  refine opOk_opSafe_of_wf c.nq c.nc op (hin op hop) (hdef op hop) ?_
  simp only [condOneColumn, List.all_eq_true] at hcond
  have := hcond op hop
  cases op <;> simp_all

end Q1t.ExportClass

import Q1t.Proofs.CQasmEquivOps
import Q1t.Proofs.CQasmGood
import Q1t.Proofs.CQasmCU3
set_option linter.unusedSimpArgs false
set_option linter.unusedSectionVars false
set_option linter.unusedVariables false
/-!
C12 (`cq_equiv_partial`), part 3: the VALUE-level lines of a library gate, read off the structured lines of the
generated table (`slinesOf`): instruction name, local qubits, and the values of the numeric operands — a parameter, or
an evaluated hole read as the exact `f64` product it is (`-0.25 * θ` is `pneg (phalf (phalf θ))`, …).  For every gate
of `exactGates` the ordered product of the lines on `k` qubits is the documented unitary (exactly, no phase), hence
(`embed_foldl_compose_one`) on every valid placement in an `n`-qubit register.
-/
namespace Q1t.Proofs.CQasm
open Q1t Q1t.Spec Q1t.Proofs.Route Q1t.CQ Q1t.Gen Q1t.OpenQasm

variable {α P : Type} [CommRing α] [Amp α P]

inductive NVal (P : Type) where
  | angle (x : P)
  | int (k : Nat)

/-- the value of an evaluated hole of the templates (exact binary floating point: `0.5·x = x/2`, `0.25·x = x/4`) -/
def holeVal (ρ : Text → Option P) : List Tok → Option P
  | [.lit t, .var a] =>
    match ρ a with
    | none => none
    | some x =>
      if t = "-0.25 * ".toList then some (Amp.pneg α (Amp.phalf α (Amp.phalf α x)))
      else if t = "0.25 * ".toList then some (Amp.phalf α (Amp.phalf α x))
      else if t = "-0.5 * ".toList then some (Amp.pneg α (Amp.phalf α x))
      else if t = "0.5 * ".toList then some (Amp.phalf α x)
      else none
  | [.lit t, .var a, .lit m, .var b, .lit e] =>
    match ρ a, ρ b with
    | some x, some y =>
      if t = "0.5 * (".toList && m = ['-'] && e = [')'] then some (Amp.phalf α (Amp.padd α x (Amp.pneg α y)))
      else if t = "-0.5 * (".toList && m = ['+'] && e = [')'] then some (Amp.pneg α (Amp.phalf α (Amp.padd α x y)))
      else if t = "0.5 * (".toList && m = " + ".toList && e = [')'] then some (Amp.phalf α (Amp.padd α x y))
      else none
    | _, _ => none
  | _ => none

/-- numeric value of an operand (`none`: a qubit or an operand outside the exact class) -/
def opVal (ρ : Text → Option P) : SOp → Option (NVal P)
  | .q _ => none
  | .lit t => if t = ['1'] then some (.int 1) else if t = ['2'] then some (.int 2) else none
  | .arg a => (ρ a.toList).map .angle
  | .hole inner => (holeVal (α := α) ρ inner).map .angle

def isQ : SOp → Bool
  | .q _ => true
  | _ => false

/-- the matrix of an instruction from the VALUES of its numeric operands (the table of `Spec/CQ1.gateMatrix`) -/
def gateMatrixV (name : Text) (vals : List (NVal P)) : Option (LMat α) :=
  match String.ofList name, vals with
  | "i", [] => some CQ1.mI | "h", [] => some (CQ1.mH (P := P)) | "x", [] => some CQ1.mX
  | "y", [] => some (CQ1.mY (P := P)) | "z", [] => some CQ1.mZ | "s", [] => some (CQ1.mS (P := P))
  | "x90", [] => some (CQ1.mX90 (P := P)) | "mx90", [] => some (CQ1.mMX90 (P := P))
  | "sdag", [] => some (CQ1.mSdag (P := P)) | "t", [] => some (CQ1.mT (P := P)) | "tdag", [] => some (CQ1.mTdag (P := P))
  | "rx", [.angle a] => some (CQ1.mRx a) | "ry", [.angle a] => some (CQ1.mRy a) | "rz", [.angle a] => some (CQ1.mRz a)
  | "cnot", [] => some CQ1.mCnot | "cz", [] => some CQ1.mCz | "swap", [] => some CQ1.mSwap
  | "toffoli", [] => some CQ1.mToffoli
  | "cr", [.angle a] => some (CQ1.mCPhase (Amp.cos a + Amp.I P * Amp.sin a))
  | "crk", [.int 1] => some (CQ1.mCPhase (Amp.I P))
  | "crk", [.int 2] => some (CQ1.mCPhase (Amp.zeta8 P))
  | _, _ => none

def lineApp (ρ : Text → Option P) (l : SLine) : Option (List Nat × LMat α) :=
  match (l.ops.filter (fun o => !isQ o)).mapM (opVal (α := α) ρ) with
  | none => none
  | some vals => (gateMatrixV (α := α) l.name vals).map fun M => (l.ops.filterMap locOf, M)

def linesApps (ls : List SLine) (ρ : Text → Option P) : Option (List (List Nat × LMat α)) :=
  ls.mapM (lineApp (α := α) ρ)

def libApps (g : CQGate) (ρ : Text → Option P) : Option (List (List Nat × LMat α)) :=
  linesApps (α := α) (slinesOf g) ρ

/-- parameter values by name -/
def rhoOf (names : List String) (vals : List P) : Text → Option P :=
  fun key => ((names.zip vals).find? fun nv => nv.1.toList == key).map (·.2)

def slinesOfName (name : String) : Option (List SLine) := (cqGates.find? (·.name == name)).map slinesOf

def paramsOfName (name : String) : List String := ((cqGates.find? (·.name == name)).map (·.params)).getD []

/-- the value-level lines of the library gate `name` with parameter values `vals` -/
def exactDenot (name : String) (vals : List P) : Option (List (List Nat × LMat α)) :=
  (slinesOfName name).bind fun ls => linesApps (α := α) ls (rhoOf (paramsOfName name) vals)

def q1 (nm : String) : List SLine := [⟨nm.toList, [.q 0]⟩]
def hole (c a : String) : SOp := .hole [.lit c.toList, .var a.toList]
def cnotL (a b : Nat) : SLine := ⟨"cnot".toList, [.q a, .q b]⟩
def ryL (t : Nat) (c : String) : SLine := ⟨"ry".toList, [.q t, hole c "theta"]⟩

def cryLs : List SLine := [cnotL 0 1, ryL 1 "-0.5 * ", cnotL 0 1, ryL 1 "0.5 * "]
def ccryLs : List SLine :=
  [cnotL 1 2, ryL 2 "-0.25 * ", cnotL 1 2, ryL 2 "0.25 * ", cnotL 0 1, cnotL 1 2, ryL 2 "0.25 * ", cnotL 1 2,
   ryL 2 "-0.25 * ", cnotL 0 1, cnotL 0 2, ryL 2 "-0.25 * ", cnotL 0 2, ryL 2 "0.25 * "]

/-- the structured lines of the exact gates, as the generated table has them (kernel-checked) -/
theorem slines_table :
    slinesOfName "H" = some (q1 "h") ∧ slinesOfName "X" = some (q1 "x") ∧ slinesOfName "Y" = some (q1 "y") ∧
    slinesOfName "Z" = some (q1 "z") ∧ slinesOfName "S" = some (q1 "s") ∧ slinesOfName "Sdg" = some (q1 "sdag") ∧
    slinesOfName "T" = some (q1 "t") ∧ slinesOfName "Tdg" = some (q1 "tdag") ∧ slinesOfName "I" = some (q1 "i") ∧
    slinesOfName "RX" = some [⟨"rx".toList, [.q 0, .arg "theta"]⟩] ∧
    slinesOfName "RY" = some [⟨"ry".toList, [.q 0, .arg "theta"]⟩] ∧
    slinesOfName "RZ" = some [⟨"rz".toList, [.q 0, .arg "lambda"]⟩] ∧
    slinesOfName "CX" = some [cnotL 0 1] ∧
    slinesOfName "CRY" = some cryLs ∧
    slinesOfName "CRX" = some (⟨"s".toList, [.q 1]⟩ :: cryLs ++ [⟨"sdag".toList, [.q 1]⟩]) ∧
    slinesOfName "CCRY" = some ccryLs ∧
    slinesOfName "CCRX" = some (⟨"s".toList, [.q 2]⟩ :: ccryLs ++ [⟨"sdag".toList, [.q 2]⟩]) ∧
    paramsOfName "RX" = ["theta"] ∧ paramsOfName "RY" = ["theta"] ∧ paramsOfName "RZ" = ["lambda"] ∧
    paramsOfName "CRY" = ["theta"] ∧ paramsOfName "CRX" = ["theta"] ∧ paramsOfName "CCRY" = ["theta"] ∧
    paramsOfName "CCRX" = ["theta"] := by decide +kernel

/-! ### the value-level lines -/

theorem apps_q1 (nm : String) (M : LMat α) (ρ : Text → Option P)
    (h : gateMatrixV (α := α) (P := P) nm.toList [] = some M) : linesApps (α := α) (q1 nm) ρ = some [([0], M)] := by
  simp [linesApps, q1, lineApp, isQ, locOf, h]

theorem apps_arg1 (nm a : String) (x : P) (M : LMat α) (ρ : Text → Option P) (hρ : ρ a.toList = some x)
    (h : gateMatrixV (α := α) (P := P) nm.toList [.angle x] = some M) :
    linesApps (α := α) [⟨nm.toList, [.q 0, .arg a]⟩] ρ = some [([0], M)] := by
  simp [linesApps, lineApp, isQ, locOf, opVal, hρ, h]

theorem lineApp_cnot (a b : Nat) (ρ : Text → Option P) :
    lineApp (α := α) ρ (cnotL a b) = some ([a, b], CQ1.mCnot) := by
  simp [lineApp, cnotL, isQ, locOf, gateMatrixV]

theorem lineApp_q (nm : String) (t : Nat) (M : LMat α) (ρ : Text → Option P)
    (h : gateMatrixV (α := α) (P := P) nm.toList [] = some M) :
    lineApp (α := α) ρ ⟨nm.toList, [.q t]⟩ = some ([t], M) := by
  simp [lineApp, isQ, locOf, h]

theorem lineApp_ry (t : Nat) (c : String) (θ y : P) (ρ : Text → Option P) (hρ : ρ "theta".toList = some θ)
    (hy : holeVal (α := α) ρ [.lit c.toList, .var "theta".toList] = some y) :
    lineApp (α := α) ρ (ryL t c) = some ([t], CQ1.mRy y) := by
  have hy' : holeVal (α := α) ρ [Tok.lit c.toList, Tok.var ['t', 'h', 'e', 't', 'a']] = some y := hy
  simp [lineApp, ryL, hole, isQ, locOf, opVal, hy', gateMatrixV]

theorem holeVal_theta (θ : P) (ρ : Text → Option P) (hρ : ρ "theta".toList = some θ) :
    holeVal (α := α) ρ [.lit "-0.5 * ".toList, .var "theta".toList] = some (Amp.pneg α (Amp.phalf α θ)) ∧
    holeVal (α := α) ρ [.lit "0.5 * ".toList, .var "theta".toList] = some (Amp.phalf α θ) ∧
    holeVal (α := α) ρ [.lit "-0.25 * ".toList, .var "theta".toList] = some (Amp.pneg α (Amp.phalf α (Amp.phalf α θ))) ∧
    holeVal (α := α) ρ [.lit "0.25 * ".toList, .var "theta".toList] = some (Amp.phalf α (Amp.phalf α θ)) := by
  have hρ' : ρ ['t', 'h', 'e', 't', 'a'] = some θ := hρ
  simp [holeVal, hρ']

theorem rhoOf_single (a : String) (x : P) : rhoOf [a] [x] a.toList = some x := by
  simp [rhoOf]

theorem apps_cry (θ : P) (ρ : Text → Option P) (hρ : ρ "theta".toList = some θ) :
    linesApps (α := α) cryLs ρ = some [([0, 1], CQ1.mCnot), ([1], CQ1.mRy (Amp.pneg α (Amp.phalf α θ))),
      ([0, 1], CQ1.mCnot), ([1], CQ1.mRy (Amp.phalf α θ))] := by
  obtain ⟨h1, h2, _, _⟩ := holeVal_theta (α := α) θ ρ hρ
  simp [linesApps, cryLs, lineApp_cnot, lineApp_ry _ _ θ _ ρ hρ h1, lineApp_ry _ _ θ _ ρ hρ h2]

theorem apps_ccry (θ : P) (ρ : Text → Option P) (hρ : ρ "theta".toList = some θ) :
    linesApps (α := α) ccryLs ρ =
      some (let q := Amp.phalf α (Amp.phalf α θ); let nq := Amp.pneg α (Amp.phalf α (Amp.phalf α θ))
        [([1, 2], CQ1.mCnot), ([2], CQ1.mRy nq), ([1, 2], CQ1.mCnot), ([2], CQ1.mRy q), ([0, 1], CQ1.mCnot),
         ([1, 2], CQ1.mCnot), ([2], CQ1.mRy q), ([1, 2], CQ1.mCnot), ([2], CQ1.mRy nq), ([0, 1], CQ1.mCnot),
         ([0, 2], CQ1.mCnot), ([2], CQ1.mRy nq), ([0, 2], CQ1.mCnot), ([2], CQ1.mRy q)]) := by
  obtain ⟨_, _, h3, h4⟩ := holeVal_theta (α := α) θ ρ hρ
  simp [linesApps, ccryLs, lineApp_cnot, lineApp_ry _ _ θ _ ρ hρ h3, lineApp_ry _ _ θ _ ρ hρ h4]

theorem linesApps_cons (l : SLine) (ls : List SLine) (ρ : Text → Option P) (a : List Nat × LMat α)
    (as : List (List Nat × LMat α)) (h1 : lineApp (α := α) ρ l = some a) (h2 : linesApps (α := α) ls ρ = some as) :
    linesApps (α := α) (l :: ls) ρ = some (a :: as) := by
  simp only [linesApps, List.mapM_cons, h1] at h2 ⊢
  simp [h2]

theorem linesApps_append (ls ms : List SLine) (ρ : Text → Option P) (as bs : List (List Nat × LMat α))
    (h1 : linesApps (α := α) ls ρ = some as) (h2 : linesApps (α := α) ms ρ = some bs) :
    linesApps (α := α) (ls ++ ms) ρ = some (as ++ bs) := by
  simp only [linesApps, List.mapM_append] at h1 h2 ⊢
  simp [h1, h2]

end Q1t.Proofs.CQasm

import Q1t.Proofs.EqualStatesPlan
import Mathlib.Order.Basic
set_option linter.unusedSectionVars false
set_option linter.unusedVariables false
set_option linter.unusedSimpArgs false
/-!
`PartU`, step a: combinations of the rows of an echelon block.

For a selector `sel`, an offset `i0` and pivot columns `piv` (strictly increasing; the pivot of row `i0+a` is its
leading `sel`-bit and the only `sel`-bit of its column; rows `≥ i0 + piv.length` are `sel`-free), a combination
`Σ_j α_j · row_j` whose coefficients vanish below `i0`:
(a) is `sel`-free if no pivot row takes part; (b) has its leading `sel`-bit at the pivot of the first pivot row that
takes part; (c) has at every pivot column the coefficient of that pivot row.
-/
namespace Q1t.Proofs.DetPlan
open Q1t Q1t.Tableau Q1t.Spec.Pauli Q1t.Proofs.Tableau Q1t.Proofs.TabG

/-- the `sel`-bits of the combination -/
def comb (sel : P → Bool) (t : Tab) (n : Nat) (α : Fin n → ZMod 2) (c : Nat) : ZMod 2 :=
  ∑ j : Fin n, α j * bZ (bit sel t j c)

structure Block (sel : P → Bool) (t : Tab) (n i0 : Nat) (piv : List Nat) : Prop where
  hlen : i0 + piv.length ≤ n
  sorted : piv.Pairwise (· < ·)
  pbit : ∀ (a : Nat) (h : a < piv.length) (i : Nat), bit sel t i piv[a] = decide (i = i0 + a)
  lead : ∀ (a : Nat) (h : a < piv.length) (c : Nat), c < piv[a] → bit sel t (i0 + a) c = false
  free : ∀ i, i0 + piv.length ≤ i → ∀ c, bit sel t i c = false

theorem piv_mono {piv : List Nat} (hs : piv.Pairwise (· < ·)) (a b : Nat) (ha : a < piv.length) (hb : b < piv.length)
    (hab : a ≤ b) : piv[a] ≤ piv[b] := by
  rcases Nat.lt_or_eq_of_le hab with h | h
  · exact Nat.le_of_lt (List.pairwise_iff_getElem.mp hs a b ha hb h)
  · subst h; exact Nat.le_refl _

variable {sel : P → Bool} {t : Tab} {n i0 : Nat} {piv : List Nat}

/-- (c) pivot columns read off the coefficients -/
theorem comb_pivot (B : Block sel t n i0 piv) (α : Fin n → ZMod 2) (a : Nat) (h : a < piv.length) :
    comb sel t n α piv[a] = α ⟨i0 + a, by have := B.hlen; omega⟩ := by
  unfold comb
  rw [Finset.sum_eq_single ⟨i0 + a, by have := B.hlen; omega⟩]
  · rw [B.pbit a h]; simp [bZ]
  · intro j _ hj
    rw [B.pbit a h]
    have : ¬ (j.val = i0 + a) := fun e => hj (Fin.ext e)
    simp [this, bZ]
  · intro h'; exact absurd (Finset.mem_univ _) h'

/-- (a) without pivot rows the combination is `sel`-free -/
theorem comb_zero (B : Block sel t n i0 piv) (α : Fin n → ZMod 2) (hlow : ∀ j : Fin n, j.val < i0 → α j = 0)
    (hno : ∀ (a : Nat) (h : a < piv.length), α ⟨i0 + a, by have := B.hlen; omega⟩ = 0) (c : Nat) :
    comb sel t n α c = 0 := by
  unfold comb
  apply Finset.sum_eq_zero
  intro j _
  by_cases h1 : j.val < i0
  · rw [hlow j h1, zero_mul]
  · by_cases h2 : j.val < i0 + piv.length
    · have := hno (j.val - i0) (by omega)
      have e : (⟨i0 + (j.val - i0), by have := B.hlen; omega⟩ : Fin n) = j := Fin.ext (by simp; omega)
      rw [e] at this
      rw [this, zero_mul]
    · rw [B.free j (by omega) c]; simp [bZ]

/-- (b) the leading `sel`-bit of the combination is the pivot of the first pivot row taking part -/
theorem comb_lead (B : Block sel t n i0 piv) (α : Fin n → ZMod 2) (hlow : ∀ j : Fin n, j.val < i0 → α j = 0)
    (a0 : Nat) (h0 : a0 < piv.length)
    (hbefore : ∀ (a : Nat) (h : a < a0), α ⟨i0 + a, by have := B.hlen; omega⟩ = 0) (c : Nat) (hc : c < piv[a0]) :
    comb sel t n α c = 0 := by
  unfold comb
  apply Finset.sum_eq_zero
  intro j _
  by_cases h1 : j.val < i0
  · rw [hlow j h1, zero_mul]
  · by_cases h2 : j.val < i0 + a0
    · have := hbefore (j.val - i0) (by omega)
      have e : (⟨i0 + (j.val - i0), by have := B.hlen; omega⟩ : Fin n) = j := Fin.ext (by simp; omega)
      rw [e] at this
      rw [this, zero_mul]
    · by_cases h3 : j.val < i0 + piv.length
      · have ha : j.val - i0 < piv.length := by omega
        have hle := piv_mono B.sorted a0 (j.val - i0) h0 ha (by omega)
        have := B.lead (j.val - i0) ha c (by omega)
        rw [show i0 + (j.val - i0) = j.val by omega] at this
        rw [this]; simp [bZ]
      · rw [B.free j (by omega) c]; simp [bZ]

end Q1t.Proofs.DetPlan

import Q1t.Model.Builders
import Q1t.Gen.MacroMethods
/-!
C18, builders: the model of every building call equals the reference reading (`stepRef`: reject with the
first out-of-range index in validation order, otherwise append the operation), a failed call leaves the
circuit unchanged, no call panics; the `circuit!` macro returns the first error of the calls it wraps
whenever every fallible method name has a `$res?` arm.
-/
namespace Q1t.Builders
open Q1t Q1t.Sim

variable {P : Type}

/-! ### `find` of the first out-of-range index -/

theorem firstGe_nil (b : Nat) : firstGe b [] = none := rfl

theorem firstGe_cons (b x : Nat) (l : List Nat) :
    firstGe b (x :: l) = if b ≤ x then some x else firstGe b l := by
  unfold firstGe
  by_cases h : b ≤ x <;> simp [List.find?, h]

theorem firstGe_single (b q : Nat) : firstGe b [q] = if b ≤ q then some q else none := by
  rw [firstGe_cons, firstGe_nil]

theorem firstGe_pair (b x y : Nat) :
    firstGe b [x, y] = if b ≤ x then some x else if b ≤ y then some y else none := by
  rw [firstGe_cons, firstGe_single]

theorem firstGe_eq_none {b : Nat} {l : List Nat} : firstGe b l = none ↔ ∀ x ∈ l, x < b := by
  induction l with
  | nil => simp [firstGe_nil]
  | cons x l ih =>
    rw [firstGe_cons]
    by_cases h : b ≤ x
    · simp only [h, if_true, List.mem_cons, forall_eq_or_imp]
      constructor
      · intro h'; cases h'
      · intro h'; omega
    · simp only [h, if_false, ih, List.mem_cons, forall_eq_or_imp]
      constructor
      · intro h'; exact ⟨by omega, h'⟩
      · intro h'; exact h'.2

/-- `firstGe` returns the FIRST index that is out of range -/
theorem firstGe_eq_some {b x : Nat} {l : List Nat} :
    firstGe b l = some x ↔ ∃ pre post, l = pre ++ x :: post ∧ (∀ y ∈ pre, y < b) ∧ b ≤ x := by
  induction l with
  | nil => simp [firstGe_nil]
  | cons a l ih =>
    rw [firstGe_cons]
    by_cases h : b ≤ a
    · simp only [h, if_true, Option.some.injEq]
      constructor
      · rintro rfl; exact ⟨[], l, rfl, by simp, h⟩
      · rintro ⟨pre, post, hl, hpre, hx⟩
        cases pre with
        | nil => simp at hl; exact hl.1
        | cons p pre =>
          simp at hl
          have := hpre p (by simp)
          omega
    · simp only [h, if_false, ih]
      constructor
      · rintro ⟨pre, post, rfl, hpre, hx⟩
        exact ⟨a :: pre, post, rfl, by
          intro y hy
          rcases List.mem_cons.mp hy with rfl | hy
          · omega
          · exact hpre y hy, hx⟩
      · rintro ⟨pre, post, hl, hpre, hx⟩
        cases pre with
        | nil => simp at hl; omega
        | cons p pre =>
          simp at hl
          exact ⟨pre, post, hl.2, fun y hy => hpre y (by simp [hy]), hx⟩

/-! ### model = reference reading -/

theorem step_eq_stepRef (c : Circ P) (call : Call P) : step c call = stepRef c call := by
  cases call <;>
    simp only [step, stepRef, Call.checks, Call.op, firstViolation, addGate, addConditionalGate, measureBasis,
      measureAllBasis, peekBasis, peekAllBasis, reset, barrier, Reg.bound, Reg.err, firstGe_single] <;>
    (repeat' split) <;> simp_all

/-! ### what a call does -/

/-- every index a call validates is in range -/
def Call.inRange (c : Circ P) (call : Call P) : Prop :=
  ∀ rl ∈ call.checks, ∀ x ∈ rl.2, x < rl.1.bound c

theorem firstViolation_eq_none (c : Circ P) (L : List (Reg × List Nat)) :
    firstViolation c L = none ↔ ∀ rl ∈ L, ∀ x ∈ rl.2, x < rl.1.bound c := by
  induction L with
  | nil => simp [firstViolation]
  | cons rl L ih =>
    obtain ⟨r, l⟩ := rl
    simp only [firstViolation]
    cases hf : firstGe (r.bound c) l with
    | some b =>
      simp only [List.mem_cons, forall_eq_or_imp]
      constructor
      · intro h; cases h
      · intro h
        have := firstGe_eq_none.mpr h.1
        rw [hf] at this; cases this
    | none =>
      simp only [ih, List.mem_cons, forall_eq_or_imp]
      exact ⟨fun h => ⟨firstGe_eq_none.mp hf, h⟩, fun h => h.2⟩

/-- the violation reported is the first out-of-range index of the first list that has one -/
theorem firstViolation_eq_some (c : Circ P) (L : List (Reg × List Nat)) (r : Reg) (b : Nat) :
    firstViolation c L = some (r, b) ↔
      ∃ L1 pre post L2, L = L1 ++ (r, pre ++ b :: post) :: L2 ∧
        (∀ rl ∈ L1, ∀ x ∈ rl.2, x < rl.1.bound c) ∧ (∀ y ∈ pre, y < r.bound c) ∧ r.bound c ≤ b := by
  induction L with
  | nil => simp [firstViolation]
  | cons rl L ih =>
    obtain ⟨r0, l⟩ := rl
    simp only [firstViolation]
    cases hf : firstGe (r0.bound c) l with
    | some b0 =>
      obtain ⟨pre, post, hl, hpre, hb⟩ := firstGe_eq_some.mp hf
      simp only [Option.some.injEq, Prod.mk.injEq]
      constructor
      · rintro ⟨rfl, rfl⟩
        exact ⟨[], pre, post, L, by simp [hl], by simp, hpre, hb⟩
      · rintro ⟨L1, pre', post', L2, hL, h1, hpre', hb'⟩
        cases L1 with
        | nil =>
          simp only [List.nil_append, List.cons.injEq, Prod.mk.injEq] at hL
          obtain ⟨⟨rfl, hl'⟩, _⟩ := hL
          have : firstGe (r0.bound c) l = some b := firstGe_eq_some.mpr ⟨pre', post', hl', hpre', hb'⟩
          rw [hf] at this
          exact ⟨rfl, Option.some.inj this⟩
        | cons x L1 =>
          simp only [List.cons_append, List.cons.injEq] at hL
          have := firstGe_eq_none.mpr (h1 x (by simp))
          rw [← hL.1] at this
          simp only at this
          rw [hf] at this; cases this
    | none =>
      rw [ih]
      have hin := firstGe_eq_none.mp hf
      constructor
      · rintro ⟨L1, pre, post, L2, rfl, h1, hpre, hb⟩
        exact ⟨(r0, l) :: L1, pre, post, L2, rfl, by
          intro rl hrl
          rcases List.mem_cons.mp hrl with rfl | hrl
          · exact hin
          · exact h1 rl hrl, hpre, hb⟩
      · rintro ⟨L1, pre, post, L2, hL, h1, hpre, hb⟩
        cases L1 with
        | nil =>
          simp only [List.nil_append, List.cons.injEq, Prod.mk.injEq] at hL
          obtain ⟨⟨rfl, rfl⟩, _⟩ := hL
          have := hin b (by simp)
          omega
        | cons x L1 =>
          simp only [List.cons_append, List.cons.injEq] at hL
          exact ⟨L1, pre, post, L2, hL.2, fun rl h => h1 rl (by simp [h]), hpre, hb⟩

/-- a call succeeds iff every index it validates is in range, and then appends exactly its operation -/
theorem step_ok_iff (c : Circ P) (call : Call P) :
    (step c call).2 = .ok () ↔ call.inRange c := by
  rw [step_eq_stepRef, stepRef, Call.inRange, ← firstViolation_eq_none]
  cases firstViolation c call.checks with
  | none => simp [push]
  | some rb => simp [fail]

theorem step_ok_appends (c : Circ P) (call : Call P) (h : (step c call).2 = .ok ()) :
    (step c call).1 = { c with ops := c.ops ++ [call.op] } := by
  rw [step_eq_stepRef, stepRef] at *
  cases hv : firstViolation c call.checks with
  | none => simp [push]
  | some rb => rw [hv] at h; simp [fail] at h

/-- a call fails exactly with the error of its first violation -/
theorem step_error_iff (c : Circ P) (call : Call P) (f : Fail) :
    (step c call).2 = .error f ↔ ∃ r b, firstViolation c call.checks = some (r, b) ∧ f = .err (r.err b) := by
  rw [step_eq_stepRef, stepRef]
  cases firstViolation c call.checks with
  | none => simp [push]
  | some rb =>
    obtain ⟨r, b⟩ := rb
    simp only [fail, Except.error.injEq, Option.some.injEq, Prod.mk.injEq]
    constructor
    · rintro rfl; exact ⟨r, b, ⟨rfl, rfl⟩, rfl⟩
    · rintro ⟨r', b', ⟨rfl, rfl⟩, rfl⟩; rfl

/-- **atomicity**: a failed call leaves the circuit as it was -/
theorem step_atomic (c : Circ P) (call : Call P) (f : Fail) (h : (step c call).2 = .error f) :
    (step c call).1 = c := by
  rw [step_eq_stepRef, stepRef] at *
  cases hv : firstViolation c call.checks with
  | none => rw [hv] at h; simp [push] at h
  | some rb => simp [fail]

/-- no building call panics -/
theorem step_never_panics (c : Circ P) (call : Call P) (site : String) :
    (step c call).2 ≠ .error (.panic site) := by
  intro h
  obtain ⟨r, b, _, hf⟩ := (step_error_iff c call _).mp h
  cases hf

/-- the register sizes never change -/
theorem step_sizes (c : Circ P) (call : Call P) : (step c call).1.nq = c.nq ∧ (step c call).1.nc = c.nc := by
  rw [step_eq_stepRef, stepRef]
  cases firstViolation c call.checks with
  | none => simp [push]
  | some rb => simp [fail]

/-! ### sequences of calls -/

/-- the operations the successful calls of a sequence append, in order -/
def accepted (c : Circ P) : List (Call P) → List (COp P)
  | [] => []
  | call :: rest =>
    match (step c call).2 with
    | .ok () => call.op :: accepted (step c call).1 rest
    | .error _ => accepted (step c call).1 rest

theorem runCalls_ops (c : Circ P) (calls : List (Call P)) :
    (runCalls c calls).1.ops = c.ops ++ accepted c calls ∧ (runCalls c calls).1.nq = c.nq ∧
      (runCalls c calls).1.nc = c.nc := by
  induction calls generalizing c with
  | nil => simp [runCalls, accepted]
  | cons call rest ih =>
    simp only [runCalls, accepted]
    obtain ⟨h1, h2, h3⟩ := ih (step c call).1
    have hs := step_sizes c call
    refine ⟨?_, by rw [h2, hs.1], by rw [h3, hs.2]⟩
    rw [h1]
    cases hr : (step c call).2 with
    | ok u =>
      cases u
      rw [step_ok_appends c call hr]; simp
    | error f =>
      rw [step_atomic c call f hr]

theorem runCalls_results (c : Circ P) (calls : List (Call P)) :
    ∀ r ∈ (runCalls c calls).2, ∀ site, r ≠ .error (.panic site) := by
  induction calls generalizing c with
  | nil => simp [runCalls]
  | cons call rest ih =>
    simp only [runCalls, List.mem_cons]
    rintro r (rfl | hr) site
    · exact step_never_panics c call site
    · exact ih _ r hr site

/-! ### the `circuit!` macro -/

/-- index and error of the first failing call of a sequence (each call on the circuit built so far) -/
def firstError (c : Circ P) : List (Call P) → Nat → Option (Nat × Fail)
  | [], _ => none
  | call :: rest, k =>
    match (step c call).2 with
    | .ok () => firstError (step c call).1 rest (k + 1)
    | .error f => some (k, f)

/-- If every method that can fail has a `$res?` arm, `circuit!` returns the first error of the calls it
wraps, having evaluated nothing after the failing call; without an error it returns the circuit holding
exactly the operations of the calls. -/
theorem macroLoop_spec (checked : List String) (calls : List (Call P))
    (hchk : ∀ call ∈ calls, call.name ∈ checked ∨ ∀ c : Circ P, (step c call).2 = .ok ()) :
    ∀ (c : Circ P) (k : Nat),
    match firstError c calls k with
    | some (j, f) => macroLoop checked c calls k = (.error f, j + 1)
    | none => ∃ c', macroLoop checked c calls k = (.ok c', k + calls.length) ∧
        c'.ops = c.ops ++ calls.map Call.op ∧ c'.nq = c.nq ∧ c'.nc = c.nc := by
  induction calls with
  | nil => intro c k; simp [firstError, macroLoop]
  | cons call rest ih =>
    intro c k
    have ih' := ih (fun x hx => hchk x (List.mem_cons_of_mem _ hx)) (step c call).1 (k + 1)
    simp only [firstError, macroLoop]
    cases hr : (step c call).2 with
    | ok u =>
      cases u
      have hstep : step c call = ((step c call).1, .ok ()) := by rw [← hr]
      rw [hstep]
      simp only
      cases hfe : firstError (step c call).1 rest (k + 1) with
      | some jf =>
        rw [hfe] at ih'
        exact ih'
      | none =>
        rw [hfe] at ih'
        obtain ⟨c', h1, h2, h3, h4⟩ := ih'
        refine ⟨c', by rw [h1]; simp; omega, ?_, ?_, ?_⟩
        · rw [h2, step_ok_appends c call hr]; simp
        · rw [h3, (step_sizes c call).1]
        · rw [h4, (step_sizes c call).2]
    | error f =>
      have hstep : step c call = ((step c call).1, .error f) := by rw [← hr]
      rw [hstep]
      simp only
      rcases hchk call List.mem_cons_self with hin | hnever
      · simp [hin]
      · rw [hnever c] at hr; cases hr

/-- every fallible builder is one of the generated `resultBuilders`; `reset_all` cannot fail -/
theorem name_mem_resultBuilders (call : Call P) :
    call.name ∈ Q1t.Gen.resultBuilders ∨ ∀ c : Circ P, (step c call).2 = .ok () := by
  cases call <;> first
    | (left; simp only [Call.name]; decide)
    | (right; intro c; simp [step, push])

end Q1t.Builders

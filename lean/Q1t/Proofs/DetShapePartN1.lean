import Q1t.Proofs.DetShapePartN1c
set_option linter.unusedSectionVars false
set_option linter.unusedVariables false
set_option linter.unusedSimpArgs false
/-!
`PartN1`: `normalize`, whenever it returns on a well-shaped tableau, produces the reduced echelon shape `RREF`
(all `n`).  Two runs of `Tab.pass` (X-bits, then Z-bits with the X-bits as the second selector).
-/
namespace Q1t.Proofs.DetPlan
open Q1t Q1t.Tableau Q1t.Spec.Pauli Q1t.Proofs.Tableau Q1t.Proofs.TabG

/-- the whole loop over the columns `j, j+1, …, n-1` -/
theorem pass_pinv {sel s2 : P → Bool} (hsel : XorLin sel) (hs2 : XorLin s2) (n i0 : Nat) (t0 : Tab) :
    ∀ (m j : Nat) (t : Tab) (i : Nat) (piv : List Nat) (t' : Tab) (i' : Nat), j + m = n →
      PInv sel s2 n i0 t0 t j i piv → Tab.pass phG sel (List.range' j m) t i = .ok (t', i') →
      ∃ piv', PInv sel s2 n i0 t0 t' n i' piv' := by
  intro m
  induction m with
  | zero =>
    intro j t i piv t' i' hjm inv hok
    simp only [List.range'_zero, Tab.pass] at hok
    cases hok
    have : j = n := by omega
    subst this
    exact ⟨piv, inv⟩
  | succ m ih =>
    intro j t i piv t' i' hjm inv hok
    have hj : j < n := by omega
    rw [List.range'_succ] at hok
    simp only [Tab.pass, bind] at hok
    obtain ⟨res, hres, hok⟩ := bind_ok hok
    obtain ⟨f1, f2⟩ := findRow_bits sel t j _ res hres
    cases res with
    | none =>
      simp only [] at hok
      refine ih (j + 1) t i piv t' i' (by omega) ?_ hok
      obtain ⟨wf, hn, hi, hlen, pbit, clear, free2, keep2⟩ := inv
      refine ⟨wf, hn, hi, hlen, pbit, ?_, free2, keep2⟩
      intro c hc k hk
      by_cases hcj : c = j
      · subst hcj
        by_cases hlt : k < n
        · exact f2 rfl k (by rw [List.mem_range'_1, hn]; omega)
        · exact bit_oob sel t k c (by rw [wf.1, hn]; omega)
      · exact clear c (by omega) k hk
    | some k =>
      simp only [] at hok
      obtain ⟨t1, e1, hok⟩ := bind_ok hok
      obtain ⟨t2, e2, hok⟩ := bind_ok hok
      obtain ⟨hkm, hkb⟩ := f1 k rfl
      rw [List.mem_range'_1, inv.hn] at hkm
      exact ih (j + 1) t2 (i + 1) (piv ++ [j]) t' i' (by omega)
        (pass_step hsel hs2 n i0 t0 t j i piv hj inv k hkm.1 (by omega) hkb t1 t2 e1 e2) hok

theorem xorLin_false : XorLin (fun _ => false) := fun _ _ => rfl

theorem cell_I_of_bits (p : P) (hx : p.hasX = false) (hz : p.hasZ = false) : p = P.I := by
  cases p <;> simp_all [P.hasX, P.hasZ]

/-- **`PartN1`** -/
theorem partN1 : PartN1 := by
  intro t0 t hwf hok
  simp only [Tab.normalize, bind] at hok
  obtain ⟨⟨t1, i1⟩, e1, hok⟩ := bind_ok hok
  obtain ⟨⟨t2, i2⟩, e2, hok⟩ := bind_ok hok
  cases hok
  -- X loop
  have inv0 : PInv P.hasX (fun _ => false) t0.n 0 t0 t0 0 0 [] :=
    ⟨hwf, rfl, Nat.zero_le _, rfl, fun a h => by simp at h, fun c hc => by omega,
     fun k _ c => by simp [bit, bitAt]; split <;> rfl, fun k hk => by omega⟩
  rw [List.range_eq_range'] at e1
  obtain ⟨pivX, invX⟩ := pass_pinv xorLin_hasX xorLin_false t0.n 0 t0 t0.n 0 t0 0 [] t1 i1 (by omega) inv0 e1
  -- Z loop: the X-bits are the second selector
  have invZ0 : PInv P.hasZ P.hasX t0.n i1 t1 t1 0 i1 [] :=
    ⟨invX.wf, invX.hn, invX.hi, rfl, fun a h => by simp at h, fun c hc => by omega,
     fun k hk c => by
       by_cases hc : c < t0.n
       · exact invX.clear c hc k hk
       · have hl : (rowD t1 k).length ≤ c := by
           by_cases hkn : k < t1.rows.length
           · rw [invX.wf.2.2 _ (List.mem_of_getElem? (rowD_getElem? t1 k hkn)), invX.hn]; omega
           · have : rowD t1 k = [] := by
               simp [rowD, List.getD_eq_getElem?_getD, List.getElem?_eq_none (Nat.le_of_not_lt hkn)]
             rw [this]; simp
         simp [bit, bitAt, List.getElem?_eq_none hl],
     fun k _ c => rfl⟩
  rw [List.range_eq_range'] at e2
  obtain ⟨pivZ, invZ⟩ := pass_pinv xorLin_hasZ xorLin_hasX t0.n i1 t1 t1.n 0 t1 i1 [] t2 i2
    (by rw [invX.hn]; omega) invZ0 e2
  -- the shape
  have hrl2 : t2.rows.length = t0.n := by rw [invZ.wf.1, invZ.hn]
  have hXfree : ∀ k, i1 ≤ k → ∀ c, bit P.hasX t2 k c = false := invZ.free2
  have hXkeep : ∀ k, k < i1 → ∀ c, bit P.hasX t2 k c = bit P.hasX t1 k c := invZ.keep2
  intro i r hr
  have hri : rowD t2 i = r := rowD_of_getElem? t2 i r hr
  have hin : i < t0.n := by
    have := (List.getElem?_eq_some_iff.mp hr).1
    simp only [] at this hrl2
    omega
  have hbitrow : ∀ (s : P → Bool) (k : Nat) r', t2.rows[k]? = some r' → ∀ c, bitAt s r' c = bit s t2 k c :=
    fun s k r' hk c => by unfold bit; rw [rowD_of_getElem? t2 k r' hk]
  by_cases h1 : i < i1
  · -- X-pivot row
    left; left
    have ha : i < pivX.length := by have := invX.hlen; omega
    refine ⟨pivX[i], ?_, ?_⟩
    · rw [xAt_eq_bitAt, hbitrow _ i r hr, hXkeep i h1, invX.pbit i ha i]; simp
    · intro k r' hki hk
      rw [xAt_eq_bitAt, hbitrow _ k r' hk]
      by_cases hk1 : k < i1
      · rw [hXkeep k hk1, invX.pbit i ha k]; simp; omega
      · exact hXfree k (by omega) _
  · by_cases h2 : i < i2
    · -- Z-pivot row
      left; right
      have ha : i - i1 < pivZ.length := by have := invZ.hlen; omega
      refine ⟨fun c => by rw [xAt_eq_bitAt, hbitrow _ i r hr]; exact hXfree i (by omega) c, pivZ[i - i1], ?_, ?_⟩
      · rw [zbitAt_eq_bitAt, hbitrow _ i r hr, invZ.pbit (i - i1) ha i]; simp; omega
      · intro k r' hki hk
        rw [zbitAt_eq_bitAt, hbitrow _ k r' hk, invZ.pbit (i - i1) ha k]; simp; omega
    · -- identity row
      right
      intro c hc
      obtain ⟨idx, hidx, rfl⟩ := List.getElem_of_mem hc
      have hrlen : r.length = t0.n := by rw [invZ.wf.2.2 r (List.mem_of_getElem? hr), invZ.hn]
      have hx : bitAt P.hasX r idx = false := by rw [hbitrow _ i r hr]; exact hXfree i (by omega) idx
      have hz : bitAt P.hasZ r idx = false := by
        rw [hbitrow _ i r hr]; exact invZ.clear idx (by omega) i (by omega)
      simp only [bitAt, List.getElem?_eq_getElem hidx] at hx hz
      exact cell_I_of_bits _ hx hz

end Q1t.Proofs.DetPlan

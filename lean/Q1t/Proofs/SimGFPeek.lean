import Q1t.Proofs.SimGFExec
/-!
C01: what CAN be said about `peek`.

A peek writes the zeros of its binomial draw to the leading shots of a range and does not split the range.  As
long as no later draw touches the range this is harmless; the first later draw on the unsplit range correlates
with it (`SimGFWitness.lean`: `h; peek→0; measure→1` already fails with ONE peek).  Proved here:

* `exec_gf_cont` — the law of F with an arbitrary multiplicative continuation;
* `final_peek_gf` / `final_peek_histogram` — a circuit of F followed by ONE final `peek` (any basis): the register
  of the model is distributed as that of the same circuit ending in a `measure` instead, i.e. it is the Born
  multinomial (a final peek and a final measurement have the same register distribution).
-/
set_option linter.unusedSectionVars false
set_option linter.unusedSimpArgs false
set_option linter.unusedVariables false
namespace Q1t.Sim.SimGF
open Q1t Q1t.Sim Q1t.Spec Q1t.Sim.Prog Finset

variable {α P R : Type}

section peek
variable [CommRing α] [Amp α P] [SimAmp α] [CommRing R] {nz : α → Prop} {n N : Nat}
variable {valid : GateTerm P → List Nat → Prop}
variable {ord : List (Nat × Nat) → List (Nat × Nat)} (toR : α →+* R)

/-- single-shot generating function of `ops` with an arbitrary final function `g` -/
def gfFrom (n : Nat) (g : List α × Nat → R) : List (COp P) → List α × Nat → R
  | [] => g
  | op :: rest => stepGf n op (gfFrom n g rest)

theorem gfFrom_scales (g : List α × Nat → R) (hg : Scales (P := P) toR g) :
    ∀ ops : List (COp P), Scales (P := P) toR (gfFrom n g ops)
  | [] => hg
  | op :: rest => stepGf_scales toR n op _ (gfFrom_scales g hg rest)

theorem gfShot_append (x : Nat → R) (l : List (COp P)) : ∀ ops : List (COp P),
    gfShot n toR x (ops ++ l) = gfFrom n (gfShot n toR x l) ops
  | [] => rfl
  | op :: rest => by simp only [List.cons_append, gfShot, gfFrom, gfShot_append x l rest]

/-- the law of F with an arbitrary multiplicative continuation -/
theorem exec_gf_cont (hord : ∀ l, (ord l).Perm l) (H : Hyps α P nz n valid) {K : VecState α × List Nat → R}
    {g : List α × Nat → R} (hK : Mult n N K g) (hg : Scales (P := P) toR g) :
    ∀ (ops : List (COp P)), (∀ op ∈ ops, InF n valid op) → ∀ rs : List (Rng α), Good n N rs →
    expectOrd ord toR (execOps (vecBackend (α := α) (P := P)) (mkState n N rs) (mkReg rs) ops) K =
      value (gfFrom n g ops) rs := by
  intro ops
  induction ops with
  | nil => intro _ rs hgood; exact hK rs hgood
  | cons op rest ih =>
    intro hF rs hgood
    simp only [execOps]
    rw [expectOrd_bind]
    exact op_step toR hord H hgood (hF op (by simp))
      (fun rs' hg' => ih (fun o ho => hF o (by simp [ho])) rs' hg') (gfFrom_scales toR g hg rest)

theorem expect_execOps_append {S : Type} (B : Backend α P S) (f : S × List Nat → R) (l : List (COp P)) :
    ∀ (ops : List (COp P)) (s : S) (c : List Nat),
    expectOrd ord toR (execOps B s c (ops ++ l)) f =
      expectOrd ord toR (execOps B s c ops) (fun sc => expectOrd ord toR (execOps B sc.1 sc.2 l) f) := by
  intro ops
  induction ops with
  | nil => intro s c; rfl
  | cons op rest ih =>
    intro s c
    simp only [List.cons_append, execOps]
    rw [expectOrd_bind, expectOrd_bind]
    exact expectOrd_congr _ _ _ _ _ (fun sc => ih sc.1 sc.2)

/-! ### the peek loop on a homogeneous state -/

theorem peekGo_expect (cbit : Nat) (x : Nat → R) (pw : List α → α) : ∀ (rs : List (Rng α)) (pre tail : List Nat),
    expectOrd ord toR (VecState.peekInto.go cbit (rs.map fun r => (pw r.2.1, r.1)) pre.length
      (pre ++ mkReg rs ++ tail)) (fun res => (res.map x).prod) =
    (pre.map x).prod * value (fun sw => toR (SimAmp.min1 (pw sw.1)) * x (setBitTo sw.2 cbit false) +
      (1 - toR (SimAmp.min1 (pw sw.1))) * x (setBitTo sw.2 cbit true)) rs * (tail.map x).prod := by
  intro rs
  induction rs with
  | nil =>
    intro pre tail
    simp [VecState.peekInto.go, mkReg, value]
  | cons r rs ih =>
    intro pre tail
    have hreg : pre ++ mkReg (r :: rs) ++ tail = pre ++ List.replicate r.1 r.2.2 ++ (mkReg rs ++ tail) := by
      simp [mkReg]
    simp only [List.map_cons, VecState.peekInto.go, expectOrd_binomial, hreg]
    have hterm : ∀ n0 ∈ range (r.1 + 1),
        binW r.1 (toR (SimAmp.min1 (pw r.2.1))) n0 *
          expectOrd ord toR (VecState.peekInto.go cbit (rs.map fun r => (pw r.2.1, r.1)) (pre.length + r.1)
            (writeRange (pre ++ List.replicate r.1 r.2.2 ++ (mkReg rs ++ tail)) pre.length r.1 n0 cbit))
            (fun res => (res.map x).prod) =
        ((pre.map x).prod * value (fun sw => toR (SimAmp.min1 (pw sw.1)) * x (setBitTo sw.2 cbit false) +
          (1 - toR (SimAmp.min1 (pw sw.1))) * x (setBitTo sw.2 cbit true)) rs * (tail.map x).prod) *
          (binW r.1 (toR (SimAmp.min1 (pw r.2.1))) n0 *
            (x (setBitTo r.2.2 cbit false) ^ n0 * x (setBitTo r.2.2 cbit true) ^ (r.1 - n0))) := by
      intro n0 hn0
      have hle : n0 ≤ r.1 := by simp only [Finset.mem_range] at hn0; omega
      rw [writeRange_mid pre (mkReg rs ++ tail) r.1 n0 r.2.2 cbit hle]
      have hl : (pre ++ (List.replicate n0 (setBitTo r.2.2 cbit false) ++
          List.replicate (r.1 - n0) (setBitTo r.2.2 cbit true))).length = pre.length + r.1 := by
        simp; omega
      have := ih (pre ++ (List.replicate n0 (setBitTo r.2.2 cbit false) ++
          List.replicate (r.1 - n0) (setBitTo r.2.2 cbit true))) tail
      rw [hl, List.append_assoc _ (mkReg rs) tail] at this
      rw [this]
      simp only [List.map_append, List.prod_append, List.map_replicate, List.prod_replicate]
      ring
    rw [Finset.sum_congr rfl hterm, ← Finset.mul_sum, binW_split, value_cons]
    ring

theorem peekInto_expect (H : Hyps α P nz n valid) {rs : List (Rng α)} (hgood : Good n N rs) {q c : Nat} (hq : q < n)
    (hc : c < 64) (x : Nat → R) :
    expectOrd ord toR (VecState.peekInto (mkState n N rs) q c (mkReg rs)) (fun res => (res.map x).prod) =
      value (fun sw => toR (normSqSum (project n q false sw.1)) * x (writeBit sw.2 c false) +
        toR (normSqSum (project n q true sw.1)) * x (writeBit sw.2 c true)) rs := by
  unfold VecState.peekInto
  rw [if_neg (by simp [mkState]; omega), if_neg (by rw [mkReg_length, hgood.sum]; simp [mkState]),
    if_neg (by simp [shiftOk, hc])]
  have hz : (VecState.weights0 (mkState n N rs) q).zip (mkState n N rs).counts
      = rs.map fun r => (w0Of n q r.2.1, r.1) := by
    simp only [weights0_eq, cols_mkState hgood.toShape]
    simp only [mkState, List.map_map]
    rw [List.zip_map']
    rfl
  simp only [hz]
  have := peekGo_expect (ord := ord) toR c x (w0Of n q) rs [] []
  simp only [List.nil_append, List.append_nil, List.length_nil, List.map_nil, List.prod_nil, one_mul, mul_one] at this
  rw [this]
  apply value_congr
  intro r hr
  obtain ⟨e0, e1, em⟩ := weights_of_normed (n := n) H.sim H.wts q (hgood.normed r hr)
  have h1 : (1 : R) - toR (w0Of n q r.2.1) = toR (1 - w0Of n q r.2.1) := by simp
  simp only [em, h1, writeBit]
  rw [← e0, ← e1]

/-- **one final peek**: the continuation "peek, then read the register" is multiplicative, with the single-shot
function of a final *measurement* -/
theorem mult_finalPeek (H : Hyps α P nz n valid) {q c : Nat} (b : Basis) (hq : q < n) (hc : c < 64) (x : Nat → R) :
    Mult n N (fun sc : VecState α × List Nat => expectOrd ord toR
        (execOps (vecBackend (α := α) (P := P)) sc.1 sc.2 [.peek q c b]) (shotProd x))
      (gfShot (P := P) n toR x [.measure q c b]) := by
  obtain ⟨vH, vS, vSdg, _⟩ := H.sem.basis q hq
  intro rs hgood
  have hfin : ∀ (s : VecState α), (fun r : List Nat => shotProd x (s, r)) = fun r => (r.map x).prod := fun _ => rfl
  -- the single-shot side: squared norms of the projected states
  have hspec : ∀ sw : List α × Nat, sw.1.length = 2 ^ n →
      gfShot (P := P) n toR x [.measure q c b] sw =
        toR (normSqSum (project n q false (toBasis (P := P) n q b sw.1))) * x (writeBit sw.2 c false) +
        toR (normSqSum (project n q true (toBasis (P := P) n q b sw.1))) * x (writeBit sw.2 c true) := by
    intro sw hl
    have hl2 : ∀ o, (project n q o (toBasis (P := P) n q b sw.1)).length = 2 ^ n := fun o => by
      rw [project_length]; exact toBasis_length n q b sw.1 hl
    simp only [gfShot, stepGf, measureTo]
    rw [normSq_fromBasis H hq b _ (hl2 false), normSq_fromBasis H hq b _ (hl2 true)]
  simp only [execOps, expectOrd_bind, expectOrd_pure]
  cases b with
  | Z =>
    simp only [execOp, withBasis1, vecBackend, expectOrd_bind, expectOrd_pure, hfin]
    rw [peekInto_expect toR H hgood hq hc x]
    apply value_congr
    intro r hr
    rw [hspec _ (hgood.len r hr)]; rfl
  | X =>
    simp only [execOp, withBasis1, vecBackend, bind_eq', pure_eq']
    rw [applyGate_eq H.sem H.runs vH hgood.toShape, bind_pure']
    have hgood1 := good_gate (N := N) H vH hgood
    simp only [expectOrd_bind, expectOrd_pure, applyGate_eq H.sem H.runs vH hgood1.toShape, hfin]
    rw [← mkReg_mapCol (fun _ => gateOn (P := P) n .H [q]) rs, peekInto_expect toR H hgood1 hq hc x, value_mapGate]
    apply value_congr
    intro r hr
    rw [hspec _ (hgood.len r hr)]; rfl
  | Y =>
    simp only [execOp, withBasis1, vecBackend, bind_eq', pure_eq']
    rw [applyGate_eq H.sem H.runs vSdg hgood.toShape, bind_pure']
    have hgood0 := good_gate (N := N) H vSdg hgood
    rw [applyGate_eq H.sem H.runs vH hgood0.toShape, bind_pure']
    have hgood1 := good_gate (N := N) H vH hgood0
    have hgood2 := good_gate (N := N) H vH hgood1
    simp only [expectOrd_bind, expectOrd_pure, applyGate_eq H.sem H.runs vH hgood1.toShape,
      applyGate_eq H.sem H.runs vS hgood2.toShape, bind_pure', hfin]
    have hreg : mkReg rs = mkReg ((rs.map (mapCol (gateOn (P := P) n .Sdg [q]))).map (mapCol (gateOn (P := P) n .H [q]))) := by
      rw [mkReg_mapCol (fun _ => gateOn (P := P) n .H [q]), mkReg_mapCol (fun _ => gateOn (P := P) n .Sdg [q])]
    rw [hreg, peekInto_expect toR H hgood1 hq hc x, value_mapGate, value_mapGate]
    apply value_congr
    intro r hr
    rw [hspec _ (hgood.len r hr)]; rfl

/-- **A circuit of F followed by one final peek** (any basis), from any homogeneous normalised state: the register
is distributed as for the same circuit ending in a measurement — the Born multinomial. -/
theorem final_peek_gf (hord : ∀ l, (ord l).Perm l) (H : Hyps α P nz n valid) (x : Nat → R) (ops : List (COp P))
    (hF : ∀ op ∈ ops, InF n valid op) {q c : Nat} (b : Basis) (hq : q < n) (hc : c < 64)
    (rs : List (Rng α)) (hgood : Good n N rs) :
    expectOrd ord toR (execOps (vecBackend (α := α) (P := P)) (mkState n N rs) (mkReg rs) (ops ++ [.peek q c b]))
      (shotProd x) = value (gfShot n toR x (ops ++ [.measure q c b])) rs := by
  rw [expect_execOps_append, gfShot_append]
  exact exec_gf_cont toR hord H (mult_finalPeek toR H b hq hc x) (gfShot_scales toR H.amp H.sim n x _) ops hF rs hgood

theorem final_peek_histogram (hord : ∀ l, (ord l).Perm l) (H : Hyps α P nz n valid) (x : Nat → R) (ops : List (COp P))
    (hF : ∀ op ∈ ops, InF n valid op) {q c : Nat} (b : Basis) (hq : q < n) (hc : c < 64) (hN : 0 < N) :
    expectOrd ord toR (execOps (vecBackend (α := α) (P := P)) (VecState.new n N) (List.replicate N 0)
      (ops ++ [.peek q c b])) (shotProd x) = gfShot n toR x (ops ++ [.measure q c b]) (ket0 n, 0) ^ N := by
  have := final_peek_gf toR hord H x ops hF b hq hc _ (good_init (N := N) H hN)
  rw [← new_eq_mkState, show mkReg [(N, (ket0 n : List α), 0)] = List.replicate N 0 from by simp [mkReg]] at this
  rw [this]
  simp [value]

end peek
end Q1t.Sim.SimGF

import Q1t.Proofs.CQasmEquivTerm
set_option linter.unusedSimpArgs false
set_option linter.unusedSectionVars false
set_option linter.unusedVariables false
/-!
C12 (`cq_equiv_partial`), part 10: conditional `Kron`, `Composite`, `Loop` and conditional phase gates.  Under a
condition the exporter renders a gate term line by line, every line with the `c-` prefix (`Kron`: its parts one after
the other; `Loop`: its body unrolled `iters` times), between ONE pair of `not` brackets.  This is right exactly when
every library leaf has a ONE-line translation (`condTermOK`); a multi-line leaf is the known finding (only its first
line is prefixed).
-/
namespace Q1t.Proofs.CQasm
open Q1t Q1t.Spec Q1t.Proofs.Route Q1t.CQ Q1t.Proofs.Unitaries

variable {α P : Type} [CommRing α] [Amp α P]

/-- every line conditioned on the same bits -/
def condLines (control : List Nat) (L : List (List Nat × LMat α)) : List (DStmt α) :=
  L.map fun a => .gate control a.1 a.2

theorem dSeq_condLines (n : Nat) (nz : List α → Bool) (control : List Nat) :
    ∀ (L : List (List Nat × LMat α)) (ψ : List α) (w : Nat),
      dSeq n nz (condLines control L) [(ψ, w)] =
        [(if control.all (CQ1.bitSet w) then applyAll n L ψ else ψ, w)]
  | [], ψ, w => by simp [condLines, dSeq, applyAll]
  | a :: rest, ψ, w => by
    simp only [condLines, List.map_cons, dSeq, List.flatMap_cons, List.flatMap_nil, List.append_nil, dSem]
    have ih := dSeq_condLines n nz control rest
    by_cases hf : control.all (CQ1.bitSet w) = true
    · simp only [hf, if_true]
      have := ih (CQ1.applyOn n a.2 a.1 ψ) w
      simp only [condLines, hf, if_true] at this
      rw [this]; rfl
    · simp only [hf, if_false]
      have := ih ψ w
      simp only [condLines, hf, if_false] at this
      exact this

/-- `not…; c-lines; not…` -/
theorem bracket_condLines (n : Nat) (nz : List α → Bool) (control : List Nat) (target : Nat) (hnd : control.Nodup)
    (L : List (List Nat × LMat α)) (ψ : List α) (w : Nat) :
    dSeq n nz ((notBits control target).map .notb ++ condLines control L ++ (notBits control target).map .notb) [(ψ, w)] =
      [(if (∀ i, ∀ (h : i < control.length), w.testBit control[i] = target.testBit i) then applyAll n L ψ else ψ, w)] := by
  rw [dSeq_append, dSeq_append, dSeq_nots, dSeq_condLines]
  by_cases hf : ∀ i, ∀ (h : i < control.length), w.testBit control[i] = target.testBit i
  · have := (bracket_fires control target w hnd).mpr hf
    rw [if_pos this, if_pos hf, dSeq_nots, flipBits_restores]
  · have hb : ¬ control.all (fun k => CQ1.bitSet (flipBits w (notBits control target)) k) = true :=
      fun hb => hf ((bracket_fires control target w hnd).mp hb)
    rw [if_neg hb, if_neg hf, dSeq_nots, flipBits_restores]

/-- a conditional gate whose lines act as `c ·` its unitary: related, up to the phase `c`, to the circuit's
conditional gate -/
theorem stepPh_cond (h : LawfulAmp α P) (n : Nat) (nz : List α → Bool) (hs : NzScale P nz) (L : List (List Nat × LMat α))
    (term : GateTerm P) (bits : List Nat) (ha : GateAct P n L term bits) (hkept : NzKept n nz term bits)
    (control : List Nat) (target : Nat) (hnd : control.Nodup) (hcb : ∀ k ∈ control, k < n) (hn64 : n ≤ 64)
    (ht : target < 2 ^ control.length) :
    StepPh P n nz ((notBits control target).map .notb ++ condLines control L ++ (notBits control target).map .notb)
      (.cond control target term bits) := by
  intro br hbr
  obtain ⟨ψ, w⟩ := br
  obtain ⟨_, c, hc, hr⟩ := ha
  have hnz := hkept ψ hbr.len hbr.nonzero
  have hc64 : control.all Sim.shiftOk = true := by
    rw [List.all_eq_true]; intro k hk; have := hcb k hk; simp [Sim.shiftOk]; omega
  have hlen : control.length ≤ 64 := by
    have : control.length ≤ n := by
      have hsub : control ⊆ List.range n := fun k hk => by simpa using hcb k hk
      simpa using (List.Nodup.subperm hnd hsub).length_le
    omega
  obtain ⟨cw, hcw⟩ : ∃ cw, Sim.controlWord control w = some cw := by
    unfold Sim.controlWord; simp [hc64, hlen]
  have hiff := controlWord_eq_target control w cw target hcw
  rw [bracket_condLines n nz control target hnd L ψ w]
  by_cases hf : ∀ i, ∀ (h : i < control.length), w.testBit control[i] = target.testBit i
  · have hcwt : cw = target := hiff.mpr ⟨hf, ht⟩
    refine ⟨[(LMat.mulVec (embed n bits (specMatrix term)) ψ, w)], ?_, ?_⟩
    · simp [Spec.branchesOp, Spec.outcomesOf, eraseDups_single, Spec.replayOp, hcw, hcwt, Spec.gateOn, hnz]
    · rw [if_pos hf, hr ψ hbr.len]
      exact List.Forall₂.cons ⟨gate_op_inv n nz _ (embed_wf n bits _).1 (ψ, w) hbr hnz, c, hc, rfl⟩ List.Forall₂.nil
  · have hcwt : ¬ cw = target := fun e => hf (hiff.mp e).1
    refine ⟨[(ψ, w)], ?_, ?_⟩
    · simp [Spec.branchesOp, Spec.outcomesOf, eraseDups_single, Spec.replayOp, hcw, hcwt, hbr.nonzero]
    · rw [if_neg hf]
      exact List.Forall₂.cons ⟨hbr, 1, by rw [h.conj_one]; ring, by simp [scaleBr, vsmul_one]⟩ List.Forall₂.nil

/-! ### the conditional class -/

mutual
/-- gate terms whose CONDITIONAL export is right: every library leaf is good, has direct parameters and a ONE-line
translation; `Kron` of any two such terms; composites and loops (also nested) with valid sub-placements -/
def condTermOK : XGate P → Bool
  | .lib name ps => libOK name ps && oneLine name
  | .ctl _ => false
  | .kron g0 g1 => condTermOK g0 && condTermOK g1
  | .comp _ n ops => condOpsOK n ops
  | .loop _ _ _ n ops => condOpsOK n ops
def condOpsOK (n : Nat) : XOps P → Bool
  | .nil => true
  | .cons g sub rest => condTermOK g && sub.length == nrBits g && validBits n sub && condOpsOK n rest
end

mutual
theorem cterm_act (h : LawfulAmp α P) (hh : LawfulHalf α P) (hn : LawfulNegHalf α P) (hq : LawfulQuarter α P) (n : Nat) :
    (g : XGate P) → condTermOK g = true → (bits : List Nat) → bits.length = nrBits g → validBits n bits = true →
    ∃ L term, gateLinesN (α := α) g bits = some L ∧ toTerm g = some term ∧ GateAct P n L term bits
  | .lib name ps, hok, bits, hl, hv => by
    simp only [condTermOK, Bool.and_eq_true] at hok
    exact lib_act h hh hn hq n name ps hok.1 bits hl hv
  | .ctl _, hok, _, _, _ => by simp [condTermOK] at hok
  | .kron g0 g1, hok, bits, hl, hv => by
    simp only [condTermOK, Bool.and_eq_true] at hok
    simp only [nrBits] at hl
    have hsplit : bits.take (nrBits g0) ++ bits.drop (nrBits g0) = bits := List.take_append_drop _ _
    have hv' : validBits n (bits.take (nrBits g0) ++ bits.drop (nrBits g0)) = true := by rw [hsplit]; exact hv
    obtain ⟨hv0, hv1, _⟩ := validBits_of_append n _ _ hv'
    obtain ⟨L0, t0, e0, f0, a0⟩ := cterm_act h hh hn hq n g0 hok.1 _ (by simp; omega) hv0
    obtain ⟨L1, t1, e1, f1, a1⟩ := cterm_act h hh hn hq n g1 hok.2 _ (by simp; omega) hv1
    refine ⟨L0 ++ L1, .Kron t0 t1, by simp [gateLinesN, e0, e1], by simp [toTerm, f0, f1], ?_⟩
    have := gateAct_kron h n L0 L1 t0 t1 _ _ hv' a0 a1
    rwa [hsplit] at this
  | .comp name k ops, hok, bits, hl, hv => by
    simp only [condTermOK] at hok
    simp only [nrBits] at hl
    subst hl
    obtain ⟨L, opsT, e, f, a⟩ := cops_act h hh hn hq n ops bits hok hv
    exact ⟨L, .Composite name bits.length opsT, by simpa [gateLinesN] using e, by simp [toTerm, f],
      gateAct_composite n bits hv name L opsT a⟩
  | .loop label iters name k ops, hok, bits, hl, hv => by
    simp only [condTermOK] at hok
    simp only [nrBits] at hl
    subst hl
    obtain ⟨L, opsT, e, f, a⟩ := cops_act h hh hn hq n ops bits hok hv
    exact ⟨repeatLines L iters, .Loop (String.ofList label) iters name bits.length opsT, by simp [gateLinesN, e],
      by simp [toTerm, f], gateAct_loop h n bits hv _ name iters L opsT a⟩
theorem cops_act (h : LawfulAmp α P) (hh : LawfulHalf α P) (hn : LawfulNegHalf α P) (hq : LawfulQuarter α P) (n : Nat) :
    (ops : XOps P) → (bits : List Nat) → condOpsOK bits.length ops = true → validBits n bits = true →
    ∃ L opsT, opsLinesN (α := α) ops bits = some L ∧ toTermOps ops = some opsT ∧ OpsAct P n L opsT bits
  | .nil, bits, _, _ => ⟨[], .nil, rfl, rfl, opsAct_nil h n bits⟩
  | .cons g sub rest, bits, hok, hv => by
    simp only [condOpsOK, Bool.and_eq_true, beq_iff_eq] at hok
    obtain ⟨⟨⟨hg, hlen⟩, hsub⟩, hrest⟩ := hok
    obtain ⟨Lg, tg, eg, fg, ag⟩ := cterm_act h hh hn hq n g hg (relabel bits sub)
      (by rw [length_relabel]; exact hlen) (validBits_relabel n bits sub hv hsub)
    obtain ⟨Lr, tr, er, fr, ar⟩ := cops_act h hh hn hq n rest bits hrest hv
    exact ⟨Lg ++ Lr, .cons tg sub tr, by simp [opsLinesN, eg, er], by simp [toTermOps, fg, fr],
      opsAct_cons h n bits sub hv hsub Lg Lr tg tr ag ar⟩
end

/-- the per-operation class with conditional gate terms -/
inductive FaithfulOpC (n : Nat) (nz : List α → Bool) : XOp P → List (DStmt α) → Sim.COp P → Prop
  | base (op : XOp P) (D : List (DStmt α)) (cop : Sim.COp P) : FaithfulOpT n nz op D cop → FaithfulOpC n nz op D cop
  | cond (g : XGate P) (bits : List Nat) (L : List (List Nat × LMat α)) (term : GateTerm P)
      (control : List Nat) (target : Nat) :
      condTermOK g = true → bits.length = nrBits g → validBits n bits = true →
      gateLinesN (α := α) g bits = some L → toTerm g = some term → NzKept n nz term bits →
      control ≠ [] → control.Nodup → (∀ k ∈ control, k < n) → target < 2 ^ control.length →
      FaithfulOpC n nz (.cond control target g bits)
        ((notBits control target).map .notb ++ condLines control L ++ (notBits control target).map .notb)
        (.cond control target term bits)

theorem stepRel_of_faithfulC (h : LawfulAmp α P) (hh : LawfulHalf α P) (hn : LawfulNegHalf α P) (hq : LawfulQuarter α P)
    (n : Nat) (hn64 : n ≤ 64) (nz : List α → Bool) (hs : NzScale P nz) (op : XOp P) (D : List (DStmt α))
    (cop : Sim.COp P) (hf : FaithfulOpC n nz op D cop) : StepRel (PhRel P n nz) n nz D cop := by
  cases hf with
  | base op D cop hf' => exact stepRel_of_faithfulT h hh hn hq n hn64 nz hs op D cop hf'
  | cond g bits L term control target h1 h2 h3 h4 h5 h6 h7 h8 h9 h10 =>
    apply stepRel_of_stepPh h n nz hs
    obtain ⟨L', term', e1, e2, e3⟩ := cterm_act (α := α) h hh hn hq n g h1 bits h2 h3
    rw [h4] at e1; injection e1 with e1; subst e1
    rw [h5] at e2; injection e2 with e2; subst e2
    exact stepPh_cond h n nz hs L term bits e3 h6 control target h8 h9 hn64 h10

theorem faithful_cond (h : LawfulAmp α P) (hh : LawfulHalf α P) (hn : LawfulNegHalf α P) (hq : LawfulQuarter α P)
    (n : Nat) (nz : List α → Bool) (g : XGate P) (hok : condTermOK g = true) (bits : List Nat)
    (hl : bits.length = nrBits g) (hv : validBits n bits = true) (hkept : ∀ term : GateTerm P, NzKept n nz term bits)
    (control : List Nat) (target : Nat) (hne : control ≠ []) (hnd : control.Nodup) (hcb : ∀ k ∈ control, k < n)
    (ht : target < 2 ^ control.length) : ∃ D cop, FaithfulOpC n nz (.cond control target g bits) D cop := by
  obtain ⟨L, term, e1, e2, _⟩ := cterm_act (α := α) h hh hn hq n g hok bits hl hv
  exact ⟨_, _, FaithfulOpC.cond g bits L term control target hok hl hv e1 e2 (hkept term) hne hnd hcb ht⟩

/-- **cq_equiv_partial with conditional gate terms** -/
theorem circuit_equiv_cond (h : LawfulAmp α P) (hh : LawfulHalf α P) (hn : LawfulNegHalf α P) (hq : LawfulQuarter α P)
    (n : Nat) (hn64 : n ≤ 64) (nz : List α → Bool) (hs : NzScale P nz)
    (hnz0 : nz ((List.range (2 ^ n)).map fun i => if i = 0 then (1 : α) else 0) = true)
    (steps : List (XOp P × List (DStmt α) × Sim.COp P)) (hst : ∀ s ∈ steps, FaithfulOpC n nz s.1 s.2.1 s.2.2) :
    ∃ r2, Spec.branches n nz (steps.map (·.2.2)) (CQ1.initial n) = some r2 ∧
      List.Forall₂ (PhRel P n nz) (dSeq n nz (steps.flatMap (·.2.1)) (CQ1.initial n)) r2 := by
  have hsteps : ∀ s ∈ steps.map (fun s => (s.2.1, s.2.2)), StepRel (PhRel P n nz) n nz s.1 s.2 := by
    intro s hsm
    obtain ⟨x, hx, rfl⟩ := List.mem_map.mp hsm
    exact stepRel_of_faithfulC h hh hn hq n hn64 nz hs x.1 x.2.1 x.2.2 (hst x hx)
  have hinit : List.Forall₂ (PhRel P n nz) (CQ1.initial n : List (CQ1.Branch α)) (CQ1.initial n) := by
    have hi := init_inv n nz hnz0
    simp only [CQ1.initial] at hi ⊢
    exact List.Forall₂.cons ⟨hi _ (by simp), 1, by rw [h.conj_one]; ring, by simp [scaleBr, vsmul_one]⟩ List.Forall₂.nil
  obtain ⟨r2, hr2, hrel⟩ := fold_equiv (PhRel P n nz) n nz _ hsteps _ _ hinit
  have e1 : (steps.map (fun s => (s.2.1, s.2.2))).map (·.2) = steps.map (·.2.2) := by simp
  have e2 : (steps.map (fun s => (s.2.1, s.2.2))).flatMap (·.1) = steps.flatMap (·.2.1) := by
    simp [List.flatMap_map]
  rw [e1] at hr2
  rw [e2] at hrel
  exact ⟨r2, hr2, hrel⟩

end Q1t.Proofs.CQasm

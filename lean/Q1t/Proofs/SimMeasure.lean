import Q1t.Proofs.SimReg
import Q1t.Proofs.SimGate
/-!
C02 (T3, measurement part): per-shot reading of `measure_into` and `peek_into`.
-/
set_option linter.unusedSectionVars false
namespace Q1t.Sim
open Q1t Q1t.Spec Prog

section
variable {α : Type} {β : Type}
variable {sb : Nat → α → Nat → Prop} {sc : List α → Nat → Prop}

theorem runs_err_ok {e : SimErr} {ds : List Draw} {x : β} {ds' : List Draw} :
    ¬ Runs sb sc (Prog.err (W := α) e) ds (.ok x) ds' := by
  intro h; cases h

theorem runs_panic_ok {e : String} {ds : List Draw} {x : β} {ds' : List Draw} :
    ¬ Runs sb sc (Prog.panic (W := α) e) ds (.ok x) ds' := by
  intro h; cases h

theorem range_map_getD {γ : Type} (l : List γ) (d : γ) :
    (List.range l.length).map (fun k => l.getD k d) = l := by
  apply List.ext_getElem
  · simp
  · intro k h1 h2
    simp [List.getD_eq_getElem?_getD, h2]

theorem range_map_getD' {γ : Type} (l : List γ) (d : γ) (m : Nat) (h : m = l.length) :
    (List.range m).map (fun k => l.getD k d) = l := by
  subst h; exact range_map_getD l d

theorem forall₂_getElem {γ δ : Type} {R : γ → δ → Prop} {l1 : List γ} {l2 : List δ}
    (h : List.Forall₂ R l1 l2) : ∀ (k : Nat) (h1 : k < l1.length) (h2 : k < l2.length), R l1[k] l2[k] := by
  induction h with
  | nil => intro k h1; simp at h1
  | cons hr _ ih =>
    intro k h1 h2
    cases k with
    | zero => simpa using hr
    | succ k => simpa using ih k (by simpa using h1) (by simpa using h2)

end

section
variable {α P : Type} [CommRing α] [Amp α P] [SimAmp α] {β : Type}
variable {sb : Nat → α → Nat → Prop} {sc : List α → Nat → Prop}

/-- the binomial draws of `measure_into`: one accepted, supported draw per range -/
theorem runs_drawAll : ∀ (l : List (α × Nat)) (k : List Nat → Prog α β) (ds : List Draw) (x : β)
    (ds' : List Draw), Runs sb sc (VecState.drawAll l k) ds (.ok x) ds' →
    ∃ n0s ds1, List.Forall₂ (fun (wc : α × Nat) n0 => n0 ≤ wc.2 ∧ sb wc.2 (SimAmp.min1 wc.1) n0) l n0s ∧
      Runs sb sc (k n0s) ds1 (.ok x) ds' := by
  intro l
  induction l with
  | nil =>
    intro k ds x ds' h
    exact ⟨[], ds, .nil, h⟩
  | cons wc rest ih =>
    intro k ds x ds' h
    obtain ⟨w, c⟩ := wc
    simp only [VecState.drawAll] at h
    cases h with
    | binomial _ _ _ n0 ds0 _ _ hle hsb hk =>
      obtain ⟨ns, ds1, hf, hr⟩ := ih (fun ns => k (n0 :: ns)) ds0 x ds' hk
      exact ⟨n0 :: ns, ds1, .cons ⟨hle, hsb⟩ hf, hr⟩

theorem collapseCol_length (n q : Nat) (col : List α) (keep : Bool) (w : α) :
    (VecState.collapseCol n q col keep w).length = col.length := by
  simp [VecState.collapseCol]

/-- the state a shot is left in by a measurement of qubit `q` with outcome `o` -/
def collapseShot (n q : Nat) (col : List α) (o : Bool) : List α :=
  VecState.collapseCol n q col o (if o then 1 - w0Of n q col else w0Of n q col)

theorem collapseShot_length (n q : Nat) (col : List α) (o : Bool) :
    (collapseShot n q col o).length = col.length := collapseCol_length _ _ _ _ _

abbrev Item (α : Type) := List α × α × Nat × Nat

/-- the second loop of `measure_into`, as per-shot data -/
theorem measureLoop_spec (n q cbit : Nat) : ∀ (items : List (Item α)) (start : Nat) (res : List Nat)
    (cols : List (List α)) (counts : List Nat),
    (∀ it ∈ items, it.2.2.2 ≤ it.2.2.1) →
    ∃ newcols newcounts,
      VecState.measureLoop n q cbit items start res cols counts =
        (setOuts cbit res start (measOuts (items.map (·.2.2.1)) (items.map (·.2.2.2))),
          cols ++ newcols, counts ++ newcounts) ∧
      newcols.length = newcounts.length ∧
      newcounts.sum = (items.map (·.2.2.1)).sum ∧
      (∀ c ∈ newcols, ∃ it ∈ items, c.length = it.1.length) ∧
      expand newcounts newcols = items.flatMap (fun it =>
        List.replicate it.2.2.2 (VecState.collapseCol n q it.1 false it.2.1) ++
        List.replicate (it.2.2.1 - it.2.2.2) (VecState.collapseCol n q it.1 true (1 - it.2.1))) := by
  intro items
  induction items with
  | nil =>
    intro start res cols counts _
    exact ⟨[], [], by simp [VecState.measureLoop, measOuts, setOuts_nil], rfl, rfl, by simp, by simp [expand]⟩
  | cons it rest ih =>
    intro start res cols counts hle
    obtain ⟨col, w0, c, n0⟩ := it
    have hn0 : n0 ≤ c := hle (col, w0, c, n0) (by simp)
    have hrest : ∀ it ∈ rest, it.2.2.2 ≤ it.2.2.1 := fun it h => hle it (by simp [h])
    have hlen : (List.replicate n0 false ++ List.replicate (c - n0) true).length = c := by simp; omega
    have houts : ∀ (r : List Bool),
        setOuts cbit (setOuts cbit res start (List.replicate n0 false ++ List.replicate (c - n0) true)) (start + c) r =
        setOuts cbit res start (List.replicate n0 false ++ (List.replicate (c - n0) true ++ r)) := by
      intro r
      have := setOuts_setOuts cbit res start (List.replicate n0 false ++ List.replicate (c - n0) true) r
      rw [hlen, List.append_assoc] at this
      exact this
    simp only [VecState.measureLoop, writeRange_eq res start c n0 cbit hn0, List.map_cons, measOuts,
      List.flatMap_cons, List.sum_cons]
    by_cases h1 : n0 = c
    · rw [if_pos h1]
      obtain ⟨nc, nn, e1, e2, e3, e4, e5⟩ := ih (start + c) _ (cols ++ [VecState.collapseCol n q col false w0])
        (counts ++ [c]) hrest
      refine ⟨VecState.collapseCol n q col false w0 :: nc, c :: nn, ?_, by simp [e2], by simp [e3], ?_, ?_⟩
      · rw [e1, houts]; simp
      · intro x hx
        rcases List.mem_cons.mp hx with rfl | hx
        · exact ⟨_, List.mem_cons_self, collapseCol_length _ _ _ _ _⟩
        · obtain ⟨it, hit, hl⟩ := e4 x hx
          exact ⟨it, List.mem_cons_of_mem _ hit, hl⟩
      · simp [expand, e5, h1]
    · rw [if_neg h1]
      by_cases h2 : n0 = 0
      · rw [if_pos h2]
        obtain ⟨nc, nn, e1, e2, e3, e4, e5⟩ := ih (start + c) _ (cols ++ [VecState.collapseCol n q col true (1 - w0)])
          (counts ++ [c]) hrest
        refine ⟨VecState.collapseCol n q col true (1 - w0) :: nc, c :: nn, ?_, by simp [e2], by simp [e3], ?_, ?_⟩
        · rw [e1, houts]; simp
        · intro x hx
          rcases List.mem_cons.mp hx with rfl | hx
          · exact ⟨_, List.mem_cons_self, collapseCol_length _ _ _ _ _⟩
          · obtain ⟨it, hit, hl⟩ := e4 x hx
            exact ⟨it, List.mem_cons_of_mem _ hit, hl⟩
        · simp [expand, e5, h2]
      · rw [if_neg h2]
        obtain ⟨nc, nn, e1, e2, e3, e4, e5⟩ := ih (start + c) _
          (cols ++ [VecState.collapseCol n q col false w0, VecState.collapseCol n q col true (1 - w0)])
          (counts ++ [n0, c - n0]) hrest
        refine ⟨VecState.collapseCol n q col false w0 :: VecState.collapseCol n q col true (1 - w0) :: nc,
          n0 :: (c - n0) :: nn, ?_, by simp [e2], ?_, ?_, ?_⟩
        · rw [e1, houts]; simp
        · simp [e3]; omega
        · intro x hx
          rcases List.mem_cons.mp hx with rfl | hx
          · exact ⟨_, List.mem_cons_self, collapseCol_length _ _ _ _ _⟩
          rcases List.mem_cons.mp hx with rfl | hx
          · exact ⟨_, List.mem_cons_self, collapseCol_length _ _ _ _ _⟩
          · obtain ⟨it, hit, hl⟩ := e4 x hx
            exact ⟨it, List.mem_cons_of_mem _ hit, hl⟩
        · simp [expand, e5]

/-- per range `n0` shots with outcome 0 then `c - n0` with outcome 1 = per shot its own outcome -/
theorem flatMap_items (f : List α → Bool → List α) : ∀ (items : List (Item α)),
    (∀ it ∈ items, it.2.2.2 ≤ it.2.2.1) →
    items.flatMap (fun it => List.replicate it.2.2.2 (f it.1 false) ++
        List.replicate (it.2.2.1 - it.2.2.2) (f it.1 true)) =
      List.zipWith f (expand (items.map (·.2.2.1)) (items.map (·.1)))
        (measOuts (items.map (·.2.2.1)) (items.map (·.2.2.2))) := by
  intro items
  induction items with
  | nil => intro _; simp [expand, measOuts]
  | cons it rest ih =>
    intro hle
    obtain ⟨col, w0, c, n0⟩ := it
    have hn0 : n0 ≤ c := hle (col, w0, c, n0) (by simp)
    have hrest : ∀ it ∈ rest, it.2.2.2 ≤ it.2.2.1 := fun it h => hle it (by simp [h])
    have hc : List.replicate c col = List.replicate n0 col ++ List.replicate (c - n0) col := by
      rw [List.replicate_append_replicate]; congr 1; omega
    simp only [List.flatMap_cons, List.map_cons, expand, measOuts]
    rw [hc, List.append_assoc, List.zipWith_append (by simp), List.zipWith_append (by simp), ← ih hrest]
    simp [List.append_assoc]

theorem measureInto_runs (s : VecState α) (q cbit : Nat) (res : List Nat) (hwf : WFS s)
    {ds : List Draw} {s' : VecState α} {res' : List Nat} {ds' : List Draw}
    (h : Runs sb sc (VecState.measureInto s q cbit res) ds (.ok (s', res')) ds') :
    q < s.nrBits ∧ s.nrShots ≤ res.length ∧ cbit < 64 ∧
    ∃ n0s, List.Forall₂ (fun (wc : α × Nat) n0 => n0 ≤ wc.2 ∧ sb wc.2 (SimAmp.min1 wc.1) n0)
        (((cols s).map (w0Of s.nrBits q)).zip s.counts) n0s ∧
      res' = setOuts cbit res 0 (measOuts s.counts n0s) ∧
      s'.nrBits = s.nrBits ∧ s'.nrShots = s.nrShots ∧ WFS s' ∧
      shotStates s' = List.zipWith (collapseShot s.nrBits q) (shotStates s) (measOuts s.counts n0s) := by
  unfold VecState.measureInto at h
  split at h
  · exact absurd h runs_err_ok
  split at h
  · exact absurd h runs_err_ok
  rename_i hq hres
  obtain ⟨n0s, ds1, hf, hk⟩ := runs_drawAll _ _ _ _ _ h
  rw [weights0_eq] at hf
  split at hk
  · exact absurd hk runs_panic_ok
  rename_i hcb
  have hlen0 : n0s.length = s.counts.length := by
    have := hf.length_eq
    simp only [List.length_zip, List.length_map, cols_length] at this
    omega
  have hcols : (cols s).length = s.counts.length := cols_length s
  generalize hitems : (List.map (fun k => (s.column k, (s.weights0 q).getD k 0, s.counts.getD k 0, n0s.getD k 0))
    (List.range s.nrCols)) = items at hk
  have hm1 : items.map (·.1) = cols s := by
    subst hitems; simp only [cols, VecState.nrCols, List.map_map]; rfl
  have hm3 : items.map (·.2.2.1) = s.counts := by
    subst hitems; simp only [VecState.nrCols, List.map_map]
    exact range_map_getD s.counts 0
  have hm4 : items.map (·.2.2.2) = n0s := by
    subst hitems; simp only [VecState.nrCols, List.map_map]
    exact range_map_getD' n0s 0 _ hlen0.symm
  have hitem : ∀ it ∈ items, ∃ k, k < s.counts.length ∧
      it = (s.column k, (s.weights0 q).getD k 0, s.counts.getD k 0, n0s.getD k 0) := by
    subst hitems
    intro it hit
    simp only [List.mem_map, List.mem_range, VecState.nrCols] at hit
    obtain ⟨k, hk, rfl⟩ := hit
    exact ⟨k, hk, rfl⟩
  have hm2 : ∀ it ∈ items, it.2.1 = w0Of s.nrBits q it.1 := by
    intro it hit
    obtain ⟨k, hk, rfl⟩ := hitem it hit
    simp [weights0_eq, cols, List.getD_eq_getElem?_getD, hk]
  have hle : ∀ it ∈ items, it.2.2.2 ≤ it.2.2.1 := by
    intro it hit
    obtain ⟨k, hk, rfl⟩ := hitem it hit
    have := (forall₂_getElem hf k (by simp [hcols, hk]) (by omega)).1
    simpa [List.getD_eq_getElem?_getD, hk, hlen0] using this
  obtain ⟨nc, nn, e1, e2, e3, e4, e5⟩ := measureLoop_spec s.nrBits q cbit items 0 res [] [] hle
  dsimp only at hk
  rw [e1] at hk
  simp only [List.nil_append] at hk
  obtain ⟨hk1, _⟩ := runs_pure_iff.mp hk
  simp only [Except.ok.injEq, Prod.mk.injEq] at hk1
  obtain ⟨rfl, rfl⟩ := hk1
  have hnc : ∀ c ∈ nc, c.length = 2 ^ s.nrBits := by
    intro c hc
    obtain ⟨it, hit, hl⟩ := e4 c hc
    rw [hl]
    apply col_length_of_mem hwf.rows
    rw [← hm1]
    exact List.mem_map_of_mem hit
  refine ⟨by omega, by omega, by simpa [shiftOk] using hcb, n0s, hf, by rw [hm3, hm4], rfl, rfl, ?_, ?_⟩
  · exact wfs_ofColumns _ _ _ _ e2.symm (by rw [e3, hm3, hwf.counts_sum])
  · rw [shotStates, cols_ofColumns _ _ _ _ e2.symm hnc, e5, shotStates, ← hm1, ← hm3, ← hm4,
      ← flatMap_items (collapseShot s.nrBits q) items hle]
    simp only [List.flatMap_def]
    congr 1
    apply List.map_congr_left
    intro it hit
    simp [collapseShot, hm2 it hit]

theorem runs_peekGo (cbit : Nat) : ∀ (l : List (α × Nat)) (start : Nat) (res : List Nat) (ds : List Draw)
    (x : List Nat) (ds' : List Draw), Runs sb sc (VecState.peekInto.go cbit l start res) ds (.ok x) ds' →
    ∃ n0s, List.Forall₂ (fun (wc : α × Nat) n0 => n0 ≤ wc.2 ∧ sb wc.2 (SimAmp.min1 wc.1) n0) l n0s ∧
      x = setOuts cbit res start (measOuts (l.map (·.2)) n0s) := by
  intro l
  induction l with
  | nil =>
    intro start res ds x ds' h
    simp only [VecState.peekInto.go] at h
    obtain ⟨h1, _⟩ := runs_pure_iff.mp h
    simp only [Except.ok.injEq] at h1
    exact ⟨[], .nil, by simp [h1, measOuts, setOuts_nil]⟩
  | cons wc rest ih =>
    intro start res ds x ds' h
    obtain ⟨w, c⟩ := wc
    simp only [VecState.peekInto.go] at h
    cases h with
    | binomial _ _ _ n0 ds0 _ _ hle hsb hk =>
      obtain ⟨ns, hf, hx⟩ := ih _ _ _ _ _ hk
      refine ⟨n0 :: ns, .cons ⟨hle, hsb⟩ hf, ?_⟩
      have hlen : (List.replicate n0 false ++ List.replicate (c - n0) true).length = c := by simp; omega
      have := setOuts_setOuts cbit res start (List.replicate n0 false ++ List.replicate (c - n0) true)
        (measOuts (rest.map (·.2)) ns)
      rw [hlen, List.append_assoc] at this
      rw [hx, writeRange_eq res start c n0 cbit hle, this]
      simp [measOuts]

theorem peekInto_runs (s : VecState α) (q cbit : Nat) (res : List Nat)
    {ds : List Draw} {res' : List Nat} {ds' : List Draw}
    (h : Runs sb sc (VecState.peekInto s q cbit res) ds (.ok res') ds') :
    q < s.nrBits ∧ s.nrShots ≤ res.length ∧ cbit < 64 ∧
    ∃ n0s, List.Forall₂ (fun (wc : α × Nat) n0 => n0 ≤ wc.2 ∧ sb wc.2 (SimAmp.min1 wc.1) n0)
        (((cols s).map (w0Of s.nrBits q)).zip s.counts) n0s ∧
      res' = setOuts cbit res 0 (measOuts s.counts n0s) := by
  unfold VecState.peekInto at h
  split at h
  · exact absurd h runs_err_ok
  split at h
  · exact absurd h runs_err_ok
  split at h
  · exact absurd h runs_panic_ok
  rename_i hq hres hcb
  obtain ⟨n0s, hf, hx⟩ := runs_peekGo cbit _ _ _ _ _ _ h
  rw [weights0_eq] at hf hx
  refine ⟨by omega, by omega, by simpa [shiftOk] using hcb, n0s, hf, ?_⟩
  rw [hx, List.map_snd_zip]
  simp [cols_length]

end
end Q1t.Sim

import Q1t.Proofs.RouteTerm
import Q1t.Proofs.NoPanicGeneric
/-!
C18 ← C04: the hypothesis `RouteTotal` of the no-panic theorem is a consequence of the theorem of C04
(`applyGateSlice_eq_embed`: on a valid placement both application routes RETURN, namely the product with
the embedded matrix), for every lawful amplitude ring — in particular for ℂ.
-/
set_option linter.unusedSectionVars false
namespace Q1t.Sim
open Q1t Q1t.Gate Q1t.Spec Q1t.Proofs.Route Q1t.WellFormed

variable {α P : Type} [CommRing α] [Amp α P]

theorem nodup_of_hasDup : ∀ (l : List Nat), hasDup l = false → l.Nodup
  | [], _ => List.nodup_nil
  | x :: xs, h => by
    simp only [hasDup, Bool.or_eq_false_iff] at h
    exact List.nodup_cons.mpr ⟨by simpa using h.1, nodup_of_hasDup xs h.2⟩

mutual
theorem wf_of_gateOK : (g : GateTerm P) → gateOK g = true → Spec.WF g
  | .C g, h => by
    rw [Spec.WF]
    exact wf_of_gateOK g (gateOK_of_isNamedC g (by simpa [gateOK] using h))
  | .Kron g0 g1, h => by
    rw [Spec.WF]
    simp only [gateOK, Bool.and_eq_true] at h
    exact ⟨wf_of_gateOK g0 h.1, wf_of_gateOK g1 h.2⟩
  | .Composite _ n ops, h => by
    rw [Spec.WF]
    simp only [gateOK, Bool.and_eq_true, decide_eq_true_eq] at h
    exact ⟨h.1, wfOps_of_opsOK n ops h.2⟩
  | .Loop _ _ _ n body, h => by
    rw [Spec.WF]
    simp only [gateOK, Bool.and_eq_true, decide_eq_true_eq] at h
    exact ⟨h.1, wfOps_of_opsOK n body h.2⟩
  | .H, _ | .X, _ | .Y, _ | .Z, _ | .S, _ | .Sdg, _ | .T, _ | .Tdg, _ | .V, _ | .Vdg, _ | .I, _ => by simp [Spec.WF]
  | .RX _, _ | .RY _, _ | .RZ _, _ | .U1 _, _ | .U2 _ _, _ | .U3 _ _ _, _ => by simp [Spec.WF]
  | .CX, _ | .CY, _ | .CZ, _ | .Swap, _ => by simp [Spec.WF]
theorem wfOps_of_opsOK (n : Nat) : (ops : OpList P) → opsOK n ops = true → Spec.WFOps n ops
  | .nil, _ => by simp [Spec.WFOps]
  | .cons g bits rest, h => by
    rw [Spec.WFOps]
    simp only [opsOK, Bool.and_eq_true, decide_eq_true_eq, Bool.not_eq_true', List.all_eq_true] at h
    refine ⟨wf_of_gateOK g h.1.1.1.1, h.1.1.1.2, ?_, wfOps_of_opsOK n rest h.2⟩
    simp only [validBits, Bool.and_eq_true, List.all_eq_true, decide_eq_true_eq]
    exact ⟨h.1.2, nodup_of_hasDup bits h.1.1.2⟩
end

theorem validBits_of_place {n : Nat} {g : GateTerm P} {bits : List Nat} (hv : ValidPlace n g bits) :
    validBits n bits = true := by
  simp only [validBits, Bool.and_eq_true, List.all_eq_true, decide_eq_true_eq]
  exact ⟨hv.2.2.2, nodup_of_hasDup bits hv.2.2.1⟩

/-- **`RouteTotal` holds** for every lawful amplitude ring and every register size a machine word can
address (`n < 64`: `Composite::apply_slice` reads the size off the state with `usize::trailing_zeros`) -/
theorem routeTotal_of_c04 (h : LawfulAmp α P) (n : Nat) (hn : n < 64) : RouteTotal α (P := P) n where
  mat := by
    intro g bits hv m M hlen hrow
    have hword : WordOK g n := fun _ => hn
    refine ⟨_, applyGateSlice_eq_embed h g (wf_of_gateOK g hv.1) .mat m (okWidth_mat m) n bits hv.2.1
      (validBits_of_place hv) hword M hlen (fun r hr => hrow r hr), ?_, ?_⟩
    · rw [mulState_length, (embed_wf n bits _).1]
    · intro row hr
      exact mulState_rowsW .mat m (okWidth_mat m) _ _ row hr
  vec := by
    intro g bits hv v hlen
    have hword : WordOK g n := fun _ => hn
    exact ⟨_, applyGateSlice_eq_embed h g (wf_of_gateOK g hv.1) .vec 1 (fun _ => rfl) n bits hv.2.1
      (validBits_of_place hv) hword v hlen (fun _ _ => rfl)⟩

end Q1t.Sim

import Q1t.Proofs.EqualStatesPartS
import Q1t.Proofs.EqualStatesPartCanon
import Q1t.Proofs.EqualStatesPartU2
/-!
**Equal states have the identical tableau** (all `n`): assembly of `EqualStatesPlan.lean` with `partS`, `partU2`,
`partCanonN`, `partCanonI`.
-/
namespace Q1t.Proofs.DetPlan
open Q1t Q1t.Tableau Q1t.Proofs.TabG

/-- two tableaux that stabilize the same non-zero vector, are in the canonical shape of `normalize` and have
destabilizers are equal — rows, order and signs -/
theorem equal_states_identical (t1 t2 : Tab) (ψ : List Q8) (h1 : StabG Empty t1 ψ) (h2 : StabG Empty t2 ψ)
    (hnz : NZ ψ) (hn : t1.n = t2.n) (hc1 : Canon t1) (hc2 : Canon t2) (hd1 : HasDual t1) (hd2 : HasDual t2) :
    t1 = t2 :=
  equal_states_of_parts partS partU2 t1 t2 ψ h1 h2 hnz hn hc1 hc2 hd1 hd2

/-- two derivations (generated tables) that end in proportional vectors end in the identical tableau -/
theorem history_independent_generated (n : Nat) (t1 t2 : Tab) (ψ1 ψ2 : List Q8) (c : Q8)
    (h1 : ReachG n t1 ψ1) (h2 : ReachG n t2 ψ2) (hprop : ψ2 = ψ1.map (· * c)) : t1 = t2 :=
  history_independent_of_parts partS partU2 partCanonI partCanonN n t1 t2 ψ1 ψ2 c h1 h2 hprop

/-- every reachable tableau is in the canonical shape and has destabilizers -/
theorem reach_canon_dual (n : Nat) (t : Tab) (ψ : List Q8) (h : ReachG n t ψ) : Canon t ∧ HasDual t :=
  ⟨canon_of_reach partCanonI partCanonN n t ψ h,
   (inv_of_reach n (partIb n) (partN_of partN1 partN2b) (partG n) partK partC2 t ψ h).2.2.2.2⟩

end Q1t.Proofs.DetPlan

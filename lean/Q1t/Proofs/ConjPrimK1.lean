import Q1t.Proofs.ConjPrimDefs
/-! C06: kernel check of the generated conjugation table against the model's matrices over `Q8`
(every string of every claiming primitive; split over several modules so that they build in parallel). -/
namespace Q1t.Proofs.ConjPrim
open Q1t Q1t.Gate Q1t.Spec.Clifford
open Q1t.Conj hiding Pauli

theorem chk_H : checkPrimWith (litMat .H) litPauli .H = true := by decide +kernel
theorem chk_X : checkPrimWith (litMat .X) litPauli .X = true := by decide +kernel
theorem chk_Y : checkPrimWith (litMat .Y) litPauli .Y = true := by decide +kernel
theorem chk_Z : checkPrimWith (litMat .Z) litPauli .Z = true := by decide +kernel
theorem chk_S : checkPrimWith (litMat .S) litPauli .S = true := by decide +kernel
theorem chk_Sdg : checkPrimWith (litMat .Sdg) litPauli .Sdg = true := by decide +kernel
theorem chk_T : checkPrimWith (litMat .T) litPauli .T = true := by decide +kernel
theorem chk_Tdg : checkPrimWith (litMat .Tdg) litPauli .Tdg = true := by decide +kernel
theorem chk_V : checkPrimWith (litMat .V) litPauli .V = true := by decide +kernel
theorem chk_Vdg : checkPrimWith (litMat .Vdg) litPauli .Vdg = true := by decide +kernel
theorem chk_I : checkPrimWith (litMat .I) litPauli .I = true := by decide +kernel

end Q1t.Proofs.ConjPrim

import Mathlib.Algebra.Ring.Defs
import Mathlib.Tactic.Ring
import Q1t.Proofs.AmpLaws
import Q1t.Model.Sim
import Q1t.Spec.Born
/-!
C02 foundations.

* `Runs sb sc p ds r ds'` — the relational form of `Prog.runOracle p ds = some (r, ds')`, refined by
  *support* predicates on the draws (`sb` for binomial nodes, `sc` for categorical nodes).  With trivial
  predicates it is exactly `runOracle` (`runOracle_iff_runs`); in general it is `runOracle` plus
  `Supported` (`runs_iff`).
* the per-shot view of a ranges state: `cols`, `expand`, `shotStates`;
* `WFS`: shape invariant of a `VecState`.
-/
namespace Q1t.Sim
open Q1t Prog

section runs
variable {W β γ : Type}

/-- relational oracle run with support side conditions on the draws -/
inductive Runs (sb : Nat → W → Nat → Prop) (sc : List W → Nat → Prop) :
    Prog W β → List Draw → Except Fail β → List Draw → Prop
  | pure (b : β) (ds : List Draw) : Runs sb sc (.pure b) ds (.ok b) ds
  | fail (e : Fail) (ds : List Draw) : Runs sb sc (.fail e) ds (.error e) ds
  | binomial (c : Nat) (p : W) (k : Nat → Prog W β) (n0 : Nat) (ds : List Draw) (r : Except Fail β)
      (ds' : List Draw) : n0 ≤ c → sb c p n0 → Runs sb sc (k n0) ds r ds' →
      Runs sb sc (.binomial c p k) (.bin n0 :: ds) r ds'
  | categorical (ws : List W) (c : Nat) (k : List (Nat × Nat) → Prog W β) (l : List (Nat × Nat))
      (ds : List Draw) (r : Except Fail β) (ds' : List Draw) :
      ((l.map (·.2)).foldl (· + ·) 0 = c ∧ l.all (fun ic => ic.1 < ws.length ∧ 0 < ic.2) ∧ (l.map (·.1)).Nodup) →
      (∀ ic ∈ l, sc ws ic.1) → Runs sb sc (k l) ds r ds' →
      Runs sb sc (.categorical ws c k) (.cat l :: ds) r ds'

/-- the draws consumed along the path of `runOracle` satisfy the support predicates -/
def Supported (sb : Nat → W → Nat → Prop) (sc : List W → Nat → Prop) : Prog W β → List Draw → Prop
  | .binomial c p k, .bin n0 :: ds => sb c p n0 ∧ Supported sb sc (k n0) ds
  | .categorical ws _ k, .cat l :: ds => (∀ ic ∈ l, sc ws ic.1) ∧ Supported sb sc (k l) ds
  | _, _ => True

theorem runs_iff (sb : Nat → W → Nat → Prop) (sc : List W → Nat → Prop) (p : Prog W β) :
    ∀ (ds : List Draw) (r : Except Fail β) (ds' : List Draw),
    Runs sb sc p ds r ds' ↔ (runOracle p ds = some (r, ds') ∧ Supported sb sc p ds) := by
  induction p with
  | pure b =>
    intro ds r ds'
    constructor
    · intro h; cases h; simp [runOracle, Supported]
    · rintro ⟨h, _⟩
      simp only [runOracle, Option.some.injEq, Prod.mk.injEq] at h
      obtain ⟨rfl, rfl⟩ := h; exact .pure _ _
  | fail e =>
    intro ds r ds'
    constructor
    · intro h; cases h; simp [runOracle, Supported]
    · rintro ⟨h, _⟩
      simp only [runOracle, Option.some.injEq, Prod.mk.injEq] at h
      obtain ⟨rfl, rfl⟩ := h; exact .fail _ _
  | binomial c p k ih =>
    intro ds r ds'
    constructor
    · intro h
      cases h with
      | binomial _ _ _ n0 ds0 _ _ hle hsb hk =>
        obtain ⟨h1, h2⟩ := (ih n0 ds0 r ds').mp hk
        simp [runOracle, Supported, hle, h1, h2, hsb]
    · rintro ⟨h, hs⟩
      match ds, h, hs with
      | .bin n0 :: ds0, h, hs =>
        simp only [runOracle] at h
        split at h
        · rename_i hle
          exact .binomial _ _ _ _ _ _ _ hle hs.1 ((ih n0 ds0 r ds').mpr ⟨h, hs.2⟩)
        · cases h
      | [], h, _ => simp [runOracle] at h
      | .cat _ :: _, h, _ => simp [runOracle] at h
  | categorical ws c k ih =>
    intro ds r ds'
    constructor
    · intro h
      cases h with
      | categorical _ _ _ l ds0 _ _ hok hsc hk =>
        obtain ⟨h1, h2⟩ := (ih l ds0 r ds').mp hk
        refine ⟨?_, ?_⟩
        · simp only [runOracle]; rw [if_pos hok]; exact h1
        · exact ⟨hsc, h2⟩
    · rintro ⟨h, hs⟩
      match ds, h, hs with
      | .cat l :: ds0, h, hs =>
        simp only [runOracle] at h
        split at h
        · rename_i hok
          exact .categorical _ _ _ _ _ _ _ hok hs.1 ((ih l ds0 r ds').mpr ⟨h, hs.2⟩)
        · cases h
      | [], h, _ => simp [runOracle] at h
      | .bin _ :: _, h, _ => simp [runOracle] at h

theorem supported_trivial (p : Prog W β) : ∀ ds, Supported (fun _ _ _ => True) (fun _ _ => True) p ds := by
  induction p with
  | pure b => intro ds; simp [Supported]
  | fail e => intro ds; simp [Supported]
  | binomial c p k ih =>
    intro ds
    match ds with
    | .bin n0 :: ds0 => exact ⟨trivial, ih n0 ds0⟩
    | [] => simp [Supported]
    | .cat _ :: _ => simp [Supported]
  | categorical ws c k ih =>
    intro ds
    match ds with
    | .cat l :: ds0 => exact ⟨fun _ _ => trivial, ih l ds0⟩
    | [] => simp [Supported]
    | .bin _ :: _ => simp [Supported]

/-- with trivial support predicates `Runs` is exactly `runOracle` -/
theorem runOracle_iff_runs (p : Prog W β) (ds : List Draw) (r : Except Fail β) (ds' : List Draw) :
    runOracle p ds = some (r, ds') ↔ Runs (fun _ _ _ => True) (fun _ _ => True) p ds r ds' := by
  rw [runs_iff]; exact ⟨fun h => ⟨h, supported_trivial p ds⟩, fun h => h.1⟩

theorem Runs.mono {sb sb' : Nat → W → Nat → Prop} {sc sc' : List W → Nat → Prop}
    (hb : ∀ c p n, sb c p n → sb' c p n) (hc : ∀ ws i, sc ws i → sc' ws i)
    {p : Prog W β} {ds r ds'} (h : Runs sb sc p ds r ds') : Runs sb' sc' p ds r ds' := by
  induction h with
  | pure b ds => exact .pure b ds
  | fail e ds => exact .fail e ds
  | binomial c p k n0 ds r ds' hle hsb _ ih => exact .binomial _ _ _ _ _ _ _ hle (hb _ _ _ hsb) ih
  | categorical ws c k l ds r ds' hok hsc _ ih =>
    exact .categorical _ _ _ _ _ _ _ hok (fun ic h => hc _ _ (hsc ic h)) ih

variable {sb : Nat → W → Nat → Prop} {sc : List W → Nat → Prop}

theorem runs_pure_iff {b : β} {ds r ds'} :
    Runs sb sc (Prog.pure (W := W) b) ds r ds' ↔ (r = .ok b ∧ ds' = ds) := by
  constructor
  · intro h; cases h; exact ⟨rfl, rfl⟩
  · rintro ⟨rfl, rfl⟩; exact .pure _ _

theorem runs_fail_iff {e : Fail} {ds} {r : Except Fail β} {ds'} :
    Runs sb sc (Prog.fail (W := W) e) ds r ds' ↔ (r = .error e ∧ ds' = ds) := by
  constructor
  · intro h; cases h; exact ⟨rfl, rfl⟩
  · rintro ⟨rfl, rfl⟩; exact .fail _ _

/-- a successful run of `p >>= f` splits into a successful run of `p` and a run of `f b` -/
theorem runs_bind_ok (p : Prog W β) (f : β → Prog W γ) :
    ∀ {ds : List Draw} {x : γ} {ds' : List Draw}, Runs sb sc (p.bind f) ds (.ok x) ds' →
    ∃ b ds1, Runs sb sc p ds (.ok b) ds1 ∧ Runs sb sc (f b) ds1 (.ok x) ds' := by
  induction p with
  | pure b => intro ds x ds' h; exact ⟨b, ds, .pure _ _, h⟩
  | fail e => intro ds x ds' h; simp only [Prog.bind] at h; cases h
  | binomial c p k ih =>
    intro ds x ds' h
    simp only [Prog.bind] at h
    cases h with
    | binomial _ _ _ n0 ds0 _ _ hle hsb hk =>
      obtain ⟨b, ds1, h1, h2⟩ := ih n0 hk
      exact ⟨b, ds1, .binomial _ _ _ _ _ _ _ hle hsb h1, h2⟩
  | categorical ws c k ih =>
    intro ds x ds' h
    simp only [Prog.bind] at h
    cases h with
    | categorical _ _ _ l ds0 _ _ hok hsc hk =>
      obtain ⟨b, ds1, h1, h2⟩ := ih l hk
      exact ⟨b, ds1, .categorical _ _ _ _ _ _ _ hok hsc h1, h2⟩

theorem bind_eq (p : Prog W β) (f : β → Prog W γ) : (p >>= f) = p.bind f := rfl
theorem pure_eq (b : β) : (Pure.pure b : Prog W β) = Prog.pure b := rfl

end runs

/-! ### ranges view -/

/-- per-shot expansion: `counts[k]` copies of `xs[k]` -/
def expand {σ : Type} : List Nat → List σ → List σ
  | c :: cs, x :: xs => List.replicate c x ++ expand cs xs
  | _, _ => []

theorem expand_length {σ : Type} : ∀ (cs : List Nat) (xs : List σ), cs.length = xs.length →
    (expand cs xs).length = cs.sum
  | [], [], _ => by simp [expand]
  | c :: cs, x :: xs, h => by
    simp only [List.length_cons, Nat.add_right_cancel_iff] at h
    simp [expand, expand_length cs xs h]
  | [], _ :: _, h => by simp at h
  | _ :: _, [], h => by simp at h

theorem expand_map {σ τ : Type} (f : σ → τ) : ∀ (cs : List Nat) (xs : List σ),
    expand cs (xs.map f) = (expand cs xs).map f
  | [], _ => by simp [expand]
  | _ :: _, [] => by simp [expand]
  | c :: cs, x :: xs => by simp [expand, expand_map f cs xs]

theorem expand_append {σ : Type} : ∀ (cs1 : List Nat) (xs1 : List σ) (cs2 : List Nat) (xs2 : List σ),
    cs1.length = xs1.length → expand (cs1 ++ cs2) (xs1 ++ xs2) = expand cs1 xs1 ++ expand cs2 xs2
  | [], [], _, _, _ => by simp [expand]
  | c :: cs, x :: xs, cs2, xs2, h => by
    simp only [List.length_cons, Nat.add_right_cancel_iff] at h
    simp [expand, expand_append cs xs cs2 xs2 h]
  | [], _ :: _, _, _, h => by simp at h
  | _ :: _, [], _, _, h => by simp at h

theorem mem_expand {σ : Type} : ∀ (cs : List Nat) (xs : List σ) (x : σ), x ∈ expand cs xs → x ∈ xs
  | [], _, _, h => by simp [expand] at h
  | _ :: _, [], _, h => by simp [expand] at h
  | c :: cs, y :: ys, x, h => by
    simp only [expand, List.mem_append, List.mem_replicate] at h
    rcases h with ⟨_, rfl⟩ | h
    · simp
    · exact List.mem_cons_of_mem _ (mem_expand cs ys x h)

variable {α : Type} [Zero α]

/-- the columns of the state matrix, one per range -/
def cols (s : VecState α) : List (List α) := (List.range s.counts.length).map s.column

/-- the state of every shot, in shot order -/
def shotStates (s : VecState α) : List (List α) := expand s.counts (cols s)

/-- shape invariant of a `VectorState` -/
structure WFS (s : VecState α) : Prop where
  counts_sum : s.counts.sum = s.nrShots
  rows : s.states.length = 2 ^ s.nrBits
  row_len : ∀ row ∈ s.states, row.length = s.counts.length

theorem cols_length (s : VecState α) : (cols s).length = s.counts.length := by simp [cols]

theorem col_length_of_mem {s : VecState α} (h : s.states.length = 2 ^ s.nrBits) {c : List α}
    (hc : c ∈ cols s) : c.length = 2 ^ s.nrBits := by
  simp only [cols, List.mem_map, List.mem_range] at hc
  obtain ⟨k, _, rfl⟩ := hc
  simp [VecState.column, h]

theorem shotStates_length {s : VecState α} (h : WFS s) : (shotStates s).length = s.nrShots := by
  rw [shotStates, expand_length _ _ (cols_length s).symm, h.counts_sum]

theorem mem_shotStates_length {s : VecState α} (h : WFS s) {c : List α} (hc : c ∈ shotStates s) :
    c.length = 2 ^ s.nrBits :=
  col_length_of_mem h.rows (mem_expand _ _ _ hc)

theorem ofColumns_length (n : Nat) (cs : List (List α)) : (VecState.ofColumns n cs).length = 2 ^ n := by
  simp [VecState.ofColumns]

theorem ofColumns_row_len (n : Nat) (cs : List (List α)) :
    ∀ row ∈ VecState.ofColumns n cs, row.length = cs.length := by
  intro row h
  simp only [VecState.ofColumns, List.mem_map, List.mem_range] at h
  obtain ⟨r, _, rfl⟩ := h
  simp

/-- the columns of `ofColumns n cs` are `cs` -/
theorem cols_ofColumns (n N : Nat) (cnts : List Nat) (cs : List (List α))
    (hlen : cnts.length = cs.length) (hc : ∀ c ∈ cs, c.length = 2 ^ n) :
    cols ({ nrBits := n, nrShots := N, counts := cnts, states := VecState.ofColumns n cs } : VecState α) = cs := by
  apply List.ext_getElem
  · simp [cols, hlen]
  · intro k h1 h2
    have hk : k < cs.length := h2
    simp only [cols, List.getElem_map, List.getElem_range, VecState.column, VecState.ofColumns,
      List.map_map]
    apply List.ext_getElem
    · simp [hc _ (List.getElem_mem hk)]
    · intro r h3 h4
      have hr : r < cs[k].length := h4
      simp [List.getD_eq_getElem?_getD, hk, hr]

theorem wfs_ofColumns (n N : Nat) (cnts : List Nat) (cs : List (List α))
    (hlen : cnts.length = cs.length) (hsum : cnts.sum = N) :
    WFS ({ nrBits := n, nrShots := N, counts := cnts, states := VecState.ofColumns n cs } : VecState α) :=
  ⟨hsum, ofColumns_length n cs, fun row h => by rw [hlen]; exact ofColumns_row_len n cs row h⟩

/-- the matrix of a well-formed state is the matrix of its columns -/
theorem states_eq_ofColumns {s : VecState α} (h : WFS s) : s.states = VecState.ofColumns s.nrBits (cols s) := by
  apply List.ext_getElem
  · simp [VecState.ofColumns, h.rows]
  · intro r h1 h2
    have hrow := h.row_len _ (List.getElem_mem h1)
    apply List.ext_getElem
    · simp [VecState.ofColumns, cols, hrow]
    · intro k h3 h4
      simp [VecState.ofColumns, cols, VecState.column, List.getD_eq_getElem?_getD, h1, h3]

end Q1t.Sim

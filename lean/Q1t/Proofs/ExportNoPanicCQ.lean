import Q1t.Model.CQasm
import Q1t.Proofs.NoPanicGeneric
/-!
C18 ← C12: the c-QASM exporter model (`Q1t.CQ`, driven by the generated table `Gen.cqGates`) never takes its
`panic` outcome on a circuit whose indices are in range and that has no c-QASM-relevant defect
(`Defect.cQasm`: arity, more than 64 controls, a control bit ≥ `nr_qbits`, malformed composite bodies).
Same structure as `ExportNoPanicOQ(Bridge).lean`.
-/
set_option linter.unusedSectionVars false
set_option linter.unusedVariables false
set_option linter.unusedSimpArgs false
namespace Q1t.CQ
open Q1t Q1t.Gen Q1t.Sim Q1t.WellFormed Q1t.Builders

variable {F : Type}

/-! ### `Res` -/

theorem bind_ne_panic {α β} {r : Res α} {f : α → Res β} (hr : r ≠ .panic) (hf : ∀ a, r = .ok a → f a ≠ .panic) :
    (r >>= f) ≠ .panic := by
  cases r with
  | ok a => exact hf a rfl
  | err e => intro h; cases h
  | panic => exact absurd rfl hr

theorem map'_ne_panic {α β} {r : Res α} {f : α → β} (hr : r ≠ .panic) : r.map' f ≠ .panic := by
  cases r with
  | ok a => intro h; cases h
  | err e => intro h; cases h
  | panic => exact absurd rfl hr

theorem pure_ne_panic {α} (a : α) : (pure a : Res α) ≠ .panic := by intro h; cases h

theorem mapRes_ne_panic {α β} (f : α → Res β) : ∀ (l : List α), (∀ a ∈ l, f a ≠ .panic) → mapRes f l ≠ .panic := by
  intro l
  induction l with
  | nil => intro _ h; cases h
  | cons a as ih =>
    intro h
    simp only [mapRes]
    exact bind_ne_panic (h a (by simp)) fun _ _ =>
      bind_ne_panic (ih fun x hx => h x (by simp [hx])) fun _ _ => pure_ne_panic _

/-! ### table entries -/

def cqOK (g : CQGate) : Bool :=
  match g.kind with
  | .format _ _ args => args.all fun a =>
      match a with
      | .bit k => decide (k < libBits g.name)
      | .param f => g.params.contains f
      | .paramPlusPi f => g.params.contains f
  | _ => true

theorem cqGates_ok : cqGates.all cqOK = true := by decide

theorem paramOf_some (argNames : List String) (params : List (Param F)) (f : String) (hf : argNames.contains f = true)
    (hl : argNames.length ≤ params.length) : ∃ p, paramOf argNames params f = some p := by
  unfold paramOf
  have hmem : f ∈ argNames := by simpa using hf
  suffices h : ∃ ap, (argNames.zip params).find? (fun ap => ap.1 == f) = some ap by
    obtain ⟨ap, hap⟩ := h
    exact ⟨ap.2, by rw [hap]; rfl⟩
  clear hf
  induction argNames generalizing params with
  | nil => cases hmem
  | cons a rest ih =>
    cases params with
    | nil => simp at hl
    | cons p ps =>
      simp only [List.zip_cons_cons, List.find?_cons]
      by_cases hfa : a = f
      · exact ⟨(a, p), by simp [hfa]⟩
      · have hne : (a == f) = false := by simpa using hfa
        simp only [hne]
        rcases List.mem_cons.mp hmem with h | h
        · exact absurd h.symm hfa
        · exact ih ps (by simpa using hl) h

theorem names_get (names : List Text) (bits : List Nat) (hb : ∀ b ∈ bits, b < names.length) :
    mapRes (fun b => match names[b]? with | some nm => Res.ok nm | none => Res.panic) bits ≠ .panic := by
  apply mapRes_ne_panic
  intro b hbm
  rw [List.getElem?_eq_getElem (hb b hbm)]
  intro h; cases h

theorem substBits_some (names : List Text) : ∀ (l : List (Nat × Nat)) (s : Text), (∀ x ∈ l, x.1 < names.length) →
    ∃ t, substBits names l s = some t := by
  intro l
  induction l with
  | nil => intro s _; exact ⟨s, rfl⟩
  | cons x rest ih =>
    intro s h
    obtain ⟨bit, i⟩ := x
    simp only [substBits]
    rw [List.getElem?_eq_getElem (h (bit, i) (by simp))]
    exact ih _ fun y hy => h y (by simp [hy])

/-- `c_qasm` of a library gate -/
theorem gateCQasm_ne_panic (N : Num F) (names : List Text) (g : CQGate) (params : List (Param F)) (bits : List Nat)
    (hok : cqOK g = true) (hps : g.params.length ≤ params.length) (hlen : bits.length = libBits g.name)
    (hb : ∀ b ∈ bits, b < names.length) : gateCQasm N names g params bits ≠ .panic := by
  unfold gateCQasm
  cases hk : g.kind with
  | format check pieces args =>
    have hargs : mapRes (formatArg N names g.params params bits) args ≠ .panic := by
      apply mapRes_ne_panic
      intro a ha
      simp only [cqOK, hk, List.all_eq_true] at hok
      have h1 := hok a ha
      cases a with
      | bit k =>
        simp only [decide_eq_true_eq] at h1
        simp only [formatArg, bitName]
        rw [List.getElem?_eq_getElem (by omega)]
        simp only
        rw [List.getElem?_eq_getElem (hb _ (List.getElem_mem _))]
        intro h; cases h
      | param f =>
        obtain ⟨p, hp⟩ := paramOf_some g.params params f h1 hps
        simp only [formatArg, hp]
        intro h; cases h
      | paramPlusPi f =>
        obtain ⟨p, hp⟩ := paramOf_some g.params params f h1 hps
        simp only [formatArg, hp]
        intro h; cases h
    simp only
    cases check with
    | none => exact bind_ne_panic hargs fun _ _ => pure_ne_panic _
    | some k =>
      simp only
      split
      · intro h; cases h
      · exact bind_ne_panic hargs fun _ _ => pure_ne_panic _
  | plain lname =>
    simp only [plainText]
    exact bind_ne_panic (names_get names bits hb) fun _ _ => pure_ne_panic _
  | template tpl =>
    simp only [expandTemplate]
    obtain ⟨t, ht⟩ := substBits_some names bits.zipIdx tpl.toList (by
      intro x hx
      obtain ⟨b, i⟩ := x
      have := List.mem_zipIdx hx
      simp only [Nat.sub_zero] at this
      rw [this.2.2]
      exact hb _ (List.getElem_mem _))
    rw [ht]
    intro h; cases h

/-! ### gate terms -/

mutual
def xOK (tbl : List CQGate) : XGate F → Bool
  | .lib name ps =>
    match tbl.find? (·.name == name) with
    | some g => cqOK g && decide (g.params.length ≤ ps.length) && g.name == name
    | none => true
  | .ctl _ => true
  | .kron a b => xOK tbl a && xOK tbl b
  | .comp _ n ops => xOpsOK tbl n ops
  | .loop _ _ _ n body => xOpsOK tbl n body
def xOpsOK (tbl : List CQGate) (n : Nat) : XOps F → Bool
  | .nil => true
  | .cons g sub rest =>
    xOK tbl g && decide (nrBits g = sub.length) && sub.all (fun b => decide (b < n)) && xOpsOK tbl n rest
end

theorem gatherBits_ok (bits sub : List Nat) (h : ∀ b ∈ sub, b < bits.length) :
    ∃ gb, gatherBits bits sub = .ok gb ∧ gb.length = sub.length ∧ ∀ x ∈ gb, x ∈ bits := by
  unfold gatherBits
  induction sub with
  | nil => exact ⟨[], rfl, rfl, by simp⟩
  | cons b rest ih =>
    obtain ⟨gb, h1, h2, h3⟩ := ih (fun x hx => h x (by simp [hx]))
    have hb := h b (by simp)
    refine ⟨bits[b] :: gb, ?_, by simp [h2], ?_⟩
    · simp only [mapRes, List.getElem?_eq_getElem hb, h1, Res.bind_ok, Res.pure_eq]
    · intro x hx
      rcases List.mem_cons.mp hx with rfl | hx
      · exact List.getElem_mem hb
      · exact h3 x hx

theorem libCQasm_ne_panic (tbl : List CQGate) (N : Num F) (names : List Text) (name : String) (ps : List (Param F))
    (bits : List Nat) (hok : xOK tbl (.lib name ps) = true) (hn : libBits name = bits.length)
    (hb : ∀ b ∈ bits, b < names.length) : libCQasm tbl N names name ps bits ≠ .panic := by
  unfold libCQasm
  cases hf : tbl.find? (·.name == name) with
  | none => intro h; cases h
  | some g =>
    simp only [xOK, hf, Bool.and_eq_true, decide_eq_true_eq, beq_iff_eq] at hok
    simp only
    exact gateCQasm_ne_panic N names g ps bits hok.1.1 hok.1.2 (by rw [hok.2]; exact hn.symm) hb

mutual
theorem cQasm_ne_panic (tbl : List CQGate) (N : Num F) (names : List Text) :
    (g : XGate F) → (bits : List Nat) → xOK tbl g = true → nrBits g = bits.length →
      (∀ b ∈ bits, b < names.length) → cQasm tbl N names g bits ≠ .panic
  | .lib name ps, bits, hok, hn, hb => by
    rw [cQasm]; exact libCQasm_ne_panic tbl N names name ps bits hok (by simpa [nrBits] using hn) hb
  | .ctl g, bits, _, _, _ => by rw [cQasm]; intro h; cases h
  | .kron g0 g1, bits, hok, hn, hb => by
    rw [cQasm]
    simp only [xOK, Bool.and_eq_true] at hok
    simp only [nrBits] at hn
    rw [if_neg (by omega)]
    exact bind_ne_panic (cQasm_ne_panic tbl N names g0 _ hok.1 (by simp; omega)
      (fun b hbm => hb b (List.mem_of_mem_take hbm))) fun _ _ =>
      bind_ne_panic (cQasm_ne_panic tbl N names g1 _ hok.2 (by simp; omega)
        (fun b hbm => hb b (List.mem_of_mem_drop hbm))) fun _ _ => pure_ne_panic _
  | .comp _ n ops, bits, hok, hn, hb => by
    rw [cQasm]
    simp only [xOK] at hok
    simp only [nrBits] at hn
    exact bind_ne_panic (opsTexts_ne_panic tbl N names n ops bits hok hn.symm hb) fun _ _ => pure_ne_panic _
  | .loop _ _ _ n ops, bits, hok, hn, hb => by
    rw [cQasm]
    simp only [xOK] at hok
    simp only [nrBits] at hn
    exact bind_ne_panic (opsTexts_ne_panic tbl N names n ops bits hok hn.symm hb) fun _ _ => pure_ne_panic _
theorem opsTexts_ne_panic (tbl : List CQGate) (N : Num F) (names : List Text) (n : Nat) :
    (ops : XOps F) → (bits : List Nat) → xOpsOK tbl n ops = true → bits.length = n →
      (∀ b ∈ bits, b < names.length) → opsTexts tbl N names ops bits ≠ .panic
  | .nil, bits, _, _, _ => by rw [opsTexts]; intro h; cases h
  | .cons g sub rest, bits, hok, hn, hb => by
    rw [opsTexts]
    simp only [xOpsOK, Bool.and_eq_true, decide_eq_true_eq, List.all_eq_true] at hok
    obtain ⟨gb, h1, h2, h3⟩ := gatherBits_ok bits sub (fun b hbm => by rw [hn]; exact hok.1.2 b hbm)
    rw [h1]
    simp only [Res.bind_ok]
    exact bind_ne_panic (cQasm_ne_panic tbl N names g gb hok.1.1.1 (by rw [h2]; exact hok.1.1.2)
      (fun x hx => hb x (h3 x hx))) fun _ _ =>
      bind_ne_panic (opsTexts_ne_panic tbl N names n rest bits hok.2 hn hb) fun _ _ => pure_ne_panic _
end

theorem defaultCond_ne_panic (cond unc : Text) : defaultCond cond unc ≠ .panic := by
  unfold defaultCond
  split <;> (intro h; cases h)

mutual
theorem condCQasm_ne_panic (tbl : List CQGate) (N : Num F) (cond : Text) (names : List Text) :
    (g : XGate F) → (bits : List Nat) → xOK tbl g = true → nrBits g = bits.length →
      (∀ b ∈ bits, b < names.length) → condCQasm tbl N cond names g bits ≠ .panic
  | .lib name ps, bits, hok, hn, hb => by
    rw [condCQasm]
    exact bind_ne_panic (libCQasm_ne_panic tbl N names name ps bits hok (by simpa [nrBits] using hn) hb)
      fun _ _ => defaultCond_ne_panic _ _
  | .ctl g, bits, _, _, _ => by rw [condCQasm]; intro h; cases h
  | .kron g0 g1, bits, hok, hn, hb => by
    rw [condCQasm]
    simp only [xOK, Bool.and_eq_true] at hok
    simp only [nrBits] at hn
    rw [if_neg (by omega)]
    exact bind_ne_panic (condCQasm_ne_panic tbl N cond names g0 _ hok.1 (by simp; omega)
      (fun b hbm => hb b (List.mem_of_mem_take hbm))) fun _ _ =>
      bind_ne_panic (condCQasm_ne_panic tbl N cond names g1 _ hok.2 (by simp; omega)
        (fun b hbm => hb b (List.mem_of_mem_drop hbm))) fun _ _ => pure_ne_panic _
  | .comp _ n ops, bits, hok, hn, hb => by
    rw [condCQasm]
    simp only [xOK] at hok
    simp only [nrBits] at hn
    exact bind_ne_panic (condOpsTexts_ne_panic tbl N cond names n ops bits hok hn.symm hb) fun _ _ => pure_ne_panic _
  | .loop _ iters _ n ops, bits, hok, hn, hb => by
    rw [condCQasm]
    simp only [xOK] at hok
    simp only [nrBits] at hn
    split
    · intro h; cases h
    · exact bind_ne_panic (condOpsTexts_ne_panic tbl N cond names n ops bits hok hn.symm hb) fun _ _ => pure_ne_panic _
theorem condOpsTexts_ne_panic (tbl : List CQGate) (N : Num F) (cond : Text) (names : List Text) (n : Nat) :
    (ops : XOps F) → (bits : List Nat) → xOpsOK tbl n ops = true → bits.length = n →
      (∀ b ∈ bits, b < names.length) → condOpsTexts tbl N cond names ops bits ≠ .panic
  | .nil, bits, _, _, _ => by rw [condOpsTexts]; intro h; cases h
  | .cons g sub rest, bits, hok, hn, hb => by
    rw [condOpsTexts]
    simp only [xOpsOK, Bool.and_eq_true, decide_eq_true_eq, List.all_eq_true] at hok
    obtain ⟨gb, h1, h2, h3⟩ := gatherBits_ok bits sub (fun b hbm => by rw [hn]; exact hok.1.2 b hbm)
    rw [h1]
    simp only [Res.bind_ok]
    exact bind_ne_panic (condCQasm_ne_panic tbl N cond names g gb hok.1.1.1 (by rw [h2]; exact hok.1.1.2)
      (fun x hx => hb x (h3 x hx))) fun _ _ =>
      bind_ne_panic (condOpsTexts_ne_panic tbl N cond names n rest bits hok.2 hn hb) fun _ _ => pure_ne_panic _
end

end Q1t.CQ

import Q1t.Proofs.NoPanicStab
set_option linter.unusedSectionVars false
set_option linter.unusedVariables false
set_option linter.unusedSimpArgs false
/-!
C18, the refusal path of the stabilizer representation: a gate term that does not claim a conjugation rule, forced
onto the tableau, makes `apply_gate` return `Err(NotAStabilizer)` — from the FIRST column, before anything is
written — and a conditional gate returns that error or (no shot satisfying the condition) `Ok`.  Lifted here from a
tableau-level dichotomy `hR` (a valid placement is either handled, `V`, or refused by every tableau in the
invariant) to `BackendSafe` with `okErr = {NotAStabilizer}`, `allowed = ∅`, over ALL valid placements.
-/
namespace Q1t.Sim
open Q1t Q1t.Tableau Q1t.Builders Q1t.WellFormed

variable {α P : Type}

/-- the only error the stabilizer representation may answer a well-formed circuit with -/
def okNS : SimErr → Prop := fun e => e = .notAStabilizer

theorem Safe.weaken {W β : Type} {okErr okErr' : SimErr → Prop} {allowed allowed' : String → Prop} {Q : β → Prop}
    {p : Prog W β} (h : Safe okErr allowed Q p) (he : ∀ e, okErr e → okErr' e) (ha : ∀ s, allowed s → allowed' s) :
    Safe okErr' allowed' Q p := by
  induction h with
  | pure hb => exact .pure hb
  | err h => exact .err (he _ h)
  | panic h => exact .panic (ha _ h)
  | binomial _ ih => exact .binomial ih
  | categorical _ ih => exact .categorical ih

theorem res_mapM_ok_or_err {σ τ : Type} (f : σ → Res τ) (Q : τ → Prop) (e : GErr) : ∀ (l : List σ),
    (∀ x ∈ l, (∃ y, f x = .ok y ∧ Q y) ∨ f x = .err e) →
      (∃ r, l.mapM f = .ok r ∧ r.length = l.length ∧ ∀ y ∈ r, Q y) ∨ l.mapM f = .err e := by
  intro l
  induction l with
  | nil => intro _; exact Or.inl ⟨[], by rw [List.mapM_nil]; rfl, rfl, by simp⟩
  | cons a l ih =>
    intro h
    rcases h a (by simp) with ⟨y, hy, hq⟩ | he
    · rcases ih (fun x hx => h x (by simp [hx])) with ⟨r, hr, hl, hall⟩ | he'
      · refine Or.inl ⟨y :: r, ?_, by simp [hl], ?_⟩
        · rw [List.mapM_cons, hy, hr]; rfl
        · intro z hz
          rcases List.mem_cons.mp hz with rfl | hz
          · exact hq
          · exact hall z hz
      · exact Or.inr (by rw [List.mapM_cons, hy, he']; rfl)
    · exact Or.inr (by rw [List.mapM_cons, he]; rfl)

theorem lift_mapM_bind_anyS {σ β : Type} {Q : β → Prop} {TInv : Tab → Prop} (f : σ → Res Tab) (l : List σ)
    (k : List Tab → Prog α β) (h : ∀ x ∈ l, (∃ y, f x = .ok y ∧ TInv y) ∨ f x = .err .notAStabilizer)
    (hk : ∀ ts : List Tab, ts.length = l.length → (∀ t ∈ ts, TInv t) → Safe (W := α) okNS (fun _ => False) Q (k ts)) :
    Safe (W := α) okNS (fun _ => False) Q ((StabState.lift (α := α) (l.mapM f)).bind k) := by
  rcases res_mapM_ok_or_err f TInv .notAStabilizer l h with ⟨ts, h1, h2, h3⟩ | he
  · rw [h1]
    exact hk ts h2 h3
  · rw [he]
    exact Safe.errP rfl

section ops
variable {half : α} {ph : List Nat} {conjOf : GateTerm P → Tab.Conj} {n N : Nat} {V : GateTerm P → List Nat → Prop}
variable {TInv : Tab → Prop}

local notation "SafeN" => Safe (W := α) okNS (fun _ => False)

/-- the dichotomy of a valid placement: handled, or refused by every tableau of the invariant -/
def Dich (ph : List Nat) (conjOf : GateTerm P → Tab.Conj) (n : Nat) (V : GateTerm P → List Nat → Prop)
    (TInv : Tab → Prop) : Prop :=
  ∀ g bits, ValidPlace n g bits →
    V g bits ∨ ∀ t, TInv t → Tab.applyGate ph (conjOf g) t bits = .err .notAStabilizer

theorem sinv_tabs_ne_nil {s : StabState} (hs : SInv TInv n N s) (hN : 0 < N) : s.tabs ≠ [] := by
  intro h
  have hl := hs.len
  rw [h] at hl
  have : s.counts = [] := List.length_eq_zero_iff.mp hl.symm
  have hsum := hs.sum
  rw [this] at hsum
  simp at hsum
  omega

/-- a refused gate: `apply_gate` IS the error `NotAStabilizer` -/
theorem applyGate_refusedS {s : StabState} (hs : SInv TInv n N s) (hN : 0 < N) {g : GateTerm P} {bits : List Nat}
    (har : Gate.nrBits g = bits.length)
    (hr : ∀ t, TInv t → Tab.applyGate ph (conjOf g) t bits = .err .notAStabilizer) :
    StabState.applyGate (α := α) ph conjOf s g bits = Prog.err .notAStabilizer := by
  unfold StabState.applyGate
  rw [if_neg (by simp [har])]
  have hne := sinv_tabs_ne_nil hs hN
  cases htabs : s.tabs with
  | nil => exact absurd htabs hne
  | cons t ts =>
    have ht : TInv t := hs.tabs t (by rw [htabs]; simp)
    rw [List.mapM_cons, hr t ht]
    rfl

theorem applyGate_anyS (hT : TabTotal ph conjOf n V TInv) (hR : Dich ph conjOf n V TInv) (hN : 0 < N)
    {s : StabState} (hs : SInv TInv n N s) {g : GateTerm P} {bits : List Nat} (hv : ValidPlace n g bits) :
    SafeN (SInv TInv n N) (StabState.applyGate (α := α) ph conjOf s g bits) := by
  rcases hR g bits hv with h | h
  · exact (applyGate_safeS hT hs h).weaken (fun _ h => h.elim) (fun _ h => h)
  · rw [applyGate_refusedS hs hN hv.2.1 h]
    exact Safe.errP rfl

theorem applyUnaryAll_anyS (hT : TabTotal ph conjOf n V TInv) (hR : Dich ph conjOf n V TInv) (hN : 0 < N)
    {s : StabState} (hs : SInv TInv n N s) {g : GateTerm P} (hv : ∀ q, q < n → ValidPlace n g [q]) :
    SafeN (SInv TInv n N) (StabState.applyUnaryAll (α := α) ph conjOf s g) := by
  unfold StabState.applyUnaryAll
  refine Safe.foldl_bind (fun st bit => StabState.applyGate (α := α) ph conjOf st g [bit]) _ _ (.pure hs) ?_
  intro bit hbit st hst
  exact applyGate_anyS hT hR hN hst (hv bit (by rw [hs.nrBits] at hbit; simpa using hbit))

theorem applyConditional_anyS (hT : TabTotal ph conjOf n V TInv) (hR : Dich ph conjOf n V TInv)
    {s : StabState} (hs : SInv TInv n N s) {control : List Bool} (hc : control.length = N) {g : GateTerm P}
    {bits : List Nat} (hv : ValidPlace n g bits) :
    SafeN (SInv TInv n N) (StabState.applyConditional (α := α) ph conjOf s control g bits) := by
  rcases hR g bits hv with h | h
  · exact (applyConditional_safeS hT hs hc h).weaken (fun _ h => h.elim) (fun _ h => h)
  · unfold StabState.applyConditional
    rw [if_neg (by simp [hc, hs.nrShots]), if_neg (by simp [hv.2.1])]
    obtain ⟨ranges, hr, hpos, hsum⟩ := collect_total s.counts control hs.pos (by rw [hs.sum, hc])
    have hic := collectLoop_icol control s.counts 0 0 ranges hr
    rw [hr]
    simp only
    refine lift_mapM_bind_anyS (TInv := TInv) _ ranges _ ?_ ?_
    · intro x hx
      obtain ⟨icol, len, apply⟩ := x
      have hlt : icol < s.tabs.length := by have := (hic (icol, len, apply) hx).2; rw [hs.len]; simpa using this
      simp only
      rw [List.getElem?_eq_getElem hlt]
      simp only
      have hti := hs.tabs _ (List.getElem_mem hlt)
      by_cases ha : apply = true
      · simp only [ha, if_true]
        exact Or.inr (h _ hti)
      · simp only [ha]
        exact Or.inl ⟨_, rfl, hti⟩
    · intro ts h2 h3
      refine .pure ⟨hs.nrBits, hs.nrShots, by simp only; rw [hsum, hs.sum], ?_, by simp [h2], h3⟩
      intro c hc'
      simp only [List.mem_map] at hc'
      obtain ⟨p, hp, rfl⟩ := hc'
      exact hpos p hp

/-- **`BackendSafe` over ALL valid placements**: `Ok` in the invariant or `Err(NotAStabilizer)`, never a panic -/
theorem stabBackendSafeAny (hT : TabTotal ph conjOf n V TInv) (hR : Dich ph conjOf n V TInv) (hN : 0 < N) :
    BackendSafe (stabBackend (α := α) half ph conjOf) okNS (fun _ => False) (SInv TInv n N) n N (ValidPlace n) where
  applyGate := fun s g bits hs hv => applyGate_anyS hT hR hN hs hv
  applyUnaryAll := fun s g hs hv => applyUnaryAll_anyS hT hR hN hs hv
  applyConditional := fun s control g bits hs hc hv => applyConditional_anyS hT hR hs hc hv
  measureInto := fun s q cb res hs hq hcb hres =>
    ((stabBackendSafe (half := half) hT hN).measureInto s q cb res hs hq hcb hres).weaken (fun _ h => h.elim) (fun _ h => h)
  measureAllInto := fun s cbits res hs hl hcb hres =>
    ((stabBackendSafe (half := half) hT hN).measureAllInto s cbits res hs hl hcb hres).weaken (fun _ h => h.elim) (fun _ h => h)
  peekInto := fun s q cb res hs hq hcb hres =>
    ((stabBackendSafe (half := half) hT hN).peekInto s q cb res hs hq hcb hres).weaken (fun _ h => h.elim) (fun _ h => h)
  peekAllInto := fun s cbits res hs hl hcb hres =>
    ((stabBackendSafe (half := half) hT hN).peekAllInto s cbits res hs hl hcb hres).weaken (fun _ h => h.elim) (fun _ h => h)
  reset := fun s q hs hq => ((stabBackendSafe (half := half) hT hN).reset s q hs hq).weaken (fun _ h => h.elim) (fun _ h => h)
  resetAll := fun s hs => (stabBackendSafe (half := half) hT hN).resetAll s hs

end ops

/-! ### a refused operation ends the run -/

section generic
variable {W S : Type} {B : Backend W P S} {okErr : SimErr → Prop} {allowed : String → Prop} {Inv : S → Prop} {n N nc : Nat}
variable {E : GateTerm P → Prop} {V : GateTerm P → List Nat → Prop}

/-- operations handled by the backend (errors in `okErr`), then an operation that never returns `Ok` (errors in
`okErr'`): the run never returns `Ok` -/
theorem execOps_stops_at {okErr' : SimErr → Prop} (he : ∀ e, okErr e → okErr' e)
    (hB : BackendSafe B okErr allowed Inv n N V) (hH : Handles n E V) (op : COp P)
    (post : List (COp P))
    (hop : ∀ s c, Inv s → c.length = N → Safe okErr' allowed (fun _ : S × List Nat => False) (execOp B s c op)) :
    ∀ (pre : List (COp P)) (s : S) (c : List Nat), Inv s → c.length = N →
      (∀ o ∈ pre, OpGood n nc o) → (∀ o ∈ pre, opGate E o) →
      Safe okErr' allowed (fun _ : S × List Nat => False) (execOps B s c (pre ++ op :: post)) := by
  intro pre
  induction pre with
  | nil =>
    intro s c hs hc _ _
    simp only [List.nil_append, execOps]
    exact (hop s c hs hc).bind (fun _ h => h.elim)
  | cons o rest ih =>
    intro s c hs hc hgood hE
    simp only [List.cons_append, execOps]
    refine ((execOp_safe hB hH hs hc (hgood o List.mem_cons_self) (hE o List.mem_cons_self)).weaken he
      (fun _ h => h)).bind ?_
    rintro ⟨s', c'⟩ ⟨hs', hc'⟩
    exact ih s' c' hs' hc' (fun o ho => hgood o (List.mem_cons_of_mem _ ho)) (fun o ho => hE o (List.mem_cons_of_mem _ ho))

end generic

end Q1t.Sim

import Q1t.Model.Bits
import Q1t.Spec.Bits
/-!
Proofs about the bit-level model (`Q1t.Bits`): the helper loops `reverse_bits` / `shuffle_bits`, the
single- and multi-bit register write sites of both backends, and the control-word gather.
Everything is for all words, all widths, all lists.
-/
namespace Q1t.Proofs.Bits
open Q1t.Bits

theorem ofBitsUpTo_getLsbD (f : Nat → Bool) (n j : Nat) :
    (Spec.Bits.ofBitsUpTo f n).getLsbD j = (decide (j < n) && decide (j < 64) && f j) := by
  induction n with
  | zero => simp [Spec.Bits.ofBitsUpTo]
  | succ n ih =>
    unfold Spec.Bits.ofBitsUpTo
    split
    · rename_i hf
      simp only [BitVec.getLsbD_or, ih, BitVec.getLsbD_shiftLeft, BitVec.getLsbD_one]
      by_cases hjn : j = n
      · subst hjn; simp [hf]
      · by_cases h1 : j < n
        · have : j < n + 1 := by omega
          have h3 : ¬ (j - n = 0 ∧ ¬ j < n) := by omega
          simp [h1, this]
        · have : ¬ j < n + 1 := by omega
          simp [h1, this]; intro _ _ ; omega
    · rename_i hf
      rw [ih]
      by_cases hjn : j = n
      · subst hjn; simp [hf]
      · by_cases h1 : j < n
        · have : j < n + 1 := by omega
          simp [h1, this]
        · have : ¬ j < n + 1 := by omega
          simp [h1, this]

theorem ofBits_getLsbD (f : Nat → Bool) (j : Nat) :
    (Spec.Bits.ofBits f).getLsbD j = (decide (j < 64) && f j) := by
  unfold Spec.Bits.ofBits; rw [ofBitsUpTo_getLsbD]; simp

/-- two words are equal iff all their bits are -/
theorem word_ext {a b : Word} (h : ∀ j, j < 64 → a.getLsbD j = b.getLsbD j) : a = b :=
  BitVec.eq_of_getLsbD_eq h

theorem one_shl_getLsbD (c j : Nat) : ((1#64 : Word) <<< c).getLsbD j = (decide (j < 64) && decide (j = c)) := by
  simp only [BitVec.getLsbD_shiftLeft, BitVec.getLsbD_one]
  by_cases h : j = c
  · subst h; simp
  · by_cases h2 : j < c
    · simp [h, h2]
    · have : j - c ≠ 0 := by omega
      simp [h, this]

theorem and_one_getLsbD (x : Word) (t : Nat) : (x &&& 1#64).getLsbD t = (decide (t = 0) && x.getLsbD 0) := by
  simp only [BitVec.getLsbD_and, BitVec.getLsbD_one]
  by_cases h : t = 0
  · subst h; simp
  · simp [h]

/-- bit `j` of `(x & 1) << s` -/
theorem and_one_shl_iff (x : Word) (s j : Nat) (hs : s < 64) :
    (((x &&& 1#64) <<< s).getLsbD j = true) ↔ (j = s ∧ x.getLsbD 0 = true) := by
  simp only [BitVec.getLsbD_shiftLeft, and_one_getLsbD, Bool.and_eq_true, decide_eq_true_eq, Bool.not_eq_true',
    decide_eq_false_iff_not]
  constructor
  · rintro ⟨⟨h1, h2⟩, h3, h4⟩; exact ⟨by omega, h4⟩
  · rintro ⟨h1, h2⟩; subst h1; exact ⟨⟨hs, by omega⟩, by omega, h2⟩

theorem reverseLoop_spec (n : Nat) (hn : n ≤ 64) (m : Nat) : ∀ (k : Nat) (res sidx : Word), k + m ≤ n →
    ∃ r, reverseLoop n (List.range' k m) res sidx = some r ∧
      ∀ j, (r.getLsbD j = true ↔ (res.getLsbD j = true ∨
        (n ≤ j + k + m ∧ j + k + 1 ≤ n ∧ sidx.getLsbD (n - 1 - k - j) = true))) := by
  induction m with
  | zero =>
    intro k res sidx h
    refine ⟨res, by simp [reverseLoop], ?_⟩
    intro j
    constructor
    · intro h; exact Or.inl h
    · rintro (h | ⟨h1, h2, _⟩)
      · exact h
      · omega
  | succ m ih =>
    intro k res sidx h
    have hs : n - 1 - k < 64 := by omega
    obtain ⟨r, hr, hbits⟩ := ih (k + 1) (res ||| ((sidx &&& 1#64) <<< (n - 1 - k))) (sidx >>> 1) (by omega)
    refine ⟨r, ?_, ?_⟩
    · simp [List.range'_succ, reverseLoop, shl, hs, hr]
    · intro j
      rw [hbits j, BitVec.getLsbD_or, Bool.or_eq_true, and_one_shl_iff _ _ _ hs, BitVec.getLsbD_ushiftRight]
      constructor
      · rintro ((h1 | ⟨h1, h2⟩) | ⟨h1, h2, h3⟩)
        · exact Or.inl h1
        · refine Or.inr ⟨by omega, by omega, ?_⟩
          have : n - 1 - k - j = 0 := by omega
          rw [this]; exact h2
        · refine Or.inr ⟨by omega, by omega, ?_⟩
          have : n - 1 - k - j = 1 + (n - 1 - (k + 1) - j) := by omega
          rw [this]; exact h3
      · rintro (h1 | ⟨h1, h2, h3⟩)
        · exact Or.inl (Or.inl h1)
        · by_cases hj : j = n - 1 - k
          · refine Or.inl (Or.inr ⟨hj, ?_⟩)
            have : n - 1 - k - j = 0 := by omega
            rw [this] at h3; exact h3
          · refine Or.inr ⟨by omega, by omega, ?_⟩
            have : n - 1 - k - j = 1 + (n - 1 - (k + 1) - j) := by omega
            rw [this] at h3; exact h3

theorem reverse_bits_bit (idx : Word) (n : Nat) (hn : n ≤ 64) :
    ∃ r, reverseBits idx n = some r ∧ ∀ j, r.getLsbD j = (decide (j < n) && idx.getLsbD (n - 1 - j)) := by
  obtain ⟨r, hr, hb⟩ := reverseLoop_spec n hn n 0 0 idx (by omega)
  refine ⟨r, by simpa [reverseBits, List.range_eq_range'] using hr, ?_⟩
  intro j
  have h0 : (0 : Word).getLsbD j = false := by simp
  rw [Bool.eq_iff_iff, hb j, h0]
  simp only [Bool.false_eq_true, false_or, Bool.and_eq_true, decide_eq_true_eq]
  constructor
  · rintro ⟨_, h2, h3⟩; exact ⟨by omega, by simpa using h3⟩
  · rintro ⟨h1, h2⟩; exact ⟨by omega, by omega, by simpa using h2⟩

theorem reverse_bits_panics (idx : Word) (n : Nat) (hn : 64 < n) : reverseBits idx n = none := by
  unfold reverseBits
  obtain ⟨m, rfl⟩ : ∃ m, n = m + 1 := ⟨n - 1, by omega⟩
  have : ¬ (m < 64) := by omega
  simp [List.range_eq_range', List.range'_succ, reverseLoop, shl, this]

theorem shl_some {x : Word} {k : Nat} (h : k < 64) : shl x k = some (x <<< k) := by simp [shl, h]
theorem shl_none {x : Word} {k : Nat} (h : 64 ≤ k) : shl x k = none := by
  have : ¬ k < 64 := by omega
  simp [shl, this]
theorem shl_eq_some_iff {x y : Word} {k : Nat} : shl x k = some y ↔ k < 64 ∧ y = x <<< k := by
  unfold shl
  split
  · rename_i h; constructor
    · intro e; cases e; exact ⟨h, rfl⟩
    · rintro ⟨_, rfl⟩; rfl
  · rename_i h; constructor
    · intro e; cases e
    · rintro ⟨h', _⟩; exact absurd h' h

theorem shuffleLoop_spec : ∀ (bits : List Nat) (res sidx : Word), (∀ b ∈ bits, b < 64) →
    ∃ r, shuffleLoop bits res sidx = some r ∧
      ∀ j, (r.getLsbD j = true ↔ (res.getLsbD j = true ∨ ∃ i, bits[i]? = some j ∧ sidx.getLsbD i = true)) := by
  intro bits
  induction bits with
  | nil => intro res sidx _; exact ⟨res, rfl, by simp⟩
  | cons b bs ih =>
    intro res sidx hb
    have hb0 : b < 64 := hb b (by simp)
    obtain ⟨r, hr, hbits⟩ := ih (res ||| ((sidx &&& 1#64) <<< b)) (sidx >>> 1) (fun x hx => hb x (by simp [hx]))
    refine ⟨r, by simp [shuffleLoop, shl_some hb0, hr], ?_⟩
    intro j
    rw [hbits j, BitVec.getLsbD_or, Bool.or_eq_true, and_one_shl_iff _ _ _ hb0]
    constructor
    · rintro ((h | ⟨h1, h2⟩) | ⟨i, h1, h2⟩)
      · exact Or.inl h
      · exact Or.inr ⟨0, by simp [h1], h2⟩
      · refine Or.inr ⟨i + 1, by simpa using h1, ?_⟩
        rw [BitVec.getLsbD_ushiftRight] at h2
        rwa [Nat.add_comm] at h2
    · rintro (h | ⟨i, h1, h2⟩)
      · exact Or.inl (Or.inl h)
      · cases i with
        | zero => simp at h1; exact Or.inl (Or.inr ⟨h1.symm, h2⟩)
        | succ i =>
          refine Or.inr ⟨i, by simpa using h1, ?_⟩
          rw [BitVec.getLsbD_ushiftRight, Nat.add_comm]; exact h2

theorem shuffleLoop_panics : ∀ (bits : List Nat) (res sidx : Word), (∃ b ∈ bits, 64 ≤ b) →
    shuffleLoop bits res sidx = none := by
  intro bits
  induction bits with
  | nil => intro _ _ h; simp at h
  | cons b bs ih =>
    intro res sidx h
    by_cases hb : b < 64
    · have : ∃ x ∈ bs, 64 ≤ x := by
        obtain ⟨x, hx, h64⟩ := h
        simp at hx
        rcases hx with rfl | hx
        · omega
        · exact ⟨x, hx, h64⟩
      simp [shuffleLoop, shl_some hb, ih _ _ this]
    · simp [shuffleLoop, shl_none (by omega : 64 ≤ b)]

/-- `shuffle_bits` for all words and all lists: bit `j` of the result is the OR of the bits `i` of
`idx` whose listed position `bits[i]` is `j`. -/
theorem shuffle_bits_bit (idx : Word) (bits : List Nat) (h : ∀ b ∈ bits, b < 64) :
    ∃ r, shuffleBits idx bits = some r ∧
      ∀ j, (r.getLsbD j = true ↔ ∃ i, bits[i]? = some j ∧ idx.getLsbD i = true) := by
  obtain ⟨r, hr, hb⟩ := shuffleLoop_spec bits 0 idx h
  refine ⟨r, hr, ?_⟩
  intro j
  have h0 : (0 : Word).getLsbD j = false := by simp
  rw [hb j, h0]; simp

theorem shuffle_bits_panics_iff (idx : Word) (bits : List Nat) :
    shuffleBits idx bits = none ↔ ∃ b ∈ bits, 64 ≤ b := by
  constructor
  · intro hnone
    apply Classical.byContradiction
    intro hne
    have hall : ∀ b ∈ bits, b < 64 := by
      intro b hb
      apply Classical.byContradiction
      intro h; exact hne ⟨b, hb, by omega⟩
    obtain ⟨r, hr, _⟩ := shuffle_bits_bit idx bits hall
    rw [hnone] at hr; cases hr
  · intro h; exact shuffleLoop_panics bits 0 idx h

theorem any_range_iff (n : Nat) (p : Nat → Bool) : (List.range n).any p = true ↔ ∃ i, i < n ∧ p i = true := by
  simp [List.any_eq_true]

theorem shuffle_bits_eq_spec (idx : Word) (bits : List Nat) (h : ∀ b ∈ bits, b < 64) :
    shuffleBits idx bits = some (Spec.Bits.shuffle idx bits) := by
  obtain ⟨r, hr, hb⟩ := shuffle_bits_bit idx bits h
  rw [hr]; congr 1
  apply word_ext
  intro j hj
  rw [Bool.eq_iff_iff, hb j]
  unfold Spec.Bits.shuffle
  rw [ofBits_getLsbD, Bool.and_eq_true, any_range_iff]
  simp only [hj, decide_true, true_and, Bool.and_eq_true, beq_iff_eq]
  constructor
  · rintro ⟨i, h1, h2⟩
    have : i < bits.length := by
      rcases Nat.lt_or_ge i bits.length with h | h
      · exact h
      · rw [List.getElem?_eq_none h] at h1; cases h1
    exact ⟨i, this, h1, h2⟩
  · rintro ⟨i, _, h1, h2⟩; exact ⟨i, h1, h2⟩

theorem reverse_bits_eq_spec (idx : Word) (n : Nat) (hn : n ≤ 64) :
    reverseBits idx n = some (Spec.Bits.reverse idx n) := by
  obtain ⟨r, hr, hb⟩ := reverse_bits_bit idx n hn
  rw [hr]; congr 1
  apply word_ext
  intro j hj
  rw [hb j]; unfold Spec.Bits.reverse; rw [ofBits_getLsbD]; simp [hj]

/-! ### single-bit writes -/

theorem writeBit_eq_some_iff {w w' : Word} {c : Nat} {v : Bool} :
    writeBit w c v = some w' ↔
      c < 64 ∧ w' = (if v then w ||| (1#64 <<< c) else w &&& ~~~(1#64 <<< c)) := by
  unfold writeBit
  by_cases h : c < 64
  · rw [shl_some h]; simp [h, eq_comm]
  · rw [shl_none (by omega)]; simp [h]

theorem writeBit_panics_iff (w : Word) (c : Nat) (v : Bool) : writeBit w c v = none ↔ 64 ≤ c := by
  unfold writeBit
  by_cases h : c < 64
  · rw [shl_some h]; simp; omega
  · rw [shl_none (by omega)]; simp; omega

/-- bit `j` of the word written by `writeBit` -/
theorem writeBit_getLsbD {w w' : Word} {c : Nat} {v : Bool} (h : writeBit w c v = some w') (j : Nat) :
    w'.getLsbD j = if j = c then v else w.getLsbD j := by
  obtain ⟨hc, rfl⟩ := writeBit_eq_some_iff.mp h
  cases v
  · simp only [Bool.false_eq_true, if_false, BitVec.getLsbD_and, BitVec.getLsbD_not, one_shl_getLsbD]
    by_cases hj : j = c
    · subst hj; simp [hc]
    · simp [hj]
      intro hw
      exact BitVec.lt_of_getLsbD hw
  · simp only [if_true, BitVec.getLsbD_or, one_shl_getLsbD]
    by_cases hj : j = c
    · subst hj; simp [hc]
    · simp [hj]

theorem writeBit_eq_spec {w : Word} {c : Nat} {v : Bool} (hc : c < 64) :
    writeBit w c v = some (Spec.Bits.write w c v) := by
  have : ∃ w', writeBit w c v = some w' := by
    cases h : writeBit w c v with
    | none => exact absurd ((writeBit_panics_iff w c v).mp h) (by omega)
    | some w' => exact ⟨w', rfl⟩
  obtain ⟨w', hw⟩ := this
  rw [hw]; congr 1
  apply word_ext
  intro j hj
  rw [writeBit_getLsbD hw j]; unfold Spec.Bits.write; rw [ofBits_getLsbD]; simp [hj]

/-! ### masks -/

theorem maskLoop_spec : ∀ (bits : List Nat) (m0 : Word), (∀ b ∈ bits, b < 64) →
    ∃ m, maskLoop bits m0 = some m ∧ ∀ j, (m.getLsbD j = true ↔ (m0.getLsbD j = true ∨ j ∈ bits)) := by
  intro bits
  induction bits with
  | nil => intro m0 _; exact ⟨m0, rfl, by simp⟩
  | cons b bs ih =>
    intro m0 hb
    have hb0 : b < 64 := hb b (by simp)
    obtain ⟨m, hm, hbits⟩ := ih (m0 ||| (1#64 <<< b)) (fun x hx => hb x (by simp [hx]))
    refine ⟨m, by simp [maskLoop, shl_some hb0, hm], ?_⟩
    intro j
    rw [hbits j, BitVec.getLsbD_or, Bool.or_eq_true, one_shl_getLsbD]
    simp only [Bool.and_eq_true, decide_eq_true_eq, List.mem_cons]
    constructor
    · rintro ((h | ⟨_, h⟩) | h)
      · exact Or.inl h
      · exact Or.inr (Or.inl h)
      · exact Or.inr (Or.inr h)
    · rintro (h | h | h)
      · exact Or.inl (Or.inl h)
      · exact Or.inl (Or.inr ⟨by omega, h⟩)
      · exact Or.inr h

theorem maskLoop_panics : ∀ (bits : List Nat) (m0 : Word), (∃ b ∈ bits, 64 ≤ b) → maskLoop bits m0 = none := by
  intro bits
  induction bits with
  | nil => intro _ h; simp at h
  | cons b bs ih =>
    intro m0 h
    by_cases hb : b < 64
    · have : ∃ x ∈ bs, 64 ≤ x := by
        obtain ⟨x, hx, h64⟩ := h
        simp at hx
        rcases hx with rfl | hx
        · omega
        · exact ⟨x, hx, h64⟩
      simp [maskLoop, shl_some hb, ih _ this]
    · simp [maskLoop, shl_none (by omega : 64 ≤ b)]

theorem orMask_spec (bits : List Nat) (h : ∀ b ∈ bits, b < 64) :
    ∃ m, orMask bits = some m ∧ ∀ j, (m.getLsbD j = true ↔ j ∈ bits) := by
  obtain ⟨m, hm, hb⟩ := maskLoop_spec bits 0 h
  refine ⟨m, hm, ?_⟩
  intro j
  have h0 : (0 : Word).getLsbD j = false := by simp
  rw [hb j, h0]; simp

/-! ### basis-state index -/

theorem idx_foldl_getLsbD : ∀ (qs : List Bool) (acc : Word) (k : Nat), k < 64 →
    (qs.foldl (fun (acc : Word) (b : Bool) => (acc <<< 1) ||| (if b then 1#64 else 0#64)) acc).getLsbD k =
      if h : k < qs.length then qs[qs.length - 1 - k] else acc.getLsbD (k - qs.length) := by
  intro qs
  induction qs with
  | nil => intro acc k _; simp
  | cons q qs ih =>
    intro acc k hk
    rw [List.foldl_cons, ih _ k hk]
    by_cases h1 : k < qs.length
    · have h2 : k < (q :: qs).length := by simp; omega
      simp only [h1, h2, dite_true]
      have e : (q :: qs).length - 1 - k = (qs.length - 1 - k) + 1 := by simp; omega
      have : ∀ (i j : Nat) (hi : i < (q :: qs).length) (hj : j < qs.length), i = j + 1 → (q :: qs)[i] = qs[j] := by
        intro i j hi hj hij; subst hij; simp
      exact (this _ _ _ _ e).symm
    · simp only [h1, dite_false]
      by_cases h3 : k = qs.length
      · have h2 : k < (q :: qs).length := by simp; omega
        simp only [h2, dite_true]
        have e : (q :: qs).length - 1 - k = 0 := by simp; omega
        simp only [e, List.getElem_cons_zero]
        have e2 : k - qs.length = 0 := by omega
        rw [e2, BitVec.getLsbD_or, BitVec.getLsbD_shiftLeft]
        cases q <;> simp
      · have h2 : ¬ k < (q :: qs).length := by simp; omega
        simp only [h2, dite_false]
        rw [BitVec.getLsbD_or, BitVec.getLsbD_shiftLeft]
        have e1 : k - qs.length < 64 := by omega
        have e2 : ¬ (k - qs.length < 1) := by omega
        have e3 : k - qs.length - 1 = k - (q :: qs).length := by simp; omega
        have e4 : (if q then 1#64 else 0#64).getLsbD (k - qs.length) = false := by
          cases q
          · simp
          · simp [BitVec.getLsbD_one]; omega
        rw [e4]; simp [e1, e2, e3]

/-- bit `k` of the basis-state index is qubit `n-1-k` (qubit 0 is the most significant) -/
theorem idxOfQubits_getLsbD (qs : List Bool) (k : Nat) (hn : qs.length ≤ 64) :
    (idxOfQubits qs).getLsbD k = if h : k < qs.length then qs[qs.length - 1 - k] else false := by
  by_cases hk : k < 64
  · have := idx_foldl_getLsbD qs 0 k hk
    unfold idxOfQubits
    have e : (fun (acc : Word) (b : Bool) => acc <<< 1 ||| if b = true then 1 else 0) =
             (fun (acc : Word) (b : Bool) => acc <<< 1 ||| if b = true then 1#64 else 0#64) := rfl
    rw [e, this]
    split
    · rfl
    · simp
  · have : ¬ k < qs.length := by omega
    rw [BitVec.getLsbD_of_ge _ k (by omega)]; simp [this]

/-! ### multi-bit writes -/

/-- "OR semantics" of a multi-bit write: the listed bits are cleared, then bit `j` receives the OR of
the values `val i` over all positions `i` of the list that name `j`; unlisted bits are kept. -/
def OrSem (w w' : Word) (cbits : List Nat) (val : Nat → Bool) : Prop :=
  ∀ j, (w'.getLsbD j = true ↔ ((w.getLsbD j = true ∧ j ∉ cbits) ∨ ∃ i, cbits[i]? = some j ∧ val i = true))

theorem measureAllVecWord_orSem (n : Nat) (cbits : List Nat) (qs : List Bool) (w : Word)
    (hn : qs.length = n) (hn64 : n ≤ 64) (hc : ∀ c ∈ cbits, c < 64) :
    ∃ w', measureAllVecWord n cbits (idxOfQubits qs) w = some w' ∧
      OrSem w w' cbits (fun i => qs.getD i false) := by
  obtain ⟨m, hm, hmb⟩ := orMask_spec cbits hc
  obtain ⟨rev, hrev, hrb⟩ := reverse_bits_bit (idxOfQubits qs) n hn64
  obtain ⟨perm, hperm, hpb⟩ := shuffle_bits_bit rev cbits hc
  refine ⟨(w &&& ~~~m) ||| perm, by simp [measureAllVecWord, hm, hrev, hperm], ?_⟩
  intro j
  rw [BitVec.getLsbD_or, Bool.or_eq_true, BitVec.getLsbD_and, Bool.and_eq_true, BitVec.getLsbD_not,
    Bool.and_eq_true, hpb j]
  have hrevbit : ∀ i, rev.getLsbD i = (decide (i < n) && qs.getD i false) := by
    intro i
    rw [hrb i, idxOfQubits_getLsbD qs _ (by omega)]
    by_cases hi : i < n
    · have h1 : n - 1 - i < qs.length := by omega
      have h2 : qs.length - 1 - (n - 1 - i) = i := by omega
      simp only [hi, decide_true, Bool.true_and, h1, dite_true]
      rw [List.getD_eq_getElem?_getD, List.getElem?_eq_getElem (by omega)]
      simp [h2]
    · simp [hi]
  constructor
  · rintro (⟨hw, hj, hm'⟩ | ⟨i, h1, h2⟩)
    · left; refine ⟨hw, ?_⟩
      intro hmem
      have := (hmb j).mpr hmem
      simp [this] at hm'
    · right
      rw [hrevbit i] at h2
      simp only [Bool.and_eq_true, decide_eq_true_eq] at h2
      exact ⟨i, h1, h2.2⟩
  · rintro (⟨hw, hj⟩ | ⟨i, h1, h2⟩)
    · left
      refine ⟨hw, by simpa using BitVec.lt_of_getLsbD hw, ?_⟩
      cases hmj : m.getLsbD j with
      | false => rfl
      | true => exact absurd ((hmb j).mp hmj) hj
    · right
      refine ⟨i, h1, ?_⟩
      rw [hrevbit i]
      have hi : i < n := by
        rcases Nat.lt_or_ge i qs.length with h | h
        · omega
        · have h2' : qs.getD i false = true := h2
          rw [List.getD_eq_getElem?_getD, List.getElem?_eq_none h] at h2'; cases h2'
      have h2' : qs.getD i false = true := h2
      rw [h2']; simp [hi]

theorem spec_write_getLsbD (w : Word) (c : Nat) (v : Bool) (j : Nat) :
    (Spec.Bits.write w c v).getLsbD j = (decide (j < 64) && if j = c then v else w.getLsbD j) := by
  unfold Spec.Bits.write; rw [ofBits_getLsbD]

/-- unlisted bits are kept by the reference multi-bit write -/
theorem writeAll_frame (outcome : Nat → Bool) : ∀ (cbits : List Nat) (q : Nat) (w : Word) (j : Nat),
    j ∉ cbits → (Spec.Bits.writeAll outcome cbits q w).getLsbD j = w.getLsbD j := by
  intro cbits
  induction cbits with
  | nil => intro q w j _; rfl
  | cons c cs ih =>
    intro q w j hj
    simp only [List.mem_cons, not_or] at hj
    rw [Spec.Bits.writeAll, ih _ _ _ hj.2, spec_write_getLsbD]
    simp only [hj.1, if_false]
    by_cases h : j < 64
    · simp [h]
    · simp [h, BitVec.getLsbD_of_ge w j (by omega)]

/-- later write wins: the bit named at position `i`, and at no later position, holds `outcome (q+i)` -/
theorem writeAll_last (outcome : Nat → Bool) : ∀ (cbits : List Nat) (q : Nat) (w : Word) (i j : Nat),
    j < 64 → cbits[i]? = some j → (∀ i', i < i' → cbits[i']? ≠ some j) →
    (Spec.Bits.writeAll outcome cbits q w).getLsbD j = outcome (q + i) := by
  intro cbits
  induction cbits with
  | nil => intro q w i j _ h; simp at h
  | cons c cs ih =>
    intro q w i j hj hi hlast
    rw [Spec.Bits.writeAll]
    cases i with
    | zero =>
      simp at hi; subst hi
      have hnot : c ∉ cs := by
        intro hmem
        obtain ⟨k, hk, hkc⟩ := List.getElem_of_mem hmem
        exact hlast (k + 1) (by omega) (by simp [hk, hkc])
      rw [writeAll_frame _ _ _ _ _ hnot, spec_write_getLsbD]; simp [hj]
    | succ i =>
      have := ih (q + 1) (Spec.Bits.write w c (outcome q)) i j hj (by simpa using hi)
        (fun i' hi' => by have := hlast (i' + 1) (by omega); simpa using this)
      rw [this]; congr 1; omega

theorem writeAll_nodup (outcome : Nat → Bool) (cbits : List Nat) (q : Nat) (w : Word) (i j : Nat)
    (hnd : cbits.Nodup) (hj : j < 64) (hi : cbits[i]? = some j) :
    (Spec.Bits.writeAll outcome cbits q w).getLsbD j = outcome (q + i) := by
  apply writeAll_last outcome cbits q w i j hj hi
  intro i' hlt h'
  have h1 : i < cbits.length := by
    rcases Nat.lt_or_ge i cbits.length with h | h
    · exact h
    · rw [List.getElem?_eq_none h] at hi; cases hi
  have h2 : i' < cbits.length := by
    rcases Nat.lt_or_ge i' cbits.length with h | h
    · exact h
    · rw [List.getElem?_eq_none h] at h'; cases h'
  rw [List.getElem?_eq_getElem h1] at hi
  rw [List.getElem?_eq_getElem h2] at h'
  have e : cbits[i] = cbits[i'] := by
    injection hi with hi; injection h' with h'; rw [hi, h']
  have := (List.getElem_inj hnd).mp e
  omega

/-- the stabilizer backend's `measure_all_into`, one shot: it *is* the sequence of single writes -/
theorem measureAllStabLoop_eq_spec (n : Nat) (outcome : Nat → Bool) : ∀ (cbits : List Nat) (q : Nat) (w : Word),
    q + cbits.length ≤ n → (∀ c ∈ cbits, c < 64) →
    measureAllStabLoop n outcome cbits q w = .ok (Spec.Bits.writeAll outcome cbits q w) := by
  intro cbits
  induction cbits with
  | nil => intro q w _ _; rfl
  | cons c cs ih =>
    intro q w hq hc
    have h1 : ¬ q ≥ n := by simp at hq; omega
    have hc0 : c < 64 := hc c (by simp)
    rw [measureAllStabLoop, if_neg h1, writeBit_eq_spec hc0]
    simp only
    rw [ih (q + 1) _ (by simp at hq; omega) (fun x hx => hc x (by simp [hx]))]
    rfl

/-- a list longer than the number of qubits runs into `InvalidQBit(n)` -/
theorem measureAllStabLoop_too_long (n : Nat) (outcome : Nat → Bool) : ∀ (cbits : List Nat) (q : Nat) (w : Word),
    q ≤ n → n < q + cbits.length → (∀ c ∈ cbits, c < 64) →
    measureAllStabLoop n outcome cbits q w = .err "InvalidQBit" [n] := by
  intro cbits
  induction cbits with
  | nil => intro q w h1 h2 _; simp at h2; omega
  | cons c cs ih =>
    intro q w h1 h2 hc
    rw [measureAllStabLoop]
    by_cases hq : q ≥ n
    · have : q = n := by omega
      rw [if_pos hq, this]
    · have hc0 : c < 64 := hc c (by simp)
      rw [if_neg hq, writeBit_eq_spec hc0]
      simp only
      exact ih (q + 1) _ (by omega) (by simp at h2; omega) (fun x hx => hc x (by simp [hx]))

theorem peekAllStabIdx_spec (outcome : Nat → Bool) : ∀ (cbits : List Nat) (q : Nat) (idx : Word),
    (∀ c ∈ cbits, c < 64) →
    ∃ r, peekAllStabIdx outcome cbits q idx = some r ∧
      ∀ j, (r.getLsbD j = true ↔ (idx.getLsbD j = true ∨ ∃ i, cbits[i]? = some j ∧ outcome (q + i) = true)) := by
  intro cbits
  induction cbits with
  | nil => intro q idx _; exact ⟨idx, rfl, by simp⟩
  | cons c cs ih =>
    intro q idx hc
    have hc0 : c < 64 := hc c (by simp)
    have hcs : ∀ x ∈ cs, x < 64 := fun x hx => hc x (by simp [hx])
    by_cases ho : outcome q = true
    · obtain ⟨r, hr, hb⟩ := ih (q + 1) (idx ||| (1#64 <<< c)) hcs
      refine ⟨r, by simp [peekAllStabIdx, ho, shl_some hc0, hr], ?_⟩
      intro j
      rw [hb j, BitVec.getLsbD_or, Bool.or_eq_true, one_shl_getLsbD]
      simp only [Bool.and_eq_true, decide_eq_true_eq]
      constructor
      · rintro ((h | ⟨_, h⟩) | ⟨i, h1, h2⟩)
        · exact Or.inl h
        · exact Or.inr ⟨0, by simp [h], by simpa using ho⟩
        · exact Or.inr ⟨i + 1, by simpa using h1, by rw [← h2]; congr 1; omega⟩
      · rintro (h | ⟨i, h1, h2⟩)
        · exact Or.inl (Or.inl h)
        · cases i with
          | zero => simp at h1; exact Or.inl (Or.inr ⟨by omega, h1.symm⟩)
          | succ i => exact Or.inr ⟨i, by simpa using h1, by rw [← h2]; congr 1; omega⟩
    · obtain ⟨r, hr, hb⟩ := ih (q + 1) idx hcs
      refine ⟨r, by simp [peekAllStabIdx, ho, hr], ?_⟩
      intro j
      rw [hb j]
      constructor
      · rintro (h | ⟨i, h1, h2⟩)
        · exact Or.inl h
        · exact Or.inr ⟨i + 1, by simpa using h1, by rw [← h2]; congr 1; omega⟩
      · rintro (h | ⟨i, h1, h2⟩)
        · exact Or.inl h
        · cases i with
          | zero => simp at h2; exact absurd h2 ho
          | succ i => exact Or.inr ⟨i, by simpa using h1, by rw [← h2]; congr 1; omega⟩

theorem peekAllStabWord_orSem (cbits : List Nat) (outcome : Nat → Bool) (w : Word) (hc : ∀ c ∈ cbits, c < 64) :
    ∃ w', peekAllStabWord cbits outcome w = some w' ∧ OrSem w w' cbits outcome := by
  obtain ⟨m, hm, hmb⟩ := orMask_spec cbits hc
  obtain ⟨idx, hidx, hib⟩ := peekAllStabIdx_spec outcome cbits 0 0 hc
  refine ⟨(w &&& ~~~m) ||| idx, by unfold peekAllStabWord; rw [hm]; simp only; rw [hidx], ?_⟩
  intro j
  have h0 : (0 : Word).getLsbD j = false := by simp
  rw [BitVec.getLsbD_or, Bool.or_eq_true, BitVec.getLsbD_and, Bool.and_eq_true, BitVec.getLsbD_not,
    Bool.and_eq_true, hib j, h0]
  simp only [Bool.false_eq_true, false_or, Nat.zero_add]
  constructor
  · rintro (⟨hw, hj, hm'⟩ | h)
    · left; refine ⟨hw, ?_⟩
      intro hmem
      have := (hmb j).mpr hmem
      simp [this] at hm'
    · exact Or.inr h
  · rintro (⟨hw, hj⟩ | h)
    · left
      refine ⟨hw, by simpa using BitVec.lt_of_getLsbD hw, ?_⟩
      cases hmj : m.getLsbD j with
      | false => rfl
      | true => exact absurd ((hmb j).mp hmj) hj
    · exact Or.inr h

/-- With distinct listed bits the OR semantics is the reference semantics. -/
theorem orSem_nodup_eq_writeAll (w w' : Word) (cbits : List Nat) (val : Nat → Bool)
    (hnd : cbits.Nodup) (h : OrSem w w' cbits val) :
    w' = Spec.Bits.writeAll val cbits 0 w := by
  apply word_ext
  intro j hj
  by_cases hmem : j ∈ cbits
  · obtain ⟨i, hi, hij⟩ := List.getElem_of_mem hmem
    have hi' : cbits[i]? = some j := by rw [List.getElem?_eq_getElem hi, hij]
    rw [writeAll_nodup val cbits 0 w i j hnd hj hi', Nat.zero_add, Bool.eq_iff_iff, h j]
    constructor
    · rintro (⟨_, hn⟩ | ⟨i2, h1, h2⟩)
      · exact absurd hmem hn
      · have hi2 : i2 < cbits.length := by
          rcases Nat.lt_or_ge i2 cbits.length with h | h
          · exact h
          · rw [List.getElem?_eq_none h] at h1; cases h1
        rw [List.getElem?_eq_getElem hi2] at h1
        injection h1 with h1
        have : i2 = i := (List.getElem_inj hnd).mp (by rw [h1, hij])
        rw [← this]; exact h2
    · intro hv; exact Or.inr ⟨i, hi', hv⟩
  · rw [writeAll_frame _ _ _ _ _ hmem, Bool.eq_iff_iff, h j]
    constructor
    · rintro (⟨hw, _⟩ | ⟨i, h1, _⟩)
      · exact hw
      · exact absurd (List.mem_of_getElem? h1) hmem
    · intro hw; exact Or.inl ⟨hw, hmem⟩

/-! ### control-word gather -/

theorem shr_some {x : Word} {k : Nat} (h : k < 64) : shr x k = some (x >>> k) := by simp [shr, h]
theorem shr_none {x : Word} {k : Nat} (h : 64 ≤ k) : shr x k = none := by
  have : ¬ k < 64 := by omega
  simp [shr, this]

theorem gatherLoop_spec (sb : Word) : ∀ (control : List Nat) (idst : Nat) (db : Word),
    (∀ c ∈ control, c < 64) → idst + control.length ≤ 64 →
    ∃ r, gatherLoop sb control idst db = some r ∧
      ∀ j, (r.getLsbD j = true ↔ (db.getLsbD j = true ∨
        ∃ i c, control[i]? = some c ∧ j = idst + i ∧ sb.getLsbD c = true)) := by
  intro control
  induction control with
  | nil => intro idst db _ _; exact ⟨db, rfl, by simp⟩
  | cons c cs ih =>
    intro idst db hc hlen
    have hc0 : c < 64 := hc c (by simp)
    have hd : idst < 64 := by simp at hlen; omega
    obtain ⟨r, hr, hb⟩ := ih (idst + 1) (db ||| (((sb >>> c) &&& 1#64) <<< idst))
      (fun x hx => hc x (by simp [hx])) (by simp at hlen; omega)
    refine ⟨r, by simp [gatherLoop, shr_some hc0, shl_some hd, hr], ?_⟩
    intro j
    rw [hb j, BitVec.getLsbD_or, Bool.or_eq_true, and_one_shl_iff _ _ _ hd, BitVec.getLsbD_ushiftRight]
    constructor
    · rintro ((h | ⟨h1, h2⟩) | ⟨i, c', h1, h2, h3⟩)
      · exact Or.inl h
      · exact Or.inr ⟨0, c, by simp, by omega, by simpa using h2⟩
      · exact Or.inr ⟨i + 1, c', by simpa using h1, by omega, h3⟩
    · rintro (h | ⟨i, c', h1, h2, h3⟩)
      · exact Or.inl (Or.inl h)
      · cases i with
        | zero =>
          simp at h1; subst h1
          exact Or.inl (Or.inr ⟨by omega, by simpa using h3⟩)
        | succ i => exact Or.inr ⟨i, c', by simpa using h1, by omega, h3⟩

/-- **control_word_bit**: bit `j` of the gathered word is bit `control[j]` of the register word;
the first listed control bit is the least significant; bits beyond the list are 0. -/
theorem control_word_bit (control : List Nat) (sb : Word)
    (hc : ∀ c ∈ control, c < 64) (hlen : control.length ≤ 64) :
    ∃ cw, controlWord control sb = some cw ∧
      ∀ j, cw.getLsbD j = match control[j]? with | some c => sb.getLsbD c | none => false := by
  obtain ⟨r, hr, hb⟩ := gatherLoop_spec sb control 0 0 hc (by omega)
  refine ⟨r, hr, ?_⟩
  intro j
  have h0 : (0 : Word).getLsbD j = false := by simp
  rw [Bool.eq_iff_iff, hb j, h0]
  simp only [Bool.false_eq_true, false_or, Nat.zero_add]
  constructor
  · rintro ⟨i, c, h1, h2, h3⟩
    subst h2; rw [h1]; exact h3
  · intro h
    cases hj : control[j]? with
    | none => rw [hj] at h; cases h
    | some c => rw [hj] at h; exact ⟨j, c, hj, rfl, h⟩

theorem controlWord_eq_select (control : List Nat) (sb : Word)
    (hc : ∀ c ∈ control, c < 64) (hlen : control.length ≤ 64) :
    controlWord control sb = some (Spec.Bits.select control sb) := by
  obtain ⟨cw, h1, h2⟩ := control_word_bit control sb hc hlen
  rw [h1]; congr 1
  apply word_ext
  intro j hj
  rw [h2 j]; unfold Spec.Bits.select; rw [ofBits_getLsbD]
  simp only [hj, decide_true, Bool.true_and]
  cases control[j]? <;> rfl

/-- empty control list: the control word is 0 -/
theorem controlWord_nil (sb : Word) : controlWord [] sb = some 0 := rfl

/-- a control index ≥ 64 overflows `sb >> isrc` -/
theorem gatherLoop_big_index (sb : Word) : ∀ (control : List Nat) (idst : Nat) (db : Word),
    (∃ c ∈ control, 64 ≤ c) → gatherLoop sb control idst db = none := by
  intro control
  induction control with
  | nil => intro _ _ h; simp at h
  | cons c cs ih =>
    intro idst db h
    by_cases hc : c < 64
    · have : ∃ x ∈ cs, 64 ≤ x := by
        obtain ⟨x, hx, h64⟩ := h
        simp at hx
        rcases hx with rfl | hx
        · omega
        · exact ⟨x, hx, h64⟩
      rw [gatherLoop, shr_some hc]
      simp only
      cases hs : shl ((sb >>> c) &&& 1) idst with
      | none => rfl
      | some x => simp only; exact ih _ _ this
    · simp [gatherLoop, shr_none (by omega : 64 ≤ c)]

/-- more than 64 control bits overflow `<< idst` -/
theorem gatherLoop_too_long (sb : Word) : ∀ (control : List Nat) (idst : Nat) (db : Word),
    64 < idst + control.length → idst ≤ 64 → gatherLoop sb control idst db = none := by
  intro control
  induction control with
  | nil => intro idst db h h2; simp at h; omega
  | cons c cs ih =>
    intro idst db h h2
    rw [gatherLoop]
    cases hs : shr sb c with
    | none => rfl
    | some s =>
      simp only
      by_cases hd : idst < 64
      · rw [shl_some hd]; simp only
        exact ih _ _ (by simp at h; omega) (by omega)
      · rw [shl_none (by omega)]

theorem controlWord_none_iff (control : List Nat) (sb : Word) :
    controlWord control sb = none ↔ ((∃ c ∈ control, 64 ≤ c) ∨ 64 < control.length) := by
  constructor
  · intro hnone
    apply Classical.byContradiction
    intro hne
    have hall : ∀ c ∈ control, c < 64 := by
      intro c hc
      apply Classical.byContradiction
      intro h; exact hne (Or.inl ⟨c, hc, by omega⟩)
    have hlen : control.length ≤ 64 := by
      apply Classical.byContradiction
      intro h; exact hne (Or.inr (by omega))
    obtain ⟨r, hr, _⟩ := control_word_bit control sb hall hlen
    rw [hnone] at hr; cases hr
  · rintro (h | h)
    · exact gatherLoop_big_index sb control 0 0 h
    · exact gatherLoop_too_long sb control 0 0 (by omega) (by omega)

end Q1t.Proofs.Bits

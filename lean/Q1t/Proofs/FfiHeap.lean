import Q1t.Model.Ffi
/-!
Ownership proofs for the model of ffi.rs (C19): `CResult::free` releases exactly the blocks a result
owns, with the layouts they were allocated with; a second free faults; building a result allocates
exactly the blocks it owns.
-/
namespace Q1t.Ffi

/-- ids of live blocks are pairwise different -/
def UniqueIds (h : Heap) : Prop := (h.map (·.id)).Nodup

/-- well-formed allocator state: unique ids, all below the counter -/
structure HeapSt.WF (m : HeapSt) : Prop where
  unique : UniqueIds m.heap
  below : ∀ b ∈ m.heap, b.id < m.next

/-- release a list of blocks one after the other -/
def freeList (h : Heap) : List Block → Except Fault Heap
  | [] => .ok h
  | b :: bs =>
    match dealloc h (.blk b.id) b.size b.align with
    | .error f => .error f
    | .ok h' => freeList h' bs

def removeIds (h : Heap) (ids : List Nat) : Heap := h.filter (fun b => !ids.contains b.id)

theorem uniqueIds_filter {h : Heap} (p : Block → Bool) (hu : UniqueIds h) : UniqueIds (h.filter p) := by
  unfold UniqueIds at *
  exact List.Nodup.sublist (List.Sublist.map _ List.filter_sublist) hu

theorem eq_of_mem_of_id {h : Heap} (hu : UniqueIds h) {a b : Block} (ha : a ∈ h) (hb : b ∈ h)
    (hid : a.id = b.id) : a = b := by
  induction h with
  | nil => cases ha
  | cons x xs ih =>
    unfold UniqueIds at hu
    simp only [List.map_cons, List.nodup_cons, List.mem_map, not_exists, not_and] at hu
    have hx := hu.1
    rcases List.mem_cons.mp ha with rfl | ha'
    · rcases List.mem_cons.mp hb with rfl | hb'
      · rfl
      · exact absurd hid.symm (hx b hb')
    · rcases List.mem_cons.mp hb with rfl | hb'
      · exact absurd hid (hx a ha')
      · exact ih hu.2 ha' hb'

theorem findBlock_of_mem {h : Heap} (hu : UniqueIds h) {b : Block} (hb : b ∈ h) : findBlock h b.id = some b := by
  unfold findBlock
  cases hf : h.find? (fun x => x.id == b.id) with
  | none =>
    have := List.find?_eq_none.mp hf b hb
    simp at this
  | some x =>
    have hx := List.mem_of_find?_eq_some hf
    have hp := List.find?_some hf
    simp only [beq_iff_eq] at hp
    rw [eq_of_mem_of_id hu hx hb hp]

theorem findBlock_none {h : Heap} {id : Nat} (hn : ∀ b ∈ h, b.id ≠ id) : findBlock h id = none := by
  unfold findBlock
  apply List.find?_eq_none.mpr
  intro x hx
  simp only [beq_iff_eq]
  exact hn x hx

/-- releasing a live block with the layout it has succeeds and removes exactly that block -/
theorem dealloc_mem {h : Heap} (hu : UniqueIds h) {b : Block} (hb : b ∈ h) :
    dealloc h (.blk b.id) b.size b.align = .ok (h.filter (fun x => x.id != b.id)) := by
  unfold dealloc
  simp [findBlock_of_mem hu hb]

/-- releasing a live block with another layout is a fault -/
theorem dealloc_layout {h : Heap} (hu : UniqueIds h) {b : Block} (hb : b ∈ h) {s a : Nat}
    (hne : ¬ (b.size = s ∧ b.align = a)) :
    dealloc h (.blk b.id) s a = .error (.layout b.id s a) := by
  unfold dealloc
  simp [findBlock_of_mem hu hb, hne]

/-- releasing something that is not live is a fault (double free, wild free) -/
theorem dealloc_notLive {h : Heap} {id s a : Nat} (hn : ∀ b ∈ h, b.id ≠ id) :
    dealloc h (.blk id) s a = .error (.notLive (.blk id)) := by
  unfold dealloc
  simp [findBlock_none hn]

theorem removeIds_nil (h : Heap) : removeIds h [] = h := by
  unfold removeIds
  simp

theorem removeIds_cons (h : Heap) (i : Nat) (is : List Nat) :
    removeIds (h.filter (fun x => x.id != i)) is = removeIds h (i :: is) := by
  unfold removeIds
  rw [List.filter_filter]
  apply List.filter_congr
  intro x _
  by_cases hxi : x.id = i
  · simp [hxi]
  · have : (i == x.id) = false := by simp; exact fun h => hxi h.symm
    simp [hxi, List.contains_cons, this, Bool.and_comm]

/-- Releasing pairwise different live blocks, each with its own layout, succeeds and removes exactly them. -/
theorem freeList_ok {h : Heap} (hu : UniqueIds h) {bs : List Block} (hsub : ∀ b ∈ bs, b ∈ h)
    (hnd : (bs.map (·.id)).Nodup) :
    freeList h bs = .ok (removeIds h (bs.map (·.id))) := by
  induction bs generalizing h with
  | nil => simp [freeList, removeIds_nil]
  | cons b bs ih =>
    simp only [List.map_cons, List.nodup_cons, List.mem_map, not_exists, not_and] at hnd
    have hb : b ∈ h := hsub b (List.mem_cons_self)
    simp only [freeList, dealloc_mem hu hb]
    have hu' := uniqueIds_filter (fun x => x.id != b.id) hu
    have hsub' : ∀ x ∈ bs, x ∈ h.filter (fun x => x.id != b.id) := by
      intro x hx
      refine List.mem_filter.mpr ⟨hsub x (List.mem_cons_of_mem _ hx), ?_⟩
      simp only [bne_iff_ne, ne_eq]
      exact fun hc => hnd.1 x hx hc
    rw [ih hu' hsub' hnd.2, List.map_cons, removeIds_cons]

/-- After a successful release of a non-empty list of blocks, releasing the same list again faults on
its first block: that block is no longer live. -/
theorem freeList_twice {h : Heap} (hu : UniqueIds h) {b : Block} {bs : List Block}
    (hsub : ∀ x ∈ b :: bs, x ∈ h) (hnd : ((b :: bs).map (·.id)).Nodup) :
    ∃ h', freeList h (b :: bs) = .ok h' ∧ freeList h' (b :: bs) = .error (.notLive (.blk b.id)) := by
  refine ⟨_, freeList_ok hu hsub hnd, ?_⟩
  simp only [freeList]
  rw [dealloc_notLive]
  intro x hx
  have := (List.mem_filter.mp hx).2
  simp only [List.map_cons, List.contains_cons, Bool.not_or, Bool.and_eq_true, Bool.not_eq_eq_eq_not,
    Bool.not_true, beq_eq_false_iff_ne, ne_eq] at this
  exact this.1

theorem freeList_append (h : Heap) (xs ys : List Block) :
    freeList h (xs ++ ys) = (match freeList h xs with | .error f => .error f | .ok h' => freeList h' ys) := by
  induction xs generalizing h with
  | nil => simp [freeList]
  | cons x xs ih =>
    simp only [List.cons_append, freeList]
    cases dealloc h (.blk x.id) x.size x.align with
    | error f => rfl
    | ok h' => exact ih h'

theorem removeIds_perm_ids (h : Heap) {is js : List Nat} (hp : ∀ i, i ∈ is ↔ i ∈ js) :
    removeIds h is = removeIds h js := by
  unfold removeIds
  apply List.filter_congr
  intro x _
  have : is.contains x.id = js.contains x.id := by
    rw [Bool.eq_iff_iff]; simp [hp]
  rw [this]

end Q1t.Ffi

namespace Q1t.Ffi
open CResult

/-- every pointer a result claims to own is a real block (not NULL, not dangling) -/
def AllBlk (r : CResult) : Prop := ∀ x ∈ owned r, ∃ id, x.1 = .blk id

/-- a result whose blocks are all live in `h`, pairwise different -/
structure Valid (h : Heap) (r : CResult) : Prop where
  allBlk : AllBlk r
  live : ∀ b ∈ ownedBlocks r, b ∈ h
  nodup : ((ownedBlocks r).map (·.id)).Nodup

def keyBlock (e : HistElem) : Block := ⟨ptrId e.key, strlen e.keyText + 1, 1⟩

theorem freeKeys_eq (h : Heap) (es : List HistElem) (hk : ∀ e ∈ es, ∃ id, e.key = .blk id) :
    freeKeys h es = freeList h (es.map keyBlock) := by
  induction es generalizing h with
  | nil => rfl
  | cons e es ih =>
    obtain ⟨id, hid⟩ := hk e List.mem_cons_self
    simp only [freeKeys, cstringFree, List.map_cons, freeList, keyBlock, hid, ptrId]
    cases dealloc h (.blk id) (strlen e.keyText + 1) 1 with
    | error f => rfl
    | ok h' =>
      simp only
      have := ih h' (fun e' he' => hk e' (List.mem_cons_of_mem _ he'))
      simpa [keyBlock] using this

theorem vecDrop_eq (h : Heap) (id cap es al : Nat) :
    vecDrop h (.blk id) cap es al = freeList h (if cap * es = 0 then [] else [⟨id, cap * es, al⟩]) := by
  unfold vecDrop
  by_cases hc : cap * es = 0
  · simp [hc, freeList]
  · simp only [hc, if_false, freeList]
    cases dealloc h (.blk id) (cap * es) al <;> rfl

/-- the blocks in the order `CResult::free` releases them -/
def freeBlocks (r : CResult) : List Block :=
  if r.restype = RESULT_ERROR ∨ r.restype = RESULT_STRING then
    [⟨ptrId r.data, strlen (viewText r.mem) + 1, 1⟩]
  else if r.restype = RESULT_HISTOGRAM then
    ((viewElems r.mem).take r.length).map keyBlock ++
      (if r.size * HIST_ELEM_SIZE = 0 then [] else [⟨ptrId r.data, r.size * HIST_ELEM_SIZE, HIST_ELEM_ALIGN⟩])
  else if r.restype = RESULT_CSTATE then
    (if r.size * U64_SIZE = 0 then [] else [⟨ptrId r.data, r.size * U64_SIZE, U64_ALIGN⟩])
  else []

theorem freeBlocks_perm (r : CResult) : (freeBlocks r).Perm (ownedBlocks r) := by
  unfold freeBlocks ownedBlocks owned
  by_cases h1 : r.restype = RESULT_ERROR ∨ r.restype = RESULT_STRING
  · rw [if_pos h1, if_pos h1]; simp
  · rw [if_neg h1, if_neg h1]
    by_cases h2 : r.restype = RESULT_HISTOGRAM
    · rw [if_pos h2, if_pos h2]
      have hk : ((viewElems r.mem).take r.length).map keyBlock =
          List.map (fun x => (⟨ptrId x.1, x.2.1, x.2.2⟩ : Block))
            (((viewElems r.mem).take r.length).map fun e => (e.key, strlen e.keyText + 1, 1)) := by
        rw [List.map_map]; rfl
      rw [hk, List.map_append]
      by_cases hz : r.size * HIST_ELEM_SIZE = 0
      · rw [if_pos hz, if_pos hz]; simp
      · rw [if_neg hz, if_neg hz]
        exact List.perm_append_comm
    · rw [if_neg h2, if_neg h2]
      by_cases h3 : r.restype = RESULT_CSTATE
      · rw [if_pos h3, if_pos h3]
        by_cases hz : r.size * U64_SIZE = 0
        · rw [if_pos hz, if_pos hz]; simp
        · rw [if_neg hz, if_neg hz]; simp
      · rw [if_neg h3, if_neg h3]; simp

theorem mem_freeBlocks_iff (r : CResult) (b : Block) : b ∈ freeBlocks r ↔ b ∈ ownedBlocks r :=
  (freeBlocks_perm r).mem_iff

/-- `CResult::free` is the sequential release of `freeBlocks` -/
theorem free_eq_freeList (h : Heap) (r : CResult) (ha : AllBlk r) :
    free h r = freeList h (freeBlocks r) := by
  unfold free freeBlocks
  unfold AllBlk owned at ha
  by_cases h1 : r.restype = RESULT_ERROR ∨ r.restype = RESULT_STRING
  · rw [if_pos h1] at ha
    rw [if_pos h1, if_pos h1]
    obtain ⟨id, hid⟩ := ha _ (List.mem_singleton.mpr rfl)
    simp only at hid
    simp only [cstringFree, hid, ptrId, freeList]
    cases dealloc h (.blk id) (strlen (viewText r.mem) + 1) 1 <;> rfl
  · rw [if_neg h1] at ha
    rw [if_neg h1, if_neg h1]
    by_cases h2 : r.restype = RESULT_HISTOGRAM
    · rw [if_pos h2] at ha
      rw [if_pos h2, if_pos h2]
      have hk : ∀ e ∈ (viewElems r.mem).take r.length, ∃ id, e.key = .blk id := by
        intro e he
        have := ha (e.key, strlen e.keyText + 1, 1) (List.mem_append_right _ (List.mem_map.mpr ⟨e, he, rfl⟩))
        simpa using this
      rw [freeKeys_eq h _ hk, freeList_append]
      cases freeList h (((viewElems r.mem).take r.length).map keyBlock) with
      | error f => rfl
      | ok h' =>
        simp only
        by_cases hz : r.size * HIST_ELEM_SIZE = 0
        · rw [if_pos hz]; simp [vecDrop, hz, freeList]
        · rw [if_neg hz] at ha
          rw [if_neg hz]
          obtain ⟨id, hid⟩ := ha (r.data, r.size * HIST_ELEM_SIZE, HIST_ELEM_ALIGN) (by simp)
          simp only at hid
          rw [hid, vecDrop_eq, if_neg hz]
          simp [ptrId]
    · rw [if_neg h2] at ha
      rw [if_neg h2, if_neg h2]
      by_cases h3 : r.restype = RESULT_CSTATE
      · rw [if_pos h3] at ha
        rw [if_pos h3, if_pos h3]
        by_cases hz : r.size * U64_SIZE = 0
        · rw [if_pos hz]; simp [vecDrop, hz, freeList]
        · rw [if_neg hz] at ha
          rw [if_neg hz]
          obtain ⟨id, hid⟩ := ha (r.data, r.size * U64_SIZE, U64_ALIGN) (by simp)
          simp only at hid
          rw [hid, vecDrop_eq, if_neg hz]
          simp [ptrId]
      · rw [if_neg h3, if_neg h3]; simp [freeList]

/-- **result_free is exact**: on a heap where the result's blocks are live, `CResult::free` succeeds
(every `dealloc` is given the layout the block has — otherwise `dealloc_layout` would make it a
fault) and the heap afterwards is the heap before minus exactly the owned blocks. -/
theorem free_valid {h : Heap} (hu : UniqueIds h) {r : CResult} (hv : Valid h r) :
    free h r = .ok (removeIds h ((ownedBlocks r).map (·.id))) := by
  rw [free_eq_freeList h r hv.allBlk]
  have hp := freeBlocks_perm r
  rw [freeList_ok hu (fun b hb => hv.live b ((mem_freeBlocks_iff r b).mp hb))
    ((hp.map (·.id)).nodup_iff.mpr hv.nodup)]
  congr 1
  apply removeIds_perm_ids
  intro i
  exact (hp.map (·.id)).mem_iff

/-- a second `result_free` of the same result is a fault as soon as the result owns anything -/
theorem free_twice {h : Heap} (hu : UniqueIds h) {r : CResult} (hv : Valid h r) (hne : ownedBlocks r ≠ []) :
    ∃ h' b, free h r = .ok h' ∧ free h' r = .error (.notLive (.blk b)) := by
  have hp := freeBlocks_perm r
  have hne' : freeBlocks r ≠ [] := fun hc => hne (List.Perm.eq_nil (hc ▸ hp.symm))
  obtain ⟨b, bs, hb⟩ := List.exists_cons_of_ne_nil hne'
  have hsub : ∀ x ∈ b :: bs, x ∈ h := fun x hx => hv.live x ((mem_freeBlocks_iff r x).mp (hb ▸ hx))
  have hnd : ((b :: bs).map (·.id)).Nodup := hb ▸ (hp.map (·.id)).nodup_iff.mpr hv.nodup
  obtain ⟨h', h1, h2⟩ := freeList_twice hu hsub hnd
  exact ⟨h', b.id, by rw [free_eq_freeList h r hv.allBlk, hb, h1], by rw [free_eq_freeList h' r hv.allBlk, hb, h2]⟩

end Q1t.Ffi

namespace Q1t.Ffi
open CResult

/-- what building a result does to the allocator: exactly the owned blocks are appended, all fresh -/
structure Built (m m' : HeapSt) (r : CResult) : Prop where
  heap : m'.heap = m.heap ++ ownedBlocks r
  allBlk : AllBlk r
  nodup : ((ownedBlocks r).map (·.id)).Nodup
  fresh : ∀ b ∈ ownedBlocks r, m.next ≤ b.id ∧ b.id < m'.next
  mono : m.next ≤ m'.next

theorem wf_extend {m : HeapSt} (hw : m.WF) {new : List Block} {n' : Nat}
    (hnd : (new.map (·.id)).Nodup) (hf : ∀ b ∈ new, m.next ≤ b.id ∧ b.id < n') (hm : m.next ≤ n') :
    HeapSt.WF ⟨m.heap ++ new, n'⟩ := by
  constructor
  · unfold UniqueIds
    simp only [List.map_append]
    refine List.nodup_append.mpr ⟨hw.unique, hnd, ?_⟩
    intro a ha b hb
    obtain ⟨x, hx, rfl⟩ := List.mem_map.mp ha
    obtain ⟨y, hy, rfl⟩ := List.mem_map.mp hb
    have := hw.below x hx
    have := (hf y hy).1
    omega
  · intro b hb
    rcases List.mem_append.mp hb with h | h
    · have := hw.below b h; simp only; omega
    · exact (hf b h).2

theorem Built.wf {m m' : HeapSt} {r : CResult} (hw : m.WF) (hb : Built m m' r) : m'.WF := by
  have := wf_extend hw hb.nodup hb.fresh hb.mono
  rw [← hb.heap] at this
  exact this

theorem histKeys_spec : ∀ (hist : List (String × Nat)) (m m2 : HeapSt) (es : List HistElem),
    histKeys m hist = some (m2, es) →
      m2.heap = m.heap ++ es.map keyBlock ∧ m.next ≤ m2.next ∧ es.length = hist.length ∧
      (∀ e ∈ es, ∃ id, e.key = .blk id ∧ m.next ≤ id ∧ id < m2.next) ∧
      ((es.map keyBlock).map (·.id)).Nodup := by
  intro hist
  induction hist with
  | nil =>
    intro m m2 es h
    simp only [histKeys, Option.some.injEq, Prod.mk.injEq] at h
    obtain ⟨rfl, rfl⟩ := h
    simp
  | cons kv rest ih =>
    intro m m2 es h
    obtain ⟨k, v⟩ := kv
    simp only [histKeys, toCString] at h
    by_cases hn : hasNul k = true
    · simp [hn] at h
    · simp only [hn, if_false, HeapSt.alloc, Bool.false_eq_true] at h
      cases hr : histKeys ⟨m.heap ++ [⟨m.next, strlen k + 1, 1⟩], m.next + 1⟩ rest with
      | none => simp [hr] at h
      | some pr =>
        obtain ⟨m'', es'⟩ := pr
        simp only [hr, Option.some.injEq, Prod.mk.injEq] at h
        obtain ⟨rfl, rfl⟩ := h
        obtain ⟨h1, h2, h3, h4, h5⟩ := ih _ _ _ hr
        simp only at h1 h2 h4
        refine ⟨?_, by omega, by simp [h3], ?_, ?_⟩
        · rw [h1]; simp [keyBlock, ptrId]
        · intro e he
          rcases List.mem_cons.mp he with rfl | he'
          · exact ⟨m.next, rfl, Nat.le_refl _, by omega⟩
          · obtain ⟨id, hid, hlo, hhi⟩ := h4 e he'
            exact ⟨id, hid, by omega, hhi⟩
        · simp only [List.map_cons, List.nodup_cons]
          refine ⟨?_, h5⟩
          intro hc
          obtain ⟨b, hb, hbid⟩ := List.mem_map.mp hc
          obtain ⟨e, he, rfl⟩ := List.mem_map.mp hb
          obtain ⟨id, hid, hlo, _⟩ := h4 e he
          simp only [keyBlock, hid, ptrId] at hbid
          omega

theorem cstate_ne_cstr : ¬ (RESULT_CSTATE = RESULT_ERROR ∨ RESULT_CSTATE = RESULT_STRING) := by decide
theorem cstate_ne_hist : ¬ (RESULT_CSTATE = RESULT_HISTOGRAM) := by decide
theorem hist_ne_cstr : ¬ (RESULT_HISTOGRAM = RESULT_ERROR ∨ RESULT_HISTOGRAM = RESULT_STRING) := by decide

theorem built_cstring {m : HeapSt} {msg : String} {code : Nat}
    (hc : code = RESULT_ERROR ∨ code = RESULT_STRING) :
    Built m (m.alloc (strlen msg + 1) 1).1 ⟨.blk m.next, 0, 0, code, .cstr msg⟩ := by
  have ho : owned ⟨.blk m.next, 0, 0, code, .cstr msg⟩ = [(.blk m.next, strlen msg + 1, 1)] := by
    unfold owned; rw [if_pos hc]; rfl
  have hob : ownedBlocks ⟨.blk m.next, 0, 0, code, .cstr msg⟩ = [⟨m.next, strlen msg + 1, 1⟩] := by
    unfold ownedBlocks; rw [ho]; rfl
  refine ⟨by rw [hob]; rfl, ?_, by rw [hob]; simp, ?_, by simp [HeapSt.alloc]⟩
  · intro x hx; rw [ho] at hx; exact ⟨m.next, by rw [List.mem_singleton.mp hx]⟩
  · intro b hb; rw [hob] at hb; rw [List.mem_singleton.mp hb]; simp [HeapSt.alloc]

theorem built_empty (m : HeapSt) : Built m m CResult.new := by
  have ho : owned CResult.new = [] := by decide
  have hob : ownedBlocks CResult.new = [] := by unfold ownedBlocks; rw [ho]; rfl
  refine ⟨by rw [hob]; simp, ?_, by rw [hob]; simp, ?_, Nat.le_refl _⟩
  · intro x hx; rw [ho] at hx; cases hx
  · intro b hb; rw [hob] at hb; cases hb

theorem built_cstate (m : HeapSt) (ws : List Nat) : Built m (cState m ws).1 (cState m ws).2 := by
  unfold cState vecAlloc
  by_cases hz : ws.length * U64_SIZE = 0
  · simp only [hz, if_true]
    have ho : owned ⟨.dangling, ws.length, ws.length, RESULT_CSTATE, .words ws⟩ = [] := by
      unfold owned
      dsimp only
      rw [if_neg cstate_ne_cstr, if_neg cstate_ne_hist, if_pos rfl, if_pos hz]
    have hob : ownedBlocks ⟨.dangling, ws.length, ws.length, RESULT_CSTATE, .words ws⟩ = [] := by
      unfold ownedBlocks; rw [ho]; rfl
    refine ⟨by rw [hob]; simp, ?_, by rw [hob]; simp, ?_, Nat.le_refl _⟩
    · intro x hx; rw [ho] at hx; cases hx
    · intro b hb; rw [hob] at hb; cases hb
  · simp only [hz, if_false, HeapSt.alloc]
    have ho : owned ⟨.blk m.next, ws.length, ws.length, RESULT_CSTATE, .words ws⟩ =
        [(.blk m.next, ws.length * U64_SIZE, U64_ALIGN)] := by
      unfold owned
      dsimp only
      rw [if_neg cstate_ne_cstr, if_neg cstate_ne_hist, if_pos rfl, if_neg hz]
    have hob : ownedBlocks ⟨.blk m.next, ws.length, ws.length, RESULT_CSTATE, .words ws⟩ =
        [⟨m.next, ws.length * U64_SIZE, U64_ALIGN⟩] := by
      unfold ownedBlocks; rw [ho]; rfl
    refine ⟨by rw [hob], ?_, by rw [hob]; simp, ?_, by simp⟩
    · intro x hx; rw [ho] at hx; exact ⟨m.next, by rw [List.mem_singleton.mp hx]⟩
    · intro b hb; rw [hob] at hb; rw [List.mem_singleton.mp hb]; simp

theorem built_histogram {m m' : HeapSt} {hist : List (String × Nat)} {r : CResult}
    (h : histogram m hist = some (m', r)) : Built m m' r := by
  unfold histogram vecAlloc at h
  by_cases hz : histCap hist.length * HIST_ELEM_SIZE = 0
  · simp only [hz, if_true, Option.map_eq_some_iff, Prod.mk.injEq, Prod.exists] at h
    obtain ⟨m2, es, hk, rfl, rfl⟩ := h
    obtain ⟨h1, h2, h3, h4, h5⟩ := histKeys_spec _ _ _ _ hk
    have ho : owned ⟨.dangling, hist.length, histCap hist.length, RESULT_HISTOGRAM, .hist es⟩ =
        es.map (fun e => (e.key, strlen e.keyText + 1, 1)) := by
      unfold owned
      dsimp only
      rw [if_neg hist_ne_cstr, if_pos rfl, if_pos hz]
      simp only [viewElems, List.nil_append]
      rw [← h3, List.take_length]
    have hob : ownedBlocks ⟨.dangling, hist.length, histCap hist.length, RESULT_HISTOGRAM, .hist es⟩ =
        es.map keyBlock := by
      unfold ownedBlocks; rw [ho, List.map_map]; rfl
    refine ⟨by rw [hob, h1], ?_, by rw [hob]; exact h5, ?_, h2⟩
    · intro x hx
      rw [ho] at hx
      obtain ⟨e, he, rfl⟩ := List.mem_map.mp hx
      obtain ⟨id, hid, _⟩ := h4 e he
      exact ⟨id, hid⟩
    · intro b hb
      rw [hob] at hb
      obtain ⟨e, he, rfl⟩ := List.mem_map.mp hb
      obtain ⟨id, hid, hlo, hhi⟩ := h4 e he
      simp only [keyBlock, hid, ptrId]
      exact ⟨hlo, hhi⟩
  · simp only [hz, if_false, HeapSt.alloc, Option.map_eq_some_iff, Prod.mk.injEq, Prod.exists] at h
    obtain ⟨m2, es, hk, rfl, rfl⟩ := h
    obtain ⟨h1, h2, h3, h4, h5⟩ := histKeys_spec _ _ _ _ hk
    simp only at h1 h2 h4
    have ho : owned ⟨.blk m.next, hist.length, histCap hist.length, RESULT_HISTOGRAM, .hist es⟩ =
        (.blk m.next, histCap hist.length * HIST_ELEM_SIZE, HIST_ELEM_ALIGN) ::
          es.map (fun e => (e.key, strlen e.keyText + 1, 1)) := by
      unfold owned
      dsimp only
      rw [if_neg hist_ne_cstr, if_pos rfl, if_neg hz]
      simp only [viewElems, List.singleton_append]
      rw [← h3, List.take_length]
    have hob : ownedBlocks ⟨.blk m.next, hist.length, histCap hist.length, RESULT_HISTOGRAM, .hist es⟩ =
        ⟨m.next, histCap hist.length * HIST_ELEM_SIZE, HIST_ELEM_ALIGN⟩ :: es.map keyBlock := by
      unfold ownedBlocks; rw [ho, List.map_cons, List.map_map]; rfl
    refine ⟨by rw [hob, h1]; simp, ?_, ?_, ?_, by omega⟩
    · intro x hx
      rw [ho] at hx
      rcases List.mem_cons.mp hx with rfl | hx'
      · exact ⟨m.next, rfl⟩
      · obtain ⟨e, he, rfl⟩ := List.mem_map.mp hx'
        obtain ⟨id, hid, _⟩ := h4 e he
        exact ⟨id, hid⟩
    · rw [hob]
      simp only [List.map_cons, List.nodup_cons]
      refine ⟨?_, h5⟩
      intro hc
      obtain ⟨b, hb, hbid⟩ := List.mem_map.mp hc
      obtain ⟨e, he, rfl⟩ := List.mem_map.mp hb
      obtain ⟨id, hid, hlo, _⟩ := h4 e he
      simp only [keyBlock, hid, ptrId] at hbid
      omega
    · intro b hb
      rw [hob] at hb
      rcases List.mem_cons.mp hb with rfl | hb'
      · simp only; omega
      · obtain ⟨e, he, rfl⟩ := List.mem_map.mp hb'
        obtain ⟨id, hid, hlo, hhi⟩ := h4 e he
        simp only [keyBlock, hid, ptrId]
        omega

/-- every way an entry point can build a result allocates exactly the blocks the result owns -/
theorem build_spec {m m' : HeapSt} {p : Payload} {r : CResult} (h : build m p = some (m', r)) :
    Built m m' r := by
  cases p with
  | empty =>
    simp only [build, Option.some.injEq, Prod.mk.injEq] at h
    obtain ⟨rfl, rfl⟩ := h
    exact built_empty m
  | error msg =>
    simp only [build, CResult.error, toCString] at h
    by_cases hn : hasNul msg = true
    · simp [hn] at h
    · simp only [hn, Bool.false_eq_true, if_false, Option.map_some, Option.some.injEq, Prod.mk.injEq] at h
      obtain ⟨rfl, rfl⟩ := h
      exact built_cstring (Or.inl rfl)
  | string msg =>
    simp only [build, CResult.string, toCString] at h
    by_cases hn : hasNul msg = true
    · simp [hn] at h
    · simp only [hn, Bool.false_eq_true, if_false, Option.map_some, Option.some.injEq, Prod.mk.injEq] at h
      obtain ⟨rfl, rfl⟩ := h
      exact built_cstring (Or.inr rfl)
  | histogram hist => exact built_histogram h
  | cstate ws =>
    simp only [build, Option.some.injEq] at h
    have := built_cstate m ws
    rw [h] at this
    exact this

end Q1t.Ffi
